(* C18 — proofs about Model/Race.v.
   Part A  equality tests.
   Part B  [mon_sound]: an execution accepted by the ownership monitor has no race.
   Part C  [conn_disciplined]: every schedule of the repaired connection model is accepted by the
           monitor (invariant: the monitor's ownership map is the one the model state prescribes).
   Part D  [race_free]: forall sched, races (trace (step repaired) init sched) = []. *)
From Coq Require Import List Arith Bool Lia.
From JT.Base Require Import Sched.
From JT.Model Require Import Race.
Import ListNotations.

(* ================================================================ Part A *)

Lemma tid_eqb_spec a b : reflect (a = b) (tid_eqb a b).
Proof.
  destruct a as [| | | |i|i], b as [| | | |j|j]; cbn; try (constructor; congruence);
    destruct (Nat.eqb_spec i j); constructor; congruence.
Qed.

Lemma loc_eqb_spec a b : reflect (a = b) (loc_eqb a b).
Proof.
  destruct a as [| | | | | | | |i|i|i|i], b as [| | | | | | | |j|j|j|j]; cbn; try (constructor; congruence);
    destruct (Nat.eqb_spec i j); constructor; congruence.
Qed.

Lemma tok_eqb_spec a b : reflect (a = b) (tok_eqb a b).
Proof.
  destruct a as [| | | | |i|i|i|i|i], b as [| | | | |j|j|j|j|j]; cbn; try (constructor; congruence);
    destruct (Nat.eqb_spec i j); constructor; congruence.
Qed.

Lemma tid_eqb_refl a : tid_eqb a a = true. Proof. destruct (tid_eqb_spec a a); congruence. Qed.
Lemma loc_eqb_refl a : loc_eqb a a = true. Proof. destruct (loc_eqb_spec a a); congruence. Qed.
Lemma tok_eqb_refl a : tok_eqb a a = true. Proof. destruct (tok_eqb_spec a a); congruence. Qed.

Lemma mem_loc_In l ls : mem_loc l ls = true <-> In l ls.
Proof.
  unfold mem_loc. rewrite existsb_exists. split.
  - intros [x [Hx E]]. destruct (loc_eqb_spec l x); [subst; auto | discriminate].
  - intros H. exists l. split; [auto | apply loc_eqb_refl].
Qed.

Lemma mem_tid_In t ts : mem_tid t ts = true <-> In t ts.
Proof.
  unfold mem_tid. rewrite existsb_exists. split.
  - intros [x [Hx E]]. destruct (tid_eqb_spec t x); [subst; auto | discriminate].
  - intros H. exists t. split; [auto | apply tid_eqb_refl].
Qed.

(* ================================================================ Part B: the monitor is sound *)

Definition Inv (s : vcs) (m : mon) : Prop :=
  (forall a, In a (hist s) ->
     match own m (a_loc a) with
     | OFresh => False
     | OThread t => a_ep a <= clk s t (a_tid a)
     | OToken k => exists v, tkv s k = Some v /\ a_ep a <= v (a_tid a)
     | OShared ts => a_w a = true -> forall t, In t ts -> a_ep a <= clk s t (a_tid a)
     end)
  /\ (forall l k, own m l = OToken k -> sent m k = true).

Lemma Inv0 : Inv vc0 mon0.
Proof. split; [intros a [] | intros l k H; discriminate]. Qed.

Lemma updt_same {A} (f : tid -> A) t a : updt f t a t = a.
Proof. unfold updt. now rewrite tid_eqb_refl. Qed.
Lemma updt_other {A} (f : tid -> A) t a x : x <> t -> updt f t a x = f x.
Proof. unfold updt. destruct (tid_eqb_spec x t); congruence. Qed.

Lemma tick_ge t v x : v x <= tick t v x.
Proof. unfold tick, updt. destruct (tid_eqb_spec x t); subst; lia. Qed.
Lemma vjoin_ge_l a b x : a x <= vjoin a b x. Proof. unfold vjoin; lia. Qed.
Lemma vjoin_ge_r a b x : b x <= vjoin a b x. Proof. unfold vjoin; lia. Qed.

(* every goroutine's clock only grows *)
Lemma clk_mono s e t x : clk s t x <= clk (fst (vc_step s e)) t x.
Proof.
  destruct e as [t0 l w|t0 k g|t0 k|t0 u g sh]; cbn [vc_step fst clk].
  - lia.
  - unfold updt. destruct (tid_eqb_spec t t0); subst; [apply tick_ge | lia].
  - destruct (tkv s k) as [v|]; cbn [fst clk]; [|lia].
    unfold updt. destruct (tid_eqb_spec t t0); subst; [apply vjoin_ge_l | lia].
  - unfold updt. destruct (tid_eqb_spec t t0); subst; [apply tick_ge|].
    destruct (tid_eqb_spec t u); subst; [apply vjoin_ge_l | lia].
Qed.

Lemma forallb_In {A} (f : A -> bool) l x : forallb f l = true -> In x l -> f x = true.
Proof. rewrite forallb_forall. auto. Qed.

Lemma owned_by_eq m t l : owned_by m t l = true -> own m l = OThread t.
Proof.
  unfold owned_by. destruct (own m l) as [|t'|k|ts]; try discriminate.
  destruct (tid_eqb_spec t' t); [now subst | discriminate].
Qed.

Lemma filter_nil {A} (f : A -> bool) l : (forall x, In x l -> f x = false) -> filter f l = [].
Proof.
  induction l as [|a l IH]; intros H; cbn; [reflexivity|].
  rewrite (H a (or_introl eq_refl)). apply IH. intros x Hx. apply H. now right.
Qed.

Lemma mon_step_sound s m e m' :
  Inv s m -> mon_step m e = Some m' ->
  snd (vc_step s e) = [] /\ Inv (fst (vc_step s e)) m'.
Proof.
  intros [I1 I2] Hm.
  destruct e as [t l w|t k give|t k|t u give share].
  - (* access *)
    cbn [mon_step] in Hm. cbn [vc_step fst snd].
    destruct (own m l) as [|t'|k|ts] eqn:Eo.
    + (* first touch *)
      injection Hm as <-. split.
      * rewrite filter_nil; [reflexivity|]. intros a Ha. unfold conflict.
        destruct (loc_eqb_spec (a_loc a) l) as [El|]; [|reflexivity].
        specialize (I1 a Ha). rewrite El, Eo in I1. destruct I1.
      * split; cbn [hist own clk tkv sent].
        -- intros a [<-|Ha]; cbn [a_loc a_tid a_ep].
           ++ unfold updl. rewrite loc_eqb_refl. lia.
           ++ specialize (I1 a Ha). unfold updl. destruct (loc_eqb_spec (a_loc a) l) as [El|]; [|exact I1].
              rewrite El, Eo in I1. destruct I1.
        -- intros l0 k. unfold updl. destruct (loc_eqb_spec l0 l); [discriminate | apply I2].
    + (* the owner *)
      destruct (tid_eqb_spec t' t) as [->|]; [|discriminate]. injection Hm as <-. split.
      * rewrite filter_nil; [reflexivity|]. intros a Ha. unfold conflict.
        destruct (loc_eqb_spec (a_loc a) l) as [El|]; [|reflexivity].
        specialize (I1 a Ha). rewrite El, Eo in I1.
        destruct (tid_eqb (a_tid a) t); cbn [negb andb]; [reflexivity|].
        destruct (w || a_w a); cbn [andb]; [|reflexivity].
        apply Nat.leb_le in I1. now rewrite I1.
      * split; cbn [hist own clk tkv sent]; [|exact I2].
        intros a [<-|Ha]; cbn [a_loc a_tid a_ep]; [rewrite Eo; lia | exact (I1 a Ha)].
    + discriminate.
    + (* shared, read only *)
      destruct w; cbn [negb andb] in Hm; [discriminate|].
      destruct (mem_tid t ts) eqn:Et; [|discriminate]. injection Hm as <-.
      apply mem_tid_In in Et. split.
      * rewrite filter_nil; [reflexivity|]. intros a Ha. unfold conflict.
        destruct (loc_eqb_spec (a_loc a) l) as [El|]; [|reflexivity].
        specialize (I1 a Ha). rewrite El, Eo in I1.
        destruct (tid_eqb (a_tid a) t); cbn [negb andb]; [reflexivity|].
        cbn [orb]. destruct (a_w a); cbn [andb]; [|reflexivity].
        specialize (I1 eq_refl t Et). apply Nat.leb_le in I1. now rewrite I1.
      * split; cbn [hist own clk tkv sent]; [|exact I2].
        intros a [<-|Ha]; cbn [a_loc a_tid a_ep a_w]; [rewrite Eo; discriminate | exact (I1 a Ha)].
  - (* send *)
    cbn [mon_step] in Hm. destruct (sent m k) eqn:Es; [discriminate|].
    destruct (forallb (owned_by m t) give) eqn:Eg; [|discriminate]. injection Hm as <-.
    split; [reflexivity|]. cbn [vc_step fst]. split; cbn [hist own clk tkv sent].
    + intros a Ha. specialize (I1 a Ha).
      destruct (mem_loc (a_loc a) give) eqn:Em.
      * apply mem_loc_In in Em. apply (forallb_In _ _ _ Eg), owned_by_eq in Em. rewrite Em in I1.
        exists (clk s t). split; [unfold updk; now rewrite tok_eqb_refl | exact I1].
      * destruct (own m (a_loc a)) as [|t0|k0|ts] eqn:Eo; [exact I1| | |].
        -- unfold updt. destruct (tid_eqb_spec t0 t); subst; [etransitivity; [exact I1 | apply tick_ge] | exact I1].
        -- assert (k0 <> k) by (intros ->; rewrite (I2 _ _ Eo) in Es; discriminate).
           unfold updk. destruct (tok_eqb_spec k0 k); [contradiction | exact I1].
        -- intros Hw t0 Ht0. specialize (I1 Hw t0 Ht0).
           unfold updt. destruct (tid_eqb_spec t0 t); subst; [etransitivity; [exact I1 | apply tick_ge] | exact I1].
    + intros l k0. destruct (mem_loc l give).
      * intros [= <-]. unfold updk. now rewrite tok_eqb_refl.
      * intros H. unfold updk. destruct (tok_eqb k0 k); [reflexivity | exact (I2 _ _ H)].
  - (* receive *)
    cbn [mon_step] in Hm. injection Hm as <-. cbn [vc_step].
    assert (Hmono : forall t0 x, clk s t0 x <= clk (fst (vc_step s (ERecv t k))) t0 x) by (intros; apply clk_mono).
    cbn [vc_step] in Hmono.
    destruct (tkv s k) as [v|] eqn:Ek; cbn [fst snd] in *; (split; [reflexivity|]); split; cbn [hist own clk tkv sent].
    + intros a Ha. specialize (I1 a Ha).
      destruct (own m (a_loc a)) as [|t0|k0|ts] eqn:Eo; [exact I1| | |].
      * etransitivity; [exact I1 | apply Hmono].
      * destruct (tok_eqb_spec k0 k) as [->|].
        -- destruct I1 as [v' [Ev' Hle]]. rewrite Ek in Ev'. injection Ev' as <-.
           rewrite updt_same. etransitivity; [exact Hle | apply vjoin_ge_r].
        -- exact I1.
      * intros Hw t0 Ht0. etransitivity; [exact (I1 Hw t0 Ht0) | apply Hmono].
    + intros l k0. destruct (own m l) as [|t0|k1|ts] eqn:Eo; try discriminate.
      destruct (tok_eqb_spec k1 k); [discriminate|]. intros [= <-]. exact (I2 _ _ Eo).
    + intros a Ha. specialize (I1 a Ha).
      destruct (own m (a_loc a)) as [|t0|k0|ts] eqn:Eo; [exact I1|exact I1| |exact I1].
      destruct (tok_eqb_spec k0 k) as [->|]; [|exact I1].
      destruct I1 as [v' [Ev' _]]. rewrite Ek in Ev'. discriminate.
    + intros l k0. destruct (own m l) as [|t0|k1|ts] eqn:Eo; try discriminate.
      destruct (tok_eqb_spec k1 k); [discriminate|]. intros [= <-]. exact (I2 _ _ Eo).
  - (* go *)
    cbn [mon_step] in Hm. destruct (tid_eqb_spec t u) as [|Htu]; [discriminate|].
    destruct (forallb (owned_by m t) give) eqn:Eg; cbn [andb] in Hm; [|discriminate].
    destruct (forallb (shareable m t) share) eqn:Esh; [|discriminate]. injection Hm as <-.
    split; [reflexivity|].
    assert (Hmono : forall t0 x, clk s t0 x <= clk (fst (vc_step s (EFork t u give share))) t0 x) by (intros; apply clk_mono).
    cbn [vc_step fst] in *. cbn [clk] in Hmono.
    assert (Hu : forall x, clk s t x <= updt (updt (clk s) u (vjoin (clk s u) (clk s t))) t (tick t (clk s t)) u x).
    { intros x. rewrite updt_other by congruence. rewrite updt_same. apply vjoin_ge_r. }
    split; cbn [hist own clk tkv sent].
    + intros a Ha. specialize (I1 a Ha).
      destruct (mem_loc (a_loc a) give) eqn:Em.
      * apply mem_loc_In in Em. apply (forallb_In _ _ _ Eg), owned_by_eq in Em. rewrite Em in I1.
        etransitivity; [exact I1 | apply Hu].
      * destruct (mem_loc (a_loc a) share) eqn:Ems.
        -- apply mem_loc_In in Ems. pose proof (forallb_In _ _ _ Esh Ems) as Hs. unfold shareable in Hs.
           destruct (own m (a_loc a)) as [|t0|k0|ts] eqn:Eo; try discriminate.
           ++ destruct (tid_eqb_spec t0 t) as [->|]; [|discriminate].
              intros Hw t1 [<-|[<-|[]]].
              ** etransitivity; [exact I1 | apply Hu].
              ** etransitivity; [exact I1 | apply Hmono].
           ++ apply mem_tid_In in Hs. intros Hw t1 [<-|Ht1].
              ** etransitivity; [exact (I1 Hw t Hs) | apply Hu].
              ** etransitivity; [exact (I1 Hw t1 Ht1) | apply Hmono].
        -- destruct (own m (a_loc a)) as [|t0|k0|ts] eqn:Eo; [exact I1| |exact I1|].
           ++ etransitivity; [exact I1 | apply Hmono].
           ++ intros Hw t1 Ht1. etransitivity; [exact (I1 Hw t1 Ht1) | apply Hmono].
    + intros l k0. destruct (mem_loc l give); [discriminate|].
      destruct (mem_loc l share); [|apply I2].
      destruct (own m l) as [|t0|k1|ts] eqn:Eo; try discriminate. intros [= <-]. exact (I2 _ _ Eo).
Qed.

Lemma mon_run_sound : forall tr s m m', Inv s m -> mon_run m tr = Some m' -> vc_run s tr = [].
Proof.
  induction tr as [|e tr IH]; intros s m m' HI Hr; cbn [vc_run]; [reflexivity|].
  cbn [mon_run] in Hr. destruct (mon_step m e) as [m1|] eqn:E1; [|discriminate].
  destruct (mon_step_sound s m e m1 HI E1) as [Hn HI1].
  destruct (vc_step s e) as [s1 r]. cbn [fst snd] in *. subst r. cbn [app].
  exact (IH s1 m1 m' HI1 Hr).
Qed.

(* an execution that respects the ownership discipline has no data race *)
Theorem mon_sound : forall tr m', mon_run mon0 tr = Some m' -> races tr = [].
Proof. intros tr m' H. exact (mon_run_sound tr vc0 mon0 m' Inv0 H). Qed.

Lemma mon_run_app : forall a b m,
  mon_run m (a ++ b) = match mon_run m a with Some m1 => mon_run m1 b | None => None end.
Proof.
  induction a as [|e a IH]; intros b m; cbn [app mon_run]; [reflexivity|].
  destruct (mon_step m e); [apply IH | reflexivity].
Qed.

(* ================================================================ Part C: the connection model is disciplined
   [owner_of s l]: who owns location l when the model is in state s (read off the stage of the object:
   a message is with the reader, in msgChan, with the writer, or handed to a caller; ...).  The invariant
   [J s m] says that the monitor's map is exactly that, plus which tokens have not been sent yet.  Each of
   the 20 kinds of step is shown to keep it ([ok_*]); locations the step does not touch are handled by
   the frame lemmas. *)

Definition owner_of (s : st) (l : loc) : owner :=
  match l with
  | LSerial => OThread TWriter
  | LRecord => OThread TWriter
  | LKey => OThread TReader
  | LBuf => OThread TReader
  | LRegistry => OThread TMgr
  | LSessHdr => match sess s with
                | SNone => OFresh | SJoin => OToken KJoin | SMgr => OThread TMgr
                | SAct i => OToken (KAct i) | SW => OThread TWriter end
  | LMsg n => match mst s n with
              | MNone => OFresh | MRead => OThread TReader | MQ => OToken (KMsg n) | MW => OThread TWriter
              | MC i => match cst s i with CDone _ => OThread (TCaller i) | _ => OToken (KReply i) end
              end
  | LAct i => match cst s i with
              | CNone => OFresh | COpQ => OToken (KWrite i) | CActQ => OToken (KAct i) | COut => OThread TWriter
              | CRepl _ => OToken (KReply i) | CDone _ => OThread (TCaller i) end
  | LReply i => match tst s i with
                | TNone => OFresh
                | TRun | TStopped => OThread (TTimer i)
                | TCpl => OToken (KCpl i)
                | TW | TBack => match cst s i with
                                | CRepl l => if loc_eqb l (LReply i) then OToken (KReply i) else OThread TWriter
                                | CDone l => if loc_eqb l (LReply i) then OThread (TCaller i) else OThread TWriter
                                | _ => OThread TWriter end
                end
  | LFin i => match cst s i with
              | CRepl l => if loc_eqb l (LFin i) then OToken (KReply i) else OFresh
              | CDone l => if loc_eqb l (LFin i) then OThread (TCaller i) else OFresh
              | _ => OFresh end
  | LConn | LHandles => OFresh (* not used: see own_rel *)
  end.

Definition own_rel (s : st) (m : mon) (l : loc) : Prop :=
  match l with
  | LConn => exists ts, own m l = OShared ts /\ mem_tid TReader ts = true /\ mem_tid TWriter ts = true /\
                        mem_tid TMgr ts = true /\ mem_tid TMain ts = true /\
                        (forall i, tst s i = TRun -> mem_tid (TTimer i) ts = true)
  | LHandles => exists ts, own m l = OShared ts /\ mem_tid TReader ts = true /\ mem_tid TWriter ts = true
  | _ => own m l = owner_of s l
  end.

Definition cmd_ok (s : st) (m : mon) (i : nat) : Prop :=
  match cst s i with
  | CNone => sent m (KWrite i) = false /\ sent m (KAct i) = false /\ sent m (KReply i) = false /\ tst s i = TNone
  | COpQ => sent m (KAct i) = false /\ sent m (KReply i) = false /\ tst s i = TNone
  | CActQ => sent m (KReply i) = false /\ tst s i = TNone /\ match sess s with SW | SAct _ => True | _ => False end
  | COut => sent m (KReply i) = false
  | CRepl l => own m l = OToken (KReply i)
  | CDone _ => True
  end.

Definition not_reply (s : st) (i : nat) : Prop :=
  match cst s i with CRepl l | CDone l => loc_eqb l (LReply i) = false | _ => True end.

Definition tmr_ok (s : st) (m : mon) (i : nat) : Prop :=
  match tst s i with
  | TNone | TW => sent m (KCpl i) = false
  | TRun => sent m (KCpl i) = false /\ not_reply s i
  | TCpl | TStopped => not_reply s i
  | TBack => True
  end.

Definition msg_ok (s : st) (m : mon) (n : nat) : Prop :=
  match mst s n with MNone | MRead => sent m (KMsg n) = false | _ => True end.

Record J (s : st) (m : mon) : Prop := {
  j_booted : booted s = true;
  j_hdr : hdr s = LSessHdr;
  j_own : forall l, own_rel s m l;
  j_cmd : forall i, cmd_ok s m i;
  j_tmr : forall i, tmr_ok s m i;
  j_msg : forall n, msg_ok s m n;
  j_join : match joinst s with
           | JNone => sent m KJoin = false /\ sent m KJoinAck = false /\ sess s = SNone
           | JSent n => sent m KJoinAck = false /\ mst s n = MRead /\ sess s = SJoin
           | JMgr n => mst s n = MRead
           | JAcked => True
           | JMgrRef n => mst s n = MRead
           | JRefused => True end;
  j_leave : match leavest s with
            | LvNone => sent m KLeave = false /\ sent m KLeaveAck = false /\ sent m KStop = false
            | LvSent => sent m KLeaveAck = false /\ sent m KStop = false
            | LvMgr => sent m KStop = false
            | LvStopped => True end;
  j_reg : registered s = true -> match sess s with SMgr | SW | SAct _ => True | _ => False end;
}.

Definition boot_evs := [EAcc TMain LConn true; EAcc TMain LHandles true; EAcc TMain LSerial true; EAcc TMain LKey true;
             EFork TMain M [] [LConn]; EFork TMain R [LKey] [LConn; LHandles]; EFork TMain W [LSerial] [LConn; LHandles];
             EAcc M LRegistry true; EAcc R LBuf true; EAcc W LRecord true].

Lemma boot_ok : exists m, mon_run mon0 boot_evs = Some m /\ J (set_booted init) m.
Proof.
  eexists. split; [vm_compute; reflexivity|].
  constructor.
  - reflexivity.
  - reflexivity.
  - intros l. destruct l; cbn; try reflexivity.
    + eexists; repeat split. intros i H; discriminate.
    + eexists; repeat split.
  - intros i. cbv. auto.
  - intros i. reflexivity.
  - intros n. reflexivity.
  - cbn. auto.
  - cbn. auto.
  - cbn. discriminate.
Qed.

Lemma reader_free_inv s : reader_free s = true ->
  booted s = true /\ leavest s = LvNone /\ match joinst s with JSent _ | JMgr _ | JMgrRef _ | JRefused => False | _ => True end.
Proof.
  unfold reader_free. destruct (booted s), (leavest s), (joinst s); cbn; intros H; try discriminate; auto.
Qed.

Lemma reader_can_stop_inv s : reader_can_stop s = true ->
  booted s = true /\ leavest s = LvNone /\ match joinst s with JSent _ | JMgr _ | JMgrRef _ => False | _ => True end.
Proof.
  unfold reader_can_stop. destruct (booted s), (leavest s), (joinst s); cbn; intros H; try discriminate; auto.
Qed.

Lemma is_mst_inv s n x : is_mst s n x = true -> mst s n = x.
Proof. unfold is_mst. destruct (mst s n), x; intros H; try discriminate; reflexivity. Qed.

Lemma wrun_inv s : wrun s = true -> booted s = true /\ wst s = WRun.
Proof. unfold wrun. destruct (booted s), (wst s); cbn; intros; try discriminate; auto. Qed.
Lemma wstopping_inv s : wstopping s = true -> booted s = true /\ wst s = WStopping.
Proof. unfold wstopping. destruct (booted s), (wst s); cbn; intros; try discriminate; auto. Qed.

(* a location in transit stays in transit until its token is received *)
Definition not_recv (k : tok) (e : ev) : bool := match e with ERecv _ k' => negb (tok_eqb k' k) | _ => true end.

Lemma tok_stable_step m e m' l k :
  mon_step m e = Some m' -> not_recv k e = true -> own m l = OToken k -> own m' l = OToken k.
Proof.
  intros Hm Hn Ho. destruct e as [t l0 w|t k0 give|t k0|t u give share]; cbn [mon_step] in Hm.
  - destruct (own m l0) as [|t'|k'|ts] eqn:E0.
    + injection Hm as <-. cbn [own]. unfold updl. destruct (loc_eqb_spec l l0); [subst; congruence | exact Ho].
    + destruct (tid_eqb t' t); [injection Hm as <-; exact Ho | discriminate].
    + discriminate.
    + destruct (negb w && mem_tid t ts); [injection Hm as <-; exact Ho | discriminate].
  - destruct (sent m k0); [discriminate|]. destruct (forallb (owned_by m t) give) eqn:Eg; [|discriminate].
    injection Hm as <-. cbn [own]. destruct (mem_loc l give) eqn:Em; [|exact Ho].
    apply mem_loc_In in Em. apply (forallb_In _ _ _ Eg), owned_by_eq in Em. congruence.
  - injection Hm as <-. cbn [own]. rewrite Ho. cbn [not_recv] in Hn.
    destruct (tok_eqb_spec k k0) as [->|]; [|reflexivity]. rewrite tok_eqb_refl in Hn. discriminate.
  - destruct (tid_eqb t u); [discriminate|].
    destruct (forallb (owned_by m t) give) eqn:Eg; cbn [andb] in Hm; [|discriminate].
    destruct (forallb (shareable m t) share) eqn:Es; [|discriminate]. injection Hm as <-. cbn [own].
    destruct (mem_loc l give) eqn:Em.
    + apply mem_loc_In in Em. apply (forallb_In _ _ _ Eg), owned_by_eq in Em. congruence.
    + destruct (mem_loc l share) eqn:Ems; [|exact Ho]. rewrite Ho. reflexivity.
Qed.

Lemma tok_stable : forall evs m m' l k,
  mon_run m evs = Some m' -> forallb (not_recv k) evs = true -> own m l = OToken k -> own m' l = OToken k.
Proof.
  induction evs as [|e evs IH]; intros m m' l k Hr Hn Ho; cbn [mon_run] in Hr.
  - injection Hr as <-. exact Ho.
  - cbn [forallb] in Hn. apply andb_prop in Hn. destruct Hn as [Hn1 Hn2].
    destruct (mon_step m e) as [m1|] eqn:E1; [|discriminate].
    exact (IH m1 m' l k Hr Hn2 (tok_stable_step m e m1 l k E1 Hn1 Ho)).
Qed.

(* ---- frame lemmas: what a list of events cannot change *)
Definition carriers (k : tok) : list loc :=
  match k with
  | KJoin => [LSessHdr] | KAct i => [LAct i; LSessHdr] | KWrite i => [LAct i]
  | KCpl i => [LReply i] | KMsg n => [LMsg n] | _ => []
  end.

Definition carried (l : loc) (k : tok) : Prop :=
  match k with KReply _ => True | _ => mem_loc l (carriers k) = true end.

Lemma owner_tok s l k : owner_of s l = OToken k -> carried l k.
Proof.
  unfold carried.
  destruct l as [| | | | | | | |n|i|i|i]; cbn [owner_of]; try discriminate.
  - destruct (sess s); try discriminate; intros [= <-]; cbn; rewrite ?Nat.eqb_refl; auto.
  - destruct (mst s n) as [| | | |j]; try discriminate; try (intros [= <-]; cbn; rewrite ?Nat.eqb_refl; auto).
    destruct (cst s j); try discriminate; intros [= <-]; exact I.
  - destruct (cst s i); intros [= <-]; cbn; rewrite ?Nat.eqb_refl; auto.
  - destruct (tst s i); try discriminate; try (intros [= <-]; cbn; rewrite ?Nat.eqb_refl; auto);
      destruct (cst s i); try discriminate; destruct (loc_eqb _ _); intros [= <-]; exact I.
  - destruct (cst s i); try discriminate; destruct (loc_eqb _ _); try discriminate; intros [= <-]; exact I.
Qed.

Definition quiet (fresh : bool) (l : loc) (e : ev) : bool :=
  match e with
  | EAcc _ l' _ => if fresh then negb (loc_eqb l' l) else true
  | ESend _ _ g => negb (mem_loc l g)
  | ERecv _ k => match k with KReply _ => false | _ => negb (mem_loc l (carriers k)) end
  | EFork _ _ g sh => negb (mem_loc l g) && negb (mem_loc l sh)
  end.

Lemma frame_step m e m1 l fresh :
  mon_step m e = Some m1 -> quiet fresh l e = true ->
  (fresh = false -> own m l <> OFresh) ->
  (forall k, own m l = OToken k -> carried l k) ->
  own m1 l = own m l.
Proof.
  intros Hm Hq Hf Hk. destruct e as [t l0 w|t k0 give|t k0|t u give share]; cbn [mon_step quiet] in *.
  - destruct (own m l0) as [|t'|k'|ts] eqn:E0.
    + injection Hm as <-. cbn [own]. unfold updl. destruct (loc_eqb_spec l l0) as [->|]; [|reflexivity].
      destruct fresh; [rewrite loc_eqb_refl in Hq; discriminate | now destruct (Hf eq_refl)].
    + destruct (tid_eqb t' t); [injection Hm as <-; reflexivity | discriminate].
    + discriminate.
    + destruct (negb w && mem_tid t ts); [injection Hm as <-; reflexivity | discriminate].
  - destruct (sent m k0); [discriminate|]. destruct (forallb (owned_by m t) give); [|discriminate].
    injection Hm as <-. cbn [own]. destruct (mem_loc l give); [discriminate | reflexivity].
  - injection Hm as <-. cbn [own]. destruct (own m l) as [|t'|k'|ts] eqn:E0; try reflexivity.
    destruct (tok_eqb_spec k' k0) as [->|]; [|reflexivity].
    specialize (Hk _ eq_refl). unfold carried in Hk. destruct k0; try discriminate; rewrite Hk in Hq; discriminate.
  - destruct (tid_eqb t u); [discriminate|].
    destruct (forallb (owned_by m t) give && forallb (shareable m t) share); [|discriminate].
    injection Hm as <-. cbn [own].
    destruct (mem_loc l give); [discriminate|]. destruct (mem_loc l share); [discriminate | reflexivity].
Qed.

Lemma frame_own : forall evs m m' l fresh,
  mon_run m evs = Some m' -> forallb (quiet fresh l) evs = true ->
  (fresh = false -> own m l <> OFresh) ->
  (forall k, own m l = OToken k -> carried l k) ->
  own m' l = own m l.
Proof.
  induction evs as [|e evs IH]; intros m m' l fresh Hr Hq Hf Hk; cbn [mon_run] in Hr.
  - injection Hr as <-. reflexivity.
  - cbn [forallb] in Hq. apply andb_prop in Hq. destruct Hq as [Hq1 Hq2].
    destruct (mon_step m e) as [m1|] eqn:E1; [|discriminate].
    pose proof (frame_step m e m1 l fresh E1 Hq1 Hf Hk) as H1.
    rewrite <- H1. apply (IH m1 m' l fresh Hr Hq2); rewrite H1; assumption.
Qed.

Lemma sent_step m e m1 k :
  mon_step m e = Some m1 -> (match e with ESend _ k' _ => negb (tok_eqb k k') | _ => true end) = true ->
  sent m1 k = sent m k.
Proof.
  intros Hm Hq. destruct e as [t l0 w|t k0 give|t k0|t u give share]; cbn [mon_step] in Hm.
  - destruct (own m l0) as [|t'|k'|ts]; try discriminate.
    + injection Hm as <-. reflexivity.
    + destruct (tid_eqb t' t); [injection Hm as <-; reflexivity | discriminate].
    + destruct (negb w && mem_tid t ts); [injection Hm as <-; reflexivity | discriminate].
  - destruct (sent m k0); [discriminate|]. destruct (forallb (owned_by m t) give); [|discriminate].
    injection Hm as <-. cbn [sent]. unfold updk. destruct (tok_eqb k k0); [discriminate | reflexivity].
  - injection Hm as <-. reflexivity.
  - destruct (tid_eqb t u); [discriminate|].
    destruct (forallb (owned_by m t) give && forallb (shareable m t) share); [|discriminate].
    injection Hm as <-. reflexivity.
Qed.

Definition not_send (k : tok) (e : ev) : bool := match e with ESend _ k' _ => negb (tok_eqb k k') | _ => true end.

Lemma frame_sent : forall evs m m' k,
  mon_run m evs = Some m' -> forallb (not_send k) evs = true -> sent m' k = sent m k.
Proof.
  induction evs as [|e evs IH]; intros m m' k Hr Hq; cbn [mon_run] in Hr.
  - injection Hr as <-. reflexivity.
  - cbn [forallb] in Hq. apply andb_prop in Hq. destruct Hq as [Hq1 Hq2].
    destruct (mon_step m e) as [m1|] eqn:E1; [|discriminate].
    rewrite (IH m1 m' k Hr Hq2). exact (sent_step m e m1 k E1 Hq1).
Qed.

Lemma own_frame s m evs m' l fresh :
  own m l = owner_of s l -> mon_run m evs = Some m' -> forallb (quiet fresh l) evs = true ->
  (fresh = false -> owner_of s l <> OFresh) -> own m' l = owner_of s l.
Proof.
  intros Ho Hr Hq Hf. rewrite <- Ho. apply (frame_own evs m m' l fresh Hr Hq).
  - rewrite Ho. exact Hf.
  - intros k Hk. rewrite Ho in Hk. exact (owner_tok s l k Hk).
Qed.

Definition sess_live (s : st) : Prop := match sess s with SW | SAct _ => True | _ => False end.

Lemma cmd_frame s m s' m' evs i :
  cmd_ok s m i -> mon_run m evs = Some m' ->
  cst s' i = cst s i -> tst s' i = tst s i -> (sess_live s -> sess_live s') ->
  forallb (not_send (KWrite i)) evs = true -> forallb (not_send (KAct i)) evs = true ->
  forallb (not_send (KReply i)) evs = true -> forallb (not_recv (KReply i)) evs = true ->
  cmd_ok s' m' i.
Proof.
  intros Hc Hr Ec Et Hs H1 H2 H3 H4. unfold cmd_ok in *. rewrite Ec, Et.
  rewrite (frame_sent evs m m' _ Hr H1), (frame_sent evs m m' _ Hr H2), (frame_sent evs m m' _ Hr H3).
  destruct (cst s i) as [| | | |l|l]; try exact Hc.
  - destruct Hc as [? [? ?]]. repeat split; auto. apply Hs. assumption.
  - exact (tok_stable evs m m' l _ Hr H4 Hc).
Qed.

Lemma tmr_frame s m s' m' evs i :
  tmr_ok s m i -> mon_run m evs = Some m' ->
  tst s' i = tst s i -> cst s' i = cst s i -> forallb (not_send (KCpl i)) evs = true ->
  tmr_ok s' m' i.
Proof.
  intros Hc Hr Et Ec H1. unfold tmr_ok, not_reply in *. rewrite Et, Ec.
  rewrite (frame_sent evs m m' _ Hr H1). exact Hc.
Qed.

Lemma msg_frame s m s' m' evs n :
  msg_ok s m n -> mon_run m evs = Some m' ->
  mst s' n = mst s n -> forallb (not_send (KMsg n)) evs = true -> msg_ok s' m' n.
Proof.
  intros Hc Hr Et H1. unfold msg_ok in *. rewrite Et. rewrite (frame_sent evs m m' _ Hr H1). exact Hc.
Qed.

Ltac msimp := cbn [mon_run mon_step own sent updl updk mem_loc existsb forallb owned_by shareable
                   loc_eqb tok_eqb tid_eqb negb andb orb R W M app].

Ltac jdestruct HJ :=
  unfold R, W, M in *;
  destruct HJ as [Jb Jh Jo Jc Jt Jm Jj Jl Jr];
  destruct (Jo LConn) as [tsC [HC [HCr [HCw [HCm [HCM HCt]]]]]];
  destruct (Jo LHandles) as [tsH [HH [HHr HHw]]];
  pose proof (Jo LSerial) as HSer; pose proof (Jo LRecord) as HRec; pose proof (Jo LKey) as HKey;
  pose proof (Jo LBuf) as HBuf; pose proof (Jo LRegistry) as HReg; pose proof (Jo LSessHdr) as HSess;
  cbn [own_rel owner_of] in HSer, HRec, HKey, HBuf, HReg, HSess.

(* own_rel for LConn / LHandles when nothing is shared further and no new timer runs *)
Lemma conn_frame s m s' m' evs :
  own_rel s m LConn -> mon_run m evs = Some m' -> forallb (quiet false LConn) evs = true ->
  (forall i, tst s' i = TRun -> tst s i = TRun) -> own_rel s' m' LConn.
Proof.
  intros [ts [Ho [Hr1 [Hw1 [Hm1 [HM1 Ht]]]]]] Hr Hq Hsub. exists ts.
  rewrite (frame_own evs m m' LConn false Hr Hq); [|intros _; rewrite Ho; discriminate | intros k Hk; rewrite Ho in Hk; discriminate].
  repeat split; auto.
Qed.

Lemma handles_frame s m s' m' evs :
  own_rel s m LHandles -> mon_run m evs = Some m' -> forallb (quiet false LHandles) evs = true ->
  own_rel s' m' LHandles.
Proof.
  intros [ts [Ho [Hr1 Hw1]]] Hr Hq. exists ts.
  rewrite (frame_own evs m m' LHandles false Hr Hq); [|intros _; rewrite Ho; discriminate | intros k Hk; rewrite Ho in Hk; discriminate].
  repeat split; auto.
Qed.

Lemma updn_same {A} (f : nat -> A) n a : updn f n a n = a.
Proof. unfold updn. now rewrite Nat.eqb_refl. Qed.

Ltac inv_some H := match type of H with Some _ = Some _ => injection H as <- <- | None = Some _ => discriminate H end.

Ltac neq_facts :=
  repeat match goal with
  | H : ?a <> ?b |- _ =>
      let H1 := fresh "Hne" in let H2 := fresh "Hne" in
      assert (H1 : Nat.eqb a b = false) by (apply Nat.eqb_neq; exact H);
      assert (H2 : Nat.eqb b a = false) by (apply Nat.eqb_neq; intro; apply H; auto);
      clear H
  end.

Ltac rw_neq := repeat match goal with H : Nat.eqb _ _ = false |- _ => rewrite H end.

Ltac qsolve :=
  cbn [forallb quiet not_send not_recv mem_loc existsb carriers loc_eqb tok_eqb negb andb orb app];
  rw_neq; rewrite ?Nat.eqb_refl; reflexivity.

(* goal: own m' l = <owner_of s l, possibly unfolded>, l not given/received by the events *)
Ltac own_fr s m Jo Hrun fresh :=
  let l := match goal with |- own_rel _ _ ?l => l | |- own _ ?l = _ => l end in
  refine (own_frame s m _ _ l fresh (Jo l) Hrun _ _); [qsolve | first [discriminate | intros _; discriminate | idtac]].

Ltac sset := cbn [booted hdr mst cst tst joinst leavest registered sess wst
                  set_booted set_mst set_cst set_tst set_joinst set_leavest set_registered set_sess set_wst set_hdr].

Lemma ok_RRead n s m s' evs : J s m -> step repaired s (RRead n) = Some (s', evs) ->
  exists m', mon_run m evs = Some m' /\ J s' m'.
Proof.
  intros HJ Hs. cbn [step] in Hs.
  destruct (reader_free s) eqn:Hrf; cbn [andb] in Hs; [|discriminate].
  destruct (is_mst s n MNone) eqn:Hm; [|discriminate]. inv_some Hs.
  apply is_mst_inv in Hm. apply reader_free_inv in Hrf. destruct Hrf as [Hb [Hlv Hjn]].
  jdestruct HJ.
  pose proof (Jo (LMsg n)) as HM. cbn in HM. rewrite Hm in HM.
  match goal with |- exists m', mon_run m ?E = _ /\ _ => eassert (Hrun : mon_run m E = Some _) end.
  { msimp. rewrite HC. msimp. rewrite HCr. msimp. rewrite HBuf. msimp. rewrite HH. msimp. rewrite HHr. msimp.
    rewrite HM. reflexivity. }
  eexists. split; [exact Hrun|].
  constructor.
  - exact Jb.
  - exact Jh.
  - intros l. destruct l as [| | | | | | | |n0|i0|i0|i0].
    + apply (conn_frame s m _ _ _ (Jo LConn) Hrun); [qsolve | intros i H; exact H].
    + apply (handles_frame s m _ _ _ (Jo LHandles) Hrun); qsolve.
    + own_fr s m Jo Hrun false.
    + own_fr s m Jo Hrun false.
    + own_fr s m Jo Hrun false.
    + own_fr s m Jo Hrun false.
    + own_fr s m Jo Hrun false.
    + own_fr s m Jo Hrun true.
    + destruct (Nat.eq_dec n0 n) as [->|Hn].
      * cbn. rewrite updn_same. unfold updl. now rewrite loc_eqb_refl.
      * neq_facts. cbn [own_rel owner_of]. sset. unfold updn. rw_neq. own_fr s m Jo Hrun true.
    + own_fr s m Jo Hrun true.
    + own_fr s m Jo Hrun true.
    + own_fr s m Jo Hrun true.
  - intros i. apply (cmd_frame s m _ _ _ i (Jc i) Hrun); try reflexivity; auto.
  - intros i. apply (tmr_frame s m _ _ _ i (Jt i) Hrun); reflexivity.
  - intros n0. destruct (Nat.eq_dec n0 n) as [->|Hn].
    + unfold msg_ok. sset. rewrite updn_same. pose proof (Jm n) as H0. unfold msg_ok in H0. rewrite Hm in H0. exact H0.
    + neq_facts. apply (msg_frame s m _ _ _ n0 (Jm n0) Hrun); [sset; unfold updn; rw_neq; reflexivity | reflexivity].
  - sset. destruct (joinst s) as [|n0|n0| |n0|]; try exact Jj; try contradiction.
  - exact Jl.
  - exact Jr.
Qed.

Lemma updl_same {A} (f : loc -> A) l a : updl f l a l = a.
Proof. unfold updl. now rewrite loc_eqb_refl. Qed.
Lemma updk_same {A} (f : tok -> A) k a : updk f k a k = a.
Proof. unfold updk. now rewrite tok_eqb_refl. Qed.

Lemma mem_tid_cons t a ts : mem_tid t (a :: ts) = tid_eqb t a || mem_tid t ts.
Proof. reflexivity. Qed.

Ltac mfacts := repeat match goal with
  | H : own ?m ?l = _ |- context [own ?m ?l] => rewrite H
  | H : sent ?m ?k = _ |- context [sent ?m ?k] => rewrite H
  | H : mem_tid ?t ?ts = true |- context [mem_tid ?t ?ts] => rewrite H
  end.
Ltac mgo := repeat first [progress msimp | progress mfacts | rewrite Nat.eqb_refl | rewrite updl_same | rewrite updk_same | rewrite mem_tid_cons | progress unfold owned_by, shareable].
Ltac start_run :=
  match goal with |- exists m', mon_run ?m ?E = _ /\ _ => eassert (Hrun : mon_run m E = Some _) end.
Ltac start_run_in :=
  match goal with |- exists m', mon_run ?m ?E = _ /\ _ => eassert (Hrun : mon_run m E = Some _) end.
Ltac sstep H := cbn [step repaired v_share_header v_clear_handles v_log_serial v_alias_buf v_share_merged app negb] in H.
Ltac conn_tst :=
  let i1 := fresh "i1" in let H := fresh "H" in
  intros i1 H;
  first [ exact H
        | revert H; sset; unfold updn;
          match goal with |- context [Nat.eqb i1 ?i] => destruct (Nat.eqb_spec i1 i) end;
          [intros; try discriminate; try congruence | auto] ].

Ltac frames s m Jo Hrun :=
  first [ apply (conn_frame s m _ _ _ (Jo LConn) Hrun); [qsolve | conn_tst]
        | apply (handles_frame s m _ _ _ (Jo LHandles) Hrun); qsolve
        | solve [own_fr s m Jo Hrun true]
        | solve [own_fr s m Jo Hrun false] ].

Lemma ok_RJoinSend n s m s' evs : J s m -> step repaired s (RJoinSend n) = Some (s', evs) ->
  exists m', mon_run m evs = Some m' /\ J s' m'.
Proof.
  intros HJ Hs. sstep Hs.
  destruct (reader_free s) eqn:Hrf; cbn [andb] in Hs; [|discriminate].
  destruct (is_mst s n MRead) eqn:Hm; cbn [andb] in Hs; [|discriminate].
  destruct (joinst s) eqn:Hjs; try discriminate. inv_some Hs.
  apply is_mst_inv in Hm. apply reader_free_inv in Hrf. destruct Hrf as [Hb [Hlv _]].
  jdestruct HJ. rewrite Hjs in Jj. destruct Jj as [Jj1 [Jj2 Hsess]]. rewrite Hsess in HSess.
  pose proof (Jo (LMsg n)) as HM. cbn in HM. rewrite Hm in HM.
  start_run. { mgo. reflexivity. }
  eexists. split; [exact Hrun|].
  constructor.
  - exact Jb.
  - exact Jh.
  - intros l. destruct l as [| | | | | | | |n0|i0|i0|i0]; try solve [frames s m Jo Hrun].
    + reflexivity.
    + destruct (Nat.eq_dec n0 n) as [->|Hn].
      * refine (own_frame s m _ _ (LMsg n) false (Jo (LMsg n)) Hrun _ _); [qsolve|]. cbn. rewrite Hm. discriminate.
      * neq_facts. frames s m Jo Hrun.
  - intros i. apply (cmd_frame s m _ _ _ i (Jc i) Hrun); try reflexivity.
    unfold sess_live. rewrite Hsess. contradiction.
  - intros i. apply (tmr_frame s m _ _ _ i (Jt i) Hrun); reflexivity.
  - intros n0. apply (msg_frame s m _ _ _ n0 (Jm n0) Hrun); reflexivity.
  - sset. cbn [sent updk tok_eqb]. auto.
  - exact Jl.
  - sset. intros H. specialize (Jr H). rewrite Hsess in Jr. exact Jr.
Qed.

Lemma ok_MJoin ok s m s' evs : J s m -> step repaired s (MJoin ok) = Some (s', evs) ->
  exists m', mon_run m evs = Some m' /\ J s' m'.
Proof.
  intros HJ Hs. sstep Hs.
  destruct (joinst s) as [|n|n| |n|] eqn:Hjs; try discriminate.
  jdestruct HJ. rewrite Hjs in Jj. destruct Jj as [Jj1 [Jj2 Hsess]]. rewrite Hsess in HSess.
  destruct ok; inv_some Hs.
  - (* the key is free: registered *)
    start_run. { mgo. reflexivity. }
    eexists. split; [exact Hrun|].
    constructor.
    + exact Jb.
    + exact Jh.
    + intros l. destruct l as [| | | | | | | |n0|i0|i0|i0]; try solve [frames s m Jo Hrun].
      cbn. rewrite HSess. reflexivity.
    + intros i. apply (cmd_frame s m _ _ _ i (Jc i) Hrun); try reflexivity.
      unfold sess_live. rewrite Hsess. contradiction.
    + intros i. apply (tmr_frame s m _ _ _ i (Jt i) Hrun); reflexivity.
    + intros n0. apply (msg_frame s m _ _ _ n0 (Jm n0) Hrun); reflexivity.
    + sset. exact Jj2.
    + exact Jl.
    + sset. auto.
  - (* the key is taken: refused; the closure's header copy stays with the manager *)
    start_run. { mgo. reflexivity. }
    eexists. split; [exact Hrun|].
    constructor.
    + exact Jb.
    + exact Jh.
    + intros l. destruct l as [| | | | | | | |n0|i0|i0|i0]; try solve [frames s m Jo Hrun].
      cbn. rewrite HSess. reflexivity.
    + intros i. apply (cmd_frame s m _ _ _ i (Jc i) Hrun); try reflexivity.
      unfold sess_live. rewrite Hsess. contradiction.
    + intros i. apply (tmr_frame s m _ _ _ i (Jt i) Hrun); reflexivity.
    + intros n0. apply (msg_frame s m _ _ _ n0 (Jm n0) Hrun); reflexivity.
    + sset. exact Jj2.
    + exact Jl.
    + sset. intros H. specialize (Jr H). rewrite Hsess in Jr. contradiction.
Qed.

Lemma ok_RJoinAck s m s' evs : J s m -> step repaired s RJoinAck = Some (s', evs) ->
  exists m', mon_run m evs = Some m' /\ J s' m'.
Proof.
  intros HJ Hs. sstep Hs.
  destruct (joinst s) as [|n|n| |n|] eqn:Hjs; try discriminate; inv_some Hs;
    jdestruct HJ; rewrite Hjs in Jj;
    (pose proof (Jo (LMsg n)) as HM; cbn in HM; rewrite Jj in HM).
  - (* joined *)
    start_run. { mgo. reflexivity. }
    eexists. split; [exact Hrun|].
    constructor.
    + exact Jb.
    + exact Jh.
    + intros l. destruct l as [| | | | | | | |n0|i0|i0|i0]; try solve [frames s m Jo Hrun].
      destruct (Nat.eq_dec n0 n) as [->|Hn].
      * refine (own_frame s m _ _ (LMsg n) false (Jo (LMsg n)) Hrun _ _); [qsolve|]. cbn. rewrite Jj. discriminate.
      * neq_facts. frames s m Jo Hrun.
    + intros i. apply (cmd_frame s m _ _ _ i (Jc i) Hrun); try reflexivity. auto.
    + intros i. apply (tmr_frame s m _ _ _ i (Jt i) Hrun); reflexivity.
    + intros n0. apply (msg_frame s m _ _ _ n0 (Jm n0) Hrun); reflexivity.
    + sset. exact I.
    + exact Jl.
    + exact Jr.
  - (* refused *)
    start_run. { mgo. reflexivity. }
    eexists. split; [exact Hrun|].
    constructor.
    + exact Jb.
    + exact Jh.
    + intros l. destruct l as [| | | | | | | |n0|i0|i0|i0]; try solve [frames s m Jo Hrun].
      destruct (Nat.eq_dec n0 n) as [->|Hn].
      * refine (own_frame s m _ _ (LMsg n) false (Jo (LMsg n)) Hrun _ _); [qsolve|]. cbn. rewrite Jj. discriminate.
      * neq_facts. frames s m Jo Hrun.
    + intros i. apply (cmd_frame s m _ _ _ i (Jc i) Hrun); try reflexivity. auto.
    + intros i. apply (tmr_frame s m _ _ _ i (Jt i) Hrun); reflexivity.
    + intros n0. apply (msg_frame s m _ _ _ n0 (Jm n0) Hrun); reflexivity.
    + sset. exact I.
    + exact Jl.
    + exact Jr.
Qed.

Lemma ok_RPush n s m s' evs : J s m -> step repaired s (RPush n) = Some (s', evs) ->
  exists m', mon_run m evs = Some m' /\ J s' m'.
Proof.
  intros HJ Hs. sstep Hs.
  destruct (reader_free s) eqn:Hrf; cbn [andb] in Hs; [|discriminate].
  destruct (is_mst s n MRead) eqn:Hm; cbn [andb] in Hs; [|discriminate]. inv_some Hs.
  apply is_mst_inv in Hm. apply reader_free_inv in Hrf. destruct Hrf as [Hb [Hlv Hjn]].
  jdestruct HJ.
  pose proof (Jo (LMsg n)) as HM. cbn in HM. rewrite Hm in HM.
  pose proof (Jm n) as HS. unfold msg_ok in HS. rewrite Hm in HS.
  start_run. { mgo. reflexivity. }
  eexists. split; [exact Hrun|].
  constructor.
  - exact Jb.
  - exact Jh.
  - intros l. destruct l as [| | | | | | | |n0|i0|i0|i0]; try solve [frames s m Jo Hrun].
    destruct (Nat.eq_dec n0 n) as [->|Hn].
    + cbn. rewrite updn_same, Nat.eqb_refl. reflexivity.
    + neq_facts. cbn [own_rel owner_of]. sset. unfold updn. rw_neq. frames s m Jo Hrun.
  - intros i. apply (cmd_frame s m _ _ _ i (Jc i) Hrun); try reflexivity. auto.
  - intros i. apply (tmr_frame s m _ _ _ i (Jt i) Hrun); reflexivity.
  - intros n0. destruct (Nat.eq_dec n0 n) as [->|Hn].
    + unfold msg_ok. sset. rewrite updn_same. exact I.
    + neq_facts. apply (msg_frame s m _ _ _ n0 (Jm n0) Hrun); [sset; unfold updn; rw_neq; reflexivity | qsolve].
  - sset. destruct (joinst s) as [|n0|n0| |n0|]; try exact Jj; try contradiction.
  - exact Jl.
  - exact Jr.
Qed.

Lemma ok_RStop s m s' evs : J s m -> step repaired s RStop = Some (s', evs) ->
  exists m', mon_run m evs = Some m' /\ J s' m'.
Proof.
  intros HJ Hs. sstep Hs.
  destruct (reader_can_stop s) eqn:Hrf; [|discriminate].
  apply reader_can_stop_inv in Hrf. destruct Hrf as [Hb [Hlv Hjn]].
  jdestruct HJ. rewrite Hlv in Jl. destruct Jl as [Jl1 [Jl2 Jl3]].
  assert (Hcommon : forall s1 evs1 lv, (lv = LvSent \/ lv = LvStopped) -> s1 = set_leavest s lv ->
            (exists m', mon_run m evs1 = Some m' /\
                        (forall l, own_rel s m' l) /\ (forall i, cmd_ok s m' i) /\ (forall i, tmr_ok s m' i) /\ (forall n, msg_ok s m' n) /\
                        sent m' KJoin = sent m KJoin /\ sent m' KJoinAck = sent m KJoinAck /\
                        (lv = LvSent -> sent m' KLeaveAck = false /\ sent m' KStop = false)) ->
            exists m', mon_run m evs1 = Some m' /\ J s1 m').
  { intros s1 evs1 lv Hlvc -> [m' [Hr [Ho [Hc [Ht [Hm [Hs1 [Hs2 Hs3]]]]]]]]. exists m'. split; [exact Hr|].
    constructor; sset; auto.
    - destruct (joinst s); rewrite ?Hs1, ?Hs2; exact Jj.
    - destruct Hlvc as [->| ->]; [apply Hs3; reflexivity | exact I]. }
  destruct (joinst s) as [|n|n| |n|] eqn:Hjs; try contradiction; inv_some Hs.
  all: refine (Hcommon _ _ _ _ eq_refl _); [auto|].
  all: (start_run_in; [mgo; reflexivity|]); eexists; (split; [exact Hrun|]);
       (split; [intros l; destruct l as [| | | | | | | |n0|i0|i0|i0]; solve [frames s m Jo Hrun]|]);
       (split; [intros i; apply (cmd_frame s m _ _ _ i (Jc i) Hrun); try reflexivity; auto|]);
       (split; [intros i; apply (tmr_frame s m _ _ _ i (Jt i) Hrun); reflexivity|]);
       (split; [intros n0; apply (msg_frame s m _ _ _ n0 (Jm n0) Hrun); reflexivity|]);
       cbn [sent updk tok_eqb]; repeat split; auto; try discriminate.
Qed.

Lemma ok_MLeave s m s' evs : J s m -> step repaired s MLeave = Some (s', evs) ->
  exists m', mon_run m evs = Some m' /\ J s' m'.
Proof.
  intros HJ Hs. sstep Hs.
  destruct (leavest s) eqn:Hlv; try discriminate. inv_some Hs.
  jdestruct HJ. rewrite Hlv in Jl. destruct Jl as [Jl2 Jl3].
  start_run. { mgo. reflexivity. }
  eexists. split; [exact Hrun|].
  constructor.
  - exact Jb.
  - exact Jh.
  - intros l. destruct l as [| | | | | | | |n0|i0|i0|i0]; solve [frames s m Jo Hrun].
  - intros i. apply (cmd_frame s m _ _ _ i (Jc i) Hrun); try reflexivity. auto.
  - intros i. apply (tmr_frame s m _ _ _ i (Jt i) Hrun); reflexivity.
  - intros n0. apply (msg_frame s m _ _ _ n0 (Jm n0) Hrun); reflexivity.
  - exact Jj.
  - sset. cbn [sent updk tok_eqb]. auto.
  - sset. discriminate.
Qed.

Lemma ok_RStop2 s m s' evs : J s m -> step repaired s RStop2 = Some (s', evs) ->
  exists m', mon_run m evs = Some m' /\ J s' m'.
Proof.
  intros HJ Hs. sstep Hs.
  destruct (leavest s) eqn:Hlv; try discriminate. inv_some Hs.
  jdestruct HJ. rewrite Hlv in Jl.
  start_run. { mgo. reflexivity. }
  eexists. split; [exact Hrun|].
  constructor.
  - exact Jb.
  - exact Jh.
  - intros l. destruct l as [| | | | | | | |n0|i0|i0|i0]; solve [frames s m Jo Hrun].
  - intros i. apply (cmd_frame s m _ _ _ i (Jc i) Hrun); try reflexivity. auto.
  - intros i. apply (tmr_frame s m _ _ _ i (Jt i) Hrun); reflexivity.
  - intros n0. apply (msg_frame s m _ _ _ n0 (Jm n0) Hrun); reflexivity.
  - exact Jj.
  - sset. exact I.
  - exact Jr.
Qed.

(* goal own_rel s' m' l (an equation): through owner_of s l *)
Ltac via_old s m Jo Hrun :=
  match goal with
  | |- own_rel ?s' ?m' ?l => change (own m' l = owner_of s' l); transitivity (owner_of s l);
       [first [solve [own_fr s m Jo Hrun true] | solve [own_fr s m Jo Hrun false]] | symmetry]
  end.

(* owner_of (LMsg n) only looks at whether cst i is CDone *)
Lemma owner_msg_cst s s' n :
  mst s' n = mst s n ->
  (forall j, mst s n = MC j ->
     match cst s' j, cst s j with CDone _, CDone _ => True | CDone _, _ | _, CDone _ => False | _, _ => True end) ->
  owner_of s' (LMsg n) = owner_of s (LMsg n).
Proof.
  intros Em H. cbn [owner_of]. rewrite Em. destruct (mst s n) as [| | | |j] eqn:E; try reflexivity.
  specialize (H j eq_refl). destruct (cst s' j), (cst s j); try reflexivity; contradiction.
Qed.

Lemma ok_CCall i s m s' evs : J s m -> step repaired s (CCall i) = Some (s', evs) ->
  exists m', mon_run m evs = Some m' /\ J s' m'.
Proof.
  intros HJ Hs. sstep Hs.
  destruct (booted s) eqn:Hb; cbn [andb] in Hs; [|discriminate].
  destruct (cst s i) eqn:Hci; try discriminate. inv_some Hs.
  jdestruct HJ.
  pose proof (Jc i) as Hc. unfold cmd_ok in Hc. rewrite Hci in Hc. destruct Hc as [Hc1 [Hc2 [Hc3 Hti]]].
  pose proof (Jo (LAct i)) as HA. cbn in HA. rewrite Hci in HA.
  start_run. { mgo. reflexivity. }
  eexists. split; [exact Hrun|].
  constructor.
  - exact Jb.
  - exact Jh.
  - intros l. destruct l as [| | | | | | | |n0|i0|i0|i0]; try solve [frames s m Jo Hrun].
    + exists (TCaller i :: tsC). split; [cbn; rewrite HC; reflexivity|].
      rewrite !mem_tid_cons, HCr, HCw, HCm, HCM. cbn [tid_eqb orb]. repeat split.
      intros i1 H. rewrite mem_tid_cons, (HCt i1 H). apply orb_true_r.
    + via_old s m Jo Hrun. apply owner_msg_cst; [reflexivity|]. intros j _. sset. unfold updn.
      destruct (Nat.eqb_spec j i) as [->|]; [rewrite Hci; exact I | destruct (cst s j); exact I].
    + destruct (Nat.eq_dec i0 i) as [->|Hn].
      * cbn. rewrite updn_same, Nat.eqb_refl. reflexivity.
      * neq_facts. cbn [own_rel owner_of]. sset. unfold updn. rw_neq. frames s m Jo Hrun.
    + destruct (Nat.eq_dec i0 i) as [->|Hn].
      * via_old s m Jo Hrun. cbn. rewrite Hti. reflexivity.
      * neq_facts. cbn [own_rel owner_of]. sset. unfold updn. rw_neq. frames s m Jo Hrun.
    + destruct (Nat.eq_dec i0 i) as [->|Hn].
      * via_old s m Jo Hrun. cbn. rewrite updn_same, Hci. reflexivity.
      * neq_facts. cbn [own_rel owner_of]. sset. unfold updn. rw_neq. frames s m Jo Hrun.
  - intros i0. destruct (Nat.eq_dec i0 i) as [->|Hn].
    + unfold cmd_ok. sset. rewrite updn_same. cbn [sent updk tok_eqb]. auto.
    + neq_facts. apply (cmd_frame s m _ _ _ i0 (Jc i0) Hrun); try qsolve; auto.
      sset. unfold updn. rw_neq. reflexivity.
  - intros i0. destruct (Nat.eq_dec i0 i) as [->|Hn].
    + unfold tmr_ok. sset. rewrite Hti. pose proof (Jt i) as H0. unfold tmr_ok in H0. rewrite Hti in H0. exact H0.
    + neq_facts. apply (tmr_frame s m _ _ _ i0 (Jt i0) Hrun); try qsolve. sset. unfold updn. rw_neq. reflexivity.
  - intros n0. apply (msg_frame s m _ _ _ n0 (Jm n0) Hrun); reflexivity.
  - exact Jj.
  - exact Jl.
  - exact Jr.
Qed.

Ltac fin := cbn; rewrite ?updn_same, ?Nat.eqb_refl, ?loc_eqb_refl, ?updl_same; cbn;
            rewrite ?Nat.eqb_refl, ?loc_eqb_refl; cbn; try reflexivity.

Ltac other_id_own s m Jo Hrun :=
  neq_facts; cbn [own_rel owner_of]; sset; unfold updn; rw_neq; frames s m Jo Hrun.

Lemma ok_MWrite i s m s' evs : J s m -> step repaired s (MWrite i) = Some (s', evs) ->
  exists m', mon_run m evs = Some m' /\ J s' m'.
Proof.
  intros HJ Hs. sstep Hs.
  destruct (cst s i) eqn:Hci; try discriminate.
  jdestruct HJ.
  pose proof (Jc i) as Hc. unfold cmd_ok in Hc. rewrite Hci in Hc. destruct Hc as [Hc2 [Hc3 Hti]].
  pose proof (Jo (LAct i)) as HA. cbn in HA. rewrite Hci in HA.
  pose proof (Jo (LFin i)) as HF. cbn in HF. rewrite Hci in HF.
  pose proof (Jt i) as Hti2. unfold tmr_ok in Hti2. rewrite Hti in Hti2.
  assert (Hmsg : forall n0, owner_of (set_cst s i CActQ) (LMsg n0) = owner_of s (LMsg n0)).
  { intros n0. apply owner_msg_cst; [reflexivity|]. intros j _. sset. unfold updn.
    destruct (Nat.eqb_spec j i) as [->|]; [rewrite Hci; exact I | destruct (cst s j); exact I]. }
  assert (Hmsg2 : forall n0 l, owner_of (set_cst s i (CRepl l)) (LMsg n0) = owner_of s (LMsg n0)).
  { intros n0 l. apply owner_msg_cst; [reflexivity|]. intros j _. sset. unfold updn.
    destruct (Nat.eqb_spec j i) as [->|]; [rewrite Hci; exact I | destruct (cst s j); exact I]. }
  destruct (registered s) eqn:Hreg.
  - specialize (Jr eq_refl).
    destruct (sess s) as [| | |i'|] eqn:Hsess; try contradiction; cbn [negb] in Hs; inv_some Hs; rewrite ?Jh.
    + (* the first command routed: the session header goes with it *)
      start_run. { mgo. reflexivity. }
      eexists. split; [exact Hrun|].
      constructor.
      * exact Jb.
      * exact Jh.
      * intros l. destruct l as [| | | | | | | |n0|i0|i0|i0]; try solve [frames s m Jo Hrun].
        -- reflexivity.
        -- via_old s m Jo Hrun. exact (Hmsg n0).
        -- destruct (Nat.eq_dec i0 i) as [->|Hn]; [|other_id_own s m Jo Hrun].
           cbn. rewrite updn_same, Nat.eqb_refl. reflexivity.
        -- destruct (Nat.eq_dec i0 i) as [->|Hn]; [|other_id_own s m Jo Hrun].
           via_old s m Jo Hrun. cbn. rewrite Hti. reflexivity.
        -- destruct (Nat.eq_dec i0 i) as [->|Hn]; [|other_id_own s m Jo Hrun].
           via_old s m Jo Hrun. cbn. rewrite updn_same, Hci. reflexivity.
      * intros i0. destruct (Nat.eq_dec i0 i) as [->|Hn].
        -- unfold cmd_ok. sset. rewrite updn_same. cbn [sent updk tok_eqb]. auto.
        -- neq_facts. apply (cmd_frame s m _ _ _ i0 (Jc i0) Hrun); try qsolve;
             try (sset; unfold updn; rw_neq; reflexivity); try (intros _; exact I).
      * intros i0. destruct (Nat.eq_dec i0 i) as [->|Hn].
        -- unfold tmr_ok. sset. rewrite Hti. exact Hti2.
        -- neq_facts. apply (tmr_frame s m _ _ _ i0 (Jt i0) Hrun); try qsolve. sset. unfold updn. rw_neq. reflexivity.
      * intros n0. apply (msg_frame s m _ _ _ n0 (Jm n0) Hrun); reflexivity.
      * sset. destruct (joinst s); try exact Jj; destruct Jj as [_ [_ E]]; congruence.
      * exact Jl.
      * sset. auto.
    + (* a later command *)
      start_run. { mgo. reflexivity. }
      eexists. split; [exact Hrun|].
      constructor.
      * exact Jb.
      * exact Jh.
      * intros l. destruct l as [| | | | | | | |n0|i0|i0|i0]; try solve [frames s m Jo Hrun].
        -- via_old s m Jo Hrun. exact (Hmsg n0).
        -- destruct (Nat.eq_dec i0 i) as [->|Hn]; [|other_id_own s m Jo Hrun].
           cbn. rewrite updn_same, Nat.eqb_refl. reflexivity.
        -- destruct (Nat.eq_dec i0 i) as [->|Hn]; [|other_id_own s m Jo Hrun].
           via_old s m Jo Hrun. cbn. rewrite Hti. reflexivity.
        -- destruct (Nat.eq_dec i0 i) as [->|Hn]; [|other_id_own s m Jo Hrun].
           via_old s m Jo Hrun. cbn. rewrite updn_same, Hci. reflexivity.
      * intros i0. destruct (Nat.eq_dec i0 i) as [->|Hn].
        -- unfold cmd_ok. sset. rewrite updn_same, Hsess. cbn [sent updk tok_eqb]. auto.
        -- neq_facts. apply (cmd_frame s m _ _ _ i0 (Jc i0) Hrun); try qsolve; auto.
           sset. unfold updn. rw_neq. reflexivity.
      * intros i0. destruct (Nat.eq_dec i0 i) as [->|Hn].
        -- unfold tmr_ok. sset. rewrite Hti. exact Hti2.
        -- neq_facts. apply (tmr_frame s m _ _ _ i0 (Jt i0) Hrun); try qsolve. sset. unfold updn. rw_neq. reflexivity.
      * intros n0. apply (msg_frame s m _ _ _ n0 (Jm n0) Hrun); reflexivity.
      * sset. rewrite Hsess. exact Jj.
      * exact Jl.
      * sset. rewrite Hsess. auto.
    + start_run. { mgo. reflexivity. }
      eexists. split; [exact Hrun|].
      constructor.
      * exact Jb.
      * exact Jh.
      * intros l. destruct l as [| | | | | | | |n0|i0|i0|i0]; try solve [frames s m Jo Hrun].
        -- via_old s m Jo Hrun. exact (Hmsg n0).
        -- destruct (Nat.eq_dec i0 i) as [->|Hn]; [|other_id_own s m Jo Hrun].
           cbn. rewrite updn_same, Nat.eqb_refl. reflexivity.
        -- destruct (Nat.eq_dec i0 i) as [->|Hn]; [|other_id_own s m Jo Hrun].
           via_old s m Jo Hrun. cbn. rewrite Hti. reflexivity.
        -- destruct (Nat.eq_dec i0 i) as [->|Hn]; [|other_id_own s m Jo Hrun].
           via_old s m Jo Hrun. cbn. rewrite updn_same, Hci. reflexivity.
      * intros i0. destruct (Nat.eq_dec i0 i) as [->|Hn].
        -- unfold cmd_ok. sset. rewrite updn_same, Hsess. cbn [sent updk tok_eqb]. auto.
        -- neq_facts. apply (cmd_frame s m _ _ _ i0 (Jc i0) Hrun); try qsolve; auto.
           sset. unfold updn. rw_neq. reflexivity.
      * intros i0. destruct (Nat.eq_dec i0 i) as [->|Hn].
        -- unfold tmr_ok. sset. rewrite Hti. exact Hti2.
        -- neq_facts. apply (tmr_frame s m _ _ _ i0 (Jt i0) Hrun); try qsolve. sset. unfold updn. rw_neq. reflexivity.
      * intros n0. apply (msg_frame s m _ _ _ n0 (Jm n0) Hrun); reflexivity.
      * sset. rewrite Hsess. exact Jj.
      * exact Jl.
      * sset. rewrite Hsess. auto.
  - (* the key is not online: the manager answers *)
    inv_some Hs.
    start_run. { mgo. reflexivity. }
    eexists. split; [exact Hrun|].
    constructor.
    + exact Jb.
    + exact Jh.
    + intros l. destruct l as [| | | | | | | |n0|i0|i0|i0]; try solve [frames s m Jo Hrun].
      * via_old s m Jo Hrun. exact (Hmsg2 n0 _).
      * destruct (Nat.eq_dec i0 i) as [->|Hn]; [|other_id_own s m Jo Hrun].
        fin.
      * destruct (Nat.eq_dec i0 i) as [->|Hn]; [|other_id_own s m Jo Hrun].
        via_old s m Jo Hrun. cbn. rewrite Hti. reflexivity.
      * destruct (Nat.eq_dec i0 i) as [->|Hn]; [|other_id_own s m Jo Hrun].
        fin.
    + intros i0. destruct (Nat.eq_dec i0 i) as [->|Hn].
      * unfold cmd_ok. sset. rewrite updn_same. fin.
      * neq_facts. apply (cmd_frame s m _ _ _ i0 (Jc i0) Hrun); try qsolve; auto.
        sset. unfold updn. rw_neq. reflexivity.
    + intros i0. destruct (Nat.eq_dec i0 i) as [->|Hn].
      * unfold tmr_ok. sset. rewrite Hti. exact Hti2.
      * neq_facts. apply (tmr_frame s m _ _ _ i0 (Jt i0) Hrun); try qsolve. sset. unfold updn. rw_neq. reflexivity.
    + intros n0. apply (msg_frame s m _ _ _ n0 (Jm n0) Hrun); reflexivity.
    + exact Jj.
    + exact Jl.
    + sset. rewrite Hreg. discriminate.
Qed.

Ltac stage_cases :=
  repeat match goal with
  | |- context [match mst ?s ?n with _ => _ end] => destruct (mst s n) eqn:?
  | |- context [match cst ?s ?n with _ => _ end] => destruct (cst s n) eqn:?
  | |- context [match tst ?s ?n with _ => _ end] => destruct (tst s n) eqn:?
  | |- context [match sess ?s with _ => _ end] => destruct (sess s) eqn:?
  | |- context [if loc_eqb ?a ?b then _ else _] => destruct (loc_eqb a b) eqn:?
  end.

Lemma ok_CRet i s m s' evs : J s m -> step repaired s (CRet i) = Some (s', evs) ->
  exists m', mon_run m evs = Some m' /\ J s' m'.
Proof.
  intros HJ Hs. sstep Hs.
  destruct (cst s i) as [| | | |l|l] eqn:Hci; try discriminate.
  destruct (booted s) eqn:Hb; [|discriminate]. inv_some Hs.
  jdestruct HJ.
  pose proof (Jc i) as Hc. unfold cmd_ok in Hc. rewrite Hci in Hc.
  pose proof (Jo (LAct i)) as HA. cbn in HA. rewrite Hci in HA.
  start_run. { mgo. reflexivity. }
  eexists. split; [exact Hrun|].
  constructor.
  - exact Jb.
  - exact Jh.
  - intros l0. pose proof (Jo l0) as Hl. destruct l0 as [| | | | | | | |n0|i0|i0|i0]; cbn [own_rel owner_of] in Hl |- *.
    + exists tsC. cbn [own]. rewrite HC. repeat split; auto.
    + exists tsH. cbn [own]. rewrite HH. auto.
    + cbn [own]. rewrite Hl. reflexivity.
    + cbn [own]. rewrite Hl. reflexivity.
    + cbn [own]. rewrite Hl. reflexivity.
    + cbn [own]. rewrite Hl. reflexivity.
    + cbn [own]. rewrite Hl. reflexivity.
    + cbn [own]. rewrite Hl. sset. destruct (sess s); reflexivity.
    + cbn [own]. rewrite Hl. sset. destruct (mst s n0) as [| | | |j]; try reflexivity.
      unfold updn. destruct (Nat.eqb_spec j i) as [->|Hn].
      * rewrite Hci. cbn. rewrite Nat.eqb_refl. reflexivity.
      * neq_facts. destruct (cst s j); cbn; rw_neq; reflexivity.
    + cbn [own]. rewrite Hl. sset. unfold updn. destruct (Nat.eqb_spec i0 i) as [->|Hn].
      * rewrite Hci. cbn. rewrite Nat.eqb_refl. reflexivity.
      * neq_facts. destruct (cst s i0); cbn; rw_neq; reflexivity.
    + cbn [own]. rewrite Hl. sset. unfold updn. destruct (Nat.eqb_spec i0 i) as [->|Hn].
      * rewrite Hci. destruct (tst s i); cbn; try reflexivity;
          destruct (loc_eqb l (LReply i)); cbn; rewrite ?Nat.eqb_refl; reflexivity.
      * neq_facts. destruct (tst s i0); cbn; try reflexivity;
          destruct (cst s i0) as [| | | |l1|l1]; cbn; try reflexivity;
          destruct (loc_eqb l1 (LReply i0)); cbn; rw_neq; reflexivity.
    + cbn [own]. rewrite Hl. sset. unfold updn. destruct (Nat.eqb_spec i0 i) as [->|Hn].
      * rewrite Hci. destruct (loc_eqb l (LFin i)); cbn; rewrite ?Nat.eqb_refl; reflexivity.
      * neq_facts. destruct (cst s i0) as [| | | |l1|l1]; cbn; try reflexivity;
          destruct (loc_eqb l1 (LFin i0)); cbn; rw_neq; reflexivity.
  - intros i0. destruct (Nat.eq_dec i0 i) as [->|Hn].
    + unfold cmd_ok. sset. rewrite updn_same. exact I.
    + neq_facts. apply (cmd_frame s m _ _ _ i0 (Jc i0) Hrun); try qsolve; auto.
      sset. unfold updn. rw_neq. reflexivity.
  - intros i0. destruct (Nat.eq_dec i0 i) as [->|Hn].
    + pose proof (Jt i) as H0. unfold tmr_ok, not_reply in *. sset. rewrite updn_same. rewrite Hci in H0. exact H0.
    + neq_facts. apply (tmr_frame s m _ _ _ i0 (Jt i0) Hrun); try qsolve. sset. unfold updn. rw_neq. reflexivity.
  - intros n0. apply (msg_frame s m _ _ _ n0 (Jm n0) Hrun); reflexivity.
  - exact Jj.
  - exact Jl.
  - exact Jr.
Qed.

Lemma wact_pre i s m : J s m -> wrun s = true -> sess_ok s i = true -> cst s i = CActQ ->
  sent m (KReply i) = false /\ tst s i = TNone /\ sent m (KCpl i) = false /\
  own m (LAct i) = OToken (KAct i) /\ own m (LReply i) = OFresh /\ own m (LFin i) = OFresh /\
  (sess s = SW \/ sess s = SAct i).
Proof.
  intros HJ Hw Hso Hci. destruct HJ as [Jb Jh Jo Jc Jt Jm Jj Jl Jr].
  pose proof (Jc i) as Hc. unfold cmd_ok in Hc. rewrite Hci in Hc. destruct Hc as [Hc3 [Hti Hlive]].
  pose proof (Jt i) as Ht. unfold tmr_ok in Ht. rewrite Hti in Ht.
  pose proof (Jo (LAct i)) as HA. cbn in HA. rewrite Hci in HA.
  pose proof (Jo (LReply i)) as HR. cbn in HR. rewrite Hti in HR.
  pose proof (Jo (LFin i)) as HF. cbn in HF. rewrite Hci in HF.
  repeat split; auto.
  unfold sess_ok in Hso. destruct (sess s) as [| | |i'|]; try contradiction; auto.
  right. apply Nat.eqb_eq in Hso. now subst.
Qed.

Lemma owner_msg_same s s' n :
  mst s' n = mst s n -> (forall j, mst s n = MC j -> cst s' j = cst s j) ->
  owner_of s' (LMsg n) = owner_of s (LMsg n).
Proof.
  intros Em H. cbn [owner_of]. rewrite Em. destruct (mst s n) as [| | | |j] eqn:E; try reflexivity.
  rewrite (H j eq_refl). reflexivity.
Qed.

Ltac cmd_others s m Jc Hrun i0 :=
  neq_facts; apply (cmd_frame s m _ _ _ i0 (Jc i0) Hrun); try qsolve;
  try (sset; unfold updn; rw_neq; reflexivity); try (intros _; exact I); auto.
Ltac tmr_others s m Jt Hrun i0 :=
  neq_facts; apply (tmr_frame s m _ _ _ i0 (Jt i0) Hrun); try qsolve;
  try (sset; unfold updn; rw_neq; reflexivity).
Ltac msg_others s m Jm Hrun n0 :=
  neq_facts; apply (msg_frame s m _ _ _ n0 (Jm n0) Hrun); try qsolve;
  try (sset; unfold updn; rw_neq; reflexivity).

Lemma ok_WAct i wok timer s m s' evs : J s m -> step repaired s (WAct i wok timer) = Some (s', evs) ->
  exists m', mon_run m evs = Some m' /\ J s' m'.
Proof.
  intros HJ Hs. sstep Hs.
  destruct (wrun s) eqn:Hw; cbn [andb] in Hs; [|discriminate].
  destruct (sess_ok s i) eqn:Hso; cbn [andb] in Hs; [|discriminate].
  destruct (cst s i) eqn:Hci; try discriminate.
  destruct (wact_pre i s m HJ Hw Hso Hci) as [Hc3 [Hti [Hcpl [HA [HR [HF Hsess]]]]]].
  jdestruct HJ.
  assert (Hmsg : forall x n0, (forall l, x <> CDone l) -> owner_of (set_cst s i x) (LMsg n0) = owner_of s (LMsg n0)).
  { intros x n0 Hx. apply owner_msg_cst; [reflexivity|]. intros j _. sset. unfold updn.
    destruct (Nat.eqb_spec j i) as [->|]; [rewrite Hci; destruct x; try exact I; exfalso; eapply Hx; reflexivity | destruct (cst s j); exact I]. }
  unfold sess_recv in Hs.
  destruct Hsess as [Hsess|Hsess]; rewrite Hsess in Hs, HSess; rewrite ?Nat.eqb_refl in Hs.
  - (* session header: SW *)
    destruct wok; [destruct timer|]; inv_some Hs; rewrite ?Jh.
    + start_run. { mgo. reflexivity. }
      eexists. split; [exact Hrun|].
      constructor.
      * exact Jb.
      * exact Jh.
      * intros l. destruct l as [| | | | | | | |n0|i0|i0|i0]; try solve [frames s m Jo Hrun].
        -- exists (TTimer i :: tsC). split; [cbn; rewrite HC; reflexivity|].
           rewrite !mem_tid_cons, HCr, HCw, HCm, HCM. cbn [tid_eqb orb]. repeat split.
           intros i1. sset. unfold updn. rewrite mem_tid_cons. cbn [tid_eqb].
           destruct (Nat.eqb_spec i1 i) as [->|Hn]; [reflexivity|].
           intros H. rewrite (HCt i1 H). apply orb_true_r.
        -- cbn. rewrite HSess. rewrite ?Hsess. fin.
        -- via_old s m Jo Hrun. apply (Hmsg COut n0). discriminate.
        -- destruct (Nat.eq_dec i0 i) as [->|Hn]; [|other_id_own s m Jo Hrun]. cbn. rewrite HA. fin.
        -- destruct (Nat.eq_dec i0 i) as [->|Hn]; [|other_id_own s m Jo Hrun]. fin.
        -- destruct (Nat.eq_dec i0 i) as [->|Hn]; [|other_id_own s m Jo Hrun].
           via_old s m Jo Hrun. cbn. rewrite updn_same, Hci. fin.
      * intros i0. destruct (Nat.eq_dec i0 i) as [->|Hn]; [|cmd_others s m Jc Hrun i0].
        unfold cmd_ok. sset. rewrite updn_same. exact Hc3.
      * intros i0. destruct (Nat.eq_dec i0 i) as [->|Hn]; [|tmr_others s m Jt Hrun i0].
        unfold tmr_ok, not_reply. sset. rewrite !updn_same. split; [exact Hcpl | exact I].
      * intros n0. apply (msg_frame s m _ _ _ n0 (Jm n0) Hrun); reflexivity.
      * exact Jj.
      * exact Jl.
      * exact Jr.
    + start_run. { mgo. reflexivity. }
      eexists. split; [exact Hrun|].
      constructor.
      * exact Jb.
      * exact Jh.
      * intros l. destruct l as [| | | | | | | |n0|i0|i0|i0]; try solve [frames s m Jo Hrun].
        -- cbn. rewrite HSess. rewrite ?Hsess. fin.
        -- via_old s m Jo Hrun. apply (Hmsg COut n0). discriminate.
        -- destruct (Nat.eq_dec i0 i) as [->|Hn]; [|other_id_own s m Jo Hrun]. cbn. rewrite HA. fin.
        -- destruct (Nat.eq_dec i0 i) as [->|Hn]; [|other_id_own s m Jo Hrun]. fin.
        -- destruct (Nat.eq_dec i0 i) as [->|Hn]; [|other_id_own s m Jo Hrun].
           via_old s m Jo Hrun. cbn. rewrite updn_same, Hci. fin.
      * intros i0. destruct (Nat.eq_dec i0 i) as [->|Hn]; [|cmd_others s m Jc Hrun i0].
        unfold cmd_ok. sset. rewrite updn_same. exact Hc3.
      * intros i0. destruct (Nat.eq_dec i0 i) as [->|Hn]; [|tmr_others s m Jt Hrun i0].
        unfold tmr_ok, not_reply. sset. rewrite !updn_same. exact Hcpl.
      * intros n0. apply (msg_frame s m _ _ _ n0 (Jm n0) Hrun); reflexivity.
      * exact Jj.
      * exact Jl.
      * exact Jr.
    + start_run. { mgo. reflexivity. }
      eexists. split; [exact Hrun|].
      constructor.
      * exact Jb.
      * exact Jh.
      * intros l. destruct l as [| | | | | | | |n0|i0|i0|i0]; try solve [frames s m Jo Hrun].
        -- cbn. rewrite HSess. rewrite ?Hsess. fin.
        -- via_old s m Jo Hrun. apply (Hmsg (CRepl (LReply i)) n0). discriminate.
        -- destruct (Nat.eq_dec i0 i) as [->|Hn]; [|other_id_own s m Jo Hrun]. cbn. rewrite HA. fin.
        -- destruct (Nat.eq_dec i0 i) as [->|Hn]; [|other_id_own s m Jo Hrun]. fin.
        -- destruct (Nat.eq_dec i0 i) as [->|Hn]; [|other_id_own s m Jo Hrun].
           via_old s m Jo Hrun. cbn. rewrite updn_same, Hci. fin.
      * intros i0. destruct (Nat.eq_dec i0 i) as [->|Hn]; [|cmd_others s m Jc Hrun i0].
        unfold cmd_ok. sset. rewrite updn_same. fin.
      * intros i0. destruct (Nat.eq_dec i0 i) as [->|Hn]; [|tmr_others s m Jt Hrun i0].
        unfold tmr_ok, not_reply. sset. rewrite !updn_same. exact Hcpl.
      * intros n0. apply (msg_frame s m _ _ _ n0 (Jm n0) Hrun); reflexivity.
      * exact Jj.
      * exact Jl.
      * exact Jr.
  - (* session header: SAct *)
    destruct wok; [destruct timer|]; inv_some Hs; rewrite ?Jh.
    + start_run. { mgo. reflexivity. }
      eexists. split; [exact Hrun|].
      constructor.
      * exact Jb.
      * exact Jh.
      * intros l. destruct l as [| | | | | | | |n0|i0|i0|i0]; try solve [frames s m Jo Hrun].
        -- exists (TTimer i :: tsC). split; [cbn; rewrite HC; reflexivity|].
           rewrite !mem_tid_cons, HCr, HCw, HCm, HCM. cbn [tid_eqb orb]. repeat split.
           intros i1. sset. unfold updn. rewrite mem_tid_cons. cbn [tid_eqb].
           destruct (Nat.eqb_spec i1 i) as [->|Hn]; [reflexivity|].
           intros H. rewrite (HCt i1 H). apply orb_true_r.
        -- cbn. rewrite HSess. rewrite ?Hsess. fin.
        -- via_old s m Jo Hrun. apply (Hmsg COut n0). discriminate.
        -- destruct (Nat.eq_dec i0 i) as [->|Hn]; [|other_id_own s m Jo Hrun]. cbn. rewrite HA. fin.
        -- destruct (Nat.eq_dec i0 i) as [->|Hn]; [|other_id_own s m Jo Hrun]. fin.
        -- destruct (Nat.eq_dec i0 i) as [->|Hn]; [|other_id_own s m Jo Hrun].
           via_old s m Jo Hrun. cbn. rewrite updn_same, Hci. fin.
      * intros i0. destruct (Nat.eq_dec i0 i) as [->|Hn]; [|cmd_others s m Jc Hrun i0].
        unfold cmd_ok. sset. rewrite updn_same. exact Hc3.
      * intros i0. destruct (Nat.eq_dec i0 i) as [->|Hn]; [|tmr_others s m Jt Hrun i0].
        unfold tmr_ok, not_reply. sset. rewrite !updn_same. split; [exact Hcpl | exact I].
      * intros n0. apply (msg_frame s m _ _ _ n0 (Jm n0) Hrun); reflexivity.
      * sset. destruct (joinst s); try exact Jj; destruct Jj as [_ [_ E]]; rewrite Hsess in E; discriminate.
      * exact Jl.
      * sset. auto.
    + start_run. { mgo. reflexivity. }
      eexists. split; [exact Hrun|].
      constructor.
      * exact Jb.
      * exact Jh.
      * intros l. destruct l as [| | | | | | | |n0|i0|i0|i0]; try solve [frames s m Jo Hrun].
        -- cbn. rewrite HSess. rewrite ?Hsess. fin.
        -- via_old s m Jo Hrun. apply (Hmsg COut n0). discriminate.
        -- destruct (Nat.eq_dec i0 i) as [->|Hn]; [|other_id_own s m Jo Hrun]. cbn. rewrite HA. fin.
        -- destruct (Nat.eq_dec i0 i) as [->|Hn]; [|other_id_own s m Jo Hrun]. fin.
        -- destruct (Nat.eq_dec i0 i) as [->|Hn]; [|other_id_own s m Jo Hrun].
           via_old s m Jo Hrun. cbn. rewrite updn_same, Hci. fin.
      * intros i0. destruct (Nat.eq_dec i0 i) as [->|Hn]; [|cmd_others s m Jc Hrun i0].
        unfold cmd_ok. sset. rewrite updn_same. exact Hc3.
      * intros i0. destruct (Nat.eq_dec i0 i) as [->|Hn]; [|tmr_others s m Jt Hrun i0].
        unfold tmr_ok, not_reply. sset. rewrite !updn_same. exact Hcpl.
      * intros n0. apply (msg_frame s m _ _ _ n0 (Jm n0) Hrun); reflexivity.
      * sset. destruct (joinst s); try exact Jj; destruct Jj as [_ [_ E]]; rewrite Hsess in E; discriminate.
      * exact Jl.
      * sset. auto.
    + start_run. { mgo. reflexivity. }
      eexists. split; [exact Hrun|].
      constructor.
      * exact Jb.
      * exact Jh.
      * intros l. destruct l as [| | | | | | | |n0|i0|i0|i0]; try solve [frames s m Jo Hrun].
        -- cbn. rewrite HSess. rewrite ?Hsess. fin.
        -- via_old s m Jo Hrun. apply (Hmsg (CRepl (LReply i)) n0). discriminate.
        -- destruct (Nat.eq_dec i0 i) as [->|Hn]; [|other_id_own s m Jo Hrun]. cbn. rewrite HA. fin.
        -- destruct (Nat.eq_dec i0 i) as [->|Hn]; [|other_id_own s m Jo Hrun]. fin.
        -- destruct (Nat.eq_dec i0 i) as [->|Hn]; [|other_id_own s m Jo Hrun].
           via_old s m Jo Hrun. cbn. rewrite updn_same, Hci. fin.
      * intros i0. destruct (Nat.eq_dec i0 i) as [->|Hn]; [|cmd_others s m Jc Hrun i0].
        unfold cmd_ok. sset. rewrite updn_same. fin.
      * intros i0. destruct (Nat.eq_dec i0 i) as [->|Hn]; [|tmr_others s m Jt Hrun i0].
        unfold tmr_ok, not_reply. sset. rewrite !updn_same. exact Hcpl.
      * intros n0. apply (msg_frame s m _ _ _ n0 (Jm n0) Hrun); reflexivity.
      * sset. destruct (joinst s); try exact Jj; destruct Jj as [_ [_ E]]; rewrite Hsess in E; discriminate.
      * exact Jl.
      * sset. auto.
Qed.

Lemma cmd_frame2 s m s' m' evs i :
  cmd_ok s m i -> mon_run m evs = Some m' ->
  cst s' i = cst s i -> tst s i <> TNone ->
  forallb (not_send (KReply i)) evs = true -> forallb (not_recv (KReply i)) evs = true ->
  cmd_ok s' m' i.
Proof.
  intros Hc Hr Ec Et H3 H4. unfold cmd_ok in *. rewrite Ec.
  rewrite (frame_sent evs m m' _ Hr H3).
  destruct (cst s i) as [| | | |l|l]; try exact Hc.
  - destruct Hc as [_ [_ [_ E]]]. contradiction.
  - destruct Hc as [_ [_ E]]. contradiction.
  - destruct Hc as [_ [E _]]. contradiction.
  - exact (tok_stable evs m m' l _ Hr H4 Hc).
Qed.

Lemma ok_TFire i stop s m s' evs : J s m -> step repaired s (TFire i stop) = Some (s', evs) ->
  exists m', mon_run m evs = Some m' /\ J s' m'.
Proof.
  intros HJ Hs. sstep Hs.
  destruct (tst s i) eqn:Hti; try discriminate.
  jdestruct HJ.
  pose proof (Jt i) as Ht. unfold tmr_ok in Ht. rewrite Hti in Ht. destruct Ht as [Hcpl Hnr].
  pose proof (Jo (LReply i)) as HR. cbn in HR. rewrite Hti in HR.
  pose proof (HCt i Hti) as HCi.
  assert (Hne : tst s i <> TNone) by (rewrite Hti; discriminate).
  destruct stop.
  - destruct (leavest s) eqn:Hlv; try discriminate. inv_some Hs.
    start_run. { mgo. reflexivity. }
    eexists. split; [exact Hrun|].
    constructor.
    + exact Jb.
    + exact Jh.
    + intros l. destruct l as [| | | | | | | |n0|i0|i0|i0]; try solve [frames s m Jo Hrun].
      destruct (Nat.eq_dec i0 i) as [->|Hn]; [|other_id_own s m Jo Hrun]. cbn. rewrite HR. fin.
    + intros i0. destruct (Nat.eq_dec i0 i) as [->|Hn]; [|cmd_others s m Jc Hrun i0].
      apply (cmd_frame2 s m _ _ _ i (Jc i) Hrun); try qsolve. exact Hne.
    + intros i0. destruct (Nat.eq_dec i0 i) as [->|Hn]; [|tmr_others s m Jt Hrun i0].
      unfold tmr_ok. sset. rewrite updn_same. exact Hnr.
    + intros n0. apply (msg_frame s m _ _ _ n0 (Jm n0) Hrun); reflexivity.
    + exact Jj.
    + sset. rewrite Hlv. exact I.
    + exact Jr.
  - inv_some Hs.
    start_run. { mgo. reflexivity. }
    eexists. split; [exact Hrun|].
    constructor.
    + exact Jb.
    + exact Jh.
    + intros l. destruct l as [| | | | | | | |n0|i0|i0|i0]; try solve [frames s m Jo Hrun].
      destruct (Nat.eq_dec i0 i) as [->|Hn]; [|other_id_own s m Jo Hrun]. fin.
    + intros i0. destruct (Nat.eq_dec i0 i) as [->|Hn]; [|cmd_others s m Jc Hrun i0].
      apply (cmd_frame2 s m _ _ _ i (Jc i) Hrun); try qsolve. exact Hne.
    + intros i0. destruct (Nat.eq_dec i0 i) as [->|Hn]; [|tmr_others s m Jt Hrun i0].
      unfold tmr_ok. sset. rewrite updn_same. exact Hnr.
    + intros n0. apply (msg_frame s m _ _ _ n0 (Jm n0) Hrun); reflexivity.
    + exact Jj.
    + exact Jl.
    + exact Jr.
Qed.

Lemma ok_WCpl i s m s' evs : J s m -> step repaired s (WCpl i) = Some (s', evs) ->
  exists m', mon_run m evs = Some m' /\ J s' m'.
Proof.
  intros HJ Hs. sstep Hs.
  destruct (wrun s) eqn:Hw; cbn [andb] in Hs; [|discriminate].
  destruct (tst s i) eqn:Hti; try discriminate.
  jdestruct HJ.
  pose proof (Jt i) as Hnr. unfold tmr_ok in Hnr. rewrite Hti in Hnr.
  pose proof (Jo (LReply i)) as HR. cbn in HR. rewrite Hti in HR.
  assert (Hne : tst s i <> TNone) by (rewrite Hti; discriminate).
  destruct (cst s i) as [| | | |l|l] eqn:Hci; inv_some Hs.
  4: { (* still waiting: the timeout is the answer *)
    pose proof (Jc i) as Hc3. unfold cmd_ok in Hc3. rewrite Hci in Hc3.
    pose proof (Jo (LAct i)) as HA. cbn in HA. rewrite Hci in HA.
    assert (Hmsg : forall n0, owner_of (set_cst s i (CRepl (LReply i))) (LMsg n0) = owner_of s (LMsg n0)).
    { intros n0. apply owner_msg_cst; [reflexivity|]. intros j _. sset. unfold updn.
      destruct (Nat.eqb_spec j i) as [->|]; [rewrite Hci; exact I | destruct (cst s j); exact I]. }
    start_run. { mgo. reflexivity. }
    eexists. split; [exact Hrun|].
    constructor.
    + exact Jb.
    + exact Jh.
    + intros l. destruct l as [| | | | | | | |n0|i0|i0|i0]; try solve [frames s m Jo Hrun].
      * via_old s m Jo Hrun. exact (Hmsg n0).
      * destruct (Nat.eq_dec i0 i) as [->|Hn]; [|other_id_own s m Jo Hrun]. fin.
      * destruct (Nat.eq_dec i0 i) as [->|Hn]; [|other_id_own s m Jo Hrun]. fin.
      * destruct (Nat.eq_dec i0 i) as [->|Hn]; [|other_id_own s m Jo Hrun].
        via_old s m Jo Hrun. cbn. rewrite updn_same, Hci. fin.
    + intros i0. destruct (Nat.eq_dec i0 i) as [->|Hn]; [|cmd_others s m Jc Hrun i0].
      unfold cmd_ok. sset. rewrite updn_same. fin.
    + intros i0. destruct (Nat.eq_dec i0 i) as [->|Hn]; [|tmr_others s m Jt Hrun i0].
      unfold tmr_ok. sset. rewrite updn_same. exact I.
    + intros n0. apply (msg_frame s m _ _ _ n0 (Jm n0) Hrun); reflexivity.
    + exact Jj.
    + exact Jl.
    + exact Jr. }
  all: (* already answered: the late timeout is dropped *)
    (start_run; [mgo; reflexivity|]);
    (eexists; split; [exact Hrun|]);
    constructor;
    [ exact Jb | exact Jh
    | intros l0; destruct l0 as [| | | | | | | |n0|i0|i0|i0]; try solve [frames s m Jo Hrun];
      (destruct (Nat.eq_dec i0 i) as [->|Hn]; [|other_id_own s m Jo Hrun]);
      cbn; rewrite HR; fin; rewrite ?Hci; unfold not_reply in Hnr; rewrite ?Hci in Hnr; rewrite ?Hnr; reflexivity
    | intros i0; (destruct (Nat.eq_dec i0 i) as [->|Hn]; [|cmd_others s m Jc Hrun i0]);
      apply (cmd_frame2 s m _ _ _ i (Jc i) Hrun); try qsolve; exact Hne
    | intros i0; (destruct (Nat.eq_dec i0 i) as [->|Hn]; [|tmr_others s m Jt Hrun i0]);
      unfold tmr_ok; sset; rewrite updn_same; exact I
    | intros n0; apply (msg_frame s m _ _ _ n0 (Jm n0) Hrun); reflexivity
    | exact Jj | exact Jl | exact Jr ].
Qed.

Lemma wmsg_reply n s m s' evs :
  J s m -> wrun s = true -> mst s n = MQ ->
  s' = set_mst s n MW ->
  evs = [ERecv W (KMsg n); EAcc W LConn false; EAcc W (LMsg n) false; EAcc W LRecord false] ++
        [EAcc W (LMsg n) true; EAcc W LSerial true; EAcc W LRecord true] ->
  exists m', mon_run m evs = Some m' /\ J s' m'.
Proof.
  intros HJ Hw Hm -> ->. cbn [app].
  jdestruct HJ.
  pose proof (Jo (LMsg n)) as HM. cbn in HM. rewrite Hm in HM.
  start_run. { mgo. reflexivity. }
  eexists. split; [exact Hrun|].
  constructor.
  - exact Jb.
  - exact Jh.
  - intros l. destruct l as [| | | | | | | |n0|i0|i0|i0]; try solve [frames s m Jo Hrun].
    destruct (Nat.eq_dec n0 n) as [->|Hn]; [|other_id_own s m Jo Hrun]. cbn. rewrite HM. fin.
  - intros i0. apply (cmd_frame s m _ _ _ i0 (Jc i0) Hrun); try reflexivity. auto.
  - intros i0. apply (tmr_frame s m _ _ _ i0 (Jt i0) Hrun); reflexivity.
  - intros n0. destruct (Nat.eq_dec n0 n) as [->|Hn]; [|msg_others s m Jm Hrun n0].
    unfold msg_ok. sset. rewrite updn_same. exact I.
  - sset. destruct (joinst s) as [|n0|n0| |n0|]; try exact Jj; unfold updn.
    + destruct Jj as [Jj1 [Jj2 Jj3]]. repeat split; auto.
      destruct (Nat.eqb_spec n0 n) as [->|]; [congruence | exact Jj2].
    + destruct (Nat.eqb_spec n0 n) as [->|]; [congruence | exact Jj].
    + destruct (Nat.eqb_spec n0 n) as [->|]; [congruence | exact Jj].
  - exact Jl.
  - exact Jr.
Qed.

Lemma ok_WMsg n resp s m s' evs : J s m -> step repaired s (WMsg n resp) = Some (s', evs) ->
  exists m', mon_run m evs = Some m' /\ J s' m'.
Proof.
  intros HJ Hs. sstep Hs.
  destruct (wrun s) eqn:Hw; cbn [andb] in Hs; [|discriminate].
  destruct (is_mst s n MQ) eqn:Hm; [|discriminate]. apply is_mst_inv in Hm.
  destruct resp as [i|]; [|inv_some Hs; eapply wmsg_reply; eauto].
  destruct (cst s i) as [| | | |l|l] eqn:Hci; try (inv_some Hs; eapply wmsg_reply; eauto; fail).
  inv_some Hs.
  jdestruct HJ.
  pose proof (Jo (LMsg n)) as HM. cbn in HM. rewrite Hm in HM.
  pose proof (Jc i) as Hc3. unfold cmd_ok in Hc3. rewrite Hci in Hc3.
  pose proof (Jo (LAct i)) as HA. cbn in HA. rewrite Hci in HA.
  start_run. { mgo. reflexivity. }
  eexists. split; [exact Hrun|].
  constructor.
  - exact Jb.
  - exact Jh.
  - intros l. destruct l as [| | | | | | | |n0|i0|i0|i0]; try solve [frames s m Jo Hrun].
    + destruct (Nat.eq_dec n0 n) as [->|Hn].
      * fin.
      * neq_facts. via_old s m Jo Hrun. apply owner_msg_cst.
        -- sset. unfold updn. rw_neq. reflexivity.
        -- intros j _. sset. unfold updn.
           destruct (Nat.eqb_spec j i) as [->|]; [rewrite Hci; exact I | destruct (cst s j); exact I].
    + destruct (Nat.eq_dec i0 i) as [->|Hn]; [|other_id_own s m Jo Hrun]. fin.
    + destruct (Nat.eq_dec i0 i) as [->|Hn]; [|other_id_own s m Jo Hrun].
      via_old s m Jo Hrun. cbn. rewrite updn_same, Hci. destruct (tst s i); reflexivity.
    + destruct (Nat.eq_dec i0 i) as [->|Hn]; [|other_id_own s m Jo Hrun].
      via_old s m Jo Hrun. cbn. rewrite updn_same, Hci. reflexivity.
  - intros i0. destruct (Nat.eq_dec i0 i) as [->|Hn]; [|cmd_others s m Jc Hrun i0].
    unfold cmd_ok. sset. rewrite updn_same. fin.
  - intros i0. destruct (Nat.eq_dec i0 i) as [->|Hn]; [|tmr_others s m Jt Hrun i0].
    pose proof (Jt i) as H0. unfold tmr_ok, not_reply in *. sset. rewrite updn_same. cbn [loc_eqb].
    destruct (tst s i); try exact H0; try (destruct H0; split; auto); reflexivity.
  - intros n0. destruct (Nat.eq_dec n0 n) as [->|Hn]; [|msg_others s m Jm Hrun n0].
    unfold msg_ok. sset. rewrite updn_same. exact I.
  - sset. destruct (joinst s) as [|n0|n0| |n0|]; try exact Jj; unfold updn.
    + destruct Jj as [Jj1 [Jj2 Jj3]]. repeat split; auto.
      destruct (Nat.eqb_spec n0 n) as [->|]; [congruence | exact Jj2].
    + destruct (Nat.eqb_spec n0 n) as [->|]; [congruence | exact Jj].
    + destruct (Nat.eqb_spec n0 n) as [->|]; [congruence | exact Jj].
  - exact Jl.
  - exact Jr.
Qed.

Lemma ok_WSeeStop s m s' evs : J s m -> step repaired s WSeeStop = Some (s', evs) ->
  exists m', mon_run m evs = Some m' /\ J s' m'.
Proof.
  intros HJ Hs. sstep Hs.
  destruct (wrun s) eqn:Hw; cbn [andb] in Hs; [|discriminate].
  destruct (leavest s) eqn:Hlv; try discriminate. inv_some Hs.
  jdestruct HJ.
  start_run. { mgo. reflexivity. }
  eexists. split; [exact Hrun|].
  constructor.
  - exact Jb.
  - exact Jh.
  - intros l. destruct l as [| | | | | | | |n0|i0|i0|i0]; solve [frames s m Jo Hrun].
  - intros i. apply (cmd_frame s m _ _ _ i (Jc i) Hrun); try reflexivity. auto.
  - intros i. apply (tmr_frame s m _ _ _ i (Jt i) Hrun); reflexivity.
  - intros n0. apply (msg_frame s m _ _ _ n0 (Jm n0) Hrun); reflexivity.
  - exact Jj.
  - sset. rewrite Hlv. exact I.
  - exact Jr.
Qed.

Lemma ok_WExit s m s' evs : J s m -> step repaired s WExit = Some (s', evs) ->
  exists m', mon_run m evs = Some m' /\ J s' m'.
Proof.
  intros HJ Hs. sstep Hs. destruct (wstopping s); [|discriminate]. inv_some Hs.
  exists m. split; [reflexivity|]. destruct HJ as [Jb Jh Jo Jc Jt Jm Jj Jl Jr].
  constructor; auto.
Qed.

Lemma ok_WStopOut i s m s' evs : J s m -> step repaired s (WStopOut i) = Some (s', evs) ->
  exists m', mon_run m evs = Some m' /\ J s' m'.
Proof.
  intros HJ Hs. sstep Hs.
  destruct (wstopping s) eqn:Hw; cbn [andb] in Hs; [|discriminate].
  destruct (cst s i) as [| | | |l|l] eqn:Hci; try discriminate. inv_some Hs.
  jdestruct HJ.
  pose proof (Jc i) as Hc3. unfold cmd_ok in Hc3. rewrite Hci in Hc3.
  pose proof (Jo (LAct i)) as HA. cbn in HA. rewrite Hci in HA.
  pose proof (Jo (LFin i)) as HF. cbn in HF. rewrite Hci in HF.
  start_run. { mgo. reflexivity. }
  eexists. split; [exact Hrun|].
  constructor.
  - exact Jb.
  - exact Jh.
  - intros l. destruct l as [| | | | | | | |n0|i0|i0|i0]; try solve [frames s m Jo Hrun].
    + via_old s m Jo Hrun. apply owner_msg_cst; [reflexivity|]. intros j _. sset. unfold updn.
      destruct (Nat.eqb_spec j i) as [->|]; [rewrite Hci; exact I | destruct (cst s j); exact I].
    + destruct (Nat.eq_dec i0 i) as [->|Hn]; [|other_id_own s m Jo Hrun]. fin.
    + destruct (Nat.eq_dec i0 i) as [->|Hn]; [|other_id_own s m Jo Hrun].
      via_old s m Jo Hrun. cbn. rewrite updn_same, Hci. destruct (tst s i); reflexivity.
    + destruct (Nat.eq_dec i0 i) as [->|Hn]; [|other_id_own s m Jo Hrun]. fin.
  - intros i0. destruct (Nat.eq_dec i0 i) as [->|Hn]; [|cmd_others s m Jc Hrun i0].
    unfold cmd_ok. sset. rewrite updn_same. fin.
  - intros i0. destruct (Nat.eq_dec i0 i) as [->|Hn]; [|tmr_others s m Jt Hrun i0].
    pose proof (Jt i) as H0. unfold tmr_ok, not_reply in *. sset. rewrite updn_same. cbn [loc_eqb].
    destruct (tst s i); try exact H0; try (destruct H0; split; auto); reflexivity.
  - intros n0. apply (msg_frame s m _ _ _ n0 (Jm n0) Hrun); reflexivity.
  - exact Jj.
  - exact Jl.
  - exact Jr.
Qed.

Lemma ok_WStopDrain i s m s' evs : J s m -> step repaired s (WStopDrain i) = Some (s', evs) ->
  exists m', mon_run m evs = Some m' /\ J s' m'.
Proof.
  intros HJ Hs. sstep Hs.
  destruct (wstopping s) eqn:Hw; cbn [andb] in Hs; [|discriminate].
  destruct (cst s i) as [| | | |l|l] eqn:Hci; try discriminate. inv_some Hs.
  jdestruct HJ.
  pose proof (Jc i) as Hc3. unfold cmd_ok in Hc3. rewrite Hci in Hc3. destruct Hc3 as [Hc3 [Hti Hlive]].
  pose proof (Jt i) as Hcpl. unfold tmr_ok in Hcpl. rewrite Hti in Hcpl.
  pose proof (Jo (LAct i)) as HA. cbn in HA. rewrite Hci in HA.
  pose proof (Jo (LFin i)) as HF. cbn in HF. rewrite Hci in HF.
  unfold sess_recv.
  destruct (sess s) as [| | |i'|] eqn:Hsess; try contradiction.
  - destruct (Nat.eqb_spec i' i) as [->|Hn].
    + start_run. { mgo. reflexivity. }
      eexists. split; [exact Hrun|].
      constructor.
      * exact Jb.
      * exact Jh.
      * intros l. destruct l as [| | | | | | | |n0|i0|i0|i0]; try solve [frames s m Jo Hrun].
        -- cbn. rewrite HSess. fin.
        -- via_old s m Jo Hrun. apply owner_msg_cst; [reflexivity|]. intros j _. sset. unfold updn.
           destruct (Nat.eqb_spec j i) as [->|]; [rewrite Hci; exact I | destruct (cst s j); exact I].
        -- destruct (Nat.eq_dec i0 i) as [->|Hn0]; [|other_id_own s m Jo Hrun]. fin.
        -- destruct (Nat.eq_dec i0 i) as [->|Hn0]; [|other_id_own s m Jo Hrun].
           via_old s m Jo Hrun. cbn. rewrite Hti. reflexivity.
        -- destruct (Nat.eq_dec i0 i) as [->|Hn0]; [|other_id_own s m Jo Hrun]. fin.
      * intros i0. destruct (Nat.eq_dec i0 i) as [->|Hn0]; [|cmd_others s m Jc Hrun i0].
        unfold cmd_ok. sset. rewrite updn_same. fin.
      * intros i0. destruct (Nat.eq_dec i0 i) as [->|Hn0]; [|tmr_others s m Jt Hrun i0].
        unfold tmr_ok. sset. rewrite Hti. exact Hcpl.
      * intros n0. apply (msg_frame s m _ _ _ n0 (Jm n0) Hrun); reflexivity.
      * sset. destruct (joinst s); try exact Jj; destruct Jj as [_ [_ E]]; discriminate.
      * exact Jl.
      * sset. auto.
    + neq_facts. start_run. { mgo. reflexivity. }
      eexists. split; [exact Hrun|].
      constructor.
      * exact Jb.
      * exact Jh.
      * intros l. destruct l as [| | | | | | | |n0|i0|i0|i0]; try solve [frames s m Jo Hrun].
        -- cbn. rewrite HSess. cbn. rw_neq. rewrite ?Hsess. fin.
        -- via_old s m Jo Hrun. apply owner_msg_cst; [reflexivity|]. intros j _. sset. unfold updn.
           destruct (Nat.eqb_spec j i) as [->|]; [rewrite Hci; exact I | destruct (cst s j); exact I].
        -- destruct (Nat.eq_dec i0 i) as [->|Hn0]; [|other_id_own s m Jo Hrun]. fin.
        -- destruct (Nat.eq_dec i0 i) as [->|Hn0]; [|other_id_own s m Jo Hrun].
           via_old s m Jo Hrun. cbn. rewrite Hti. reflexivity.
        -- destruct (Nat.eq_dec i0 i) as [->|Hn0]; [|other_id_own s m Jo Hrun]. fin.
      * intros i0. destruct (Nat.eq_dec i0 i) as [->|Hn0]; [|cmd_others s m Jc Hrun i0].
        unfold cmd_ok. sset. rewrite updn_same. fin.
      * intros i0. destruct (Nat.eq_dec i0 i) as [->|Hn0]; [|tmr_others s m Jt Hrun i0].
        unfold tmr_ok. sset. rewrite Hti. exact Hcpl.
      * intros n0. apply (msg_frame s m _ _ _ n0 (Jm n0) Hrun); reflexivity.
      * sset. rewrite Hsess. exact Jj.
      * exact Jl.
      * sset. rewrite Hsess. auto.
  - start_run. { mgo. reflexivity. }
    eexists. split; [exact Hrun|].
    constructor.
    * exact Jb.
    * exact Jh.
    * intros l. destruct l as [| | | | | | | |n0|i0|i0|i0]; try solve [frames s m Jo Hrun].
      -- cbn. rewrite HSess. rewrite ?Hsess. fin.
      -- via_old s m Jo Hrun. apply owner_msg_cst; [reflexivity|]. intros j _. sset. unfold updn.
         destruct (Nat.eqb_spec j i) as [->|]; [rewrite Hci; exact I | destruct (cst s j); exact I].
      -- destruct (Nat.eq_dec i0 i) as [->|Hn0]; [|other_id_own s m Jo Hrun]. fin.
      -- destruct (Nat.eq_dec i0 i) as [->|Hn0]; [|other_id_own s m Jo Hrun].
         via_old s m Jo Hrun. cbn. rewrite Hti. reflexivity.
      -- destruct (Nat.eq_dec i0 i) as [->|Hn0]; [|other_id_own s m Jo Hrun]. fin.
    * intros i0. destruct (Nat.eq_dec i0 i) as [->|Hn0]; [|cmd_others s m Jc Hrun i0].
      unfold cmd_ok. sset. rewrite updn_same. fin.
    * intros i0. destruct (Nat.eq_dec i0 i) as [->|Hn0]; [|tmr_others s m Jt Hrun i0].
      unfold tmr_ok. sset. rewrite Hti. exact Hcpl.
    * intros n0. apply (msg_frame s m _ _ _ n0 (Jm n0) Hrun); reflexivity.
    * sset. rewrite Hsess. exact Jj.
    * exact Jl.
    * sset. rewrite Hsess. auto.
Qed.

(* ---- every step of the repaired model keeps the invariant *)
Lemma step_ok s m c s' evs : J s m -> step repaired s c = Some (s', evs) ->
  exists m', mon_run m evs = Some m' /\ J s' m'.
Proof.
  intros HJ Hs. destruct c.
  - cbn [step] in Hs. rewrite (j_booted _ _ HJ) in Hs. discriminate.
  - eapply ok_RRead; eauto.
  - eapply ok_RJoinSend; eauto.
  - eapply ok_RJoinAck; eauto.
  - eapply ok_RPush; eauto.
  - eapply ok_RStop; eauto.
  - eapply ok_RStop2; eauto.
  - eapply ok_MJoin; eauto.
  - eapply ok_MLeave; eauto.
  - eapply ok_MWrite; eauto.
  - eapply ok_CCall; eauto.
  - eapply ok_CRet; eauto.
  - eapply ok_WAct; eauto.
  - eapply ok_WMsg; eauto.
  - eapply ok_WCpl; eauto.
  - eapply ok_WSeeStop; eauto.
  - eapply ok_WStopOut; eauto.
  - eapply ok_WStopDrain; eauto.
  - eapply ok_WExit; eauto.
  - eapply ok_TFire; eauto.
Qed.

Lemma init_only_boot c s' evs : step repaired init c = Some (s', evs) ->
  s' = set_booted init /\ evs = boot_evs.
Proof.
  destruct c; cbn; try discriminate.
  intros [= <- <-]. split; reflexivity.
Qed.

Definition Good (s : st) (tr : list ev) : Prop :=
  (s = init /\ tr = []) \/ exists m, mon_run mon0 tr = Some m /\ J s m.

Lemma Good_step s tr c s' o : Good s tr -> step repaired s c = Some (s', o) -> Good s' (tr ++ o).
Proof.
  intros [[-> ->]|[m [Hr HJ]]] Hs.
  - destruct (init_only_boot c s' o Hs) as [-> ->]. right. cbn [app]. exact boot_ok.
  - destruct (step_ok s m c s' o HJ Hs) as [m' [Hr' HJ']]. right. exists m'. split; [|exact HJ'].
    rewrite mon_run_app, Hr. exact Hr'.
Qed.

(* every schedule of the repaired connection respects the ownership discipline *)
Theorem conn_disciplined : forall sched,
  exists m, mon_run mon0 (trace (step repaired) init sched) = Some m.
Proof.
  intros sched.
  pose proof (run_invariant_all _ _ _ (step repaired) Good Good_step sched init (or_introl (conj eq_refl eq_refl))) as H.
  destruct H as [[_ ->]|[m [Hr _]]]; [exists mon0; reflexivity | exists m; exact Hr].
Qed.

Theorem race_free : forall sched, races (trace (step repaired) init sched) = [].
Proof. intros sched. destruct (conn_disciplined sched) as [m Hm]. exact (mon_sound _ _ Hm). Qed.

(* ================================================================ [model_acc] is exact
   [performs] (tie (i)) is membership in [model_acc], the accesses along ONE schedule, [cover_sched].  No
   schedule of the model performs a (goroutine class, location class, mode) outside it. *)
Definition acc_in (a : gclass * lclass * bool) : bool :=
  existsb (fun b => match a, b with (g, x, w), (g', x', w') => gclass_eqb g g' && lclass_eqb x x' && Bool.eqb w w' end) model_acc.

Lemma acc_classes_app a b : acc_classes (a ++ b) = acc_classes a ++ acc_classes b.
Proof.
  induction a as [|e a IH]; cbn [app acc_classes]; [reflexivity|].
  destruct e; cbn [acc_classes]; rewrite ?IH; reflexivity.
Qed.

(* the object a caller is handed as the answer is a message, a reply or a freshly made one *)
Lemma crepl_class s m i l : J s m -> cst s i = CRepl l ->
  match lclass_of l with XMsg | XAct | XReply | XFin => True | _ => False end.
Proof.
  intros HJ E. pose proof (j_cmd _ _ HJ i) as Hc. unfold cmd_ok in Hc. rewrite E in Hc.
  pose proof (j_own _ _ HJ l) as Ho.
  destruct l; cbn [lclass_of]; try exact I; cbn [own_rel owner_of] in Ho; try congruence.
  - destruct Ho as [ts [Ho _]]. congruence.
  - destruct Ho as [ts [Ho _]]. congruence.
  - rewrite Hc in Ho. destruct (sess s); try discriminate; injection Ho as Ho; discriminate.
Qed.

Lemma step_acc_in s m c s' evs : J s m -> step repaired s c = Some (s', evs) ->
  forallb acc_in (acc_classes evs) = true.
Proof.
  intros HJ H. pose proof (j_hdr _ _ HJ) as Hh.
  destruct c; cbn [step repaired v_share_header v_clear_handles v_log_serial v_alias_buf v_share_merged] in H;
    repeat match type of H with
           | context [if ?b then _ else _] => destruct b
           | context [match ?x with _ => _ end] => destruct x eqn:?
           end;
    try discriminate; injection H as <- <-; rewrite ?Hh; try (vm_compute; reflexivity).
  match goal with E : cst s ?i = CRepl ?l |- _ => pose proof (crepl_class s m i l HJ E) as Hl end.
  destruct l; cbn [lclass_of] in Hl; try contradiction; vm_compute; reflexivity.
Qed.

Definition GoodAcc (s : st) (tr : list ev) : Prop := Good s tr /\ forallb acc_in (acc_classes tr) = true.

Lemma GoodAcc_step s tr c s' o : GoodAcc s tr -> step repaired s c = Some (s', o) -> GoodAcc s' (tr ++ o).
Proof.
  intros [HG Ha] Hs. split; [exact (Good_step s tr c s' o HG Hs)|].
  rewrite acc_classes_app, forallb_app, Ha. cbn [andb].
  destruct HG as [[-> ->]|[m [_ HJ]]].
  - destruct (init_only_boot c s' o Hs) as [_ ->]. vm_compute. reflexivity.
  - exact (step_acc_in s m c s' o HJ Hs).
Qed.

Theorem model_acc_exact : forall sched a,
  In a (acc_classes (trace (step repaired) init sched)) -> acc_in a = true.
Proof.
  intros sched a Hin.
  assert (H : GoodAcc (final (step repaired) init sched) (trace (step repaired) init sched)).
  { apply (run_invariant_all _ _ _ (step repaired) GoodAcc GoodAcc_step sched init).
    split; [left; split; reflexivity | reflexivity]. }
  destruct H as [_ H]. rewrite forallb_forall in H. exact (H a Hin).
Qed.

(* ... and what [performs] accepts is performed: by a write when a write is asked for, by any access otherwise *)
Lemma gclass_eqb_eq a b : gclass_eqb a b = true -> a = b.
Proof. destruct a, b; cbn; intros H; try discriminate; reflexivity. Qed.
Lemma lclass_eqb_eq a b : lclass_eqb a b = true -> a = b.
Proof. destruct a, b; cbn; intros H; try discriminate; reflexivity. Qed.
Lemma model_acc_is_cover : model_acc = acc_classes (trace (step repaired) init cover_sched).
Proof. vm_compute. reflexivity. Qed.

Lemma performs_witness : forall g x w, performs g x w = true ->
  exists sched w', In (g, x, w') (acc_classes (trace (step repaired) init sched)) /\ (w = true -> w' = true).
Proof.
  intros g x w H. unfold performs in H. rewrite existsb_exists in H. destruct H as [[[g' x'] w'] [Hin Hb]].
  apply andb_prop in Hb. destruct Hb as [Hb Hw]. apply andb_prop in Hb. destruct Hb as [Hg Hx].
  apply gclass_eqb_eq in Hg. apply lclass_eqb_eq in Hx. subst g' x'.
  exists cover_sched, w'. split; [rewrite <- model_acc_is_cover; exact Hin|].
  intros ->. destruct w'; [reflexivity | discriminate].
Qed.

(* ================================================================ what an empty [graph_problems] says
   For ANY site graph (the one of the current tree is Gen/Race_gen.v, checked in Gen/TablesOk_race.v): if
   [graph_problems] finds nothing, then every access site is in a function that exactly one goroutine class
   reaches, its field has a location class, and the model performs that (class, location, role) - hence, by
   [performs_witness] and [race_free], in a schedule of the race-free model. *)
Lemma flat_map_nil {A B} (f : A -> list B) l x : flat_map f l = [] -> In x l -> f x = [].
Proof.
  induction l as [|a l IH]; cbn [flat_map]; intros H Hin; [contradiction|].
  apply app_eq_nil in H. destruct H as [Ha Hl]. destruct Hin as [<-|Hin]; auto.
Qed.

Lemma graph_ok_sites ds es ss cs : graph_problems ds es ss cs = [] ->
  forall s, In s ss ->
    exists g x, cm_get (s_fun s) (classes_of es) = [g] /\ resolve_field ds ss (classes_of es) (s_type s) (s_field s) = Some x /\
                performs g x (s_write s) = true.
Proof.
  unfold graph_problems. intros H s Hin.
  apply app_eq_nil in H. destruct H as [_ H]. apply app_eq_nil in H. destruct H as [H _].
  pose proof (flat_map_nil _ _ s H Hin) as Hs. unfold check_site in Hs.
  destruct (cm_get (s_fun s) (classes_of es)) as [|g [|g' r]]; try discriminate.
  destruct (resolve_field ds ss (classes_of es) (s_type s) (s_field s)) as [x|]; try discriminate.
  destruct (performs g x (s_write s)) eqn:Ep; try discriminate.
  exists g, x. auto.
Qed.

Lemma graph_ok_sites_race_free ds es ss cs : graph_problems ds es ss cs = [] ->
  forall s, In s ss ->
    exists g x sched w',
      cm_get (s_fun s) (classes_of es) = [g] /\ resolve_field ds ss (classes_of es) (s_type s) (s_field s) = Some x /\
      In (g, x, w') (acc_classes (trace (step repaired) init sched)) /\ (s_write s = true -> w' = true) /\
      races (trace (step repaired) init sched) = [].
Proof.
  intros H s Hin. destruct (graph_ok_sites ds es ss cs H s Hin) as [g [x [Hc [Hr Hp]]]].
  destruct (performs_witness g x (s_write s) Hp) as [sched [w' [Hacc Hw]]].
  exists g, x, sched, w'. repeat split; auto. apply race_free.
Qed.

Lemma graph_ok_caps ds es ss cs : graph_problems ds es ss cs = [] ->
  forall c, In c cs -> check_cap (classes_of es) c = [].
Proof.
  unfold graph_problems. intros H c Hin.
  apply app_eq_nil in H. destruct H as [_ H]. apply app_eq_nil in H. destruct H as [_ H].
  exact (flat_map_nil _ _ c H Hin).
Qed.

Lemma graph_ok_edges ds es ss cs : graph_problems ds es ss cs = [] ->
  forall e, In e es -> check_edge (classes_of es) e = [].
Proof.
  unfold graph_problems. intros H e Hin.
  apply app_eq_nil in H. destruct H as [H _]. exact (flat_map_nil _ _ e H Hin).
Qed.

(* C18 — proofs about Model/Race.v.
   Part A  equality tests.
   Part B  [mon_sound]: an execution accepted by the ownership monitor has no race.
   Part C  [conn_disciplined]: every schedule of the repaired connection model is accepted by the
           monitor (invariant: the monitor's ownership map is the one the model state prescribes).
   Part D  [race_free]: forall sched, races (trace (step repaired) init sched) = []. *)
From Coq Require Import List Arith Bool Lia.
From JT.Base Require Import Sched.
From JT.Model Require Import Race.
Import ListNotations.

(* ================================================================ Part A *)

Lemma tid_eqb_spec a b : reflect (a = b) (tid_eqb a b).
Proof.
  destruct a as [| | | |i|i], b as [| | | |j|j]; cbn; try (constructor; congruence);
    destruct (Nat.eqb_spec i j); constructor; congruence.
Qed.

Lemma loc_eqb_spec a b : reflect (a = b) (loc_eqb a b).
Proof.
  destruct a as [| | | | | | | |i|i|i|i], b as [| | | | | | | |j|j|j|j]; cbn; try (constructor; congruence);
    destruct (Nat.eqb_spec i j); constructor; congruence.
Qed.

Lemma tok_eqb_spec a b : reflect (a = b) (tok_eqb a b).
Proof.
  destruct a as [| | | | |i|i|i|i|i], b as [| | | | |j|j|j|j|j]; cbn; try (constructor; congruence);
    destruct (Nat.eqb_spec i j); constructor; congruence.
Qed.

Lemma tid_eqb_refl a : tid_eqb a a = true. Proof. destruct (tid_eqb_spec a a); congruence. Qed.
Lemma loc_eqb_refl a : loc_eqb a a = true. Proof. destruct (loc_eqb_spec a a); congruence. Qed.
Lemma tok_eqb_refl a : tok_eqb a a = true. Proof. destruct (tok_eqb_spec a a); congruence. Qed.

Lemma mem_loc_In l ls : mem_loc l ls = true <-> In l ls.
Proof.
  unfold mem_loc. rewrite existsb_exists. split.
  - intros [x [Hx E]]. destruct (loc_eqb_spec l x); [subst; auto | discriminate].
  - intros H. exists l. split; [auto | apply loc_eqb_refl].
Qed.

Lemma mem_tid_In t ts : mem_tid t ts = true <-> In t ts.
Proof.
  unfold mem_tid. rewrite existsb_exists. split.
  - intros [x [Hx E]]. destruct (tid_eqb_spec t x); [subst; auto | discriminate].
  - intros H. exists t. split; [auto | apply tid_eqb_refl].
Qed.

(* ================================================================ Part B: the monitor is sound *)

Definition Inv (s : vcs) (m : mon) : Prop :=
  (forall a, In a (hist s) ->
     match own m (a_loc a) with
     | OFresh => False
     | OThread t => a_ep a <= clk s t (a_tid a)
     | OToken k => exists v, tkv s k = Some v /\ a_ep a <= v (a_tid a)
     | OShared ts => a_w a = true -> forall t, In t ts -> a_ep a <= clk s t (a_tid a)
     end)
  /\ (forall l k, own m l = OToken k -> sent m k = true).

Lemma Inv0 : Inv vc0 mon0.
Proof. split; [intros a [] | intros l k H; discriminate]. Qed.

Lemma updt_same {A} (f : tid -> A) t a : updt f t a t = a.
Proof. unfold updt. now rewrite tid_eqb_refl. Qed.
Lemma updt_other {A} (f : tid -> A) t a x : x <> t -> updt f t a x = f x.
Proof. unfold updt. destruct (tid_eqb_spec x t); congruence. Qed.

Lemma tick_ge t v x : v x <= tick t v x.
Proof. unfold tick, updt. destruct (tid_eqb_spec x t); subst; lia. Qed.
Lemma vjoin_ge_l a b x : a x <= vjoin a b x. Proof. unfold vjoin; lia. Qed.
Lemma vjoin_ge_r a b x : b x <= vjoin a b x. Proof. unfold vjoin; lia. Qed.

(* every goroutine's clock only grows *)
Lemma clk_mono s e t x : clk s t x <= clk (fst (vc_step s e)) t x.
Proof.
  destruct e as [t0 l w|t0 k g|t0 k|t0 u g sh]; cbn [vc_step fst clk].
  - lia.
  - unfold updt. destruct (tid_eqb_spec t t0); subst; [apply tick_ge | lia].
  - destruct (tkv s k) as [v|]; cbn [fst clk]; [|lia].
    unfold updt. destruct (tid_eqb_spec t t0); subst; [apply vjoin_ge_l | lia].
  - unfold updt. destruct (tid_eqb_spec t t0); subst; [apply tick_ge|].
    destruct (tid_eqb_spec t u); subst; [apply vjoin_ge_l | lia].
Qed.

Lemma forallb_In {A} (f : A -> bool) l x : forallb f l = true -> In x l -> f x = true.
Proof. rewrite forallb_forall. auto. Qed.

Lemma owned_by_eq m t l : owned_by m t l = true -> own m l = OThread t.
Proof.
  unfold owned_by. destruct (own m l) as [|t'|k|ts]; try discriminate.
  destruct (tid_eqb_spec t' t); [now subst | discriminate].
Qed.

Lemma filter_nil {A} (f : A -> bool) l : (forall x, In x l -> f x = false) -> filter f l = [].
Proof.
  induction l as [|a l IH]; intros H; cbn; [reflexivity|].
  rewrite (H a (or_introl eq_refl)). apply IH. intros x Hx. apply H. now right.
Qed.

Lemma mon_step_sound s m e m' :
  Inv s m -> mon_step m e = Some m' ->
  snd (vc_step s e) = [] /\ Inv (fst (vc_step s e)) m'.
Proof.
  intros [I1 I2] Hm.
  destruct e as [t l w|t k give|t k|t u give share].
  - (* access *)
    cbn [mon_step] in Hm. cbn [vc_step fst snd].
    destruct (own m l) as [|t'|k|ts] eqn:Eo.
    + (* first touch *)
      injection Hm as <-. split.
      * rewrite filter_nil; [reflexivity|]. intros a Ha. unfold conflict.
        destruct (loc_eqb_spec (a_loc a) l) as [El|]; [|reflexivity].
        specialize (I1 a Ha). rewrite El, Eo in I1. destruct I1.
      * split; cbn [hist own clk tkv sent].
        -- intros a [<-|Ha]; cbn [a_loc a_tid a_ep].
           ++ unfold updl. rewrite loc_eqb_refl. lia.
           ++ specialize (I1 a Ha). unfold updl. destruct (loc_eqb_spec (a_loc a) l) as [El|]; [|exact I1].
              rewrite El, Eo in I1. destruct I1.
        -- intros l0 k. unfold updl. destruct (loc_eqb_spec l0 l); [discriminate | apply I2].
    + (* the owner *)
      destruct (tid_eqb_spec t' t) as [->|]; [|discriminate]. injection Hm as <-. split.
      * rewrite filter_nil; [reflexivity|]. intros a Ha. unfold conflict.
        destruct (loc_eqb_spec (a_loc a) l) as [El|]; [|reflexivity].
        specialize (I1 a Ha). rewrite El, Eo in I1.
        destruct (tid_eqb (a_tid a) t); cbn [negb andb]; [reflexivity|].
        destruct (w || a_w a); cbn [andb]; [|reflexivity].
        apply Nat.leb_le in I1. now rewrite I1.
      * split; cbn [hist own clk tkv sent]; [|exact I2].
        intros a [<-|Ha]; cbn [a_loc a_tid a_ep]; [rewrite Eo; lia | exact (I1 a Ha)].
    + discriminate.
    + (* shared, read only *)
      destruct w; cbn [negb andb] in Hm; [discriminate|].
      destruct (mem_tid t ts) eqn:Et; [|discriminate]. injection Hm as <-.
      apply mem_tid_In in Et. split.
      * rewrite filter_nil; [reflexivity|]. intros a Ha. unfold conflict.
        destruct (loc_eqb_spec (a_loc a) l) as [El|]; [|reflexivity].
        specialize (I1 a Ha). rewrite El, Eo in I1.
        destruct (tid_eqb (a_tid a) t); cbn [negb andb]; [reflexivity|].
        cbn [orb]. destruct (a_w a); cbn [andb]; [|reflexivity].
        specialize (I1 eq_refl t Et). apply Nat.leb_le in I1. now rewrite I1.
      * split; cbn [hist own clk tkv sent]; [|exact I2].
        intros a [<-|Ha]; cbn [a_loc a_tid a_ep a_w]; [rewrite Eo; discriminate | exact (I1 a Ha)].
  - (* send *)
    cbn [mon_step] in Hm. destruct (sent m k) eqn:Es; [discriminate|].
    destruct (forallb (owned_by m t) give) eqn:Eg; [|discriminate]. injection Hm as <-.
    split; [reflexivity|]. cbn [vc_step fst]. split; cbn [hist own clk tkv sent].
    + intros a Ha. specialize (I1 a Ha).
      destruct (mem_loc (a_loc a) give) eqn:Em.
      * apply mem_loc_In in Em. apply (forallb_In _ _ _ Eg), owned_by_eq in Em. rewrite Em in I1.
        exists (clk s t). split; [unfold updk; now rewrite tok_eqb_refl | exact I1].
      * destruct (own m (a_loc a)) as [|t0|k0|ts] eqn:Eo; [exact I1| | |].
        -- unfold updt. destruct (tid_eqb_spec t0 t); subst; [etransitivity; [exact I1 | apply tick_ge] | exact I1].
        -- assert (k0 <> k) by (intros ->; rewrite (I2 _ _ Eo) in Es; discriminate).
           unfold updk. destruct (tok_eqb_spec k0 k); [contradiction | exact I1].
        -- intros Hw t0 Ht0. specialize (I1 Hw t0 Ht0).
           unfold updt. destruct (tid_eqb_spec t0 t); subst; [etransitivity; [exact I1 | apply tick_ge] | exact I1].
    + intros l k0. destruct (mem_loc l give).
      * intros [= <-]. unfold updk. now rewrite tok_eqb_refl.
      * intros H. unfold updk. destruct (tok_eqb k0 k); [reflexivity | exact (I2 _ _ H)].
  - (* receive *)
    cbn [mon_step] in Hm. injection Hm as <-. cbn [vc_step].
    assert (Hmono : forall t0 x, clk s t0 x <= clk (fst (vc_step s (ERecv t k))) t0 x) by (intros; apply clk_mono).
    cbn [vc_step] in Hmono.
    destruct (tkv s k) as [v|] eqn:Ek; cbn [fst snd] in *; (split; [reflexivity|]); split; cbn [hist own clk tkv sent].
    + intros a Ha. specialize (I1 a Ha).
      destruct (own m (a_loc a)) as [|t0|k0|ts] eqn:Eo; [exact I1| | |].
      * etransitivity; [exact I1 | apply Hmono].
      * destruct (tok_eqb_spec k0 k) as [->|].
        -- destruct I1 as [v' [Ev' Hle]]. rewrite Ek in Ev'. injection Ev' as <-.
           rewrite updt_same. etransitivity; [exact Hle | apply vjoin_ge_r].
        -- exact I1.
      * intros Hw t0 Ht0. etransitivity; [exact (I1 Hw t0 Ht0) | apply Hmono].
    + intros l k0. destruct (own m l) as [|t0|k1|ts] eqn:Eo; try discriminate.
      destruct (tok_eqb_spec k1 k); [discriminate|]. intros [= <-]. exact (I2 _ _ Eo).
    + intros a Ha. specialize (I1 a Ha).
      destruct (own m (a_loc a)) as [|t0|k0|ts] eqn:Eo; [exact I1|exact I1| |exact I1].
      destruct (tok_eqb_spec k0 k) as [->|]; [|exact I1].
      destruct I1 as [v' [Ev' _]]. rewrite Ek in Ev'. discriminate.
    + intros l k0. destruct (own m l) as [|t0|k1|ts] eqn:Eo; try discriminate.
      destruct (tok_eqb_spec k1 k); [discriminate|]. intros [= <-]. exact (I2 _ _ Eo).
  - (* go *)
    cbn [mon_step] in Hm. destruct (tid_eqb_spec t u) as [|Htu]; [discriminate|].
    destruct (forallb (owned_by m t) give) eqn:Eg; cbn [andb] in Hm; [|discriminate].
    destruct (forallb (shareable m t) share) eqn:Esh; [|discriminate]. injection Hm as <-.
    split; [reflexivity|].
    assert (Hmono : forall t0 x, clk s t0 x <= clk (fst (vc_step s (EFork t u give share))) t0 x) by (intros; apply clk_mono).
    cbn [vc_step fst] in *. cbn [clk] in Hmono.
    assert (Hu : forall x, clk s t x <= updt (updt (clk s) u (vjoin (clk s u) (clk s t))) t (tick t (clk s t)) u x).
    { intros x. rewrite updt_other by congruence. rewrite updt_same. apply vjoin_ge_r. }
    split; cbn [hist own clk tkv sent].
    + intros a Ha. specialize (I1 a Ha).
      destruct (mem_loc (a_loc a) give) eqn:Em.
      * apply mem_loc_In in Em. apply (forallb_In _ _ _ Eg), owned_by_eq in Em. rewrite Em in I1.
        etransitivity; [exact I1 | apply Hu].
      * destruct (mem_loc (a_loc a) share) eqn:Ems.
        -- apply mem_loc_In in Ems. pose proof (forallb_In _ _ _ Esh Ems) as Hs. unfold shareable in Hs.
           destruct (own m (a_loc a)) as [|t0|k0|ts] eqn:Eo; try discriminate.
           ++ destruct (tid_eqb_spec t0 t) as [->|]; [|discriminate].
              intros Hw t1 [<-|[<-|[]]].
              ** etransitivity; [exact I1 | apply Hu].
              ** etransitivity; [exact I1 | apply Hmono].
           ++ apply mem_tid_In in Hs. intros Hw t1 [<-|Ht1].
              ** etransitivity; [exact (I1 Hw t Hs) | apply Hu].
              ** etransitivity; [exact (I1 Hw t1 Ht1) | apply Hmono].
        -- destruct (own m (a_loc a)) as [|t0|k0|ts] eqn:Eo; [exact I1| |exact I1|].
           ++ etransitivity; [exact I1 | apply Hmono].
           ++ intros Hw t1 Ht1. etransitivity; [exact (I1 Hw t1 Ht1) | apply Hmono].
    + intros l k0. destruct (mem_loc l give); [discriminate|].
      destruct (mem_loc l share); [|apply I2].
      destruct (own m l) as [|t0|k1|ts] eqn:Eo; try discriminate. intros [= <-]. exact (I2 _ _ Eo).
Qed.

Lemma mon_run_sound : forall tr s m m', Inv s m -> mon_run m tr = Some m' -> vc_run s tr = [].
Proof.
  induction tr as [|e tr IH]; intros s m m' HI Hr; cbn [vc_run]; [reflexivity|].
  cbn [mon_run] in Hr. destruct (mon_step m e) as [m1|] eqn:E1; [|discriminate].
  destruct (mon_step_sound s m e m1 HI E1) as [Hn HI1].
  destruct (vc_step s e) as [s1 r]. cbn [fst snd] in *. subst r. cbn [app].
  exact (IH s1 m1 m' HI1 Hr).
Qed.

(* an execution that respects the ownership discipline has no data race *)
Theorem mon_sound : forall tr m', mon_run mon0 tr = Some m' -> races tr = [].
Proof. intros tr m' H. exact (mon_run_sound tr vc0 mon0 m' Inv0 H). Qed.

Lemma mon_run_app : forall a b m,
  mon_run m (a ++ b) = match mon_run m a with Some m1 => mon_run m1 b | None => None end.
Proof.
  induction a as [|e a IH]; intros b m; cbn [app mon_run]; [reflexivity|].
  destruct (mon_step m e); [apply IH | reflexivity].
Qed.

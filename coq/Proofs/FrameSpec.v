(* C02: an independent, declarative description of the well-formed JT/T 808 frames
   (written from the standard's tables 1-4, not by calling the model), and the proof that
   Model/Frame.decode accepts exactly those and returns exactly their fields. *)
From JT.Base Require Import Prelude PreludeP.
From JT.Model Require Import Frame.
From JT.Proofs Require Import Frame_proofs.
From Coq Require Import ZArith ZifyN ZifyNat ZifyBool.
Ltac Zify.zify_post_hook ::= Z.div_mod_to_equations.

(* wire bytes ~ payload bytes *)
Inductive Esc : list N -> list N -> Prop :=
| Esc_nil : Esc [] []
| Esc_7e w p : Esc w p -> Esc (125 :: 2 :: w) (126 :: p)
| Esc_7d w p : Esc w p -> Esc (125 :: 1 :: w) (125 :: p)
| Esc_lit b w p : b <> 125 -> b <> 126 -> Esc w p -> Esc (b :: w) (b :: p)
| Esc_last : Esc [125] [125].        (* the one tolerated deviation: unescaped 0x7d as last byte *)

(* the message-property word: bit 14 version, bit 13 fragmentation, bit 10 encryption (RSA),
   bits 0-9 body length; bits 11, 12, 15 are not interpreted *)
Definition std_attr (m : msg) (attr : N) : Prop :=
  attr < 65536 /\ N.testbit attr 14 = (m_ver m =? 1) /\ N.testbit attr 13 = (m_frag m =? 1) /\
  N.testbit attr 10 = (m_enc m =? 1) /\ attr mod 1024 = m_len m.

(* header ++ body ++ checksum; [vb] is the protocol-version byte of the 2019 layout *)
Definition std_payload (m : msg) (attr vb : N) : list N :=
  be_enc 2 (m_id m) ++ be_enc 2 attr ++ (if m_ver m =? 1 then [vb] else []) ++ m_bcd m ++
  be_enc 2 (m_serial m) ++
  (if m_frag m =? 1 then be_enc 2 (m_sum m) ++ be_enc 2 (m_no m) else []) ++
  m_body m ++ [m_check m].

Definition fields_std (m : msg) : Prop :=
  m_id m < 65536 /\ m_ver m < 2 /\ m_frag m < 2 /\ m_enc m < 2 /\ m_serial m < 65536 /\
  length (m_bcd m) = (if m_ver m =? 1 then 10%nat else 6%nat) /\
  (if m_frag m =? 1 then m_sum m < 65536 /\ m_no m < 65536 else m_sum m = 0 /\ m_no m = 0) /\
  len (m_body m) = m_len m.

Definition WellFormed (data : list N) (m : msg) : Prop :=
  exists w p attr vb,
    data = 126 :: w ++ [126] /\ w <> [] /\ Esc w p /\ xor_all p = 0 /\
    std_attr m attr /\ p = std_payload m attr vb /\ fields_std m.

Definition no_interior_delim (data : list N) : Prop := ~ In 126 (removelast (tl data)).

(* ---------------- Esc <-> unesc ---------------- *)
Lemma Esc_unesc w p : Esc w p -> unesc w = Ok p.
Proof.
  induction 1 as [|w p _ IH|w p _ IH|b w p H5 H6 _ IH|]; cbn [unesc]; try reflexivity.
  - change (125 =? 125) with true. cbv iota. change (2 =? 1) with false. change (2 =? 2) with true.
    cbv iota. now rewrite IH.
  - change (125 =? 125) with true. cbv iota. change (1 =? 1) with true. cbv iota. now rewrite IH.
  - replace (b =? 125) with false by lia. now rewrite IH.
Qed.

Lemma unesc_Esc_n n : forall w p, (length w <= n)%nat -> ~ In 126 w -> unesc w = Ok p -> Esc w p.
Proof.
  induction n as [|n IH]; intros w p Hn Hin Hu.
  - destruct w; [|cbn in Hn; lia]. inversion Hu. apply Esc_nil.
  - destruct w as [|b t]; cbn [unesc] in Hu.
    + inversion Hu. apply Esc_nil.
    + cbn [length] in Hn. destruct (b =? 125) eqn:E5.
      * apply N.eqb_eq in E5. subst b. destruct t as [|c t']; [inversion Hu; subst p; apply Esc_last|].
        cbn [length] in Hn.
        destruct (c =? 1) eqn:E1; [|destruct (c =? 2) eqn:E2; [|discriminate Hu]];
          destruct (unesc t') as [r| |] eqn:Er; cbn [bind] in Hu; try discriminate Hu;
          inversion Hu; subst p.
        -- apply N.eqb_eq in E1. subst c. apply Esc_7d. apply (IH t'); auto. lia.
           intros C. apply Hin. right. right. exact C.
        -- apply N.eqb_eq in E2. subst c. apply Esc_7e. apply (IH t'); auto. lia.
           intros C. apply Hin. right. right. exact C.
      * destruct (unesc t) as [r| |] eqn:Er; cbn [bind] in Hu; try discriminate Hu.
        inversion Hu; subst p. apply Esc_lit. lia.
        intros C. apply Hin. left. auto.
        apply (IH t); auto. lia. intros C. apply Hin. right. exact C.
Qed.

Lemma unesc_Esc w p : ~ In 126 w -> unesc w = Ok p -> Esc w p.
Proof. apply (unesc_Esc_n (length w)). lia. Qed.

(* ---------------- shape of what unescape accepts ---------------- *)
Lemma delimited_inv d : (2 <? len d) = true -> hd 0 d = 126 -> last d 0 = 126 ->
  exists w, d = 126 :: w ++ [126] /\ w <> [] /\ w = removelast (tl d).
Proof.
  intros L H1 H2. destruct d as [|a t]; [cbn in L; discriminate|]. cbn [hd] in H1. subst a.
  assert (Ht : t <> []) by (intros ->; cbn in L; discriminate).
  destruct (exists_last Ht) as (w & z & ->).
  assert (z = 126).
  { change (126 :: w ++ [z]) with ((126 :: w) ++ [z]) in H2. rewrite last_app_one in H2. exact H2. }
  subst z. exists w. split; [reflexivity|]. split.
  - intros ->. cbn in L. discriminate.
  - cbn [tl]. now rewrite removelast_app_one.
Qed.

Lemma unescape_inv d p : unescape d = Ok p ->
  exists w, d = 126 :: w ++ [126] /\ w <> [] /\ w = removelast (tl d) /\ unesc w = Ok p.
Proof.
  unfold unescape. intros H.
  destruct (2 <? len d) eqn:L; [|discriminate H].
  destruct (hd 0 d =? 126) eqn:H1; [|discriminate H].
  destruct (last d 0 =? 126) eqn:H2; [|discriminate H].
  cbn [andb negb] in H.
  destruct (delimited_inv d L ltac:(lia) ltac:(lia)) as (w & E & Hw & Ew).
  exists w. repeat split; auto. now rewrite Ew.
Qed.

(* ---------------- payload layout -> fields (completeness of the parser) ---------------- *)
Lemma testbit_land_shiftr a k : N.land (N.shiftr a k) 1 = if N.testbit a k then 1 else 0.
Proof.
  assert (T : N.testbit (N.shiftr a k) 0 = N.testbit a k) by (rewrite N.shiftr_spec'; f_equal; lia).
  rewrite <- T. change 1 with (N.ones 1) at 1. rewrite N.land_ones. change (2 ^ 1) with 2.
  rewrite <- N.bit0_mod. destruct (N.testbit (N.shiftr a k) 0); reflexivity.
Qed.

Lemma bit10_shift a : N.shiftr (N.land a 1024) 10 = if N.testbit a 10 then 1 else 0.
Proof.
  rewrite N.shiftr_land. change (N.shiftr 1024 10) with 1. apply testbit_land_shiftr.
Qed.

Lemma land1023 a : N.land a 1023 = a mod 1024.
Proof. change 1023 with (N.ones 10). rewrite N.land_ones. reflexivity. Qed.

Lemma b2n_eqb1 (x : N) : x < 2 -> (if (x =? 1) then 1 else 0) = x.
Proof. intros H. destruct (x =? 1) eqn:E; lia. Qed.

Ltac ground_nat v := lazymatch v with O => idtac | S ?k => ground_nat k end.
Ltac at_simpl :=
  repeat match goal with
  | |- context [at_ ?l ?i] =>
      let v := eval cbv in (N.to_nat i) in ground_nat v; change (at_ l i) with (nth v l 0)
  end; cbn [nth].

Lemma firstn_len_app {A} (a b : list A) : firstn (length a) (a ++ b) = a.
Proof. rewrite firstn_app, Nat.sub_diag, firstn_all. cbn. apply app_nil_r. Qed.

Lemma nth_len_app {A} (a : list A) x d : nth (length a) (a ++ [x]) d = x.
Proof. rewrite app_nth2, Nat.sub_diag by lia. reflexivity. Qed.

Lemma std_payload_parse m attr vb :
  std_attr m attr -> fields_std m -> xor_all (std_payload m attr vb) = 0 ->
  parse_payload (std_payload m attr vb) = Ok m.
Proof.
  intros (Ha & A14 & A13 & A10 & Alen) (Hid & Hv & Hf & He & Hs & Hl & Hsn & Hb) Hx.
  destruct m as [id blen enc frag ver bcd ser sum no body chk].
  cbn [m_id m_len m_enc m_frag m_ver m_bcd m_serial m_sum m_no m_body m_check] in *.
  unfold parse_payload. rewrite Hx. change (negb (0 =? 0)) with false. cbv iota. clear Hx.
  unfold std_payload. cbn [m_id m_len m_enc m_frag m_ver m_bcd m_serial m_sum m_no m_body m_check].
  assert (V : ver = 0 \/ ver = 1) by lia. assert (Fr : frag = 0 \/ frag = 1) by lia.
  assert (Een : (if N.testbit attr 10 then 1 else 0) = enc) by (rewrite A10; apply b2n_eqb1, He).
  destruct bcd as [|b0 [|b1 [|b2 [|b3 [|b4 [|b5 t6]]]]]];
    try (destruct V as [V|V]; rewrite V in Hl; discriminate Hl).
  destruct V as [V|V]; destruct Fr as [Fr|Fr]; subst ver frag;
    change (0 =? 1) with false in *; change (1 =? 1) with true in *; cbv iota in *;
    [destruct t6; [|discriminate Hl] | destruct t6; [|discriminate Hl]
    | destruct t6 as [|b6 [|b7 [|b8 [|b9 [|? ?]]]]]; try discriminate Hl
    | destruct t6 as [|b6 [|b7 [|b8 [|b9 [|? ?]]]]]; try discriminate Hl];
    cbn [be_enc app]; rewrite !len_cons, len_app, len_cons, len_nil, Hb;
    at_simpl; rewrite !be16_split by assumption;
    rewrite !testbit_land_shiftr, bit10_shift, land1023, A14, A13, Een, Alen;
    cbv iota; change (0 =? 1) with false; change (1 =? 1) with true; cbv iota; cbn [andb].
  - (* 2013, not fragmented *)
    replace (_ <? 4) with false by lia. replace (_ <? 4 + 6 + 2) with false by lia.
    replace (negb (_ =? _)) with false by lia.
    unfold sub. f_equal. f_equal; try (at_simpl; unfold be16; lia); try reflexivity.
    + replace (N.to_nat (4 + 6 + 2 + blen - (4 + 6 + 2))) with (length body) by (unfold len in Hb; lia).
      change (N.to_nat (4 + 6 + 2)) with 12%nat. cbn [skipn]. apply firstn_len_app.
    + unfold at_. replace (N.to_nat (4 + 6 + 2 + blen)) with (12 + length body)%nat by (unfold len in Hb; lia).
      cbn [nth Nat.add]. apply nth_len_app.
  - (* 2013, fragmented *)
    replace (_ <? 4) with false by lia. replace (_ <? 4 + 6 + 2) with false by lia. replace (_ <? 4 + 6 + 6) with false by lia.
    replace (negb (_ =? _)) with false by lia.
    unfold sub. f_equal. f_equal; try (at_simpl; unfold be16; lia); try reflexivity.
    + replace (N.to_nat (4 + 6 + 6 + blen - (4 + 6 + 6))) with (length body) by (unfold len in Hb; lia).
      change (N.to_nat (4 + 6 + 6)) with 16%nat. cbn [skipn]. apply firstn_len_app.
    + unfold at_. replace (N.to_nat (4 + 6 + 6 + blen)) with (16 + length body)%nat by (unfold len in Hb; lia).
      cbn [nth Nat.add]. apply nth_len_app.
  - (* 2019, not fragmented *)
    replace (_ <? 4) with false by lia. replace (_ <? 5 + 10 + 2) with false by lia.
    replace (negb (_ =? _)) with false by lia.
    unfold sub. f_equal. f_equal; try (at_simpl; unfold be16; lia); try reflexivity.
    + replace (N.to_nat (5 + 10 + 2 + blen - (5 + 10 + 2))) with (length body) by (unfold len in Hb; lia).
      change (N.to_nat (5 + 10 + 2)) with 17%nat. cbn [skipn]. apply firstn_len_app.
    + unfold at_. replace (N.to_nat (5 + 10 + 2 + blen)) with (17 + length body)%nat by (unfold len in Hb; lia).
      cbn [nth Nat.add]. apply nth_len_app.
  - (* 2019, fragmented *)
    replace (_ <? 4) with false by lia. replace (_ <? 5 + 10 + 2) with false by lia. replace (_ <? 5 + 10 + 6) with false by lia.
    replace (negb (_ =? _)) with false by lia.
    unfold sub. f_equal. f_equal; try (at_simpl; unfold be16; lia); try reflexivity.
    + replace (N.to_nat (5 + 10 + 6 + blen - (5 + 10 + 6))) with (length body) by (unfold len in Hb; lia).
      change (N.to_nat (5 + 10 + 6)) with 21%nat. cbn [skipn]. apply firstn_len_app.
    + unfold at_. replace (N.to_nat (5 + 10 + 6 + blen)) with (21 + length body)%nat by (unfold len in Hb; lia).
      cbn [nth Nat.add]. apply nth_len_app.
Qed.

(* ---------------- fields -> payload layout (soundness of the parser) ---------------- *)
Lemma firstn_nth_last {A} (l : list A) (n : nat) d : length l = S n -> l = firstn n l ++ [nth n l d].
Proof.
  revert l. induction n as [|n IH]; intros l H.
  - destruct l as [|a [|b l]]; cbn in H; try lia. reflexivity.
  - destruct l as [|a l]; cbn [length] in H; [lia|]. cbn [firstn nth app]. f_equal. apply IH. lia.
Qed.

Lemma be16_bytes a b : a < 256 -> b < 256 ->
  be16 a b < 65536 /\ be16 a b / 256 mod 256 = a /\ be16 a b mod 256 = b.
Proof. unfold be16. intros. lia. Qed.

Lemma if_testbit_eqb (t : bool) : ((if t then 1 else 0) =? 1) = t.
Proof. destruct t; reflexivity. Qed.

Lemma parse_payload_std p m : bytes p -> parse_payload p = Ok m ->
  exists attr vb, xor_all p = 0 /\ std_attr m attr /\ p = std_payload m attr vb /\ fields_std m.
Proof.
  intros Hp. unfold parse_payload.
  destruct (negb (xor_all p =? 0)) eqn:X; [discriminate|].
  assert (Hx : xor_all p = 0) by lia. clear X.
  destruct (len p <? 4) eqn:L4; [discriminate|].
  destruct p as [|b0 [|b1 [|b2 [|b3 rest]]]]; try (cbn in L4; discriminate L4). clear L4.
  apply bytes_cons in Hp. destruct Hp as [B0 Hp]. apply bytes_cons in Hp. destruct Hp as [B1 Hp].
  apply bytes_cons in Hp. destruct Hp as [B2 Hp]. apply bytes_cons in Hp. destruct Hp as [B3 Hp].
  at_simpl.
  destruct (be16_bytes b0 b1 B0 B1) as (I0 & I1 & I2).
  destruct (be16_bytes b2 b3 B2 B3) as (T0 & T1 & T2).
  set (attr := be16 b2 b3) in *.
  rewrite !testbit_land_shiftr, bit10_shift, land1023, !if_testbit_eqb.
  intros H. exists attr.
  assert (SA : forall ver frag enc, ver = (if N.testbit attr 14 then 1 else 0) ->
     frag = (if N.testbit attr 13 then 1 else 0) -> enc = (if N.testbit attr 10 then 1 else 0) ->
     N.testbit attr 14 = (ver =? 1) /\ N.testbit attr 13 = (frag =? 1) /\ N.testbit attr 10 = (enc =? 1) /\
     ver < 2 /\ frag < 2 /\ enc < 2).
  { intros ? ? ? -> -> ->. rewrite !if_testbit_eqb.
    destruct (N.testbit attr 14), (N.testbit attr 13), (N.testbit attr 10); repeat split; lia. }
  assert (Lm : attr mod 1024 < 1024) by (apply N.mod_lt; discriminate).
  destruct (N.testbit attr 14) eqn:V; destruct (N.testbit attr 13) eqn:F; cbn [andb] in H.
  - (* ver=True frag=True: 21 header bytes *)
    destruct (_ <? 5 + 10 + 2) eqn:L1 in H; [discriminate|].
    destruct (_ <? 5 + 10 + 6) eqn:L2 in H; [discriminate|].
    destruct (negb _) eqn:L3 in H; [discriminate|].
    do 17 (destruct rest as [|? rest]; [cbn in L2; discriminate L2|]).
    rewrite !len_cons in L3.
    repeat (apply bytes_cons in Hp; let Hb := fresh "Bb" in destruct Hp as [Hb Hp]).
    revert H. at_simpl. unfold sub. change (N.to_nat (5 + 10 - 5)) with 10%nat. change (N.to_nat 5) with 5%nat.
    change (N.to_nat (5 + 10 + 6)) with 21%nat. cbn [skipn firstn].
    replace (N.to_nat (5 + 10 + 6 + attr mod 1024 - (5 + 10 + 6))) with (N.to_nat (attr mod 1024)) by lia.
    unfold at_. replace (N.to_nat (5 + 10 + 6 + attr mod 1024)) with (21 + N.to_nat (attr mod 1024))%nat by lia.
    cbn [nth Nat.add]. intros H. inversion H; subst m; clear H.
    exists n. split; [exact Hx|].
    destruct (SA 1 1 _ eq_refl eq_refl eq_refl) as (S1 & S2 & S3 & S4 & S5 & S6).
    split; [|split].
    + unfold std_attr. cbn [m_ver m_frag m_enc m_len]. repeat split; auto.
    + unfold std_payload. cbn [m_id m_len m_enc m_frag m_ver m_bcd m_serial m_sum m_no m_body m_check].
      change (1 =? 1) with true. change (1 =? 1) with true. cbv iota. cbn [be_enc app].
      rewrite I1, I2, T1, T2.
      repeat match goal with |- context [be16 ?a ?b / 256 mod 256] =>
        let H := fresh in destruct (be16_bytes a b ltac:(assumption) ltac:(assumption)) as (_ & H & _); rewrite H; clear H end.
      repeat match goal with |- context [be16 ?a ?b mod 256] =>
        let H := fresh in destruct (be16_bytes a b ltac:(assumption) ltac:(assumption)) as (_ & _ & H); rewrite H; clear H end.
      do 21 f_equal. apply firstn_nth_last. unfold len in L3. lia.
    + unfold fields_std. cbn [m_id m_len m_enc m_frag m_ver m_bcd m_serial m_sum m_no m_body m_check].
      change (1 =? 1) with true. change (1 =? 1) with true. cbv iota.
      repeat split; auto; try (apply be16_bytes; assumption).
      unfold len. rewrite firstn_length. unfold len in L3. lia.
  - (* ver=True frag=False: 17 header bytes *)
    destruct (_ <? 5 + 10 + 2) eqn:L1 in H; [discriminate|].
    cbv iota in H.
    destruct (negb _) eqn:L3 in H; [discriminate|].
    do 13 (destruct rest as [|? rest]; [cbn in L1; discriminate L1|]).
    rewrite !len_cons in L3.
    repeat (apply bytes_cons in Hp; let Hb := fresh "Bb" in destruct Hp as [Hb Hp]).
    revert H. at_simpl. unfold sub. change (N.to_nat (5 + 10 - 5)) with 10%nat. change (N.to_nat 5) with 5%nat.
    change (N.to_nat (5 + 10 + 2)) with 17%nat. cbn [skipn firstn].
    replace (N.to_nat (5 + 10 + 2 + attr mod 1024 - (5 + 10 + 2))) with (N.to_nat (attr mod 1024)) by lia.
    unfold at_. replace (N.to_nat (5 + 10 + 2 + attr mod 1024)) with (17 + N.to_nat (attr mod 1024))%nat by lia.
    cbn [nth Nat.add]. intros H. inversion H; subst m; clear H.
    exists n. split; [exact Hx|].
    destruct (SA 1 0 _ eq_refl eq_refl eq_refl) as (S1 & S2 & S3 & S4 & S5 & S6).
    split; [|split].
    + unfold std_attr. cbn [m_ver m_frag m_enc m_len]. repeat split; auto.
    + unfold std_payload. cbn [m_id m_len m_enc m_frag m_ver m_bcd m_serial m_sum m_no m_body m_check].
      change (1 =? 1) with true. change (0 =? 1) with false. cbv iota. cbn [be_enc app].
      rewrite I1, I2, T1, T2.
      repeat match goal with |- context [be16 ?a ?b / 256 mod 256] =>
        let H := fresh in destruct (be16_bytes a b ltac:(assumption) ltac:(assumption)) as (_ & H & _); rewrite H; clear H end.
      repeat match goal with |- context [be16 ?a ?b mod 256] =>
        let H := fresh in destruct (be16_bytes a b ltac:(assumption) ltac:(assumption)) as (_ & _ & H); rewrite H; clear H end.
      do 17 f_equal. apply firstn_nth_last. unfold len in L3. lia.
    + unfold fields_std. cbn [m_id m_len m_enc m_frag m_ver m_bcd m_serial m_sum m_no m_body m_check].
      change (1 =? 1) with true. change (0 =? 1) with false. cbv iota.
      repeat split; auto; try (apply be16_bytes; assumption).
      unfold len. rewrite firstn_length. unfold len in L3. lia.
  - (* ver=False frag=True: 16 header bytes *)
    destruct (_ <? 4 + 6 + 2) eqn:L1 in H; [discriminate|].
    destruct (_ <? 4 + 6 + 6) eqn:L2 in H; [discriminate|].
    destruct (negb _) eqn:L3 in H; [discriminate|].
    do 12 (destruct rest as [|? rest]; [cbn in L2; discriminate L2|]).
    rewrite !len_cons in L3.
    repeat (apply bytes_cons in Hp; let Hb := fresh "Bb" in destruct Hp as [Hb Hp]).
    revert H. at_simpl. unfold sub. change (N.to_nat (4 + 6 - 4)) with 6%nat. change (N.to_nat 4) with 4%nat.
    change (N.to_nat (4 + 6 + 6)) with 16%nat. cbn [skipn firstn].
    replace (N.to_nat (4 + 6 + 6 + attr mod 1024 - (4 + 6 + 6))) with (N.to_nat (attr mod 1024)) by lia.
    unfold at_. replace (N.to_nat (4 + 6 + 6 + attr mod 1024)) with (16 + N.to_nat (attr mod 1024))%nat by lia.
    cbn [nth Nat.add]. intros H. inversion H; subst m; clear H.
    exists 0. split; [exact Hx|].
    destruct (SA 0 1 _ eq_refl eq_refl eq_refl) as (S1 & S2 & S3 & S4 & S5 & S6).
    split; [|split].
    + unfold std_attr. cbn [m_ver m_frag m_enc m_len]. repeat split; auto.
    + unfold std_payload. cbn [m_id m_len m_enc m_frag m_ver m_bcd m_serial m_sum m_no m_body m_check].
      change (0 =? 1) with false. change (1 =? 1) with true. cbv iota. cbn [be_enc app].
      rewrite I1, I2, T1, T2.
      repeat match goal with |- context [be16 ?a ?b / 256 mod 256] =>
        let H := fresh in destruct (be16_bytes a b ltac:(assumption) ltac:(assumption)) as (_ & H & _); rewrite H; clear H end.
      repeat match goal with |- context [be16 ?a ?b mod 256] =>
        let H := fresh in destruct (be16_bytes a b ltac:(assumption) ltac:(assumption)) as (_ & _ & H); rewrite H; clear H end.
      do 16 f_equal. apply firstn_nth_last. unfold len in L3. lia.
    + unfold fields_std. cbn [m_id m_len m_enc m_frag m_ver m_bcd m_serial m_sum m_no m_body m_check].
      change (0 =? 1) with false. change (1 =? 1) with true. cbv iota.
      repeat split; auto; try (apply be16_bytes; assumption).
      unfold len. rewrite firstn_length. unfold len in L3. lia.
  - (* ver=False frag=False: 12 header bytes *)
    destruct (_ <? 4 + 6 + 2) eqn:L1 in H; [discriminate|].
    cbv iota in H.
    destruct (negb _) eqn:L3 in H; [discriminate|].
    do 8 (destruct rest as [|? rest]; [cbn in L1; discriminate L1|]).
    rewrite !len_cons in L3.
    repeat (apply bytes_cons in Hp; let Hb := fresh "Bb" in destruct Hp as [Hb Hp]).
    revert H. at_simpl. unfold sub. change (N.to_nat (4 + 6 - 4)) with 6%nat. change (N.to_nat 4) with 4%nat.
    change (N.to_nat (4 + 6 + 2)) with 12%nat. cbn [skipn firstn].
    replace (N.to_nat (4 + 6 + 2 + attr mod 1024 - (4 + 6 + 2))) with (N.to_nat (attr mod 1024)) by lia.
    unfold at_. replace (N.to_nat (4 + 6 + 2 + attr mod 1024)) with (12 + N.to_nat (attr mod 1024))%nat by lia.
    cbn [nth Nat.add]. intros H. inversion H; subst m; clear H.
    exists 0. split; [exact Hx|].
    destruct (SA 0 0 _ eq_refl eq_refl eq_refl) as (S1 & S2 & S3 & S4 & S5 & S6).
    split; [|split].
    + unfold std_attr. cbn [m_ver m_frag m_enc m_len]. repeat split; auto.
    + unfold std_payload. cbn [m_id m_len m_enc m_frag m_ver m_bcd m_serial m_sum m_no m_body m_check].
      change (0 =? 1) with false. change (0 =? 1) with false. cbv iota. cbn [be_enc app].
      rewrite I1, I2, T1, T2.
      repeat match goal with |- context [be16 ?a ?b / 256 mod 256] =>
        let H := fresh in destruct (be16_bytes a b ltac:(assumption) ltac:(assumption)) as (_ & H & _); rewrite H; clear H end.
      repeat match goal with |- context [be16 ?a ?b mod 256] =>
        let H := fresh in destruct (be16_bytes a b ltac:(assumption) ltac:(assumption)) as (_ & _ & H); rewrite H; clear H end.
      do 12 f_equal. apply firstn_nth_last. unfold len in L3. lia.
    + unfold fields_std. cbn [m_id m_len m_enc m_frag m_ver m_bcd m_serial m_sum m_no m_body m_check].
      change (0 =? 1) with false. change (0 =? 1) with false. cbv iota.
      repeat split; auto; try (apply be16_bytes; assumption).
      unfold len. rewrite firstn_length. unfold len in L3. lia.
Qed.

(* ---------------- C02 ---------------- *)
Lemma wellformed_decodes d m : WellFormed d m -> decode d = Ok m.
Proof.
  intros (w & p & attr & vb & -> & Hw & He & Hx & Ha & -> & Hf).
  rewrite decode_unfold, unescape_delimited by exact Hw.
  rewrite (Esc_unesc _ _ He). cbn [bind]. apply std_payload_parse; auto.
Qed.

Theorem decode_iff_wellformed d m : bytes d -> no_interior_delim d ->
  (decode d = Ok m <-> WellFormed d m).
Proof.
  intros Hd Hn. split; [|apply wellformed_decodes].
  rewrite decode_unfold. destruct (unescape d) as [p| |] eqn:U; cbn [bind]; try discriminate.
  intros Hp. destruct (unescape_inv d p U) as (w & E & Hw & Ew & Hu).
  assert (Bp : bytes p) by (eapply unescape_bytes; eauto).
  destruct (parse_payload_std p m Bp Hp) as (attr & vb & Hx & Ha & Ep & Hf).
  exists w, p, attr, vb. split; [exact E|]. split; [exact Hw|]. split.
  - apply unesc_Esc; auto. unfold no_interior_delim in Hn. now rewrite <- Ew in Hn.
  - repeat split; try assumption; try apply Ha; try apply Hf.
Qed.

Theorem not_wellformed_rejected d : bytes d -> no_interior_delim d ->
  (forall m, ~ WellFormed d m) -> exists e, decode d = Err e.
Proof.
  intros Hd Hn Hnw. destruct (decode d) as [m|e|] eqn:E.
  - exfalso. apply (Hnw m). apply decode_iff_wellformed; auto.
  - eauto.
  - exfalso. apply (decode_chk_total d). now rewrite decode_chk_eq.
Qed.

Theorem wellformed_deterministic d m1 m2 : WellFormed d m1 -> WellFormed d m2 -> m1 = m2.
Proof.
  intros H1 H2. apply wellformed_decodes in H1. apply wellformed_decodes in H2. congruence.
Qed.

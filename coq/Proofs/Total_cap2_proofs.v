(* Locality of the location family, the extension handlers 0x64 0x65 0x67 0x70, the frame decoder
   and the RTP decoder: the spare-capacity decoders of Model/Total_cap2.v agree with the cap = len
   models (Location.v, LocationExt.v, Frame.v, Jt1078.v) wherever those do not panic, for every
   tail; with the totality theorems: they never look at memory beyond the slice. *)
From JT.Base Require Import Prelude PreludeP.
From JT.Model Require Import Location LocationExt Frame Jt1078 Total_base Total_msgs Total_codec Total_cap Total_unesc Total_cap2.
From JT.Proofs Require Import LocationStd Location_proofs LocationExt_proofs Frame_proofs Jt1078_proofs
  Total_base_proofs Total_msgs_proofs Total_codec_proofs Total_cap_proofs Total_unesc_proofs.
From Coq Require Import ZArith ZifyN ZifyNat ZifyBool.
Ltac Zify.zify_post_hook ::= Z.div_mod_to_equations.
Local Open Scope N_scope.

Lemma refines_take n l tail : refines (take n l) (take_cap n l tail).
Proof. unfold take, take_cap. destruct (n <=? len l). apply refines_refl. now left. Qed.

Ltac rf2 :=
  repeat first
  [ apply refines_slice | apply refines_be_at | apply refines_take | apply refines_asign
  | match goal with |- refines (if ?c then _ else _) (if ?c then _ else _) => destruct c end
  | match goal with |- refines (bind _ _) (bind _ _) => apply refines_bind; [|intros ?] end
  | apply refines_refl ].

(* ---------------- location family ---------------- *)
Lemma refines_block body tail : refines (block_parse body) (block_parse_cap body tail).
Proof. unfold block_parse, block_parse_cap. rf2. Qed.

Lemma refines_item id c ctail : refines (decode_item id c) (decode_item_cap id c ctail).
Proof. unfold decode_item, decode_item_cap. rf2. Qed.

Lemma refines_adds_walk fuel : forall m body tail, refines (adds_walk fuel m body) (adds_walk_cap fuel m body tail).
Proof.
  induction fuel as [|f IH]; intros m body tail; destruct body as [|id [|alen rest]];
    cbn [adds_walk adds_walk_cap]; try apply refines_refl.
  destruct (negb (contrast id alen)). apply refines_refl.
  destruct (len rest <? alen). apply refines_refl.
  apply refines_bind. apply refines_take. intros p.
  apply refines_bind. apply refines_item. intros v. apply IH.
Qed.

Lemma refines_additions body tail : refines (additions_parse body) (additions_cap body tail).
Proof. apply refines_adds_walk. Qed.

Lemma refines_t0200 r body tail : refines (t0200_parse r body) (t0200_cap r body tail).
Proof.
  unfold t0200_parse, t0200_cap. apply refines_bind. apply refines_block. intros l.
  destruct (28 <? len body); [|apply refines_refl].
  apply refines_bind. apply refines_refl. intros rest.
  apply refines_bind. apply refines_additions. intros; apply refines_refl.
Qed.

Lemma refines_items_loop n : forall rest tail acc, refines (items_loop n rest acc) (items_loop_cap n rest tail acc).
Proof.
  induction n as [|n IH]; intros rest tail acc; cbn [items_loop items_loop_cap]. apply refines_refl.
  destruct (len rest <? 2). apply refines_refl.
  apply refines_bind. apply refines_take. intros p. cbv zeta.
  destruct (len (snd p) <? be_dec (fst p)). apply refines_refl.
  apply refines_bind. apply refines_take. intros q.
  apply refines_bind. apply refines_block. intros l.
  apply refines_bind.
  { destruct (28 <? len (fst q)); [|apply refines_refl].
    apply refines_bind. apply refines_refl. intros r28. apply refines_additions. }
  intros m. apply IH.
Qed.

Lemma refines_t0704 r body tail : refines (t0704_parse r body) (t0704_cap r body tail).
Proof.
  unfold t0704_parse, t0704_cap. destruct (len body <? 31). apply refines_refl.
  apply refines_bind. apply refines_be_at. intros num.
  apply refines_bind. apply refines_refl. intros ty.
  apply refines_bind. apply refines_refl. intros rest.
  apply refines_bind. apply refines_items_loop. intros; apply refines_refl.
Qed.

Lemma refines_t0801 r body tail : refines (t0801_parse r body) (t0801_cap r body tail).
Proof.
  unfold t0801_parse, t0801_cap. destruct (len body <? 36). apply refines_refl.
  apply refines_bind. apply refines_be_at. intros id.
  do 4 (apply refines_bind; [apply refines_refl|intros ?]).
  apply refines_bind. apply refines_slice. intros blk.
  apply refines_bind.
  { destruct (refines_block blk (skipn 36 body ++ tail)) as [H|H]; rewrite H. now left. apply refines_refl. }
  intros l. rf2.
Qed.

Theorem t0200_local r body tail : t0200_cap r body tail = t0200_parse r body.
Proof. apply refines_eq. apply refines_t0200. apply t0200_total. Qed.
Theorem t0704_local r body tail : t0704_cap r body tail = t0704_parse r body.
Proof. apply refines_eq. apply refines_t0704. apply t0704_total. Qed.
Theorem t0801_local r body tail : t0801_cap r body tail = t0801_parse r body.
Proof. apply refines_eq. apply refines_t0801. apply t0801_total. Qed.
Theorem additions_local body tail : additions_cap body tail = additions_parse body.
Proof. apply refines_eq. apply refines_additions. apply additions_total. Qed.

(* ---------------- extension handlers ---------------- *)
Lemma refines_sbbase r data dtail : refines (sbbase_parse r data) (sbbase_cap r data dtail).
Proof. unfold sbbase_parse, sbbase_cap. rf2. Qed.

Ltac rfe := repeat first
  [ apply refines_sbbase | apply refines_slice | apply refines_be_at
  | match goal with |- refines (if ?c then _ else _) (if ?c then _ else _) => destruct c end
  | match goal with |- refines (bind _ _) (bind _ _) => apply refines_bind; [|intros ?] end
  | apply refines_refl ].

Lemma refines_ext kind r id c tail : kind <> 102 -> refines (ext_parse kind r id c []) (ext_cap kind r id c tail).
Proof.
  intros Hk. unfold ext_parse, ext_cap.
  destruct (kind =? 100). { unfold ext64_parse, ext64_cap. rfe. }
  destruct (kind =? 101). { unfold ext65_parse, ext65_cap. rfe. }
  destruct (kind =? 102) eqn:E. { exfalso. lia. }
  destruct (kind =? 103). { unfold ext67_parse, ext67_cap. rfe. }
  unfold ext70_parse, ext70_cap. rfe.
Qed.

Theorem ext_local kind r id c tail : kind <> 102 -> ext_cap kind r id c tail = ext_parse kind r id c [].
Proof. intros Hk. apply refines_eq. now apply refines_ext. apply ext_parse_total. now left. Qed.

(* ---------------- frame decoder ---------------- *)
Lemma refines_be16 p ptail i : refines (be16_at p i) (be16_at_cap p ptail i).
Proof. unfold be16_at, be16_at_cap. apply refines_bind. apply refines_slice. intros; apply refines_refl. Qed.

Lemma refines_decode_chk d ptail : refines (decode_chk d) (decode_chk_cap d ptail).
Proof.
  unfold decode_chk, decode_chk_cap. apply refines_bind. apply refines_refl. intros p. cbv zeta.
  repeat first
  [ apply refines_be16 | apply refines_slice
  | match goal with |- refines (if ?c then _ else _) (if ?c then _ else _) => destruct c end
  | match goal with |- refines (bind _ _) (bind _ _) => apply refines_bind; [|intros ?] end
  | apply refines_refl ].
Qed.

(* the whole frame decoder: the unescape walk behind `tail`, then the header / body slices of the
   unescaped buffer behind `ptail` *)
Lemma refines_frame_cap d tail ptail : refines (decode_chk d) (frame_cap d tail ptail).
Proof.
  unfold decode_chk, frame_cap. rewrite unescape_local. apply refines_bind. apply refines_refl. intros p. cbv zeta.
  repeat first
  [ apply refines_be16 | apply refines_slice
  | match goal with |- refines (if ?c then _ else _) (if ?c then _ else _) => destruct c end
  | match goal with |- refines (bind _ _) (bind _ _) => apply refines_bind; [|intros ?] end
  | apply refines_refl ].
Qed.

Theorem frame_cap_local d tail ptail : frame_cap d tail ptail = decode_chk d.
Proof. apply refines_eq. apply refines_frame_cap. apply decode_chk_total. Qed.

Theorem frame_local d ptail : decode_chk_cap d ptail = decode_chk d.
Proof. apply refines_eq. apply refines_decode_chk. apply decode_chk_total. Qed.

(* ---------------- RTP decoder ---------------- *)
Lemma refines_decode_head r d tail : refines (decode_head r d) (decode_head_cap r d tail).
Proof.
  unfold decode_head, decode_head_cap.
  do 16 (destruct d as [|? d]; [apply refines_refl|]). cbv zeta.
  repeat first
  [ apply refines_take
  | match goal with |- refines (match ?x with pair _ _ => _ end) _ => destruct x end
  | match goal with |- refines (if ?c then _ else _) (if ?c then _ else _) => destruct c end
  | match goal with |- refines (bind _ _) (bind _ _) => apply refines_bind; [|intros ?] end
  | apply refines_refl ].
Qed.

Lemma refines_rtp r d tail : refines (rtp_decode r d) (rtp_decode_cap r d tail).
Proof.
  unfold rtp_decode, decode, rtp_decode_cap. apply refines_bind. apply refines_decode_head. intros [p body].
  destruct (len body <? k_blen p). apply refines_refl.
  apply refines_bind. apply refines_take. intros; apply refines_refl.
Qed.

Theorem rtp_local r d tail : rtp_decode_cap r d tail = rtp_decode r d.
Proof. apply refines_eq. apply refines_rtp. apply rtp_total. Qed.

(* the cursor primitive does see the tail when the code over-reads *)
Lemma take_cap_sees_tail : take 3 [1; 2] = Panic /\ take_cap 3 [1; 2] [7] = Ok ([1; 2; 7], []) /\
  take_cap 3 [1; 2] [9] = Ok ([1; 2; 9], []) /\ (forall n l, take_cap n l [] = take n l).
Proof.
  repeat split. intros n l. unfold take_cap, take. change (@len N []) with 0. rewrite N.add_0_r.
  destruct (n <=? len l); reflexivity.
Qed.

(* C14, writer side: the FRAME written for a re-request.  packageParse.supplementarySubPackage
   encodes the 0x8003 body with the first packet's header (Model/Subpkg.v rereq_pmsg) and decodes
   it again; connection.reader routes that message to reissuePackChan; connection.subPackReplyEvent
   (Model/Reply.v writer_rereq, builder "reply") stamps the platform serial and encodes the decoded
   message's header and body again.  Here: what the terminal decodes from those bytes. *)
From Coq Require Import ZArith ZifyN ZifyNat ZifyBool Lia.
From JT.Base Require Import Prelude PreludeP.
From JT.Model Require Import Frame Unpack Subpkg.
From JT.Model Require Reply.
From JT.Proofs Require Import Frame_proofs Subpkg_proofs.
Ltac Zify.zify_post_hook ::= Z.div_mod_to_equations.

Lemma missing_length slots : forall k, (length (missing slots k) <= length slots)%nat.
Proof.
  induction slots as [|b t IH]; intros k; cbn [missing length]; auto.
  rewrite app_length. specialize (IH (k + 1)). destruct (len b =? 0); cbn [length]; lia.
Qed.

Lemma flat_map_be2_length l : length (flat_map (be_enc 2) l) = (2 * length l)%nat.
Proof. induction l as [|a t IH]; cbn [flat_map length]; auto. rewrite app_length, be_enc_length. lia. Qed.

Lemma body_8003_length serial count l : length (body_8003 serial count l) = (3 + 2 * length l)%nat.
Proof. unfold body_8003. rewrite !app_length, be_enc_length, flat_map_be2_length. cbn [length]. lia. Qed.

Lemma encoded_decoded_header h rid ps body : decoded_header h -> rid < 65536 -> rid <> 0 ->
  decoded_header (encoded_msg h rid ps body).
Proof.
  intros (A & B & C & D & E) Hr Hz. unfold decoded_header, encoded_msg. cbn [m_ver m_enc m_id m_bcd].
  destruct (rid =? 0) eqn:Z. apply N.eqb_eq in Z; contradiction. auto.
Qed.

(* the message supplementarySubPackage hands to the reader loop *)
Lemma rereq_pmsg_decoded id x : decoded_header (x_first x) -> (length (x_slots x) <= 510)%nat ->
  p_msg (rereq_pmsg (mk_rereq id x)) =
  encoded_msg (x_first x) ID_8003 0 (rr_body (mk_rereq id x)).
Proof.
  intros Hh Hl. unfold rereq_pmsg. cbn [p_msg mk_rereq rr_first rr_body].
  rewrite decode_encode; auto; try (unfold ID_8003; lia).
  rewrite body_8003_length. pose proof (missing_length (x_slots x) 1). lia.
Qed.

Theorem rerequest_frame id x (c : Reply.conn) d rq :
  decoded_header (x_first x) -> (length (x_slots x) <= 510)%nat -> Reply.c_seq c < 65536 ->
  Reply.c_rq c = d :: rq -> Reply.d_m d = p_msg (rereq_pmsg (mk_rereq id x)) ->
  exists w cb chk,
    Reply.writer_rereq c = (fst (Reply.writer_rereq c), Reply.OWrite w :: cb) /\
    Reply.c_seq (fst (Reply.writer_rereq c)) = Reply.next_seq (Reply.c_seq c) /\
    Reply.c_rq (fst (Reply.writer_rereq c)) = rq /\
    let body := body_8003 (m_serial (x_first x)) (len (missing (x_slots x) 1)) (missing (x_slots x) 1) in
    decode (Reply.wire_bytes w) =
      Ok {| m_id := 32771; m_len := len body; m_enc := m_enc (x_first x); m_frag := 0; m_ver := m_ver (x_first x);
            m_bcd := m_bcd (x_first x); m_serial := Reply.c_seq c; m_sum := 0; m_no := 0; m_body := body;
            m_check := chk |}.
Proof.
  intros Hh Hl Hs Hq Hd. unfold Reply.writer_rereq. rewrite Hq. unfold Reply.emit.
  eexists. eexists. eexists. cbn [fst snd Reply.c_seq Reply.c_rq]. split; [reflexivity|]. split; [reflexivity|]. split; [reflexivity|]. cbv zeta.
  unfold Reply.wire_bytes. cbn [Reply.w_hdr Reply.w_rid Reply.w_ps Reply.w_body].
  rewrite Hd, (rereq_pmsg_decoded id x Hh Hl).
  set (body := rr_body (mk_rereq id x)).
  assert (length body <= 1023)%nat as Lb.
  { unfold body. cbn [mk_rereq rr_body]. rewrite body_8003_length. pose proof (missing_length (x_slots x) 1). lia. }
  change (m_body (encoded_msg (x_first x) ID_8003 0 body)) with body.
  assert (decoded_header (encoded_msg (x_first x) ID_8003 0 body)) as Hd2
    by (apply encoded_decoded_header; auto; unfold ID_8003; lia).
  assert (Reply.REISSUE < 65536) as Hr by (unfold Reply.REISSUE; lia).
  rewrite (decode_encode _ _ _ _ Hd2 Hr Hs Lb). reflexivity.
Qed.

(* platformSerialNumber stays a uint16 in every history of the connection *)
Lemma step_seq c mv : Reply.c_seq c < 65536 -> Reply.c_seq (fst (Reply.step c mv)) < 65536.
Proof.
  intros H. assert (forall s, Reply.next_seq s < 65536) as Hn by (intros s; unfold Reply.next_seq; lia).
  destruct mv; cbn [Reply.step].
  - unfold Reply.reader_look. destruct (Reply.c_hand c), (Reply.c_pending c); auto.
    destruct (Reply.lookup _); auto.
  - unfold Reply.reader_send. destruct (Reply.c_hand c); auto.
    destruct (Reply.is_reissue _); [destruct (_ <? _)|destruct (_ <? _)]; auto.
  - unfold Reply.writer_reply. destruct (Reply.c_q c); auto.
    destruct (Reply.has_complete _); auto. destruct (Reply.lookup _); auto.
    destruct (Reply.hi_has _); auto. destruct (Reply.reply_body _ _ _) as [h' [b|]]; cbn [fst Reply.emit Reply.quiet Reply.c_seq]; auto.
  - unfold Reply.writer_absorb. destruct (Reply.c_q c); auto. destruct (_ && _); auto.
  - unfold Reply.writer_rereq. destruct (Reply.c_rq c); cbn [fst Reply.emit Reply.c_seq]; auto.
  - unfold Reply.writer_cmd. cbn [fst Reply.emit Reply.c_seq]. auto.
Qed.

Theorem writer_seq_range ms s : Reply.c_seq (Reply.final (Reply.init ms) s) < 65536.
Proof.
  assert (forall s c, Reply.c_seq c < 65536 -> Reply.c_seq (Reply.final c s) < 65536) as G.
  { induction s0 as [|mv t IH]; intros c H; cbn [Reply.final]; auto. apply IH. now apply step_seq. }
  apply G. cbn. lia.
Qed.

(* the reader loop forwards a generated re-request to reissuePackChan and never drops it: with room
   in the channel (capacity 3) it is appended; with the channel full the reader keeps it in hand
   (the blocking send) and the state is unchanged until the writer has taken one *)
Theorem reader_forwards (c : Reply.conn) d rest :
  Reply.c_hand c = None -> Reply.c_pending c = d :: rest -> m_id (Reply.d_m d) = 32771 ->
  let c1 := fst (Reply.reader_look c) in
  Reply.c_hand c1 = Some d /\ Reply.c_pending c1 = rest /\ snd (Reply.reader_look c) = [] /\
  Reply.c_rq c1 = Reply.c_rq c /\
  (if len (Reply.c_rq c1) <? 3
   then Reply.c_rq (fst (Reply.reader_send c1)) = Reply.c_rq c1 ++ [d] /\ Reply.c_hand (fst (Reply.reader_send c1)) = None
   else fst (Reply.reader_send c1) = c1).
Proof.
  intros Hh Hp Hid. unfold Reply.reader_look. rewrite Hh, Hp, Hid.
  change (Reply.lookup 32771) with (Some (Reply.H false 0 Reply.REmpty)) || idtac.
  destruct (Reply.lookup 32771) as [hi|] eqn:L; [|vm_compute in L; discriminate].
  unfold Reply.is_reissue. rewrite Hid. change (32771 =? Reply.REISSUE) with true. cbn [fst snd Reply.c_hand Reply.c_pending Reply.c_rq].
  repeat split.
  unfold Reply.reader_send. cbn [Reply.c_hand]. unfold Reply.is_reissue. rewrite Hid. change (32771 =? Reply.REISSUE) with true.
  cbn [Reply.c_rq]. change Reply.REISSUE_CAP with 3.
  destruct (len (Reply.c_rq c) <? 3); cbn [fst Reply.c_rq Reply.c_hand]; auto.
Qed.

(* the message parse generates for a re-request carries the id 0x8003: the reader routes it *)
Lemma rereq_message_id id x : decoded_header (x_first x) -> (length (x_slots x) <= 510)%nat ->
  m_id (p_msg (rereq_pmsg (mk_rereq id x))) = 32771.
Proof. intros Hh Hl. rewrite (rereq_pmsg_decoded id x Hh Hl). reflexivity. Qed.

(* C07 — the converse direction: for the message types whose parser loses nothing, every body (of bytes) that parses
   to a value of the domain is exactly what Encode writes for that value: Encode(Parse(b)) = b.  By composition of the
   [*_inj] lemmas of Base/Fmt.v.  Not among them, and why: the empty bodies and T0x0704 / T0x1210 / T0x0102 (2019)
   ignore trailing bytes; T0x0102 (2019) also drops what follows the first NUL of the software version; P0x9208 /
   T0x1210 trim the sign's terminal id on both sides; P0x8800 accepts `id 00` but writes `id`; the parameter list of
   P0x8103 may come in any order on the wire; T0x0100 would need the GBK codec to be invertible in the other direction. *)
From JT.Base Require Import Prelude PreludeP Fmt.
From JT.Model Require Import Msg_simple Msg_location.

Lemma m_0001_inj : msg_inj m_0001. Proof. unfold m_0001. fmt_inj. Qed.
Lemma m_8001_inj : msg_inj m_8001. Proof. unfold m_8001. fmt_inj. Qed.
Lemma m_0800_inj : msg_inj m_0800. Proof. unfold m_0800. fmt_inj. Qed.
Lemma m_1003_inj : msg_inj m_1003. Proof. unfold m_1003. fmt_inj. Qed.
Lemma m_1005_inj : msg_inj m_1005. Proof. unfold m_1005. fmt_inj. Qed.
Lemma m_1206_inj : msg_inj m_1206. Proof. unfold m_1206. fmt_inj. Qed.
Lemma m_9207_inj : msg_inj m_9207. Proof. unfold m_9207. fmt_inj. Qed.
Lemma m_8801_inj : msg_inj m_8801. Proof. unfold m_8801. fmt_inj. Qed.
Lemma m_9102_inj : msg_inj m_9102. Proof. unfold m_9102. fmt_inj. Qed.
Lemma m_9105_inj : msg_inj m_9105. Proof. unfold m_9105. fmt_inj. Qed.
Lemma m_9202_inj : msg_inj m_9202. Proof. unfold m_9202. fmt_inj. Qed.
Lemma m_9205_inj : msg_inj m_9205. Proof. unfold m_9205. fmt_inj. Qed.
Lemma m_8003_inj : msg_inj m_8003. Proof. unfold m_8003. fmt_inj. Qed.
Lemma m_0805_inj : msg_inj m_0805. Proof. unfold m_0805. fmt_inj. Qed.
Lemma m_1205_inj : msg_inj m_1205. Proof. unfold m_1205, item_1205. fmt_inj. Qed.
Lemma m_9212_inj : msg_inj m_9212. Proof. unfold m_9212. fmt_inj. Qed.
Lemma m_8100_inj : msg_inj m_8100. Proof. unfold m_8100. fmt_inj. Qed.
Lemma m_1211_inj : msg_inj m_1211. Proof. unfold m_1211, fields_1211. fmt_inj. Qed.
Lemma m_1212_inj : msg_inj m_1212. Proof. unfold m_1212, fields_1211. fmt_inj. Qed.
Lemma m_9101_inj : msg_inj m_9101. Proof. unfold m_9101. fmt_inj. Qed.
Lemma m_9201_inj : msg_inj m_9201. Proof. unfold m_9201. fmt_inj. Qed.
Lemma m_9206_inj : msg_inj m_9206. Proof. unfold m_9206. fmt_inj. Qed.
Lemma m_0102_2013_inj : msg_inj (m_0102 2). Proof. unfold m_0102. cbn [N.eqb Pos.eqb]. fmt_inj. Qed.
Lemma m_9208_required_inj d : msg_inj (m_9208_required d).
Proof. unfold m_9208_required, alarm_sign_required. fmt_inj. Qed.
Lemma loc_block_inj : fmt_inj loc_block. Proof. unfold loc_block. fmt_inj. Qed.
Lemma m_0200_inj : msg_inj m_0200. Proof. unfold m_0200. pose proof loc_block_inj. fmt_inj. Qed.
Lemma m_0801_inj : msg_inj m_0801. Proof. unfold m_0801. pose proof loc_block_inj. fmt_inj. Qed.

Definition lossless_models : list msg :=
  [m_0001; m_8001; m_0800; m_1003; m_1005; m_1206; m_9207; m_8801; m_9102; m_9105; m_9202; m_9205;
   m_8003; m_0805; m_1205; m_9212; m_8100; m_1211; m_1212; m_9101; m_9201; m_9206; m_0102 2;
   m_9208_required 1; m_9208_required 2; m_9208_required 3; m_9208_required 4; m_9208_required 5;
   m_0200; m_0801].

Lemma lossless_inj m : In m lossless_models -> msg_inj m.
Proof.
  unfold lossless_models. cbn [In]. intros H.
  repeat (destruct H as [<-|H];
    [first [apply m_0001_inj | apply m_8001_inj | apply m_0800_inj | apply m_1003_inj | apply m_1005_inj | apply m_1206_inj
           | apply m_9207_inj | apply m_8801_inj | apply m_9102_inj | apply m_9105_inj | apply m_9202_inj | apply m_9205_inj
           | apply m_8003_inj | apply m_0805_inj | apply m_1205_inj | apply m_9212_inj | apply m_8100_inj | apply m_1211_inj
           | apply m_1212_inj | apply m_9101_inj | apply m_9201_inj | apply m_9206_inj | apply m_0102_2013_inj
           | apply m_9208_required_inj | apply m_0200_inj | apply m_0801_inj]|]).
  contradiction.
Qed.

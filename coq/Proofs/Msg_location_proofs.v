(* C07 — round trip of the location family (block only), by composition. *)
From JT.Base Require Import Prelude PreludeP Fmt.
From JT.Model Require Import Msg_simple Location Msg_location.
From Coq Require Import ZArith ZifyN ZifyNat ZifyBool.
Ltac Zify.zify_post_hook ::= Z.div_mod_to_equations.

Lemma loc_block_ok : fmt_ok loc_block. Proof. unfold loc_block. fmt_ok. Qed.
Lemma loc_block_len : has_len loc_block 28.
Proof.
  unfold loc_block. change 28 with (nsum [4; 4; 4; 4; 2; 2; 2; 6; 0; 0]). apply vstruct_len. unfold fields_len. fmt_len.
Qed.
Lemma m_0200_ok : msg_ok m_0200. Proof. unfold m_0200. pose proof loc_block_ok. fmt_ok. Qed.
Lemma m_0801_ok : msg_ok m_0801. Proof. unfold m_0801. pose proof loc_block_ok. fmt_ok. Qed.

Lemma item_0704_ok : fmt_ok item_0704. Proof. unfold item_0704. pose proof loc_block_ok. fmt_ok. Qed.
Lemma item_0704_len : has_len item_0704 30.
Proof.
  unfold item_0704. change 30 with (nsum [2; 28; 0]). apply vstruct_len. unfold fields_len.
  pose proof loc_block_len. fmt_len.
Qed.
Lemma m_0704_layout_ok : msg_ok m_0704_layout.
Proof. unfold m_0704_layout. pose proof item_0704_ok. fmt_ok. Qed.

Lemma m_0704_ok : msg_ok m_0704.
Proof.
  unfold m_0704. apply msg_guard_ok; [apply msg_restrict_ok, m_0704_layout_ok|].
  intros v H. cbn [m_wf msg_restrict] in H. apply andb_true_iff in H. destruct H as [H Hn].
  cbn [m_enc msg_restrict].
  destruct v as [?|?|vs]; try discriminate H. unfold m_0704_layout in *.
  cbn [m_wf mk_msg length] in H. apply andb_true_iff in H. destruct H as [H _].
  pose proof (ps_wf_length _ _ _ H) as L. cbn [length] in L.
  destruct vs as [|v0 [|v1 [|v2 rest]]]; try discriminate L. cbn [firstn] in *.
  cbn [ps_wf] in H. apply andb_true_iff in H. destruct H as [H0 H]. apply andb_true_iff in H. destruct H as [H1 H].
  apply andb_true_iff in H. destruct H as [H2 _].
  destruct v0 as [n|?|?]; try discriminate H0. cbn [num_of] in Hn.
  cbn [m_enc mk_msg length firstn ps_enc]. rewrite !len_app.
  unfold vu16, vu8 in *. rewrite (vN_len _ _ (ube_len 2) _ H0), (vN_len _ _ (ube_len 1) _ H1).
  change (accN (([] ++ [VN n]) ++ [v1]) 0) with n in *. rewrite (vrep_len _ _ 30 item_0704_len _ H2).
  cbn [tl_enc tl_ignore]. change (len (@nil N)) with 0. lia.
Qed.

Lemma msg_location_ok id m : msg_location id = Some m -> msg_ok m.
Proof.
  unfold msg_location. cbn [assoc].
  destruct (512 =? id); [intros H; inversion H; subst; apply m_0200_ok|].
  destruct (1796 =? id); [intros H; inversion H; subst; apply m_0704_ok|].
  destruct (2049 =? id); [intros H; inversion H; subst; apply m_0801_ok|]. discriminate.
Qed.

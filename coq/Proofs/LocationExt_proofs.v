(* Lemmas and proofs about Model/LocationExt.v: the vendor extension parsers (location part of C03). *)
From JT.Base Require Import Prelude PreludeP.
From JT.Model Require Import Location LocationExt.
From JT.Proofs Require Import LocationStd Location_proofs.
From Coq Require Import String.
From Coq Require Import ZArith ZifyN ZifyNat ZifyBool.
Ltac Zify.zify_post_hook ::= Z.div_mod_to_equations.
Local Open Scope N_scope.

(* ------------------------------------------------------------------------------------------ *)
(* table 18 against the standard's table *)
Lemma table18_table_std : table_ok table18_table 16 std_table18 table18_fields = true.
Proof. vm_compute. reflexivity. Qed.

Lemma flags_table18 st : flags_parse table18_table (bin_str 16 st) (repeat false 8) =
                         Ok (std_flags std_table18 table18_fields st).
Proof. exact (flags_parse_std table18_table 16 std_table18 table18_fields st table18_table_std). Qed.

(* ------------------------------------------------------------------------------------------ *)
(* the alarm identification: total for every dialect and every slice *)
Lemma tid_len_bound d : tid_len d <= 30.
Proof.
  unfold tid_len, dialect_widths, lookup; cbn [fst snd].
  repeat match goal with |- context [if ?b then _ else _] => destruct b end; cbn [fst]; lia.
Qed.

Lemma asign_parse_ok r data : exists s, asign_parse r data = Ok s.
Proof.
  unfold asign_parse. set (n := tid_len (s_dialect r)).
  destruct (N.ltb_spec (len data) (n + 8)) as [H|H]. eauto.
  rewrite !slice_ok by lia. rewrite !idx_ok by lia. cbn [bind].
  replace (n + 8 <=? len data) with true by lia. rewrite slice_from_ok by lia. cbn [bind]. eauto.
Qed.

Lemma asign_parse_history r data : asign_parse r data = asign_parse (fresh_asign (s_dialect r)) data.
Proof.
  unfold asign_parse. cbn [fresh_asign s_dialect]. set (n := tid_len (s_dialect r)).
  destruct (N.ltb_spec (len data) (n + 8)) as [H|H]. reflexivity.
  rewrite !slice_ok by lia. rewrite !idx_ok by lia. cbn [bind].
  replace (n + 8 <=? len data) with true by lia. reflexivity.
Qed.

(* the dialect is never changed *)
Lemma asign_parse_dialect r data s : asign_parse r data = Ok s -> s_dialect s = s_dialect r.
Proof.
  unfold asign_parse. set (n := tid_len (s_dialect r)).
  destruct (N.ltb_spec (len data) (n + 8)) as [H|H]. intros E. injection E as <-. reflexivity.
  rewrite !slice_ok by lia. rewrite !idx_ok by lia. cbn [bind].
  replace (n + 8 <=? len data) with true by lia. rewrite slice_from_ok by lia. cbn [bind].
  intros E. injection E as <-. reflexivity.
Qed.

(* ------------------------------------------------------------------------------------------ *)
(* the 35-byte base block *)
Lemma sbbase_parse_ok r data : 35 <= len data -> exists b, sbbase_parse r data = Ok b.
Proof.
  intros H. unfold sbbase_parse. rewrite idx_ok by lia. rewrite !be_at_ok by lia.
  rewrite slice_ok by lia. cbn [bind]. rewrite flags_table18. cbn [bind].
  rewrite slice_ok by lia. cbn [bind].
  destruct (asign_parse_ok (sb_sign r) (sub data 19 35)) as [s Es]. rewrite Es. cbn [bind]. eauto.
Qed.

Lemma sbbase_parse_history r data :
  sbbase_parse r data = sbbase_parse (fresh_sbbase (s_dialect (sb_sign r))) data.
Proof.
  unfold sbbase_parse. cbn [fresh_sbbase sb_sign].
  repeat (match goal with |- bind ?x _ = bind ?x _ => destruct x; cbn [bind]; [|reflexivity..] end).
  rewrite (asign_parse_history (sb_sign r)). reflexivity.
Qed.

(* ------------------------------------------------------------------------------------------ *)
(* 0x64 0x65 0x67 0x70: Ok or declined, never a panic, for every receiver (dialect) *)
Ltac sb_ok r c i j :=
  let b := fresh "b" in let Eb := fresh "Eb" in
  destruct (sbbase_parse_ok (e_base r) (sub c i j)) as [b Eb];
  [rewrite len_sub by lia; lia | rewrite Eb; cbn [bind]].

Lemma ext64_ok r id c : (exists e, ext64_parse r id c = Ok e) \/ ext64_parse r id c = Err E_DECLINE.
Proof.
  unfold ext64_parse. destruct ((id =? 100) && (len c =? 47)) eqn:G; [left | now right].
  assert (H : len c = 47) by lia.
  rewrite be_at_ok by lia. rewrite !idx_ok by lia. rewrite slice_ok by lia. cbn [bind].
  sb_ok r c 12 47. eauto.
Qed.

Lemma ext65_ok r id c : (exists e, ext65_parse r id c = Ok e) \/ ext65_parse r id c = Err E_DECLINE.
Proof.
  unfold ext65_parse. destruct ((id =? 101) && (len c =? 47)) eqn:G; [left | now right].
  assert (H : len c = 47) by lia.
  rewrite be_at_ok by lia. rewrite !idx_ok by lia. rewrite !slice_ok by lia. cbn [bind].
  sb_ok r c 12 47. eauto.
Qed.

Lemma ext67_ok r id c : (exists e, ext67_parse r id c = Ok e) \/ ext67_parse r id c = Err E_DECLINE.
Proof.
  unfold ext67_parse. destruct ((id =? 103) && (len c =? 41)) eqn:G; [left | now right].
  assert (H : len c = 41) by lia.
  rewrite be_at_ok by lia. rewrite !idx_ok by lia. rewrite !slice_ok by lia. cbn [bind].
  sb_ok r c 6 41. eauto.
Qed.

Lemma ext70_ok r id c : (exists e, ext70_parse r id c = Ok e) \/ ext70_parse r id c = Err E_DECLINE.
Proof.
  unfold ext70_parse. destruct ((id =? 112) && (len c =? 47)) eqn:G; [left | now right].
  assert (H : len c = 47) by lia.
  rewrite !be_at_ok by lia. rewrite !idx_ok by lia. rewrite !slice_ok by lia. cbn [bind].
  sb_ok r c 12 47. eauto.
Qed.

(* ------------------------------------------------------------------------------------------ *)
(* 0x66: the list loop.  With n entries left at offset start, start + 9n = len c + 1: every read
   but the last two-byte field of the last entry lies inside the content *)
Lemma be16_cap_in c tail i : i + 2 <= len c + len tail -> exists v, be16_cap c tail i = Ok v.
Proof.
  intros H. unfold be16_cap. rewrite slice_ok by (rewrite ?len_app; lia). cbn [bind]. eauto.
Qed.

Lemma be16_cap_out c i : len c < i + 2 -> be16_cap c [] i = Panic.
Proof.
  intros H. unfold be16_cap, slice. rewrite app_nil_r.
  replace ((i <=? i + 2) && (i + 2 <=? len c)) with false by lia. reflexivity.
Qed.

Lemma ext66_items_ok n : forall c tail start, start + 9 * N.of_nat n <= len c + len tail ->
  (n <> 0%nat -> start + 9 * N.of_nat n <= len c + 1) ->
  exists l, ext66_items n c tail start = Ok l.
Proof.
  induction n as [|n IH]; intros c tail start H H1; cbn [ext66_items]. eauto.
  specialize (H1 ltac:(discriminate)).
  rewrite idx_ok by lia. cbn [bind].
  destruct (be16_cap_in c tail (start + 1)) as [v1 E1]. lia. rewrite E1. cbn [bind].
  destruct (be16_cap_in c tail (start + 3)) as [v2 E2]. lia. rewrite E2. cbn [bind].
  destruct (be16_cap_in c tail (start + 5)) as [v3 E3]. lia. rewrite E3. cbn [bind].
  destruct (be16_cap_in c tail (start + 7)) as [v4 E4]. lia. rewrite E4. cbn [bind].
  destruct (IH c tail (start + 9)) as [l El]. lia. intros _. lia. rewrite El. cbn [bind]. eauto.
Qed.

(* with no spare capacity the last entry's battery field is a slice beyond len: panic *)
Lemma ext66_items_exact n : forall c start, n <> 0%nat -> start + 9 * N.of_nat n = len c + 1 ->
  ext66_items n c [] start = Panic.
Proof.
  induction n as [|n IH]; intros c start Hn H. congruence. cbn [ext66_items].
  rewrite idx_ok by lia. cbn [bind].
  destruct n as [|n].
  - destruct (be16_cap_in c [] (start + 1)) as [v1 E1]. change (len (@nil N)) with 0. lia. rewrite E1. cbn [bind].
    destruct (be16_cap_in c [] (start + 3)) as [v2 E2]. change (len (@nil N)) with 0. lia. rewrite E2. cbn [bind].
    destruct (be16_cap_in c [] (start + 5)) as [v3 E3]. change (len (@nil N)) with 0. lia. rewrite E3. cbn [bind].
    rewrite be16_cap_out by lia. reflexivity.
  - destruct (be16_cap_in c [] (start + 1)) as [v1 E1]. change (len (@nil N)) with 0. lia. rewrite E1. cbn [bind].
    destruct (be16_cap_in c [] (start + 3)) as [v2 E2]. change (len (@nil N)) with 0. lia. rewrite E2. cbn [bind].
    destruct (be16_cap_in c [] (start + 5)) as [v3 E3]. change (len (@nil N)) with 0. lia. rewrite E3. cbn [bind].
    destruct (be16_cap_in c [] (start + 7)) as [v4 E4]. change (len (@nil N)) with 0. lia. rewrite E4. cbn [bind].
    rewrite IH by (try discriminate; lia). reflexivity.
Qed.

(* the guard of the success path *)
Definition ext66_accepts (id : N) (c : list N) : bool :=
  (id =? 102) && (40 <? len c) && (len c =? 40 + at_ c 40 * 9).

(* behind at least one byte of spare capacity 0x66 never panics ... *)
Lemma ext66_ok_spare r id c tail : tail <> [] ->
  (exists e, ext66_parse r id c tail = Ok e) \/ ext66_parse r id c tail = Err E_DECLINE.
Proof.
  intros Ht. unfold ext66_parse. destruct ((id =? 102) && (40 <? len c)) eqn:G; [| now right].
  assert (H : 40 < len c) by lia.
  rewrite be_at_ok by lia. rewrite idx_ok by lia. rewrite slice_ok by lia. cbn [bind].
  sb_ok r c 5 40. rewrite idx_ok by lia. cbn [bind].
  destruct (N.eqb_spec (len c) (40 + at_ c 40 * 9)) as [E|E]; [left | now right].
  assert (Hl : 1 <= len tail). { destruct tail. congruence. rewrite len_cons. lia. }
  destruct (ext66_items_ok (N.to_nat (at_ c 40)) c tail 41) as [l El]; try lia.
  rewrite El. cbn [bind]. eauto.
Qed.

(* ... and on a slice with cap = len it panics exactly when it would have accepted the item: it can
   never succeed there *)
Lemma ext66_exact r id c :
  ext66_parse r id c [] = if ext66_accepts id c then Panic else Err E_DECLINE.
Proof.
  unfold ext66_parse, ext66_accepts. destruct ((id =? 102) && (40 <? len c)) eqn:G; [| reflexivity].
  assert (H : 40 < len c) by lia. cbn [andb].
  rewrite be_at_ok by lia. rewrite idx_ok by lia. rewrite slice_ok by lia. cbn [bind].
  sb_ok r c 5 40. rewrite idx_ok by lia. cbn [bind].
  destruct (N.eqb_spec (len c) (40 + at_ c 40 * 9)) as [E|E]; [| reflexivity].
  rewrite ext66_items_exact by lia. reflexivity.
Qed.

(* ------------------------------------------------------------------------------------------ *)
(* independence from the previous content of the handler: only its dialect matters *)
Ltac same_prefix :=
  repeat (match goal with |- bind ?x _ = bind ?x _ => destruct x; cbn [bind]; [|reflexivity..] end).
Ltac hist r :=
  match goal with |- (if ?g then _ else _) = _ => destruct g; [|reflexivity] end;
  same_prefix; cbn [fresh_ext e_base]; rewrite (sbbase_parse_history (e_base r)); reflexivity.

Lemma ext_parse_history kind r id c tail :
  ext_parse kind r id c tail = ext_parse kind (fresh_ext (ext_dialect r)) id c tail.
Proof.
  unfold ext_parse, ext_dialect.
  destruct (kind =? 100). { unfold ext64_parse. hist r. }
  destruct (kind =? 101). { unfold ext65_parse. hist r. }
  destruct (kind =? 102). { unfold ext66_parse. hist r. }
  destruct (kind =? 103). { unfold ext67_parse. hist r. }
  unfold ext70_parse. hist r.
Qed.

(* totality of the dispatcher *)
Theorem ext_parse_total kind r id c tail : (kind <> 102 \/ tail <> []) ->
  ext_parse kind r id c tail <> Panic.
Proof.
  intros H. unfold ext_parse.
  destruct (kind =? 100). { destruct (ext64_ok r id c) as [[e E]|E]; rewrite E; discriminate. }
  destruct (kind =? 101). { destruct (ext65_ok r id c) as [[e E]|E]; rewrite E; discriminate. }
  destruct (N.eqb_spec kind 102) as [K|K].
  { destruct H as [H|H]; [congruence|].
    destruct (ext66_ok_spare r id c tail H) as [[e E]|E]; rewrite E; discriminate. }
  destruct (kind =? 103). { destruct (ext67_ok r id c) as [[e E]|E]; rewrite E; discriminate. }
  destruct (ext70_ok r id c) as [[e E]|E]; rewrite E; discriminate.
Qed.

(* the known finding C03/ext66-overread, as witnesses *)
Definition c66 : list N := repeat 0 40 ++ [1] ++ repeat 0 8.       (* 49 bytes, count = 1 *)

Lemma ext66_refuted_panic : ext66_parse (fresh_ext 1) 102 c66 [] = Panic.
Proof. vm_compute. reflexivity. Qed.

Lemma ext66_refuted_local : exists e1 e2,
  ext66_parse (fresh_ext 1) 102 c66 [0] = Ok e1 /\ ext66_parse (fresh_ext 1) 102 c66 [255] = Ok e2 /\
  e_list e1 = [[0; 0; 0; 0; 0]] /\ e_list e2 = [[0; 0; 0; 0; 255]].
Proof. eexists _, _. split. vm_compute. reflexivity. split. vm_compute. reflexivity. split; reflexivity. Qed.

(* an extension item of every kind that is accepted, for non-vacuity *)
Lemma ext_accept_examples :
  is_ok (ext_parse 100 (fresh_ext 2) 100 (repeat 1 47) []) = true /\
  is_ok (ext_parse 101 (fresh_ext 3) 101 (repeat 1 47) []) = true /\
  is_ok (ext_parse 102 (fresh_ext 1) 102 c66 [7]) = true /\
  is_ok (ext_parse 103 (fresh_ext 5) 103 (repeat 1 41) []) = true /\
  is_ok (ext_parse 112 (fresh_ext 4) 112 (repeat 1 47) []) = true.
Proof. vm_compute. repeat split. Qed.

(* C05.16: in the default configuration the handlers see, of a sub-packaged message, exactly the
   one completed message.  Composition of C05_exact (message-level machine), cp_loop_is_run
   (the loop of parse) and the reader loop of Model/Reply.v with C06's callbacks_read. *)
From Coq Require Import ZArith ZifyN ZifyNat ZifyBool Lia.
From JT.Base Require Import Prelude PreludeP.
From JT.Model Require Import Frame Unpack Subpkg SubpkgHandlers.
From JT.Model Require Reply.
From JT.Proofs Require Import Subpkg_proofs Subpkg_final Subpkg_seg.
From JT.Proofs Require Reply_proofs.
Ltac Zify.zify_post_hook ::= Z.div_mod_to_equations.

Lemma complete_pack_some_sum now s m b : snd (complete_pack now s m) = Some b -> m_sum m <> 0.
Proof. unfold complete_pack. destruct (N.eqb_spec (m_sum m) 0); auto. discriminate. Qed.

(* every message the loop flags complete is a sub-packaged one *)
Lemma cp_loop_complete_sum now ms : forall s p, In p (snd (cp_loop now s ms)) -> p_complete p = true ->
  m_sum (p_msg p) <> 0.
Proof.
  induction ms as [|[raw m] t IH]; intros s p; cbn [cp_loop]. intros [].
  pose proof (complete_pack_some_sum now s m) as Hs.
  destruct (complete_pack now s m) as [s1 r]. cbn [snd] in Hs. specialize (IH s1 p).
  destruct (cp_loop now s1 t) as [s2 rest]. cbn [snd] in *.
  intros Hin Hc. apply in_app_or in Hin. destruct Hin as [Hin|Hin]; [|now apply IH].
  destruct r as [data|].
  - destruct Hin as [<-|[<-|[]]]; cbn [p_complete p_msg set_body m_sum] in *. discriminate. now apply (Hs data).
  - destruct Hin as [<-|[]]. discriminate.
Qed.

Lemma handler_bodies_app X a b : handler_bodies X (a ++ b) = handler_bodies X a ++ handler_bodies X b.
Proof. unfold handler_bodies. apply flat_map_app. Qed.

(* the reader's report for the delivered messages, read for the sub-packages of X: the completed ones *)
Lemma handler_bodies_report X outs : Reply.std_registered X = true -> X <> Reply.REISSUE ->
  (forall p, In p outs -> p_complete p = true -> m_sum (p_msg p) <> 0) ->
  handler_bodies X (flat_map Reply.read_report (map dmsg_of outs)) =
  map snd (filter (fun c => fst c =? X) (completed_msgs outs)).
Proof.
  intros Hreg Hx. induction outs as [|p t IH]; intros Hc. reflexivity.
  cbn [map flat_map]. rewrite handler_bodies_app, IH by (intros q Hq; apply Hc; now right).
  unfold completed_msgs. cbn [filter].
  assert (Hp : p_complete p = true -> m_sum (p_msg p) <> 0) by (apply Hc; now left).
  unfold Reply.read_report, Reply.handled, Reply.has_complete, Reply.is_reissue, dmsg_of.
  cbn [Reply.d_m Reply.d_complete].
  destruct (m_id (p_msg p) =? X) eqn:E.
  - apply N.eqb_eq in E. rewrite E, Hreg. replace (X =? Reply.REISSUE) with false by lia. cbn [negb andb].
    destruct (p_complete p) eqn:C.
    + rewrite Bool.orb_true_r. cbn [handler_bodies flat_map Reply.d_m app map filter fst snd].
      rewrite E, N.eqb_refl. replace (m_sum (p_msg p) =? 0) with false by (specialize (Hp eq_refl); lia).
      reflexivity.
    + rewrite Bool.orb_false_r. destruct (m_sum (p_msg p) =? 0) eqn:Z.
      * cbn [handler_bodies flat_map Reply.d_m app]. rewrite Z. cbn [negb andb]. rewrite Bool.andb_false_r. reflexivity.
      * reflexivity.
  - assert (forall l : list (list N), (if (m_id (p_msg p) =? X) && negb (m_sum (p_msg p) =? 0) then l else []) = []) as Hnil
      by (intros l; now rewrite E).
    destruct (negb (Reply.std_registered (m_id (p_msg p)))).
    + cbn [handler_bodies flat_map app]. destruct (p_complete p); cbn [map filter fst]; rewrite ?E; reflexivity.
    + destruct (_ && _ && _).
      * cbn [handler_bodies flat_map Reply.d_m app]. rewrite Hnil. cbn [app].
        destruct (p_complete p); cbn [map filter fst]; rewrite ?E; reflexivity.
      * cbn [handler_bodies flat_map app]. destruct (p_complete p); cbn [map filter fst]; rewrite ?E; reflexivity.
Qed.

Lemma completions_outs X os : forall k,
  map snd (completions_from k X os) = map snd (filter (fun c => fst c =? X) (completed_outs os)).
Proof.
  induction os as [|o t IH]; intros k; cbn [completions_from completed_outs filter map]; auto.
  destruct o as [|i b|l]; auto. cbn [filter fst]. destruct (i =? X); cbn [map snd]; now rewrite IH.
Qed.

Theorem handlers_see_exactly_one : forall X bodies s0 now raw1 p1 rest l1 t m l2 sched,
  bodies <> [] -> Forall nonempty bodies -> wf s0 -> delete_timeout now s0 = s0 ->
  Reply.std_registered X = true -> X <> Reply.REISSUE ->
  good_pkt X (len bodies) bodies p1 -> m_no p1 = 1 ->
  let ms := (raw1, p1) :: rest in
  let evs := map (fun rm => (now, EvMsg (snd rm))) ms in
  Forall (fun te => ev_ok X (len bodies) bodies (snd te)) (tl evs) ->
  evs = l1 ++ (t, EvMsg m) :: l2 ->
  ~ covers (len bodies) (numbers X (len bodies) l1) ->
  covers (len bodies) (numbers X (len bodies) (l1 ++ [(t, EvMsg m)])) ->
  let ds := map dmsg_of (snd (cp_loop now s0 ms)) in
  Reply.reader_done (Reply.final (Reply.init ds) sched) = true ->
  handler_bodies X (Reply.reader_obs (Reply.trace (Reply.init ds) sched)) = [concat bodies].
Proof.
  intros X bodies s0 now raw1 p1 rest l1 t m l2 sched Hb Hne Hwf Hd Hreg Hx Hg H1 ms evs Hok Hsplit Hnc Hc ds Hdone.
  rewrite (Reply_proofs.callbacks_read ds sched Hdone). unfold ds.
  rewrite (handler_bodies_report X _ Hreg Hx) by (intros p Hp; eapply cp_loop_complete_sum; eauto).
  destruct (cp_loop_is_run now ms s0 Hd) as [_ ->]. fold evs.
  rewrite <- (completions_outs X _ 0). change (completions_from 0 X) with (completions X).
  assert (Hall : Forall (ok_after X bodies now) (tl evs)).
  { unfold evs, ms in *. cbn [map tl] in *. rewrite Forall_forall in *. intros te Hte. split; [|now apply Hok].
    apply in_map_iff in Hte. destruct Hte as (rm & <- & _). cbn [fst]. lia. }
  unfold evs, ms in *. cbn [map tl snd] in *.
  rewrite (exact_f X bodies s0 now p1 _ l1 t m l2 Hb Hne Hwf Hg H1 Hall Hsplit Hnc Hc). reflexivity.
Qed.

(* C05 at byte level: a stream of valid frames whose decoded messages are a transfer history as in
   C05_exact, cut into reads in any way (all processed at one instant): parse delivers exactly one
   message flagged complete for X, with the concatenation of the bodies *)
Theorem segmentation_exact : forall X bodies fs chunks now p1 l1 t m l2,
  Forall vframe fs -> concat chunks = concat fs ->
  bodies <> [] -> Forall nonempty bodies ->
  good_pkt X (len bodies) bodies p1 -> m_no p1 = 1 ->
  let evs := map (fun rm => (now, EvMsg (snd rm))) (map decode_ok fs) in
  hd_error evs = Some (now, EvMsg p1) ->
  Forall (fun te => ev_ok X (len bodies) bodies (snd te)) (tl evs) ->
  evs = l1 ++ (t, EvMsg m) :: l2 ->
  ~ covers (len bodies) (numbers X (len bodies) l1) ->
  covers (len bodies) (numbers X (len bodies) (l1 ++ [(t, EvMsg m)])) ->
  map snd (filter (fun c => fst c =? X) (completed_msgs (fst (feed_all now pst0 chunks)))) = [concat bodies] /\
  snd (feed_all now pst0 chunks) = repeat None (length chunks).
Proof.
  intros X bodies fs chunks now p1 l1 t m l2 Hfs Hcat Hb Hne Hg H1 evs Hhd Hok Hsplit Hnc Hc.
  rewrite (segmentation_subpkg fs chunks now Hfs Hcat). cbn [fst snd]. split; [|reflexivity].
  destruct (cp_loop_is_run now (map decode_ok fs) [] eq_refl) as [_ ->]. fold evs.
  rewrite <- (completions_outs X _ 0). change (completions_from 0 X) with (completions X).
  destruct evs as [|e0 rest] eqn:E; [discriminate|]. cbn [hd_error] in Hhd. injection Hhd as ->.
  cbn [tl] in Hok.
  assert (Hall : Forall (ok_after X bodies now) rest).
  { assert (Ht : Forall (fun te => fst te = now) ((now, EvMsg p1) :: rest)).
    { rewrite <- E. unfold evs. rewrite Forall_forall. intros te Hte. apply in_map_iff in Hte. destruct Hte as (rm & <- & _). reflexivity. }
    inversion Ht as [|x l _ Ht']; subst. rewrite Forall_forall in *. intros te Hte. split; [|now apply Hok].
    rewrite (Ht' te Hte). lia. }
  rewrite (exact_f X bodies [] now p1 rest l1 t m l2 Hb Hne wf_nil Hg H1 Hall Hsplit Hnc Hc). reflexivity.
Qed.

(* Locality of the decoders of Model/Total_msgs.v: the spare-capacity decoders of Model/Total_cap.v
   agree with the cap = len decoders wherever those do not panic, for EVERY tail; together with
   totality: the decoders never look at memory beyond the length of the slice. *)
From JT.Base Require Import Prelude PreludeP.
From JT.Model Require Import Location LocationExt Total_base Total_msgs Total_cap.
From JT.Proofs Require Import LocationStd Location_proofs LocationExt_proofs Total_base_proofs Total_msgs_proofs.
From Coq Require Import ZArith ZifyN ZifyNat ZifyBool.
Ltac Zify.zify_post_hook ::= Z.div_mod_to_equations.
Local Open Scope N_scope.

(* r' agrees with r whenever r is not a panic *)
Definition refines {A} (r r' : result A) : Prop := r = Panic \/ r' = r.

Lemma refines_refl {A} (r : result A) : refines r r. Proof. now right. Qed.
Lemma refines_bind {A B} (a a' : result A) (f f' : A -> result B) :
  refines a a' -> (forall x, refines (f x) (f' x)) -> refines (bind a f) (bind a' f').
Proof.
  intros [->| ->] H; [now left|]. destruct a as [x|e|]; cbn [bind]; [apply H|now right|now left].
Qed.
Lemma refines_eq {A} (r r' : result A) : refines r r' -> r <> Panic -> r' = r.
Proof. intros [H|H] N; congruence. Qed.

(* the generic lemma: a slice expression that is in range with cap = len reads the same bytes with
   any spare capacity behind it *)
Lemma sub_app_within (l tail : list N) i j : i <= j -> j <= len l -> sub (l ++ tail) i j = sub l i j.
Proof.
  intros H1 H2. unfold sub. rewrite skipn_app, firstn_app.
  replace (N.to_nat i - List.length l)%nat with 0%nat by (unfold len in *; lia).
  replace (N.to_nat (j - i) - List.length (skipn (N.to_nat i) l))%nat with 0%nat
    by (rewrite skipn_length; unfold len in *; lia).
  cbn [skipn firstn]. now rewrite app_nil_r.
Qed.

Lemma slice_cap_ok l tail i j x : slice l i j = Ok x -> slice_capT l tail i j = Ok x.
Proof.
  unfold slice, slice_capT. destruct ((i <=? j) && (j <=? len l)) eqn:E; [|discriminate].
  intros H. replace ((i <=? j) && (j <=? len l + len tail)) with true by lia.
  rewrite sub_app_within by lia. exact H.
Qed.

Lemma slice_never_err l i j e : slice l i j <> Err e.
Proof. unfold slice. destruct ((i <=? j) && (j <=? len l)); discriminate. Qed.

Lemma refines_slice l tail i j : refines (slice l i j) (slice_capT l tail i j).
Proof.
  destruct (slice l i j) as [x|e|] eqn:E. right. now apply slice_cap_ok.
  now apply slice_never_err in E. now left.
Qed.

Lemma refines_be_at l tail i n : refines (be_at l i n) (be_at_cap l tail i n).
Proof. unfold be_at, be_at_cap. apply refines_bind. apply refines_slice. intros; apply refines_refl. Qed.

Lemma refines_read_field base body tail f : refines (read_field base body f) (read_field_cap base body tail f).
Proof.
  unfold read_field, read_field_cap. destruct (f_kind f);
    first [apply refines_refl | apply refines_bind; [apply refines_slice|intros; apply refines_refl]].
Qed.

Lemma refines_read_fields base body tail fs : refines (read_fields base body fs) (read_fields_cap base body tail fs).
Proof.
  induction fs as [|f fs IH]; cbn [read_fields read_fields_cap]. apply refines_refl.
  apply refines_bind. apply refines_read_field. intros x. apply refines_bind. exact IH. intros; apply refines_refl.
Qed.

Lemma refines_rec_loop n : forall i body tail start stride fs,
  refines (rec_loop n i body start stride fs) (rec_loop_cap n i body tail start stride fs).
Proof.
  induction n as [|n IH]; intros; cbn [rec_loop rec_loop_cap]. apply refines_refl.
  apply refines_bind. apply refines_read_fields. intros x. apply refines_bind. apply IH. intros; apply refines_refl.
Qed.

Lemma refines_fixed g fs body tail : refines (fixed_parse g fs body) (fixed_parse_cap g fs body tail).
Proof.
  unfold fixed_parse, fixed_parse_cap. destruct (guard_ok g (len body)); [|apply refines_refl].
  apply refines_bind. apply refines_read_fields. intros; apply refines_refl.
Qed.

Lemma refines_asign r data tail : refines (asign_parse r data) (asign_parse_cap r data tail).
Proof.
  unfold asign_parse, asign_parse_cap. cbv zeta. destruct (len data <? tid_len (s_dialect r) + 8). apply refines_refl.
  apply refines_bind. apply refines_slice. intros x. apply refines_bind. apply refines_slice. intros; apply refines_refl.
Qed.

(* structural tactic: the two definitions have the same shape *)
Ltac rf :=
  repeat first
  [ apply refines_slice | apply refines_be_at | apply refines_read_fields | apply refines_rec_loop
  | apply refines_asign | apply refines_fixed
  | match goal with |- refines (if ?c then _ else _) (if ?c then _ else _) => destruct c end
  | match goal with |- refines (bind _ _) (bind _ _) => apply refines_bind; [|intros ?] end
  | apply refines_refl ].

Lemma refines_t1211 body tail : refines (t1211_parse body) (t1211_cap body tail).
Proof. unfold t1211_parse, t1211_cap. rf. Qed.
Lemma refines_t1212 r body tail : refines (t1212_parse r body) (t1212_cap r body tail).
Proof. unfold t1212_parse, t1212_cap. apply refines_bind. apply refines_t1211. intros; apply refines_refl. Qed.
Lemma refines_p9101 body tail : refines (p9101_parse body) (p9101_cap body tail).
Proof. unfold p9101_parse, p9101_cap. rf. Qed.
Lemma refines_p9201 body tail : refines (p9201_parse body) (p9201_cap body tail).
Proof. unfold p9201_parse, p9201_cap. rf. Qed.
Lemma refines_p9206 body tail : refines (p9206_parse body) (p9206_cap body tail).
Proof. unfold p9206_parse, p9206_cap. cbv zeta. rf. Qed.
Lemma refines_t0102 ver body tail : refines (t0102_parse ver body) (t0102_cap ver body tail).
Proof. unfold t0102_parse, t0102_cap. rf. Qed.
Lemma refines_t0100 gbk ver r body tail : refines (t0100_parse gbk ver r body) (t0100_cap gbk ver r body tail).
Proof. unfold t0100_parse, t0100_cap. destruct (t0100_widths ver (len body)) as [[m t] i]. rf. Qed.
Lemma refines_p9208 d body tail : refines (p9208_parse d body) (p9208_cap d body tail).
Proof. unfold p9208_parse, p9208_cap. cbv zeta. rf. Qed.
Lemma refines_t0805 body tail : refines (t0805_parse body) (t0805_cap body tail).
Proof. unfold t0805_parse, t0805_cap. rf. Qed.
Lemma refines_t1205 body tail : refines (t1205_parse body) (t1205_cap body tail).
Proof. unfold t1205_parse, t1205_cap. rf. Qed.
Lemma refines_p8003 body tail : refines (p8003_parse body) (p8003_cap body tail).
Proof. unfold p8003_parse, p8003_cap. rf. Qed.
Lemma refines_p8800 body tail : refines (p8800_parse body) (p8800_cap body tail).
Proof. unfold p8800_parse, p8800_cap. rf. Qed.
Lemma refines_p9212 body tail : refines (p9212_parse body) (p9212_cap body tail).
Proof. unfold p9212_parse, p9212_cap. rf. Qed.

Lemma refines_t1210_items n : forall body tail start,
  refines (t1210_items n body start) (t1210_items_cap n body tail start).
Proof.
  induction n as [|n IH]; intros; cbn [t1210_items t1210_items_cap]. apply refines_refl.
  rf. apply IH.
Qed.

Lemma refines_t1210 d r body tail : refines (t1210_parse d r body) (t1210_cap d r body tail).
Proof.
  unfold t1210_parse, t1210_cap. cbv zeta. rf.
  all: try apply refines_t1210_items.
Qed.

Lemma refines_params_walk fuel : forall gbk count known other body tail,
  refines (params_walk fuel gbk count known other body) (params_walk_cap fuel gbk count known other body tail).
Proof.
  induction fuel as [|f IH]; intros; destruct body as [|b t]; cbn [params_walk params_walk_cap];
    try apply refines_refl.
  remember (b :: t) as body eqn:Hb. clear Hb b t.
  rf. apply IH.
Qed.

Lemma refines_params gbk count body tail : refines (params_parse gbk count body) (params_cap gbk count body tail).
Proof.
  unfold params_parse, params_cap. apply refines_bind. apply refines_params_walk. intros; apply refines_refl.
Qed.

Lemma refines_t0104 gbk body tail : refines (t0104_parse gbk body) (t0104_cap gbk body tail).
Proof.
  unfold t0104_parse, t0104_cap. rf. apply refines_params.
Qed.
Lemma refines_p8103 gbk body tail : refines (p8103_parse gbk body) (p8103_cap gbk body tail).
Proof.
  unfold p8103_parse, p8103_cap. rf. apply refines_params.
Qed.

Theorem refines_parse_msg id gbk ver d r body tail :
  refines (parse_msg id gbk ver d r body) (parse_msg_cap id gbk ver d r body tail).
Proof.
  unfold parse_msg, parse_msg_cap. destruct (lookup id fixed_layouts). apply refines_fixed.
  repeat match goal with |- refines (if ?c then _ else _) _ => destruct c end;
    auto using refines_t0100, refines_t0102, refines_t0104, refines_t0805, refines_t1205, refines_t1210,
      refines_t1211, refines_t1212, refines_p8003, refines_p8103, refines_p8800, refines_p9101, refines_p9201,
      refines_p9206, refines_p9208, refines_p9212, refines_refl.
Qed.

(* locality: with any bytes behind the slice the decoder returns what it returns with none *)
Theorem parse_msg_local id gbk ver d r body tail : ver = 1 \/ ver = 2 \/ ver = 3 ->
  parse_msg_cap id gbk ver d r body tail = parse_msg id gbk ver d r body.
Proof.
  intros Hv. apply refines_eq. apply refines_parse_msg. now apply parse_msg_total.
Qed.

(* the generic statement for straight-line decoders and for the record loop *)
Theorem fixed_layout_local g fs : layout_ok g fs = true -> forall body tail,
  fixed_parse_cap g fs body tail = fixed_parse g fs body.
Proof. intros H body tail. apply refines_eq. apply refines_fixed. now apply fixed_layout_total. Qed.

(* the spare-capacity primitives with no spare capacity are the cap = len primitives *)
Lemma slice_cap_nil l i j : slice_capT l [] i j = slice l i j.
Proof. unfold slice_capT, slice, sub. change (@len N []) with 0. now rewrite N.add_0_r, app_nil_r. Qed.

(* and the tail IS read when the code over-reads: the slice primitive sees it *)
Lemma slice_cap_sees_tail : slice [1; 2] 1 3 = Panic /\ slice_capT [1; 2] [7] 1 3 = Ok [2; 7] /\
  slice_capT [1; 2] [9] 1 3 = Ok [2; 9].
Proof. repeat split; reflexivity. Qed.

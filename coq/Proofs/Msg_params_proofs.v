(* C07 — terminal parameters: TerminalParamDetails.parse (encode p) = p for every parameter set of the domain,
   hence the round trip of P0x8103.  The encoder emits the set fields in declaration order and then the unknown
   ids ascending; the parser walks the items and assigns by id.  The proof follows the encoder: after the fields
   of a prefix of the table have been consumed, exactly those fields of the receiver hold the encoded values. *)
From JT.Base Require Import Prelude PreludeP Fmt.
From JT.Model Require Import Msg_simple Params.
From Coq Require Import ZArith ZifyN ZifyNat ZifyBool.
Ltac Zify.zify_post_hook ::= Z.div_mod_to_equations.

(* ---- facts about the table, by computation *)
Fixpoint nodupb (l : list N) : bool :=
  match l with [] => true | x :: t => negb (existsb (N.eqb x) t) && nodupb t end.
Lemma nodupb_NoDup l : nodupb l = true -> NoDup l.
Proof.
  induction l as [|x t IH]; intros H; [constructor|]. cbn [nodupb] in H. apply andb_true_iff in H. destruct H as [H1 H2].
  constructor; [|auto]. intros Hin. apply negb_true_iff in H1.
  assert (existsb (N.eqb x) t = true) as E by (apply existsb_exists; exists x; split; [exact Hin|apply N.eqb_refl]).
  congruence.
Qed.
Lemma param_ids_nodup : NoDup (map fst param_fields).
Proof. apply nodupb_NoDup. vm_compute. reflexivity. Qed.
Lemma param_ids_small : forallb (fun p => (fst p <? 4294967296) && (0 <? fst p)) param_fields = true.
Proof. vm_compute. reflexivity. Qed.

Lemma assoc_app_notin {A} k (a b : list (N * A)) : ~ In k (map fst a) -> assoc k (a ++ b) = assoc k b.
Proof.
  induction a as [|[k' x] a IH]; intros H; [reflexivity|]. cbn [app assoc]. cbn [map fst In] in H.
  destruct (k' =? k) eqn:E; [apply N.eqb_eq in E; tauto | apply IH; tauto].
Qed.

Lemma set_field_at done todo fs_done f fs_rest id k v :
  length fs_done = length done -> ~ In id (map fst done) ->
  set_field (done ++ (id, k) :: todo) (fs_done ++ f :: fs_rest) id v = fs_done ++ v :: fs_rest.
Proof.
  revert fs_done. induction done as [|[id' k'] done IH]; intros fs_done L H.
  - destruct fs_done; [|discriminate L]. cbn [app set_field]. now rewrite N.eqb_refl.
  - destruct fs_done as [|g fs_done]; [discriminate L|]. cbn [app set_field]. cbn [map fst In] in H.
    destruct (id' =? id) eqn:E; [apply N.eqb_eq in E; tauto|]. f_equal. apply IH; [now inversion L | tauto].
Qed.

Section Gbk.
Variables (u2g g2u : list N -> list N) (gdom : list N -> bool).
Hypothesis Hc : codec_ok u2g g2u gdom.

(* ---- the loop does not depend on its fuel once there is enough of it *)
Lemma loop_fuel : forall f1 f2 count st l, (length l <= f1)%nat -> (length l <= f2)%nat ->
  params_loop g2u f1 count st l = params_loop g2u f2 count st l.
Proof.
  induction f1 as [|f1 IH]; intros f2 count st l H1 H2.
  - destruct l; [destruct f2; reflexivity | cbn [length] in H1; lia].
  - destruct l as [|b l]; [destruct f2; reflexivity|]. destruct f2 as [|f2]; [cbn [length] in H2; lia|].
    cbn [params_loop].
    destruct (take_e 5 (b :: l)) as [[h r]|e|] eqn:E1; cbn [bind]; try reflexivity.
    destruct (take_e (nth 4 h 0) r) as [[content r']|e|] eqn:E2; cbn [bind]; try reflexivity.
    destruct (parse_param g2u (be_dec (firstn 4 h)) (nth 4 h 0) content) as [x|e|]; cbn [bind]; try reflexivity.
    apply take_e_inv in E1. destruct E1 as [E1 L1]. apply take_e_inv in E2. destruct E2 as [E2 _].
    assert (length (b :: l) = (5 + length content + length r')%nat) as L.
    { rewrite E1, E2, !app_length. unfold len in L1. lia. }
    apply IH; lia.
Qed.

Definition run (count : N) (st : list val * list val) (l : list N) : result (list val * list val) :=
  params_loop g2u (length l) count st l.

Definition upd (st : list val * list val) (id plen : N) (content : list N) (x : option val) : list val * list val :=
  match x with
  | Some v => (set_field param_fields (fst st) id (VL [VN id; VN plen; v]), snd st)
  | None => (fst st, other_put (snd st) (VL [VN id; VN plen; VB content]))
  end.

Lemma be_enc_4_shape x : exists a b c d, be_enc 4 x = [a; b; c; d].
Proof.
  pose proof (be_enc_length 4 x) as L. destruct (be_enc 4 x) as [|a [|b [|c [|d [|e t]]]]]; try discriminate L.
  now exists a, b, c, d.
Qed.

Lemma loop_cons fuel count st b l :
  params_loop g2u (S fuel) count st (b :: l) =
  ('(h, r) <- take_e 5 (b :: l) ;;
   '(content, r') <- take_e (nth 4 h 0) r ;;
   x <- parse_param g2u (be_dec (firstn 4 h)) (nth 4 h 0) content ;;
   params_loop g2u fuel ((count + 255) mod 256) (upd st (be_dec (firstn 4 h)) (nth 4 h 0) content x) r').
Proof. reflexivity. Qed.

(* one wire item at the front of the input is one round of the loop *)
Lemma run_item id plen content rest count st : id < 4294967296 -> len content = plen ->
  run count st (be_enc 4 id ++ [plen] ++ content ++ rest) =
  (x <- parse_param g2u id plen content ;; run ((count + 255) mod 256) (upd st id plen content x) rest).
Proof.
  intros Hid Hl. unfold run.
  pose proof (be_dec_enc 4 id) as D. change (256 ^ N.of_nat 4) with 4294967296 in D. specialize (D Hid).
  destruct (be_enc_4_shape id) as (a & b & c & d & E). rewrite E in *.
  cbn [app length]. rewrite loop_cons.
  change (a :: b :: c :: d :: plen :: content ++ rest) with ([a; b; c; d; plen] ++ content ++ rest).
  rewrite take_e_app_n by reflexivity. cbn [bind firstn nth]. rewrite D.
  rewrite take_e_app_n by exact Hl. cbn [bind].
  destruct (parse_param g2u id plen content) as [x|e|]; cbn [bind]; try reflexivity.
  apply loop_fuel; rewrite ?app_length; cbn [length]; lia.
Qed.

Lemma run_nil st : run 0 st [] = Ok st.
Proof. reflexivity. Qed.

(* ---- what a well-formed field is *)
Lemma field_cases id k f : 0 < id -> field_wf u2g gdom id k f = true ->
  (f = unset k /\ is_set f = false /\ enc_field u2g k f = []) \/
  (exists plen x, f = VL [VN id; VN plen; x] /\ is_set f = true /\ k <> KNone /\
     enc_field u2g k f = be_enc 4 id ++ [plen] ++ enc_value u2g k x /\
     len (enc_value u2g k x) = plen /\
     (param_kind id = Some k -> parse_param g2u id plen (enc_value u2g k x) = Ok (Some x))).
Proof.
  unfold field_wf. intros Hid H. apply orb_true_iff in H. destruct H as [H|H].
  - left. apply val_eqb_eq in H. subst f. destruct k; repeat split; reflexivity.
  - right. destruct f as [a|b|l]; try discriminate H.
    destruct l as [|[id'|?|?] [|[plen|?|?] [|x [|? ?]]]]; try discriminate H.
    apply andb_true_iff in H. destruct H as [Hi H]. apply N.eqb_eq in Hi. subst id'.
    exists plen, x.
    destruct k, x as [n|s|l]; try discriminate H; unfold parse_param; cbn [enc_field enc_value is_set].
    + (* K32 *) apply andb_true_iff in H. destruct H as [H1 H2]. apply N.eqb_eq in H1. subst plen.
      repeat split; try reflexivity; try discriminate; try apply be_enc_len.
      intros PK. rewrite PK. cbn [N.eqb Pos.eqb]. rewrite be_dec_enc by (change (256 ^ N.of_nat 4) with 4294967296; lia). reflexivity.
    + (* K16 *) apply andb_true_iff in H. destruct H as [H1 H2]. apply N.eqb_eq in H1. subst plen.
      repeat split; try reflexivity; try discriminate; try apply be_enc_len.
      intros PK. rewrite PK. cbn [N.eqb Pos.eqb]. rewrite be_dec_enc by (change (256 ^ N.of_nat 2) with 65536; lia). reflexivity.
    + (* K8 *) apply andb_true_iff in H. destruct H as [H1 H2]. apply N.eqb_eq in H1. subst plen.
      repeat split; try reflexivity; try discriminate.
      intros PK. rewrite PK. reflexivity.
    + (* KStr *) repeat (apply andb_true_iff in H; destruct H as [H ?]).
      match goal with E : (plen =? _) = true |- _ => apply N.eqb_eq in E end.
      replace (id =? 0) with false by lia. rewrite andb_false_r.
      repeat split; try reflexivity; try discriminate; try lia.
      intros PK. rewrite PK. now rewrite Hc.
    + (* KB4 *) apply andb_true_iff in H. destruct H as [H1 H2]. apply N.eqb_eq in H1. subst plen.
      repeat split; try reflexivity; try discriminate; try lia.
      intros PK. rewrite PK. reflexivity.
    + (* KB8 *) apply andb_true_iff in H. destruct H as [H1 H2]. apply N.eqb_eq in H1. subst plen.
      repeat split; try reflexivity; try discriminate; try lia.
      intros PK. rewrite PK. reflexivity.
Qed.

Lemma count_set_cons f fs : count_set (f :: fs) = (if is_set f then 1 else 0) + count_set fs.
Proof. unfold count_set. cbn [filter]. destruct (is_set f); [rewrite len_cons|]; lia. Qed.

(* ---- the typed fields *)
Lemma run_fields rest os : forall todo done fs_done fs_todo c0,
  param_fields = done ++ todo -> length fs_done = length done ->
  fields_wf u2g gdom todo fs_todo = true -> count_set fs_todo + c0 < 256 ->
  run (count_set fs_todo + c0) (fs_done ++ map (fun p => unset (snd p)) todo, os)
      (enc_fields u2g todo fs_todo ++ rest) =
  run c0 (fs_done ++ fs_todo, os) rest.
Proof.
  induction todo as [|[id k] todo IH]; intros done fs_done fs_todo c0 ET L W C.
  - destruct fs_todo; [|discriminate W]. reflexivity.
  - destruct fs_todo as [|f fs']; [discriminate W|]. cbn [fields_wf] in W. apply andb_true_iff in W. destruct W as [Wf W].
    assert (ET' : param_fields = (done ++ [(id, k)]) ++ todo) by (rewrite <- app_assoc; exact ET).
    assert (L' : length (fs_done ++ [f]) = length (done ++ [(id, k)])) by (rewrite !app_length; cbn [length]; lia).
    rewrite count_set_cons in *. cbn [map snd enc_fields].
    assert (Hid : id < 4294967296 /\ 0 < id).
    { pose proof param_ids_small as S0. rewrite forallb_forall in S0.
      specialize (S0 (id, k)). cbn [fst] in S0. apply andb_true_iff in S0; [lia|]. rewrite ET. apply in_or_app. right. now left. }
    destruct Hid as [Hid Hid0].
    destruct (field_cases id k f Hid0 Wf) as [(-> & S & E)|(plen & x & -> & S & Hk & E & Le & P)]; rewrite S in *; rewrite E.
    + cbn [app]. specialize (IH _ _ _ c0 ET' L' W ltac:(lia)).
      rewrite <- !app_assoc in IH. cbn [app] in IH. rewrite N.add_0_l. exact IH.
    + pose proof param_ids_nodup as ND. rewrite ET, map_app in ND. cbn [map fst] in ND.
      apply NoDup_remove_2 in ND. assert (NI : ~ In id (map fst done)) by (intros Hin; apply ND, in_or_app; now left).
      assert (PK : param_kind id = Some k).
      { unfold param_kind. rewrite ET, assoc_app_notin by exact NI. cbn [assoc]. rewrite N.eqb_refl.
        destruct k; try reflexivity. congruence. }
      rewrite <- !app_assoc. rewrite run_item by assumption. rewrite (P PK). cbn [bind].
      unfold upd. cbn [fst snd]. rewrite ET at 1. rewrite set_field_at by assumption.
      replace ((1 + count_set fs' + c0 + 255) mod 256) with (count_set fs' + c0) by lia.
      specialize (IH _ _ _ c0 ET' L' W ltac:(lia)). rewrite <- !app_assoc in IH. cbn [app] in IH. exact IH.
Qed.

(* ---- the unknown ids, ascending *)
Lemma other_put_end os o : Forall (fun x => other_id x < other_id o) os -> other_put os o = os ++ [o].
Proof.
  induction 1 as [|x os Hx _ IH]; [reflexivity|]. cbn [other_put app].
  replace (other_id o <? other_id x) with false by lia. replace (other_id o =? other_id x) with false by lia.
  now rewrite IH.
Qed.

Lemma run_others rest fs : forall os os_done lo c0,
  others_wf lo os = true -> Forall (fun x => other_id x < lo) os_done -> len os + c0 < 256 ->
  run (len os + c0) (fs, os_done) (flat_map enc_other os ++ rest) = run c0 (fs, os_done ++ os) rest.
Proof.
  induction os as [|o os IH]; intros os_done lo c0 W B C.
  - cbn [flat_map app]. now rewrite app_nil_r.
  - cbn [others_wf] in W.
    destruct o as [?|?|[|[id|?|?] [|[plen|?|?] [|[?|c|?] [|? ?]]]]]; try discriminate W.
    repeat (apply andb_true_iff in W; destruct W as [W ?]).
    destruct (param_kind id) eqn:PK; [discriminate|].
    cbn [flat_map enc_other]. replace ((plen =? 0) && (id =? 0)) with false by lia.
    rewrite <- !app_assoc. rewrite run_item by lia.
    unfold parse_param. rewrite PK. cbn [bind]. unfold upd. cbn [fst snd].
    rewrite other_put_end by (eapply Forall_impl; [|exact B]; cbn [other_id]; intros; lia).
    rewrite len_cons in *. replace ((1 + len os + c0 + 255) mod 256) with (len os + c0) by lia.
    rewrite (IH (os_done ++ [VL [VN id; VN plen; VB c]]) (id + 1) c0); try assumption; try lia.
    + now rewrite <- app_assoc.
    + apply Forall_app. split; [eapply Forall_impl; [|exact B]; intros; cbn beta in *; lia|].
      constructor; [cbn [other_id]; lia|constructor].
Qed.

(* ---- the parameter list *)
Lemma fields_wf_length : forall tbl fs, fields_wf u2g gdom tbl fs = true -> length fs = length tbl.
Proof.
  induction tbl as [|[id k] tbl IH]; intros [|f fs] H; try discriminate H; auto.
  cbn [fields_wf] in H. apply andb_true_iff in H. destruct H as [_ H]. cbn [length]. f_equal. now apply IH.
Qed.

Theorem params_roundtrip count v : params_wf u2g gdom count v = true ->
  params_parse g2u count (params_encode u2g v) = Ok v.
Proof.
  unfold params_wf. intros H. destruct v as [?|?|vs]; try discriminate H.
  destruct (skipn nfields vs) as [|[?|?|os] [|? ?]] eqn:ES; try discriminate H.
  repeat (apply andb_true_iff in H; destruct H as [H ?]).
  match goal with E : (count =? _) = true |- _ => apply N.eqb_eq in E; subst count end.
  unfold params_parse, params_encode. rewrite ES. fold (run (count_set (firstn nfields vs) + len os) (fresh_fields, []) (enc_fields u2g param_fields (firstn nfields vs) ++ flat_map enc_other os)).
  pose proof (run_fields (flat_map enc_other os) [] param_fields [] [] (firstn nfields vs) (len os) eq_refl eq_refl) as F.
  cbn [app] in F. unfold fresh_fields. rewrite F by (assumption || lia).
  pose proof (run_others [] (firstn nfields vs) os [] 0 0) as O. rewrite app_nil_r, N.add_0_r in O.
  rewrite O by (assumption || constructor || lia). cbn [app]. rewrite run_nil. cbn [bind].
  rewrite <- ES, firstn_skipn. reflexivity.
Qed.

Lemma params_tail_ok count : tail_ok (params_tail u2g g2u gdom count).
Proof.
  intros vs H. cbn [tl_enc tl_dec tl_wf params_tail] in *. destruct vs as [|d [|? ?]]; try discriminate H.
  rewrite params_roundtrip by exact H. reflexivity.
Qed.

Lemma m_8103_ok : msg_ok (m_8103 u2g g2u gdom).
Proof. unfold m_8103. fmt_ok. apply params_tail_ok. Qed.
End Gbk.

(* ---- the recorded finding C07/params-caseless-field: the declared DWORD field of id 0x021 set to 1 *)
Definition caseless_witness : val :=
  VL (set_field param_fields fresh_fields 0x021 (VL [VN 0x021; VN 4; VN 1]) ++ [VL []]).
Lemma params_caseless :
  params_encode (fun s => s) caseless_witness = [0; 0; 0; 33; 4; 0; 0; 0; 1] /\
  params_parse (fun s => s) 1 (params_encode (fun s => s) caseless_witness) <> Ok caseless_witness.
Proof. split; [vm_compute; reflexivity|]. vm_compute. intros E. discriminate E. Qed.

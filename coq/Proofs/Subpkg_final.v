(* The C05 / C14 results restated with the vocabulary of Model/Subpkg.v only (total = len bodies),
   as they appear in Props/C05.v and Props/C14.v. *)
From JT.Base Require Import Prelude PreludeP.
From JT.Model Require Import Frame Unpack Subpkg.
From JT.Proofs Require Import Subpkg_proofs Rereq_proofs.
From Coq Require Import ZArith ZifyN ZifyNat ZifyBool.

Lemma len_ge1 (bodies : list (list N)) : bodies <> [] -> (1 <= length bodies)%nat.
Proof. destruct bodies; cbn [length]; [congruence|lia]. Qed.

Theorem exact_f : forall X bodies s0 t1 p1 rest l1 t m l2,
  bodies <> [] -> Forall nonempty bodies -> wf s0 ->
  good_pkt X (len bodies) bodies p1 -> m_no p1 = 1 -> Forall (ok_after X bodies t1) rest ->
  (t1, EvMsg p1) :: rest = l1 ++ (t, EvMsg m) :: l2 ->
  ~ covers (len bodies) (numbers X (len bodies) l1) ->
  covers (len bodies) (numbers X (len bodies) (l1 ++ [(t, EvMsg m)])) ->
  completions X (snd (run s0 ((t1, EvMsg p1) :: rest))) = [(length l1, concat bodies)].
Proof.
  intros X bodies s0 t1 p1 rest l1 t m l2 Hb Hne Hwf Hg H1 Hall Hs Hnc Hc.
  exact (exact X (length bodies) bodies eq_refl Hne (len_ge1 _ Hb) s0 t1 p1 rest l1 t m l2 Hwf Hg H1 Hall Hs Hnc Hc).
Qed.

Theorem never_early_f : forall X bodies s0 t1 p1 rest,
  bodies <> [] -> Forall nonempty bodies -> wf s0 ->
  good_pkt X (len bodies) bodies p1 -> m_no p1 = 1 -> Forall (ok_after X bodies t1) rest ->
  ~ covers (len bodies) (numbers X (len bodies) ((t1, EvMsg p1) :: rest)) ->
  completions X (snd (run s0 ((t1, EvMsg p1) :: rest))) = [].
Proof.
  intros X bodies s0 t1 p1 rest Hb Hne Hwf Hg H1 Hall Hnc.
  exact (never_early X (length bodies) bodies eq_refl Hne (len_ge1 _ Hb) s0 t1 p1 rest Hwf Hg H1 Hall Hnc).
Qed.

Theorem number_zero_ignored : forall now s m, m_no m = 0 -> complete_pack now s m = (s, None).
Proof.
  intros now s m H0. destruct (N.eq_dec (m_sum m) 0) as [Hs|Hs].
  - rewrite complete_pack_eq. now replace (m_sum m =? 0) with true by lia.
  - apply cp_bad_number; auto; lia.
Qed.

Theorem number_too_big_ignored : forall now s m,
  m_no m <> 1 ->
  match find (m_id m) s with Some x => len (x_slots x) < m_no m | None => True end ->
  complete_pack now s m = (s, None).
Proof.
  intros now s m H1 Hbig. destruct (N.eq_dec (m_sum m) 0) as [Hs|Hs].
  - rewrite complete_pack_eq. now replace (m_sum m =? 0) with true by lia.
  - apply cp_bad_number; auto. right. destruct (find (m_id m) s); auto.
Qed.

Theorem wf_run_f : forall s evs, wf s -> wf (fst (run s evs)).
Proof. intros. now apply wf_run. Qed.

Theorem wf_nil : wf []. Proof. constructor. Qed.

Theorem exact_list_f : forall X bodies s0 t1 p1 rest now,
  bodies <> [] -> Forall nonempty bodies -> wf s0 ->
  good_pkt X (len bodies) bodies p1 -> m_no p1 = 1 -> Forall (ok_after X bodies t1) rest ->
  ~ covers (len bodies) (numbers X (len bodies) ((t1, EvMsg p1) :: rest)) -> now <= t1 + 60000 ->
  let evs := (t1, EvMsg p1) :: rest in
  let miss := missing_of (len bodies) (numbers X (len bodies) evs) in
  rr_for X (snd (step now (fst (run s0 evs)) EvEnd)) =
  if last_stamp X (len bodies) t1 rest + 5000 <? now
  then [{| rr_id := X; rr_first := p1; rr_list := miss; rr_body := body_8003 (m_serial p1) (len miss) miss |}]
  else [].
Proof.
  intros X bodies s0 t1 p1 rest now Hb Hne Hwf Hg H1 Hall Hnc Hnow.
  exact (exact_list X (length bodies) bodies eq_refl Hne (len_ge1 _ Hb) s0 t1 p1 rest now Hwf Hg H1 Hall Hnc Hnow).
Qed.

Theorem expiry_f : forall X bodies s0 t1 p1 rest now e later,
  bodies <> [] -> Forall nonempty bodies -> wf s0 ->
  good_pkt X (len bodies) bodies p1 -> m_no p1 = 1 -> Forall (ok_after X bodies t1) rest ->
  ~ covers (len bodies) (numbers X (len bodies) ((t1, EvMsg p1) :: rest)) -> t1 + 60000 < now ->
  Forall (fun te => no_start X (snd te)) ((now, e) :: later) ->
  let evs := ((t1, EvMsg p1) :: rest) ++ (now, e) :: later in
  let outs := snd (run s0 evs) in
  completions X outs = [] /\
  rereqs_from (S (length rest)) X (skipn (S (length rest)) outs) = [] /\
  find X (fst (run s0 evs)) = None.
Proof.
  intros X bodies s0 t1 p1 rest now e later Hb Hne Hwf Hg H1 Hall Hnc Hnow Hl.
  exact (expiry X (length bodies) bodies eq_refl Hne (len_ge1 _ Hb) s0 t1 p1 rest now e later Hwf Hg H1 Hall Hnc Hnow Hl).
Qed.

Theorem then_completes_f : forall X bodies s0 t1 p1 rest1 tr rest2 l1 t m l2,
  bodies <> [] -> Forall nonempty bodies -> wf s0 ->
  good_pkt X (len bodies) bodies p1 -> m_no p1 = 1 ->
  Forall (ok_after X bodies t1) rest1 -> tr <= t1 + 60000 -> Forall (ok_after X bodies t1) rest2 ->
  ~ covers (len bodies) (numbers X (len bodies) ((t1, EvMsg p1) :: rest1)) ->
  last_stamp X (len bodies) t1 rest1 + 5000 < tr ->
  let evs := ((t1, EvMsg p1) :: rest1) ++ (tr, EvEnd) :: rest2 in
  evs = l1 ++ (t, EvMsg m) :: l2 ->
  ~ covers (len bodies) (numbers X (len bodies) l1) ->
  covers (len bodies) (numbers X (len bodies) (l1 ++ [(t, EvMsg m)])) ->
  let outs := snd (run s0 evs) in
  let miss := missing_of (len bodies) (numbers X (len bodies) ((t1, EvMsg p1) :: rest1)) in
  rr_for X (nth (S (length rest1)) outs ONone) =
    [{| rr_id := X; rr_first := p1; rr_list := miss; rr_body := body_8003 (m_serial p1) (len miss) miss |}] /\
  completions X outs = [(length l1, concat bodies)].
Proof.
  intros X bodies s0 t1 p1 rest1 tr rest2 l1 t m l2 Hb Hne Hwf Hg H1 Ha1 Htr Ha2 Hnc Hst.
  exact (then_completes X (length bodies) bodies eq_refl Hne (len_ge1 _ Hb) s0 t1 p1 rest1 tr rest2 l1 t m l2
           Hwf Hg H1 Ha1 Htr Ha2 Hnc Hst).
Qed.

(* Proofs for Model/Registry.v (C11). *)
From Coq Require Import List NArith Bool Lia Arith.
From JT.Base Require Import Sched.
From JT.Model Require Import Registry.
Import ListNotations.
Open Scope N_scope.

(* ---------------- lists ---------------- *)
Lemma nth_error_set_nth_eq : forall A (l : list A) n x y,
  nth_error l n = Some y -> nth_error (set_nth n x l) n = Some x.
Proof.
  induction l as [|a l IH]; intros [|n] x y H; simpl in *; try discriminate; auto.
  eapply IH; eauto.
Qed.

Lemma nth_error_set_nth_neq : forall A (l : list A) n m x,
  n <> m -> nth_error (set_nth n x l) m = nth_error l m.
Proof.
  induction l as [|a l IH]; intros [|n] [|m] x H; simpl in *; auto; try congruence.
Qed.

Lemma nth_error_snoc_old : forall A (l : list A) n x y,
  nth_error (l ++ [x]) n = Some y -> y <> x -> nth_error l n = Some y.
Proof.
  intros A l n x y H Hne.
  destruct (Nat.lt_ge_cases n (length l)) as [Hlt|Hge].
  - now rewrite nth_error_app1 in H.
  - rewrite nth_error_app2 in H by assumption.
    destruct (n - length l)%nat as [|[|k]]; simpl in H; try discriminate; congruence.
Qed.

Lemma nth_error_snoc_keep : forall A (l : list A) n x y,
  nth_error l n = Some y -> nth_error (l ++ [x]) n = Some y.
Proof.
  intros A l n x y H. rewrite nth_error_app1; auto.
  apply nth_error_Some. congruence.
Qed.

(* ---------------- the map ---------------- *)
Lemma lookup_In : forall k r c, lookup k r = Some c -> In (k, c) r.
Proof.
  induction r as [|[k' c'] r IH]; intros c H; simpl in *; try discriminate.
  destruct (k' =? k) eqn:E.
  - apply N.eqb_eq in E. inversion H; subst. now left.
  - right; auto.
Qed.

Lemma lookup_None_notin : forall k r c, lookup k r = None -> ~ In (k, c) r.
Proof.
  induction r as [|[k' c'] r IH]; intros c H Hin; simpl in *; auto.
  destruct (k' =? k) eqn:E; try discriminate.
  destruct Hin as [Heq|Hin].
  - inversion Heq; subst. rewrite N.eqb_refl in E. discriminate.
  - eapply IH; eauto.
Qed.

Lemma In_del : forall k r k' c, In (k', c) (del k r) <-> In (k', c) r /\ k' <> k.
Proof.
  intros k r k' c. unfold del. rewrite filter_In. simpl.
  rewrite negb_true_iff, N.eqb_neq. tauto.
Qed.

Lemma lookup_del_same : forall k r, lookup k (del k r) = None.
Proof.
  induction r as [|[k' c'] r IH]; simpl; auto.
  destruct (k' =? k) eqn:E; simpl; auto. now rewrite E.
Qed.

Lemma lookup_del_other : forall k k' r, k' <> k -> lookup k' (del k r) = lookup k' r.
Proof.
  induction r as [|[k2 c2] r IH]; intros Hne; simpl; auto.
  destruct (k2 =? k) eqn:E; simpl.
  - apply N.eqb_eq in E; subst.
    destruct (k =? k') eqn:E2; auto. apply N.eqb_eq in E2. congruence.
  - destruct (k2 =? k'); auto.
Qed.

(* ---------------- the invariant ---------------- *)
Record Inv (s : st) : Prop := {
  inv_reg_joined : forall k c, In (k, c) (reg s) -> nth_error (conns s) c = Some (CJoined k);
  inv_joined_reg : forall k c, nth_error (conns s) c = Some (CJoined k) -> lookup k (reg s) = Some c;
}.

Lemma Inv_init : Inv init.
Proof.
  split; simpl; intros; try contradiction.
  destruct c; discriminate.
Qed.

Lemma Inv_step : forall s c s' o, Inv s -> step s c = Some (s', o) -> Inv s'.
Proof.
  intros s ch s' o [Ha Hb] E. unfold step in E. destruct ch as [|c k|c|c|c|k]; simpl in E.
  - (* Connect *)
    inversion E; subst; clear E. split; simpl.
    + intros k c Hin. apply nth_error_snoc_keep. auto.
    + intros k c Hn. apply Hb. eapply nth_error_snoc_old; eauto. discriminate.
  - (* FirstMsg *)
    destruct (nth_error (conns s) c) as [[| | |]|] eqn:Ec; try discriminate.
    destruct (lookup k (reg s)) as [c0|] eqn:El; inversion E; subst; clear E.
    + (* refused *)
      split; simpl.
      * intros k' c' Hin. pose proof (Ha _ _ Hin) as H.
        rewrite nth_error_set_nth_neq; auto. intros ->. congruence.
      * intros k' c' Hn. destruct (Nat.eq_dec c c') as [->|Hd].
        -- erewrite nth_error_set_nth_eq in Hn by eauto. discriminate.
        -- rewrite nth_error_set_nth_neq in Hn by auto. auto.
    + (* joined *)
      split; simpl.
      * intros k' c' [Heq|Hin].
        -- inversion Heq; subst. eapply nth_error_set_nth_eq; eauto.
        -- pose proof (Ha _ _ Hin) as H.
           rewrite nth_error_set_nth_neq; auto. intros ->. congruence.
      * intros k' c' Hn. destruct (Nat.eq_dec c c') as [->|Hd].
        -- erewrite nth_error_set_nth_eq in Hn by eauto. inversion Hn; subst.
           now rewrite N.eqb_refl.
        -- rewrite nth_error_set_nth_neq in Hn by auto.
           pose proof (Hb _ _ Hn) as Hl.
           destruct (k =? k') eqn:Ek; auto.
           apply N.eqb_eq in Ek; subst. congruence.
  - (* BadKeyMsg *)
    destruct (nth_error (conns s) c) as [[| | |]|]; inversion E; subst. now split.
  - (* Msg *)
    destruct (nth_error (conns s) c) as [[| | |]|]; inversion E; subst. now split.
  - (* Stop *)
    destruct (nth_error (conns s) c) as [cs|] eqn:Ec; try discriminate.
    assert (Hcs : cs <> CDone) by (intros ->; discriminate).
    assert (E' : s' = {| reg := leave_reg true cs (reg s); conns := set_nth c CDone (conns s); ncall := ncall s |})
      by (destruct cs; inversion E; auto; congruence).
    subst s'. clear E. split; simpl.
    + intros k' c' Hin.
      assert (Hin' : In (k', c') (reg s) /\ (forall k, cs = CJoined k -> k' <> k)).
      { destruct cs as [|k| |]; simpl in Hin; try (split; [exact Hin | intros; discriminate]).
        apply In_del in Hin as [Hin Hk]. split; [exact Hin|]. intros k0 [= <-]. exact Hk. }
      destruct Hin' as [Hin' Hk]. pose proof (Ha _ _ Hin') as H.
      rewrite nth_error_set_nth_neq; auto. intros ->.
      rewrite Ec in H. inversion H; subst. now apply (Hk k').
    + intros k' c' Hn. destruct (Nat.eq_dec c c') as [->|Hd].
      * erewrite nth_error_set_nth_eq in Hn by eauto. discriminate.
      * rewrite nth_error_set_nth_neq in Hn by auto.
        pose proof (Hb _ _ Hn) as Hl.
        destruct cs as [|k| |]; simpl; auto; try congruence.
        rewrite lookup_del_other; auto.
        intros ->. pose proof (Hb _ _ Ec) as Hl2. congruence.
  - (* Send *)
    destruct (lookup k (reg s)); inversion E; subst; now split.
Qed.

(* every state after ANY schedule: no hypothesis on the keys (the empty key is a key like any other
   since fix 8f7d690) *)
Definition reachable (s : st) : Prop := exists sched, s = final step init sched.

Lemma reachable_Inv : forall s, reachable s -> Inv s.
Proof.
  intros s [sched ->].
  apply (final_invariant _ _ _ step (fun _ => True) Inv); auto using Inv_init.
  - intros; eapply Inv_step; eauto.
  - apply Forall_forall. auto.
Qed.

(* ---------------- C11 ---------------- *)
Lemma unique_owner : forall s, reachable s -> forall k c1 c2,
  owner s c1 k -> owner s c2 k -> c1 = c2.
Proof.
  intros s Hr k c1 c2 H1 H2. apply reachable_Inv in Hr as [_ Hb].
  apply Hb in H1. apply Hb in H2. congruence.
Qed.

(* the registry is exactly the set of live joined connections *)
Lemma registry_is_owners : forall s, reachable s -> forall k c,
  lookup k (reg s) = Some c <-> owner s c k.
Proof.
  intros s Hr k c. apply reachable_Inv in Hr as [Ha Hb]. split.
  - intros H. apply Ha. now apply lookup_In.
  - apply Hb.
Qed.

(* a second connection presenting an online key: refused, told so, the registry and the first owner untouched;
   and when the refused connection then ends nothing changes either *)
Lemma refused_leaves_first_alone : forall s, reachable s -> forall c c' k,
  owner s c k -> nth_error (conns s) c' = Some CNew ->
  exists s1 s2,
    step s (FirstMsg c' k) = Some (s1, [OJoin c' k 1]) /\ reg s1 = reg s /\ owner s1 c k /\
    step s1 (Stop c') = Some (s2, [OLeave c' 0]) /\
    reg s2 = reg s /\ owner s2 c k.
Proof.
  intros s Hr c c' k Ho Hn. pose proof (reachable_Inv _ Hr) as [Ha Hb].
  assert (Hcc : c' <> c) by (intros ->; unfold owner in Ho; congruence).
  unfold step, step_v at 1. rewrite Hn. rewrite (Hb _ _ Ho).
  eexists; eexists; split; [reflexivity|]. simpl. split; [reflexivity|]. split.
  { unfold owner; simpl. now rewrite nth_error_set_nth_neq. }
  rewrite (nth_error_set_nth_eq _ _ _ _ _ Hn). simpl.
  split; [reflexivity|]. simpl. split; [reflexivity|].
  unfold owner; simpl. rewrite !nth_error_set_nth_neq; auto.
Qed.

(* when a connection ends its key, and only its key, becomes free; a connection that never joined (also a
   refused one) frees nothing *)
Lemma leave_frees_only_own_key : forall s, reachable s -> forall c cs,
  nth_error (conns s) c = Some cs -> cs <> CDone ->
  exists s1,
    step s (Stop c) = Some (s1, [OLeave c (ckey cs)]) /\
    (forall k, cs = CJoined k -> lookup k (reg s1) = None) /\
    (forall k', cs <> CJoined k' -> lookup k' (reg s1) = lookup k' (reg s)) /\
    ((forall k, cs <> CJoined k) -> reg s1 = reg s) /\
    (forall c' k', c' <> c -> (owner s1 c' k' <-> owner s c' k')).
Proof.
  intros s Hr c cs Hn Hd. pose proof (reachable_Inv _ Hr) as [Ha Hb].
  exists {| reg := leave_reg true cs (reg s); conns := set_nth c CDone (conns s); ncall := ncall s |}.
  split; [unfold step, step_v; rewrite Hn; destruct cs; auto; congruence|]. simpl. split; [|split; [|split]].
  - intros k ->. simpl. apply lookup_del_same.
  - intros k' Hk. destruct cs as [|k| |]; simpl; auto.
    apply lookup_del_other. intros ->. now apply Hk.
  - intros Hk. destruct cs as [|k| |]; simpl; auto. now destruct (Hk k).
  - intros c' k' Hcc. unfold owner; simpl. rewrite nth_error_set_nth_neq by congruence. tauto.
Qed.

(* after the owner has left, a new connection obtains the key *)
Lemma rejoin_after_leave : forall s, reachable s -> forall c k c2,
  owner s c k -> nth_error (conns s) c2 = Some CNew ->
  exists s1 s2,
    step s (Stop c) = Some (s1, [OLeave c k]) /\
    step s1 (FirstMsg c2 k) = Some (s2, [OJoin c2 k 0]) /\
    owner s2 c2 k /\ lookup k (reg s2) = Some c2.
Proof.
  intros s Hr c k c2 Ho Hn.
  assert (Hcc : c <> c2) by (intros ->; unfold owner in Ho; congruence).
  unfold step at 1; unfold step_v at 1. rewrite Ho. simpl.
  eexists; eexists; split; [reflexivity|].
  unfold step, step_v. simpl. rewrite nth_error_set_nth_neq by auto. rewrite Hn.
  rewrite lookup_del_same. split; [reflexivity|]. simpl. split.
  - unfold owner; simpl. eapply nth_error_set_nth_eq. rewrite nth_error_set_nth_neq; eauto.
  - now rewrite N.eqb_refl.
Qed.

(* a command goes to the connection that owns the key now, or fails at once *)
Lemma routing : forall s, reachable s -> forall k,
  (exists c, owner s c k /\
     step s (Send k) = Some ({| reg := reg s; conns := conns s; ncall := ncall s + 1 |}, [ORouted (ncall s) c])) \/
  ((forall c, ~ owner s c k) /\
     step s (Send k) = Some ({| reg := reg s; conns := conns s; ncall := ncall s + 1 |}, [ONotExist (ncall s)])).
Proof.
  intros s Hr k. pose proof (reachable_Inv _ Hr) as [Ha Hb].
  unfold step, step_v. destruct (lookup k (reg s)) as [c|] eqn:E.
  - left. exists c. split; auto. apply Ha. now apply lookup_In.
  - right. split; auto. intros c Ho. apply Hb in Ho. congruence.
Qed.

(* ... "at once": in EVERY schedule, the answer to a call for a key that is not online at that moment is the
   very next observation - before anything any connection, caller or the manager does afterwards - and the
   call leaves the registry and every connection as they were (no connection, no timer is involved) *)
Lemma not_online_at_once : forall sched1 sched2 k,
  (forall c, ~ owner (final step init sched1) c k) ->
  trace step init (sched1 ++ Send k :: sched2) =
    trace step init sched1 ++
    ONotExist (ncall (final step init sched1)) ::
    trace step {| reg := reg (final step init sched1); conns := conns (final step init sched1);
                  ncall := ncall (final step init sched1) + 1 |} sched2.
Proof.
  intros sched1 sched2 k Hno.
  rewrite trace_app. f_equal.
  assert (Hr : reachable (final step init sched1)) by (exists sched1; auto).
  destruct (routing _ Hr k) as [[c [Ho _]]|[_ E]]; [exfalso; exact (Hno c Ho)|].
  unfold trace. cbn [run]. rewrite E.
  destruct (run step _ sched2) as [s2 o2]. reflexivity.
Qed.

(* ---------------- callbacks ---------------- *)
Definition cstate_of (s : st) (c : conn) : cstate :=
  match nth_error (conns s) c with Some cs => cs | None => CNew end.

Lemma callbacks_app : forall c a b, callbacks c (a ++ b) = callbacks c a ++ callbacks c b.
Proof.
  induction a as [|x a IH]; intros b; simpl; auto.
  destruct x; simpl; try (destruct (Nat.eqb c0 c); simpl); now rewrite ?IH.
Qed.

Lemma cb_run_app : forall a b s,
  cb_run s (a ++ b) = match cb_run s a with Some s1 => cb_run s1 b | None => None end.
Proof.
  induction a as [|x a IH]; intros b s; simpl; auto.
  destruct x as [k e|k].
  - destruct s; auto.
    destruct (e =? 0); auto. destruct (e =? 1); auto. destruct ((e =? 2) && (k =? 0)); auto.
  - destruct s; auto; destruct (k =? _); auto.
Qed.

Lemma cstate_of_set_eq : forall s c x rg n,
  (c < length (conns s))%nat ->
  cstate_of {| reg := rg; conns := set_nth c x (conns s); ncall := n |} c = x.
Proof.
  intros s c x rg n H. unfold cstate_of; simpl.
  destruct (nth_error (conns s) c) eqn:E.
  - now erewrite nth_error_set_nth_eq by eauto.
  - apply nth_error_None in E. lia.
Qed.

Lemma cstate_of_set_neq : forall s c c' x rg n, c <> c' ->
  cstate_of {| reg := rg; conns := set_nth c x (conns s); ncall := n |} c' = cstate_of s c'.
Proof.
  intros. unfold cstate_of; simpl. now rewrite nth_error_set_nth_neq.
Qed.

Lemma callbacks_step : forall s ch s' o c,
  step s ch = Some (s', o) ->
  cb_run (cstate_of s c) (callbacks c o) = Some (cstate_of s' c).
Proof.
  intros s ch s' o c E. unfold step in E. destruct ch as [|c0 k|c0|c0|c0|k]; simpl in E.
  - inversion E; subst; simpl. f_equal. unfold cstate_of; simpl.
    destruct (nth_error (conns s) c) eqn:En.
    + now erewrite nth_error_snoc_keep by eauto.
    + apply nth_error_None in En.
      rewrite nth_error_app2 by assumption.
      destruct (c - length (conns s))%nat as [|[|n]]; reflexivity.
  - destruct (nth_error (conns s) c0) as [[| | |]|] eqn:Ec; try discriminate.
    assert (Hlt : (c0 < length (conns s))%nat) by (apply nth_error_Some; congruence).
    destruct (lookup k (reg s)); inversion E; subst; clear E; simpl;
      (destruct (Nat.eqb c0 c) eqn:Eq;
       [apply Nat.eqb_eq in Eq; subst; simpl; unfold cstate_of at 1; rewrite Ec; simpl;
        now rewrite cstate_of_set_eq
       |apply Nat.eqb_neq in Eq; simpl; now rewrite cstate_of_set_neq]).
  - destruct (nth_error (conns s) c0) as [[| | |]|] eqn:Ec; inversion E; subst; clear E; simpl.
    destruct (Nat.eqb c0 c) eqn:Eq; simpl; auto.
    apply Nat.eqb_eq in Eq; subst. unfold cstate_of; now rewrite Ec.
  - destruct (nth_error (conns s) c0) as [[| | |]|]; inversion E; subst; reflexivity.
  - destruct (nth_error (conns s) c0) as [cs|] eqn:Ec; try discriminate.
    assert (Hlt : (c0 < length (conns s))%nat) by (apply nth_error_Some; congruence).
    assert (Hcs : cs <> CDone) by (intros ->; discriminate).
    assert (E' : s' = {| reg := leave_reg true cs (reg s); conns := set_nth c0 CDone (conns s); ncall := ncall s |}
                 /\ o = [OLeave c0 (ckey cs)])
      by (destruct cs; inversion E; auto; congruence).
    destruct E' as [-> ->]. simpl.
    destruct (Nat.eqb c0 c) eqn:Eq.
    + apply Nat.eqb_eq in Eq; subst. rewrite cstate_of_set_eq by auto.
      unfold cstate_of; rewrite Ec.
      destruct cs; simpl; rewrite ?N.eqb_refl; auto; congruence.
    + apply Nat.eqb_neq in Eq. simpl. now rewrite cstate_of_set_neq.
  - destruct (lookup k (reg s)); inversion E; subst; reflexivity.
Qed.

Lemma callbacks_ok : forall sched c,
  cb_run CNew (callbacks c (trace step init sched)) = Some (cstate_of (final step init sched) c).
Proof.
  intros sched c.
  apply (run_invariant_all _ _ _ step
           (fun s tr => cb_run CNew (callbacks c tr) = Some (cstate_of s c))).
  - intros s tr ch s' o HI E. rewrite callbacks_app, cb_run_app, HI.
    eapply callbacks_step; eauto.
  - simpl. unfold cstate_of; simpl. now destruct c.
Qed.

(* what a complete life looks like *)
Definition invalids (n : nat) : list cb := repeat (CbJoin 0 2) n.

Lemma cb_run_done_stuck : forall l, cb_run CDone l = Some CDone -> l = [].
Proof. destruct l as [|[k e|k] l]; simpl; auto; discriminate. Qed.

Lemma cb_shape_from_new : forall l, cb_run CNew l = Some CDone ->
  exists n,
    l = invalids n ++ [CbLeave 0] \/
    (exists k, l = invalids n ++ [CbJoin k 0; CbLeave k]) \/
    (exists k, l = invalids n ++ [CbJoin k 1; CbLeave 0]).
Proof.
  induction l as [|x l IH]; simpl; intros H; try discriminate.
  destruct x as [k e|k].
  - destruct (e =? 0) eqn:E0.
    + apply N.eqb_eq in E0; subst.
      destruct l as [|[k2 e2|k2] l]; simpl in H; try discriminate.
      destruct (k2 =? k) eqn:Ek; try discriminate. apply N.eqb_eq in Ek; subst.
      apply cb_run_done_stuck in H; subst.
      exists 0%nat. right; left. now exists k.
    + destruct (e =? 1) eqn:E1.
      * apply N.eqb_eq in E1; subst.
        destruct l as [|[k2 e2|k2] l]; simpl in H; try discriminate.
        destruct (k2 =? 0) eqn:Ek; try discriminate. apply N.eqb_eq in Ek; subst.
        apply cb_run_done_stuck in H; subst.
        exists 0%nat. right; right. now exists k.
      * destruct ((e =? 2) && (k =? 0)) eqn:E2; try discriminate.
        apply andb_true_iff in E2 as [E2 E3]. apply N.eqb_eq in E2, E3; subst.
        destruct (IH H) as [n [Hl|[[k Hl]|[k Hl]]]]; subst; exists (S n); simpl.
        -- now left.
        -- right; left; now exists k.
        -- right; right; now exists k.
  - simpl in H. destruct (k =? 0) eqn:Ek; try discriminate. apply N.eqb_eq in Ek; subst.
    apply cb_run_done_stuck in H; subst. exists 0%nat. now left.
Qed.

Lemma callbacks_complete : forall sched c,
  nth_error (conns (final step init sched)) c = Some CDone ->
  exists n,
    callbacks c (trace step init sched) = invalids n ++ [CbLeave 0] \/
    (exists k, callbacks c (trace step init sched) = invalids n ++ [CbJoin k 0; CbLeave k]) \/
    (exists k, callbacks c (trace step init sched) = invalids n ++ [CbJoin k 1; CbLeave 0]).
Proof.
  intros sched c H. apply cb_shape_from_new.
  rewrite callbacks_ok. unfold cstate_of. now rewrite H.
Qed.

(* while a connection that joined with k is still live: announced exactly once, no leave yet *)
Lemma cb_shape_joined : forall l k, cb_run CNew l = Some (CJoined k) ->
  exists n, l = invalids n ++ [CbJoin k 0].
Proof.
  induction l as [|x l IH]; simpl; intros k H; try discriminate.
  destruct x as [k1 e|k1].
  - destruct (e =? 0) eqn:E0.
    + apply N.eqb_eq in E0; subst.
      destruct l as [|[k2 e2|k2] l]; simpl in H.
      * inversion H; subst. now exists 0%nat.
      * discriminate.
      * destruct (k2 =? k1); try discriminate.
        destruct l as [|[?|?] ?]; simpl in H; discriminate.
    + destruct (e =? 1) eqn:E1.
      * destruct l as [|[k2 e2|k2] l]; simpl in H; try discriminate.
        destruct (k2 =? 0); try discriminate.
        destruct l as [|[?|?] ?]; simpl in H; discriminate.
      * destruct ((e =? 2) && (k1 =? 0)) eqn:E2; try discriminate.
        apply andb_true_iff in E2 as [E2 E3]. apply N.eqb_eq in E2, E3; subst.
        destruct (IH _ H) as [n ->]. now exists (S n).
  - destruct (k1 =? 0); try discriminate.
    destruct l as [|[?|?] ?]; simpl in H; discriminate.
Qed.

Lemma callbacks_joined : forall sched c k,
  owner (final step init sched) c k ->
  exists n, callbacks c (trace step init sched) = invalids n ++ [CbJoin k 0].
Proof.
  intros sched c k H. apply cb_shape_joined.
  rewrite callbacks_ok. unfold cstate_of. unfold owner in H. now rewrite H.
Qed.

(* ---------------- the hypothesis is needed, and it is satisfiable ---------------- *)
(* with KeyFunc yielding "" a connection that never joined evicts the owner of "" when it ends *)
(* the code before fix 8f7d690 ([step_before_fix]: every ending connection called leave(c.key)): a connection
   that never joined evicted the owner of the empty key; the code as it is keeps it *)
Lemma empty_key_evicted_before_fix :
  let s := final step_before_fix init [Connect; Connect; FirstMsg 0%nat 0; Stop 1%nat] in
  nth_error (conns s) 0%nat = Some (CJoined 0) /\ lookup 0 (reg s) = None.
Proof. vm_compute. split; reflexivity. Qed.

Lemma empty_key_kept :
  let s := final step init [Connect; Connect; FirstMsg 0%nat 0; Stop 1%nat] in
  nth_error (conns s) 0%nat = Some (CJoined 0) /\ lookup 0 (reg s) = Some 0%nat.
Proof. vm_compute. split; reflexivity. Qed.

(* a refused connection can do one thing only: end *)
Definition targets (ch : choice) (c : conn) : Prop :=
  match ch with
  | FirstMsg c' _ | BadKeyMsg c' | Msg c' | Stop c' => c' = c
  | _ => False
  end.

Lemma refused_only_stops : forall s c ch s' o,
  nth_error (conns s) c = Some CRefused -> targets ch c -> step s ch = Some (s', o) ->
  ch = Stop c /\ o = [OLeave c 0] /\ reg s' = reg s.
Proof.
  intros s c ch s' o Hn Ht E. unfold step, step_v in E.
  destruct ch as [|c' k|c'|c'|c'|k]; simpl in Ht; try contradiction; subst c'; rewrite Hn in E; try discriminate.
  inversion E; subst. auto.
Qed.

Lemma explains_run : forall ops s o, explains s ops = Some o -> run step s ops = (final step s ops, o).
Proof.
  induction ops as [|c t IH]; intros s o H; simpl in *.
  - inversion H; reflexivity.
  - unfold final; simpl. destruct (step s c) as [[s' o1]|]; try discriminate.
    destruct (explains s' t) as [o2|] eqn:E; try discriminate. inversion H; subst.
    rewrite (IH _ _ E). reflexivity.
Qed.

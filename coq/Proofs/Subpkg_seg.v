(* Composition of the sub-package reassembler with the stream splitter (C05_segmentation):
   however a stream of valid frames is cut into reads, parse delivers exactly what processing the
   frames' messages one by one delivers. *)
From Coq Require Import ZArith ZifyN ZifyNat ZifyBool Lia.
From JT.Base Require Import Prelude PreludeP.
From JT.Model Require Import Frame Unpack Subpkg.
From JT.Proofs Require Import Unpack_proofs Subpkg_proofs.
Ltac Zify.zify_post_hook ::= Z.div_mod_to_equations.

Lemma fresh_remove now id s : fresh now s -> fresh now (remove id s).
Proof.
  unfold fresh. induction s as [|[k v] s IH]; intros H; cbn [remove]; auto.
  inversion H as [|x l Hx Hl]; subst. destruct (k =? id); auto.
Qed.

Lemma fresh_put now id v s : fresh now s ->
  (x_create v + 60000 <? now) = false -> (x_update v + 5000 <? now) = false -> fresh now (put id v s).
Proof. intros H A B. unfold put. constructor; auto. now apply fresh_remove. Qed.

Lemma fresh_find now id s x : fresh now s -> find id s = Some x ->
  (x_create x + 60000 <? now) = false /\ (x_update x + 5000 <? now) = false.
Proof.
  unfold fresh. induction s as [|[k v] s IH]; intros H F; cbn [find] in F. discriminate.
  inversion H as [|y l Hy Hl]; subst. destruct (k =? id). injection F as <-. exact Hy. auto.
Qed.

Lemma now_fresh now k : (now + k <? now) = false.
Proof. apply N.ltb_ge. lia. Qed.

Lemma fresh_complete_pack now s m : fresh now s -> fresh now (fst (complete_pack now s m)).
Proof.
  intros H. unfold complete_pack.
  destruct (m_sum m =? 0); auto.
  set (s1 := if m_no m =? 1 then put (m_id m) (new_xfer now m) s else s).
  assert (fresh now s1) as H1.
  { unfold s1. destruct (m_no m =? 1); auto. apply fresh_put; auto; cbn [new_xfer x_create x_update]; apply now_fresh. }
  destruct (find (m_id m) s1) as [x|] eqn:F; auto.
  destruct ((m_no m <? 1) || (len (x_slots x) <? m_no m)); auto.
  destruct (received _ =? m_sum m); cbn [fst].
  - now apply fresh_remove.
  - apply fresh_put; auto; cbn [x_create x_update]. apply (fresh_find _ _ _ _ H1 F). apply now_fresh.
Qed.

Lemma fresh_cp_loop now ms : forall s, fresh now s -> fresh now (fst (cp_loop now s ms)).
Proof.
  induction ms as [|[raw m] t IH]; intros s H; cbn [cp_loop]; auto.
  pose proof (fresh_complete_pack now s m H) as H1.
  destruct (complete_pack now s m) as [s1 r]. cbn [fst] in H1.
  specialize (IH s1 H1). destruct (cp_loop now s1 t) as [s2 rest]. exact IH.
Qed.

Lemma supplementary_fresh now s : fresh now s -> supplementary now s = (s, []).
Proof.
  unfold fresh. induction s as [|[k v] s IH]; intros H; cbn [supplementary]; auto.
  inversion H as [|y l Hy Hl]; subst. rewrite (IH Hl). cbn [snd] in Hy. destruct Hy as [_ ->]. reflexivity.
Qed.

Lemma delete_timeout_fresh now s : fresh now s -> delete_timeout now s = s.
Proof.
  unfold fresh, delete_timeout. induction s as [|[k v] s IH]; intros H; cbn [filter]; auto.
  inversion H as [|y l Hy Hl]; subst. cbn [snd] in *. destruct Hy as [-> _]. cbn [negb]. now rewrite IH.
Qed.

Lemma housekeeping_fresh now s : fresh now s -> housekeeping now s = (s, []).
Proof.
  intros H. unfold housekeeping. destruct s as [|kv s]; auto.
  rewrite (delete_timeout_fresh _ _ H). now apply supplementary_fresh.
Qed.

Lemma cp_loop_app now l1 : forall s l2,
  cp_loop now s (l1 ++ l2) =
  (fst (cp_loop now (fst (cp_loop now s l1)) l2), snd (cp_loop now s l1) ++ snd (cp_loop now (fst (cp_loop now s l1)) l2)).
Proof.
  induction l1 as [|[raw m] t IH]; intros s l2; cbn [app cp_loop].
  - cbn [fst snd app]. now destruct (cp_loop now s l2).
  - destruct (complete_pack now s m) as [s1 r]. rewrite IH.
    destruct (cp_loop now s1 t) as [s2 rest]. cbn [fst snd].
    destruct (cp_loop now s2 l2) as [s3 rest2]. cbn [fst snd]. now rewrite app_assoc.
Qed.

(* one parse call on a read that completes the frames fs1 and leaves the partial r1 *)
Lemma parse_frames now st d fs1 r1 : Forall vframe fs1 -> partial r1 -> fresh now (ps_x st) ->
  ps_hist st ++ d = concat fs1 ++ r1 ->
  parse now st d = ({| ps_hist := r1; ps_x := fst (cp_loop now (ps_x st) (map decode_ok fs1)) |},
                    snd (cp_loop now (ps_x st) (map decode_ok fs1)), None).
Proof.
  intros Hfs Hr Hf H. unfold parse. rewrite (unpack_frames _ _ _ _ Hfs Hr H). cbn [u_msgs u_hist u_err].
  rewrite (delete_timeout_fresh _ _ Hf).
  pose proof (fresh_cp_loop now (map decode_ok fs1) _ Hf) as Hf1.
  destruct (cp_loop now (ps_x st) (map decode_ok fs1)) as [s1 outs]. cbn [fst snd] in *.
  rewrite (housekeeping_fresh _ _ Hf1). cbn [map]. now rewrite app_nil_r.
Qed.

Lemma feed_all_frames chunks : forall now st fs r,
  Forall vframe fs -> partial (ps_hist st) -> partial r -> fresh now (ps_x st) ->
  ps_hist st ++ concat chunks = concat fs ++ r ->
  feed_all now st chunks = (snd (cp_loop now (ps_x st) (map decode_ok fs)), repeat None (length chunks)).
Proof.
  induction chunks as [|c cs IH]; intros now st fs r Hfs Hh Hr Hf H.
  - cbn [concat] in H. rewrite app_nil_r in H.
    assert (fs = []) as -> by (eapply partial_frames_nil; eauto; now rewrite <- H).
    reflexivity.
  - cbn [concat] in H. rewrite app_assoc in H.
    destruct (split_stream fs (ps_hist st ++ c) (concat cs) r Hfs Hr H) as (fs1 & fs2 & r1 & -> & Hp & Hr1 & Hq & _).
    apply Forall_app in Hfs. destruct Hfs as [Hfs1 Hfs2].
    unfold feed_all. cbn [map run_script]. rewrite (parse_frames now st c fs1 r1 Hfs1 Hr1 Hf Hp). cbn [fst snd map concat length repeat].
    set (st1 := {| ps_hist := r1; ps_x := fst (cp_loop now (ps_x st) (map decode_ok fs1)) |}).
    specialize (IH now st1 fs2 r Hfs2 Hr1 Hr (fresh_cp_loop _ _ _ Hf) Hq).
    unfold feed_all in IH. injection IH as IH1 IH2. rewrite IH1, IH2.
    rewrite map_app, cp_loop_app. reflexivity.
Qed.

Theorem segmentation_subpkg : forall fs chunks now, Forall vframe fs -> concat chunks = concat fs ->
  feed_all now pst0 chunks = (snd (cp_loop now [] (map decode_ok fs)), repeat None (length chunks)).
Proof.
  intros fs chunks now Hfs H.
  apply (feed_all_frames chunks now pst0 fs []); auto; try apply partial_nil.
  constructor. cbn [pst0 ps_hist app]. now rewrite app_nil_r.
Qed.


(* ================= reads spread over time ================= *)
(* two transfer tables with the same ids in the same order and the same slot contents (time
   stamps and first headers may differ): completePack cannot tell them apart *)
Definition same_slots (s s' : pstate) : Prop :=
  Forall2 (fun a b => fst a = fst b /\ x_slots (snd a) = x_slots (snd b)) s s'.

Lemma ss_refl s : same_slots s s.
Proof. induction s; constructor; auto. Qed.

Lemma ss_trans a b c : same_slots a b -> same_slots b c -> same_slots a c.
Proof.
  intros H. revert c. induction H as [|x y a b [H1 H2] H IH]; intros c Hc; inversion Hc as [|y' z b' c' [G1 G2] G]; subst; constructor.
  split; congruence. now apply IH.
Qed.

Lemma ss_find id s s' : same_slots s s' ->
  match find id s, find id s' with
  | Some x, Some x' => x_slots x = x_slots x'
  | None, None => True
  | _, _ => False
  end.
Proof.
  intros H. induction H as [|[k v] [k' v'] s s' [H1 H2] H IH]; cbn [find]; auto.
  cbn [fst snd] in *. subst k'. destruct (k =? id); auto.
Qed.

Lemma ss_remove id s s' : same_slots s s' -> same_slots (remove id s) (remove id s').
Proof.
  intros H. induction H as [|[k v] [k' v'] s s' [H1 H2] H IH]; cbn [remove]. constructor.
  cbn [fst snd] in *. subst k'. destruct (k =? id); auto. constructor; auto.
Qed.

Lemma ss_put id v v' s s' : x_slots v = x_slots v' -> same_slots s s' -> same_slots (put id v s) (put id v' s').
Proof. intros Hv H. unfold put. constructor; auto. now apply ss_remove. Qed.

Lemma ss_complete_pack now now' s s' m : same_slots s s' ->
  same_slots (fst (complete_pack now s m)) (fst (complete_pack now' s' m)) /\
  snd (complete_pack now s m) = snd (complete_pack now' s' m).
Proof.
  intros H. unfold complete_pack. destruct (m_sum m =? 0); auto.
  set (s1 := if m_no m =? 1 then put (m_id m) (new_xfer now m) s else s).
  set (s1' := if m_no m =? 1 then put (m_id m) (new_xfer now' m) s' else s').
  assert (same_slots s1 s1') as H1.
  { unfold s1, s1'. destruct (m_no m =? 1); auto. apply ss_put; auto. }
  pose proof (ss_find (m_id m) s1 s1' H1) as F.
  destruct (find (m_id m) s1) as [x|]; destruct (find (m_id m) s1') as [x'|]; try contradiction; auto.
  rewrite <- F. destruct ((m_no m <? 1) || (len (x_slots x) <? m_no m)); auto.
  destruct (received _ =? m_sum m); cbn [fst snd].
  - split; auto. now apply ss_remove.
  - split; auto. apply ss_put; auto.
Qed.

Lemma ss_cp_loop now now' ms : forall s s', same_slots s s' ->
  same_slots (fst (cp_loop now s ms)) (fst (cp_loop now' s' ms)) /\
  snd (cp_loop now s ms) = snd (cp_loop now' s' ms).
Proof.
  induction ms as [|[raw m] t IH]; intros s s' H; cbn [cp_loop]; auto.
  destruct (ss_complete_pack now now' s s' m H) as [H1 H2].
  destruct (complete_pack now s m) as [s1 r]. destruct (complete_pack now' s' m) as [s1' r']. cbn [fst snd] in *. subst r'.
  destruct (IH s1 s1' H1) as [H3 H4].
  destruct (cp_loop now s1 t) as [s2 rest]. destruct (cp_loop now' s1' t) as [s2' rest']. cbn [fst snd] in *.
  split; auto. now rewrite H4.
Qed.

Lemma ss_supplementary now s : same_slots s (fst (supplementary now s)).
Proof.
  induction s as [|[k v] s IH]; cbn [supplementary]. constructor.
  destruct (supplementary now s) as [t' rs]. cbn [fst] in IH.
  destruct (x_update v + 5000 <? now); cbn [fst]; constructor; auto.
Qed.

Lemma parse_timed_frames now st d fs1 r1 : Forall vframe fs1 -> partial r1 ->
  ps_hist st ++ d = concat fs1 ++ r1 ->
  delete_timeout now (ps_x st) = ps_x st ->
  delete_timeout now (fst (cp_loop now (ps_x st) (map decode_ok fs1))) = fst (cp_loop now (ps_x st) (map decode_ok fs1)) ->
  exists rrs, parse now st d =
    ({| ps_hist := r1; ps_x := fst (housekeeping now (fst (cp_loop now (ps_x st) (map decode_ok fs1)))) |},
     snd (cp_loop now (ps_x st) (map decode_ok fs1)) ++ map rereq_pmsg rrs, None) /\
    same_slots (fst (cp_loop now (ps_x st) (map decode_ok fs1)))
               (fst (housekeeping now (fst (cp_loop now (ps_x st) (map decode_ok fs1))))).
Proof.
  intros Hfs Hr H Hd0. unfold parse. rewrite (unpack_frames _ _ _ _ Hfs Hr H). cbn [u_msgs u_hist u_err].
  rewrite Hd0.
  destruct (cp_loop now (ps_x st) (map decode_ok fs1)) as [s1 outs]. cbn [fst snd]. intros Hd.
  destruct (housekeeping now s1) as [s2 rrs] eqn:Hk. exists rrs. split; auto. cbn [fst].
  unfold housekeeping in Hk. destruct s1 as [|kv s1]. injection Hk as <- <-. constructor.
  rewrite Hd in Hk. replace s2 with (fst (supplementary now (kv :: s1))) by now rewrite Hk. apply ss_supplementary.
Qed.

Lemma feed_timed_frames reads : forall st sref fs r,
  Forall vframe fs -> partial (ps_hist st) -> partial r -> same_slots (ps_x st) sref -> no_expiry st reads ->
  ps_hist st ++ concat (map snd reads) = concat fs ++ r ->
  concat (owns_timed st reads) = snd (cp_loop 0 sref (map decode_ok fs)) /\
  Forall (fun x => snd x = None) (feed_timed st reads) /\
  Forall2 (fun x own => exists rrs, snd (fst x) = own ++ map rereq_pmsg rrs) (feed_timed st reads) (owns_timed st reads).
Proof.
  induction reads as [|[now c] cs IH]; intros st sref fs r Hfs Hh Hr Hs Hn H.
  - cbn [map concat] in H. rewrite app_nil_r in H.
    assert (fs = []) as -> by (eapply partial_frames_nil; eauto; now rewrite <- H).
    cbn [owns_timed feed_timed concat map cp_loop snd]. auto.
  - cbn [map concat snd] in H. rewrite app_assoc in H.
    destruct (split_stream fs (ps_hist st ++ c) (concat (map snd cs)) r Hfs Hr H) as (fs1 & fs2 & r1 & -> & Hp & Hr1 & Hq & _).
    apply Forall_app in Hfs. destruct Hfs as [Hfs1 Hfs2].
    cbn [no_expiry] in Hn. rewrite (unpack_frames _ _ _ _ Hfs1 Hr1 Hp) in Hn. cbn [u_msgs] in Hn. destruct Hn as (Hd0 & Hd & Hn).
    destruct (parse_timed_frames now st c fs1 r1 Hfs1 Hr1 Hp Hd0 Hd) as (rrs & Hparse & Hss).
    cbn [owns_timed feed_timed]. rewrite (unpack_frames _ _ _ _ Hfs1 Hr1 Hp). cbn [u_msgs]. rewrite Hd0.
    rewrite Hparse in *. cbn [fst snd] in *.
    destruct (ss_cp_loop now 0 (map decode_ok fs1) (ps_x st) sref Hs) as [Hs1 Ho1].
    set (st1 := {| ps_hist := r1; ps_x := fst (housekeeping now (fst (cp_loop now (ps_x st) (map decode_ok fs1)))) |}) in *.
    destruct (IH st1 (fst (cp_loop 0 sref (map decode_ok fs1))) fs2 r Hfs2 Hr1 Hr) as (A & B & C); auto.
    { cbn [st1 ps_x]. eapply ss_trans; [|exact Hs1].
      (* same_slots is symmetric on this pair: go through s1 *)
      clear -Hss. set (a := fst (cp_loop now (ps_x st) (map decode_ok fs1))) in *.
      induction Hss as [|x y l l' [E1 E2] Hl IHl]; constructor; auto. }
    split; [|split].
    + cbn [concat]. rewrite A, map_app, cp_loop_app. cbn [snd]. now rewrite Ho1.
    + constructor; auto.
    + constructor; auto. exists rrs. reflexivity.
Qed.

Theorem segmentation_timed : forall fs reads, Forall vframe fs -> concat (map snd reads) = concat fs ->
  no_expiry pst0 reads ->
  concat (owns_timed pst0 reads) = snd (cp_loop 0 [] (map decode_ok fs)) /\
  Forall (fun x => snd x = None) (feed_timed pst0 reads) /\
  Forall2 (fun x own => exists rrs, snd (fst x) = own ++ map rereq_pmsg rrs) (feed_timed pst0 reads) (owns_timed pst0 reads).
Proof.
  intros fs reads Hfs H Hn.
  apply (feed_timed_frames reads pst0 [] fs []); auto; try apply partial_nil. constructor.
  cbn [pst0 ps_hist app]. now rewrite app_nil_r.
Qed.

(* a sufficient condition for no_expiry: the whole history lies within 60 s *)
Definition created_after (t0 : N) (s : pstate) : Prop := Forall (fun kv => t0 <= x_create (snd kv)) s.

Lemma ca_remove t0 id s : created_after t0 s -> created_after t0 (remove id s).
Proof.
  unfold created_after. induction s as [|[k v] s IH]; intros H; cbn [remove]; auto.
  inversion H as [|x l Hx Hl]; subst. destruct (k =? id); auto.
Qed.

Lemma ca_find t0 id s x : created_after t0 s -> find id s = Some x -> t0 <= x_create x.
Proof.
  unfold created_after. induction s as [|[k v] s IH]; intros H F; cbn [find] in F. discriminate.
  inversion H as [|y l Hy Hl]; subst. destruct (k =? id). injection F as <-. exact Hy. auto.
Qed.

Lemma ca_complete_pack t0 now s m : t0 <= now -> created_after t0 s -> created_after t0 (fst (complete_pack now s m)).
Proof.
  intros Hn H. unfold complete_pack. destruct (m_sum m =? 0); auto.
  set (s1 := if m_no m =? 1 then put (m_id m) (new_xfer now m) s else s).
  assert (created_after t0 s1) as H1.
  { unfold s1. destruct (m_no m =? 1); auto. unfold put. constructor. exact Hn. now apply ca_remove. }
  destruct (find (m_id m) s1) as [x|] eqn:F; auto.
  destruct ((m_no m <? 1) || (len (x_slots x) <? m_no m)); auto.
  destruct (received _ =? m_sum m); cbn [fst].
  - now apply ca_remove.
  - unfold put. constructor. cbn [snd x_create]. eapply ca_find; eauto. now apply ca_remove.
Qed.

Lemma ca_cp_loop t0 now ms : forall s, t0 <= now -> created_after t0 s -> created_after t0 (fst (cp_loop now s ms)).
Proof.
  induction ms as [|[raw m] t IH]; intros s Hn H; cbn [cp_loop]; auto.
  pose proof (ca_complete_pack t0 now s m Hn H) as H1.
  destruct (complete_pack now s m) as [s1 r]. cbn [fst] in H1.
  specialize (IH s1 Hn H1). destruct (cp_loop now s1 t) as [s2 rest]. exact IH.
Qed.

Lemma ca_supplementary t0 now s : created_after t0 s -> created_after t0 (fst (supplementary now s)).
Proof.
  unfold created_after. induction s as [|[k v] s IH]; intros H; cbn [supplementary]. constructor.
  inversion H as [|y l Hy Hl]; subst. specialize (IH Hl). destruct (supplementary now s) as [t' rs]. cbn [fst] in IH.
  destruct (x_update v + 5000 <? now); cbn [fst]; constructor; auto.
Qed.

Lemma ca_no_delete t0 now s : created_after t0 s -> now <= t0 + 60000 -> delete_timeout now s = s.
Proof.
  unfold created_after, delete_timeout. induction s as [|[k v] s IH]; intros H Hn; cbn [filter]; auto.
  inversion H as [|y l Hy Hl]; subst. cbn [snd] in *.
  replace (x_create v + 60000 <? now) with false by (symmetry; apply N.ltb_ge; lia). cbn [negb]. now rewrite IH.
Qed.

Lemma ca_housekeeping t0 now s : created_after t0 s -> now <= t0 + 60000 -> created_after t0 (fst (housekeeping now s)).
Proof.
  intros H Hn. unfold housekeeping. destruct s as [|kv s]; auto.
  rewrite (ca_no_delete _ _ _ H Hn). now apply ca_supplementary.
Qed.

Lemma no_expiry_from t0 reads : forall st, created_after t0 (ps_x st) ->
  Forall (fun r => t0 <= fst r /\ fst r <= t0 + 60000) reads -> no_expiry st reads.
Proof.
  induction reads as [|[now d] t IH]; intros st H F; cbn [no_expiry]; auto.
  inversion F as [|x l [Hx1 Hx2] Hl]; subst. cbn [fst] in *.
  pose proof (ca_cp_loop t0 now (u_msgs (unpack (ps_hist st) d)) _ Hx1 H) as H1.
  pose proof (ca_no_delete t0 now _ H Hx2) as Hd0.
  split. exact Hd0. split. now apply (ca_no_delete t0).
  apply IH; auto. unfold parse. rewrite Hd0.
  destruct (cp_loop now (ps_x st) (u_msgs (unpack (ps_hist st) d))) as [s1 outs]. cbn [fst] in H1.
  pose proof (ca_housekeeping t0 now s1 H1 Hx2) as H2.
  destruct (housekeeping now s1) as [s2 rrs]. cbn [fst ps_x] in *. exact H2.
Qed.

Theorem no_expiry_span : forall t0 reads,
  Forall (fun r => t0 <= fst r /\ fst r <= t0 + 60000) reads -> no_expiry pst0 reads.
Proof. intros t0 reads F. apply (no_expiry_from t0); auto. constructor. Qed.

(* the completed messages parse delivers are the completions of the message-level machine, whose
   message events each begin with the expiry pass: within one read that pass acts at most once *)
Theorem cp_loop_is_run now ms : forall s, delete_timeout now s = s ->
  fst (cp_loop now s ms) = fst (run s (map (fun rm => (now, EvMsg (snd rm))) ms)) /\
  completed_msgs (snd (cp_loop now s ms)) = completed_outs (snd (run s (map (fun rm => (now, EvMsg (snd rm))) ms))).
Proof.
  assert (Hy : forall s, delete_timeout now s = s <-> created_after (now - 60000) s).
  { intros s. split.
    - unfold created_after, delete_timeout. induction s as [|[k v] s IH]; cbn [filter]; intros H. constructor.
      cbn [snd] in H. destruct (x_create v + 60000 <? now) eqn:E; cbn [negb] in H.
      + exfalso. pose proof (filter_length_le (fun kv : N * xfer => negb (x_create (snd kv) + 60000 <? now)) s) as L.
        rewrite H in L. cbn [length] in L. lia.
      + injection H as H. constructor; auto. cbn [snd]. apply N.ltb_ge in E. lia.
    - intros H. apply (ca_no_delete (now - 60000)); auto. lia. }
  induction ms as [|[raw m] t IH]; intros s Hs; cbn [map cp_loop run snd]. split; reflexivity.
  cbn [step]. rewrite Hs.
  assert (delete_timeout now (fst (complete_pack now s m)) = fst (complete_pack now s m)) as Hs1.
  { apply Hy. apply ca_complete_pack. lia. now apply Hy. }
  destruct (complete_pack now s m) as [s1 r]. cbn [fst] in Hs1. specialize (IH s1 Hs1).
  destruct (cp_loop now s1 t) as [s2 rest]. destruct (run s1 _) as [s2' os]. cbn [fst snd] in *.
  destruct IH as [-> IH2]. split; auto.
  destruct r as [data|]; unfold completed_msgs in *; cbn [app filter p_complete map completed_outs p_msg set_body m_id m_body];
    now rewrite IH2.
Qed.

(* the bookkeeping is the identity on unfragmented traffic: every message is delivered as it is,
   nothing is completed, the transfer table is untouched *)
Lemma cp_loop_unfragmented now ms : forall s, Forall (fun rm => m_sum (snd rm) = 0) ms ->
  cp_loop now s ms = (s, map (fun rm => {| p_raw := fst rm; p_msg := snd rm; p_complete := false |}) ms).
Proof.
  induction ms as [|[raw m] t IH]; intros s H; cbn [cp_loop map]. reflexivity.
  inversion H as [|x l Hx Hl]; subst. cbn [snd fst] in *.
  unfold complete_pack. rewrite Hx. cbn [N.eqb]. rewrite (IH s Hl). reflexivity.
Qed.

(* a decoded frame without the fragment bit announces no total *)
Lemma decode_unfragmented_sum d m : decode d = Ok m -> m_frag m = 0 -> m_sum m = 0.
Proof.
  unfold decode. destruct (unescape d) as [p| |]; cbn [bind]; try discriminate.
  destruct (negb (xor_all p =? 0)); [discriminate|]. destruct (len p <? 4); [discriminate|].
  destruct (len p <? _); [discriminate|]. destruct (_ && _); [discriminate|]. destruct (negb _); [discriminate|].
  intros H. apply (f_equal (fun r => match r with Ok x => x | _ => m end)) in H. cbv beta iota in H. rewrite <- H.
  cbn [m_frag m_sum]. intros ->. reflexivity.
Qed.

(* parse level: with no transfer pending, a read whose extracted messages are all unfragmented
   delivers exactly unpack's messages (as plain deliveries), returns unpack's error and leaves the
   transfer table empty: expiry pass, loop and housekeeping are all the identity *)
Lemma parse_unfragmented now st d : ps_x st = [] ->
  Forall (fun rm => m_sum (snd rm) = 0) (u_msgs (unpack (ps_hist st) d)) ->
  parse now st d =
  ({| ps_hist := u_hist (unpack (ps_hist st) d); ps_x := [] |},
   map (fun rm => {| p_raw := fst rm; p_msg := snd rm; p_complete := false |}) (u_msgs (unpack (ps_hist st) d)),
   u_err (unpack (ps_hist st) d)).
Proof.
  intros Hx H. unfold parse. rewrite Hx. change (delete_timeout now []) with (@nil (N * xfer)).
  rewrite (cp_loop_unfragmented now _ [] H). cbn [housekeeping map]. now rewrite app_nil_r.
Qed.

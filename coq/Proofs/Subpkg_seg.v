(* Composition of the sub-package reassembler with the stream splitter (C05_segmentation):
   however a stream of valid frames is cut into reads, parse delivers exactly what processing the
   frames' messages one by one delivers. *)
From Coq Require Import ZArith ZifyN ZifyNat ZifyBool Lia.
From JT.Base Require Import Prelude PreludeP.
From JT.Model Require Import Frame Unpack Subpkg.
From JT.Proofs Require Import Unpack_proofs Subpkg_proofs.
Ltac Zify.zify_post_hook ::= Z.div_mod_to_equations.

Lemma fresh_remove now id s : fresh now s -> fresh now (remove id s).
Proof.
  unfold fresh. induction s as [|[k v] s IH]; intros H; cbn [remove]; auto.
  inversion H as [|x l Hx Hl]; subst. destruct (k =? id); auto.
Qed.

Lemma fresh_put now id v s : fresh now s ->
  (x_create v + 60000 <? now) = false -> (x_update v + 5000 <? now) = false -> fresh now (put id v s).
Proof. intros H A B. unfold put. constructor; auto. now apply fresh_remove. Qed.

Lemma fresh_find now id s x : fresh now s -> find id s = Some x ->
  (x_create x + 60000 <? now) = false /\ (x_update x + 5000 <? now) = false.
Proof.
  unfold fresh. induction s as [|[k v] s IH]; intros H F; cbn [find] in F. discriminate.
  inversion H as [|y l Hy Hl]; subst. destruct (k =? id). injection F as <-. exact Hy. auto.
Qed.

Lemma now_fresh now k : (now + k <? now) = false.
Proof. apply N.ltb_ge. lia. Qed.

Lemma fresh_complete_pack now s m : fresh now s -> fresh now (fst (complete_pack now s m)).
Proof.
  intros H. unfold complete_pack.
  destruct (m_sum m =? 0); auto.
  set (s1 := if m_no m =? 1 then put (m_id m) (new_xfer now m) s else s).
  assert (fresh now s1) as H1.
  { unfold s1. destruct (m_no m =? 1); auto. apply fresh_put; auto; cbn [new_xfer x_create x_update]; apply now_fresh. }
  destruct (find (m_id m) s1) as [x|] eqn:F; auto.
  destruct ((m_no m <? 1) || (len (x_slots x) <? m_no m)); auto.
  destruct (received _ =? m_sum m); cbn [fst].
  - now apply fresh_remove.
  - apply fresh_put; auto; cbn [x_create x_update]. apply (fresh_find _ _ _ _ H1 F). apply now_fresh.
Qed.

Lemma fresh_cp_loop now ms : forall s, fresh now s -> fresh now (fst (cp_loop now s ms)).
Proof.
  induction ms as [|[raw m] t IH]; intros s H; cbn [cp_loop]; auto.
  pose proof (fresh_complete_pack now s m H) as H1.
  destruct (complete_pack now s m) as [s1 r]. cbn [fst] in H1.
  specialize (IH s1 H1). destruct (cp_loop now s1 t) as [s2 rest]. exact IH.
Qed.

Lemma supplementary_fresh now s : fresh now s -> supplementary now s = (s, []).
Proof.
  unfold fresh. induction s as [|[k v] s IH]; intros H; cbn [supplementary]; auto.
  inversion H as [|y l Hy Hl]; subst. rewrite (IH Hl). cbn [snd] in Hy. destruct Hy as [_ ->]. reflexivity.
Qed.

Lemma delete_timeout_fresh now s : fresh now s -> delete_timeout now s = s.
Proof.
  unfold fresh, delete_timeout. induction s as [|[k v] s IH]; intros H; cbn [filter]; auto.
  inversion H as [|y l Hy Hl]; subst. cbn [snd] in *. destruct Hy as [-> _]. cbn [negb]. now rewrite IH.
Qed.

Lemma housekeeping_fresh now s : fresh now s -> housekeeping now s = (s, []).
Proof.
  intros H. unfold housekeeping. destruct s as [|kv s]; auto.
  rewrite (delete_timeout_fresh _ _ H). now apply supplementary_fresh.
Qed.

Lemma cp_loop_app now l1 : forall s l2,
  cp_loop now s (l1 ++ l2) =
  (fst (cp_loop now (fst (cp_loop now s l1)) l2), snd (cp_loop now s l1) ++ snd (cp_loop now (fst (cp_loop now s l1)) l2)).
Proof.
  induction l1 as [|[raw m] t IH]; intros s l2; cbn [app cp_loop].
  - cbn [fst snd app]. now destruct (cp_loop now s l2).
  - destruct (complete_pack now s m) as [s1 r]. rewrite IH.
    destruct (cp_loop now s1 t) as [s2 rest]. cbn [fst snd].
    destruct (cp_loop now s2 l2) as [s3 rest2]. cbn [fst snd]. now rewrite app_assoc.
Qed.

(* one parse call on a read that completes the frames fs1 and leaves the partial r1 *)
Lemma parse_frames now st d fs1 r1 : Forall vframe fs1 -> partial r1 -> fresh now (ps_x st) ->
  ps_hist st ++ d = concat fs1 ++ r1 ->
  parse now st d = ({| ps_hist := r1; ps_x := fst (cp_loop now (ps_x st) (map decode_ok fs1)) |},
                    snd (cp_loop now (ps_x st) (map decode_ok fs1)), None).
Proof.
  intros Hfs Hr Hf H. unfold parse. rewrite (unpack_frames _ _ _ _ Hfs Hr H). cbn [u_msgs u_hist u_err].
  pose proof (fresh_cp_loop now (map decode_ok fs1) _ Hf) as Hf1.
  destruct (cp_loop now (ps_x st) (map decode_ok fs1)) as [s1 outs]. cbn [fst snd] in *.
  rewrite (housekeeping_fresh _ _ Hf1). cbn [map]. now rewrite app_nil_r.
Qed.

Lemma feed_all_frames chunks : forall now st fs r,
  Forall vframe fs -> partial (ps_hist st) -> partial r -> fresh now (ps_x st) ->
  ps_hist st ++ concat chunks = concat fs ++ r ->
  feed_all now st chunks = (snd (cp_loop now (ps_x st) (map decode_ok fs)), repeat None (length chunks)).
Proof.
  induction chunks as [|c cs IH]; intros now st fs r Hfs Hh Hr Hf H.
  - cbn [concat] in H. rewrite app_nil_r in H.
    assert (fs = []) as -> by (eapply partial_frames_nil; eauto; now rewrite <- H).
    reflexivity.
  - cbn [concat] in H. rewrite app_assoc in H.
    destruct (split_stream fs (ps_hist st ++ c) (concat cs) r Hfs Hr H) as (fs1 & fs2 & r1 & -> & Hp & Hr1 & Hq & _).
    apply Forall_app in Hfs. destruct Hfs as [Hfs1 Hfs2].
    unfold feed_all. cbn [map run_script]. rewrite (parse_frames now st c fs1 r1 Hfs1 Hr1 Hf Hp). cbn [fst snd map concat length repeat].
    set (st1 := {| ps_hist := r1; ps_x := fst (cp_loop now (ps_x st) (map decode_ok fs1)) |}).
    specialize (IH now st1 fs2 r Hfs2 Hr1 Hr (fresh_cp_loop _ _ _ Hf) Hq).
    unfold feed_all in IH. injection IH as IH1 IH2. rewrite IH1, IH2.
    rewrite map_app, cp_loop_app. reflexivity.
Qed.

Theorem segmentation_subpkg : forall fs chunks now, Forall vframe fs -> concat chunks = concat fs ->
  feed_all now pst0 chunks = (snd (cp_loop now [] (map decode_ok fs)), repeat None (length chunks)).
Proof.
  intros fs chunks now Hfs H.
  apply (feed_all_frames chunks now pst0 fs []); auto; try apply partial_nil.
  constructor. cbn [pst0 ps_hist app]. now rewrite app_nil_r.
Qed.

(* the completed messages parse delivers are the completions of the message-level machine *)
Theorem cp_loop_is_run now ms : forall s,
  fst (cp_loop now s ms) = fst (run s (map (fun rm => (now, EvMsg (snd rm))) ms)) /\
  completed_msgs (snd (cp_loop now s ms)) = completed_outs (snd (run s (map (fun rm => (now, EvMsg (snd rm))) ms))).
Proof.
  induction ms as [|[raw m] t IH]; intros s; cbn [map cp_loop run snd]. split; reflexivity.
  cbn [step]. destruct (complete_pack now s m) as [s1 r]. specialize (IH s1).
  destruct (cp_loop now s1 t) as [s2 rest]. destruct (run s1 _) as [s2' os]. cbn [fst snd] in *.
  destruct IH as [-> IH2]. split; auto.
  destruct r as [data|]; unfold completed_msgs in *; cbn [app filter p_complete map completed_outs p_msg set_body m_id m_body];
    now rewrite IH2.
Qed.

(* Lemmas about Model/Reply.v (C06). *)
From JT.Base Require Import Prelude PreludeP.
From JT.Model Require Import Frame Reply.
From JT.Proofs Require Import Frame_proofs.
From Coq Require Import ZArith ZifyN ZifyNat ZifyBool.
Ltac Zify.zify_post_hook ::= Z.div_mod_to_equations.

(* ------------------------------------------------------------------------------------------ *)
(* The handler table against the standard's table                                             *)
(* ------------------------------------------------------------------------------------------ *)

Definition kind_of_id (id : N) : rkind :=
  if id =? 0x0100 then RRegister
  else if id =? 0x0801 then RMedia
  else if id =? 0x1212 then RFile
  else if id =? 0x1003 then REmpty
  else if id =? 0x0102 then RAuth
  else RGeneral.

Definition rkind_eqb (a b : rkind) : bool :=
  match a, b with
  | RGeneral, RGeneral | RRegister, RRegister | RAuth, RAuth | RMedia, RMedia | RFile, RFile | REmpty, REmpty => true
  | _, _ => false
  end.
Lemma rkind_eqb_eq a b : rkind_eqb a b = true -> a = b.
Proof. destruct a, b; cbn; congruence. Qed.

Definition optN_eqb (a b : option N) : bool :=
  match a, b with Some x, Some y => x =? y | None, None => true | _, _ => false end.
Lemma optN_eqb_eq a b : optN_eqb a b = true -> a = b.
Proof. destruct a, b; cbn; try congruence. intros H. f_equal. lia. Qed.

(* one table entry agrees with the standard *)
Definition entry_ok (e : N * hinfo) : bool :=
  let (k, hi) := e in
  std_registered k &&
  optN_eqb (if hi_has hi then Some (hi_rid hi) else None) (std_reply_id k) &&
  (negb (hi_has hi) || rkind_eqb (hi_kind hi) (kind_of_id k)) &&
  (hi_rid hi <? 65536) && (negb (hi_has hi) || (0 <? hi_rid hi)).

Lemma table_entries_ok : forallb entry_ok default_handles = true.
Proof. vm_compute. reflexivity. Qed.

Lemma assoc_in {A} id (l : list (N * A)) v : assoc id l = Some v -> In (id, v) l.
Proof.
  induction l as [|[k x] l IH]; cbn [assoc]; intros H. discriminate.
  destruct (N.eqb_spec k id) as [->|Hne].
  - inversion H; subst. now left.
  - right. auto.
Qed.

Lemma assoc_none {A} id (l : list (N * A)) : assoc id l = None -> mem id (map fst l) = false.
Proof.
  induction l as [|[k x] l IH]; cbn [assoc map fst mem existsb]; intros H. reflexivity.
  destruct (N.eqb_spec k id) as [->|Hne]. discriminate.
  unfold mem in IH. rewrite IH by auto. replace (id =? k) with false by lia. reflexivity.
Qed.

Lemma mem_forallb x l (P : N -> bool) : mem x l = true -> forallb P l = true -> P x = true.
Proof.
  unfold mem. rewrite existsb_exists, forallb_forall. intros [y [Hy Hxy]] H.
  apply N.eqb_eq in Hxy. subst. auto.
Qed.

Lemma lookup_some id hi : lookup id = Some hi -> entry_ok (id, hi) = true.
Proof.
  intros H. apply assoc_in in H. pose proof table_entries_ok as T.
  rewrite forallb_forall in T. auto.
Qed.

Definition registered_ids : list N :=
  [0x0001; 0x0002; 0x0100; 0x0102; 0x0104; 0x0200; 0x0704; 0x0800; 0x0801; 0x0805;
   0x1003; 0x1005; 0x1205; 0x1206; 0x1210; 0x1211; 0x1212;
   0x8003; 0x8103; 0x8104; 0x8801; 0x9003; 0x9101; 0x9102; 0x9205; 0x9206; 0x9207; 0x9208].

Lemma lookup_none id : lookup id = None -> std_registered id = false /\ std_reply_id id = None.
Proof.
  intros H. apply assoc_none in H.
  assert (R : std_registered id = false).
  { destruct (std_registered id) eqn:E; auto.
    assert (X : mem id (map fst default_handles) = true).
    { apply (mem_forallb id registered_ids (fun k => mem k (map fst default_handles)) E).
      vm_compute. reflexivity. }
    congruence. }
  split. exact R.
  destruct (std_reply_id id) as [r|] eqn:E; auto.
  (* a reply-bearing id is registered *)
  assert (X : std_registered id = true).
  { unfold std_reply_id in E.
    destruct (mem id [2; 512; 1796; 2048; 4101; 4624; 4625; 258; 4099]) eqn:M.
    - apply (mem_forallb id _ std_registered M). vm_compute. reflexivity.
    - destruct (N.eqb_spec id 256) as [->|]. reflexivity.
      destruct (N.eqb_spec id 2049) as [->|]. reflexivity.
      destruct (N.eqb_spec id 4626) as [->|]. reflexivity. discriminate. }
  congruence.
Qed.

(* T5: which ids are handled, which are answered and with which type — for every id *)
Theorem reply_table id :
  (match lookup id with Some _ => true | None => false end) = std_registered id /\
  (match lookup id with Some hi => if hi_has hi then Some (hi_rid hi) else None | None => None end)
  = std_reply_id id.
Proof.
  destruct (lookup id) as [hi|] eqn:E.
  - apply lookup_some in E. unfold entry_ok in E.
    apply andb_true_iff in E. destruct E as [E _].
    apply andb_true_iff in E. destruct E as [E _].
    apply andb_true_iff in E. destruct E as [E1 E2].
    apply optN_eqb_eq in E2. split; congruence.
  - apply lookup_none in E. destruct E as [E1 E2]. split; congruence.
Qed.

Lemma lookup_answer id hi : lookup id = Some hi -> hi_has hi = true ->
  std_reply_id id = Some (hi_rid hi) /\ hi_kind hi = kind_of_id id /\ hi_rid hi < 65536.
Proof.
  intros E Hh. apply lookup_some in E. unfold entry_ok in E.
  apply andb_true_iff in E. destruct E as [E E4].
  apply andb_true_iff in E. destruct E as [E E3].
  apply andb_true_iff in E. destruct E as [_ E2].
  rewrite Hh in *. apply optN_eqb_eq in E2. cbn [negb orb] in E3. apply rkind_eqb_eq in E3.
  repeat split; auto. lia.
Qed.

Lemma lookup_silent id hi : lookup id = Some hi -> hi_has hi = false -> std_reply_id id = None.
Proof.
  intros E Hh. pose proof (reply_table id) as [_ T]. rewrite E, Hh in T. auto.
Qed.

(* ------------------------------------------------------------------------------------------ *)
(* Reply bodies                                                                               *)
(* ------------------------------------------------------------------------------------------ *)

Lemma std_reply_auth id : std_reply_id id <> None -> True. Proof. auto. Qed.

(* no reply body: exactly the too-short 2019 authentication *)
Lemma reply_body_none id st m : m_id m = id ->
  (snd (reply_body (kind_of_id id) st m) = None <-> auth_too_short m = true).
Proof.
  intros Hid. unfold auth_too_short, kind_of_id. rewrite Hid.
  destruct (N.eqb_spec id 256) as [->|]; [cbn; split; discriminate|].
  destruct (N.eqb_spec id 2049) as [->|]; [cbn; split; discriminate|].
  destruct (N.eqb_spec id 4626) as [->|]; [cbn; split; discriminate|].
  destruct (N.eqb_spec id 4099) as [->|]; [cbn; split; discriminate|].
  destruct (N.eqb_spec id 258) as [->|].
  2:{ cbn. split; discriminate. }
  cbn [reply_body andb]. unfold auth_code.
  destruct (m_ver m =? 1); cbn [andb].
  - destruct (len (m_body m) <? 36); cbn [orb snd]. tauto.
    destruct (len (m_body m) <? 36 + at_ (m_body m) 0); cbn [snd]; split; congruence.
  - cbn [snd]. split; discriminate.
Qed.

Lemma sub_0_be l : bytes l -> 4 <= len l -> be_enc 4 (be_dec (sub l 0 4)) = sub l 0 4.
Proof.
  intros Hb Hl.
  assert (L : length (sub l 0 4) = 4%nat).
  { rewrite sub_length; lia. }
  rewrite <- L at 1. apply be_enc_dec. now apply bytes_sub.
Qed.

Lemma firstn_plus {A} (a b : nat) (l : list A) : firstn (a + b) l = firstn a l ++ firstn b (skipn a l).
Proof.
  revert l. induction a as [|a IH]; intros l; cbn [firstn skipn plus app]. reflexivity.
  destruct l as [|x l]. now rewrite firstn_nil. cbn [firstn skipn app]. now rewrite IH.
Qed.

Lemma skipn_plus {A} (a b : nat) (l : list A) : skipn (a + b) l = skipn b (skipn a l).
Proof.
  revert l. induction a as [|a IH]; intros l; cbn [skipn plus]. reflexivity.
  destruct l as [|x l]. now rewrite skipn_nil. cbn [skipn]. apply IH.
Qed.

Lemma sub_split l a b c : a <= b -> b <= c -> sub l a c = sub l a b ++ sub l b c.
Proof.
  intros H1 H2. unfold sub.
  replace (N.to_nat (c - a)) with (N.to_nat (b - a) + N.to_nat (c - b))%nat by lia.
  rewrite firstn_plus. f_equal. f_equal.
  replace (N.to_nat b) with (N.to_nat a + N.to_nat (b - a))%nat by lia.
  now rewrite skipn_plus.
Qed.

Lemma sub_one l i : i < len l -> sub l i (i + 1) = [at_ l i].
Proof.
  intros H. unfold sub, at_. replace (N.to_nat (i + 1 - i)) with 1%nat by lia.
  unfold len in H. remember (N.to_nat i) as k.
  assert (Hk : (k < length l)%nat) by lia. clear Heqk H.
  revert l Hk. induction k as [|k IH]; intros [|x l] Hk; cbn in Hk; try lia.
  - reflexivity.
  - cbn [skipn nth]. apply IH. lia.
Qed.

Lemma file_body st m : 6 <= len (m_body m) -> len (m_body m) = 6 + at_ (m_body m) 0 ->
  snd (reply_body RFile st m) =
  Some ([at_ (m_body m) 0] ++ sub (m_body m) 1 (1 + at_ (m_body m) 0) ++ [at_ (m_body m) (1 + at_ (m_body m) 0); 0; 0]).
Proof.
  intros H1 H2. unfold reply_body. cbv beta iota zeta.
  replace (len (m_body m) <? 6) with false by lia.
  replace (len (m_body m) =? 6 + at_ (m_body m) 0) with true by lia.
  reflexivity.
Qed.

(* the body of a reply is the one the property prescribes *)
Lemma reply_body_std st m b : snd (reply_body (kind_of_id (m_id m)) st m) = Some b ->
  body_wf m = true -> bytes (m_body m) -> b = std_body m.
Proof.
  unfold kind_of_id, std_body, body_wf.
  destruct (N.eqb_spec (m_id m) 256) as [E|]. { cbn. congruence. }
  destruct (N.eqb_spec (m_id m) 2049) as [E|].
  { cbn [reply_body snd]. intros H W B. replace (len (m_body m) <? 36) with false in H by lia.
    cbn [s_mmid] in H. injection H as <-. apply sub_0_be; auto. lia. }
  destruct (N.eqb_spec (m_id m) 4626) as [E|].
  { intros H W B.
    apply andb_true_iff in W. destruct W as [W1 W2].
    rewrite file_body in H by lia. injection H as <-.
    set (l := at_ (m_body m) 0) in *.
    rewrite (sub_split (m_body m) 0 1 (2 + l)) by lia.
    rewrite (sub_split (m_body m) 1 (1 + l) (2 + l)) by lia.
    replace (2 + l) with (1 + l + 1) by lia.
    rewrite (sub_one (m_body m) (1 + l)) by lia.
    replace (sub (m_body m) 0 1) with [l].
    2:{ symmetry. apply (sub_one (m_body m) 0). lia. }
    rewrite <- !app_assoc. reflexivity. }
  destruct (N.eqb_spec (m_id m) 4099) as [E|]. { cbn. congruence. }
  destruct (N.eqb_spec (m_id m) 258) as [E|].
  { cbn [reply_body]. unfold auth_code, general_body.
    destruct (m_ver m =? 1).
    - destruct (len (m_body m) <? 36); cbn [snd]. discriminate.
      destruct (len (m_body m) <? 36 + at_ (m_body m) 0); cbn [snd]. discriminate.
      intros H _ _. inversion H. rewrite E. reflexivity.
    - cbn [snd]. intros H _ _. inversion H. rewrite E. reflexivity. }
  cbn [reply_body snd]. unfold general_body. congruence.
Qed.

(* sizes: a reply body never exceeds 1023 bytes *)
Definition hstate_ok (s : hstate) : Prop := (length (s_fname s) <= 255)%nat.

Lemma bcd_convert_length l : length (bcd_convert l) = (2 * length l)%nat.
Proof.
  unfold bcd_convert. induction l as [|x l IH]; cbn [flat_map length app]. reflexivity.
  rewrite IH. lia.
Qed.

Lemma phone_of_length m : decoded_header m -> (length (phone_of m) <= 20)%nat.
Proof.
  intros (_ & _ & _ & _ & L). unfold phone_of, bcd2dec.
  pose proof (bcd_convert_length (m_bcd m)) as C.
  assert (S0 : forall l, (length (strip0 l) <= length l)%nat).
  { induction l as [|c t IH]; cbn [strip0 length]. lia. destruct (c =? 48); cbn [length]; lia. }
  destruct (strip0 (bcd_convert (m_bcd m))) eqn:E.
  - rewrite C. destruct (m_ver m =? 1); lia.
  - rewrite <- E. etransitivity. apply S0. rewrite C. destruct (m_ver m =? 1); lia.
Qed.

Lemma sub_length_le l i j : (length (sub l i j) <= N.to_nat (j - i))%nat.
Proof. unfold sub. rewrite firstn_length. lia. Qed.

Lemma bytes_at0 l : bytes l -> at_ l 0 < 256.
Proof. apply bytes_at. Qed.

Lemma pair_some_inv {A B} (a c : A) (b d : B) : (a, Some b) = (c, Some d) -> a = c /\ b = d.
Proof. intros H. inversion H. auto. Qed.

Lemma reply_body_size k st m st' b : reply_body k st m = (st', Some b) ->
  hstate_ok st -> decoded_header m -> bytes (m_body m) -> (length b <= 1023)%nat /\ hstate_ok st'.
Proof.
  unfold hstate_ok. intros H Hs Hm Hb.
  pose proof (phone_of_length m Hm) as Hp.
  destruct k; unfold reply_body in H; cbv beta iota zeta in H.
  - apply pair_some_inv in H as [<- <-]. split; auto. unfold general_body.
    repeat (rewrite ?app_length, ?be_enc_length; cbn [length]). lia.
  - apply pair_some_inv in H as [<- <-]. split; auto.
    repeat (rewrite ?app_length, ?be_enc_length; cbn [length]). lia.
  - destruct (auth_code m); [|discriminate]. apply pair_some_inv in H as [<- <-]. split; auto. unfold general_body.
    repeat (rewrite ?app_length, ?be_enc_length; cbn [length]). lia.
  - apply pair_some_inv in H as [<- <-]. split. repeat (rewrite ?app_length, ?be_enc_length; cbn [length]). lia.
    destruct (len (m_body m) <? 36); cbn [s_fname]; auto.
  - apply pair_some_inv in H as [<- <-].
    match goal with |- _ /\ (length (s_fname ?X) <= _)%nat => set (st1 := X) end.
    assert (X : (length (s_fname st1) <= 255)%nat).
    { subst st1. destruct (len (m_body m) <? 6); auto.
      destruct (negb (len (m_body m) =? 6 + at_ (m_body m) 0)); cbn [s_fname]; auto.
      pose proof (sub_length_le (m_body m) 1 (1 + at_ (m_body m) 0)).
      pose proof (bytes_at0 _ Hb). lia. }
    split; auto. repeat (rewrite ?app_length; cbn [length]). lia.
  - apply pair_some_inv in H as [<- <-]. split; auto. cbn [length]. lia.
Qed.

(* ------------------------------------------------------------------------------------------ *)
(* Projections distribute over concatenation                                                  *)
(* ------------------------------------------------------------------------------------------ *)
Lemma writes_app a b : writes (a ++ b) = writes a ++ writes b.
Proof. unfold writes. apply flat_map_app. Qed.
Lemma replies_app a b : replies (a ++ b) = replies a ++ replies b.
Proof. unfold replies. now rewrite writes_app, filter_app. Qed.
Lemma srcs_app a b : srcs (a ++ b) = srcs a ++ srcs b.
Proof. unfold srcs. apply flat_map_app. Qed.
Lemma reader_obs_app a b : reader_obs (a ++ b) = reader_obs a ++ reader_obs b.
Proof. unfold reader_obs. apply filter_app. Qed.
Lemma writer_obs_app a b : writer_obs (a ++ b) = writer_obs a ++ writer_obs b.
Proof. unfold writer_obs. apply filter_app. Qed.
Lemma read_srcs_app a b : read_srcs (a ++ b) = read_srcs a ++ read_srcs b.
Proof. unfold read_srcs. apply flat_map_app. Qed.

Lemma trace_cons c mv t : trace c (mv :: t) = snd (step c mv) ++ trace (fst (step c mv)) t.
Proof. reflexivity. Qed.
Lemma final_cons c mv t : final c (mv :: t) = final (fst (step c mv)) t.
Proof. reflexivity. Qed.
Lemma trace_app c s1 s2 : trace c (s1 ++ s2) = trace c s1 ++ trace (final c s1) s2.
Proof.
  revert c. induction s1 as [|mv s1 IH]; intros c. reflexivity.
  cbn [app]. rewrite !trace_cons, final_cons, IH. now rewrite app_assoc.
Qed.
Lemma final_app c s1 s2 : final c (s1 ++ s2) = final (final c s1) s2.
Proof. revert c. induction s1 as [|mv s1 IH]; intros c. reflexivity. cbn [app]. now rewrite !final_cons, IH. Qed.

(* Lemmas about Model/Reply.v (C06). *)
From JT.Base Require Import Prelude PreludeP.
From JT.Model Require Import Frame Reply.
From JT.Proofs Require Import Frame_proofs.
From Coq Require Import ZArith ZifyN ZifyNat ZifyBool.
Ltac Zify.zify_post_hook ::= Z.div_mod_to_equations.

(* ------------------------------------------------------------------------------------------ *)
(* The handler table against the standard's table                                             *)
(* ------------------------------------------------------------------------------------------ *)

Definition kind_of_id (id : N) : rkind :=
  if id =? 0x0100 then RRegister
  else if id =? 0x0801 then RMedia
  else if id =? 0x1212 then RFile
  else if id =? 0x1003 then REmpty
  else if id =? 0x0102 then RAuth
  else RGeneral.

Definition rkind_eqb (a b : rkind) : bool :=
  match a, b with
  | RGeneral, RGeneral | RRegister, RRegister | RAuth, RAuth | RMedia, RMedia | RFile, RFile | REmpty, REmpty => true
  | _, _ => false
  end.
Lemma rkind_eqb_eq a b : rkind_eqb a b = true -> a = b.
Proof. destruct a, b; cbn; congruence. Qed.

Definition optN_eqb (a b : option N) : bool :=
  match a, b with Some x, Some y => x =? y | None, None => true | _, _ => false end.
Lemma optN_eqb_eq a b : optN_eqb a b = true -> a = b.
Proof. destruct a, b; cbn; try congruence. intros H. f_equal. lia. Qed.

(* one table entry agrees with the standard *)
Definition entry_ok (e : N * hinfo) : bool :=
  let (k, hi) := e in
  std_registered k &&
  optN_eqb (if hi_has hi then Some (hi_rid hi) else None) (std_reply_id k) &&
  (negb (hi_has hi) || rkind_eqb (hi_kind hi) (kind_of_id k)) &&
  (hi_rid hi <? 65536) && (negb (hi_has hi) || (0 <? hi_rid hi)).

Lemma table_entries_ok : forallb entry_ok default_handles = true.
Proof. vm_compute. reflexivity. Qed.

Lemma assoc_in {A} id (l : list (N * A)) v : assoc id l = Some v -> In (id, v) l.
Proof.
  induction l as [|[k x] l IH]; cbn [assoc]; intros H. discriminate.
  destruct (N.eqb_spec k id) as [->|Hne].
  - inversion H; subst. now left.
  - right. auto.
Qed.

Lemma assoc_none {A} id (l : list (N * A)) : assoc id l = None -> mem id (map fst l) = false.
Proof.
  induction l as [|[k x] l IH]; cbn [assoc map fst mem existsb]; intros H. reflexivity.
  destruct (N.eqb_spec k id) as [->|Hne]. discriminate.
  unfold mem in IH. rewrite IH by auto. replace (id =? k) with false by lia. reflexivity.
Qed.

Lemma mem_forallb x l (P : N -> bool) : mem x l = true -> forallb P l = true -> P x = true.
Proof.
  unfold mem. rewrite existsb_exists, forallb_forall. intros [y [Hy Hxy]] H.
  apply N.eqb_eq in Hxy. subst. auto.
Qed.

Lemma lookup_some id hi : lookup id = Some hi -> entry_ok (id, hi) = true.
Proof.
  intros H. apply assoc_in in H. pose proof table_entries_ok as T.
  rewrite forallb_forall in T. auto.
Qed.

Definition registered_ids : list N :=
  [0x0001; 0x0002; 0x0100; 0x0102; 0x0104; 0x0200; 0x0704; 0x0800; 0x0801; 0x0805;
   0x1003; 0x1005; 0x1205; 0x1206; 0x1210; 0x1211; 0x1212;
   0x8003; 0x8103; 0x8104; 0x8801; 0x9003; 0x9101; 0x9102; 0x9205; 0x9206; 0x9207; 0x9208].

Lemma lookup_none id : lookup id = None -> std_registered id = false /\ std_reply_id id = None.
Proof.
  intros H. apply assoc_none in H.
  assert (R : std_registered id = false).
  { destruct (std_registered id) eqn:E; auto.
    assert (X : mem id (map fst default_handles) = true).
    { apply (mem_forallb id registered_ids (fun k => mem k (map fst default_handles)) E).
      vm_compute. reflexivity. }
    congruence. }
  split. exact R.
  destruct (std_reply_id id) as [r|] eqn:E; auto.
  (* a reply-bearing id is registered *)
  assert (X : std_registered id = true).
  { unfold std_reply_id in E.
    destruct (mem id [2; 512; 1796; 2048; 4101; 4624; 4625; 258; 4099]) eqn:M.
    - apply (mem_forallb id _ std_registered M). vm_compute. reflexivity.
    - destruct (N.eqb_spec id 256) as [->|]. reflexivity.
      destruct (N.eqb_spec id 2049) as [->|]. reflexivity.
      destruct (N.eqb_spec id 4626) as [->|]. reflexivity. discriminate. }
  congruence.
Qed.

(* T5: which ids are handled, which are answered and with which type — for every id *)
Theorem reply_table id :
  (match lookup id with Some _ => true | None => false end) = std_registered id /\
  (match lookup id with Some hi => if hi_has hi then Some (hi_rid hi) else None | None => None end)
  = std_reply_id id.
Proof.
  destruct (lookup id) as [hi|] eqn:E.
  - apply lookup_some in E. unfold entry_ok in E.
    apply andb_true_iff in E. destruct E as [E _].
    apply andb_true_iff in E. destruct E as [E _].
    apply andb_true_iff in E. destruct E as [E _].
    apply andb_true_iff in E. destruct E as [E1 E2].
    apply optN_eqb_eq in E2. split; congruence.
  - apply lookup_none in E. destruct E as [E1 E2]. split; congruence.
Qed.

Lemma lookup_answer id hi : lookup id = Some hi -> hi_has hi = true ->
  std_reply_id id = Some (hi_rid hi) /\ hi_kind hi = kind_of_id id /\ 0 < hi_rid hi < 65536.
Proof.
  intros E Hh. apply lookup_some in E. unfold entry_ok in E.
  apply andb_true_iff in E. destruct E as [E E5].
  apply andb_true_iff in E. destruct E as [E E4].
  apply andb_true_iff in E. destruct E as [E E3].
  apply andb_true_iff in E. destruct E as [_ E2].
  rewrite Hh in *. apply optN_eqb_eq in E2. cbn [negb orb] in E3, E5. apply rkind_eqb_eq in E3.
  repeat split; auto; lia.
Qed.

Lemma lookup_silent id hi : lookup id = Some hi -> hi_has hi = false -> std_reply_id id = None.
Proof.
  intros E Hh. pose proof (reply_table id) as [_ T]. rewrite E, Hh in T. auto.
Qed.

(* ------------------------------------------------------------------------------------------ *)
(* Reply bodies                                                                               *)
(* ------------------------------------------------------------------------------------------ *)


(* no reply body: exactly the too-short 2019 authentication *)
Lemma reply_body_none id st m : m_id m = id ->
  (snd (reply_body (kind_of_id id) st m) = None <-> auth_too_short m = true).
Proof.
  intros Hid. unfold auth_too_short, kind_of_id. rewrite Hid.
  destruct (N.eqb_spec id 256) as [->|]; [cbn; split; discriminate|].
  destruct (N.eqb_spec id 2049) as [->|]; [cbn; split; discriminate|].
  destruct (N.eqb_spec id 4626) as [->|]; [cbn; split; discriminate|].
  destruct (N.eqb_spec id 4099) as [->|]; [cbn; split; discriminate|].
  destruct (N.eqb_spec id 258) as [->|].
  2:{ cbn. split; discriminate. }
  cbn [reply_body andb]. unfold auth_code.
  destruct (m_ver m =? 1); cbn [andb].
  - destruct (len (m_body m) <? 36); cbn [orb snd]. tauto.
    destruct (len (m_body m) <? 36 + at_ (m_body m) 0); cbn [snd]; split; congruence.
  - cbn [snd]. split; discriminate.
Qed.

Lemma sub_0_be l : bytes l -> 4 <= len l -> be_enc 4 (be_dec (sub l 0 4)) = sub l 0 4.
Proof.
  intros Hb Hl.
  assert (L : length (sub l 0 4) = 4%nat).
  { rewrite sub_length; lia. }
  rewrite <- L at 1. apply be_enc_dec. now apply bytes_sub.
Qed.

Lemma firstn_plus {A} (a b : nat) (l : list A) : firstn (a + b) l = firstn a l ++ firstn b (skipn a l).
Proof.
  revert l. induction a as [|a IH]; intros l; cbn [firstn skipn plus app]. reflexivity.
  destruct l as [|x l]. now rewrite firstn_nil. cbn [firstn skipn app]. now rewrite IH.
Qed.

Lemma skipn_plus {A} (a b : nat) (l : list A) : skipn (a + b) l = skipn b (skipn a l).
Proof.
  revert l. induction a as [|a IH]; intros l; cbn [skipn plus]. reflexivity.
  destruct l as [|x l]. now rewrite skipn_nil. cbn [skipn]. apply IH.
Qed.

Lemma sub_split l a b c : a <= b -> b <= c -> sub l a c = sub l a b ++ sub l b c.
Proof.
  intros H1 H2. unfold sub.
  replace (N.to_nat (c - a)) with (N.to_nat (b - a) + N.to_nat (c - b))%nat by lia.
  rewrite firstn_plus. f_equal. f_equal.
  replace (N.to_nat b) with (N.to_nat a + N.to_nat (b - a))%nat by lia.
  now rewrite skipn_plus.
Qed.

Lemma sub_one l i : i < len l -> sub l i (i + 1) = [at_ l i].
Proof.
  intros H. unfold sub, at_. replace (N.to_nat (i + 1 - i)) with 1%nat by lia.
  unfold len in H. remember (N.to_nat i) as k.
  assert (Hk : (k < length l)%nat) by lia. clear Heqk H.
  revert l Hk. induction k as [|k IH]; intros [|x l] Hk; cbn in Hk; try lia.
  - reflexivity.
  - cbn [skipn nth]. apply IH. lia.
Qed.

Lemma file_body st m : 6 <= len (m_body m) -> len (m_body m) = 6 + at_ (m_body m) 0 ->
  snd (reply_body RFile st m) =
  Some ([at_ (m_body m) 0] ++ sub (m_body m) 1 (1 + at_ (m_body m) 0) ++ [at_ (m_body m) (1 + at_ (m_body m) 0); 0; 0]).
Proof.
  intros H1 H2. unfold reply_body. cbv beta iota zeta.
  replace (len (m_body m) <? 6) with false by lia.
  replace (len (m_body m) =? 6 + at_ (m_body m) 0) with true by lia.
  reflexivity.
Qed.

(* the body of a reply is the one the property prescribes *)
Lemma reply_body_std st m b : snd (reply_body (kind_of_id (m_id m)) st m) = Some b ->
  body_wf m = true -> bytes (m_body m) -> b = std_body m.
Proof.
  unfold kind_of_id, std_body, body_wf.
  destruct (N.eqb_spec (m_id m) 256) as [E|]. { cbn. congruence. }
  destruct (N.eqb_spec (m_id m) 2049) as [E|].
  { cbn [reply_body snd]. intros H W B. replace (len (m_body m) <? 36) with false in H by lia.
    cbn [s_mmid] in H. injection H as <-. apply sub_0_be; auto. lia. }
  destruct (N.eqb_spec (m_id m) 4626) as [E|].
  { intros H W B.
    apply andb_true_iff in W. destruct W as [W1 W2].
    rewrite file_body in H by lia. injection H as <-.
    set (l := at_ (m_body m) 0) in *.
    rewrite (sub_split (m_body m) 0 1 (2 + l)) by lia.
    rewrite (sub_split (m_body m) 1 (1 + l) (2 + l)) by lia.
    replace (2 + l) with (1 + l + 1) by lia.
    rewrite (sub_one (m_body m) (1 + l)) by lia.
    replace (sub (m_body m) 0 1) with [l].
    2:{ symmetry. apply (sub_one (m_body m) 0). lia. }
    rewrite <- !app_assoc. reflexivity. }
  destruct (N.eqb_spec (m_id m) 4099) as [E|]. { cbn. congruence. }
  destruct (N.eqb_spec (m_id m) 258) as [E|].
  { cbn [reply_body]. unfold auth_code, general_body.
    destruct (m_ver m =? 1).
    - destruct (len (m_body m) <? 36); cbn [snd]. discriminate.
      destruct (len (m_body m) <? 36 + at_ (m_body m) 0); cbn [snd]. discriminate.
      intros H _ _. inversion H. rewrite E. reflexivity.
    - cbn [snd]. intros H _ _. inversion H. rewrite E. reflexivity. }
  cbn [reply_body snd]. unfold general_body. congruence.
Qed.

(* sizes: a reply body never exceeds 1023 bytes *)
Definition hstate_ok (s : hstate) : Prop := (length (s_fname s) <= 255)%nat.

Lemma bcd_convert_length l : length (bcd_convert l) = (2 * length l)%nat.
Proof.
  unfold bcd_convert. induction l as [|x l IH]; cbn [flat_map length app]. reflexivity.
  rewrite IH. lia.
Qed.

Lemma phone_of_length m : decoded_header m -> (length (phone_of m) <= 20)%nat.
Proof.
  intros (_ & _ & _ & _ & L). unfold phone_of, bcd2dec.
  pose proof (bcd_convert_length (m_bcd m)) as C.
  assert (S0 : forall l, (length (strip0 l) <= length l)%nat).
  { induction l as [|c t IH]; cbn [strip0 length]. lia. destruct (c =? 48); cbn [length]; lia. }
  destruct (strip0 (bcd_convert (m_bcd m))) eqn:E.
  - rewrite C. destruct (m_ver m =? 1); lia.
  - rewrite <- E. etransitivity. apply S0. rewrite C. destruct (m_ver m =? 1); lia.
Qed.

Lemma sub_length_le l i j : (length (sub l i j) <= N.to_nat (j - i))%nat.
Proof. unfold sub. rewrite firstn_length. lia. Qed.

Lemma bytes_at0 l : bytes l -> at_ l 0 < 256.
Proof. apply bytes_at. Qed.

Lemma pair_some_inv {A B} (a c : A) (b d : B) : (a, Some b) = (c, Some d) -> a = c /\ b = d.
Proof. intros H. inversion H. auto. Qed.

Lemma reply_body_size k st m st' b : reply_body k st m = (st', Some b) ->
  hstate_ok st -> decoded_header m -> bytes (m_body m) -> (length b <= 1023)%nat /\ hstate_ok st'.
Proof.
  unfold hstate_ok. intros H Hs Hm Hb.
  pose proof (phone_of_length m Hm) as Hp.
  destruct k; unfold reply_body in H; cbv beta iota zeta in H.
  - apply pair_some_inv in H as [<- <-]. split; auto. unfold general_body.
    repeat (rewrite ?app_length, ?be_enc_length; cbn [length]). lia.
  - apply pair_some_inv in H as [<- <-]. split; auto.
    repeat (rewrite ?app_length, ?be_enc_length; cbn [length]). lia.
  - destruct (auth_code m); [|discriminate]. apply pair_some_inv in H as [<- <-]. split; auto. unfold general_body.
    repeat (rewrite ?app_length, ?be_enc_length; cbn [length]). lia.
  - apply pair_some_inv in H as [<- <-]. split. repeat (rewrite ?app_length, ?be_enc_length; cbn [length]). lia.
    destruct (len (m_body m) <? 36); cbn [s_fname]; auto.
  - apply pair_some_inv in H as [<- <-].
    match goal with |- _ /\ (length (s_fname ?X) <= _)%nat => set (st1 := X) end.
    assert (X : (length (s_fname st1) <= 255)%nat).
    { subst st1. destruct (len (m_body m) <? 6); auto.
      destruct (negb (len (m_body m) =? 6 + at_ (m_body m) 0)); cbn [s_fname]; auto.
      pose proof (sub_length_le (m_body m) 1 (1 + at_ (m_body m) 0)).
      pose proof (bytes_at0 _ Hb). lia. }
    split; auto. repeat (rewrite ?app_length; cbn [length]). lia.
  - apply pair_some_inv in H as [<- <-]. split; auto. cbn [length]. lia.
Qed.

(* ------------------------------------------------------------------------------------------ *)
(* Projections distribute over concatenation                                                  *)
(* ------------------------------------------------------------------------------------------ *)
Lemma writes_app a b : writes (a ++ b) = writes a ++ writes b.
Proof. unfold writes. apply flat_map_app. Qed.
Lemma replies_app a b : replies (a ++ b) = replies a ++ replies b.
Proof. unfold replies. now rewrite writes_app, filter_app. Qed.
Lemma srcs_app a b : srcs (a ++ b) = srcs a ++ srcs b.
Proof. unfold srcs. apply flat_map_app. Qed.
Lemma reader_obs_app a b : reader_obs (a ++ b) = reader_obs a ++ reader_obs b.
Proof. unfold reader_obs. apply filter_app. Qed.
Lemma writer_obs_app a b : writer_obs (a ++ b) = writer_obs a ++ writer_obs b.
Proof. unfold writer_obs. apply filter_app. Qed.
Lemma read_srcs_app a b : read_srcs (a ++ b) = read_srcs a ++ read_srcs b.
Proof. unfold read_srcs. apply flat_map_app. Qed.

Lemma trace_cons c mv t : trace c (mv :: t) = snd (step c mv) ++ trace (fst (step c mv)) t.
Proof. reflexivity. Qed.
Lemma final_cons c mv t : final c (mv :: t) = final (fst (step c mv)) t.
Proof. reflexivity. Qed.
Lemma trace_app c s1 s2 : trace c (s1 ++ s2) = trace c s1 ++ trace (final c s1) s2.
Proof.
  revert c. induction s1 as [|mv s1 IH]; intros c. reflexivity.
  cbn [app]. rewrite !trace_cons, final_cons, IH. now rewrite app_assoc.
Qed.
Lemma final_app c s1 s2 : final c (s1 ++ s2) = final (final c s1) s2.
Proof. revert c. induction s1 as [|mv s1 IH]; intros c. reflexivity. cbn [app]. now rewrite !final_cons, IH. Qed.

(* ------------------------------------------------------------------------------------------ *)
(* Which delivered messages are answered                                                      *)
(* ------------------------------------------------------------------------------------------ *)
Definition dmsg_wf (d : dmsg) : Prop := decoded_header (d_m d) /\ bytes (m_body (d_m d)).

Lemma answered_unreg d : lookup (m_id (d_m d)) = None -> answered d = false.
Proof.
  intros H. apply lookup_none in H. destruct H as [_ H]. unfold answered. rewrite H. apply andb_false_r.
Qed.

Lemma answered_reissue d : is_reissue d = true -> answered d = false.
Proof.
  unfold is_reissue, REISSUE. intros H. apply N.eqb_eq in H. unfold answered. rewrite H.
  change (std_reply_id 32771) with (@None N). apply andb_false_r.
Qed.

Lemma answered_incomplete d : has_complete d = false -> answered d = false.
Proof. intros H. unfold answered. now rewrite H. Qed.

(* the wire of an automatic reply *)
Definition reply_wire (c : conn) (d : dmsg) (rid : N) (body : list N) : wire :=
  {| w_kind := WReply; w_src := Some d; w_hdr := d_m d; w_rid := rid; w_ps := c_seq c; w_body := body |}.

(* defaultReplyEvent: the head of msgChan is answered iff [answered] says so, and then with the
   reply type of the standard's table and the body of the registered type *)
Lemma writer_reply_spec c d q : c_q c = d :: q ->
  if answered d then
    exists rid body h',
      std_reply_id (m_id (d_m d)) = Some rid /\ 0 < rid < 65536 /\
      reply_body (kind_of_id (m_id (d_m d))) (c_h c) (d_m d) = (h', Some body) /\
      writer_reply c = emit c q (c_rq c) h' (reply_wire c d rid body)
                         [OWriteH d (wire_bytes (reply_wire c d rid body));
                          OWriteE d (wire_bytes (reply_wire c d rid body))]
  else exists h', writer_reply c = quiet c q (c_rq c) h' /\
       (h' = c_h c \/ exists k, h' = fst (reply_body k (c_h c) (d_m d))).
Proof.
  intros Hq. unfold writer_reply. rewrite Hq.
  destruct (has_complete d) eqn:Hc.
  2:{ rewrite (answered_incomplete d Hc). eauto. }
  destruct (lookup (m_id (d_m d))) as [hi|] eqn:Hl.
  2:{ rewrite (answered_unreg d Hl). eauto. }
  destruct (hi_has hi) eqn:Hh.
  2:{ unfold answered. rewrite (lookup_silent _ _ Hl Hh), andb_false_r. eauto. }
  destruct (lookup_answer _ _ Hl Hh) as (Hr & Hk & Hrid).
  rewrite Hk.
  pose proof (reply_body_none (m_id (d_m d)) (c_h c) (d_m d) eq_refl) as Hn.
  destruct (reply_body (kind_of_id (m_id (d_m d))) (c_h c) (d_m d)) as [h' [body|]] eqn:Hb; cbn [snd] in Hn.
  - assert (A : answered d = true).
    { unfold answered. rewrite Hc, Hr. cbn [andb].
      destruct (auth_too_short (d_m d)); [|reflexivity]. destruct Hn as [_ Hn]. discriminate (Hn eq_refl). }
    rewrite A. exists (hi_rid hi), body, h'. repeat split; auto; lia.
  - assert (A : answered d = false).
    { unfold answered. rewrite Hc, Hr. cbn [andb]. destruct Hn as [Hn _]. now rewrite (Hn eq_refl). }
    rewrite A. exists h'. split; auto. right. exists (kind_of_id (m_id (d_m d))). now rewrite Hb.
Qed.

Lemma reply_wire_ok c d rid body h' :
  std_reply_id (m_id (d_m d)) = Some rid ->
  reply_body (kind_of_id (m_id (d_m d))) (c_h c) (d_m d) = (h', Some body) ->
  reply_ok (reply_wire c d rid body).
Proof.
  intros Hr Hb. unfold reply_ok, reply_wire. cbn [w_src w_hdr w_rid w_body].
  repeat split; auto. intros W B. apply (reply_body_std (c_h c)); auto. now rewrite Hb.
Qed.

(* ------------------------------------------------------------------------------------------ *)
(* Every schedule: the automatic replies are the answered messages, in arrival order          *)
(* ------------------------------------------------------------------------------------------ *)
Definition hand_l (c : conn) : list dmsg := match c_hand c with Some d => [d] | None => [] end.
(* answered messages the connection still holds, in arrival order *)
Definition phi (c : conn) : list dmsg := filter answered (c_q c ++ hand_l c ++ c_pending c).

Lemma replies_emit w cb :
  (forall o, In o cb -> match o with OWrite _ => False | _ => True end) ->
  writes (OWrite w :: cb) = [w].
Proof.
  intros H. unfold writes. cbn [flat_map app]. f_equal.
  induction cb as [|o cb IH]; cbn [flat_map]. reflexivity.
  pose proof (H o (or_introl eq_refl)) as Ho. destruct o; try contradiction; cbn [app]; apply IH;
    intros o' Ho'; apply H; now right.
Qed.

Lemma writes_cb2 w a b d1 d2 : writes [OWrite w; OWriteH d1 a; OWriteE d2 b] = [w].
Proof. reflexivity. Qed.
Lemma writes_cb0 w : writes [OWrite w] = [w].
Proof. reflexivity. Qed.

Lemma phi_step c mv : mv <> MAbsorb ->
  srcs (replies (snd (step c mv))) ++ phi (fst (step c mv)) = phi c.
Proof.
  intros Hmv. destruct c as [pend hand q rq sq h]. unfold phi, hand_l.
  destruct mv as [| | | | |hh cmd body]; cbn [step]; try congruence.
  - (* MLook *)
    unfold reader_look. cbn [c_hand c_pending c_q c_rq c_seq c_h].
    destruct hand as [d0|]; [reflexivity|]. destruct pend as [|d rest]; [reflexivity|].
    destruct (lookup (m_id (d_m d))) eqn:Hl; cbn [fst snd c_hand c_pending c_q].
    + replace (srcs (replies (if is_reissue d then [] else if has_complete d then [OReadH d; OReadE d] else []))) with (@nil dmsg)
        by (destruct (is_reissue d), (has_complete d); reflexivity).
      reflexivity.
    + cbn [replies writes flat_map app filter srcs].
      rewrite !filter_app. cbn [filter]. now rewrite (answered_unreg d Hl).
  - (* MSend *)
    unfold reader_send. cbn [c_hand c_pending c_q c_rq c_seq c_h].
    destruct hand as [d|]; [|reflexivity].
    destruct (is_reissue d) eqn:Hr.
    + destruct (len rq <? REISSUE_CAP); [|reflexivity]. cbn [fst snd c_hand c_pending c_q app].
      cbn [replies writes flat_map app filter srcs].
      rewrite !filter_app. cbn [filter]. now rewrite (answered_reissue d Hr).
    + destruct (len q <? MSG_CAP); [|reflexivity]. cbn [fst snd c_hand c_pending c_q app].
      cbn [replies writes flat_map filter srcs]. now rewrite <- app_assoc.
  - (* MReply *)
    destruct q as [|d q]; [reflexivity|].
    pose proof (writer_reply_spec {| c_pending := pend; c_hand := hand; c_q := d :: q; c_rq := rq; c_seq := sq; c_h := h |} d q eq_refl) as S.
    cbn [c_hand c_pending c_q app filter]. destruct (answered d).
    + destruct S as (rid & body & h' & _ & _ & _ & ->). unfold emit. cbn [fst snd c_hand c_pending c_q].
      unfold replies. rewrite writes_cb2. reflexivity.
    + destruct S as (h' & -> & _). reflexivity.
  - (* MRereq *)
    unfold writer_rereq. cbn [c_hand c_pending c_q c_rq c_seq c_h].
    destruct rq as [|d rq']; [reflexivity|]. unfold emit. cbn [fst snd c_hand c_pending c_q].
    destruct (has_complete d); reflexivity.
  - (* MCmd *) reflexivity.
Qed.

Lemma no_absorb_cons mv s : no_absorb (mv :: s) = true -> mv <> MAbsorb /\ no_absorb s = true.
Proof.
  unfold no_absorb. cbn [forallb]. intros H. apply andb_true_iff in H. destruct H as [H1 H2].
  split; auto. intros ->. discriminate.
Qed.

(* at every moment of every history: replies written so far ++ answered messages still held
   = the answered messages, in arrival order *)
Theorem replies_any_schedule c s : no_absorb s = true ->
  srcs (replies (trace c s)) ++ phi (final c s) = phi c.
Proof.
  revert c. induction s as [|mv s IH]; intros c H. reflexivity.
  apply no_absorb_cons in H. destruct H as [H1 H2].
  rewrite trace_cons, final_cons, replies_app, srcs_app, <- app_assoc, IH by assumption.
  now apply phi_step.
Qed.

Lemma phi_init ms : phi (init ms) = filter answered ms.
Proof. reflexivity. Qed.

Lemma phi_drained c : drained c = true -> phi c = [].
Proof.
  destruct c as [pend hand q rq sq h]. unfold drained, phi, hand_l. cbn [c_pending c_hand c_q c_rq].
  destruct pend; [|discriminate]. destruct hand; [discriminate|]. destruct q; [|discriminate]. reflexivity.
Qed.

(* every automatic reply is the one the standard prescribes for its request *)
Lemma step_replies_ok c mv : Forall reply_ok (replies (snd (step c mv))).
Proof.
  destruct c as [pend hand q rq sq h].
  destruct mv as [| | | | |hh cmd body]; cbn [step].
  - unfold reader_look. cbn [c_hand c_pending].
    destruct hand; [constructor|]. destruct pend as [|d rest]; [constructor|].
    destruct (lookup (m_id (d_m d))); cbn [snd]; [|constructor].
    destruct (is_reissue d), (has_complete d); constructor.
  - unfold reader_send. cbn [c_hand c_rq c_q]. destruct hand as [d|]; [|constructor].
    destruct (is_reissue d); [destruct (len rq <? REISSUE_CAP)|destruct (len q <? MSG_CAP)]; constructor.
  - destruct q as [|d q]; [constructor|].
    set (c := {| c_pending := pend; c_hand := hand; c_q := d :: q; c_rq := rq; c_seq := sq; c_h := h |}).
    pose proof (writer_reply_spec c d q eq_refl) as S.
    destruct (answered d).
    + destruct S as (rid & body & h' & Hr & _ & Hb & ->). unfold emit. cbn [snd].
      unfold replies. rewrite writes_cb2. cbn [filter is_reply_wire reply_wire w_kind].
      constructor; [|constructor]. eapply reply_wire_ok; eauto.
    + destruct S as (h' & -> & _). constructor.
  - unfold writer_absorb. cbn [c_q]. destruct q as [|d q]; [constructor|].
    destruct (is_response d && has_complete d); constructor.
  - unfold writer_rereq. cbn [c_rq]. destruct rq as [|d rq']; [constructor|]. unfold emit. cbn [snd].
    destruct (has_complete d); constructor.
  - constructor.
Qed.

Theorem replies_ok_any_schedule c s : Forall reply_ok (replies (trace c s)).
Proof.
  revert c. induction s as [|mv s IH]; intros c. constructor.
  rewrite trace_cons, replies_app. apply Forall_app. split; [apply step_replies_ok|apply IH].
Qed.

(* ------------------------------------------------------------------------------------------ *)
(* Sizes: every automatic reply is a frame the decoder accepts                                *)
(* ------------------------------------------------------------------------------------------ *)
Lemma reply_body_hstate k st m : hstate_ok st -> bytes (m_body m) -> hstate_ok (fst (reply_body k st m)).
Proof.
  unfold hstate_ok. intros Hs Hb. destruct k; unfold reply_body; cbv beta iota zeta; cbn [fst]; auto.
  - destruct (auth_code m); cbn [fst]; auto.
  - destruct (len (m_body m) <? 36); cbn [fst s_fname]; auto.
  - destruct (len (m_body m) <? 6); cbn [fst]; auto.
    destruct (negb (len (m_body m) =? 6 + at_ (m_body m) 0)); cbn [s_fname]; auto.
    pose proof (sub_length_le (m_body m) 1 (1 + at_ (m_body m) 0)).
    pose proof (bytes_at0 _ Hb). lia.
Qed.

Definition conn_wf (c : conn) : Prop :=
  Forall dmsg_wf (c_q c) /\ Forall dmsg_wf (c_rq c) /\ Forall dmsg_wf (hand_l c) /\
  Forall dmsg_wf (c_pending c) /\ hstate_ok (c_h c) /\ c_seq c < 65536.

Definition wire_ok (w : wire) : Prop :=
  decoded_header (w_hdr w) /\ 0 < w_rid w < 65536 /\ w_ps w < 65536 /\ (length (w_body w) <= 1023)%nat.

Lemma next_seq_lt s : next_seq s < 65536.
Proof. unfold next_seq. lia. Qed.

Lemma Forall_snoc {A} (P : A -> Prop) l x : Forall P l -> P x -> Forall P (l ++ [x]).
Proof. intros. apply Forall_app. split; auto. Qed.

Lemma step_wf c mv : conn_wf c ->
  conn_wf (fst (step c mv)) /\ Forall wire_ok (replies (snd (step c mv))).
Proof.
  destruct c as [pend hand q rq sq h]. unfold conn_wf, hand_l. cbn [c_pending c_hand c_q c_rq c_seq c_h].
  intros (Wq & Wrq & Wh & Wp & Hh & Hs).
  destruct mv as [| | | | |hh cmd body]; cbn [step].
  - unfold reader_look. cbn [c_hand c_pending c_q c_rq c_seq c_h].
    destruct hand as [d0|]. { cbn [fst snd c_pending c_hand c_q c_rq c_seq c_h]. repeat split; auto. constructor. }
    destruct pend as [|d rest]. { cbn [fst snd c_pending c_hand c_q c_rq c_seq c_h]. repeat split; auto. constructor. }
    inversion Wp as [|? ? Wd Wrest]; subst.
    destruct (lookup (m_id (d_m d))); cbn [fst snd c_pending c_hand c_q c_rq c_seq c_h].
    + repeat split; auto. destruct (is_reissue d), (has_complete d); constructor.
    + repeat split; auto. constructor.
  - unfold reader_send. cbn [c_hand c_pending c_q c_rq c_seq c_h].
    destruct hand as [d|]. 2:{ cbn [fst snd c_pending c_hand c_q c_rq c_seq c_h]. repeat split; auto. constructor. }
    inversion Wh as [|? ? Wd _]; subst.
    destruct (is_reissue d).
    + destruct (len rq <? REISSUE_CAP); cbn [fst snd c_pending c_hand c_q c_rq c_seq c_h];
        repeat split; auto using Forall_snoc; constructor.
    + destruct (len q <? MSG_CAP); cbn [fst snd c_pending c_hand c_q c_rq c_seq c_h];
        repeat split; auto using Forall_snoc; constructor.
  - destruct q as [|d q]. { cbn [writer_reply c_q fst snd c_pending c_hand c_rq c_seq c_h]. repeat split; auto. constructor. }
    inversion Wq as [|? ? Wd Wq']; subst. destruct Wd as [Wd1 Wd2].
    set (c := {| c_pending := pend; c_hand := hand; c_q := d :: q; c_rq := rq; c_seq := sq; c_h := h |}).
    pose proof (writer_reply_spec c d q eq_refl) as S.
    destruct (answered d).
    + destruct S as (rid & body & h' & Hr & Hrid & Hb & ->). unfold emit. cbn [fst snd c_pending c_hand c_q c_rq c_seq c_h].
      destruct (reply_body_size _ _ _ _ _ Hb Hh Wd1 Wd2) as [Sz Hh'].
      repeat split; auto using next_seq_lt.
      unfold replies. rewrite writes_cb2. cbn [filter is_reply_wire reply_wire w_kind].
      constructor; [|constructor]. unfold wire_ok. cbn [reply_wire w_hdr w_rid w_ps w_body c_seq c].
      split; [exact Wd1|]. repeat split; auto; lia.
    + destruct S as (h' & -> & Hh'). unfold quiet. cbn [fst snd c_pending c_hand c_q c_rq c_seq c_h].
      repeat split; auto; [|constructor].
      destruct Hh' as [->|[k ->]]; auto. now apply reply_body_hstate.
  - unfold writer_absorb. cbn [c_q]. destruct q as [|d q]; [cbn [fst snd c_pending c_hand c_q c_rq c_seq c_h]; repeat split; auto; constructor|].
    inversion Wq; subst.
    destruct (is_response d && has_complete d); cbn [fst snd c_pending c_hand c_q c_rq c_seq c_h]; repeat split; auto; constructor; auto.
  - unfold writer_rereq. cbn [c_rq]. destruct rq as [|d rq']; [cbn [fst snd c_pending c_hand c_q c_rq c_seq c_h]; repeat split; auto; constructor|].
    inversion Wrq; subst. unfold emit. cbn [fst snd c_pending c_hand c_q c_rq c_seq c_h].
    repeat split; auto using next_seq_lt. destruct (has_complete d); constructor.
  - unfold writer_cmd, emit. cbn [fst snd c_pending c_hand c_q c_rq c_seq c_h].
    repeat split; auto using next_seq_lt. constructor.
Qed.

Lemma trace_wf c s : conn_wf c -> Forall wire_ok (replies (trace c s)) /\ conn_wf (final c s).
Proof.
  revert c. induction s as [|mv s IH]; intros c W. { split; [constructor|exact W]. }
  destruct (step_wf c mv W) as [W1 W2]. destruct (IH _ W1) as [I1 I2].
  rewrite trace_cons, final_cons, replies_app. split; auto. apply Forall_app. auto.
Qed.

Lemma init_wf ms : Forall dmsg_wf ms -> conn_wf (init ms).
Proof.
  intros H. unfold conn_wf, init, hand_l, hstate_ok. cbn [c_q c_rq c_hand c_pending c_h c_seq hstate0 s_fname length].
  repeat split; auto; try constructor. lia.
Qed.

(* the decoded reply: type, addressing, platform serial, no fragment, body *)
Lemma wire_decodes w : wire_ok w ->
  decode (wire_bytes w) = Ok (encoded_msg (w_hdr w) (w_rid w) (w_ps w) (w_body w)).
Proof.
  intros (H1 & H2 & H3 & H4). unfold wire_bytes. apply decode_encode; auto. lia.
Qed.

Lemma reply_decoded w d : wire_ok w -> reply_ok w -> w_src w = Some d ->
  exists r, decode (wire_bytes w) = Ok r /\
    Some (m_id r) = std_reply_id (m_id (d_m d)) /\
    m_ver r = m_ver (d_m d) /\ m_bcd r = m_bcd (d_m d) /\ phone_of r = phone_of (d_m d) /\
    m_serial r = w_ps w /\ m_frag r = 0 /\ m_enc r = m_enc (d_m d) /\
    (body_wf (d_m d) = true -> bytes (m_body (d_m d)) -> m_body r = std_body (d_m d)).
Proof.
  intros Wo Ro Hs. exists (encoded_msg (w_hdr w) (w_rid w) (w_ps w) (w_body w)).
  split. now apply wire_decodes.
  unfold reply_ok in Ro. rewrite Hs in Ro. destruct Ro as (Rh & Rr & Rb).
  destruct Wo as (_ & Hrid & _ & _).
  unfold encoded_msg, phone_of. cbn [m_id m_ver m_bcd m_serial m_frag m_enc m_body].
  replace (w_rid w =? 0) with false by lia. rewrite Rh. repeat split; auto.
Qed.

(* ------------------------------------------------------------------------------------------ *)
(* Platform serial numbers of everything written                                              *)
(* ------------------------------------------------------------------------------------------ *)
Lemma step_seq c mv :
  (writes (snd (step c mv)) = [] /\ c_seq (fst (step c mv)) = c_seq c) \/
  (exists w, writes (snd (step c mv)) = [w] /\ w_ps w = c_seq c /\ c_seq (fst (step c mv)) = next_seq (c_seq c)).
Proof.
  destruct c as [pend hand q rq sq h].
  destruct mv as [| | | | |hh cmd body]; cbn [step].
  - left. unfold reader_look. cbn [c_hand c_pending c_q c_rq c_seq c_h].
    destruct hand; [split; reflexivity|]. destruct pend as [|d rest]; [split; reflexivity|].
    destruct (lookup (m_id (d_m d))); cbn [fst snd c_seq]; [|split; reflexivity].
    destruct (is_reissue d), (has_complete d); split; reflexivity.
  - left. unfold reader_send. cbn [c_hand c_pending c_q c_rq c_seq c_h]. destruct hand as [d|]; [|split; reflexivity].
    destruct (is_reissue d); [destruct (len rq <? REISSUE_CAP)|destruct (len q <? MSG_CAP)]; split; reflexivity.
  - destruct q as [|d q]; [left; split; reflexivity|].
    set (c := {| c_pending := pend; c_hand := hand; c_q := d :: q; c_rq := rq; c_seq := sq; c_h := h |}).
    pose proof (writer_reply_spec c d q eq_refl) as S.
    destruct (answered d).
    + destruct S as (rid & body & h' & _ & _ & _ & ->). right. eexists. unfold emit. cbn [fst snd c_seq].
      rewrite writes_cb2. repeat split; reflexivity.
    + destruct S as (h' & -> & _). left. split; reflexivity.
  - left. unfold writer_absorb. cbn [c_q]. destruct q as [|d q]; [split; reflexivity|].
    destruct (is_response d && has_complete d); split; reflexivity.
  - unfold writer_rereq. cbn [c_rq]. destruct rq as [|d rq']; [left; split; reflexivity|]. right.
    eexists. unfold emit. cbn [fst snd c_seq]. destruct (has_complete d); repeat split; reflexivity.
  - right. eexists. unfold writer_cmd, emit. cbn [fst snd c_seq]. repeat split; reflexivity.
Qed.

Lemma seq_map_shift {B} (f : nat -> B) n : map f (seq 1 n) = map (fun k => f (S k)) (seq 0 n).
Proof. rewrite <- seq_shift, map_map. reflexivity. Qed.

Theorem serials_any_schedule c s : c_seq c < 65536 ->
  map w_ps (writes (trace c s)) =
  map (fun k => (c_seq c + N.of_nat k) mod 65536) (seq 0 (length (writes (trace c s)))).
Proof.
  revert c. induction s as [|mv s IH]; intros c H. reflexivity.
  rewrite trace_cons, writes_app.
  destruct (step_seq c mv) as [[E1 E2]|(w & E1 & E2 & E3)]; rewrite E1.
  - cbn [app]. rewrite IH, E2 by (rewrite E2; exact H). reflexivity.
  - cbn [app map length seq]. rewrite seq_map_shift, IH by (rewrite E3; apply next_seq_lt).
    rewrite E2, E3. f_equal.
    + rewrite N.add_0_r. symmetry. apply N.mod_small. exact H.
    + apply map_ext. intros k. unfold next_seq. rewrite Nat2N.inj_succ. lia.
Qed.

Lemma serials_init ms s :
  map w_ps (writes (trace (init ms) s)) = map serial_no (seq 0 (length (writes (trace (init ms) s)))).
Proof.
  rewrite serials_any_schedule by (cbn; lia). apply map_ext. intros k. reflexivity.
Qed.

(* ------------------------------------------------------------------------------------------ *)
(* Callbacks                                                                                  *)
(* ------------------------------------------------------------------------------------------ *)
Lemma lookup_registered id hi : lookup id = Some hi -> std_registered id = true.
Proof. intros H. pose proof (reply_table id) as [T _]. rewrite H in T. auto. Qed.
Lemma lookup_unregistered id : lookup id = None -> std_registered id = false.
Proof. intros H. now apply lookup_none in H. Qed.

(* reader side: one report per delivered message, in delivery order *)
Lemma reader_step c mv :
  reader_obs (snd (step c mv)) ++ flat_map read_report (c_pending (fst (step c mv)))
  = flat_map read_report (c_pending c).
Proof.
  destruct c as [pend hand q rq sq h].
  destruct mv as [| | | | |hh cmd body]; cbn [step].
  - unfold reader_look. cbn [c_hand c_pending c_q c_rq c_seq c_h].
    destruct hand; [reflexivity|]. destruct pend as [|d rest]; [reflexivity|].
    cbn [flat_map]. unfold read_report at 2. unfold handled.
    destruct (lookup (m_id (d_m d))) eqn:Hl; cbn [fst snd c_pending].
    + rewrite (lookup_registered _ _ Hl). cbn [negb andb].
      destruct (is_reissue d), (has_complete d); reflexivity.
    + rewrite (lookup_unregistered _ Hl). reflexivity.
  - unfold reader_send. cbn [c_hand c_pending c_q c_rq c_seq c_h]. destruct hand as [d|]; [|reflexivity].
    destruct (is_reissue d); [destruct (len rq <? REISSUE_CAP)|destruct (len q <? MSG_CAP)]; reflexivity.
  - destruct q as [|d q]; [reflexivity|].
    set (c := {| c_pending := pend; c_hand := hand; c_q := d :: q; c_rq := rq; c_seq := sq; c_h := h |}).
    pose proof (writer_reply_spec c d q eq_refl) as S.
    destruct (answered d).
    + destruct S as (rid & body & h' & _ & _ & _ & ->). reflexivity.
    + destruct S as (h' & -> & _). reflexivity.
  - unfold writer_absorb. cbn [c_q]. destruct q as [|d q]; [reflexivity|].
    destruct (is_response d && has_complete d); reflexivity.
  - unfold writer_rereq. cbn [c_rq]. destruct rq as [|d rq']; [reflexivity|]. unfold emit. cbn [fst snd c_pending].
    destruct (has_complete d); reflexivity.
  - reflexivity.
Qed.

Theorem reader_reports c s :
  reader_obs (trace c s) ++ flat_map read_report (c_pending (final c s)) = flat_map read_report (c_pending c).
Proof.
  revert c. induction s as [|mv s IH]; intros c. reflexivity.
  rewrite trace_cons, final_cons, reader_obs_app, <- app_assoc, IH. apply reader_step.
Qed.

Lemma answered_complete d : answered d = true -> has_complete d = true.
Proof. unfold answered. intros H. apply andb_true_iff in H. tauto. Qed.

(* writer side: every write is followed at once by its write callbacks, carrying the bytes sent *)
Lemma writer_step c mv : writer_obs (snd (step c mv)) = flat_map wire_report (writes (snd (step c mv))).
Proof.
  destruct c as [pend hand q rq sq h].
  destruct mv as [| | | | |hh cmd body]; cbn [step].
  - unfold reader_look. cbn [c_hand c_pending c_q c_rq c_seq c_h].
    destruct hand; [reflexivity|]. destruct pend as [|d rest]; [reflexivity|].
    destruct (lookup (m_id (d_m d))); cbn [snd]; [|reflexivity].
    destruct (is_reissue d), (has_complete d); reflexivity.
  - unfold reader_send. cbn [c_hand c_pending c_q c_rq c_seq c_h]. destruct hand as [d|]; [|reflexivity].
    destruct (is_reissue d); [destruct (len rq <? REISSUE_CAP)|destruct (len q <? MSG_CAP)]; reflexivity.
  - destruct q as [|d q]; [reflexivity|].
    set (c := {| c_pending := pend; c_hand := hand; c_q := d :: q; c_rq := rq; c_seq := sq; c_h := h |}).
    pose proof (writer_reply_spec c d q eq_refl) as S.
    destruct (answered d) eqn:A.
    + destruct S as (rid & body & h' & _ & _ & _ & ->). unfold emit. cbn [snd].
      rewrite writes_cb2. cbn [flat_map app]. unfold wire_report.
      cbn [reply_wire w_kind w_src]. rewrite (answered_complete d A). reflexivity.
    + destruct S as (h' & -> & _). reflexivity.
  - unfold writer_absorb. cbn [c_q]. destruct q as [|d q]; [reflexivity|].
    destruct (is_response d && has_complete d); reflexivity.
  - unfold writer_rereq. cbn [c_rq]. destruct rq as [|d rq']; [reflexivity|]. unfold emit. cbn [snd].
    destruct (has_complete d) eqn:Hc.
    + rewrite writes_cb2. cbn [flat_map app]. unfold wire_report. cbn [w_kind w_src]. rewrite Hc. reflexivity.
    + rewrite writes_cb0. cbn [flat_map app]. unfold wire_report. cbn [w_kind w_src]. rewrite Hc. reflexivity.
  - reflexivity.
Qed.

Theorem writer_reports c s : writer_obs (trace c s) = flat_map wire_report (writes (trace c s)).
Proof.
  revert c. induction s as [|mv s IH]; intros c. reflexivity.
  rewrite trace_cons, writer_obs_app, writes_app, flat_map_app, IH, writer_step. reflexivity.
Qed.

(* read callback before the reply: the replies written so far answer messages whose read callbacks
   have already run *)
Definition psi (c : conn) : list dmsg := filter answered (c_q c ++ hand_l c).

Lemma answered_handled d : answered d = true -> is_reissue d = false /\ has_complete d = true.
Proof.
  intros A. split; [|now apply answered_complete].
  destruct (is_reissue d) eqn:R; auto. rewrite (answered_reissue d R) in A. discriminate.
Qed.

Lemma rbw_step c mv : mv <> MAbsorb ->
  psi c ++ filter answered (read_srcs (snd (step c mv))) =
  srcs (replies (snd (step c mv))) ++ psi (fst (step c mv)).
Proof.
  intros Hmv. destruct c as [pend hand q rq sq h]. unfold psi, hand_l.
  destruct mv as [| | | | |hh cmd body]; cbn [step]; try congruence.
  - unfold reader_look. cbn [c_hand c_pending c_q c_rq c_seq c_h].
    destruct hand as [d0|]; [cbn [fst snd read_srcs flat_map filter replies writes srcs app]; now rewrite app_nil_r|].
    destruct pend as [|d rest]; [cbn [fst snd read_srcs flat_map filter replies writes srcs app]; now rewrite app_nil_r|].
    destruct (lookup (m_id (d_m d))) eqn:Hl; cbn [fst snd c_hand c_q].
    + rewrite !filter_app. cbn [filter app].
      destruct (answered d) eqn:A.
      * destruct (answered_handled d A) as [-> ->]. cbn [read_srcs flat_map app filter]. rewrite A.
        change (srcs (replies [OReadH d; OReadE d])) with (@nil dmsg). now rewrite app_nil_r.
      * replace (filter answered (read_srcs (if is_reissue d then [] else if has_complete d then [OReadH d; OReadE d] else [])))
          with (@nil dmsg).
        2:{ destruct (is_reissue d), (has_complete d); cbn [read_srcs flat_map app filter]; try reflexivity. now rewrite A. }
        replace (srcs (replies (if is_reissue d then [] else if has_complete d then [OReadH d; OReadE d] else []))) with (@nil dmsg)
          by (destruct (is_reissue d), (has_complete d); reflexivity).
        cbn [app]. now rewrite !app_nil_r.
    + cbn [read_srcs flat_map filter replies writes srcs app]. now rewrite app_nil_r.
  - unfold reader_send. cbn [c_hand c_pending c_q c_rq c_seq c_h].
    destruct hand as [d|]; [|cbn [fst snd read_srcs flat_map filter replies writes srcs app]; now rewrite app_nil_r].
    destruct (is_reissue d) eqn:Hr.
    + destruct (len rq <? REISSUE_CAP); cbn [fst snd c_hand c_q read_srcs flat_map filter replies writes srcs app];
        rewrite ?app_nil_r; [|reflexivity].
      rewrite filter_app. cbn [filter]. rewrite (answered_reissue d Hr). now rewrite app_nil_r.
    + destruct (len q <? MSG_CAP); cbn [fst snd c_hand c_q read_srcs flat_map filter replies writes srcs app];
        now rewrite ?app_nil_r.
  - destruct q as [|d q]; [cbn [writer_reply c_q fst snd read_srcs flat_map filter replies writes srcs app]; now rewrite app_nil_r|].
    set (c := {| c_pending := pend; c_hand := hand; c_q := d :: q; c_rq := rq; c_seq := sq; c_h := h |}).
    pose proof (writer_reply_spec c d q eq_refl) as S.
    subst c. cbn [c_hand c_q app filter] in *. destruct (answered d).
    + destruct S as (rid & body & h' & _ & _ & _ & ->). unfold emit. cbn [fst snd c_hand c_q].
      unfold replies. rewrite writes_cb2. cbn [read_srcs flat_map app filter is_reply_wire reply_wire w_kind srcs w_src].
      now rewrite app_nil_r.
    + destruct S as (h' & -> & _). unfold quiet. cbn [fst snd c_hand c_q read_srcs flat_map filter replies writes srcs app].
      now rewrite app_nil_r.
  - unfold writer_rereq. cbn [c_hand c_pending c_q c_rq c_seq c_h].
    destruct rq as [|d rq']; [cbn [fst snd read_srcs flat_map filter replies writes srcs app]; now rewrite app_nil_r|].
    unfold emit. cbn [fst snd c_hand c_q]. destruct (has_complete d); cbn; now rewrite app_nil_r.
  - cbn. now rewrite app_nil_r.
Qed.

Theorem read_before_write c s R W : no_absorb s = true -> R = W ++ psi c ->
  R ++ filter answered (read_srcs (trace c s)) = W ++ srcs (replies (trace c s)) ++ psi (final c s).
Proof.
  revert c R W. induction s as [|mv s IH]; intros c R W H E.
  - cbn [trace final read_srcs flat_map filter replies writes srcs app]. now rewrite app_nil_r.
  - apply no_absorb_cons in H. destruct H as [H1 H2].
    rewrite trace_cons, final_cons, read_srcs_app, filter_app, replies_app, srcs_app.
    rewrite app_assoc.
    rewrite (IH (fst (step c mv)) (R ++ filter answered (read_srcs (snd (step c mv))))
                (W ++ srcs (replies (snd (step c mv)))) H2).
    + now rewrite <- !app_assoc.
    + rewrite E, <- !app_assoc. f_equal. now apply rbw_step.
Qed.

(* ------------------------------------------------------------------------------------------ *)
(* The sequential schedule (what the harness plays) is a complete history                     *)
(* ------------------------------------------------------------------------------------------ *)
Definition idle (c : conn) (ms : list dmsg) : Prop :=
  c_hand c = None /\ c_q c = [] /\ c_rq c = [] /\ c_pending c = ms.

Lemma seq_moves_idle c d rest : idle c (d :: rest) -> idle (final c (seq_moves d)) rest.
Proof.
  destruct c as [pend hand q rq sq h]. unfold idle. cbn [c_hand c_q c_rq c_pending].
  intros (-> & -> & -> & ->). unfold seq_moves. rewrite !final_cons. cbn [final].
  cbn [step]. unfold reader_look. cbn [c_hand c_pending c_q c_rq c_seq c_h].
  destruct (lookup (m_id (d_m d))) eqn:Hl; cbn [fst].
  - unfold reader_send. cbn [c_hand c_pending c_q c_rq c_seq c_h].
    destruct (is_reissue d) eqn:Hr.
    + change (len (@nil dmsg) <? REISSUE_CAP) with true. cbn [fst app step].
      unfold writer_rereq, emit. cbn [c_rq fst c_hand c_q c_pending]. auto.
    + change (len (@nil dmsg) <? MSG_CAP) with true. cbn [fst app step].
      match goal with |- context [writer_reply ?c] => pose proof (writer_reply_spec c d [] eq_refl) as S end.
      destruct (answered d).
      * destruct S as (rid & body & h' & _ & _ & _ & ->). unfold emit. cbn [fst c_rq c_hand c_q c_pending]. auto.
      * destruct S as (h' & -> & _). unfold quiet. cbn [fst c_rq c_hand c_q c_pending]. auto.
  - unfold reader_send. cbn [c_hand fst].
    destruct (is_reissue d); cbn [step]; unfold writer_rereq, writer_reply; cbn [c_rq c_q fst c_hand c_pending]; auto.
Qed.

Lemma idle_drained c : idle c [] -> drained c = true.
Proof. destruct c as [pend hand q rq sq h]. unfold idle, drained. cbn. intros (-> & -> & -> & ->). reflexivity. Qed.

Lemma seq_sched_idle ms : forall c, idle c ms -> idle (final c (seq_sched ms)) [].
Proof.
  induction ms as [|d ms IH]; intros c I. exact I.
  unfold seq_sched. cbn [flat_map]. rewrite final_app. apply IH. now apply seq_moves_idle.
Qed.

Lemma seq_sched_no_absorb ms : no_absorb (seq_sched ms) = true.
Proof.
  induction ms as [|d ms IH]. reflexivity.
  unfold seq_sched, no_absorb in *. cbn [flat_map seq_moves app forallb]. rewrite IH.
  destruct (is_reissue d); reflexivity.
Qed.

Lemma init_idle ms : idle (init ms) ms.
Proof. unfold idle, init. cbn. auto. Qed.

Lemma seq_sched_drained ms : drained (final (init ms) (seq_sched ms)) = true.
Proof. apply idle_drained, seq_sched_idle, init_idle. Qed.

(* conversations with platform commands in between (run_items) *)
Lemma cmd_idle c hh cmd body ms : idle c ms -> idle (fst (step c (MCmd hh cmd body))) ms.
Proof. destruct c. unfold idle. cbn. auto. Qed.

Lemma response_registered d : is_response d = true ->
  (exists hi, lookup (m_id (d_m d)) = Some hi) /\ is_reissue d = false.
Proof.
  unfold is_response, is_reissue, REISSUE. intros R. apply existsb_exists in R. destruct R as [x [Hin E]].
  apply N.eqb_eq in E. rewrite E. unfold response_ids in Hin. cbn [In] in Hin.
  repeat (destruct Hin as [<-|Hin]; [split; [eexists; reflexivity|reflexivity]|]). contradiction.
Qed.

(* an outstanding command, then its response: written, looked at, queued, absorbed *)
Lemma ask_moves_idle c hh cmd body d rest : idle c (d :: rest) ->
  is_response d = true -> has_complete d = true ->
  idle (final c [MCmd hh cmd body; MLook; MSend; MAbsorb]) rest.
Proof.
  destruct c as [pend hand q rq sq h]. unfold idle. cbn [c_hand c_q c_rq c_pending].
  intros (-> & -> & -> & ->) R C. destruct (response_registered d R) as [[hi Hl] Hr].
  rewrite !final_cons. cbn [final step]. unfold writer_cmd, emit. cbn [fst c_hand c_pending c_q c_rq c_seq c_h].
  unfold reader_look. cbn [c_hand c_pending c_q c_rq c_seq c_h]. rewrite Hl. cbn [fst].
  unfold reader_send. cbn [c_hand c_pending c_q c_rq c_seq c_h]. rewrite Hr.
  change (len (@nil dmsg) <? MSG_CAP) with true. cbn [fst app].
  unfold writer_absorb. cbn [c_q]. rewrite R, C. cbn [andb fst c_hand c_q c_rq c_pending]. auto.
Qed.

Lemma asks_ok_cons it its : asks_ok (it :: its) = true ->
  (match it with IAsk _ _ d => is_response d = true /\ has_complete d = true | _ => True end) /\ asks_ok its = true.
Proof.
  unfold asks_ok. cbn [forallb]. intros H. apply andb_true_iff in H. destruct H as [H1 H2]. split; auto.
  destruct it; auto. apply andb_true_iff in H1. exact H1.
Qed.

Lemma items_moves_idle its : forall c h, asks_ok its = true -> idle c (items_msgs its) ->
  idle (final c (items_moves h its)) [].
Proof.
  induction its as [|[d|cmd body|cmd body d] its IH]; intros c h A I. exact I.
  - apply asks_ok_cons in A. destruct A as [_ A].
    cbn [items_moves]. rewrite final_app. apply IH; auto. apply seq_moves_idle. exact I.
  - apply asks_ok_cons in A. destruct A as [_ A].
    cbn [items_moves]. destruct h as [hh|]; cbn [app].
    + rewrite final_cons. apply IH; auto; try (apply cmd_idle; exact I).
    + apply IH; auto.
  - apply asks_ok_cons in A. destruct A as [[R C] A].
    cbn [items_moves]. rewrite final_app. apply IH; auto.
    destruct h as [hh|].
    + cbn [items_msgs flat_map app] in I. apply (ask_moves_idle c hh cmd body d _ I R C).
    + apply seq_moves_idle. exact I.
Qed.

Lemma no_asks_ok its : no_asks its = true -> asks_ok its = true.
Proof.
  unfold no_asks, asks_ok. induction its as [|it its IH]; cbn [forallb]; intros H. reflexivity.
  apply andb_true_iff in H. destruct H as [H1 H2]. rewrite (IH H2). destruct it; try reflexivity. discriminate.
Qed.

Lemma items_moves_no_absorb its : forall h, no_asks its = true -> no_absorb (items_moves h its) = true.
Proof.
  induction its as [|[d|cmd body|cmd body d] its IH]; intros h A. reflexivity.
  - cbn [no_asks forallb] in A. cbn [items_moves]. unfold no_absorb in *. rewrite forallb_app, IH by exact A.
    cbn [seq_moves forallb]. destruct (is_reissue d); reflexivity.
  - cbn [no_asks forallb] in A. cbn [items_moves]. unfold no_absorb in *. rewrite forallb_app, IH by exact A.
    destruct h; reflexivity.
  - discriminate A.
Qed.

(* ------------------------------------------------------------------------------------------ *)
(* Summary statements used by Props/C06.v                                                     *)
(* ------------------------------------------------------------------------------------------ *)

(* one reply per answered message, none for the others, in arrival order: every complete history *)
Theorem one_reply_each ms s : no_absorb s = true -> drained (final (init ms) s) = true ->
  srcs (replies (trace (init ms) s)) = filter answered ms /\
  Forall reply_ok (replies (trace (init ms) s)).
Proof.
  intros H D. split; [|apply replies_ok_any_schedule].
  pose proof (replies_any_schedule (init ms) s H) as R.
  rewrite (phi_drained _ D), app_nil_r, phi_init in R. exact R.
Qed.

(* ... and at every moment of every history the replies written so far are a prefix of it *)
Theorem replies_prefix ms s : no_absorb s = true ->
  exists later, srcs (replies (trace (init ms) s)) ++ later = filter answered ms.
Proof.
  intros H. exists (phi (final (init ms) s)). rewrite <- phi_init. now apply replies_any_schedule.
Qed.

Theorem one_reply_each_run ms :
  srcs (replies (run ms)) = filter answered ms /\ Forall reply_ok (replies (run ms)).
Proof. apply one_reply_each. apply seq_sched_no_absorb. apply seq_sched_drained. Qed.

Theorem one_reply_each_items its : no_asks its = true ->
  srcs (replies (run_items its)) = filter answered (items_msgs its) /\ Forall reply_ok (replies (run_items its)).
Proof.
  intros A. apply one_reply_each. now apply items_moves_no_absorb.
  apply idle_drained, items_moves_idle; [now apply no_asks_ok|apply init_idle].
Qed.

(* each reply decodes to: reply type, sender's phone and version, platform serial, prescribed body *)
Theorem correlation ms s w : Forall dmsg_wf ms -> no_absorb s = true ->
  In w (replies (trace (init ms) s)) ->
  exists d r, w_src w = Some d /\ In d ms /\ answered d = true /\
    decode (wire_bytes w) = Ok r /\
    Some (m_id r) = std_reply_id (m_id (d_m d)) /\
    m_ver r = m_ver (d_m d) /\ m_bcd r = m_bcd (d_m d) /\ phone_of r = phone_of (d_m d) /\
    m_serial r = w_ps w /\ m_frag r = 0 /\ m_enc r = m_enc (d_m d) /\
    (body_wf (d_m d) = true -> m_body r = std_body (d_m d)).
Proof.
  intros Wf Hs Hin.
  destruct (trace_wf (init ms) s (init_wf ms Wf)) as [Wo _].
  pose proof (replies_ok_any_schedule (init ms) s) as Ro.
  rewrite Forall_forall in Wo, Ro. specialize (Wo w Hin). specialize (Ro w Hin).
  destruct (w_src w) as [d|] eqn:Hsrc.
  2:{ unfold reply_ok in Ro. rewrite Hsrc in Ro. contradiction. }
  destruct (replies_prefix ms s Hs) as [later E].
  assert (Hd : In d (filter answered ms)).
  { rewrite <- E. apply in_or_app. left. unfold srcs. apply in_flat_map. exists w. split; auto.
    rewrite Hsrc. now left. }
  apply filter_In in Hd. destruct Hd as [Hd1 Hd2].
  destruct (reply_decoded w d Wo Ro Hsrc) as (r & R1 & R2 & R3 & R4 & R5 & R6 & R7 & R8 & R9).
  exists d, r. repeat split; auto.
  intros B. apply R9; auto. rewrite Forall_forall in Wf. apply (Wf d Hd1).
Qed.

(* platform serials of EVERYTHING written on the connection (replies, re-request echoes, commands) *)
Theorem serials ms s :
  map w_ps (writes (trace (init ms) s)) = map serial_no (seq 0 (length (writes (trace (init ms) s)))).
Proof. apply serials_init. Qed.

(* callbacks *)
Theorem callbacks_read ms s : reader_done (final (init ms) s) = true ->
  reader_obs (trace (init ms) s) = flat_map read_report ms.
Proof.
  intros D. pose proof (reader_reports (init ms) s) as R.
  unfold reader_done in D. destruct (c_pending (final (init ms) s)); [|discriminate].
  cbn [flat_map] in R. rewrite app_nil_r in R. exact R.
Qed.

Theorem callbacks_write ms s :
  writer_obs (trace (init ms) s) = flat_map wire_report (writes (trace (init ms) s)).
Proof. apply writer_reports. Qed.

Theorem callbacks_read_before_reply ms s : no_absorb s = true ->
  exists queued, filter answered (read_srcs (trace (init ms) s)) = srcs (replies (trace (init ms) s)) ++ queued.
Proof.
  intros H. exists (psi (final (init ms) s)).
  apply (read_before_write (init ms) s [] [] H). reflexivity.
Qed.

(* ------------------------------------------------------------------------------------------ *)
(* Non-vacuity and concrete witnesses                                                         *)
(* ------------------------------------------------------------------------------------------ *)
Lemma serial_wraps k : serial_no (k + N.to_nat 65536) = serial_no k.
Proof. unfold serial_no. rewrite Nat2N.inj_add, N2Nat.id. lia. Qed.

Lemma complete_history_exists ms :
  no_absorb (seq_sched ms) = true /\ drained (final (init ms) (seq_sched ms)) = true.
Proof. split. apply seq_sched_no_absorb. apply seq_sched_drained. Qed.

Lemma parse_payload_body p m : bytes p -> parse_payload p = Ok m -> bytes (m_body m).
Proof.
  intros Hp. unfold parse_payload.
  destruct (negb (xor_all p =? 0)); [discriminate|].
  destruct (len p <? 4); [discriminate|].
  destruct (len p <? _); [discriminate|].
  destruct (_ && _); [discriminate|].
  destruct (negb _); [discriminate|].
  intros H. apply (f_equal (fun r => match r with Ok x => x | _ => m end)) in H. cbv beta iota in H.
  rewrite <- H. clear H. cbn [m_body]. apply bytes_sub, Hp.
Qed.

Lemma decoded_dmsg_wf f m data c : bytes f -> decode f = Ok m ->
  dmsg_wf {| d_m := m; d_complete := c; d_data := data |}.
Proof.
  intros B D. split; cbn [d_m].
  - now apply (decode_gives_decoded_header f).
  - rewrite decode_unfold in D. destruct (unescape f) as [p| |] eqn:U; try discriminate. cbn [bind] in D.
    apply (parse_payload_body p); auto. now apply (unescape_bytes f).
Qed.

(* a terminal: phone 013800138000 (2013 header); heartbeat with serial 65535, registration with
   serial 7, a general response (not answered), an unsupported id, authentication with the phone as
   code *)
Definition ex_hdr : msg :=
  {| m_id := 0; m_len := 0; m_enc := 0; m_frag := 0; m_ver := 0; m_bcd := [1; 56; 0; 19; 128; 0];
     m_serial := 0; m_sum := 0; m_no := 0; m_body := []; m_check := 0 |}.
Definition ex_frames : list (list N) :=
  [ encode ex_hdr 0x0002 65535 [];
    encode ex_hdr 0x0100 7 [0; 31; 0; 110];
    encode ex_hdr 0x0001 8 [0; 1; 129; 3; 0];
    encode ex_hdr 0x0900 9 [1; 2];
    encode ex_hdr 0x0102 10 [49; 51; 56; 48; 48; 49; 51; 56; 48; 48; 48] ].
Definition ex_msgs : list dmsg :=
  flat_map (fun f => match decode f with
                     | Ok m => [{| d_m := m; d_complete := false; d_data := f |}]
                     | _ => [] end) ex_frames.

Lemma example_conversation :
  map wire_bytes (writes (run ex_msgs)) =
  [ [126; 128; 1; 0; 5; 1; 56; 0; 19; 128; 0; 0; 0; 255; 255; 0; 2; 0; 44; 126];
    [126; 129; 0; 0; 14; 1; 56; 0; 19; 128; 0; 0; 1; 0; 7; 0; 49; 51; 56; 48; 48; 49; 51; 56; 48; 48; 48; 19; 126];
    [126; 128; 1; 0; 5; 1; 56; 0; 19; 128; 0; 0; 2; 0; 10; 1; 2; 0; 37; 126] ] /\
  length ex_msgs = 5%nat /\ Forall dmsg_wf ex_msgs.
Proof.
  split; [vm_compute; reflexivity|]. split; [vm_compute; reflexivity|].
  unfold ex_msgs, ex_frames. cbn [flat_map].
  repeat match goal with
  | |- context [decode ?f] =>
    let H := fresh "D" in let B := fresh "B" in
    assert (B : bytes f) by (apply bytesb_spec; vm_compute; reflexivity);
    destruct (decode f) eqn:H; [|vm_compute in H; discriminate..];
    pose proof (decoded_dmsg_wf _ _ f false B H); clear B H
  end.
  cbn [app]. repeat (apply Forall_cons; [assumption|]). apply Forall_nil.
Qed.

(* ------------------------------------------------------------------------------------------ *)
(* The sequential conversation: EVERY frame written, in order (replies, 0x8003 echoes, commands) *)
(* ------------------------------------------------------------------------------------------ *)
Definition wtag (w : wire) : wkind * option dmsg := (w_kind w, w_src w).

(* what one delivered message makes the server write *)
Definition msg_writes (d : dmsg) : list (wkind * option dmsg) :=
  if is_reissue d then [(WRereq, Some d)] else if answered d then [(WReply, Some d)] else [].

Fixpoint items_writes (h : option msg) (its : list item) : list (wkind * option dmsg) :=
  match its with
  | [] => []
  | IMsg d :: t =>
    msg_writes d ++ items_writes (match h with Some _ => h | None => if joins d then Some (d_m d) else None end) t
  | ICmd _ _ :: t => (match h with Some _ => [(WCmd, None)] | None => [] end) ++ items_writes h t
  | IAsk _ _ d :: t =>
    (match h with Some _ => [(WCmd, None)] | None => msg_writes d end)
    ++ items_writes (match h with Some _ => h | None => if joins d then Some (d_m d) else None end) t
  end.

Lemma reissue_registered d : is_reissue d = true -> exists hi, lookup (m_id (d_m d)) = Some hi.
Proof.
  unfold is_reissue, REISSUE. intros H. apply N.eqb_eq in H. rewrite H. eexists. reflexivity.
Qed.

Lemma seq_moves_writes c d rest : idle c (d :: rest) ->
  map wtag (writes (trace c (seq_moves d))) = msg_writes d.
Proof.
  destruct c as [pend hand q rq sq h]. unfold idle. cbn [c_hand c_q c_rq c_pending].
  intros (-> & -> & -> & ->). unfold seq_moves, msg_writes. rewrite !trace_cons. cbn [trace]. rewrite app_nil_r.
  cbn [step]. unfold reader_look. cbn [c_hand c_pending c_q c_rq c_seq c_h].
  destruct (lookup (m_id (d_m d))) eqn:Hl; cbn [fst snd].
  - unfold reader_send. cbn [c_hand c_pending c_q c_rq c_seq c_h].
    destruct (is_reissue d) eqn:Hr.
    + change (len (@nil dmsg) <? REISSUE_CAP) with true. cbn [fst snd app step].
      unfold writer_rereq, emit. cbn [c_rq fst snd c_seq c_q c_h].
      destruct (has_complete d); reflexivity.
    + change (len (@nil dmsg) <? MSG_CAP) with true. cbn [fst snd app step].
      replace (writes (if has_complete d then [OReadH d; OReadE d] else [])) with (@nil wire)
        by (destruct (has_complete d); reflexivity).
      rewrite writes_app.
      replace (writes (if has_complete d then [OReadH d; OReadE d] else [])) with (@nil wire)
        by (destruct (has_complete d); reflexivity).
      cbn [app].
      match goal with |- context [writer_reply ?c] => pose proof (writer_reply_spec c d [] eq_refl) as S end.
      destruct (answered d).
      * destruct S as (rid & body & h' & _ & _ & _ & ->). unfold emit. cbn [snd]. rewrite writes_cb2. reflexivity.
      * destruct S as (h' & -> & _). reflexivity.
  - assert (Hr : is_reissue d = false).
    { destruct (is_reissue d) eqn:E; auto. destruct (reissue_registered d E) as [hi Hh]. congruence. }
    rewrite Hr, (answered_unreg d Hl). unfold reader_send. cbn [c_hand fst snd step].
    unfold writer_reply. cbn [c_q snd]. reflexivity.
Qed.

Lemma ask_moves_writes c hh cmd body d rest : idle c (d :: rest) ->
  is_response d = true -> has_complete d = true ->
  map wtag (writes (trace c [MCmd hh cmd body; MLook; MSend; MAbsorb])) = [(WCmd, None)].
Proof.
  destruct c as [pend hand q rq sq h]. unfold idle. cbn [c_hand c_q c_rq c_pending].
  intros (-> & -> & -> & ->) R C. destruct (response_registered d R) as [[hi Hl] Hr].
  rewrite !trace_cons. cbn [trace step]. unfold writer_cmd, emit. cbn [fst snd c_hand c_pending c_q c_rq c_seq c_h].
  unfold reader_look. cbn [c_hand c_pending c_q c_rq c_seq c_h]. rewrite Hl, Hr, C. cbn [fst snd].
  unfold reader_send. cbn [c_hand c_pending c_q c_rq c_seq c_h]. rewrite Hr.
  change (len (@nil dmsg) <? MSG_CAP) with true. cbn [fst snd app].
  unfold writer_absorb. cbn [c_q]. rewrite R, C. cbn [andb fst snd]. reflexivity.
Qed.

Theorem conversation_writes its : forall c h, asks_ok its = true -> idle c (items_msgs its) ->
  map wtag (writes (trace c (items_moves h its))) = items_writes h its.
Proof.
  induction its as [|[d|cmd body|cmd body d] its IH]; intros c h A I. reflexivity.
  - apply asks_ok_cons in A. destruct A as [_ A].
    cbn [items_moves items_writes]. rewrite trace_app, writes_app, map_app.
    cbn [items_msgs flat_map app] in I.
    rewrite (seq_moves_writes c d _ I). f_equal. apply IH; auto. now apply seq_moves_idle.
  - apply asks_ok_cons in A. destruct A as [_ A].
    cbn [items_moves items_writes]. destruct h as [hh|]; cbn [app].
    + rewrite trace_cons, writes_app, map_app.
      change ((WCmd, @None dmsg) :: items_writes (Some hh) its) with ([(WCmd, @None dmsg)] ++ items_writes (Some hh) its).
      f_equal. apply IH; auto; try (apply cmd_idle; exact I).
    + apply IH; auto.
  - apply asks_ok_cons in A. destruct A as [[R C] A].
    cbn [items_moves items_writes]. rewrite trace_app, writes_app, map_app.
    cbn [items_msgs flat_map app] in I.
    destruct h as [hh|].
    + rewrite (ask_moves_writes c hh cmd body d _ I R C). f_equal. apply IH; auto. apply (ask_moves_idle c hh cmd body d _ I R C).
    + rewrite (seq_moves_writes c d _ I). f_equal. apply IH; auto. now apply seq_moves_idle.
Qed.

Theorem conversation_writes_run its : asks_ok its = true ->
  map wtag (writes (run_items its)) = items_writes None its.
Proof. intros A. apply conversation_writes; auto. apply init_idle. Qed.

(* ------------------------------------------------------------------------------------------ *)
(* Histories WITH absorption (no [no_absorb] hypothesis)                                      *)
(* ------------------------------------------------------------------------------------------ *)
Lemma outcomes_app a b : outcomes (a ++ b) = outcomes a ++ outcomes b.
Proof. unfold outcomes. apply flat_map_app. Qed.
Lemma absorbed_app a b : absorbed (a ++ b) = absorbed a ++ absorbed b.
Proof. unfold absorbed. apply flat_map_app. Qed.

Lemma srcs_cons w l : srcs (w :: l) = srcs [w] ++ srcs l.
Proof. unfold srcs. cbn [flat_map]. now rewrite app_nil_r. Qed.

Lemma outcomes_no_absorb t : absorbed t = [] -> outcomes t = srcs (replies t).
Proof.
  induction t as [|o t IH]; intros H. reflexivity.
  change (o :: t) with ([o] ++ t) in *. rewrite absorbed_app in H. apply app_eq_nil in H. destruct H as [H1 H2].
  rewrite outcomes_app, replies_app, srcs_app, (IH H2). f_equal.
  destruct o; try reflexivity.
  - unfold outcomes, replies. cbn [flat_map writes app filter]. rewrite app_nil_r.
    destruct (is_reply_wire w); reflexivity.
  - discriminate H1.
Qed.

Lemma step_absorbed c mv : mv <> MAbsorb -> absorbed (snd (step c mv)) = [].
Proof.
  intros Hmv. destruct c as [pend hand q rq sq h].
  destruct mv as [| | | | |hh cmd body]; cbn [step]; try congruence.
  - unfold reader_look. cbn [c_hand c_pending c_q c_rq c_seq c_h].
    destruct hand; [reflexivity|]. destruct pend as [|d rest]; [reflexivity|].
    destruct (lookup (m_id (d_m d))); cbn [snd]; [|reflexivity].
    destruct (is_reissue d), (has_complete d); reflexivity.
  - unfold reader_send. cbn [c_hand c_pending c_q c_rq c_seq c_h]. destruct hand as [d|]; [|reflexivity].
    destruct (is_reissue d); [destruct (len rq <? REISSUE_CAP)|destruct (len q <? MSG_CAP)]; reflexivity.
  - destruct q as [|d q]; [reflexivity|].
    set (c := {| c_pending := pend; c_hand := hand; c_q := d :: q; c_rq := rq; c_seq := sq; c_h := h |}).
    pose proof (writer_reply_spec c d q eq_refl) as S.
    destruct (answered d).
    + destruct S as (rid & body & h' & _ & _ & _ & ->). reflexivity.
    + destruct S as (h' & -> & _). reflexivity.
  - unfold writer_rereq. cbn [c_rq]. destruct rq as [|d rq']; [reflexivity|]. unfold emit. cbn [snd].
    destruct (has_complete d); reflexivity.
  - reflexivity.
Qed.

Lemma absorb_step_shape c :
  (step c MAbsorb = (c, [])) \/
  (exists d q, c_q c = d :: q /\ is_response d = true /\ has_complete d = true /\
     step c MAbsorb = ({| c_pending := c_pending c; c_hand := c_hand c; c_q := q; c_rq := c_rq c;
                          c_seq := c_seq c; c_h := c_h c |}, [OAbsorb d])).
Proof.
  cbn [step]. unfold writer_absorb. destruct (c_q c) as [|d q] eqn:Q. now left.
  destruct (is_response d && has_complete d) eqn:E. 2:now left.
  apply andb_true_iff in E. destruct E as [E1 E2]. right. exists d, q. auto.
Qed.

Lemma outcomes_step c mv : outcomes (snd (step c mv)) ++ phi (fst (step c mv)) = phi c.
Proof.
  destruct mv as [| | | | |hh cmd body];
    try (rewrite outcomes_no_absorb by (apply step_absorbed; discriminate); apply phi_step; discriminate).
  destruct (absorb_step_shape c) as [->|(d & q & Q & _ & _ & ->)]. reflexivity.
  cbn [fst snd]. unfold phi, hand_l. cbn [c_q c_hand c_pending]. rewrite Q.
  cbn [outcomes flat_map app filter]. rewrite app_nil_r. destruct (answered d); reflexivity.
Qed.

(* every history, absorption included: the answered messages dealt with so far (by their automatic
   reply or by absorption), then those still held = the answered messages in arrival order *)
Theorem outcomes_any_schedule c s : outcomes (trace c s) ++ phi (final c s) = phi c.
Proof.
  revert c. induction s as [|mv s IH]; intros c. reflexivity.
  rewrite trace_cons, final_cons, outcomes_app, <- app_assoc, IH. apply outcomes_step.
Qed.

(* only complete messages with a response id are absorbed *)
Theorem absorbed_are_responses c s :
  Forall (fun d => is_response d = true /\ has_complete d = true) (absorbed (trace c s)).
Proof.
  revert c. induction s as [|mv s IH]; intros c. constructor.
  rewrite trace_cons, absorbed_app. apply Forall_app. split; [|apply IH].
  destruct mv as [| | | | |hh cmd body];
    try (rewrite step_absorbed by discriminate; constructor).
  destruct (absorb_step_shape c) as [->|(d & q & _ & R & C & ->)]. constructor.
  cbn [snd absorbed flat_map app]. constructor; auto.
Qed.

(* of the response ids only 0x1003 has an automatic reply *)
Lemma answered_response d : answered d = true -> is_response d = true -> m_id (d_m d) = 0x1003.
Proof.
  intros A R. unfold is_response in R. apply existsb_exists in R. destruct R as [x [Hin E]].
  apply N.eqb_eq in E. unfold answered in A. apply andb_true_iff in A. destruct A as [_ A].
  rewrite E in *. unfold response_ids in Hin. cbn [In] in Hin.
  repeat (destruct Hin as [<-|Hin]; [try reflexivity; vm_compute in A; discriminate A|]).
  contradiction.
Qed.

Lemma phi_step_no1003 c mv : Forall not_1003 (phi c) ->
  srcs (replies (snd (step c mv))) ++ phi (fst (step c mv)) = phi c.
Proof.
  intros F.
  destruct mv as [| | | | |hh cmd body]; try (apply phi_step; discriminate).
  destruct (absorb_step_shape c) as [->|(d & q & Q & R & _ & ->)]. reflexivity.
  cbn [fst snd]. unfold phi, hand_l in *. cbn [c_q c_hand c_pending]. rewrite Q in *.
  cbn [replies writes flat_map filter srcs app] in *.
  destruct (answered d) eqn:A; [|reflexivity].
  inversion F as [|? ? N1 _]; subst. exfalso. apply N1. now apply answered_response.
Qed.

Theorem replies_any_schedule_no1003 c s : Forall not_1003 (phi c) ->
  srcs (replies (trace c s)) ++ phi (final c s) = phi c.
Proof.
  revert c. induction s as [|mv s IH]; intros c F. reflexivity.
  pose proof (phi_step_no1003 c mv F) as S.
  assert (F' : Forall not_1003 (phi (fst (step c mv)))).
  { rewrite <- S in F. apply Forall_app in F. tauto. }
  rewrite trace_cons, final_cons, replies_app, srcs_app, <- app_assoc, (IH _ F'). exact S.
Qed.

(* summary statements *)
Theorem outcomes_each ms s : drained (final (init ms) s) = true ->
  outcomes (trace (init ms) s) = filter answered ms.
Proof.
  intros D. pose proof (outcomes_any_schedule (init ms) s) as R.
  rewrite (phi_drained _ D), app_nil_r, phi_init in R. exact R.
Qed.

Theorem outcomes_prefix ms s : exists later, outcomes (trace (init ms) s) ++ later = filter answered ms.
Proof. exists (phi (final (init ms) s)). rewrite <- phi_init. apply outcomes_any_schedule. Qed.

Theorem absorbed_answered_are_1003 ms s d :
  In d (absorbed (trace (init ms) s)) ->
  is_response d = true /\ has_complete d = true /\ (answered d = true -> m_id (d_m d) = 0x1003).
Proof.
  intros H. pose proof (absorbed_are_responses (init ms) s) as F. rewrite Forall_forall in F.
  destruct (F d H) as [R C]. repeat split; auto. intros A. now apply answered_response.
Qed.

Theorem one_reply_each_no1003 ms s : Forall not_1003 (filter answered ms) ->
  drained (final (init ms) s) = true ->
  srcs (replies (trace (init ms) s)) = filter answered ms /\
  Forall reply_ok (replies (trace (init ms) s)).
Proof.
  intros F D. split; [|apply replies_ok_any_schedule].
  pose proof (replies_any_schedule_no1003 (init ms) s) as R. rewrite phi_init in R. specialize (R F).
  rewrite (phi_drained _ D), app_nil_r in R. exact R.
Qed.

(* conversations with outstanding commands: every answered message is replied to or handed over *)
Theorem outcomes_items its : asks_ok its = true ->
  outcomes (run_items its) = filter answered (items_msgs its).
Proof.
  intros A. apply outcomes_each. apply idle_drained, items_moves_idle; auto. apply init_idle.
Qed.

(* ------------------------------------------------------------------------------------------ *)
(* Read callbacks of the Handler as well as of the TerminalEventer                            *)
(* ------------------------------------------------------------------------------------------ *)
Definition read_srcs_h (t : list obs) : list dmsg :=
  flat_map (fun o => match o with OReadH d => [d] | _ => [] end) t.
Lemma read_srcs_h_app a b : read_srcs_h (a ++ b) = read_srcs_h a ++ read_srcs_h b.
Proof. unfold read_srcs_h. apply flat_map_app. Qed.

Lemma read_srcs_h_step c mv : read_srcs_h (snd (step c mv)) = read_srcs (snd (step c mv)).
Proof.
  destruct c as [pend hand q rq sq h].
  destruct mv as [| | | | |hh cmd body]; cbn [step].
  - unfold reader_look. cbn [c_hand c_pending c_q c_rq c_seq c_h].
    destruct hand; [reflexivity|]. destruct pend as [|d rest]; [reflexivity|].
    destruct (lookup (m_id (d_m d))); cbn [snd]; [|reflexivity].
    destruct (is_reissue d), (has_complete d); reflexivity.
  - unfold reader_send. cbn [c_hand c_pending c_q c_rq c_seq c_h]. destruct hand as [d|]; [|reflexivity].
    destruct (is_reissue d); [destruct (len rq <? REISSUE_CAP)|destruct (len q <? MSG_CAP)]; reflexivity.
  - destruct q as [|d q]; [reflexivity|].
    set (c := {| c_pending := pend; c_hand := hand; c_q := d :: q; c_rq := rq; c_seq := sq; c_h := h |}).
    pose proof (writer_reply_spec c d q eq_refl) as S.
    destruct (answered d).
    + destruct S as (rid & body & h' & _ & _ & _ & ->). reflexivity.
    + destruct S as (h' & -> & _). reflexivity.
  - unfold writer_absorb. cbn [c_q]. destruct q as [|d q]; [reflexivity|].
    destruct (is_response d && has_complete d); reflexivity.
  - unfold writer_rereq. cbn [c_rq]. destruct rq as [|d rq']; [reflexivity|]. unfold emit. cbn [snd].
    destruct (has_complete d); reflexivity.
  - reflexivity.
Qed.

Lemma read_srcs_h_eq c s : read_srcs_h (trace c s) = read_srcs (trace c s).
Proof.
  revert c. induction s as [|mv s IH]; intros c. reflexivity.
  rewrite trace_cons, read_srcs_h_app, read_srcs_app, IH, read_srcs_h_step. reflexivity.
Qed.

Theorem callbacks_read_before_reply_h ms s : no_absorb s = true ->
  exists queued, filter answered (read_srcs_h (trace (init ms) s)) = srcs (replies (trace (init ms) s)) ++ queued.
Proof. intros H. rewrite read_srcs_h_eq. now apply callbacks_read_before_reply. Qed.

(* ------------------------------------------------------------------------------------------ *)
(* Any number of concurrent connections: each one runs as if it were alone                    *)
(* ------------------------------------------------------------------------------------------ *)
Lemma upd_nth_same {A} (l : list A) i x : nth_error (upd l i x) i = match nth_error l i with Some _ => Some x | None => None end.
Proof.
  revert i. induction l as [|y l IH]; intros [|i]; cbn [upd nth_error]; auto.
Qed.
Lemma upd_nth_other {A} (l : list A) i j x : i <> j -> nth_error (upd l i x) j = nth_error l j.
Proof.
  revert i j. induction l as [|y l IH]; intros [|i] [|j] H; cbn [upd nth_error]; auto. congruence.
Qed.

Lemma proj_obs_app i a b : proj_obs i (a ++ b) = proj_obs i a ++ proj_obs i b.
Proof. unfold proj_obs. apply flat_map_app. Qed.
Lemma proj_obs_tag_same i l : proj_obs i (map (fun o => (i, o)) l) = l.
Proof.
  unfold proj_obs. induction l as [|o l IH]; cbn [map flat_map fst snd]. reflexivity.
  rewrite Nat.eqb_refl. cbn [app]. now rewrite IH.
Qed.
Lemma proj_obs_tag_other i j l : j <> i -> proj_obs i (map (fun o => (j, o)) l) = [].
Proof.
  intros H. unfold proj_obs. induction l as [|o l IH]; cbn [map flat_map fst snd]. reflexivity.
  replace (Nat.eqb j i) with false by (symmetry; now apply Nat.eqb_neq). exact IH.
Qed.

Theorem connections_independent s : forall cs i,
  nth_error (gfinal cs s) i = option_map (fun c => final c (proj_moves i s)) (nth_error cs i) /\
  proj_obs i (gtrace cs s) = match nth_error cs i with Some c => trace c (proj_moves i s) | None => [] end.
Proof.
  induction s as [|[j mv] s IH]; intros cs i.
  - cbn [gfinal gtrace proj_moves proj_obs flat_map]. destruct (nth_error cs i); split; reflexivity.
  - cbn [gfinal gtrace]. rewrite proj_obs_app. unfold gstep. cbn [fst snd].
    unfold proj_moves. cbn [flat_map fst snd]. fold (proj_moves i s).
    destruct (nth_error cs j) as [cj|] eqn:Ej; cbn [fst snd].
    + destruct (Nat.eqb_spec j i) as [->|Hne].
      * destruct (IH (upd cs i (fst (step cj mv))) i) as [I1 I2].
        rewrite I1, I2, upd_nth_same, Ej, proj_obs_tag_same. cbn [option_map app].
        split; reflexivity.
      * destruct (IH (upd cs j (fst (step cj mv))) i) as [I1 I2].
        rewrite I1, I2, (upd_nth_other cs j i _ Hne), (proj_obs_tag_other i j _ Hne). cbn [app].
        split; reflexivity.
    + destruct (IH cs i) as [I1 I2]. rewrite I1, I2. cbn [app].
      destruct (Nat.eqb_spec j i) as [->|Hne]; [|split; reflexivity].
      rewrite Ej. cbn [option_map app]. split; reflexivity.
Qed.

(* what every C06 statement about ONE connection therefore says about connection i of a server with
   any number of connections under any interleaving: e.g. the platform serials written on connection i *)
Corollary serials_concurrent mss s i ms : nth_error mss i = Some ms ->
  let t := proj_obs i (gtrace (map init mss) s) in
  map w_ps (writes t) = map serial_no (seq 0 (length (writes t))).
Proof.
  intros H t. subst t. destruct (connections_independent s (map init mss) i) as [_ E].
  rewrite E, nth_error_map, H. cbn [option_map]. apply serials.
Qed.

Corollary outcomes_concurrent mss s i ms : nth_error mss i = Some ms ->
  exists later, outcomes (proj_obs i (gtrace (map init mss) s)) ++ later = filter answered ms.
Proof.
  intros H. destruct (connections_independent s (map init mss) i) as [_ E].
  rewrite E, nth_error_map, H. cbn [option_map]. apply outcomes_prefix.
Qed.

Corollary one_reply_each_concurrent mss s i ms : nth_error mss i = Some ms ->
  no_absorb (proj_moves i s) = true ->
  (exists c, nth_error (gfinal (map init mss) s) i = Some c /\ drained c = true) ->
  srcs (replies (proj_obs i (gtrace (map init mss) s))) = filter answered ms /\
  Forall reply_ok (replies (proj_obs i (gtrace (map init mss) s))).
Proof.
  intros H NA (c & Hc & D). destruct (connections_independent s (map init mss) i) as [F E].
  rewrite E, nth_error_map, H. cbn [option_map].
  rewrite F, nth_error_map, H in Hc. cbn [option_map] in Hc. inversion Hc; subst c.
  now apply one_reply_each.
Qed.

(* ------------------------------------------------------------------------------------------ *)
(* Where the code does NOT do what the property says (recorded findings)                      *)
(* ------------------------------------------------------------------------------------------ *)
(* C06/1003-absorbed-no-reply: a complete 0x1003 (HasReply true) that arrives while a 0x9003 query is
   outstanding is handed to the waiting caller and gets no 0x8001 *)
Definition ex_1003 : list N := encode ex_hdr 0x1003 5 [1; 1; 2; 2; 0; 3; 2; 1; 1; 2].
Definition ex_hb : list N := encode ex_hdr 0x0002 4 [].
Definition dm (f : list N) : list dmsg :=
  match decode f with Ok m => [{| d_m := m; d_complete := false; d_data := f |}] | _ => [] end.

Lemma refuted_1003_absorbed :
  exists ms s, length ms = 1%nat /\ Forall dmsg_wf ms /\ filter answered ms = ms /\
    drained (final (init ms) s) = true /\
    replies (trace (init ms) s) = [] /\ absorbed (trace (init ms) s) = ms.
Proof.
  exists (dm ex_1003), [MLook; MSend; MAbsorb].
  split. vm_compute. reflexivity.
  split.
  { unfold dm. assert (B : bytes ex_1003) by (apply bytesb_spec; vm_compute; reflexivity).
    destruct (decode ex_1003) eqn:D; [|vm_compute in D; discriminate..].
    constructor; [|constructor]. apply (decoded_dmsg_wf ex_1003); auto. }
  repeat split; vm_compute; reflexivity.
Qed.

(* the same inside a conversation: heartbeat, query 0x9003 left outstanding, the terminal's 0x1003:
   two frames are written (the heartbeat's reply, the command), none for the 0x1003 *)
Lemma example_ask_conversation :
  match dm ex_hb, dm ex_1003 with
  | [a], [b] =>
    let its := [IMsg a; IAsk 0x9003 [] b] in
    asks_ok its = true /\ map fst (map wtag (writes (run_items its))) = [WReply; WCmd] /\
    filter answered (items_msgs its) = [a; b] /\ outcomes (run_items its) = [a; b] /\
    absorbed (run_items its) = [b]
  | _, _ => False
  end.
Proof. vm_compute. repeat split; reflexivity. Qed.

(* C06/0801-short-body: T0x0801.ReplyBody ignores the error of its Parse; an upload whose body is
   shorter than the 36 bytes Parse demands is answered with the multimedia id of the PREVIOUS upload on
   the connection (0 on a fresh one), not with the id its own first four bytes carry *)
Definition ex_0801_a : list N := encode ex_hdr 0x0801 1 ([0; 0; 0; 7] ++ repeat 0 32).
Definition ex_0801_b : list N := encode ex_hdr 0x0801 2 [0; 0; 0; 9; 1; 2; 3; 4; 5; 6].

Lemma refuted_0801_short_body :
  map w_body (replies (run (dm ex_0801_a ++ dm ex_0801_b))) = [[0; 0; 0; 7]; [0; 0; 0; 7]] /\
  map w_body (replies (run (dm ex_0801_b))) = [[0; 0; 0; 0]] /\
  map (fun d => (sub (m_body (d_m d)) 0 4, body_wf (d_m d))) (dm ex_0801_b) = [([0; 0; 0; 9], false)].
Proof. repeat split; vm_compute; reflexivity. Qed.

(* a conversation through the non-default branches of body_wf / std_body: a well-formed 0x0801, a
   well-formed 0x1212, a 0x1003 *)
Definition ex_1212 : list N := encode ex_hdr 0x1212 3 [3; 97; 46; 98; 0; 0; 0; 0; 9].
Lemma example_conversation2 :
  let ms := dm ex_0801_a ++ dm ex_1212 ++ dm ex_1003 in
  map (fun d => body_wf (d_m d)) ms = [true; true; true] /\
  map (fun w => (w_rid w, w_ps w, w_body w)) (writes (run ms)) =
  [ (0x8800, 0, [0; 0; 0; 7]); (0x9212, 1, [3; 97; 46; 98; 0; 0; 0]); (0x8001, 2, []) ] /\
  map (fun d => std_body (d_m d)) ms = [[0; 0; 0; 7]; [3; 97; 46; 98; 0; 0; 0]; []].
Proof. repeat split; vm_compute; reflexivity. Qed.

(* ------------------------------------------------------------------------------------------ *)
(* Read before write, absorption included                                                     *)
(* ------------------------------------------------------------------------------------------ *)
Lemma rbw_outcomes_step c mv :
  psi c ++ filter answered (read_srcs (snd (step c mv))) =
  outcomes (snd (step c mv)) ++ psi (fst (step c mv)).
Proof.
  destruct mv as [| | | | |hh cmd body];
    try (rewrite outcomes_no_absorb by (apply step_absorbed; discriminate); apply rbw_step; discriminate).
  destruct (absorb_step_shape c) as [->|(d & q & Q & _ & _ & ->)].
  - cbn [fst snd read_srcs flat_map filter outcomes app]. now rewrite app_nil_r.
  - cbn [fst snd]. unfold psi, hand_l. cbn [c_q c_hand]. rewrite Q.
    cbn [read_srcs flat_map filter outcomes app]. rewrite app_nil_r.
    destruct (answered d); reflexivity.
Qed.

Theorem read_before_outcome c s : forall R W, R = W ++ psi c ->
  R ++ filter answered (read_srcs (trace c s)) = W ++ outcomes (trace c s) ++ psi (final c s).
Proof.
  revert c. induction s as [|mv s IH]; intros c R W E.
  - cbn [trace final read_srcs flat_map filter outcomes app]. now rewrite app_nil_r.
  - rewrite trace_cons, final_cons, read_srcs_app, filter_app, outcomes_app.
    rewrite app_assoc.
    rewrite (IH (fst (step c mv)) (R ++ filter answered (read_srcs (snd (step c mv))))
                (W ++ outcomes (snd (step c mv)))).
    + now rewrite <- !app_assoc.
    + rewrite E, <- !app_assoc. f_equal. apply rbw_outcomes_step.
Qed.

(* every history: what the writer has dealt with so far (replies written, responses handed over) are
   messages whose read callbacks have already run; an absorbed message has no write at all *)
Theorem callbacks_read_before_outcome ms s :
  exists queued, filter answered (read_srcs (trace (init ms) s)) = outcomes (trace (init ms) s) ++ queued.
Proof.
  exists (psi (final (init ms) s)). apply (read_before_outcome (init ms) s [] []). reflexivity.
Qed.
Theorem callbacks_read_before_outcome_h ms s :
  exists queued, filter answered (read_srcs_h (trace (init ms) s)) = outcomes (trace (init ms) s) ++ queued.
Proof. rewrite read_srcs_h_eq. apply callbacks_read_before_outcome. Qed.

(* the replies are a subsequence of the outcomes: dropping the absorbed messages *)
Lemma outcomes_replies t : srcs (replies t) = flat_map (fun o => match o with
    | OWrite w => if is_reply_wire w then srcs [w] else [] | _ => [] end) t.
Proof.
  induction t as [|o t IH]. reflexivity.
  change (o :: t) with ([o] ++ t). rewrite replies_app, srcs_app, flat_map_app, IH. f_equal.
  destruct o; try reflexivity. unfold replies. cbn [writes flat_map app filter]. rewrite app_nil_r.
  destruct (is_reply_wire w); reflexivity.
Qed.

(* ------------------------------------------------------------------------------------------ *)
(* The 0x1003 finding as the real conversation; further witnesses                             *)
(* ------------------------------------------------------------------------------------------ *)
(* heartbeat (joins the session), SendActiveMessage(0x9003) left outstanding, the terminal's complete
   0x1003: the conversation is complete (nothing left in flight), the 0x1003 is an answered message,
   two frames are written - the heartbeat's reply and the 0x9003 command - and none is a reply to it *)
Lemma refuted_1003_absorbed_conversation :
  match dm ex_hb, dm ex_1003 with
  | [a], [b] =>
    m_id (d_m b) = 0x1003 /\ answered b = true /\
    let its := [IMsg a; IAsk 0x9003 [] b] in
    asks_ok its = true /\
    drained (final (init (items_msgs its)) (items_moves None its)) = true /\
    items_moves None its = [MLook; MSend; MReply; MCmd (d_m a) 0x9003 []; MLook; MSend; MAbsorb] /\
    map (fun w => (w_kind w, w_rid w, w_src w)) (writes (run_items its)) = [(WReply, 0x8001, Some a); (WCmd, 0x9003, None)] /\
    srcs (replies (run_items its)) = [a] /\ filter answered (items_msgs its) = [a; b] /\
    absorbed (run_items its) = [b]
  | _, _ => False
  end.
Proof. vm_compute. repeat split; reflexivity. Qed.

(* an outstanding 0x8103 answered by the terminal's general response 0x0001 (absorbed, never answered
   anyway): a history WITH absorption in which every answered message still gets its reply *)
Definition ex_0001 : list N := encode ex_hdr 0x0001 6 [0; 1; 129; 3; 0].
Lemma example_absorbed_response_without_1003 :
  match dm ex_hb, dm ex_0001 with
  | [a], [b] =>
    let its := [IMsg a; IAsk 0x8103 [0] b] in
    let s := items_moves None its in let ms := items_msgs its in
    asks_ok its = true /\ no_absorb s = false /\
    forallb (fun d => negb (m_id (d_m d) =? 0x1003)) (filter answered ms) = true /\
    drained (final (init ms) s) = true /\ absorbed (trace (init ms) s) = [b] /\
    srcs (replies (trace (init ms) s)) = filter answered ms /\ filter answered ms = [a]
  | _, _ => False
  end.
Proof. vm_compute. repeat split; reflexivity. Qed.

(* two connections interleaved move by move, both complete: each shows exactly its own replies *)
Lemma example_two_connections :
  let mss := [dm ex_hb; dm ex_0801_a] in
  let s := [(0%nat, MLook); (1%nat, MLook); (1%nat, MSend); (0%nat, MSend); (1%nat, MReply); (0%nat, MReply)] in
  map (fun c => drained c) (gfinal (map init mss) s) = [true; true] /\
  no_absorb (proj_moves 0 s) = true /\ no_absorb (proj_moves 1 s) = true /\
  map (fun w => (w_rid w, w_ps w)) (writes (proj_obs 0 (gtrace (map init mss) s))) = [(0x8001, 0)] /\
  map (fun w => (w_rid w, w_ps w)) (writes (proj_obs 1 (gtrace (map init mss) s))) = [(0x8800, 0)].
Proof. repeat split; vm_compute; reflexivity. Qed.

(* ------------------------------------------------------------------------------------------ *)
(* A transfer of ONE package (fragment bit set, total 1, number 1) counts once                *)
(* ------------------------------------------------------------------------------------------ *)
(* The statements of this file are about the delivered list, whatever it is; what packageParse.parse
   delivers for a sub-packaged message is Model/Subpkg.v (C05; composed with the reader loop in
   Props/C05.v C05_handlers_see_exactly_one, whose `bodies <> []` includes the one-element list).
   Here the smallest case is run through both models: a 0x0200 sent as a transfer of one package,
   then a heartbeat.  parse delivers the packet (total 1: NOT complete by itself - hasComplete is
   `SubPackageSum == 0 || SubcontractComplete`) and, right after it, the completed message; the
   connection answers once (0x8001, platform serial 0) and the heartbeat gets serial 1. *)
From JT.Model Require Subpkg SubpkgHandlers.

Definition ex_one_pkt : msg :=
  {| m_id := 0x0200; m_len := 3; m_enc := 0; m_frag := 1; m_ver := 0; m_bcd := [1; 56; 0; 19; 128; 0];
     m_serial := 9; m_sum := 1; m_no := 1; m_body := [7; 8; 9]; m_check := 0 |}.
Definition ex_hb_msg : msg :=
  {| m_id := 0x0002; m_len := 0; m_enc := 0; m_frag := 0; m_ver := 0; m_bcd := [1; 56; 0; 19; 128; 0];
     m_serial := 10; m_sum := 0; m_no := 0; m_body := []; m_check := 0 |}.

Lemma example_one_package_transfer :
  let ds := map SubpkgHandlers.dmsg_of (snd (Subpkg.cp_loop 0 [] [([], ex_one_pkt); ([], ex_hb_msg)])) in
  map (fun d => (m_id (d_m d), m_sum (d_m d), d_complete d, has_complete d, answered d)) ds =
    [(0x0200, 1, false, false, false); (0x0200, 1, true, true, true); (0x0002, 0, false, true, true)] /\
  map (fun d => m_body (d_m d)) ds = [[7; 8; 9]; [7; 8; 9]; []] /\
  map (fun w => (w_rid w, w_ps w, w_body w)) (writes (run ds)) =
    [(0x8001, 0, [0; 9; 2; 0; 0]); (0x8001, 1, [0; 10; 0; 2; 0])] /\
  length (read_srcs (run ds)) = 2%nat.
Proof. vm_compute. repeat split; reflexivity. Qed.

(* Proofs about Model/Ranges.v (C16) *)
From JT.Base Require Import Prelude PreludeP.
From JT.Model Require Import Frame Ranges.
From Coq Require Import ZArith ZifyN ZifyNat ZifyBool Permutation.
Ltac Zify.zify_post_hook ::= Z.div_mod_to_equations.

Local Notation W := 4294967296.

(* ---------------- covered ---------------- *)
Lemma covered_nil x : ~ covered [] x.
Proof. intros (o & n & H & _). destruct H. Qed.

Lemma covered_cons o n t x : covered ((o, n) :: t) x <-> (o <= x < o + n) \/ covered t x.
Proof.
  split.
  - intros (o' & n' & [H | H] & Hx).
    + inversion H; subst. now left.
    + right. now exists o', n'.
  - intros [H | (o' & n' & H & Hx)].
    + exists o, n. split; [now left | exact H].
    + exists o', n'. split; [now right | exact Hx].
Qed.

Lemma covered_app a b x : covered (a ++ b) x <-> covered a x \/ covered b x.
Proof.
  split.
  - intros (o & n & H & Hx). apply in_app_or in H. destruct H as [H | H]; [left | right]; now exists o, n.
  - intros [(o & n & H & Hx) | (o & n & H & Hx)]; exists o, n; (split; [apply in_or_app; auto | exact Hx]).
Qed.

Lemma coveredb_spec l x : coveredb l x = true <-> covered l x.
Proof.
  unfold coveredb. rewrite existsb_exists. split.
  - intros ([o n] & Hin & H). exists o, n. cbn [fst snd] in H. split; [exact Hin | lia].
  - intros (o & n & Hin & H). exists (o, n). split; [exact Hin | cbn [fst snd]; lia].
Qed.

Lemma covered_dec l x : covered l x \/ ~ covered l x.
Proof.
  destruct (coveredb l x) eqn:E.
  - left. now apply coveredb_spec.
  - right. intros H. apply coveredb_spec in H. congruence.
Qed.

Lemma covered_perm l l' x : Permutation l l' -> covered l x -> covered l' x.
Proof.
  intros P (o & n & H & Hx). exists o, n. split; [|exact Hx].
  eapply Permutation_in; eauto.
Qed.

(* ---------------- sorting ---------------- *)
Lemma insert_perm r l : Permutation (insert r l) (r :: l).
Proof.
  induction l as [|x t IH]; cbn [insert]. reflexivity.
  destruct (fst r <=? fst x). reflexivity.
  rewrite IH. apply perm_swap.
Qed.

Lemma sort_perm l : Permutation (sort_off l) l.
Proof.
  induction l as [|x t IH]; cbn [sort_off fold_right]. reflexivity.
  fold (sort_off t). rewrite insert_perm. now constructor.
Qed.

Fixpoint lsorted (l : list seg) : Prop :=
  match l with
  | [] => True
  | x :: t => Forall (fun y => fst x <= fst y) t /\ lsorted t
  end.

Lemma insert_sorted r l : lsorted l -> lsorted (insert r l).
Proof.
  induction l as [|x t IH]; intros Hs; cbn [insert].
  - cbn. auto.
  - destruct Hs as [Hx Ht]. destruct (fst r <=? fst x) eqn:E.
    + cbn [lsorted]. split; [|split; auto].
      constructor. lia. eapply Forall_impl; [|exact Hx]. cbn. intros a Ha. lia.
    + cbn [lsorted]. split; [|auto].
      eapply Permutation_Forall. symmetry. apply insert_perm.
      constructor. lia. exact Hx.
Qed.

Lemma sort_sorted l : lsorted (sort_off l).
Proof.
  induction l as [|x t IH]; cbn [sort_off fold_right]. exact I.
  apply insert_sorted. exact IH.
Qed.

(* ---------------- permutation transfer ---------------- *)
Lemma sum_len_perm l l' : Permutation l l' -> sum_len l = sum_len l'.
Proof.
  unfold sum_len. induction 1; cbn [fold_right] in *; lia.
Qed.

Lemma sum_len_app a b : sum_len (a ++ b) = sum_len a + sum_len b.
Proof.
  induction a as [|x a IH]; cbn [sum_len fold_right app]. reflexivity.
  fold (sum_len (a ++ b)). fold (sum_len a). lia.
Qed.

Lemma sum_len_cons x l : sum_len (x :: l) = snd x + sum_len l.
Proof. reflexivity. Qed.

Lemma disjoint_perm l l' : Permutation l l' -> disjoint l -> disjoint l'.
Proof.
  induction 1 as [| [o n] l l' P IH | [o1 n1] [o2 n2] l | l l' l'' P1 IH1 P2 IH2]; intros D.
  - exact I.
  - destruct D as [D1 D2]. split; [|auto].
    intros x Hx Hc. apply (D1 x Hx). eapply covered_perm; [symmetry; exact P | exact Hc].
  - destruct D as [D1 [D2 D3]]. split; [|split; auto].
    + intros x Hx Hc. apply covered_cons in Hc. destruct Hc as [Hc | Hc].
      * apply (D1 x Hc). apply covered_cons. now left.
      * exact (D2 x Hx Hc).
    + intros x Hx Hc. apply (D1 x Hx). apply covered_cons. now right.
  - auto.
Qed.

(* ---------------- chains: ascending, non-overlapping, non-empty ---------------- *)
Fixpoint chain (cur : N) (l : list seg) : Prop :=
  match l with
  | [] => True
  | (o, n) :: t => cur <= o /\ 0 < n /\ chain (o + n) t
  end.

Lemma sorted_disjoint_chain l : lsorted l -> disjoint l -> Forall (fun r => 0 < snd r) l ->
  forall cur, Forall (fun r => cur <= fst r) l -> chain cur l.
Proof.
  induction l as [|[o n] t IH]; intros Hs Hd Hp cur Hc. exact I.
  destruct Hs as [Hs1 Hs2]. destruct Hd as [Hd1 Hd2].
  inversion Hp as [|? ? Hp1 Hp2]; subst. inversion Hc as [|? ? Hc1 Hc2]; subst.
  cbn [fst snd] in *. split; [exact Hc1|]. split; [exact Hp1|].
  apply IH; auto.
  rewrite Forall_forall in *. intros [o' n'] Hin. cbn [fst].
  specialize (Hs1 _ Hin). specialize (Hp2 _ Hin). cbn [fst snd] in *.
  destruct (N.le_gt_cases (o + n) o') as [Hle | Hgt]; [exact Hle|].
  exfalso. apply (Hd1 o'). lia. exists o', n'. split; [exact Hin | lia].
Qed.

(* ---------------- the loop, with the tail emission folded in ---------------- *)
Fixpoint full (size cur : N) (l : list seg) : list seg :=
  match l with
  | [] => if cur <? size then [(cur, size - cur)] else []
  | (o, n) :: t => (if cur <? o then [(cur, o - cur)] else []) ++ full size (o + n) t
  end.

Lemma gaps_full size l : Forall (fun r => fst r + snd r < W) l -> forall cur,
  (let (g, c) := gaps cur l in g ++ (if c <? size then [(c, size - c)] else [])) = full size cur l.
Proof.
  induction l as [|[o n] t IH]; intros Hb cur; cbn [gaps full].
  - reflexivity.
  - inversion Hb as [|? ? Hb1 Hb2]; subst. cbn [fst snd] in Hb1.
    unfold u32. rewrite N.mod_small by exact Hb1.
    specialize (IH Hb2 (o + n)). destruct (gaps (o + n) t) as [g c].
    rewrite <- IH. now rewrite app_assoc.
Qed.

Definition lb (k : N) (g : list seg) : Prop :=
  match g with [] => True | (o, _) :: _ => k <= o end.

Lemma sorted_maximal_app1 o n g : 0 < n -> lb (o + n + 1) g -> sorted_maximal g ->
  sorted_maximal ((o, n) :: g).
Proof.
  intros Hn Hl Hg. cbn [sorted_maximal]. split; [exact Hn|]. split; [|exact Hg].
  destruct g as [|[o' n'] g']. exact I. cbn [lb] in Hl. lia.
Qed.

Lemma lb_weaken k k' g : k' <= k -> lb k g -> lb k' g.
Proof. destruct g as [|[o n] g]; cbn [lb]; intros; auto. lia. Qed.

Lemma full_spec size l : forall cur, chain cur l ->
  Forall (fun r => fst r + snd r <= size) l -> cur <= size ->
  let g := full size cur l in
  sorted_maximal g /\ lb cur g /\
  (forall x, covered g x -> cur <= x < size) /\
  (forall x, cur <= x < size -> (covered g x <-> ~ covered l x)) /\
  sum_len g + sum_len l + cur = size.
Proof.
  induction l as [|[o n] t IH]; intros cur Hch Hin Hcs; cbn [full].
  - destruct (cur <? size) eqn:E.
    + cbn zeta. split; [|split; [|split; [|split]]].
      * cbn. lia.
      * cbn. lia.
      * intros x Hx. apply covered_cons in Hx. destruct Hx as [Hx | Hx]. lia. now apply covered_nil in Hx.
      * intros x Hx. split. intros _. apply covered_nil. intros _. apply covered_cons. left. lia.
      * cbn. lia.
    + cbn zeta. split; [|split; [|split; [|split]]].
      * exact I.
      * exact I.
      * intros x Hx. now apply covered_nil in Hx.
      * intros x Hx. lia.
      * cbn. lia.
  - destruct Hch as [Hc1 [Hc2 Hc3]]. inversion Hin as [|? ? Hi1 Hi2]; subst. cbn [fst snd] in Hi1.
    assert (Hon : o + n <= size) by lia.
    destruct (IH (o + n) Hc3 Hi2 Hon) as (S1 & S2 & S3 & S4 & S5). clear IH.
    set (g' := full size (o + n) t) in *.
    assert (Hlb1 : lb (o + n + 1) g' -> True) by auto.
    assert (Hcov : forall x, covered ((o, n) :: t) x <-> (o <= x < o + n) \/ covered t x)
      by (intros; apply covered_cons).
    assert (Hnot : forall x, x < o + n -> ~ covered g' x).
    { intros x Hx Hc. apply S3 in Hc. lia. }
    assert (Hnott : forall x, x < o + n -> o <= x \/ ~ covered t x -> True) by auto.
    (* elements of t start at or after o+n *)
    assert (Ht : forall x, covered t x -> o + n <= x).
    { clear - Hc3. revert Hc3. generalize (o + n) as k. induction t as [|[o' n'] t IH]; intros k Hc x Hx.
      - now apply covered_nil in Hx.
      - destruct Hc as [A [B C]]. apply covered_cons in Hx. destruct Hx as [Hx | Hx]. lia.
        specialize (IH _ C x Hx). lia. }
    destruct (cur <? o) eqn:E; cbn [app].
    + cbn zeta. split; [|split; [|split; [|split]]].
      * apply sorted_maximal_app1. lia. 2: exact S1.
        destruct g' as [|[o' n'] g'']. exact I. cbn [lb] in *. lia.
      * cbn. lia.
      * intros x Hx. apply covered_cons in Hx. destruct Hx as [Hx | Hx]. lia.
        apply S3 in Hx. lia.
      * intros x Hx. rewrite covered_cons, Hcov.
        destruct (N.lt_ge_cases x o) as [H1 | H1].
        -- split. intros _ [H | H]. lia. apply Ht in H. lia. intros _. left. lia.
        -- destruct (N.lt_ge_cases x (o + n)) as [H2 | H2].
           ++ split. intros [H | H]. lia. now apply Hnot in H. intros H. exfalso. apply H. left. lia.
           ++ rewrite (S4 x) by lia. split. intros [H | H]. lia. intros [H' | H']. lia. auto.
              intros H. right. intros H'. apply H. now right.
      * rewrite !sum_len_cons. cbn [fst snd]. lia.
    + cbn zeta. assert (cur = o) by lia. subst cur.
      split; [|split; [|split; [|split]]].
      * exact S1.
      * eapply lb_weaken; [|exact S2]. lia.
      * intros x Hx. apply S3 in Hx. lia.
      * intros x Hx. rewrite Hcov.
        destruct (N.lt_ge_cases x (o + n)) as [H2 | H2].
        -- split. intros H. now apply Hnot in H. intros H. exfalso. apply H. left. lia.
        -- rewrite (S4 x) by lia. split. intros H [H' | H']. lia. auto.
           intros H H'. apply H. now right.
      * rewrite !sum_len_cons. cbn [fst snd]. lia.
Qed.

(* ---------------- sorted_maximal facts ---------------- *)
Lemma sorted_maximal_pos g : sorted_maximal g -> Forall (fun r => 0 < snd r) g.
Proof.
  induction g as [|[o n] t IH]; intros H. constructor.
  destruct H as [A [B C]]. constructor; auto.
Qed.

Lemma sorted_maximal_later o n t : sorted_maximal ((o, n) :: t) ->
  Forall (fun r => o + n < fst r) t.
Proof.
  revert o n. induction t as [|[o' n'] t IH]; intros o n H. constructor.
  destruct H as [A [B C]]. constructor. exact B.
  pose proof C as C'. destruct C' as [A' _].
  eapply Forall_impl; [|apply (IH o' n' C)]. cbn. intros a Ha. lia.
Qed.

Lemma sorted_maximal_disjoint g : sorted_maximal g -> disjoint g.
Proof.
  induction g as [|[o n] t IH]; intros H. exact I.
  pose proof (sorted_maximal_later _ _ _ H) as L. destruct H as [A [B C]].
  split; [|auto].
  intros x Hx (o' & n' & Hin & Hx'). rewrite Forall_forall in L. specialize (L _ Hin). cbn in L. lia.
Qed.

Lemma disjoint_app a b : disjoint a -> disjoint b -> (forall x, covered a x -> ~ covered b x) ->
  disjoint (a ++ b).
Proof.
  induction a as [|[o n] a IH]; intros Da Db H; cbn [app]. exact Db.
  destruct Da as [D1 D2]. split.
  - intros x Hx Hc. apply covered_app in Hc. destruct Hc as [Hc | Hc]. exact (D1 x Hx Hc).
    apply (H x); [|exact Hc]. apply covered_cons. now left.
  - apply IH; auto. intros x Hx. apply H. apply covered_cons. now right.
Qed.

(* ---------------- the function on its domain ---------------- *)
Lemma chunks_sorted_chain size recs : chunks_ok size recs ->
  chain 0 (sort_off recs) /\ Forall (fun r => fst r + snd r <= size) (sort_off recs).
Proof.
  intros [D F]. pose proof (sort_perm recs) as P.
  assert (F' : Forall (fun r => 0 < snd r /\ fst r + snd r <= size) (sort_off recs))
    by (eapply Permutation_Forall; [symmetry; exact P | exact F]).
  split.
  - apply sorted_disjoint_chain.
    + apply sort_sorted.
    + eapply disjoint_perm; [symmetry; exact P | exact D].
    + eapply Forall_impl; [|exact F']. cbn. tauto.
    + apply Forall_forall. intros; lia.
  - eapply Forall_impl; [|exact F']. cbn. tauto.
Qed.

Lemma miss_is_full size recs cs : size < W -> chunks_ok size recs ->
  miss_segments size cs recs = (if cs =? size then [] else full size 0 (sort_off recs)).
Proof.
  intros Hw Hok. unfold miss_segments. destruct (cs =? size); [reflexivity|].
  destruct (chunks_sorted_chain _ _ Hok) as [_ F].
  rewrite <- (gaps_full size (sort_off recs)).
  - destruct (gaps 0 (sort_off recs)). reflexivity.
  - eapply Forall_impl; [|exact F]. cbn. intros a Ha. lia.
Qed.

Lemma full_sorted_spec size recs : chunks_ok size recs ->
  let g := full size 0 (sort_off recs) in
  sorted_maximal g /\
  (forall x, covered g x -> x < size) /\
  (forall x, x < size -> (covered g x <-> ~ covered recs x)) /\
  sum_len g + sum_len recs = size.
Proof.
  intros Hok. destruct (chunks_sorted_chain _ _ Hok) as [C F].
  destruct (full_spec size (sort_off recs) 0 C F) as (S1 & S2 & S3 & S4 & S5). lia.
  pose proof (sort_perm recs) as P.
  cbn zeta. split; [exact S1|]. split; [|split].
  - intros x Hx. apply S3 in Hx. lia.
  - intros x Hx. rewrite (S4 x) by lia. split; intros H H'; apply H.
    + eapply covered_perm; [symmetry; exact P | exact H'].
    + eapply covered_perm; [exact P | exact H'].
  - rewrite (sum_len_perm _ _ P) in S5. lia.
Qed.

Lemma pos_sum_zero g : Forall (fun r => 0 < snd r) g -> sum_len g = 0 -> g = [].
Proof.
  destruct g as [|[o n] t]; intros F H. reflexivity.
  inversion F; subst. rewrite sum_len_cons in H. cbn [snd] in *. lia.
Qed.

(* with CurrentSize = sum of the recorded lengths the early exit agrees with the loop *)
Lemma miss_full size recs : size < W -> chunks_ok size recs ->
  miss_segments size (sum_len recs) recs = full size 0 (sort_off recs).
Proof.
  intros Hw Hok. rewrite miss_is_full by auto.
  destruct (sum_len recs =? size) eqn:E; [|reflexivity].
  destruct (full_sorted_spec size recs Hok) as (S1 & _ & _ & S5).
  symmetry. apply pos_sum_zero. now apply sorted_maximal_pos. lia.
Qed.

Theorem miss_exact : forall size recs, size < W -> chunks_ok size recs ->
  let g := miss_segments size (sum_len recs) recs in
  sorted_maximal g /\
  (forall x, covered g x -> x < size) /\
  (forall x, x < size -> (covered g x <-> ~ covered recs x)) /\
  sum_len g + sum_len recs = size.
Proof.
  intros size recs Hw Hok. cbn zeta. rewrite miss_full by auto. now apply full_sorted_spec.
Qed.

Theorem complete_iff : forall size recs, size < W -> chunks_ok size recs ->
  let g := miss_segments size (sum_len recs) recs in
  (g = [] <-> (forall x, x < size -> covered recs x)) /\ (g = [] <-> sum_len recs = size).
Proof.
  intros size recs Hw Hok. destruct (miss_exact size recs Hw Hok) as (S1 & S2 & S3 & S4).
  cbn zeta in *. set (g := miss_segments size (sum_len recs) recs) in *.
  split; split.
  - intros E x Hx. destruct (covered_dec recs x) as [H | H]; [exact H|].
    apply (S3 x Hx) in H. rewrite E in H. now apply covered_nil in H.
  - intros H. destruct g as [|[o n] t] eqn:E; [reflexivity|]. exfalso.
    destruct S1 as [A _].
    assert (Hc : covered ((o, n) :: t) o) by (apply covered_cons; left; lia).
    pose proof (S2 o Hc) as Ho. apply (S3 o Ho) in Hc. apply Hc, H, Ho.
  - intros E. rewrite E in S4. cbn in S4. lia.
  - intros E. apply pos_sum_zero. now apply sorted_maximal_pos. lia.
Qed.

Lemma gaps_chunks_ok size recs g : chunks_ok size recs -> sorted_maximal g ->
  (forall x, covered g x -> x < size) ->
  (forall x, x < size -> (covered g x <-> ~ covered recs x)) ->
  chunks_ok size (recs ++ g).
Proof.
  intros [D F] S1 S2 S3. split.
  - apply disjoint_app; auto. now apply sorted_maximal_disjoint.
    intros x Hx Hg. pose proof (S2 x Hg) as Hs. apply (S3 x Hs) in Hg. auto.
  - apply Forall_app. split; [exact F|].
    pose proof (sorted_maximal_pos g S1) as P. rewrite Forall_forall in *.
    intros [o n] Hin. specialize (P _ Hin). cbn [fst snd] in *. split; [exact P|].
    assert (Hc : covered g (o + n - 1)) by (exists o, n; split; [exact Hin | lia]).
    apply S2 in Hc. lia.
Qed.

(* after the reported ranges have been received as well, the file is complete whatever
   CurrentSize says *)
Theorem resend_completes : forall size recs, size < W -> chunks_ok size recs ->
  let g := miss_segments size (sum_len recs) recs in
  chunks_ok size (recs ++ g) /\ sum_len (recs ++ g) = size /\
  (forall x, x < size -> covered (recs ++ g) x) /\
  (forall cs, miss_segments size cs (recs ++ g) = []).
Proof.
  intros size recs Hw Hok. destruct (miss_exact size recs Hw Hok) as (S1 & S2 & S3 & S4).
  cbn zeta in *. set (g := miss_segments size (sum_len recs) recs) in *.
  assert (Hok' : chunks_ok size (recs ++ g)) by (apply gaps_chunks_ok; auto).
  assert (Hsum : sum_len (recs ++ g) = size) by (rewrite sum_len_app; lia).
  split; [exact Hok'|]. split; [exact Hsum|]. split.
  - intros x Hx. apply covered_app. destruct (covered_dec recs x) as [H | H]; [now left|].
    right. now apply (S3 x Hx).
  - intros cs. rewrite miss_is_full by auto. destruct (cs =? size); [reflexivity|].
    rewrite <- miss_full by auto. rewrite Hsum. unfold miss_segments.
    now rewrite N.eqb_refl.
Qed.

(* ---------------- the wire: 0x1212 reply body and the 0x9212 parser ---------------- *)
Lemma idx_app a x b : idx (a ++ x :: b) (len a) = Ok x.
Proof.
  unfold idx, len. rewrite Nat2N.id, nth_error_app2 by lia. now rewrite Nat.sub_diag.
Qed.

Lemma idx_app_n a x b i : i = len a -> idx (a ++ x :: b) i = Ok x.
Proof. intros ->. apply idx_app. Qed.

Lemma skipn_len_app {A} (a b : list A) : skipn (N.to_nat (len a)) (a ++ b) = b.
Proof. unfold len. rewrite Nat2N.id, skipn_app, skipn_all, Nat.sub_diag. reflexivity. Qed.

Lemma be32_from_app pre x post i : i = len pre -> x < W ->
  be32_from (pre ++ be_enc 4 x ++ post) i = Ok x.
Proof.
  intros -> Hx. unfold be32_from, slice_from. rewrite len_app.
  replace (len pre <=? len pre + len (be_enc 4 x ++ post)) with true by lia.
  cbn [bind]. rewrite skipn_len_app.
  rewrite len_app, be_enc_len. replace (N.of_nat 4 + len post <? 4) with false by lia.
  rewrite firstn_app, be_enc_length, Nat.sub_diag, firstn_all2 by (rewrite be_enc_length; lia).
  cbn [firstn]. rewrite app_nil_r. f_equal. apply be_dec_enc. cbn. exact Hx.
Qed.

Lemma enc_seg_len r : len (enc_seg r) = 8.
Proof. unfold enc_seg. rewrite len_app, !be_enc_len. reflexivity. Qed.

Lemma flat_enc_len l : len (flat_map enc_seg l) = 8 * len l.
Proof.
  induction l as [|r l IH]; cbn [flat_map]. reflexivity.
  rewrite len_app, enc_seg_len, IH, len_cons. lia.
Qed.

Lemma parse_pairs_ok pre todo : Forall (fun r => fst r < W /\ snd r < W) todo ->
  forall done post,
  parse_pairs (pre ++ flat_map enc_seg done ++ flat_map enc_seg todo ++ post) (len pre)
    (map N.of_nat (seq (length done) (length todo))) = Ok todo.
Proof.
  induction todo as [|[o n] todo IH]; intros F done post; cbn [length seq map parse_pairs].
  - reflexivity.
  - inversion F as [|? ? [F1 F2] F3]; subst. cbn [fst snd] in *.
    set (D := flat_map enc_seg done). set (T := flat_map enc_seg todo).
    set (body := pre ++ D ++ flat_map enc_seg ((o, n) :: todo) ++ post).
    assert (E1 : body = (pre ++ D) ++ be_enc 4 o ++ (be_enc 4 n ++ T ++ post)).
    { unfold body. cbn [flat_map]. unfold enc_seg at 1. cbn [fst snd]. fold T.
      rewrite <- !app_assoc. reflexivity. }
    assert (E2 : body = (pre ++ D ++ be_enc 4 o) ++ be_enc 4 n ++ (T ++ post)).
    { rewrite E1. rewrite <- !app_assoc. reflexivity. }
    assert (B1 : be32_from body (len pre + 8 * N.of_nat (length done)) = Ok o).
    { rewrite E1. apply be32_from_app; [|exact F1]. rewrite len_app. unfold D. rewrite flat_enc_len.
      unfold len. lia. }
    assert (B2 : be32_from body (len pre + 8 * N.of_nat (length done) + 4) = Ok n).
    { rewrite E2. apply be32_from_app; [|exact F2]. rewrite !len_app. unfold D.
      rewrite flat_enc_len, be_enc_len. unfold len. lia. }
    rewrite B1. cbn [bind]. rewrite B2. cbn [bind].
    specialize (IH F3 (done ++ [(o, n)]) post).
    rewrite app_length in IH. cbn [length] in IH.
    replace (length done + 1)%nat with (S (length done)) in IH by lia.
    assert (E3 : body = pre ++ flat_map enc_seg (done ++ [(o, n)]) ++ flat_map enc_seg todo ++ post).
    { rewrite E1. rewrite flat_map_app. cbn [flat_map]. rewrite app_nil_r. unfold enc_seg at 2.
      cbn [fst snd]. fold D. fold T. rewrite <- !app_assoc. reflexivity. }
    rewrite <- E3 in IH. rewrite IH. reflexivity.
Qed.

Theorem parse_enc9212 : forall r, r_namelen r = len (r_name r) -> r_count r = len (r_list r) ->
  Forall (fun s => fst s < W /\ snd s < W) (r_list r) ->
  parse9212 (enc9212 r) = Ok r.
Proof.
  intros [nl name ty res cnt l] Hnl Hcnt F. cbn [r_namelen r_name r_type r_result r_count r_list] in *.
  subst nl cnt. unfold parse9212, enc9212. cbn [r_namelen r_name r_type r_result r_count r_list].
  set (body := [len name] ++ name ++ [ty; res; len l] ++ flat_map enc_seg l).
  assert (Hlen : len body = 4 + len name + 8 * len l).
  { unfold body. rewrite !len_app, flat_enc_len, !len_cons, !len_nil. lia. }
  rewrite Hlen. replace (4 + len name + 8 * len l <? 4) with false by lia.
  assert (H0 : idx body 0 = Ok (len name)) by reflexivity.
  rewrite H0. cbn [bind].
  replace (4 + len name + 8 * len l <? 4 + len name) with false by lia.
  assert (H1 : slice body 1 (1 + len name) = Ok name).
  { unfold body. apply (slice_app [len name] name). }
  rewrite H1. cbn [bind].
  assert (H2 : idx body (1 + len name) = Ok ty).
  { replace body with (([len name] ++ name) ++ ty :: res :: len l :: flat_map enc_seg l)
      by (unfold body; rewrite <- !app_assoc; reflexivity).
    apply idx_app_n. rewrite !len_app, !len_cons, !len_nil. lia. }
  rewrite H2. cbn [bind].
  assert (H3 : idx body (2 + len name) = Ok res).
  { replace body with (([len name] ++ name ++ [ty]) ++ res :: len l :: flat_map enc_seg l)
      by (unfold body; rewrite <- !app_assoc; reflexivity).
    apply idx_app_n. rewrite !len_app, !len_cons, !len_nil. lia. }
  rewrite H3. cbn [bind].
  assert (H4 : idx body (3 + len name) = Ok (len l)).
  { replace body with (([len name] ++ name ++ [ty; res]) ++ len l :: flat_map enc_seg l)
      by (unfold body; rewrite <- !app_assoc; reflexivity).
    apply idx_app_n. rewrite !len_app, !len_cons, !len_nil. lia. }
  rewrite H4. cbn [bind].
  rewrite N.eqb_refl. cbn [negb].
  assert (H5 : parse_pairs body (4 + len name) (nrange (N.to_nat (len l))) = Ok l).
  { pose proof (parse_pairs_ok ([len name] ++ name ++ [ty; res; len l]) l F [] []) as P.
    cbn [flat_map length] in P. rewrite !app_nil_r in P.
    replace (nrange (N.to_nat (len l))) with (map N.of_nat (seq 0 (length l)))
      by (unfold nrange, len; now rewrite Nat2N.id).
    replace (4 + len name) with (len ([len name] ++ name ++ [ty; res; len l]))
      by (rewrite !len_app, !len_cons, !len_nil; lia).
    etransitivity; [|exact P]. f_equal. unfold body. rewrite <- !app_assoc. reflexivity. }
  rewrite H5. reflexivity.
Qed.

Theorem wire : forall t miss, f_namelen t = len (f_name t) -> (length miss <= 255)%nat ->
  Forall (fun s => fst s < W /\ snd s < W) miss ->
  parse9212 (reply1212 t miss) =
  Ok {| r_namelen := f_namelen t; r_name := f_name t; r_type := f_type t;
        r_result := match miss with [] => 0 | _ => 1 end; r_count := len miss; r_list := miss |}.
Proof.
  intros t miss Hnl Hc F. unfold reply1212. destruct miss as [|s miss'].
  - apply parse_enc9212; auto.
  - set (miss := s :: miss') in *.
    assert (E : len miss mod 256 = len miss) by (unfold len; lia).
    rewrite E. apply parse_enc9212; auto.
Qed.

Lemma covered_bounds g size : (forall x, covered g x -> x < size) -> Forall (fun r => 0 < snd r) g ->
  size < W -> Forall (fun s => fst s < W /\ snd s < W) g.
Proof.
  intros H P Hw. rewrite Forall_forall in *. intros [o n] Hin. specialize (P _ Hin). cbn [fst snd] in *.
  assert (Hc : covered g (o + n - 1)) by (exists o, n; split; [exact Hin | lia]).
  apply H in Hc. lia.
Qed.

(* the 0x9212 body produced for a 0x1212 decodes to exactly (flag, the missing ranges) *)
Theorem wire_exact : forall size recs t, size < W -> chunks_ok size recs ->
  f_namelen t = len (f_name t) ->
  let g := miss_segments size (sum_len recs) recs in
  (length g <= 255)%nat ->
  parse9212 (reply1212 t g) =
  Ok {| r_namelen := f_namelen t; r_name := f_name t; r_type := f_type t;
        r_result := if sum_len recs =? size then 0 else 1; r_count := len g; r_list := g |}.
Proof.
  intros size recs t Hw Hok Hnl g Hc.
  destruct (miss_exact size recs Hw Hok) as (S1 & S2 & S3 & S4).
  destruct (complete_iff size recs Hw Hok) as (_ & C2).
  fold g in S1, S2, S3, S4, C2.
  rewrite wire; auto.
  - f_equal. f_equal. destruct g as [|s g'] eqn:E.
    + replace (sum_len recs =? size) with true; [reflexivity|]. symmetry. apply N.eqb_eq. now apply C2.
    + replace (sum_len recs =? size) with false; [reflexivity|]. symmetry. apply N.eqb_neq.
      intros H. apply C2 in H. discriminate.
  - eapply covered_bounds; eauto. now apply sorted_maximal_pos.
Qed.

(* What one frame can carry.  Header.Encode writes the body length unmasked into the 10-bit length field
   (known finding C16/socket/reply-over-1023): the completion response for a file with 127 gaps and an
   8-byte name has a 1028-byte body, and the frame the encoder builds for it is rejected by the decoder;
   with 126 gaps (1020 bytes) it decodes and its body parses to exactly the 126 ranges. *)
Definition over_chunks (n : nat) : list (N * N) := map (fun i => (N.of_nat (2 * i + 1), 1)) (seq 0 n).
Definition over_file (size : N) : t1211 :=
  {| f_namelen := 8; f_name := [65; 66; 67; 68; 46; 106; 112; 103]; f_type := 0; f_size := size |}.
Definition over_hdr : msg :=
  {| m_id := 0x1212; m_len := 0; m_enc := 0; m_frag := 0; m_ver := 0; m_bcd := [0; 0; 0; 0; 0; 1];
     m_serial := 7; m_sum := 0; m_no := 0; m_body := []; m_check := 0 |}.

Lemma reply_over_1023_refuted :
  let g := miss_segments 254 127 (over_chunks 127) in
  length g = 127%nat /\ length (reply1212 (over_file 254) g) = 1028%nat /\
  parse9212 (reply1212 (over_file 254) g) =
    Ok {| r_namelen := 8; r_name := f_name (over_file 254); r_type := 0; r_result := 1; r_count := 127; r_list := g |} /\
  decode (encode over_hdr 0x9212 3 (reply1212 (over_file 254) g)) = Err E_BODY_LEN.
Proof. vm_compute. repeat split; reflexivity. Qed.

Lemma reply_126_gaps_carried :
  let g := miss_segments 252 126 (over_chunks 126) in
  length g = 126%nat /\ length (reply1212 (over_file 252) g) = 1020%nat /\
  exists m, decode (encode over_hdr 0x9212 3 (reply1212 (over_file 252) g)) = Ok m /\ m_id m = 0x9212 /\
    parse9212 (m_body m) =
      Ok {| r_namelen := 8; r_name := f_name (over_file 252); r_type := 0; r_result := 1; r_count := 126; r_list := g |}.
Proof. vm_compute. repeat split; try reflexivity. eexists. repeat split; reflexivity. Qed.

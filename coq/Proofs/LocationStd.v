(* The standard's side of C08, written as data from JT/T 808-2019 tables 23-32 (DESIGN.md
   Appendix B.2 / B.3) and T/JSATL 12-2017 table 18 (B.4) -- NOT from the Go code.  The only
   things shared with the model are the result types (loc fields, aval) and the Go NAMES of the
   flag fields, which is how a bit of the standard is tied to a member of the Go struct.
   Definitions only; this file belongs to the trusted base (a transcription error here is a
   specification error). *)
From JT.Base Require Import Prelude.
From JT.Model Require Import Location.
From Coq Require Import String.

(* ---------------- table 23: location basic information, 28 bytes ---------------- *)
Definition std_alarm_word (b : list N) : N := be_dec (sub b 0 4).     (* DWORD *)
Definition std_status_word (b : list N) : N := be_dec (sub b 4 8).    (* DWORD *)
Definition std_lat (b : list N) : N := be_dec (sub b 8 12).           (* DWORD, 1e-6 degree *)
Definition std_lon (b : list N) : N := be_dec (sub b 12 16).          (* DWORD *)
Definition std_alt (b : list N) : N := be_dec (sub b 16 18).          (* WORD, m *)
Definition std_speed (b : list N) : N := be_dec (sub b 18 20).        (* WORD, 0.1 km/h *)
Definition std_dir (b : list N) : N := be_dec (sub b 20 22).          (* WORD, 0-359 *)
(* BCD[6] YY MM DD hh mm ss: each byte is two decimal digits, high nibble first *)
Definition bcd_digits (v : N) : list N := [48 + v / 16; 48 + v mod 16].
Definition std_time (b : list N) : list N :=      (* as text "20YY-MM-DD hh:mm:ss" *)
  match sub b 22 28 with
  | [yy; mm; dd; h; m; s] =>
      [50; 48] ++ bcd_digits yy ++ [45] ++ bcd_digits mm ++ [45] ++ bcd_digits dd ++ [32] ++
      bcd_digits h ++ [58] ++ bcd_digits m ++ [58] ++ bcd_digits s
  | _ => []
  end.

(* ---------------- table 25: alarm flag bits -> Go field of AlarmSignDetails ---------------- *)
Definition std_alarm : list (N * string) :=
  [(0, "EmergencyAlarm"); (1, "OverSpeed"); (2, "FatigueDriving"); (3, "DangerousAlarm");
   (4, "GNSSModuleFault"); (5, "GNSSAntennaFault"); (6, "GNSSAntennaShortCircuit");
   (7, "TerminalPowerSupply"); (8, "TerminalPowerSupplyShutdown"); (9, "TerminalLCDFault");
   (10, "TTSModuleFault"); (11, "CameraFault"); (12, "ICCardModuleFault");
   (13, "OverSpeedAlarm"); (14, "FatigueDrivingAlarm"); (15, "ViolationDrivingAlarm");
   (16, "TirePressureAlarm"); (17, "RightTurnBlindAreaAlarm"); (18, "DrivingTimeout");
   (19, "OverTimeStop"); (20, "InOutArea"); (21, "InOutLine"); (22, "SectionDrivingTime");
   (23, "LineDeviation"); (24, "VSSFault"); (25, "OilLevelAbnormality"); (26, "StealCar");
   (27, "LaneDeviation"); (28, "LaneOffset"); (29, "CollisionAlarm"); (30, "SideSlipAlarm");
   (31, "LaneOpeningAlarm")]%string.

(* ---------------- table 24: status bits -> Go field of StatusSignDetails (the 21 single-bit
   flags; bits 8-9 are the two-bit load field, bits 23-31 reserved) ---------------- *)
Definition std_status : list (N * string) :=
  [(0, "ACC"); (1, "Location"); (2, "South"); (3, "East"); (4, "Suspended"); (5, "Encryption");
   (6, "EmergencyBrake"); (7, "LaneOffset"); (10, "Oil"); (11, "Electricity");
   (12, "VehicleDoor"); (13, "FrontDoor"); (14, "MiddleDoor"); (15, "BackDoor");
   (16, "DriverDoor"); (17, "CustomDoor"); (18, "UseGPS"); (19, "UseBD"); (20, "UseGLONASS");
   (21, "UseGalileo"); (22, "VehicleRunning")]%string.

(* ---------------- table 31: extended vehicle signal bits (item 0x25) ---------------- *)
Definition std_extsig : list (N * string) :=
  [(0, "LowBeamSignal"); (1, "HighBeamSignal"); (2, "RightTurnSignal"); (3, "LeftTurnSignal");
   (4, "BrakeSignal"); (5, "ReverseGearSignal"); (6, "FogLightSignal"); (7, "ClearanceLights");
   (8, "HornSignal"); (9, "AirConditionerSignal"); (10, "NeutralSignal"); (11, "RetarderWork");
   (12, "ABSWork"); (13, "HeaterWork"); (14, "ClutchStatus")]%string.

(* ---------------- table 32: IO status bits (item 0x2A) ---------------- *)
Definition std_io : list (N * string) := [(0, "DeepSleepStatus"); (1, "SleepStatus")]%string.

(* ---------------- T/JSATL 12-2017 table 18: vehicle status WORD of the vendor extensions ------- *)
Definition std_table18 : list (N * string) :=
  [(0, "ACC"); (1, "LeftTurn"); (2, "RightTurn"); (3, "Wipers"); (4, "Brake"); (5, "Card");
   (10, "Location")]%string.

(* the bit a table assigns to a named flag *)
Fixpoint std_bit (name : string) (t : list (N * string)) : option N :=
  match t with
  | [] => None
  | p :: r => if String.eqb (snd p) name then Some (fst p) else std_bit name r
  end.

(* the value the standard gives to every member of a details struct, in the struct's declaration
   order: a member named in the table is the table's bit of the word, any other member is false *)
Definition std_flags (t : list (N * string)) (fields : list string) (w : N) : list bool :=
  map (fun name => match std_bit name t with Some k => N.testbit w k | None => false end) fields.

(* reading one named flag out of a decoded details struct *)
Fixpoint index_of (name : string) (fields : list string) : nat :=
  match fields with
  | [] => O
  | f :: r => if String.eqb f name then O else S (index_of name r)
  end.
Definition flag_named (fields : list string) (fl : list bool) (name : string) : bool :=
  nth (index_of name fields) fl false.

(* ---------------- table 27: additional information items ---------------- *)
(* id -> admissible lengths; an id that is not listed is unknown: any length, content kept *)
Definition std_item_lens : list (N * list N) :=
  [(1, [4]); (2, [2]); (3, [2]); (4, [2]); (5, [30]); (6, [2]); (17, [1; 5]); (18, [6]); (19, [7]);
   (37, [4]); (42, [2]); (43, [4]); (48, [1]); (49, [1])].

(* 0x05: one BYTE per wheel position 0..29; the decoded map holds the positions whose pressure
   is not zero *)
Definition std_tire (c : list N) : list (N * N) :=
  flat_map (fun p => if snd p =? 0 then [] else [p]) (combine (map N.of_nat (seq 0 (List.length c))) c).

Definition std_item_value (id : N) (c : list N) : aval :=
  if id =? 1 then VMile (be_dec c)                       (* mileage DWORD, 0.1 km *)
  else if id =? 2 then VOil (be_dec c)                   (* fuel WORD, 0.1 L *)
  else if id =? 3 then VSpeed (be_dec c)                 (* recorder speed WORD *)
  else if id =? 4 then VManual (be_dec c)                (* alarm event id WORD *)
  else if id =? 5 then VTire (std_tire c)
  else if id =? 6 then VTemp (be_dec c)                  (* compartment temperature WORD *)
  else if id =? 17 then                                  (* table 28 *)
    VOverSpeed (at_ c 0) (if at_ c 0 =? 0 then 0 else be_dec (sub c 1 5))
  else if id =? 18 then                                  (* table 29 *)
    VArea (at_ c 0) (be_dec (sub c 1 5)) (at_ c 5)
  else if id =? 19 then                                  (* table 30 *)
    VDrive (be_dec (sub c 0 4)) (be_dec (sub c 4 6)) (at_ c 6)
  else if id =? 37 then VExt (be_dec c) (std_flags std_extsig extsig_fields (be_dec c))
  else if id =? 42 then VIO (be_dec c) (std_flags std_io io_fields (be_dec c))
  else if id =? 43 then VAnalog (be_dec c)               (* DWORD *)
  else if id =? 48 then VWifi (at_ c 0)                  (* BYTE *)
  else if id =? 49 then VGnss (at_ c 0)                  (* BYTE *)
  else VNone.

(* an item on the wire and the entry the standard makes of it *)
Definition tlv (it : N * list N) : list N := fst it :: len (snd it) :: snd it.
Definition std_addition (it : N * list N) : addition :=
  {| a_id := fst it; a_len := len (snd it); a_data := snd it;
     a_val := std_item_value (fst it) (snd it) |}.

(* length admissible for the id *)
Definition len_ok (it : N * list N) : bool :=
  match lookup (fst it) std_item_lens with
  | Some ls => existsb (N.eqb (len (snd it))) ls
  | None => true
  end.
(* the class of the known finding C08/0x11-areaid: item 0x11 carrying an area id *)
Definition is_0x11_with_area (it : N * list N) : bool :=
  (fst it =? 17) && (len (snd it) =? 5) && negb (at_ (snd it) 0 =? 0).
Definition admissible (it : N * list N) : bool := len_ok it && negb (is_0x11_with_area it).

(* the last item with a given id: the one a map by id retains *)
Definition find_last (id : N) (items : list (N * list N)) : option (N * list N) :=
  find (fun it => fst it =? id) (rev items).

(* ---------------- carriers ---------------- *)
(* 0x0704 (table 79): count WORD, type BYTE, then per item: length WORD, location report body *)
Definition frame0704 (it : list N) : list N := be_enc 2 (len it) ++ it.
Definition std_0704 (ty : N) (its : list (list N)) : list N :=
  be_enc 2 (len its) ++ [ty] ++ flat_map frame0704 its.
(* 0x0801 (table 81): multimedia id DWORD, type, format, event, channel BYTEs, the 28-byte
   location block, the multimedia packet *)
Definition std_0801 (id ty fm ev ch : N) (blk pkg : list N) : list N :=
  be_enc 4 id ++ [ty; fm; ev; ch] ++ blk ++ pkg.

(* Proofs about Base/GoSlice.v and Model/Mem.v (C09): the ownership invariant.
   Every slice handed out with a delivered message points into an allocation that no later
   step writes: the only regions ever written are allocation 0 (the read buffer), the part of
   the history array at or beyond the history slice's current offset, and fresh allocations. *)
From Coq Require Import Arith Lia.
From JT.Base Require Import Prelude GoSlice.
From JT.Model Require Import Frame Mem.
Local Open Scope nat_scope.

(* ================= lists ================= *)
Lemma list_ext {A} (a b : list A) : (forall i, nth_error a i = nth_error b i) -> a = b.
Proof.
  revert b. induction a as [|x a IH]; intros [|y b] H; auto.
  - specialize (H 0). discriminate.
  - specialize (H 0). discriminate.
  - f_equal. specialize (H 0). cbn in H. congruence.
    apply IH. intros i. apply (H (S i)).
Qed.

Lemma nth_error_skipn {A} (l : list A) o i : nth_error (skipn o l) i = nth_error l (o + i).
Proof.
  revert l. induction o as [|o IH]; intros l; cbn [skipn plus]; auto.
  destruct l as [|x l]. now destruct i. apply IH.
Qed.

Lemma nth_error_firstn {A} (l : list A) n i :
  nth_error (firstn n l) i = if i <? n then nth_error l i else None.
Proof.
  revert l i. induction n as [|n IH]; intros l i.
  - cbn [firstn]. now destruct i.
  - destruct l as [|x l]; cbn [firstn].
    + destruct i; cbn [nth_error]; now destruct (_ <? S n).
    + destruct i as [|i]; cbn [nth_error]. reflexivity.
      rewrite IH. change (S i <? S n) with (i <? n). reflexivity.
Qed.

Lemma nth_error_window {A} (l : list A) o n i :
  nth_error (firstn n (skipn o l)) i = if i <? n then nth_error l (o + i) else None.
Proof. rewrite nth_error_firstn, nth_error_skipn. reflexivity. Qed.

Lemma window_ext {A} (c c' : list A) o n :
  (forall i, o <= i < o + n -> nth_error c i = nth_error c' i) ->
  firstn n (skipn o c) = firstn n (skipn o c').
Proof.
  intros H. apply list_ext. intros i. rewrite !nth_error_window.
  destruct (i <? n) eqn:E; auto. apply Nat.ltb_lt in E. apply H. lia.
Qed.

(* ================= heap primitives ================= *)
Lemma write_at_length c : forall off d, length (write_at c off d) = length c.
Proof.
  induction c as [|x c IH]; intros off d; cbn [write_at]; auto.
  destruct off as [|o]. destruct d as [|y d]; cbn [length]; auto. cbn [length]. auto.
Qed.

Lemma write_at_out c : forall off d i, i < off \/ off + length d <= i ->
  nth_error (write_at c off d) i = nth_error c i.
Proof.
  induction c as [|x c IH]; intros off d i H; cbn [write_at]; auto.
  destruct off as [|o].
  - destruct d as [|y d]; auto. cbn [length] in H.
    destruct i as [|i]. lia. cbn [nth_error]. apply IH. lia.
  - destruct i as [|i]; cbn [nth_error]; auto. apply IH. lia.
Qed.

Lemma write_at_in c : forall off d i, off + length d <= length c -> i < length d ->
  nth_error (write_at c off d) (off + i) = nth_error d i.
Proof.
  induction c as [|x c IH]; intros off d i Hb Hi; cbn [write_at].
  - cbn [length] in Hb. lia.
  - destruct off as [|o].
    + destruct d as [|y d]. cbn [length] in Hi; lia.
      destruct i as [|i]; cbn [plus nth_error]; auto.
      apply (IH 0 d i). cbn [length] in *. lia. cbn [length] in Hi. lia.
    + cbn [plus nth_error]. apply IH. cbn [length] in Hb. lia. exact Hi.
Qed.

Lemma upd_length {A} (f : A -> A) l : forall n, length (upd n f l) = length l.
Proof. induction l as [|x l IH]; intros [|n]; cbn [upd length]; auto. Qed.

Lemma nth_upd_same (f : list N -> list N) l : f [] = [] -> forall n, nth n (upd n f l) [] = f (nth n l []).
Proof.
  intros Hf. induction l as [|x l IH]; intros [|n]; cbn [upd nth]; auto.
Qed.

Lemma nth_upd_other {A} (f : A -> A) (d : A) l : forall n k, n <> k -> nth k (upd n f l) d = nth k l d.
Proof.
  induction l as [|x l IH]; intros [|n] [|k] H; cbn [upd nth]; auto. congruence.
Qed.

Lemma store_length h id off d : length (store h id off d) = length h.
Proof. apply upd_length. Qed.

Lemma cells_store_same h id off d : cells (store h id off d) id = write_at (cells h id) off d.
Proof. unfold cells, store. apply nth_upd_same. reflexivity. Qed.

Lemma cells_store_other h id off d k : id <> k -> cells (store h id off d) k = cells h k.
Proof. unfold cells, store. apply nth_upd_other. Qed.

Lemma cells_alloc_old h c k : k < length h -> cells (h ++ [c]) k = cells h k.
Proof. intros H. unfold cells. now rewrite app_nth1. Qed.

Lemma cells_alloc_new h c : cells (h ++ [c]) (length h) = c.
Proof. unfold cells. rewrite app_nth2, Nat.sub_diag by lia. reflexivity. Qed.

Lemma deref_alloc h c s : s_id s < length h -> deref (h ++ [c]) s = deref h s.
Proof. intros H. unfold deref. now rewrite cells_alloc_old. Qed.

Lemma deref_store_other h id off d s : s_id s <> id -> deref (store h id off d) s = deref h s.
Proof. intros H. unfold deref. rewrite cells_store_other; auto. Qed.

Lemma deref_store_below h id off d s : s_off s + s_len s <= off -> deref (store h id off d) s = deref h s.
Proof.
  intros H. destruct (Nat.eq_dec (s_id s) id) as [E|E].
  - unfold deref. rewrite E, cells_store_same. apply window_ext. intros i Hi.
    apply write_at_out. lia.
  - now apply deref_store_other.
Qed.

Lemma deref_length_le h s : length (deref h s) <= s_len s.
Proof. unfold deref. rewrite firstn_length. lia. Qed.

(* ================= the ownership invariant ================= *)
(* a slice is protected in a state whose heap has hl allocations and whose history slice is
   hist when it lies in an existing allocation other than the read buffer and, if that is the
   history array, entirely below the history slice *)
Definition prot (hl : nat) (hist : slice) (s : slice) : Prop :=
  s_id s <> 0 /\ s_id s < hl /\ (s_id s = s_id hist -> s_off s + s_len s <= s_off hist).

Definition mprot (hl : nat) (hist : slice) (m : dmsg) : Prop :=
  prot hl hist (d_raw m) /\ prot hl hist (d_body m) /\ prot hl hist (d_bcd m).

(* well-formed history slice: allocated; a slice of allocation 0 is the nil slice *)
Definition wfh (h : heap) (hist : slice) : Prop :=
  0 < length h /\ s_id hist < length h /\ (s_id hist = 0 -> s_cap hist = 0 /\ s_len hist = 0).

(* frame condition of a transition (h, hist) -> (h', hist'): the heap only grows, protected
   slices stay protected and keep their content *)
Definition fr (h : heap) (hist : slice) (h' : heap) (hist' : slice) : Prop :=
  length h <= length h' /\
  forall s, prot (length h) hist s -> prot (length h') hist' s /\ deref h' s = deref h s.

Lemma fr_refl h hist : fr h hist h hist.
Proof. split; auto. Qed.

Lemma fr_trans h1 s1 h2 s2 h3 s3 : fr h1 s1 h2 s2 -> fr h2 s2 h3 s3 -> fr h1 s1 h3 s3.
Proof.
  intros [L1 F1] [L2 F2]. split. lia. intros s Hs.
  destruct (F1 s Hs) as [P1 D1]. destruct (F2 s P1) as [P2 D2]. split; auto. congruence.
Qed.

Lemma fr_alloc h hist c : fr h hist (h ++ [c]) hist.
Proof.
  split. rewrite app_length; cbn; lia.
  intros s (A & B & C). split. split; [auto|split; auto]. rewrite app_length; cbn; lia.
  now apply deref_alloc.
Qed.

Lemma fr_store_rbuf h hist off d : fr h hist (store h 0 off d) hist.
Proof.
  split. now rewrite store_length. intros s (A & B & C). split.
  - rewrite store_length. repeat split; auto.
  - now apply deref_store_other.
Qed.

Lemma fr_store_hist h hist off d : s_off hist <= off -> fr h hist (store h (s_id hist) off d) hist.
Proof.
  intros Ho. split. now rewrite store_length. intros s (A & B & C). split.
  - rewrite store_length. repeat split; auto.
  - destruct (Nat.eq_dec (s_id s) (s_id hist)) as [E|E].
    + rewrite <- E. apply deref_store_below. specialize (C E). lia.
    + now apply deref_store_other.
Qed.

Lemma fr_advance h hist i j : fr h hist h (sub_slice hist i j).
Proof.
  split; auto. intros s (A & B & C). split; auto. repeat split; auto.
  cbn [sub_slice s_id s_off]. intros E. specialize (C E). lia.
Qed.

Lemma fr_nil h hist : fr h hist h nil_slice.
Proof.
  split; auto. intros s (A & B & C). split; auto. repeat split; auto.
  cbn [nil_slice s_id]. intros E. congruence.
Qed.

(* the history slice is only ever advanced with slice_from (j = len): nil stays nil *)
Lemma wfh_from h hist e : wfh h hist -> wfh h (slice_from hist e).
Proof.
  intros (A & B & C). unfold slice_from. split; [|split]; auto.
  cbn [sub_slice s_id s_cap s_len]. intros E. destruct (C E) as [C1 C2]. lia.
Qed.

Lemma wfh_nil h hist : wfh h hist -> wfh h nil_slice.
Proof. intros (A & B & C). split; [|split]; auto. Qed.

Lemma wfh_grow h hist c : wfh h hist -> wfh (h ++ [c]) hist.
Proof. intros (A & B & C). split; [|split]; auto; rewrite app_length; cbn; lia. Qed.

Lemma wfh_store h hist id off d : wfh h hist -> wfh (store h id off d) hist.
Proof. intros (A & B & C). split; [|split]; auto; rewrite store_length; auto. Qed.

Lemma append_fr h hist d force newcap h' hist' :
  wfh h hist -> append h hist d force newcap = (h', hist') ->
  fr h hist h' hist' /\ wfh h' hist'.
Proof.
  intros W. unfold append.
  destruct ((s_len hist + length d <=? s_cap hist) && negb force) eqn:E.
  - intros H. injection H as <- <-. split.
    + eapply fr_trans. apply fr_store_hist with (off := s_off hist + s_len hist). lia.
      split. auto. intros s (A & B & C). split; auto. split; [|split]; auto.
    + destruct W as (A & B & C). split; [|split]; cbn [s_id s_cap s_len]; try (rewrite store_length; auto).
      intros E0. apply C in E0. apply andb_true_iff in E. destruct E as [E _].
      apply Nat.leb_le in E. lia.
  - unfold alloc. intros H. injection H as <- <-. split.
    + split. rewrite app_length; cbn; lia.
      intros s (A & B & C). split.
      * split; [|split]; auto. rewrite app_length; cbn; lia.
        cbn [s_id]. intros E0. lia.
      * now apply deref_alloc.
    + destruct W as (A & B & C). split; [|split]; cbn [s_id s_cap s_len]; rewrite ?app_length; cbn; try lia.
Qed.

(* ================= the frame decoder on memory ================= *)
Lemma unesc_no7d w : (forall b, In b w -> (b =? 125)%N = false) -> unesc w = Ok w.
Proof.
  induction w as [|b t IH]; intros H; cbn [unesc]; auto.
  rewrite (H b) by (left; reflexivity). rewrite IH. reflexivity.
  intros x Hx. apply H. now right.
Qed.

Lemma has7d_false d : has7d d = false -> forall b, In b d -> (b =? 125)%N = false.
Proof.
  unfold has7d. intros H b Hb. destruct (b =? 125)%N eqn:E; auto.
  apply N.eqb_eq in E. subst b.
  assert (existsb (N.eqb 125) d = true) as X by (apply existsb_exists; exists 125%N; split; auto).
  congruence.
Qed.

Lemma in_removelast {A} (l : list A) x : In x (removelast l) -> In x l.
Proof.
  induction l as [|y l IH]; cbn [removelast]; auto. destruct l as [|z l]. intros [].
  intros [H|H]. now left. right. now apply IH.
Qed.

Lemma in_tl {A} (l : list A) x : In x (tl l) -> In x l.
Proof. destruct l; cbn; auto. Qed.

Lemma removelast_len {A} (l : list A) : length (removelast l) = length l - 1.
Proof.
  induction l as [|y l IH]; auto. cbn [removelast]. destruct l as [|z l]. reflexivity.
  cbn [length] in *. lia.
Qed.

Lemma unescape_no7d d p : has7d d = false -> unescape d = Ok p ->
  p = removelast (tl d) /\ length d = length p + 2.
Proof.
  intros H7 H. unfold unescape in H.
  destruct ((2 <? len d)%N && (hd 0%N d =? 126)%N && (last d 0%N =? 126)%N) eqn:C; cbn [negb] in H; [|discriminate].
  rewrite unesc_no7d in H.
  - injection H as <-. split; auto. rewrite removelast_len.
    apply andb_true_iff in C. destruct C as [C _]. apply andb_true_iff in C. destruct C as [C _].
    apply N.ltb_lt in C. unfold len in C. destruct d as [|x d]; cbn [length tl] in *; lia.
  - intros b Hb. apply (has7d_false d H7). apply in_tl. now apply in_removelast.
Qed.

Lemma decode_inv d m : decode d = Ok m ->
  exists p, unescape d = Ok p /\ hdr_end m + N.to_nat (m_len m) + 1 = length p
            /\ hdr_start m + hdr_plen m <= hdr_end m.
Proof.
  unfold decode. destruct (unescape d) as [p| |]; cbn [bind]; try discriminate.
  intros H. exists p. split; auto.
  destruct (negb (xor_all p =? 0)%N); [discriminate|].
  destruct (len p <? 4)%N; [discriminate|].
  set (attr := be16 (at_ p 2) (at_ p 3)) in *.
  set (ver := N.land (N.shiftr attr 14) 1) in *.
  set (frag := N.land (N.shiftr attr 13) 1) in *.
  set (blen := N.land attr 1023) in *.
  destruct (len p <? _)%N; [discriminate|].
  destruct ((frag =? 1)%N && _); [discriminate|].
  match type of H with (if negb ?c then _ else _) = _ => destruct c eqn:C end; cbn [negb] in H; [|discriminate].
  apply (f_equal (fun r => match r with Ok x => x | _ => m end)) in H. cbv beta iota in H. rewrite <- H. clear H.
  unfold hdr_end, hdr_start, hdr_plen. cbn [m_ver m_frag m_len].
  apply N.eqb_eq in C. unfold len in C.
  destruct (ver =? 1)%N, (frag =? 1)%N; split; lia.
Qed.

Definition inside (s raw : slice) : Prop :=
  s_id s = s_id raw /\ s_off raw <= s_off s /\ s_off s + s_len s <= s_off raw + s_len raw.

Lemma prot_inside hl hist s raw : inside s raw -> prot hl hist raw -> prot hl hist s.
Proof.
  intros (I1 & I2 & I3) (A & B & C). unfold prot. rewrite I1. split; [|split]; auto.
  intros E. specialize (C E). lia.
Qed.

Lemma decode_mem_ok h raw h' m : decode_mem h raw = Ok (h', m) ->
  d_raw m = raw /\
  ((h' = h /\ inside (d_body m) raw /\ inside (d_bcd m) raw) \/
   (exists p, h' = h ++ [p] /\ s_id (d_body m) = length h /\ s_id (d_bcd m) = length h)).
Proof.
  unfold decode_mem. destruct (decode (deref h raw)) as [m0| |] eqn:D; try discriminate.
  destruct (has7d (deref h raw)) eqn:H7.
  - destruct (unescape (deref h raw)) as [p| |]; try discriminate.
    unfold alloc. intros H. injection H as <- <-. split; auto. right. exists p. auto.
  - intros H. injection H as <- <-. split; auto. left. split; auto.
    destruct (decode_inv _ _ D) as (p & U & L1 & L2).
    destruct (unescape_no7d _ _ H7 U) as [_ L3].
    pose proof (deref_length_le h raw) as L4.
    unfold inside. cbn [d_body d_bcd sub_slice s_id s_off s_len]. repeat split; lia.
Qed.

Lemma decode_mem_fr h hist raw h' m : decode_mem h raw = Ok (h', m) -> fr h hist h' hist.
Proof.
  intros H. destruct (decode_mem_ok _ _ _ _ H) as [_ [(-> & _)|(p & -> & _)]].
  apply fr_refl. apply fr_alloc.
Qed.

Lemma decode_mem_len h raw h' m : decode_mem h raw = Ok (h', m) -> length h <= length h' <= S (length h).
Proof.
  intros H. destruct (decode_mem_ok _ _ _ _ H) as [_ [(-> & _)|(p & -> & _)]].
  lia. rewrite app_length. cbn. lia.
Qed.

(* the message just decoded from raw is protected in any later state (same heap h') whose
   history slice hist' protects raw and lives in an allocation older than the decode *)
Lemma decode_mem_mprot h raw h' m hist' :
  decode_mem h raw = Ok (h', m) -> 0 < length h -> s_id hist' < length h ->
  prot (length h') hist' raw -> mprot (length h') hist' m.
Proof.
  intros H H0 Hh P. destruct (decode_mem_ok _ _ _ _ H) as [R [(-> & I1 & I2)|(p & -> & I1 & I2)]].
  - unfold mprot. rewrite R. split; [|split]; auto; eapply prot_inside; eauto.
  - unfold mprot. rewrite R. split; [|split]; auto; unfold prot; rewrite ?I1, ?I2, app_length; cbn;
      (split; [|split]; [lia|lia|intros E; lia]).
Qed.

(* ================= unpack ================= *)
Lemma mprot_fr h hist h' hist' m :
  fr h hist h' hist' -> mprot (length h) hist m -> mprot (length h') hist' m.
Proof. intros [_ F] (A & B & C). split; [|split]; apply F; auto. Qed.

Lemma decode_mem_wfh h hist raw h' m : decode_mem h raw = Ok (h', m) -> wfh h hist -> wfh h' hist.
Proof.
  intros H W. destruct (decode_mem_ok _ _ _ _ H) as [_ [(-> & _)|(p & -> & _)]]; auto.
  now apply wfh_grow.
Qed.

Lemma frame_end_some l e : frame_end l = Some e -> 2 < length l.
Proof.
  unfold frame_end. destruct (2 <? length l) eqn:E; cbn [andb]; try discriminate.
  intros _. now apply Nat.ltb_lt.
Qed.

Lemma scan_ok fuel : forall h hist acc, wfh h hist ->
  (forall m, In m acc -> mprot (length h) hist m) ->
  let u := scan cur fuel h hist acc in
  fr h hist (u_heap u) (u_hist u) /\ wfh (u_heap u) (u_hist u) /\
  forall m, In m (u_msgs u) -> mprot (length (u_heap u)) (u_hist u) m.
Proof.
  induction fuel as [|fuel IH]; intros h hist acc W Hacc; cbn [scan].
  - cbn [u_heap u_hist u_msgs]. split; [apply fr_refl|split; auto].
  - destruct (frame_end (deref h hist)) as [e|] eqn:FE.
    2:{ cbn [u_heap u_hist u_msgs]. split; [apply fr_refl|split; auto]. }
    assert (s_id hist <> 0) as Hid.
    { intros E0. destruct W as (_ & _ & W3). destruct (W3 E0) as [_ L0].
      apply frame_end_some in FE. pose proof (deref_length_le h hist). lia. }
    destruct (decode_mem h (sub_slice hist 0 e)) as [[h' m]| |] eqn:D.
    + pose proof (decode_mem_fr _ hist _ _ _ D) as F1.
      pose proof (decode_mem_wfh _ hist _ _ _ D W) as W1.
      pose proof (decode_mem_len _ _ _ _ D) as L1.
      destruct W as (W0 & Wid & W3).
      destruct (e =? s_len hist).
      * cbn [u_heap u_hist u_msgs cur v_nil].
        split; [eapply fr_trans; [exact F1|apply fr_nil]|].
        split; [eapply wfh_nil; eauto|].
        intros m0 Hm0. apply in_app_or in Hm0. destruct Hm0 as [Hm0|[<-|[]]].
        -- eapply mprot_fr; [|apply Hacc; exact Hm0]. eapply fr_trans; [exact F1|apply fr_nil].
        -- eapply decode_mem_mprot; [exact D|exact W0|exact W0|].
           split; [|split]; cbn [sub_slice s_id nil_slice]; [exact Hid|lia|intros E0; congruence].
      * assert (fr h hist h' (slice_from hist e)) as F2
          by (eapply fr_trans; [exact F1|apply fr_advance]).
        specialize (IH h' (slice_from hist e) (acc ++ [m]) (wfh_from _ _ e W1)).
        destruct IH as (F3 & W4 & M4).
        -- intros m0 Hm0. apply in_app_or in Hm0. destruct Hm0 as [Hm0|[<-|[]]].
           ++ eapply mprot_fr; [exact F2|apply Hacc; exact Hm0].
           ++ eapply decode_mem_mprot; [exact D|exact W0|exact Wid|].
              split; [|split]; cbn [slice_from sub_slice s_id s_off s_len]; [exact Hid|lia|intros _; lia].
        -- split; [eapply fr_trans; eauto|split; auto].
    + cbn [u_heap u_hist u_msgs]. split; [apply fr_advance|split; [now apply wfh_from|]].
      intros m0 Hm0. eapply mprot_fr; [apply fr_advance|now apply Hacc].
    + cbn [u_heap u_hist u_msgs]. split; [apply fr_advance|split; [now apply wfh_from|]].
      intros m0 Hm0. eapply mprot_fr; [apply fr_advance|now apply Hacc].
Qed.

Lemma unpack_ok h hist eff force newcap :
  wfh h hist ->
  let u := unpack cur h hist eff force newcap in
  fr h hist (u_heap u) (u_hist u) /\ wfh (u_heap u) (u_hist u) /\
  forall m, In m (u_msgs u) -> mprot (length (u_heap u)) (u_hist u) m.
Proof.
  intros W. cbv zeta. unfold unpack.
  destruct (fast_cond hist (deref h eff)).
  - cbn [cur v_clone]. unfold clone, alloc.
    set (d := deref h eff).
    set (data := mkS (length h) 0 (length d) (length d)).
    destruct (decode_mem (h ++ [d]) data) as [[h2 m]| |] eqn:D.
    + cbn [u_heap u_hist u_msgs].
      pose proof (decode_mem_len _ _ _ _ D) as L. rewrite app_length in L. cbn [length] in L.
      pose proof W as W'. destruct W as (W0 & Wid & W3).
      split; [eapply fr_trans; [apply fr_alloc|eapply decode_mem_fr; exact D]|].
      split; [eapply decode_mem_wfh; [exact D|apply wfh_grow; exact W']|].
      intros m0 [<-|[]].
      eapply decode_mem_mprot; [exact D| | |].
      * rewrite app_length. cbn. lia.
      * rewrite app_length. cbn. lia.
      * split; [|split]; cbn [data s_id]; lia.
    + cbn [u_heap u_hist u_msgs]. split; [apply fr_alloc|split; [now apply wfh_grow|intros m []]].
    + cbn [u_heap u_hist u_msgs]. split; [apply fr_alloc|split; [now apply wfh_grow|intros m []]].
  - destruct (append h hist (deref h eff) force newcap) as [h1 hist1] eqn:A.
    destruct (append_fr _ _ _ _ _ _ _ W A) as [F1 W1].
    destruct (scan_ok (S (s_len hist1)) h1 hist1 [] W1) as (F2 & W2 & M2).
    + intros m [].
    + split; [eapply fr_trans; eauto|split; auto].
Qed.

(* ================= completePack ================= *)
Definition sprot (hl : nat) (hist : slice) (s : slice) : Prop := s_len s = 0 \/ prot hl hist s.
Definition rprot (hl : nat) (hist : slice) (r : recs) : Prop :=
  Forall (fun kv => Forall (sprot hl hist) (snd kv)) r.

Lemma rprot_del hl hist r id : rprot hl hist r -> rprot hl hist (rec_del r id).
Proof.
  unfold rprot. induction r as [|[k v] r IH]; intros H; cbn [rec_del]; auto.
  inversion H as [|x l Hx Hl]; subst. destruct (k =? id)%N; auto.
Qed.

Lemma rprot_set hl hist r id v : rprot hl hist r -> Forall (sprot hl hist) v -> rprot hl hist (rec_set r id v).
Proof. intros H Hv. unfold rec_set. constructor; auto. now apply rprot_del. Qed.

Lemma rprot_get hl hist r id v : rprot hl hist r -> rec_get r id = Some v -> Forall (sprot hl hist) v.
Proof.
  unfold rprot. induction r as [|[k w] r IH]; intros H G; cbn [rec_get] in G. discriminate.
  inversion H as [|x l Hx Hl]; subst. destruct (k =? id)%N; auto. injection G as <-. exact Hx.
Qed.

Lemma sprot_repeat_nil hl hist n : Forall (sprot hl hist) (repeat nil_slice n).
Proof. induction n; cbn [repeat]; constructor; auto. now left. Qed.

Lemma Forall_set_nth {A} (P : A -> Prop) n x l : Forall P l -> P x -> Forall P (set_nth n x l).
Proof.
  intros H Hx. revert n. induction H as [|y l Hy Hl IH]; intros n; cbn [set_nth].
  destruct n; constructor. destruct n; constructor; auto.
Qed.

Lemma sprot_fr h hist h' hist' s : fr h hist h' hist' -> sprot (length h) hist s -> sprot (length h') hist' s.
Proof. intros [_ F] [E|P]. now left. right. now apply F. Qed.

Lemma rprot_fr h hist h' hist' r : fr h hist h' hist' -> rprot (length h) hist r -> rprot (length h') hist' r.
Proof.
  intros F H. unfold rprot in *. eapply Forall_impl; [|exact H].
  intros kv Hkv. eapply Forall_impl; [|exact Hkv]. intros s. now apply sprot_fr.
Qed.

Lemma cp_same h hist r (m : dmsg) : wfh h hist -> mprot (length h) hist m -> rprot (length h) hist r ->
  fr h hist h hist /\ wfh h hist /\ rprot (length h) hist r /\ mprot (length h) hist m /\
  (forall c, @None dmsg = Some c -> mprot (length h) hist c).
Proof. intros W M R. split; [apply fr_refl|]. split; auto. split; auto. split; auto. discriminate. Qed.

Lemma complete_pack_ok h hist r m :
  wfh h hist -> mprot (length h) hist m -> rprot (length h) hist r ->
  forall h' r' m' cm, complete_pack h r m = (h', r', m', cm) ->
  fr h hist h' hist /\ wfh h' hist /\ rprot (length h') hist r' /\ mprot (length h') hist m' /\
  (forall c, cm = Some c -> mprot (length h') hist c).
Proof.
  intros W M R h' r' m' cm. unfold complete_pack.
  set (sum := N.to_nat (m_sum (d_hdr m))). set (id := m_id (d_hdr m)). set (seq := N.to_nat (m_no (d_hdr m))).
  destruct (sum =? 0).
  { intros H. injection H as <- <- <- <-. apply cp_same; auto. }
  set (r1 := if seq =? 1 then rec_set r id (repeat nil_slice sum) else r).
  assert (rprot (length h) hist r1) as R1.
  { unfold r1. destruct (seq =? 1); auto. apply rprot_set; auto. apply sprot_repeat_nil. }
  set (slots := match rec_get r1 id with Some s => s | None => [] end).
  assert (Forall (sprot (length h) hist) slots) as S1.
  { unfold slots. destruct (rec_get r1 id) eqn:G. eapply rprot_get; eauto. constructor. }
  destruct ((seq <? 1) || (length slots <? seq)).
  { intros H. injection H as <- <- <- <-. apply cp_same; auto. }
  set (slots' := set_nth (seq - 1) (d_body m) slots).
  assert (Forall (sprot (length h) hist) slots') as S2.
  { apply Forall_set_nth; auto. right. apply M. }
  assert (rprot (length h) hist (rec_set r1 id slots')) as R2 by (apply rprot_set; auto).
  assert (rprot (length h) hist (rec_del (rec_set r1 id slots') id)) as R3 by (apply rprot_del; exact R2).
  destruct (received slots' =? sum).
  - unfold alloc. set (data := flat_map (deref h) (firstn sum slots')).
    intros H. injection H as <- <- <- <-.
    pose proof (fr_alloc h hist data) as F.
    assert (prot (length (h ++ [data])) hist (mkS (length h) 0 (length data) (length data))) as Pd.
    { destruct W as (W0 & Wid & _). rewrite app_length. cbn [length]. split; [|split]; cbn [s_id]; lia. }
    destruct M as (M1 & M2 & M3). destruct F as [FL F].
    split; [split; auto|]. split; [now apply wfh_grow|].
    split; [eapply rprot_fr; [split; [exact FL|exact F]|exact R3]|].
    split; [|intros c Hc; injection Hc as <-]; (split; [|split]); cbn [d_raw d_body d_bcd]; auto; apply F; auto.
  - intros H. injection H as <- <- <- <-. apply cp_same; auto.
Qed.

Lemma parse_loop_ok msgs : forall h hist r, wfh h hist -> rprot (length h) hist r ->
  (forall m, In m msgs -> mprot (length h) hist m) ->
  forall h2 r2 out, parse_loop h r msgs = (h2, r2, out) ->
  fr h hist h2 hist /\ wfh h2 hist /\ rprot (length h2) hist r2 /\
  forall m, In m out -> mprot (length h2) hist m.
Proof.
  induction msgs as [|m t IH]; intros h hist r W R M h2 r2 out; cbn [parse_loop].
  - intros H. injection H as <- <- <-. split; [apply fr_refl|split; [exact W|split; [exact R|intros m []]]].
  - destruct (complete_pack h r m) as [[[h1 r1] m'] cm] eqn:C.
    destruct (parse_loop h1 r1 t) as [[h2' r2'] out'] eqn:P.
    intros H. injection H as <- <- <-.
    destruct (complete_pack_ok h hist r m W (M m (or_introl eq_refl)) R _ _ _ _ C) as (F1 & W1 & R1 & M1 & Mc).
    destruct (IH h1 hist r1 W1 R1) with (h2 := h2') (r2 := r2') (out := out') as (F2 & W2 & R2 & M2); auto.
    { intros m0 Hm0. eapply mprot_fr; [exact F1|]. apply M. now right. }
    split; [eapply fr_trans; eauto|split; [exact W2|split; [exact R2|]]].
    intros m0 [<-|Hm0].
    + eapply mprot_fr; [exact F2|exact M1].
    + apply in_app_or in Hm0. destruct Hm0 as [Hm0|Hm0]; auto.
      destruct cm as [c|]; [|destruct Hm0]. destruct Hm0 as [<-|[]].
      eapply mprot_fr; [exact F2|]. now apply Mc.
Qed.

(* ================= the connection ================= *)
Definition inv (st : pst) : Prop :=
  wfh (p_heap st) (p_hist st) /\ rprot (length (p_heap st)) (p_hist st) (p_rec st).

Lemma inv_init bufsz : inv (init bufsz).
Proof.
  split; cbn [init p_heap p_hist p_rec]. split; [|split]; cbn; auto. constructor.
Qed.

Lemma step_ok bufsz st e : inv st ->
  fr (p_heap st) (p_hist st) (p_heap (o_st (step cur bufsz st e))) (p_hist (o_st (step cur bufsz st e))) /\
  inv (o_st (step cur bufsz st e)) /\
  forall m, In m (o_msgs (step cur bufsz st e)) ->
    mprot (length (p_heap (o_st (step cur bufsz st e)))) (p_hist (o_st (step cur bufsz st e))) m.
Proof.
  intros [W R]. destruct e as [data0 force newcap|]; cbn [step].
  - set (data := firstn bufsz data0).
    set (h0 := store (p_heap st) rbuf 0 data).
    set (eff := mkS rbuf 0 (length data) bufsz).
    assert (fr (p_heap st) (p_hist st) h0 (p_hist st)) as F0 by apply fr_store_rbuf.
    assert (wfh h0 (p_hist st)) as W0 by now apply wfh_store.
    destruct (unpack_ok h0 (p_hist st) eff force newcap W0) as (F1 & W1 & M1).
    set (u := unpack cur h0 (p_hist st) eff force newcap) in *.
    destruct (parse_loop (u_heap u) (p_rec st) (u_msgs u)) as [[h2 r2] out] eqn:P.
    cbn [o_st o_msgs p_heap p_hist p_rec].
    assert (rprot (length (u_heap u)) (u_hist u) (p_rec st)) as R1.
    { eapply rprot_fr; [|exact R]. eapply fr_trans; eauto. }
    destruct (parse_loop_ok _ _ _ _ W1 R1 M1 _ _ _ P) as (F2 & W2 & R2 & M2).
    split; [eapply fr_trans; [exact F0|eapply fr_trans; eauto]|]. split; [split; auto|auto].
  - cbn [o_st o_msgs p_heap p_hist p_rec]. unfold clear. cbn [s_id s_off s_len rbuf].
    set (h1 := store (p_heap st) 0 0 (repeat 0%N bufsz)).
    assert (fr (p_heap st) (p_hist st) h1 (p_hist st)) as F1 by apply fr_store_rbuf.
    assert (fr h1 (p_hist st) (store h1 (s_id (p_hist st)) (s_off (p_hist st)) (repeat 0%N (s_len (p_hist st)))) (p_hist st)) as F2
      by (apply fr_store_hist; apply le_n).
    split; [eapply fr_trans; eauto|]. split; [|intros m []].
    split. apply wfh_store. now apply wfh_store. constructor.
Qed.

Definition stepf (bufsz : nat) (st : pst) (e : ev) : pst := o_st (step cur bufsz st e).

Lemma run_from_ok bufsz evs : forall st, inv st ->
  fr (p_heap st) (p_hist st) (p_heap (fold_left (stepf bufsz) evs st)) (p_hist (fold_left (stepf bufsz) evs st)) /\
  inv (fold_left (stepf bufsz) evs st).
Proof.
  induction evs as [|e t IH]; intros st I; cbn [fold_left].
  - split; auto. apply fr_refl.
  - destruct (step_ok bufsz st e I) as (F & I1 & _). destruct (IH _ I1) as [F2 I2].
    split; auto. eapply fr_trans; eauto.
Qed.

Lemma run_stepf bufsz evs : run cur bufsz evs = fold_left (stepf bufsz) evs (init bufsz).
Proof. reflexivity. Qed.

Lemma firstn_split {A} (l : list A) a b : firstn (a + b) l = firstn a l ++ firstn b (skipn a l).
Proof.
  revert l. induction a as [|a IH]; intros l; cbn [plus firstn skipn app]; auto.
  destruct l as [|x l]. now rewrite firstn_nil. cbn [firstn skipn app]. now rewrite IH.
Qed.

Lemma firstn_S_nth {A} (l : list A) k e : nth_error l k = Some e -> firstn (S k) l = firstn k l ++ [e].
Proof.
  revert l. induction k as [|k IH]; intros [|x l] H; cbn [nth_error] in H; try discriminate.
  injection H as <-. reflexivity. cbn [firstn app]. f_equal. now apply IH.
Qed.

Lemma inv_state_at bufsz evs j : inv (state_at cur bufsz evs j).
Proof. unfold state_at. rewrite run_stepf. apply run_from_ok. apply inv_init. Qed.

Lemma state_at_S bufsz evs k e : nth_error evs k = Some e ->
  state_at cur bufsz evs (S k) = o_st (step cur bufsz (state_at cur bufsz evs k) e).
Proof.
  intros H. unfold state_at. rewrite (firstn_S_nth _ _ _ H), !run_stepf, fold_left_app. reflexivity.
Qed.

Lemma state_at_add bufsz evs a b :
  state_at cur bufsz evs (a + b) = fold_left (stepf bufsz) (firstn b (skipn a evs)) (state_at cur bufsz evs a).
Proof. unfold state_at. now rewrite firstn_split, !run_stepf, fold_left_app. Qed.

(* a message handed out by event k is protected in every later state, and every later state
   shows the content it had right after event k *)
Theorem delivered_protected bufsz evs k m : delivered_at cur bufsz evs k m ->
  forall j, S k <= j ->
  mprot (length (p_heap (state_at cur bufsz evs j))) (p_hist (state_at cur bufsz evs j)) m /\
  content (p_heap (state_at cur bufsz evs j)) m = content (p_heap (state_at cur bufsz evs (S k))) m.
Proof.
  intros (e & Hn & Hin) j Hj.
  destruct (step_ok bufsz _ e (inv_state_at bufsz evs k)) as (_ & I1 & M1).
  specialize (M1 m Hin). rewrite <- (state_at_S _ _ _ _ Hn) in M1, I1.
  replace j with (S k + (j - S k)) by lia.
  rewrite state_at_add.
  destruct (run_from_ok bufsz (firstn (j - S k) (skipn (S k) evs)) _ I1) as [[_ F] _].
  destruct M1 as (A & B & C).
  destruct (F _ A) as [A1 A2]. destruct (F _ B) as [B1 B2]. destruct (F _ C) as [C1 C2].
  split. split; [|split]; auto. unfold content. now rewrite A2, B2, C2.
Qed.

(* ================= value-level content ================= *)
Lemma deref_sub_slice h s i j : i <= j -> j <= s_len s ->
  deref h (sub_slice s i j) = firstn (j - i) (skipn i (deref h s)).
Proof.
  intros Hij Hj. unfold deref. cbn [sub_slice s_id s_off s_len].
  apply list_ext. intros k. rewrite !nth_error_window.
  destruct (k <? j - i) eqn:E; auto. apply Nat.ltb_lt in E.
  replace (i + k <? s_len s) with true by (symmetry; apply Nat.ltb_lt; lia).
  f_equal. lia.
Qed.

Lemma deref_fresh h c : deref (h ++ [c]) (mkS (length h) 0 (length c) (length c)) = c.
Proof. unfold deref. cbn [s_id s_off s_len]. rewrite cells_alloc_new. cbn [skipn]. apply firstn_all. Qed.

Lemma nth_delim_bound l : forall k i0 i, nth_delim l k i0 = Some i -> i0 <= i < i0 + length l.
Proof.
  induction l as [|b t IH]; intros k i0 i; cbn [nth_delim]. discriminate.
  destruct (b =? 126)%N.
  - destruct k as [|[|k]]; try discriminate.
    + intros H. injection H as <-. cbn [length]. lia.
    + intros H. apply IH in H. cbn [length]. lia.
  - intros H. apply IH in H. cbn [length]. lia.
Qed.

Lemma frame_end_le l e : frame_end l = Some e -> 2 <= e <= length l.
Proof.
  unfold frame_end. destruct ((2 <? length l) && (hd 0%N l =? 126)%N); try discriminate.
  destruct (nth_delim (tl l) 1 1) as [i|] eqn:D; try discriminate.
  intros H. injection H as <-. apply nth_delim_bound in D.
  destruct l as [|x l]; cbn [tl length] in *; lia.
Qed.

Lemma Nadd_sub_l (a b : N) : (a + b - a)%N = b.
Proof. lia. Qed.

Lemma decode_inv2 d m : decode d = Ok m ->
  exists p, unescape d = Ok p /\ hdr_end m + N.to_nat (m_len m) + 1 = length p
            /\ hdr_start m + hdr_plen m <= hdr_end m
            /\ m_body m = firstn (N.to_nat (m_len m)) (skipn (hdr_end m) p)
            /\ m_bcd m = firstn (hdr_plen m) (skipn (hdr_start m) p).
Proof.
  unfold decode. destruct (unescape d) as [p| |]; cbn [bind]; try discriminate.
  intros H. exists p. split; auto.
  destruct (negb (xor_all p =? 0)%N); [discriminate|].
  destruct (len p <? 4)%N; [discriminate|].
  set (attr := be16 (at_ p 2) (at_ p 3)) in *.
  set (ver := N.land (N.shiftr attr 14) 1) in *.
  set (frag := N.land (N.shiftr attr 13) 1) in *.
  set (blen := N.land attr 1023) in *.
  destruct (len p <? _)%N; [discriminate|].
  destruct ((frag =? 1)%N && _); [discriminate|].
  match type of H with (if negb ?c then _ else _) = _ => destruct c eqn:C end; cbn [negb] in H; [|discriminate].
  apply (f_equal (fun r => match r with Ok x => x | _ => m end)) in H. cbv beta iota in H. rewrite <- H. clear H.
  unfold hdr_end, hdr_start, hdr_plen, sub. cbn [m_ver m_frag m_len m_body m_bcd].
  apply N.eqb_eq in C. unfold len in C.
  rewrite !Nadd_sub_l.
  destruct (ver =? 1)%N, (frag =? 1)%N; (split; [lia|split; [lia|split; reflexivity]]).
Qed.

Definition vok (h : heap) (m : dmsg) : Prop :=
  decode (deref h (d_raw m)) = Ok (d_hdr m) /\ deref h (d_body m) = m_body (d_hdr m) /\
  deref h (d_bcd m) = m_bcd (d_hdr m) /\ d_complete m = false.

Lemma vok_fr h hist h' hist' m : fr h hist h' hist' -> mprot (length h) hist m -> vok h m -> vok h' m.
Proof.
  intros [_ F] (A & B & C) (V1 & V2 & V3 & V4).
  destruct (F _ A) as [_ A2]. destruct (F _ B) as [_ B2]. destruct (F _ C) as [_ C2].
  unfold vok. rewrite A2, B2, C2. auto.
Qed.

Lemma removelast_firstn {A} (l : list A) : removelast l = firstn (length l - 1) l.
Proof. rewrite removelast_firstn_len, Nat.sub_1_r. reflexivity. Qed.

Lemma decode_mem_vok h raw h' m : decode_mem h raw = Ok (h', m) ->
  s_id raw < length h -> length (deref h raw) = s_len raw -> vok h' m.
Proof.
  intros H Hid Hlen. unfold decode_mem in H.
  destruct (decode (deref h raw)) as [m0| |] eqn:D; try discriminate.
  destruct (decode_inv2 _ _ D) as (p & U & L1 & L2 & Eb & Ec).
  destruct (has7d (deref h raw)) eqn:H7.
  - rewrite U in H. unfold alloc in H. injection H as <- <-.
    unfold vok. cbn [d_hdr d_raw d_body d_bcd d_complete].
    rewrite deref_alloc by exact Hid. split; [exact D|].
    rewrite !deref_sub_slice by (cbn [s_len]; lia). rewrite deref_fresh.
    replace (hdr_end m0 + N.to_nat (m_len m0) - hdr_end m0) with (N.to_nat (m_len m0)) by lia.
    replace (hdr_start m0 + hdr_plen m0 - hdr_start m0) with (hdr_plen m0) by lia.
    auto.
  - injection H as <- <-.
    destruct (unescape_no7d _ _ H7 U) as [Ep L3].
    unfold vok. cbn [d_hdr d_raw d_body d_bcd d_complete]. split; [exact D|].
    assert (deref h (sub_slice raw 1 (s_len raw - 1)) = p) as Hp.
    { rewrite deref_sub_slice by lia. rewrite Ep.
      rewrite removelast_firstn.
      destruct (deref h raw) as [|x d]; cbn [length] in *. lia.
      cbn [tl skipn]. f_equal. lia. }
    rewrite !(deref_sub_slice h (sub_slice raw 1 (s_len raw - 1))) by (cbn [sub_slice s_len]; lia). rewrite Hp.
    replace (hdr_end m0 + N.to_nat (m_len m0) - hdr_end m0) with (N.to_nat (m_len m0)) by lia.
    replace (hdr_start m0 + hdr_plen m0 - hdr_start m0) with (hdr_plen m0) by lia.
    auto.
Qed.

Lemma scan_vok fuel : forall h hist acc, wfh h hist ->
  (forall m, In m acc -> mprot (length h) hist m /\ vok h m) ->
  forall m, In m (u_msgs (scan cur fuel h hist acc)) -> vok (u_heap (scan cur fuel h hist acc)) m.
Proof.
  induction fuel as [|fuel IH]; intros h hist acc W Hacc; cbn [scan].
  - cbn [u_heap u_msgs]. intros m Hm. now apply Hacc.
  - destruct (frame_end (deref h hist)) as [e|] eqn:FE.
    2:{ cbn [u_heap u_msgs]. intros m Hm. now apply Hacc. }
    assert (s_id hist <> 0) as Hid.
    { intros E0. destruct W as (_ & _ & W3). destruct (W3 E0) as [_ L0].
      apply frame_end_some in FE. pose proof (deref_length_le h hist). lia. }
    pose proof (frame_end_le _ _ FE) as Le. pose proof (deref_length_le h hist) as Ld.
    destruct (decode_mem h (sub_slice hist 0 e)) as [[h' m]| |] eqn:D.
    + pose proof (decode_mem_fr _ hist _ _ _ D) as F1.
      pose proof (decode_mem_wfh _ hist _ _ _ D W) as W1.
      pose proof (decode_mem_len _ _ _ _ D) as L1.
      assert (vok h' m) as Vm.
      { eapply decode_mem_vok; [exact D| |].
        - cbn [sub_slice s_id]. apply W.
        - rewrite deref_sub_slice by lia. cbn [sub_slice s_len skipn]. rewrite firstn_length. lia. }
      destruct W as (W0 & Wid & W3).
      destruct (e =? s_len hist).
      * cbn [u_heap u_msgs]. intros m0 Hm0. apply in_app_or in Hm0. destruct Hm0 as [Hm0|[<-|[]]]; auto.
        destruct (Hacc _ Hm0) as [P V]. eapply vok_fr; eauto.
      * apply IH. now apply wfh_from.
        assert (fr h hist h' (slice_from hist e)) as F2 by (eapply fr_trans; [exact F1|apply fr_advance]).
        intros m0 Hm0. apply in_app_or in Hm0. destruct Hm0 as [Hm0|[<-|[]]].
        -- destruct (Hacc _ Hm0) as [P V]. split. eapply mprot_fr; eauto. eapply vok_fr; eauto.
        -- split; auto. eapply decode_mem_mprot; [exact D|exact W0|exact Wid|].
           split; [|split]; cbn [slice_from sub_slice s_id s_off s_len]; [exact Hid|lia|intros _; lia].
    + cbn [u_heap u_msgs]. intros m Hm. now apply Hacc.
    + cbn [u_heap u_msgs]. intros m Hm. now apply Hacc.
Qed.

Lemma unpack_vok h hist eff force newcap : wfh h hist ->
  forall m, In m (u_msgs (unpack cur h hist eff force newcap)) -> vok (u_heap (unpack cur h hist eff force newcap)) m.
Proof.
  intros W. unfold unpack.
  destruct (fast_cond hist (deref h eff)).
  - cbn [cur v_clone]. unfold clone, alloc.
    set (d := deref h eff).
    destruct (decode_mem (h ++ [d]) (mkS (length h) 0 (length d) (length d))) as [[h2 m]| |] eqn:D;
      cbn [u_heap u_msgs].
    + intros mx [<-|[]]. eapply decode_mem_vok; [exact D| |].
      * cbn [s_id]. rewrite app_length. cbn. lia.
      * rewrite deref_fresh. reflexivity.
    + intros mx [].
    + intros mx [].
  - destruct (append h hist (deref h eff) force newcap) as [h1 hist1] eqn:A.
    destruct (append_fr _ _ _ _ _ _ _ W A) as [F1 W1].
    apply scan_vok; auto. intros m [].
Qed.

(* what holds of every message handed out by parse (the packet that completes a transfer shows
   the merged body, the completed message's TerminalData is that body) *)
Definition ook (h : heap) (m : dmsg) : Prop :=
  deref h (d_bcd m) = m_bcd (d_hdr m) /\
  (d_complete m = false -> decode (deref h (d_raw m)) = Ok (d_hdr m)) /\
  (m_sum (d_hdr m) = 0%N -> deref h (d_body m) = m_body (d_hdr m)) /\
  (d_complete m = true -> d_raw m = d_body m).

Lemma vok_ook h m : vok h m -> ook h m.
Proof. intros (A & B & C & D). split; [|split; [|split]]; auto. rewrite D. discriminate. Qed.

Lemma ook_fr h hist h' hist' m : fr h hist h' hist' -> mprot (length h) hist m -> ook h m -> ook h' m.
Proof.
  intros [_ F] (A & B & C) (V1 & V2 & V3 & V4).
  destruct (F _ A) as [_ A2]. destruct (F _ B) as [_ B2]. destruct (F _ C) as [_ C2].
  unfold ook. rewrite A2, B2, C2. auto.
Qed.

Lemma complete_pack_ook h hist r m : wfh h hist -> mprot (length h) hist m -> vok h m ->
  forall h' r' m' cm, complete_pack h r m = (h', r', m', cm) ->
  ook h' m' /\ (forall c, cm = Some c -> ook h' c).
Proof.
  intros W M V h' r' m' cm. unfold complete_pack.
  set (sum := N.to_nat (m_sum (d_hdr m))).
  destruct (sum =? 0) eqn:E0.
  { intros H. injection H as <- <- <- <-. split; [now apply vok_ook|discriminate]. }
  match goal with |- context [if ?c then _ else _] => destruct c end.
  { intros H. injection H as <- <- <- <-. split; [now apply vok_ook|discriminate]. }
  match goal with |- context [if ?c then _ else _] => destruct c end.
  - unfold alloc. match goal with |- context [h ++ [?d]] => set (data := d) end.
    intros H. injection H as <- <- <- <-.
    destruct (fr_alloc h hist data) as [_ F]. destruct M as (M1 & M2 & M3).
    destruct (F _ M1) as [_ A2]. destruct (F _ M3) as [_ C2].
    destruct V as (V1 & V2 & V3 & V4).
    assert (m_sum (d_hdr m) <> 0%N) as Hs.
    { intros Z. unfold sum in E0. rewrite Z in E0. discriminate. }
    split; [|intros c Hc; injection Hc as <-]; unfold ook; cbn [d_hdr d_raw d_body d_bcd d_complete];
      rewrite ?A2, ?C2; (split; [|split; [|split]]); auto; try discriminate; try contradiction.
  - intros H. injection H as <- <- <- <-. split; [now apply vok_ook|discriminate].
Qed.

Lemma parse_loop_ook msgs : forall h hist r, wfh h hist -> rprot (length h) hist r ->
  (forall m, In m msgs -> mprot (length h) hist m /\ vok h m) ->
  forall h2 r2 out, parse_loop h r msgs = (h2, r2, out) -> forall m, In m out -> ook h2 m.
Proof.
  induction msgs as [|m t IH]; intros h hist r W R M h2 r2 out; cbn [parse_loop].
  - intros H. injection H as <- <- <-. intros m [].
  - destruct (complete_pack h r m) as [[[h1 r1] m'] cm] eqn:C.
    destruct (parse_loop h1 r1 t) as [[h2' r2'] out'] eqn:P.
    intros H. injection H as <- <- <-.
    destruct (M m (or_introl eq_refl)) as [Mm Vm].
    destruct (complete_pack_ok h hist r m W Mm R _ _ _ _ C) as (F1 & W1 & R1 & M1 & Mc).
    destruct (complete_pack_ook h hist r m W Mm Vm _ _ _ _ C) as (O1 & Oc).
    assert (forall m0, In m0 t -> mprot (length h1) hist m0 /\ vok h1 m0) as Mt.
    { intros m0 Hm0. destruct (M m0 (or_intror Hm0)) as [A B]. split. eapply mprot_fr; eauto. eapply vok_fr; eauto. }
    destruct (parse_loop_ok t h1 hist r1 W1 R1 (fun m0 H0 => proj1 (Mt m0 H0)) _ _ _ P) as (F2 & _).
    intros m0 [<-|Hm0].
    + eapply ook_fr; eauto.
    + apply in_app_or in Hm0. destruct Hm0 as [Hm0|Hm0].
      * destruct cm as [c|]; [|destruct Hm0]. destruct Hm0 as [<-|[]].
        eapply ook_fr; [exact F2| |]; auto.
      * eapply IH; [exact W1|exact R1|exact Mt|exact P|exact Hm0].
Qed.

Lemma step_ook bufsz st e : inv st ->
  forall m, In m (o_msgs (step cur bufsz st e)) -> ook (p_heap (o_st (step cur bufsz st e))) m.
Proof.
  intros [W R]. destruct e as [data0 force newcap|]; cbn [step]; [|intros m []].
  set (data := firstn bufsz data0).
  set (h0 := store (p_heap st) rbuf 0 data).
  set (eff := mkS rbuf 0 (length data) bufsz).
  assert (fr (p_heap st) (p_hist st) h0 (p_hist st)) as F0 by apply fr_store_rbuf.
  assert (wfh h0 (p_hist st)) as W0 by now apply wfh_store.
  destruct (unpack_ok h0 (p_hist st) eff force newcap W0) as (F1 & W1 & M1).
  pose proof (unpack_vok h0 (p_hist st) eff force newcap W0) as V1.
  set (u := unpack cur h0 (p_hist st) eff force newcap) in *.
  destruct (parse_loop (u_heap u) (p_rec st) (u_msgs u)) as [[h2 r2] out] eqn:P.
  cbn [o_st o_msgs p_heap p_hist p_rec].
  assert (rprot (length (u_heap u)) (u_hist u) (p_rec st)) as R1.
  { eapply rprot_fr; [|exact R]. eapply fr_trans; eauto. }
  eapply parse_loop_ook; [exact W1|exact R1| |exact P]. intros m Hm. split; auto.
Qed.

Theorem delivered_ook bufsz evs k m : delivered_at cur bufsz evs k m ->
  forall j, S k <= j -> ook (p_heap (state_at cur bufsz evs j)) m.
Proof.
  intros D j Hj. destruct (delivered_protected _ _ _ _ D j Hj) as [_ Ec].
  destruct D as (e & Hn & Hin).
  pose proof (step_ook bufsz _ e (inv_state_at bufsz evs k) m Hin) as O.
  rewrite <- (state_at_S _ _ _ _ Hn) in O.
  unfold content in Ec. injection Ec as E1 E2 E3.
  destruct O as (O1 & O2 & O3 & O4). unfold ook. rewrite E1, E2, E3. auto.
Qed.

Lemma with_bcd_same m : with_bcd m (m_bcd m) = m.
Proof. destruct m; reflexivity. Qed.

Theorem reply_own_bytes bufsz evs k m : delivered_at cur bufsz evs k m ->
  forall j, S k <= j -> forall rid ps body,
  reply_at (p_heap (state_at cur bufsz evs j)) m rid ps body = encode (d_hdr m) rid ps body.
Proof.
  intros D j Hj rid ps body. destruct (delivered_ook _ _ _ _ D j Hj) as (O1 & _).
  unfold reply_at. now rewrite O1, with_bcd_same.
Qed.

(* ================= reassembly ================= *)
Lemma rec_get_set r id v : rec_get (rec_set r id v) id = Some v.
Proof. unfold rec_set. cbn [rec_get]. now rewrite N.eqb_refl. Qed.

Lemma nth_set_nth {A} (d x : A) l : forall n, n < length l -> nth n (set_nth n x l) d = x.
Proof.
  induction l as [|y l IH]; intros n H; cbn [length] in H. lia.
  destruct n; cbn [set_nth nth]; auto. apply IH. lia.
Qed.

(* the packet's Body slice is what completePack stores in the slot of its number *)
Lemma complete_pack_stores h r m h' r' m' : complete_pack h r m = (h', r', m', None) ->
  let sum := N.to_nat (m_sum (d_hdr m)) in
  let id := m_id (d_hdr m) in
  let seq := N.to_nat (m_no (d_hdr m)) in
  let r1 := if seq =? 1 then rec_set r id (repeat nil_slice sum) else r in
  forall slots, sum <> 0 -> rec_get r1 id = Some slots -> 1 <= seq <= length slots ->
  h' = h /\ m' = m /\ exists slots', rec_get r' id = Some slots' /\ nth (seq - 1) slots' nil_slice = d_body m.
Proof.
  cbv zeta. unfold complete_pack. intros H slots Hs G Hseq.
  destruct (N.to_nat (m_sum (d_hdr m)) =? 0) eqn:E0. apply Nat.eqb_eq in E0; contradiction.
  rewrite G in H.
  replace ((N.to_nat (m_no (d_hdr m)) <? 1) || (length slots <? N.to_nat (m_no (d_hdr m)))) with false in H.
  2:{ symmetry. apply Bool.orb_false_iff. split; apply Nat.ltb_ge; lia. }
  match type of H with context [if ?c then _ else _] => destruct c end.
  - unfold alloc in H. discriminate.
  - injection H as <- <- <-. split; auto. split; auto. eexists. split. apply rec_get_set.
    apply nth_set_nth. lia.
Qed.

(* the completed message's body (and TerminalData) is a fresh array holding the concatenation
   of what the stored Body slices denote at that moment; the packet that completed the transfer
   shows the same body (it shares its JTMessage) *)
Lemma complete_pack_merged h r m h' r' m' cm : complete_pack h r m = (h', r', m', Some cm) ->
  let sum := N.to_nat (m_sum (d_hdr m)) in
  let id := m_id (d_hdr m) in
  let seq := N.to_nat (m_no (d_hdr m)) in
  let r1 := if seq =? 1 then rec_set r id (repeat nil_slice sum) else r in
  exists slots, rec_get r1 id = Some slots /\
    deref h' (d_body cm) = flat_map (deref h) (firstn sum (set_nth (seq - 1) (d_body m) slots)) /\
    d_raw cm = d_body cm /\ d_body m' = d_body cm /\ d_complete cm = true /\ d_hdr cm = d_hdr m.
Proof.
  cbv zeta. unfold complete_pack.
  destruct (N.to_nat (m_sum (d_hdr m)) =? 0). discriminate.
  match goal with |- context [rec_get ?r1 ?id] => destruct (rec_get r1 id) as [slots|] eqn:G end.
  - match goal with |- context [if ?c then _ else _] => destruct c end. discriminate.
    match goal with |- context [if ?c then _ else _] => destruct c end; [|discriminate].
    unfold alloc. intros H. injection H as <- <- <- <-. exists slots. split; auto.
    cbn [d_body d_raw d_complete d_hdr]. rewrite deref_fresh. auto 6.
  - match goal with |- context [if ?c then _ else _] => destruct c eqn:E end. discriminate.
    (* no record: the slot table is empty, nothing can be stored *)
    exfalso. apply Bool.orb_false_iff in E. destruct E as [E1 E2].
    apply Nat.ltb_ge in E1. apply Nat.ltb_ge in E2. cbn [length] in E2. lia.
Qed.

(* a stored Body slice keeps its content whatever happens later on the connection *)
Theorem slots_stable bufsz st evs id slots s : inv st ->
  rec_get (p_rec st) id = Some slots -> In s slots ->
  deref (p_heap (fold_left (stepf bufsz) evs st)) s = deref (p_heap st) s.
Proof.
  intros I G Hs. destruct (run_from_ok bufsz evs st I) as [[_ F] _]. destruct I as [_ R].
  pose proof (rprot_get _ _ _ _ _ R G) as Fs. rewrite Forall_forall in Fs.
  destruct (Fs s Hs) as [E|P].
  - unfold deref. rewrite E. reflexivity.
  - now apply F.
Qed.

Lemma inv_reachable bufsz evs : inv (run cur bufsz evs).
Proof. rewrite run_stepf. apply run_from_ok. apply inv_init. Qed.

(* ================= the statements of Props/C09.v ================= *)
Theorem stable bufsz evs k m : delivered_at cur bufsz evs k m ->
  forall j, S k <= j ->
  content (p_heap (state_at cur bufsz evs j)) m = content (p_heap (state_at cur bufsz evs (S k))) m.
Proof. intros D j Hj. apply (delivered_protected _ _ _ _ D j Hj). Qed.

Theorem never_changes bufsz evs : ~ changes cur bufsz evs.
Proof. intros (k & m & j & D & Hj & Hc). apply Hc. now apply stable. Qed.

(* the two repaired mechanisms, by computation on the memory model *)
Lemma refuted_alias : changes prefix_fastpath_alias 1023 ex_alias_evs.
Proof.
  exists 0, (delivered_nth prefix_fastpath_alias 1023 ex_alias_evs 0 0), 2.
  split. { exists (Read ex_f1 false 0). split. reflexivity. vm_compute. left. reflexivity. }
  split. lia. vm_compute. discriminate.
Qed.

Lemma refuted_alias_close : changes prefix_fastpath_alias 1023 ex_close_evs.
Proof.
  exists 0, (delivered_nth prefix_fastpath_alias 1023 ex_close_evs 0 0), 2.
  split. { exists (Read ex_f1 false 0). split. reflexivity. vm_compute. left. reflexivity. }
  split. lia. vm_compute. discriminate.
Qed.

Lemma refuted_reuse : changes prefix_history_reuse 1023 ex_reuse_evs.
Proof.
  exists 1, (delivered_nth prefix_history_reuse 1023 ex_reuse_evs 1 0), 3.
  split. { exists (Read (skipn 5 ex_f1) false 64). split. reflexivity. vm_compute. left. reflexivity. }
  split. lia. vm_compute. discriminate.
Qed.

(* on the current code the same histories deliver the frames and keep them *)
Lemma ex_cur_alias :
  map (fun j => content (p_heap (state_at cur 1023 ex_alias_evs j)) (delivered_nth cur 1023 ex_alias_evs 0 0)) [1; 2]
  = [(ex_f1, [1; 2; 3]%N, m_bcd ex_hdr); (ex_f1, [1; 2; 3]%N, m_bcd ex_hdr)].
Proof. vm_compute. reflexivity. Qed.

Lemma ex_cur_reuse :
  map (fun j => content (p_heap (state_at cur 1023 ex_reuse_evs j)) (delivered_nth cur 1023 ex_reuse_evs 1 0)) [2; 3]
  = [(ex_f1, [1; 2; 3]%N, m_bcd ex_hdr); (ex_f1, [1; 2; 3]%N, m_bcd ex_hdr)].
Proof. vm_compute. reflexivity. Qed.

Lemma ex_delivered : delivered_at cur 1023 ex_alias_evs 0 (delivered_nth cur 1023 ex_alias_evs 0 0).
Proof. exists (Read ex_f1 false 0). split. reflexivity. vm_compute. left. reflexivity. Qed.

Theorem slots_stable_reachable bufsz evs later id slots s :
  rec_get (p_rec (run cur bufsz evs)) id = Some slots -> In s slots ->
  deref (p_heap (fold_left (fun st e => o_st (step cur bufsz st e)) later (run cur bufsz evs))) s
  = deref (p_heap (run cur bufsz evs)) s.
Proof. exact (slots_stable bufsz _ later id slots s (inv_reachable bufsz evs)). Qed.

(* Proofs about Base/GoSlice.v and Model/Mem.v (C09): the ownership invariant.
   Every slice handed out with a delivered message points into an allocation that no later
   step writes: the only regions ever written are allocation 0 (the read buffer), the part of
   the history array at or beyond the history slice's current offset, and fresh allocations. *)
From Coq Require Import Arith Lia.
From JT.Base Require Import Prelude GoSlice.
From JT.Model Require Import Frame Mem.
Local Open Scope nat_scope.

(* ================= lists ================= *)
Lemma list_ext {A} (a b : list A) : (forall i, nth_error a i = nth_error b i) -> a = b.
Proof.
  revert b. induction a as [|x a IH]; intros [|y b] H; auto.
  - specialize (H 0). discriminate.
  - specialize (H 0). discriminate.
  - f_equal. specialize (H 0). cbn in H. congruence.
    apply IH. intros i. apply (H (S i)).
Qed.

Lemma nth_error_skipn {A} (l : list A) o i : nth_error (skipn o l) i = nth_error l (o + i).
Proof.
  revert l. induction o as [|o IH]; intros l; cbn [skipn plus]; auto.
  destruct l as [|x l]. now destruct i. apply IH.
Qed.

Lemma nth_error_firstn {A} (l : list A) n i :
  nth_error (firstn n l) i = if i <? n then nth_error l i else None.
Proof.
  revert l i. induction n as [|n IH]; intros l i.
  - cbn [firstn]. now destruct i.
  - destruct l as [|x l]; cbn [firstn].
    + destruct i; cbn [nth_error]; now destruct (_ <? S n).
    + destruct i as [|i]; cbn [nth_error]. reflexivity.
      rewrite IH. change (S i <? S n) with (i <? n). reflexivity.
Qed.

Lemma nth_error_window {A} (l : list A) o n i :
  nth_error (firstn n (skipn o l)) i = if i <? n then nth_error l (o + i) else None.
Proof. rewrite nth_error_firstn, nth_error_skipn. reflexivity. Qed.

Lemma window_ext {A} (c c' : list A) o n :
  (forall i, o <= i < o + n -> nth_error c i = nth_error c' i) ->
  firstn n (skipn o c) = firstn n (skipn o c').
Proof.
  intros H. apply list_ext. intros i. rewrite !nth_error_window.
  destruct (i <? n) eqn:E; auto. apply Nat.ltb_lt in E. apply H. lia.
Qed.

(* ================= heap primitives ================= *)
Lemma write_at_length c : forall off d, length (write_at c off d) = length c.
Proof.
  induction c as [|x c IH]; intros off d; cbn [write_at]; auto.
  destruct off as [|o]. destruct d as [|y d]; cbn [length]; auto. cbn [length]. auto.
Qed.

Lemma write_at_out c : forall off d i, i < off \/ off + length d <= i ->
  nth_error (write_at c off d) i = nth_error c i.
Proof.
  induction c as [|x c IH]; intros off d i H; cbn [write_at]; auto.
  destruct off as [|o].
  - destruct d as [|y d]; auto. cbn [length] in H.
    destruct i as [|i]. lia. cbn [nth_error]. apply IH. lia.
  - destruct i as [|i]; cbn [nth_error]; auto. apply IH. lia.
Qed.

Lemma write_at_in c : forall off d i, off + length d <= length c -> i < length d ->
  nth_error (write_at c off d) (off + i) = nth_error d i.
Proof.
  induction c as [|x c IH]; intros off d i Hb Hi; cbn [write_at].
  - cbn [length] in Hb. lia.
  - destruct off as [|o].
    + destruct d as [|y d]. cbn [length] in Hi; lia.
      destruct i as [|i]; cbn [plus nth_error]; auto.
      apply (IH 0 d i). cbn [length] in *. lia. cbn [length] in Hi. lia.
    + cbn [plus nth_error]. apply IH. cbn [length] in Hb. lia. exact Hi.
Qed.

Lemma upd_length {A} (f : A -> A) l : forall n, length (upd n f l) = length l.
Proof. induction l as [|x l IH]; intros [|n]; cbn [upd length]; auto. Qed.

Lemma nth_upd_same (f : list N -> list N) l : f [] = [] -> forall n, nth n (upd n f l) [] = f (nth n l []).
Proof.
  intros Hf. induction l as [|x l IH]; intros [|n]; cbn [upd nth]; auto.
Qed.

Lemma nth_upd_other {A} (f : A -> A) (d : A) l : forall n k, n <> k -> nth k (upd n f l) d = nth k l d.
Proof.
  induction l as [|x l IH]; intros [|n] [|k] H; cbn [upd nth]; auto. congruence.
Qed.

Lemma store_length h id off d : length (store h id off d) = length h.
Proof. apply upd_length. Qed.

Lemma cells_store_same h id off d : cells (store h id off d) id = write_at (cells h id) off d.
Proof. unfold cells, store. apply nth_upd_same. reflexivity. Qed.

Lemma cells_store_other h id off d k : id <> k -> cells (store h id off d) k = cells h k.
Proof. unfold cells, store. apply nth_upd_other. Qed.

Lemma cells_alloc_old h c k : k < length h -> cells (h ++ [c]) k = cells h k.
Proof. intros H. unfold cells. now rewrite app_nth1. Qed.

Lemma cells_alloc_new h c : cells (h ++ [c]) (length h) = c.
Proof. unfold cells. rewrite app_nth2, Nat.sub_diag by lia. reflexivity. Qed.

Lemma deref_alloc h c s : s_id s < length h -> deref (h ++ [c]) s = deref h s.
Proof. intros H. unfold deref. now rewrite cells_alloc_old. Qed.

Lemma deref_store_other h id off d s : s_id s <> id -> deref (store h id off d) s = deref h s.
Proof. intros H. unfold deref. rewrite cells_store_other; auto. Qed.

Lemma deref_store_below h id off d s : s_off s + s_len s <= off -> deref (store h id off d) s = deref h s.
Proof.
  intros H. destruct (Nat.eq_dec (s_id s) id) as [E|E].
  - unfold deref. rewrite E, cells_store_same. apply window_ext. intros i Hi.
    apply write_at_out. lia.
  - now apply deref_store_other.
Qed.

Lemma deref_length_le h s : length (deref h s) <= s_len s.
Proof. unfold deref. rewrite firstn_length. lia. Qed.

(* ================= the ownership invariant ================= *)
(* a slice is protected in a state whose heap has hl allocations and whose history slice is
   hist when it lies in an existing allocation other than the read buffer and, if that is the
   history array, entirely below the history slice *)
Definition prot (hl : nat) (hist : slice) (s : slice) : Prop :=
  s_id s <> 0 /\ s_id s < hl /\ (s_id s = s_id hist -> s_off s + s_len s <= s_off hist).

Definition mprot (hl : nat) (hist : slice) (m : dmsg) : Prop :=
  prot hl hist (d_raw m) /\ prot hl hist (d_body m) /\ prot hl hist (d_bcd m).

(* well-formed history slice: allocated; a slice of allocation 0 is the nil slice *)
Definition wfh (h : heap) (hist : slice) : Prop :=
  0 < length h /\ s_id hist < length h /\ (s_id hist = 0 -> s_cap hist = 0 /\ s_len hist = 0).

(* frame condition of a transition (h, hist) -> (h', hist'): the heap only grows, protected
   slices stay protected and keep their content *)
Definition fr (h : heap) (hist : slice) (h' : heap) (hist' : slice) : Prop :=
  length h <= length h' /\
  forall s, prot (length h) hist s -> prot (length h') hist' s /\ deref h' s = deref h s.

Lemma fr_refl h hist : fr h hist h hist.
Proof. split; auto. Qed.

Lemma fr_trans h1 s1 h2 s2 h3 s3 : fr h1 s1 h2 s2 -> fr h2 s2 h3 s3 -> fr h1 s1 h3 s3.
Proof.
  intros [L1 F1] [L2 F2]. split. lia. intros s Hs.
  destruct (F1 s Hs) as [P1 D1]. destruct (F2 s P1) as [P2 D2]. split; auto. congruence.
Qed.

Lemma fr_alloc h hist c : fr h hist (h ++ [c]) hist.
Proof.
  split. rewrite app_length; cbn; lia.
  intros s (A & B & C). split. split; [auto|split; auto]. rewrite app_length; cbn; lia.
  now apply deref_alloc.
Qed.

Lemma fr_store_rbuf h hist off d : fr h hist (store h 0 off d) hist.
Proof.
  split. now rewrite store_length. intros s (A & B & C). split.
  - rewrite store_length. repeat split; auto.
  - now apply deref_store_other.
Qed.

Lemma fr_store_hist h hist off d : s_off hist <= off -> fr h hist (store h (s_id hist) off d) hist.
Proof.
  intros Ho. split. now rewrite store_length. intros s (A & B & C). split.
  - rewrite store_length. repeat split; auto.
  - destruct (Nat.eq_dec (s_id s) (s_id hist)) as [E|E].
    + rewrite <- E. apply deref_store_below. specialize (C E). lia.
    + now apply deref_store_other.
Qed.

Lemma fr_advance h hist i j : fr h hist h (sub_slice hist i j).
Proof.
  split; auto. intros s (A & B & C). split; auto. repeat split; auto.
  cbn [sub_slice s_id s_off]. intros E. specialize (C E). lia.
Qed.

Lemma fr_nil h hist : fr h hist h nil_slice.
Proof.
  split; auto. intros s (A & B & C). split; auto. repeat split; auto.
  cbn [nil_slice s_id]. intros E. congruence.
Qed.

(* the history slice is only ever advanced with slice_from (j = len): nil stays nil *)
Lemma wfh_from h hist e : wfh h hist -> wfh h (slice_from hist e).
Proof.
  intros (A & B & C). unfold slice_from. split; [|split]; auto.
  cbn [sub_slice s_id s_cap s_len]. intros E. destruct (C E) as [C1 C2]. lia.
Qed.

Lemma wfh_nil h hist : wfh h hist -> wfh h nil_slice.
Proof. intros (A & B & C). split; [|split]; auto. Qed.

Lemma wfh_grow h hist c : wfh h hist -> wfh (h ++ [c]) hist.
Proof. intros (A & B & C). split; [|split]; auto; rewrite app_length; cbn; lia. Qed.

Lemma wfh_store h hist id off d : wfh h hist -> wfh (store h id off d) hist.
Proof. intros (A & B & C). split; [|split]; auto; rewrite store_length; auto. Qed.

Lemma append_fr h hist d force newcap h' hist' :
  wfh h hist -> append h hist d force newcap = (h', hist') ->
  fr h hist h' hist' /\ wfh h' hist'.
Proof.
  intros W. unfold append.
  destruct ((s_len hist + length d <=? s_cap hist) && negb force) eqn:E.
  - intros H. injection H as <- <-. split.
    + eapply fr_trans. apply fr_store_hist with (off := s_off hist + s_len hist). lia.
      split. auto. intros s (A & B & C). split; auto. split; [|split]; auto.
    + destruct W as (A & B & C). split; [|split]; cbn [s_id s_cap s_len]; try (rewrite store_length; auto).
      intros E0. apply C in E0. apply andb_true_iff in E. destruct E as [E _].
      apply Nat.leb_le in E. lia.
  - unfold alloc. intros H. injection H as <- <-. split.
    + split. rewrite app_length; cbn; lia.
      intros s (A & B & C). split.
      * split; [|split]; auto. rewrite app_length; cbn; lia.
        cbn [s_id]. intros E0. lia.
      * now apply deref_alloc.
    + destruct W as (A & B & C). split; [|split]; cbn [s_id s_cap s_len]; rewrite ?app_length; cbn; try lia.
Qed.

(* ================= the frame decoder on memory ================= *)
Lemma unesc_no7d w : (forall b, In b w -> (b =? 125)%N = false) -> unesc w = Ok w.
Proof.
  induction w as [|b t IH]; intros H; cbn [unesc]; auto.
  rewrite (H b) by (left; reflexivity). rewrite IH. reflexivity.
  intros x Hx. apply H. now right.
Qed.

Lemma has7d_false d : has7d d = false -> forall b, In b d -> (b =? 125)%N = false.
Proof.
  unfold has7d. intros H b Hb. destruct (b =? 125)%N eqn:E; auto.
  apply N.eqb_eq in E. subst b.
  assert (existsb (N.eqb 125) d = true) as X by (apply existsb_exists; exists 125%N; split; auto).
  congruence.
Qed.

Lemma in_removelast {A} (l : list A) x : In x (removelast l) -> In x l.
Proof.
  induction l as [|y l IH]; cbn [removelast]; auto. destruct l as [|z l]. intros [].
  intros [H|H]. now left. right. now apply IH.
Qed.

Lemma in_tl {A} (l : list A) x : In x (tl l) -> In x l.
Proof. destruct l; cbn; auto. Qed.

Lemma removelast_len {A} (l : list A) : length (removelast l) = length l - 1.
Proof.
  induction l as [|y l IH]; auto. cbn [removelast]. destruct l as [|z l]. reflexivity.
  cbn [length] in *. lia.
Qed.

Lemma unescape_no7d d p : has7d d = false -> unescape d = Ok p ->
  p = removelast (tl d) /\ length d = length p + 2.
Proof.
  intros H7 H. unfold unescape in H.
  destruct ((2 <? len d)%N && (hd 0%N d =? 126)%N && (last d 0%N =? 126)%N) eqn:C; cbn [negb] in H; [|discriminate].
  rewrite unesc_no7d in H.
  - injection H as <-. split; auto. rewrite removelast_len.
    apply andb_true_iff in C. destruct C as [C _]. apply andb_true_iff in C. destruct C as [C _].
    apply N.ltb_lt in C. unfold len in C. destruct d as [|x d]; cbn [length tl] in *; lia.
  - intros b Hb. apply (has7d_false d H7). apply in_tl. now apply in_removelast.
Qed.

Lemma decode_inv d m : decode d = Ok m ->
  exists p, unescape d = Ok p /\ hdr_end m + N.to_nat (m_len m) + 1 = length p
            /\ hdr_start m + hdr_plen m <= hdr_end m.
Proof.
  unfold decode. destruct (unescape d) as [p| |]; cbn [bind]; try discriminate.
  intros H. exists p. split; auto.
  destruct (negb (xor_all p =? 0)%N); [discriminate|].
  destruct (len p <? 4)%N; [discriminate|].
  set (attr := be16 (at_ p 2) (at_ p 3)) in *.
  set (ver := N.land (N.shiftr attr 14) 1) in *.
  set (frag := N.land (N.shiftr attr 13) 1) in *.
  set (blen := N.land attr 1023) in *.
  destruct (len p <? _)%N; [discriminate|].
  destruct ((frag =? 1)%N && _); [discriminate|].
  match type of H with (if negb ?c then _ else _) = _ => destruct c eqn:C end; cbn [negb] in H; [|discriminate].
  injection H as Hm. subst m. unfold hdr_end, hdr_start, hdr_plen. cbn [m_ver m_frag m_len].
  apply N.eqb_eq in C. unfold len in C.
  destruct (ver =? 1)%N, (frag =? 1)%N; split; lia.
Qed.

Definition inside (s raw : slice) : Prop :=
  s_id s = s_id raw /\ s_off raw <= s_off s /\ s_off s + s_len s <= s_off raw + s_len raw.

Lemma prot_inside hl hist s raw : inside s raw -> prot hl hist raw -> prot hl hist s.
Proof.
  intros (I1 & I2 & I3) (A & B & C). unfold prot. rewrite I1. split; [|split]; auto.
  intros E. specialize (C E). lia.
Qed.

Lemma decode_mem_ok h raw h' m : decode_mem h raw = Ok (h', m) ->
  d_raw m = raw /\
  ((h' = h /\ inside (d_body m) raw /\ inside (d_bcd m) raw) \/
   (exists p, h' = h ++ [p] /\ s_id (d_body m) = length h /\ s_id (d_bcd m) = length h)).
Proof.
  unfold decode_mem. destruct (decode (deref h raw)) as [m0| |] eqn:D; try discriminate.
  destruct (has7d (deref h raw)) eqn:H7.
  - destruct (unescape (deref h raw)) as [p| |]; try discriminate.
    unfold alloc. intros H. injection H as <- <-. split; auto. right. exists p. auto.
  - intros H. injection H as <- <-. split; auto. left. split; auto.
    destruct (decode_inv _ _ D) as (p & U & L1 & L2).
    destruct (unescape_no7d _ _ H7 U) as [_ L3].
    pose proof (deref_length_le h raw) as L4.
    unfold inside. cbn [d_body d_bcd sub_slice s_id s_off s_len]. repeat split; lia.
Qed.

Lemma decode_mem_fr h hist raw h' m : decode_mem h raw = Ok (h', m) -> fr h hist h' hist.
Proof.
  intros H. destruct (decode_mem_ok _ _ _ _ H) as [_ [(-> & _)|(p & -> & _)]].
  apply fr_refl. apply fr_alloc.
Qed.

Lemma decode_mem_len h raw h' m : decode_mem h raw = Ok (h', m) -> length h <= length h' <= S (length h).
Proof.
  intros H. destruct (decode_mem_ok _ _ _ _ H) as [_ [(-> & _)|(p & -> & _)]].
  lia. rewrite app_length. cbn. lia.
Qed.

(* the message just decoded from raw is protected in any later state (same heap h') whose
   history slice hist' protects raw and lives in an allocation older than the decode *)
Lemma decode_mem_mprot h raw h' m hist' :
  decode_mem h raw = Ok (h', m) -> 0 < length h -> s_id hist' < length h ->
  prot (length h') hist' raw -> mprot (length h') hist' m.
Proof.
  intros H H0 Hh P. destruct (decode_mem_ok _ _ _ _ H) as [R [(-> & I1 & I2)|(p & -> & I1 & I2)]].
  - unfold mprot. rewrite R. split; [|split]; auto; eapply prot_inside; eauto.
  - unfold mprot. rewrite R. split; [|split]; auto; unfold prot; rewrite ?I1, ?I2, app_length; cbn;
      (split; [|split]; [lia|lia|intros E; lia]).
Qed.

(* ================= unpack ================= *)
Lemma mprot_fr h hist h' hist' m :
  fr h hist h' hist' -> mprot (length h) hist m -> mprot (length h') hist' m.
Proof. intros [_ F] (A & B & C). split; [|split]; apply F; auto. Qed.

Lemma decode_mem_wfh h hist raw h' m : decode_mem h raw = Ok (h', m) -> wfh h hist -> wfh h' hist.
Proof.
  intros H W. destruct (decode_mem_ok _ _ _ _ H) as [_ [(-> & _)|(p & -> & _)]]; auto.
  now apply wfh_grow.
Qed.

Lemma frame_end_some l e : frame_end l = Some e -> 2 < length l.
Proof.
  unfold frame_end. destruct (2 <? length l) eqn:E; cbn [andb]; try discriminate.
  intros _. now apply Nat.ltb_lt.
Qed.

Lemma scan_ok fuel : forall h hist acc, wfh h hist ->
  (forall m, In m acc -> mprot (length h) hist m) ->
  let u := scan cur fuel h hist acc in
  fr h hist (u_heap u) (u_hist u) /\ wfh (u_heap u) (u_hist u) /\
  forall m, In m (u_msgs u) -> mprot (length (u_heap u)) (u_hist u) m.
Proof.
  induction fuel as [|fuel IH]; intros h hist acc W Hacc; cbn [scan].
  - cbn [u_heap u_hist u_msgs]. split; [apply fr_refl|split; auto].
  - destruct (frame_end (deref h hist)) as [e|] eqn:FE.
    2:{ cbn [u_heap u_hist u_msgs]. split; [apply fr_refl|split; auto]. }
    assert (s_id hist <> 0) as Hid.
    { intros E0. destruct W as (_ & _ & W3). destruct (W3 E0) as [_ L0].
      apply frame_end_some in FE. pose proof (deref_length_le h hist). lia. }
    destruct (decode_mem h (sub_slice hist 0 e)) as [[h' m]| |] eqn:D.
    + pose proof (decode_mem_fr _ hist _ _ _ D) as F1.
      pose proof (decode_mem_wfh _ hist _ _ _ D W) as W1.
      pose proof (decode_mem_len _ _ _ _ D) as L1.
      destruct W as (W0 & Wid & W3).
      destruct (e =? s_len hist).
      * cbn [u_heap u_hist u_msgs cur v_nil].
        split; [eapply fr_trans; [exact F1|apply fr_nil]|].
        split; [eapply wfh_nil; eauto|].
        intros m0 Hm0. apply in_app_or in Hm0. destruct Hm0 as [Hm0|[<-|[]]].
        -- eapply mprot_fr; [|apply Hacc; exact Hm0]. eapply fr_trans; [exact F1|apply fr_nil].
        -- eapply decode_mem_mprot; [exact D|exact W0|exact W0|].
           split; [|split]; cbn [sub_slice s_id nil_slice]; [exact Hid|lia|intros E0; congruence].
      * assert (fr h hist h' (slice_from hist e)) as F2
          by (eapply fr_trans; [exact F1|apply fr_advance]).
        specialize (IH h' (slice_from hist e) (acc ++ [m]) (wfh_from _ _ e W1)).
        destruct IH as (F3 & W4 & M4).
        -- intros m0 Hm0. apply in_app_or in Hm0. destruct Hm0 as [Hm0|[<-|[]]].
           ++ eapply mprot_fr; [exact F2|apply Hacc; exact Hm0].
           ++ eapply decode_mem_mprot; [exact D|exact W0|exact Wid|].
              split; [|split]; cbn [slice_from sub_slice s_id s_off s_len]; [exact Hid|lia|intros _; lia].
        -- split; [eapply fr_trans; eauto|split; auto].
    + cbn [u_heap u_hist u_msgs]. split; [apply fr_advance|split; [now apply wfh_from|]].
      intros m0 Hm0. eapply mprot_fr; [apply fr_advance|now apply Hacc].
    + cbn [u_heap u_hist u_msgs]. split; [apply fr_advance|split; [now apply wfh_from|]].
      intros m0 Hm0. eapply mprot_fr; [apply fr_advance|now apply Hacc].
Qed.

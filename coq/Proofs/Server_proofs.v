(* Proofs about Model/Server.v (C10): every checked function equals the unchecked model of the
   property that ties it to the code (so it never yields Panic), hence no event sequence crashes either
   server; a connection's observations do not depend on the events of other connections. *)
From JT.Base Require Import Prelude PreludeP.
From JT.Model Require Import Frame Unpack Subpkg Server.
From JT.Model Require Ranges Reply Attach Location.
From JT.Proofs Require Import Frame_proofs.
From JT.Proofs Require Location_proofs Attach_proofs Total_msgs_proofs.
From Coq Require Import ZArith ZifyN ZifyNat ZifyBool.
Ltac Zify.zify_post_hook ::= Z.div_mod_to_equations.

(* ====================== checked primitives inside their bounds ====================== *)
Lemma slice_from_ok l i : i <= len l -> slice_from l i = Ok (skipn (N.to_nat i) l).
Proof. intros H. unfold slice_from. replace (i <=? len l) with true by lia. reflexivity. Qed.

Lemma slice0_ok l j : j <= len l -> slice l 0 j = Ok (firstn (N.to_nat j) l).
Proof.
  intros H. unfold slice. replace ((0 <=? j) && (j <=? len l)) with true by lia.
  rewrite N.sub_0_r. reflexivity.
Qed.

Lemma idx_hd l : l <> [] -> idx l 0 = Ok (hd 0 l).
Proof. destruct l; intros H. congruence. reflexivity. Qed.

Lemma idx_last l : l <> [] -> idx l (len l - 1) = Ok (last l 0).
Proof.
  intros H. destruct l as [|x l] using rev_ind. congruence. clear IHl.
  rewrite last_last. unfold idx, len. rewrite app_length. cbn [length].
  replace (N.to_nat (N.of_nat (length l + 1) - 1)) with (length l) by lia.
  rewrite nth_error_app2, Nat.sub_diag by lia. reflexivity.
Qed.

Lemma decode_chk_cases d : decode_chk d = decode d /\ decode d <> Panic.
Proof. split. apply decode_chk_eq. rewrite <- decode_chk_eq. apply decode_chk_total. Qed.

(* ====================== JT808: unpack ====================== *)
Lemma nth_delim_lt l : forall k i j, nth_delim l k i = Some j -> j < i + len l.
Proof.
  induction l as [|b t IH]; intros k i j H; cbn [nth_delim] in H. discriminate.
  rewrite len_cons. destruct (b =? 126).
  - destruct k as [|[|k]]; try discriminate.
    + injection H as <-. lia.
    + apply IH in H. lia.
  - apply IH in H. lia.
Qed.

Lemma scan_chk_ok fuel : forall h acc, scan_chk fuel h acc = Ok (scan fuel h acc).
Proof.
  induction fuel as [|fuel IH]; intros h acc; cbn [scan_chk scan]. reflexivity.
  destruct (2 <? len h) eqn:E2.
  - assert (h <> []) as Hne by (intros ->; cbv in E2; discriminate).
    rewrite idx_hd by exact Hne. cbn [bind andb].
    destruct (hd 0 h =? 126); [|reflexivity].
    destruct (nth_delim (tl h) 1 1) as [i|] eqn:En; [|reflexivity].
    assert (i + 1 <= len h) as Hi.
    { apply nth_delim_lt in En. destruct h. congruence. cbn [tl] in En. rewrite len_cons. lia. }
    rewrite slice0_ok, slice_from_ok by exact Hi. cbn [bind].
    destruct (decode_chk_cases (firstn (N.to_nat (i + 1)) h)) as [-> Hnp].
    destruct (decode (firstn (N.to_nat (i + 1)) h)) as [m|e|] eqn:Ed; try reflexivity; [|congruence].
    destruct (skipn (N.to_nat (i + 1)) h); [reflexivity|]. apply IH.
  - cbn [bind andb]. reflexivity.
Qed.

Theorem unpack_chk_ok h d : unpack_chk h d = Ok (unpack h d).
Proof.
  unfold unpack_chk, unpack.
  destruct ((len h =? 0) && (2 <? len d)) eqn:E.
  - assert (d <> []) as Hne.
    { intros ->. apply andb_true_iff in E. destruct E as [_ E]. cbv in E. discriminate. }
    rewrite idx_last by exact Hne. cbn [bind andb].
    destruct ((last d 0 =? 126) && _) eqn:E2.
    + destruct (decode_chk_cases d) as [-> Hnp].
      destruct (decode d) as [m|e|] eqn:Ed; try reflexivity. congruence.
    + apply scan_chk_ok.
  - cbn [bind andb]. apply scan_chk_ok.
Qed.

(* ====================== JT808: completePack ====================== *)
Lemma set_nth_chk_ok {A} (v : A) : forall l n, (n < length l)%nat -> set_nth_chk n v l = Ok (set_nth n v l).
Proof.
  induction l as [|x l IH]; intros n H; cbn [length] in H. lia.
  destruct n as [|n]; cbn [set_nth_chk set_nth]. reflexivity.
  rewrite IH by lia. reflexivity.
Qed.

Lemma set_nth_length {A} (v : A) : forall l n, length (set_nth n v l) = length l.
Proof.
  induction l as [|x l IH]; intros n; destruct n; cbn [set_nth length]; auto.
Qed.

Lemma received_le slots : received slots <= len slots.
Proof.
  unfold received. induction slots as [|b t IH]; cbn [filter]. lia.
  destruct (negb (len b =? 0)); rewrite ?len_cons; lia.
Qed.

Theorem complete_pack_chk_ok now s m : complete_pack_chk now s m = Ok (complete_pack now s m).
Proof.
  unfold complete_pack_chk, complete_pack.
  destruct (m_sum m =? 0); [reflexivity|].
  destruct (find (m_id m) _) as [x|]; [|reflexivity].
  destruct ((m_no m <? 1) || (len (x_slots x) <? m_no m)) eqn:Eg; [reflexivity|].
  rewrite set_nth_chk_ok by (unfold len in Eg; lia). cbn [bind].
  destruct (received _ =? m_sum m) eqn:Er; [|reflexivity].
  unfold first_slots_chk.
  pose proof (received_le (set_nth (N.to_nat (m_no m - 1)) (m_body m) (x_slots x))) as Hle.
  replace (m_sum m <=? len (set_nth (N.to_nat (m_no m - 1)) (m_body m) (x_slots x))) with true by lia.
  reflexivity.
Qed.

Lemma cp_loop_chk_ok now : forall ms s, cp_loop_chk now s ms = Ok (cp_loop now s ms).
Proof.
  induction ms as [|[raw m] t IH]; intros s; cbn [cp_loop_chk cp_loop]. reflexivity.
  rewrite complete_pack_chk_ok. cbn [bind].
  destruct (complete_pack now s m) as [s1 r]. cbn [fst snd]. rewrite IH. cbn [bind].
  destruct (cp_loop now s1 t) as [s2 rest]. reflexivity.
Qed.

Theorem parse_chk_ok now st d : parse_chk now st d = Ok (parse now st d).
Proof.
  unfold parse_chk, parse. rewrite unpack_chk_ok. cbn [bind]. rewrite cp_loop_chk_ok. cbn [bind].
  destruct (cp_loop now (delete_timeout now (ps_x st)) (u_msgs (unpack (ps_hist st) d))) as [s1 outs]. cbn [fst snd].
  destruct (housekeeping now s1) as [s2 rrs]. reflexivity.
Qed.

(* ====================== JT808: ReplyBody ====================== *)
Lemma auth_code_chk_ok m : auth_code_chk m = Ok (Reply.auth_code m).
Proof.
  unfold auth_code_chk, Reply.auth_code. destruct (m_ver m =? 1); [|reflexivity].
  destruct (len (m_body m) <? 36) eqn:E; [reflexivity|].
  rewrite idx_ok by lia. cbn [bind].
  destruct (len (m_body m) <? 36 + at_ (m_body m) 0) eqn:E2; [reflexivity|].
  rewrite !slice_ok by lia. reflexivity.
Qed.

Lemma be32_from_ok body i : i + 4 <= len body -> exists v, Ranges.be32_from body i = Ok v.
Proof.
  intros H. unfold Ranges.be32_from. rewrite slice_from_ok by lia. cbn [bind].
  assert (len (skipn (N.to_nat i) body) <? 4 = false) as ->.
  { unfold len in *. rewrite skipn_length. lia. }
  eexists. reflexivity.
Qed.

Theorem reply_body_chk_ok k s m : reply_body_chk k s m = Ok (Reply.reply_body k s m).
Proof.
  destruct k; cbn [reply_body_chk Reply.reply_body]; try reflexivity.
  - (* RAuth *) rewrite auth_code_chk_ok. cbn [bind]. destruct (Reply.auth_code m); reflexivity.
  - (* RMedia *)
    destruct (len (m_body m) <? 36) eqn:E.
    + unfold Location.t0801_parse. rewrite E. reflexivity.
    + destruct (Location_proofs.t0801_parse_eq Location.fresh_0801 (m_body m)) as (v & _ & ->). lia.
      reflexivity.
  - (* RFile *)
    destruct (len (m_body m) <? 6) eqn:E. reflexivity.
    rewrite idx_ok by lia. cbn [bind].
    destruct (negb (len (m_body m) =? 6 + at_ (m_body m) 0)) eqn:E2. reflexivity.
    rewrite slice_ok by lia. rewrite idx_ok by lia. cbn [bind].
    destruct (be32_from_ok (m_body m) (2 + at_ (m_body m) 0)) as (v & ->). lia.
    reflexivity.
Qed.

(* ====================== totality of the remaining parsers ====================== *)
Lemma parse1211_total body : Ranges.parse1211 body <> Panic.
Proof.
  unfold Ranges.parse1211. destruct (len body <? 6) eqn:E. discriminate.
  rewrite idx_ok by lia. cbn [bind].
  destruct (negb (len body =? 6 + at_ body 0)) eqn:E2. discriminate.
  rewrite slice_ok by lia. rewrite idx_ok by lia. cbn [bind].
  destruct (be32_from_ok body (2 + at_ body 0)) as (v & ->). lia. discriminate.
Qed.

Lemma parse_items_total body : forall count start, Attach.parse_items body start count <> Panic.
Proof.
  induction count as [|k IH]; intros start; cbn [Attach.parse_items]. discriminate.
  destruct (len body <? start + 1) eqn:E. discriminate.
  rewrite idx_ok by lia. cbn [bind].
  destruct (len body <? start + 1 + at_ body start + 4) eqn:E2. discriminate.
  rewrite slice_ok by lia. cbn [bind].
  destruct (be32_from_ok body (start + 1 + at_ body start)) as (v & ->). lia. cbn [bind].
  specialize (IH (start + 1 + at_ body start + 4)).
  destruct (Attach.parse_items body (start + 1 + at_ body start + 4) k); cbn [bind]; try discriminate.
  contradiction.
Qed.

Lemma parse1210_total d body : Attach.parse1210 d body <> Panic.
Proof.
  unfold Attach.parse1210. cbv zeta.
  destruct (len body <? Attach.id_len_1210 d + Attach.sign_len d + 32 + 1 + 1) eqn:E. discriminate.
  rewrite idx_ok by lia. cbn [bind].
  match goal with |- (if ?c then _ else _) <> _ => destruct c end. discriminate. apply parse_items_total.
Qed.

Lemma handler_parse_total m : handler_parse_chk m <> Panic.
Proof.
  unfold handler_parse_chk.
  repeat match goal with |- (if ?c then _ else _) <> _ => destruct c end; try discriminate.
  - pose proof (Location_proofs.t0200_total Location.fresh_0200 (m_body m)).
    destruct (Location.t0200_parse _ _); try discriminate. congruence.
  - pose proof (Location_proofs.t0704_total Location.fresh_0704 (m_body m)).
    destruct (Location.t0704_parse _ _); try discriminate. congruence.
  - pose proof (Location_proofs.t0801_total Location.fresh_0801 (m_body m)).
    destruct (Location.t0801_parse _ _); try discriminate. congruence.
  - rewrite auth_code_chk_ok. discriminate.
  - pose proof (parse1211_total (m_body m)). destruct (Ranges.parse1211 _); try discriminate. congruence.
  - pose proof (parse1210_total 1 (m_body m)). destruct (Attach.parse1210 _ _); try discriminate. congruence.
  - pose proof (Total_msgs_proofs.parse_msg_total (m_id m) (fun x => x) (if m_ver m =? 1 then 3 else 2) 1
                  (Total_base.VL []) (m_body m)) as H.
    destruct (Total_msgs.parse_msg _ _ _ _ _ _); try discriminate. exfalso. apply H; [|reflexivity].
    destruct (m_ver m =? 1); auto.
Qed.

(* ====================== JT808: one connection never panics ====================== *)
Lemma deliver_total pa taken c p : deliver pa taken c p <> Panic.
Proof.
  unfold deliver. destruct (Reply.lookup (m_id (p_msg p))) as [hi|]; [|discriminate].
  destruct (m_id (p_msg p) =? Reply.REISSUE). discriminate.
  assert ((if pa && pm_complete p then handler_parse_chk (p_msg p) else Ok tt) <> Panic) as Hh.
  { destruct (pa && pm_complete p). apply handler_parse_total. discriminate. }
  destruct (if pa && pm_complete p then handler_parse_chk (p_msg p) else Ok tt) as [u|e|]; cbn [bind];
    try discriminate; [|congruence].
  destruct (match k_key c with Some k => Some (Some k) | None => _ end) as [key|]; [|discriminate].
  destruct (pm_complete p && Reply.hi_has hi); [|discriminate].
  rewrite reply_body_chk_ok. cbn [bind].
  destruct (snd (Reply.reply_body (Reply.hi_kind hi) (k_h c) (p_msg p))); discriminate.
Qed.

Lemma deliver_all_total pa taken : forall ps c, deliver_all pa taken c ps <> Panic.
Proof.
  induction ps as [|p t IH]; intros c; cbn [deliver_all]. discriminate.
  pose proof (deliver_total pa taken c p) as Hd.
  destruct (deliver pa taken c p) as [[c' o|c' o]|e|]; cbn [bind]; try discriminate; [|congruence].
  specialize (IH c'). destruct (deliver_all pa taken c' t) as [r2|e|]; cbn [bind]; try discriminate.
  contradiction.
Qed.

Theorem conn_data_total pa taken now c d : conn_data pa taken now c d <> Panic.
Proof.
  unfold conn_data. rewrite parse_chk_ok. cbn [bind].
  destruct (parse now (k_ps c) d) as [[ps' msgs] err].
  destruct err. discriminate. apply deliver_all_total.
Qed.

(* ====================== JT808: no event sequence crashes the server ====================== *)
Lemma step808_alive pa s e : v_crashed s = false -> v_crashed (step808 pa s e) = false.
Proof.
  intros H. unfold step808. rewrite H. destruct e as [c|c now d|c|c].
  - destruct (cfind c (v_conns s)); [exact H|reflexivity].
  - destruct (cfind c (v_conns s)) as [k|]; [|exact H].
    destruct d as [|b d]; [exact H|].
    pose proof (conn_data_total pa (taken_by_others c (v_conns s)) now k (b :: d)) as Ht.
    destruct (conn_data pa (taken_by_others c (v_conns s)) now k (b :: d)) as [[k' outs|k' outs]|err|];
      try reflexivity; [exact H|congruence].
  - reflexivity.
  - destruct (cfind c (v_conns s)); [reflexivity|exact H].
Qed.

Theorem no_crash_808 pa evs : outcome808 (run808 pa evs) <> Crash.
Proof.
  unfold outcome808, run808.
  assert (forall s, v_crashed s = false -> v_crashed (fold_left (step808 pa) evs s) = false) as H.
  { induction evs as [|e evs IH]; intros s Hs; cbn [fold_left]. exact Hs.
    apply IH, step808_alive, Hs. }
  rewrite (H init808 eq_refl). discriminate.
Qed.

(* ============================================================================================ *)
(*                                    attachment server                                         *)
(* ============================================================================================ *)
Import Attach.
Local Notation astep := Attach.step.
Local Notation aiter := Attach.iter.

Lemma has_min_head_chk_ok d b : has_min_head_chk d b = Ok (has_min_head d b).
Proof.
  unfold has_min_head_chk, has_min_head. destruct (d =? D_HLJ); [|reflexivity].
  destruct (len b <? 5) eqn:E. reflexivity. rewrite idx_ok by lia. reflexivity.
Qed.

Lemma parse_head_chk_ok d b : has_min_head d b = true -> parse_head_chk d b = Ok (parse_head d b).
Proof.
  unfold has_min_head, parse_head_chk, parse_head. destruct (d =? D_HLJ).
  - destruct (len b <? 5) eqn:E. discriminate. intros H.
    rewrite idx_ok by lia. cbn [bind]. rewrite !slice_ok by lia. reflexivity.
  - intros H. rewrite !slice_ok by lia. reflexivity.
Qed.

Lemma index_of_lt b : forall l i, index_of b l = Some i -> i < len l.
Proof.
  induction l as [|x t IH]; intros i H; cbn [index_of] in H. discriminate.
  rewrite len_cons. destruct (x =? b). injection H as <-. lia.
  destruct (index_of b t) as [j|]; [|discriminate]. injection H as <-. specialize (IH j eq_refl). lia.
Qed.

Theorem lex_chk_ok d b : lex_chk d b = Ok (lex d b).
Proof.
  unfold lex_chk, lex. destruct (has_prefix MARKER b).
  - rewrite has_min_head_chk_ok. cbn [bind]. destruct (has_min_head d b) eqn:E; cbn [negb]; [|reflexivity].
    rewrite parse_head_chk_ok by exact E. cbn [bind].
    destruct (parse_head d b) as [[[hl nm] off] dlen]. destruct (hl + dlen <=? len b); reflexivity.
  - destruct (len b <? 10) eqn:E. reflexivity.
    rewrite slice_from_ok by lia. cbn [bind].
    assert (skipn (N.to_nat 1) b = tl b) as -> by (destruct b; reflexivity).
    destruct (index_of SIGN (tl b)); reflexivity.
Qed.

Lemma lex_chunk_bound d b hl nm off dlen : lex d b = L_chunk hl nm off dlen -> hl + dlen <= len b.
Proof.
  unfold lex. destruct (has_prefix MARKER b).
  - destruct (negb (has_min_head d b)). discriminate.
    destruct (parse_head d b) as [[[hl' nm'] off'] dlen'].
    destruct (hl' + dlen' <=? len b) eqn:E; [|discriminate]. intros H. injection H as <- _ _ <-. lia.
  - destruct (len b <? 10). discriminate. destruct (index_of SIGN (tl b)); discriminate.
Qed.

Lemma lex_frame_bound d b index : lex d b = L_frame index -> index <= len b.
Proof.
  unfold lex. destruct (has_prefix MARKER b).
  - destruct (negb (has_min_head d b)). discriminate.
    destruct (parse_head d b) as [[[hl' nm'] off'] dlen']. destruct (hl' + dlen' <=? len b); discriminate.
  - destruct (len b <? 10) eqn:E. discriminate.
    destruct (index_of SIGN (tl b)) as [i|] eqn:Ei; [|discriminate]. intros H. injection H as <-.
    apply index_of_lt in Ei. destruct b. cbv in E. discriminate. cbn [tl] in Ei. rewrite len_cons. lia.
Qed.

Lemma do_chunk_chk_ok s hl nm off dlen : hl + dlen <= len (s_hist s) ->
  do_chunk_chk s hl nm off dlen = Ok (do_chunk s hl nm off dlen).
Proof.
  intros H. unfold do_chunk_chk, do_chunk.
  destruct (afind name_eqb nm (s_record s)); [|reflexivity].
  rewrite slice_ok, slice0_ok, slice_from_ok by lia. reflexivity.
Qed.

Lemma frame_decide_chk_ok d s m : frame_decide_chk d s m = Ok (frame_decide d s m).
Proof.
  unfold frame_decide_chk, frame_decide.
  destruct (m_id m =? ID_1210).
  { pose proof (parse1210_total d (m_body m)). destruct (parse1210 d (m_body m)); try reflexivity. congruence. }
  destruct (m_id m =? ID_1211).
  { pose proof (parse1211_total (m_body m)). destruct (Ranges.parse1211 (m_body m)); try reflexivity. congruence. }
  destruct (m_id m =? ID_1212); [|reflexivity].
  pose proof (parse1211_total (m_body m)). destruct (Ranges.parse1211 (m_body m)) as [t| |]; try reflexivity; [|congruence].
  destruct (afind name_eqb (Ranges.f_name t) (s_record s)); reflexivity.
Qed.

(* after Parse and OnPackageProgressEvent succeeded, ReplyData has everything it dereferences *)
Lemma reply_data_no_panic d s m stage rec cur n miss :
  frame_decide d (with_msg s m) m = F_go stage rec cur n miss ->
  reply_data (commit (with_msg s m) m stage rec cur n miss) <> Panic.
Proof.
  intros H. unfold reply_data. cbn [commit with_msg h_head h_msg h_cmd].
  assert (exists hd, match h_head s with Some x => Some x | None => Some m end = Some hd) as [hd ->]
    by (destruct (h_head s); eexists; reflexivity).
  unfold frame_decide in H.
  destruct (m_id m =? ID_1210). discriminate.
  destruct (m_id m =? ID_1211). discriminate.
  destruct (m_id m =? ID_1212); [|discriminate].
  destruct (Ranges.parse1211 (m_body m)); discriminate.
Qed.

Lemma frame_core_chk_ok d s m : frame_core_chk d s m = Ok (frame_core d s m).
Proof.
  unfold frame_core_chk, frame_core. rewrite frame_decide_chk_ok. cbn [bind].
  destruct (frame_decide d (with_msg s m) m) as [|stage rec cur n miss] eqn:E. reflexivity.
  destruct (has_reply stage); [|reflexivity].
  pose proof (reply_data_no_panic d s m stage rec cur n miss E) as Hn.
  destruct (reply_data _); try reflexivity. congruence.
Qed.

Lemma do_frame_chk_ok d s index : index <= len (s_hist s) -> do_frame_chk d s index = Ok (do_frame d s index).
Proof.
  intros H. unfold do_frame_chk, do_frame. rewrite slice0_ok by exact H. cbn [bind].
  destruct (decode_chk_cases (firstn (N.to_nat index) (s_hist s))) as [-> Hnp].
  destruct (decode _) as [m|e|] eqn:Ed; try reflexivity; [|congruence].
  rewrite slice_from_ok by exact H. cbn [bind]. apply frame_core_chk_ok.
Qed.

Theorem step_chk_ok d s : step_chk d s = Ok (astep d s).
Proof.
  unfold step_chk, Attach.step. rewrite lex_chk_ok. cbn [bind].
  destruct (lex d (s_hist s)) as [|hl nm off dlen|index] eqn:E. reflexivity.
  - apply do_chunk_chk_ok. eapply lex_chunk_bound, E.
  - apply do_frame_chk_ok. eapply lex_frame_bound, E.
Qed.

(* the default file handler finds what it dereferences after every successful stage *)
Lemma on_event_after_step d s s' : astep d s = O_ok s' -> on_event_chk d s' = Ok tt.
Proof.
  unfold Attach.step. destruct (lex d (s_hist s)) as [|hl nm off dlen|index]. discriminate.
  - unfold do_chunk. destruct (afind name_eqb nm (s_record s)) as [pk|]; [|discriminate].
    intros H. injection H as <-. unfold on_event_chk, after_chunk. cbn [s_stage s_cur].
    destruct (p_cur _ =? p_size _); reflexivity.
  - unfold do_frame. destruct (decode _) as [m|e|]; try discriminate.
    intros H. apply Attach_proofs.frame_core_ok in H.
    destruct H as (stage & rec & cur & n & miss & data & H1 & _ & ->).
    unfold on_event_chk. cbn [replied commit s_stage s_cur s_recent].
    unfold frame_decide in H1.
    destruct (m_id m =? ID_1210).
    { destruct (parse1210 d (m_body m)) eqn:Ep; try discriminate. injection H1 as <- _ _ _ _.
      cbn [ST_INIT ST_STREAM ST_SUPPL N.eqb Pos.eqb orb]. try rewrite Ep; reflexivity. }
    destruct (m_id m =? ID_1211).
    { destruct (Ranges.parse1211 (m_body m)) eqn:Ep; try discriminate. injection H1 as <- _ _ _ _.
      cbn [ST_INIT ST_START ST_STREAM ST_SUPPL N.eqb Pos.eqb orb]. try rewrite Ep; reflexivity. }
    destruct (m_id m =? ID_1212); [|discriminate].
    destruct (Ranges.parse1211 (m_body m)) as [t| |] eqn:Ep; try discriminate.
    cbn [with_msg set_hist s_record] in H1.
    destruct (afind name_eqb (Ranges.f_name t) (s_record _)) as [pk|].
    + injection H1 as <- _ <- _ _. destruct (Ranges.miss_segments _ _ _).
      * cbn [ST_INIT ST_START ST_COMPLETE ST_STREAM ST_SUPPL N.eqb Pos.eqb orb]. try rewrite Ep; reflexivity.
      * reflexivity.
    + injection H1 as <- _ _ _ _.
      cbn [ST_INIT ST_START ST_COMPLETE ST_STREAM ST_SUPPL N.eqb Pos.eqb orb]. try rewrite Ep; reflexivity.
Qed.

Theorem iter_chk_ok d : forall fuel s,
  iter_chk fuel d s = Ok (snd (fst (fst (aiter fuel d s))), snd (fst (aiter fuel d s)), snd (aiter fuel d s)).
Proof.
  induction fuel as [|fuel IH]; intros s; cbn [iter_chk Attach.iter].
  - destruct (s_hist s); reflexivity.
  - destruct (s_hist s) eqn:Eh. reflexivity.
    rewrite step_chk_ok. cbn [bind].
    destruct (astep d s) as [s'| |s'] eqn:E; try reflexivity.
    rewrite (on_event_after_step d s s' E). cbn [bind]. rewrite IH. cbn [bind].
    destruct (aiter fuel d s') as [[[evs w] s''] stop]. reflexivity.
Qed.

Theorem feed_chk_ok d s seg :
  feed_chk d s seg = Ok (snd (fst (fst (feed d s seg))), snd (fst (feed d s seg)), snd (feed d s seg)).
Proof. unfold feed_chk, feed. apply iter_chk_ok. Qed.

(* the final event: FailQuit prints the error; SuccessQuit checks for a missing terminal message *)
Lemma on_event_quit d k : on_event_chk d (quit k) = Ok tt.
Proof. unfold on_event_chk, quit. cbn [set_stage s_stage]. destruct (s_err k); reflexivity. Qed.
Lemma on_event_fail d k : on_event_chk d (set_stage k ST_FAIL_QUIT) = Ok tt.
Proof. reflexivity. Qed.

Lemma stepatt_alive d s e : a_crashed s = false -> a_crashed (stepatt d s e) = false.
Proof.
  intros H. unfold stepatt. rewrite H. destruct e as [c|c now seg|c|c].
  - destruct (cfind c (a_conns s)); [exact H|reflexivity].
  - destruct (cfind c (a_conns s)) as [[[k br]|]|]; try exact H.
    destruct seg as [|b seg]; [exact H|].
    rewrite feed_chk_ok. cbv zeta. destruct (snd (feed d k (b :: seg))).
    + rewrite on_event_fail. reflexivity.
    + reflexivity.
  - destruct (cfind c (a_conns s)) as [[[k br]|]|]; try reflexivity; [|exact H].
    rewrite on_event_quit. reflexivity.
  - destruct (cfind c (a_conns s)) as [[[k br]|]|]; try reflexivity; exact H.
Qed.

Theorem no_crash_att d evs : outcomeatt (runatt d evs) <> Crash.
Proof.
  unfold outcomeatt, runatt.
  assert (forall s, a_crashed s = false -> a_crashed (fold_left (stepatt d) evs s) = false) as H.
  { induction evs as [|e evs IH]; intros s Hs; cbn [fold_left]. exact Hs.
    apply IH, stepatt_alive, Hs. }
  rewrite (H initatt eq_refl). discriminate.
Qed.

(* ============================================================================================ *)
(*                                        isolation                                             *)
(* ============================================================================================ *)
Section CMapFacts.
  Context {V : Type}.
  Implicit Types m : list (N * V).

  Lemma cfind_cset_same c v m : cfind c (cset c v m) = Some v.
  Proof.
    induction m as [|[k v'] t IH]; cbn [cset cfind]. now rewrite N.eqb_refl.
    destruct (k =? c) eqn:E; cbn [cfind]; rewrite E; auto.
  Qed.
  Lemma cremove_cset_same c v m : cremove c (cset c v m) = cremove c m.
  Proof.
    induction m as [|[k v'] t IH]; cbn [cset cremove]. now rewrite N.eqb_refl.
    destruct (k =? c) eqn:E; cbn [cremove]; rewrite E; auto. now rewrite IH.
  Qed.
  Lemma cremove_idem c m : cremove c (cremove c m) = cremove c m.
  Proof.
    induction m as [|[k v'] t IH]; cbn [cremove]. reflexivity.
    destruct (k =? c) eqn:E; cbn [cremove]; rewrite ?E; auto. now rewrite IH.
  Qed.
  Lemma cremove_comm c c' m : cremove c (cremove c' m) = cremove c' (cremove c m).
  Proof.
    induction m as [|[k v'] t IH]; cbn [cremove]. reflexivity.
    destruct (k =? c') eqn:E1; destruct (k =? c) eqn:E2; cbn [cremove]; rewrite ?E1, ?E2; auto. now rewrite IH.
  Qed.
  Lemma cremove_cset_other c c' v m : c' <> c -> cremove c (cset c' v m) = cset c' v (cremove c m).
  Proof.
    intros Hn. induction m as [|[k v'] t IH]; cbn [cset cremove].
    - replace (c' =? c) with false by lia. reflexivity.
    - destruct (k =? c') eqn:E1; destruct (k =? c) eqn:E2; cbn [cset cremove]; rewrite ?E1, ?E2; auto; try lia.
      now rewrite IH.
  Qed.
  Lemma cfind_cremove_other c c' m : c' <> c -> cfind c' (cremove c m) = cfind c' m.
  Proof.
    intros Hn. induction m as [|[k v'] t IH]; cbn [cfind cremove]. reflexivity.
    destruct (k =? c) eqn:E2; cbn [cfind]; destruct (k =? c') eqn:E1; auto. lia.
  Qed.
End CMapFacts.

Lemma filter_rev {A} (p : A -> bool) l : filter p (rev l) = rev (filter p l).
Proof.
  induction l as [|x l IH]; cbn [rev filter]. reflexivity.
  rewrite filter_app, IH. cbn [filter]. destruct (p x); cbn [rev]. reflexivity. now rewrite app_nil_r.
Qed.

Lemma filter_filter_imp {A} (p q : A -> bool) l : (forall x, p x = true -> q x = true) ->
  filter p (filter q l) = filter p l.
Proof.
  intros H. induction l as [|x l IH]; cbn [filter]. reflexivity.
  destruct (q x) eqn:Eq; cbn [filter]; destruct (p x) eqn:Ep; auto. now rewrite IH.
  apply H in Ep. congruence.
Qed.

Definition off (c : N) {A} (x : N * A) : bool := negb (fst x =? c).

(* ---------------- attachment server: nothing is shared ---------------- *)
Definition Ratt (c : N) (s1 s2 : srvatt) : Prop :=
  a_crashed s1 = false /\ a_crashed s2 = false /\
  a_conns s2 = cremove c (a_conns s1) /\ a_log s2 = filter (off c) (a_log s1).

Lemma Ratt_own d c s1 s2 e : ev_conn e = c -> Ratt c s1 s2 -> Ratt c (stepatt d s1 e) s2.
Proof.
  intros He (H1 & H2 & Hc & Hl). pose proof (stepatt_alive d s1 e H1) as Ha.
  split. exact Ha. split. exact H2. revert Ha. unfold stepatt. rewrite H1.
  assert (forall (w : aobs) l, filter (off c) ((c, w) :: l) = filter (off c) l) as Hf.
  { intros w l. cbn [filter]. unfold off at 1. cbn [fst]. now rewrite N.eqb_refl. }
  destruct e as [c0|c0 now seg|c0|c0]; cbn [ev_conn] in He; subst c0.
  - destruct (cfind c (a_conns s1)). auto. cbn [a_conns a_log]. now rewrite cremove_cset_same.
  - destruct (cfind c (a_conns s1)) as [[[k br]|]|]; auto. destruct seg as [|b seg]; auto.
    destruct (feed_chk d k (b :: seg)) as [[[w k'] stop]| |]; cbn [crashatt a_crashed]; try discriminate.
    cbv zeta. destruct stop.
    + destruct (on_event_chk d (set_stage _ ST_FAIL_QUIT)); cbn [crashatt a_crashed a_conns a_log]; try discriminate.
      intros _. now rewrite cremove_cset_same, !Hf.
    + cbn [a_conns a_log]. intros _. now rewrite cremove_cset_same, Hf.
  - destruct (cfind c (a_conns s1)) as [[[k br]|]|]; auto.
    + destruct (on_event_chk d (quit k)); cbn [crashatt a_crashed a_conns a_log]; try discriminate.
      intros _. rewrite cremove_idem. split. exact Hc.
      unfold att_saves. destruct (on_quit_saves (quit k)) as [[dir files]|]; cbn [app]; rewrite ?Hf; exact Hl.
    + cbn [a_conns a_log]. now rewrite cremove_idem.
  - destruct (cfind c (a_conns s1)) as [[[k br]|]|]; auto.
    cbn [a_conns a_log]. now rewrite cremove_cset_same.
Qed.

Lemma Ratt_other d c s1 s2 e : ev_conn e <> c -> Ratt c s1 s2 -> Ratt c (stepatt d s1 e) (stepatt d s2 e).
Proof.
  intros He (H1 & H2 & Hc & Hl).
  pose proof (stepatt_alive d s1 e H1) as Ha1. pose proof (stepatt_alive d s2 e H2) as Ha2.
  split. exact Ha1. split. exact Ha2. revert Ha1 Ha2. unfold stepatt. rewrite H1, H2.
  assert (forall c0 (w : aobs) l, c0 <> c -> filter (off c) ((c0, w) :: l) = (c0, w) :: filter (off c) l) as Hf.
  { intros c0 w l Hn. cbn [filter]. unfold off at 1. cbn [fst]. replace (c0 =? c) with false by lia. reflexivity. }
  destruct e as [c0|c0 now seg|c0|c0]; cbn [ev_conn] in He; rewrite Hc, cfind_cremove_other by exact He.
  - destruct (cfind c0 (a_conns s1)). auto. cbn [a_conns a_log]. rewrite ?Hc, ?Hl. intros _ _.
    split. now rewrite cremove_cset_other. reflexivity.
  - destruct (cfind c0 (a_conns s1)) as [[[k br]|]|]; auto. destruct seg as [|b seg]; auto.
    destruct (feed_chk d k (b :: seg)) as [[[w k'] stop]| |]; cbn [crashatt a_crashed]; try discriminate.
    cbv zeta. destruct stop.
    + destruct (on_event_chk d (set_stage _ ST_FAIL_QUIT)); cbn [crashatt a_crashed a_conns a_log]; try discriminate.
      intros _ _. rewrite ?Hc, ?Hl, !Hf by exact He. split. now rewrite cremove_cset_other. reflexivity.
    + cbn [a_conns a_log]. intros _ _. rewrite ?Hc, ?Hl, Hf by exact He. split. now rewrite cremove_cset_other. reflexivity.
  - destruct (cfind c0 (a_conns s1)) as [[[k br]|]|]; auto.
    + destruct (on_event_chk d (quit k)); cbn [crashatt a_crashed a_conns a_log]; try discriminate.
      intros _ _. rewrite ?Hc, ?Hl. split. apply cremove_comm.
      unfold att_saves. destruct (on_quit_saves (quit k)) as [[dir files]|]; cbn [app]; rewrite ?Hf by exact He; reflexivity.
    + cbn [a_conns a_log]. intros _ _. rewrite ?Hc, ?Hl. split. apply cremove_comm. reflexivity.
  - destruct (cfind c0 (a_conns s1)) as [[[k br]|]|]; auto.
    cbn [a_conns a_log]. rewrite ?Hc, ?Hl. intros _ _. split. now rewrite cremove_cset_other. reflexivity.
Qed.

Lemma Ratt_run d c : forall evs s1 s2, Ratt c s1 s2 ->
  Ratt c (fold_left (stepatt d) evs s1) (fold_left (stepatt d) (without c evs) s2).
Proof.
  induction evs as [|e evs IH]; intros s1 s2 HR; cbn [fold_left without filter]. exact HR.
  destruct (ev_conn e =? c) eqn:E; cbn [negb fold_left].
  - apply IH. apply Ratt_own. lia. exact HR.
  - apply IH. apply Ratt_other. lia. exact HR.
Qed.

Theorem isolation_att d evs c c' : c' <> c ->
  seenatt c' (runatt d evs) = seenatt c' (runatt d (without c evs)).
Proof.
  intros Hn. unfold runatt.
  destruct (Ratt_run d c evs initatt initatt) as (_ & _ & _ & Hl). { repeat split. }
  unfold seenatt. rewrite Hl. f_equal.
  rewrite !filter_rev. f_equal. symmetry. apply filter_filter_imp.
  intros x Hx. unfold off. apply N.eqb_eq in Hx. rewrite Hx. apply negb_true_iff. lia.
Qed.

(* ---------------- JT808 server: only the session registry is shared ---------------- *)
Lemma deliver_ext pa t1 t2 c p : (forall key, t1 key = t2 key) -> deliver pa t1 c p = deliver pa t2 c p.
Proof. intros H. unfold deliver. rewrite H. reflexivity. Qed.

Definition dres_conn (r : dres) : conn := match r with D_go c _ => c | D_closed c _ => c end.

Lemma deliver_joined pa t1 t2 c p key : k_key c = Some key ->
  deliver pa t1 c p = deliver pa t2 c p /\
  (forall r, deliver pa t1 c p = Ok r -> k_key (dres_conn r) = Some key).
Proof.
  intros Hk. unfold deliver. rewrite Hk.
  destruct (Reply.lookup (m_id (p_msg p))) as [hi|].
  2:{ split. reflexivity. intros r H. injection H as <-. exact Hk. }
  destruct (m_id (p_msg p) =? Reply.REISSUE).
  { split. reflexivity. intros r H. injection H as <-. reflexivity. }
  split. reflexivity.
  destruct (if pa && pm_complete p then handler_parse_chk (p_msg p) else Ok tt) as [u|e|]; cbn [bind]; try discriminate.
  destruct (pm_complete p && Reply.hi_has hi).
  - destruct (reply_body_chk _ _ _) as [rb|e|]; cbn [bind]; try discriminate.
    destruct (snd rb); intros r H; injection H as <-; reflexivity.
  - intros r H. injection H as <-. reflexivity.
Qed.

Lemma deliver_all_agree pa t1 t2 : forall ps c,
  (k_key c <> None \/ forall key, t1 key = t2 key) -> deliver_all pa t1 c ps = deliver_all pa t2 c ps.
Proof.
  induction ps as [|p t IH]; intros c H; cbn [deliver_all]. reflexivity.
  destruct H as [Hk|He].
  - destruct (k_key c) as [key|] eqn:Ek; [|congruence].
    destruct (deliver_joined pa t1 t2 c p key Ek) as [E Hkeep]. rewrite <- E.
    destruct (deliver pa t1 c p) as [[c' o|c' o]|e|]; cbn [bind]; try reflexivity.
    rewrite (IH c'). reflexivity. left. pose proof (Hkeep _ eq_refl) as Hc'. cbn [dres_conn] in Hc'.
    rewrite Hc'. discriminate.
  - rewrite (deliver_ext pa t1 t2 c p He).
    destruct (deliver pa t2 c p) as [[c' o|c' o]|e|]; cbn [bind]; try reflexivity.
    rewrite (IH c'). reflexivity. now right.
Qed.

Lemma conn_data_agree pa t1 t2 now c d :
  (k_key c <> None \/ forall key, t1 key = t2 key) -> conn_data pa t1 now c d = conn_data pa t2 now c d.
Proof.
  intros H. unfold conn_data. destruct (parse_chk now (k_ps c) d) as [[[ps' msgs] err]|e|]; cbn [bind]; try reflexivity.
  destruct err. reflexivity. apply deliver_all_agree. exact H.
Qed.

Definition cuniq {V} (m : list (N * V)) : Prop := NoDup (map fst m).

Lemma cset_keys {V} c (v : V) m : In c (map fst m) -> map fst (cset c v m) = map fst m.
Proof.
  induction m as [|[k v'] t IH]; cbn [map fst cset]; intros H. contradiction.
  destruct (k =? c) eqn:E; cbn [map fst]. reflexivity. f_equal. apply IH. destruct H as [H|H]; [lia|exact H].
Qed.
Lemma cset_keys_new {V} c (v : V) m : ~ In c (map fst m) -> map fst (cset c v m) = map fst m ++ [c].
Proof.
  induction m as [|[k v'] t IH]; cbn [map fst cset app]; intros H. reflexivity.
  destruct (k =? c) eqn:E. exfalso. apply H. left. lia. cbn [map fst]. f_equal. apply IH.
  intros Hi. apply H. right. exact Hi.
Qed.
Lemma cuniq_cset {V} c (v : V) m : cuniq m -> cuniq (cset c v m).
Proof.
  unfold cuniq. intros H. destruct (in_dec N.eq_dec c (map fst m)) as [Hi|Hi].
  - now rewrite cset_keys.
  - rewrite cset_keys_new by exact Hi. eapply Permutation.Permutation_NoDup.
    apply Permutation.Permutation_cons_append. now constructor.
Qed.
Lemma cremove_keys {V} c (m : list (N * V)) : map fst (cremove c m) = filter (fun k => negb (k =? c)) (map fst m).
Proof.
  induction m as [|[k v'] t IH]; cbn [map fst cremove filter]. reflexivity.
  destruct (k =? c); cbn [negb map fst]; now rewrite IH.
Qed.
Lemma cuniq_cremove {V} c (m : list (N * V)) : cuniq m -> cuniq (cremove c m).
Proof. unfold cuniq. rewrite cremove_keys. apply NoDup_filter. Qed.
Lemma cremove_absent {V} c (m : list (N * V)) : ~ In c (map fst m) -> cremove c m = m.
Proof.
  induction m as [|[k v'] t IH]; cbn [map fst cremove]; intros H. reflexivity.
  destruct (k =? c) eqn:E. exfalso. apply H. left. lia. f_equal. apply IH.
  intros Hi. apply H. right. exact Hi.
Qed.

Lemma taken_cremove_gen c c0 (m : list (N * conn)) key : cuniq m ->
  (forall k own, cfind c m = Some k -> k_key k = Some own -> list_eqb own key = false) ->
  taken_by_others c0 (cremove c m) key = taken_by_others c0 m key.
Proof.
  unfold taken_by_others, cuniq. induction m as [|[k v] t IH]; intros Hu H; cbn [cremove existsb]. reflexivity.
  cbn [map fst] in Hu. apply NoDup_cons_iff in Hu. destruct Hu as [Hk Hu].
  destruct (k =? c) eqn:E.
  - cbn [cfind] in H. rewrite E in H. cbn [fst snd].
    assert (match k_key v with Some k0 => list_eqb k0 key | None => false end = false) as ->.
    { destruct (k_key v) as [own|] eqn:Ek; [|reflexivity]. apply (H v own eq_refl Ek). }
    rewrite andb_false_r. cbn [orb].
    rewrite cremove_absent. reflexivity. replace c with k by lia. exact Hk.
  - cbn [existsb]. f_equal. apply IH. exact Hu. intros k0 own Hk0. apply H. cbn [cfind]. rewrite E. exact Hk0.
Qed.

Lemma taken_cremove c c0 (m : list (N * conn)) key : cuniq m ->
  (forall k, cfind c m = Some k -> k_key k = None) ->
  taken_by_others c0 (cremove c m) key = taken_by_others c0 m key.
Proof.
  intros Hu H. apply taken_cremove_gen. exact Hu. intros k own Hk Ho. rewrite (H k Hk) in Ho. discriminate.
Qed.

(* a read consults the registry at most once: for the key of the first message that reaches the join *)
Lemma deliver_all_first_key pa t1 t2 : forall ps c, k_key c = None ->
  (forall key, first_key ps = Some key -> t1 key = t2 key) ->
  deliver_all pa t1 c ps = deliver_all pa t2 c ps.
Proof.
  induction ps as [|p ps IH]; intros c Hk H; cbn [deliver_all]. reflexivity.
  cbn [first_key] in H. unfold deliver. rewrite Hk.
  destruct (Reply.lookup (m_id (p_msg p))) as [hi|].
  2:{ cbn [bind]. rewrite (IH c Hk H). reflexivity. }
  destruct (m_id (p_msg p) =? Reply.REISSUE).
  { cbn [bind]. erewrite IH; [reflexivity|reflexivity|exact H]. }
  rewrite (H _ eq_refl).
  destruct (if pa && pm_complete p then handler_parse_chk (p_msg p) else Ok tt) as [u|e|]; cbn [bind]; try reflexivity.
  destruct (t2 (phone_of (p_msg p))). reflexivity.
  destruct (pm_complete p && Reply.hi_has hi).
  - destruct (reply_body_chk _ _ _) as [rb|e|]; cbn [bind]; try reflexivity.
    destruct (snd rb); cbn [bind]; rewrite (deliver_all_agree pa t1 t2 ps) by (left; discriminate); reflexivity.
  - cbn [bind]. rewrite (deliver_all_agree pa t1 t2 ps) by (left; discriminate). reflexivity.
Qed.

Lemma conn_data_claimed pa t1 t2 now k d :
  (forall key, claimed_key now k d = Some key -> t1 key = t2 key) ->
  conn_data pa t1 now k d = conn_data pa t2 now k d.
Proof.
  intros H. destruct (k_key k) as [own|] eqn:Ek.
  - apply conn_data_agree. left. congruence.
  - unfold conn_data. rewrite parse_chk_ok. cbn [bind].
    unfold claimed_key in H. rewrite Ek in H.
    destruct (parse now (k_ps k) d) as [[ps' msgs] err]. destruct err. reflexivity.
    apply deliver_all_first_key. exact Ek. exact H.
Qed.

Definition R808 (c : N) (s1 s2 : srv808) : Prop :=
  v_crashed s1 = false /\ v_crashed s2 = false /\ cuniq (v_conns s1) /\
  v_conns s2 = cremove c (v_conns s1) /\ v_log s2 = filter (off c) (v_log s1) /\
  v_shut s2 = filter (fun x => negb (x =? c)) (v_shut s1).

Lemma filter_off_own c (outs : list wout) l :
  filter (off c) (rev (map (fun o => (c, o)) outs) ++ l) = filter (off c) l.
Proof.
  rewrite filter_app, filter_rev.
  assert (filter (off c) (map (fun o : wout => (c, o)) outs) = []) as ->.
  { induction outs as [|o t IH]; cbn [map filter]. reflexivity.
    unfold off at 1. cbn [fst]. rewrite N.eqb_refl. exact IH. }
  reflexivity.
Qed.

Lemma filter_off_other c c0 (outs : list wout) l : c0 <> c ->
  filter (off c) (rev (map (fun o => (c0, o)) outs) ++ l) = rev (map (fun o => (c0, o)) outs) ++ filter (off c) l.
Proof.
  intros Hn. rewrite filter_app. f_equal. rewrite filter_rev. f_equal.
  induction outs as [|o t IH]; cbn [map filter]. reflexivity.
  unfold off at 1. cbn [fst]. replace (c0 =? c) with false by lia. cbn [negb]. now rewrite IH.
Qed.

Lemma R808_own pa c s1 s2 e : ev_conn e = c -> R808 c s1 s2 -> R808 c (step808 pa s1 e) s2.
Proof.
  intros He (H1 & H2 & Hu & Hc & Hl & Hs). pose proof (step808_alive pa s1 e H1) as Ha.
  split. exact Ha. split. exact H2. revert Ha. unfold step808. rewrite H1.
  destruct e as [c0|c0 now d|c0|c0]; cbn [ev_conn] in He; subst c0.
  - destruct (cfind c (v_conns s1)). { intros _. auto 6. }
    cbn [v_conns v_log v_shut]. intros _. repeat split; auto. now apply cuniq_cset. now rewrite cremove_cset_same.
  - destruct (cfind c (v_conns s1)) as [k|]. 2:{ intros _. auto 6. }
    destruct d as [|b d]. { intros _. auto 6. }
    destruct (conn_data pa _ now k (b :: d)) as [[k' outs|k' outs]|err|]; cbn [v_crashed v_conns v_log v_shut];
      try discriminate; intros _.
    + repeat split. now apply cuniq_cset. now rewrite cremove_cset_same. now rewrite filter_off_own. exact Hs.
    + repeat split. now apply cuniq_cremove. now rewrite cremove_idem. now rewrite filter_off_own.
      cbn [filter]. now rewrite N.eqb_refl.
    + auto 6.
  - cbn [v_conns v_log v_shut]. intros _. repeat split; auto. now apply cuniq_cremove. now rewrite cremove_idem.
  - destruct (cfind c (v_conns s1)). 2:{ intros _. auto 6. }
    cbn [v_conns v_log v_shut]. intros _. repeat split; auto. now apply cuniq_cset. now rewrite cremove_cset_same.
Qed.

Lemma R808_other_gen pa c s1 s2 e : ev_conn e <> c -> R808 c s1 s2 ->
  (forall c0 now d k, e = Data c0 now d -> cfind c0 (v_conns s1) = Some k ->
     conn_data pa (taken_by_others c0 (cremove c (v_conns s1))) now k d =
     conn_data pa (taken_by_others c0 (v_conns s1)) now k d) ->
  R808 c (step808 pa s1 e) (step808 pa s2 e).
Proof.
  intros He (H1 & H2 & Hu & Hc & Hl & Hs) Hsafe.
  pose proof (step808_alive pa s1 e H1) as Ha1. pose proof (step808_alive pa s2 e H2) as Ha2.
  split. exact Ha1. split. exact Ha2. revert Ha1 Ha2. unfold step808. rewrite H1, H2.
  destruct e as [c0|c0 now d|c0|c0]; cbn [ev_conn] in He; rewrite Hc, ?cfind_cremove_other by exact He.
  - destruct (cfind c0 (v_conns s1)). { intros _ _. auto 6. }
    cbn [v_conns v_log v_shut]. intros _ _. repeat split; auto. now apply cuniq_cset. now rewrite cremove_cset_other.
  - destruct (cfind c0 (v_conns s1)) as [k|] eqn:Ef. 2:{ intros _ _. auto 6. }
    destruct d as [|b d]. { intros _ _. auto 6. }
    rewrite (Hsafe c0 now (b :: d) k eq_refl Ef).
    destruct (conn_data pa _ now k (b :: d)) as [[k' outs|k' outs]|err|]; cbn [v_crashed v_conns v_log v_shut];
      try discriminate; intros _ _.
    + repeat split. now apply cuniq_cset. now rewrite cremove_cset_other.
      rewrite Hl. now rewrite filter_off_other. exact Hs.
    + repeat split. now apply cuniq_cremove. apply cremove_comm.
      rewrite Hl. now rewrite filter_off_other.
      cbn [filter]. replace (c0 =? c) with false by lia. cbn [negb]. now rewrite Hs.
    + auto 6.
  - cbn [v_conns v_log v_shut]. intros _ _. repeat split; auto. now apply cuniq_cremove. apply cremove_comm.
  - destruct (cfind c0 (v_conns s1)). 2:{ intros _ _. auto 6. }
    cbn [v_conns v_log v_shut]. intros _ _. repeat split; auto. now apply cuniq_cset. now rewrite cremove_cset_other.
Qed.

Lemma R808_other pa c s1 s2 e : ev_conn e <> c -> R808 c s1 s2 ->
  (joined (ev_conn e) s1 || holds_no_key c s1 || match e with Data _ _ _ => false | _ => true end) = true ->
  R808 c (step808 pa s1 e) (step808 pa s2 e).
Proof.
  intros He HR Hsafe. apply R808_other_gen; auto. destruct HR as (_ & _ & Hu & _).
  intros c0 now d k -> Ef. cbn [ev_conn] in Hsafe. rewrite orb_false_r in Hsafe.
  apply conn_data_agree. apply orb_true_iff in Hsafe. destruct Hsafe as [Hj|Hn].
  - left. unfold joined in Hj. rewrite Ef in Hj. destruct (k_key k); congruence.
  - right. intros key. apply taken_cremove. exact Hu. intros kc Hkc. unfold holds_no_key in Hn.
    rewrite Hkc in Hn. destruct (k_key kc); congruence.
Qed.

(* the exact condition: the key claimed by the read is not one that c owns *)
Lemma R808_other_unclaimed pa c s1 s2 e : ev_conn e <> c -> R808 c s1 s2 ->
  unclaimed pa c s1 [e] = true -> R808 c (step808 pa s1 e) (step808 pa s2 e).
Proof.
  intros He HR Hok. apply R808_other_gen; auto. destruct HR as (_ & _ & Hu & _).
  intros c0 now d k -> Ef. cbn [ev_conn] in He. cbn [unclaimed] in Hok. rewrite andb_true_r in Hok.
  replace (c0 =? c) with false in Hok by lia. cbn [orb] in Hok. rewrite Ef in Hok.
  apply conn_data_claimed. intros key Hck. apply taken_cremove_gen. exact Hu.
  intros kc own Hkc Hown. rewrite Hkc, Hown, Hck in Hok. apply negb_true_iff in Hok. exact Hok.
Qed.

Lemma unclaimed_cons pa c s e t : unclaimed pa c s (e :: t) = unclaimed pa c s [e] && unclaimed pa c (step808 pa s e) t.
Proof. cbn [unclaimed]. now rewrite andb_true_r. Qed.

Lemma R808_run_unclaimed pa c : forall evs s1 s2, R808 c s1 s2 -> unclaimed pa c s1 evs = true ->
  R808 c (fold_left (step808 pa) evs s1) (fold_left (step808 pa) (without c evs) s2).
Proof.
  induction evs as [|e evs IH]; intros s1 s2 HR Hok; cbn [fold_left without filter]. exact HR.
  rewrite unclaimed_cons in Hok. apply andb_true_iff in Hok. destruct Hok as [Hsafe Hok].
  destruct (ev_conn e =? c) eqn:E; cbn [negb fold_left].
  - apply IH; [|exact Hok]. apply R808_own. lia. exact HR.
  - apply IH; [|exact Hok]. apply R808_other_unclaimed. lia. exact HR. exact Hsafe.
Qed.

Lemma R808_run pa c : forall evs s1 s2, R808 c s1 s2 -> iso_ok pa c s1 evs = true ->
  R808 c (fold_left (step808 pa) evs s1) (fold_left (step808 pa) (without c evs) s2).
Proof.
  induction evs as [|e evs IH]; intros s1 s2 HR Hok; cbn [fold_left without filter]. exact HR.
  cbn [iso_ok] in Hok. apply andb_true_iff in Hok. destruct Hok as [Hsafe Hok].
  destruct (ev_conn e =? c) eqn:E; cbn [negb fold_left].
  - apply IH; [|exact Hok]. apply R808_own. lia. exact HR.
  - apply IH; [|exact Hok]. apply R808_other. lia. exact HR.
    cbn [orb] in Hsafe. rewrite <- !orb_assoc in Hsafe. rewrite <- !orb_assoc. exact Hsafe.
Qed.

Lemma existsb_filter_other c c' (l : list N) : c' <> c ->
  existsb (N.eqb c') (filter (fun x => negb (x =? c)) l) = existsb (N.eqb c') l.
Proof.
  intros Hn. induction l as [|x l IH]; cbn [filter existsb]. reflexivity.
  destruct (x =? c) eqn:E; cbn [negb existsb].
  - replace (c' =? x) with false by lia. exact IH.
  - now rewrite IH.
Qed.

Theorem isolation_808 pa evs c c' : c' <> c -> iso_ok pa c init808 evs = true ->
  seen808 c' (run808 pa evs) = seen808 c' (run808 pa (without c evs)).
Proof.
  intros Hn Hok. unfold run808.
  destruct (R808_run pa c evs init808 init808) as (_ & _ & _ & _ & Hl & Hs); [|exact Hok|].
  { repeat split. constructor. }
  unfold seen808. rewrite Hl, Hs. f_equal.
  - f_equal. rewrite !filter_rev. f_equal. symmetry. apply filter_filter_imp.
    intros x Hx. unfold off. apply N.eqb_eq in Hx. rewrite Hx. apply negb_true_iff. lia.
  - symmetry. apply existsb_filter_other. exact Hn.
Qed.

(* ISOLATION, exact form: the events of connection c can be removed without changing what any other connection is
   written or whether it is ended, provided nobody claims a key while c OWNS it *)
Theorem isolation_808_unclaimed pa evs c c' : c' <> c -> unclaimed pa c init808 evs = true ->
  seen808 c' (run808 pa evs) = seen808 c' (run808 pa (without c evs)).
Proof.
  intros Hn Hok. unfold run808.
  destruct (R808_run_unclaimed pa c evs init808 init808) as (_ & _ & _ & _ & Hl & Hs); [|exact Hok|].
  { repeat split. constructor. }
  unfold seen808. rewrite Hl, Hs. f_equal.
  - f_equal. rewrite !filter_rev. f_equal. symmetry. apply filter_filter_imp.
    intros x Hx. unfold off. apply N.eqb_eq in Hx. rewrite Hx. apply negb_true_iff. lia.
  - symmetry. apply existsb_filter_other. exact Hn.
Qed.

(* a connection that owns no key (it never joined, or every key it claimed was refused) is unclaimed *)
Lemma never_owns_prefixes pa c s evs : never_owns pa c s evs = true ->
  forall n, holds_no_key c (fold_left (step808 pa) (firstn n evs) s) = true.
Proof.
  unfold never_owns. intros H n. rewrite forallb_forall in H.
  destruct (Nat.le_gt_cases n (length evs)) as [Hn|Hn].
  - apply H. apply in_seq. lia.
  - rewrite firstn_all2 by lia. rewrite <- (firstn_all evs). apply H. apply in_seq. lia.
Qed.

(* the hypothesis speaks about the prefixes of THIS run only *)
Lemma unclaimed_keyless_n pa c : forall evs s,
  (forall n, holds_no_key c (fold_left (step808 pa) (firstn n evs) s) = true) -> unclaimed pa c s evs = true.
Proof.
  induction evs as [|e evs IH]; intros s H; cbn [unclaimed]. reflexivity.
  apply andb_true_iff. split.
  - specialize (H 0%nat). cbn [firstn fold_left] in H. unfold holds_no_key in H.
    destruct e as [c0|c0 now d|c0|c0]; try reflexivity.
    destruct (c0 =? c); cbn [orb]. reflexivity.
    destruct (cfind c0 (v_conns s)); [|reflexivity]. destruct (cfind c (v_conns s)) as [kc|]; [|reflexivity].
    destruct (k_key kc). discriminate. reflexivity.
  - apply IH. intros n. apply (H (S n)).
Qed.

Lemma unclaimed_keyless pa c evs s : never_owns pa c s evs = true -> unclaimed pa c s evs = true.
Proof. intros H. apply unclaimed_keyless_n. apply never_owns_prefixes, H. Qed.

(* a connection that never joined the registry (no valid frame of a registered type other than 0x8003
   was ever delivered on it) satisfies the side condition whatever the others do *)
Lemma iso_ok_unjoined_n pa c : forall evs s,
  (forall n, holds_no_key c (fold_left (step808 pa) (firstn n evs) s) = true) -> iso_ok pa c s evs = true.
Proof.
  induction evs as [|e evs IH]; intros s H; cbn [iso_ok]. reflexivity.
  apply andb_true_iff. split.
  - specialize (H 0%nat). cbn [firstn fold_left] in H. rewrite H. now rewrite !orb_true_r.
  - apply IH. intros n. apply (H (S n)).
Qed.

Lemma iso_ok_unjoined pa c evs s : never_owns pa c s evs = true -> iso_ok pa c s evs = true.
Proof. intros H. apply iso_ok_unjoined_n. apply never_owns_prefixes, H. Qed.

(* ---------------- an established session depends on nothing but its own bytes ---------------- *)
Lemma deliver_all_keeps_key pa t : forall ps c key r, k_key c = Some key ->
  deliver_all pa t c ps = Ok r -> k_key (dres_conn r) = Some key.
Proof.
  induction ps as [|p ps IH]; intros c key r Hk H; cbn [deliver_all] in H.
  - injection H as <-. exact Hk.
  - destruct (deliver_joined pa t t c p key Hk) as [_ Hkeep].
    destruct (deliver pa t c p) as [[c' o|c' o]|e|] eqn:Ed; cbn [bind] in H; try discriminate.
    + pose proof (Hkeep _ eq_refl) as Hc'. cbn [dres_conn] in Hc'.
      destruct (deliver_all pa t c' ps) as [r2|e|] eqn:E2; cbn [bind] in H; try discriminate.
      injection H as <-. pose proof (IH c' key r2 Hc' E2) as Hr2. destruct r2; exact Hr2.
    + injection H as <-. apply (Hkeep _ eq_refl).
Qed.

Lemma conn_data_keeps_key pa t now c d key r : k_key c = Some key ->
  conn_data pa t now c d = Ok r -> k_key (dres_conn r) = Some key.
Proof.
  intros Hk. unfold conn_data. destruct (parse_chk now (k_ps c) d) as [[[ps' msgs] err]|e|]; cbn [bind]; try discriminate.
  destruct err. { intros H. injection H as <-. exact Hk. }
  apply deliver_all_keeps_key. exact Hk.
Qed.

Definition own (c : N) {A} (x : N * A) : bool := fst x =? c.

(* s1: the full run; s2: the run with only the events of c *)
Definition Rone (c : N) (s1 s2 : srv808) : Prop :=
  v_crashed s1 = false /\ v_crashed s2 = false /\
  cfind c (v_conns s1) = cfind c (v_conns s2) /\
  (forall k, cfind c (v_conns s1) = Some k -> k_key k <> None) /\
  filter (own c) (v_log s1) = filter (own c) (v_log s2) /\
  existsb (N.eqb c) (v_shut s1) = existsb (N.eqb c) (v_shut s2).

Lemma cfind_cset_other {V} c c' (v : V) m : c' <> c -> cfind c' (cset c v m) = cfind c' m.
Proof.
  intros Hn. induction m as [|[k v'] t IH]; cbn [cset cfind].
  - replace (c =? c') with false by lia. reflexivity.
  - destruct (k =? c) eqn:E; cbn [cfind]; destruct (k =? c') eqn:E2; auto. lia.
Qed.
Lemma cfind_cremove_same {V} c (m : list (N * V)) : cfind c (cremove c m) = None.
Proof.
  induction m as [|[k v'] t IH]; cbn [cremove cfind]. reflexivity.
  destruct (k =? c) eqn:E; cbn [cfind]; rewrite ?E; auto.
Qed.

Lemma filter_own_other c c0 (outs : list wout) l : c0 <> c ->
  filter (own c) (rev (map (fun o => (c0, o)) outs) ++ l) = filter (own c) l.
Proof.
  intros Hn. rewrite filter_app, filter_rev.
  assert (filter (own c) (map (fun o : wout => (c0, o)) outs) = []) as ->.
  { induction outs as [|o t IH]; cbn [map filter]. reflexivity.
    unfold own at 1. cbn [fst]. replace (c0 =? c) with false by lia. exact IH. }
  reflexivity.
Qed.

Lemma filter_own_same c (outs : list wout) l l' : filter (own c) l = filter (own c) l' ->
  filter (own c) (rev (map (fun o => (c, o)) outs) ++ l) = filter (own c) (rev (map (fun o => (c, o)) outs) ++ l').
Proof. intros H. rewrite !filter_app, H. reflexivity. Qed.

Lemma Rone_other pa c s1 s2 e : ev_conn e <> c -> Rone c s1 s2 -> Rone c (step808 pa s1 e) s2.
Proof.
  intros He (H1 & H2 & Hc & Hk & Hl & Hs). pose proof (step808_alive pa s1 e H1) as Ha.
  split. exact Ha. split. exact H2. revert Ha. unfold step808. rewrite H1.
  destruct e as [c0|c0 now d|c0|c0]; cbn [ev_conn] in He.
  4:{ destruct (cfind c0 (v_conns s1)). 2:{ intros _. auto 7. }
      cbn [v_conns v_log v_shut]. intros _. rewrite cfind_cset_other by lia. auto 7. }
  - destruct (cfind c0 (v_conns s1)). { intros _. auto 7. }
    cbn [v_conns v_log v_shut]. intros _. rewrite cfind_cset_other by lia. auto 7.
  - destruct (cfind c0 (v_conns s1)) as [k|]. 2:{ intros _. auto 7. }
    destruct d as [|b d]. { intros _. auto 7. }
    destruct (conn_data pa _ now k (b :: d)) as [[k' outs|k' outs]|err|]; cbn [v_crashed v_conns v_log v_shut];
      try discriminate; intros _.
    + rewrite cfind_cset_other by lia. rewrite filter_own_other by exact He. auto 7.
    + rewrite cfind_cremove_other by lia. rewrite filter_own_other by exact He.
      cbn [existsb]. replace (c =? c0) with false by lia. auto 7.
    + auto 7.
  - cbn [v_conns v_log v_shut]. intros _. rewrite cfind_cremove_other by lia. auto 7.
Qed.

Lemma Rone_own pa c s1 s2 e : ev_conn e = c -> (match e with Connect _ => False | _ => True end) ->
  Rone c s1 s2 -> Rone c (step808 pa s1 e) (step808 pa s2 e).
Proof.
  intros He Hnc (H1 & H2 & Hc & Hk & Hl & Hs).
  pose proof (step808_alive pa s1 e H1) as Ha1. pose proof (step808_alive pa s2 e H2) as Ha2.
  split. exact Ha1. split. exact Ha2. revert Ha1 Ha2. unfold step808. rewrite H1, H2.
  destruct e as [c0|c0 now d|c0|c0]; cbn [ev_conn] in He; subst c0. contradiction.
  3:{ rewrite <- Hc. destruct (cfind c (v_conns s1)) as [k|] eqn:Ef.
      2:{ intros _ _. rewrite Ef. repeat split; auto. }
      cbn [v_conns v_log v_shut]. intros _ _. rewrite !cfind_cset_same. repeat split; auto.
      intros k0 E0. injection E0 as <-. cbn [break_conn k_key]. apply Hk. reflexivity. }
  - rewrite <- Hc. destruct (cfind c (v_conns s1)) as [k|] eqn:Ef.
    2:{ intros _ _. rewrite Ef. repeat split; auto. }
    destruct d as [|b d]. { intros _ _. rewrite Ef. repeat split; auto. }
    assert (k_key k <> None) as Hkk by (apply Hk; reflexivity).
    rewrite (conn_data_agree pa (taken_by_others c (v_conns s2)) (taken_by_others c (v_conns s1)) now k (b :: d)) by (left; exact Hkk).
    destruct (conn_data pa _ now k (b :: d)) as [[k' outs|k' outs]|err|] eqn:Ed; cbn [v_crashed v_conns v_log v_shut];
      try discriminate; intros _ _.
    + rewrite !cfind_cset_same. repeat split; auto.
      * intros k0 E0. injection E0 as <-. destruct (k_key k) as [key|] eqn:Ek; [|congruence].
        pose proof (conn_data_keeps_key pa _ now k (b :: d) key _ Ek Ed) as Hn. cbn [dres_conn] in Hn. congruence.
      * apply filter_own_same, Hl.
    + rewrite !cfind_cremove_same. repeat split; auto. discriminate.
      apply filter_own_same, Hl. cbn [existsb]. now rewrite N.eqb_refl.
    + rewrite Ef. repeat split; auto.
  - cbn [v_conns v_log v_shut]. intros _ _. rewrite !cfind_cremove_same. repeat split; auto. discriminate.
Qed.

Lemma Rone_run pa c : forall evs s1 s2, Rone c s1 s2 -> no_reconnect c evs = true ->
  Rone c (fold_left (step808 pa) evs s1) (fold_left (step808 pa) (only c evs) s2).
Proof.
  induction evs as [|e evs IH]; intros s1 s2 HR Hn; cbn [fold_left only filter]. exact HR.
  cbn [no_reconnect forallb] in Hn. apply andb_true_iff in Hn. destruct Hn as [Hn1 Hn].
  destruct (ev_conn e =? c) eqn:E; cbn [fold_left].
  - apply IH; [|exact Hn]. apply Rone_own. lia. destruct e; auto. cbn [ev_conn] in E. lia. exact HR.
  - apply IH; [|exact Hn]. apply Rone_other. lia. exact HR.
Qed.

(* ESTABLISHED SESSIONS: from any state in which connection c has joined the registry, whatever all the
   other connections do afterwards - any number of them, any bytes, any closes - c is written the same frames
   and is ended or not exactly as if it were alone *)
Theorem established_alone pa s evs c : v_crashed s = false -> joined c s = true -> no_reconnect c evs = true ->
  seen808 c (fold_left (step808 pa) evs s) = seen808 c (fold_left (step808 pa) (only c evs) s).
Proof.
  intros Hc Hj Hn.
  destruct (Rone_run pa c evs s s) as (_ & _ & _ & _ & Hl & Hs); [|exact Hn|].
  { repeat split; auto. intros k Hk. unfold joined in Hj. rewrite Hk in Hj. destruct (k_key k); congruence. }
  unfold seen808. rewrite Hs. f_equal.
  rewrite !filter_rev. f_equal. f_equal. exact Hl.
Qed.

(* ---------------- the registry inside the server state: one owner per key (the invariant of C11) -------- *)
Definition key_step (t : list N -> bool) (c c' : conn) : Prop :=
  k_key c' = k_key c \/ (k_key c = None /\ exists key, k_key c' = Some key /\ t key = false).

Lemma deliver_key pa t c p r : deliver pa t c p = Ok r -> key_step t c (dres_conn r).
Proof.
  unfold deliver. destruct (Reply.lookup (m_id (p_msg p))) as [hi|].
  2:{ intros H. injection H as <-. now left. }
  destruct (m_id (p_msg p) =? Reply.REISSUE). { intros H. injection H as <-. now left. }
  destruct (if pa && pm_complete p then handler_parse_chk (p_msg p) else Ok tt) as [u|e|]; cbn [bind]; try discriminate.
  destruct (k_key c) as [own|] eqn:Ek.
  - destruct (pm_complete p && Reply.hi_has hi).
    + destruct (reply_body_chk _ _ _) as [rb|e|]; cbn [bind]; try discriminate.
      destruct (snd rb); intros H; injection H as <-; left; cbn [dres_conn k_key]; now rewrite Ek.
    + intros H. injection H as <-. left. cbn [dres_conn k_key]. now rewrite Ek.
  - destruct (t (phone_of (p_msg p))) eqn:Et.
    + intros H. injection H as <-. left. cbn [dres_conn]. now rewrite Ek.
    + assert (forall c', k_key c' = Some (phone_of (p_msg p)) -> key_step t c c') as Hj.
      { intros c' Hc'. right. rewrite Ek. split. reflexivity. exists (phone_of (p_msg p)). auto. }
      destruct (pm_complete p && Reply.hi_has hi).
      * destruct (reply_body_chk _ _ _) as [rb|e|]; cbn [bind]; try discriminate.
        destruct (snd rb); intros H; injection H as <-; apply Hj; reflexivity.
      * intros H. injection H as <-. apply Hj. reflexivity.
Qed.

Lemma key_step_trans t a b c : key_step t a b -> key_step t b c -> key_step t a c.
Proof.
  intros [E1|(N1 & k1 & K1 & T1)] [E2|(N2 & k2 & K2 & T2)].
  - left. congruence.
  - right. rewrite <- E1. split. exact N2. exists k2. auto.
  - right. split. exact N1. exists k1. split. congruence. exact T1.
  - congruence.
Qed.

Lemma deliver_all_key pa t : forall ps c r, deliver_all pa t c ps = Ok r -> key_step t c (dres_conn r).
Proof.
  induction ps as [|p ps IH]; intros c r H; cbn [deliver_all] in H.
  - injection H as <-. now left.
  - destruct (deliver pa t c p) as [[c' o|c' o]|e|] eqn:Ed; cbn [bind] in H; try discriminate.
    + apply deliver_key in Ed. cbn [dres_conn] in Ed.
      destruct (deliver_all pa t c' ps) as [r2|e|] eqn:E2; cbn [bind] in H; try discriminate.
      injection H as <-. apply IH in E2. eapply key_step_trans. exact Ed. destruct r2; exact E2.
    + injection H as <-. apply deliver_key in Ed. exact Ed.
Qed.

Lemma conn_data_key pa t now c d r : conn_data pa t now c d = Ok r -> key_step t c (dres_conn r).
Proof.
  unfold conn_data. destruct (parse_chk now (k_ps c) d) as [[[ps' msgs] err]|e|]; cbn [bind]; try discriminate.
  destruct err. { intros H. injection H as <-. now left. }
  intros H. apply deliver_all_key in H. exact H.
Qed.

(* at most one live connection holds a key *)
Definition one_owner (s : srv808) : Prop :=
  cuniq (v_conns s) /\
  forall c1 c2 k1 k2 key, cfind c1 (v_conns s) = Some k1 -> cfind c2 (v_conns s) = Some k2 ->
    k_key k1 = Some key -> k_key k2 = Some key -> c1 = c2.

Lemma taken_false_no_owner c m key c2 k2 : taken_by_others c m key = false -> c2 <> c ->
  cfind c2 m = Some k2 -> k_key k2 <> Some key.
Proof.
  unfold taken_by_others. induction m as [|[k v] t IH]; intros Ht Hn Hf; cbn [cfind] in Hf. discriminate.
  cbn [existsb fst snd] in Ht. apply orb_false_iff in Ht. destruct Ht as [Hh Ht].
  destruct (k =? c2) eqn:E.
  - injection Hf as <-. replace (k =? c) with false in Hh by lia. cbn [negb andb] in Hh.
    intros Hk. rewrite Hk in Hh. rewrite (proj2 (list_eqb_spec key key) eq_refl) in Hh. discriminate.
  - apply IH; auto.
Qed.

Lemma one_owner_step pa s e : v_crashed s = false -> one_owner s -> one_owner (step808 pa s e).
Proof.
  intros Hc [Hu Ho]. unfold step808. rewrite Hc.
  assert (Hset : forall c k k', cfind c (v_conns s) = Some k ->
            key_step (taken_by_others c (v_conns s)) k k' ->
            one_owner {| v_conns := cset c k' (v_conns s); v_log := v_log s; v_shut := v_shut s; v_crashed := false |} ->
            True) by auto.
  assert (Hgen : forall c k k' lg sh, cfind c (v_conns s) = Some k ->
            key_step (taken_by_others c (v_conns s)) k k' ->
            one_owner {| v_conns := cset c k' (v_conns s); v_log := lg; v_shut := sh; v_crashed := false |}).
  { intros c k k' lg sh Hf Hks. split. now apply cuniq_cset. cbn [v_conns].
    intros c1 c2 k1 k2 key H1 H2 K1 K2.
    destruct (N.eq_dec c1 c) as [->|N1]; destruct (N.eq_dec c2 c) as [->|N2]; auto.
    - rewrite cfind_cset_same in H1. injection H1 as <-. rewrite cfind_cset_other in H2 by exact N2.
      destruct Hks as [E|(Nn & key' & K' & T')].
      + apply (Ho c c2 k k2 key Hf H2); congruence.
      + exfalso. rewrite K' in K1. injection K1 as ->. eapply taken_false_no_owner; eauto.
    - rewrite cfind_cset_same in H2. injection H2 as <-. rewrite cfind_cset_other in H1 by exact N1.
      destruct Hks as [E|(Nn & key' & K' & T')].
      + apply (Ho c1 c k1 k key H1 Hf); congruence.
      + exfalso. rewrite K' in K2. injection K2 as ->. eapply taken_false_no_owner; eauto.
    - rewrite cfind_cset_other in H1, H2 by assumption. eapply Ho; eauto. }
  assert (Hrem : forall c lg sh,
            one_owner {| v_conns := cremove c (v_conns s); v_log := lg; v_shut := sh; v_crashed := false |}).
  { intros c lg sh. split. now apply cuniq_cremove. cbn [v_conns]. intros c1 c2 k1 k2 key H1 H2 K1 K2.
    destruct (N.eq_dec c1 c) as [->|N1]. rewrite cfind_cremove_same in H1. discriminate.
    destruct (N.eq_dec c2 c) as [->|N2]. rewrite cfind_cremove_same in H2. discriminate.
    rewrite cfind_cremove_other in H1, H2 by assumption. eapply Ho; eauto. }
  destruct e as [c|c now d|c|c].
  - destruct (cfind c (v_conns s)) eqn:Ef. now split.
    split. now apply cuniq_cset. cbn [v_conns]. intros c1 c2 k1 k2 key H1 H2 K1 K2.
    destruct (N.eq_dec c1 c) as [->|N1]. rewrite cfind_cset_same in H1. injection H1 as <-. discriminate.
    destruct (N.eq_dec c2 c) as [->|N2]. rewrite cfind_cset_same in H2. injection H2 as <-. discriminate.
    rewrite cfind_cset_other in H1, H2 by assumption. eapply Ho; eauto.
  - destruct (cfind c (v_conns s)) as [k|] eqn:Ef. 2:{ now split. }
    destruct d as [|b d]. now split.
    destruct (conn_data pa _ now k (b :: d)) as [[k' outs|k' outs]|err|] eqn:Ed.
    + apply conn_data_key in Ed. cbn [dres_conn] in Ed. eapply Hgen; eauto.
    + apply Hrem.
    + now split.
    + split. exact Hu. exact Ho.
  - apply Hrem.
  - destruct (cfind c (v_conns s)) as [k|] eqn:Ef. 2:{ now split. }
    eapply Hgen. exact Ef. left. reflexivity.
Qed.

(* UNIQUE OWNER: in every reachable state of the server at most one live connection holds a given key *)
Theorem one_owner_reachable pa evs : one_owner (run808 pa evs).
Proof.
  unfold run808.
  assert (forall s, v_crashed s = false -> one_owner s -> one_owner (fold_left (step808 pa) evs s)) as H.
  { induction evs as [|e evs IH]; intros s Hc Ho; cbn [fold_left]. exact Ho.
    apply IH. now apply step808_alive. now apply one_owner_step. }
  apply H. reflexivity. split. constructor. intros c1 c2 k1 k2 key H1. discriminate.
Qed.

Theorem registry_one_owner pa evs c1 c2 k1 k2 key :
  cfind c1 (v_conns (run808 pa evs)) = Some k1 -> cfind c2 (v_conns (run808 pa evs)) = Some k2 ->
  k_key k1 = Some key -> k_key k2 = Some key -> c1 = c2.
Proof. exact (proj2 (one_owner_reachable pa evs) c1 c2 k1 k2 key). Qed.

(* a connection that owns no key during this run can be removed without a trace *)
Theorem isolation_808_keyless pa evs c c' : c' <> c -> never_owns pa c init808 evs = true ->
  seen808 c' (run808 pa evs) = seen808 c' (run808 pa (without c evs)).
Proof. intros Hn H. apply isolation_808_unclaimed. exact Hn. apply unclaimed_keyless, H. Qed.

(* every id of createDefaultHandle is parsed by one of the models behind handler_parse_chk: the fallback
   "Err 98: unknown to Total_msgs.parse_msg" is never what a registered type gets *)
Definition special_id (id : N) : bool :=
  (id =? 0x0200) || (id =? 0x0704) || (id =? 0x0801) || (id =? 0x0102) || (id =? 0x1210) || (id =? 0x1211) || (id =? 0x1212).
Theorem parse_all_covers_registered :
  forallb (fun id => special_id id || existsb (N.eqb id) Total_msgs.modelled_ids) (map fst Reply.default_handles) = true.
Proof. vm_compute. reflexivity. Qed.

(* what the final event of an attachment connection stores lies under the directory named after the terminal number of
   ITS OWN last message, every path being ./<that number>/<an accepted plain name> (Props/C19: such a path resolves
   strictly inside that directory).  Connections of different terminals therefore never write the same file. *)
Lemma att_saves_shape c k dir files : In (c, ASaved dir files) (att_saves c k) ->
  exists m, s_recent k = Some m /\ dir = phone_of m /\
  forall p, In p files -> exists nm, JT.Model.Paths.accepted nm = true /\ fst p = JT.Model.Paths.save_path (phone_of m) nm.
Proof.
  unfold att_saves, on_quit_saves. destruct (s_stage (quit k) =? ST_SUCCESS_QUIT); [|intros []].
  change (s_recent (quit k)) with (s_recent k). destruct (s_recent k) as [m|]; [|intros []].
  intros [E|[]]. injection E as <- <-. exists m. split. reflexivity. split. reflexivity.
  intros p Hp. apply in_map_iff in Hp. destruct Hp as (r & <- & Hr). apply filter_In in Hr.
  exists (fst r). split. apply Hr. reflexivity.
Qed.

(* ---------------- C10.9: an event touches the connection it belongs to and nothing else ---------------- *)
Theorem step808_local pa s e : v_crashed s = false ->
  let s' := step808 pa s e in
  (forall c', c' <> ev_conn e -> cfind c' (v_conns s') = cfind c' (v_conns s)) /\
  (forall c', In c' (v_shut s') -> In c' (v_shut s) \/ c' = ev_conn e) /\
  (exists l, v_log s' = l ++ v_log s /\ Forall (fun x => fst x = ev_conn e) l) /\
  v_crashed s' = false.
Proof.
  intros Hc. cbv zeta. pose proof (step808_alive pa s e Hc) as Ha. revert Ha. unfold step808. rewrite Hc.
  assert (Hlog : forall c (outs : list wout), Forall (fun x : N * wout => fst x = c) (rev (map (fun o => (c, o)) outs))).
  { intros c outs. apply Forall_forall. intros x Hx. apply in_rev in Hx. apply in_map_iff in Hx.
    destruct Hx as (o & <- & _). reflexivity. }
  assert (Hsame : (forall c', c' <> ev_conn e -> cfind c' (v_conns s) = cfind c' (v_conns s)) /\
                  (forall c', In c' (v_shut s) -> In c' (v_shut s) \/ c' = ev_conn e) /\
                  (exists l, v_log s = l ++ v_log s /\ Forall (fun x => fst x = ev_conn e) l) /\ v_crashed s = false).
  { repeat split; auto. exists []. split. reflexivity. constructor. }
  destruct e as [c|c now d|c|c]; cbn [ev_conn] in *.
  - destruct (cfind c (v_conns s)). intros _. exact Hsame.
    cbn [v_conns v_log v_shut v_crashed]. intros _. repeat split; auto.
    intros c' Hn. apply cfind_cset_other. exact Hn. exists []. split. reflexivity. constructor.
  - destruct (cfind c (v_conns s)) as [k|]. 2:{ intros _. exact Hsame. }
    destruct d as [|b d]. { intros _. exact Hsame. }
    destruct (conn_data pa _ now k (b :: d)) as [[k' outs|k' outs]|err|]; cbn [v_conns v_log v_shut v_crashed];
      try discriminate; intros _.
    + repeat split; auto. intros c' Hn. apply cfind_cset_other. exact Hn. eexists. split. reflexivity. apply Hlog.
    + repeat split; auto. intros c' Hn. apply cfind_cremove_other. exact Hn.
      intros c' [<-|Hin]; auto. eexists. split. reflexivity. apply Hlog.
    + exact Hsame.
  - cbn [v_conns v_log v_shut v_crashed]. intros _. repeat split; auto.
    intros c' Hn. apply cfind_cremove_other. exact Hn. exists []. split. reflexivity. constructor.
  - destruct (cfind c (v_conns s)). 2:{ intros _. exact Hsame. }
    cbn [v_conns v_log v_shut v_crashed]. intros _. repeat split; auto.
    intros c' Hn. apply cfind_cset_other. exact Hn. exists []. split. reflexivity. constructor.
Qed.

Theorem stepatt_local d s e : a_crashed s = false ->
  let s' := stepatt d s e in
  (forall c', c' <> ev_conn e -> cfind c' (a_conns s') = cfind c' (a_conns s)) /\
  (exists l, a_log s' = l ++ a_log s /\ Forall (fun x => fst x = ev_conn e) l) /\
  a_crashed s' = false.
Proof.
  intros Hc. cbv zeta. pose proof (stepatt_alive d s e Hc) as Ha. revert Ha. unfold stepatt. rewrite Hc.
  assert (Hsame : (forall c', c' <> ev_conn e -> cfind c' (a_conns s) = cfind c' (a_conns s)) /\
                  (exists l, a_log s = l ++ a_log s /\ Forall (fun x => fst x = ev_conn e) l) /\ a_crashed s = false).
  { repeat split; auto. exists []. split. reflexivity. constructor. }
  destruct e as [c|c now seg|c|c]; cbn [ev_conn] in *.
  - destruct (cfind c (a_conns s)). intros _. exact Hsame.
    cbn [a_conns a_log a_crashed]. intros _. repeat split; auto.
    intros c' Hn. apply cfind_cset_other. exact Hn. exists []. split. reflexivity. constructor.
  - destruct (cfind c (a_conns s)) as [[[k br]|]|]; try (intros _; exact Hsame).
    destruct seg as [|b seg]. intros _. exact Hsame.
    destruct (feed_chk d k (b :: seg)) as [[[w k'] stop]| |]; cbn [crashatt a_crashed]; try discriminate.
    cbv zeta. destruct stop.
    + destruct (on_event_chk d (set_stage _ ST_FAIL_QUIT)); cbn [crashatt a_crashed a_conns a_log]; try discriminate.
      intros _. repeat split; auto. intros c' Hn. apply cfind_cset_other. exact Hn.
      eexists [_; _]. split. reflexivity. repeat constructor.
    + cbn [a_conns a_log a_crashed]. intros _. repeat split; auto. intros c' Hn. apply cfind_cset_other. exact Hn.
      eexists [_]. split. reflexivity. repeat constructor.
  - destruct (cfind c (a_conns s)) as [[[k br]|]|]; try (intros _; exact Hsame).
    + destruct (on_event_chk d (quit k)); cbn [crashatt a_crashed a_conns a_log]; try discriminate.
      intros _. repeat split; auto. intros c' Hn. apply cfind_cremove_other. exact Hn.
      exists (att_saves c k). split. reflexivity. unfold att_saves.
      destruct (on_quit_saves (quit k)) as [[dir files]|]; repeat constructor.
    + cbn [a_conns a_log a_crashed]. intros _. repeat split; auto. intros c' Hn. apply cfind_cremove_other. exact Hn.
      exists []. split. reflexivity. constructor.
  - destruct (cfind c (a_conns s)) as [[[k br]|]|]; try (intros _; exact Hsame).
    cbn [a_conns a_log a_crashed]. intros _. repeat split; auto. intros c' Hn. apply cfind_cset_other. exact Hn.
    exists []. split. reflexivity. constructor.
Qed.

(* ---------------- a connection gains a key only by claiming a free one; a claimant refused every time never owns ---------------- *)
Lemma deliver_all_gain pa t : forall ps c r key, k_key c = None -> deliver_all pa t c ps = Ok r ->
  k_key (dres_conn r) = Some key -> first_key ps = Some key /\ t key = false.
Proof.
  induction ps as [|p ps IH]; intros c r key Hk H Hg; cbn [deliver_all] in H.
  - injection H as <-. cbn [dres_conn] in Hg. congruence.
  - cbn [first_key]. unfold deliver in H. rewrite Hk in H.
    destruct (Reply.lookup (m_id (p_msg p))) as [hi|].
    2:{ cbn [bind] in H. destruct (deliver_all pa t c ps) as [r2|e|] eqn:E2; cbn [bind] in H; try discriminate.
        injection H as <-. apply (IH c r2 key Hk E2). destruct r2; exact Hg. }
    destruct (m_id (p_msg p) =? Reply.REISSUE).
    { cbn [bind] in H. destruct (deliver_all pa t _ ps) as [r2|e|] eqn:E2; cbn [bind] in H; try discriminate.
      injection H as <-. eapply (IH _ r2 key); [|exact E2|destruct r2; exact Hg]. reflexivity. }
    destruct (if pa && pm_complete p then handler_parse_chk (p_msg p) else Ok tt) as [u|e|]; cbn [bind] in H; try discriminate.
    destruct (t (phone_of (p_msg p))) eqn:Et.
    { injection H as <-. cbn [dres_conn] in Hg. congruence. }
    assert (forall c' o, k_key c' = Some (phone_of (p_msg p)) ->
              (r2 <- deliver_all pa t c' ps ;; Ok (match r2 with D_go c'' o2 => D_go c'' (o ++ o2) | D_closed c'' o2 => D_closed c'' (o ++ o2) end)) = Ok r ->
              Some (phone_of (p_msg p)) = Some key /\ false = false) as Hrest.
    { intros c' o Hc' H'. destruct (deliver_all pa t c' ps) as [r2|e|] eqn:E2; cbn [bind] in H'; try discriminate.
      injection H' as <-. pose proof (deliver_all_keeps_key pa t ps c' _ r2 Hc' E2) as Hkeep.
      split; [|reflexivity]. destruct r2; cbn [dres_conn] in *; congruence. }
    destruct (pm_complete p && Reply.hi_has hi).
    + destruct (reply_body_chk _ _ _) as [rb|e|]; cbn [bind] in H; try discriminate.
      destruct (snd rb); cbn [bind] in H; eapply Hrest in H; try reflexivity; destruct H as [H _];
        (split; [exact H | injection H as <-; exact Et]).
    + cbn [bind] in H. eapply Hrest in H; try reflexivity. destruct H as [H _]. split; [exact H | injection H as <-; exact Et].
Qed.

Lemma conn_data_gain pa t now k d r key : k_key k = None -> conn_data pa t now k d = Ok r ->
  k_key (dres_conn r) = Some key -> claimed_key now k d = Some key /\ t key = false.
Proof.
  intros Hk. unfold conn_data, claimed_key. rewrite parse_chk_ok, Hk. cbn [bind].
  destruct (parse now (k_ps k) d) as [[ps' msgs] err]. destruct err.
  - intros H. injection H as <-. cbn [dres_conn k_key]. congruence.
  - apply deliver_all_gain. reflexivity.
Qed.

Lemma step808_gain pa c s e : v_crashed s = false -> holds_no_key c s = true ->
  holds_no_key c (step808 pa s e) = false ->
  exists now d k key, e = Data c now d /\ cfind c (v_conns s) = Some k /\
                      claimed_key now k d = Some key /\ taken_by_others c (v_conns s) key = false.
Proof.
  intros Hc Hh. unfold holds_no_key in *. unfold step808. rewrite Hc.
  destruct e as [c0|c0 now d|c0|c0].
  - destruct (cfind c0 (v_conns s)) eqn:Ef. { rewrite Hh. discriminate. }
    cbn [v_conns]. destruct (N.eq_dec c c0) as [->|Hn].
    + rewrite cfind_cset_same. discriminate.
    + rewrite cfind_cset_other by exact Hn. rewrite Hh. discriminate.
  - destruct (cfind c0 (v_conns s)) as [k|] eqn:Ef. 2:{ rewrite Hh. discriminate. }
    destruct d as [|b d]. { rewrite Hh. discriminate. }
    destruct (conn_data pa _ now k (b :: d)) as [[k' outs|k' outs]|err|] eqn:Ed; cbn [v_conns].
    + destruct (N.eq_dec c c0) as [->|Hn].
      * rewrite cfind_cset_same. rewrite Ef in Hh. destruct (k_key k) eqn:Ek. discriminate.
        destruct (k_key k') as [key|] eqn:Ek'; [|discriminate]. intros _.
        destruct (conn_data_gain pa _ now k (b :: d) _ key Ek Ed Ek') as [H1 H2].
        exists now, (b :: d), k, key. auto.
      * rewrite cfind_cset_other by exact Hn. rewrite Hh. discriminate.
    + destruct (N.eq_dec c c0) as [->|Hn].
      * rewrite cfind_cremove_same. discriminate.
      * rewrite cfind_cremove_other by exact Hn. rewrite Hh. discriminate.
    + rewrite Hh. discriminate.
    + cbn [v_conns]. rewrite Hh. discriminate.
  - cbn [v_conns]. destruct (N.eq_dec c c0) as [->|Hn].
    + rewrite cfind_cremove_same. discriminate.
    + rewrite cfind_cremove_other by exact Hn. rewrite Hh. discriminate.
  - destruct (cfind c0 (v_conns s)) as [k|] eqn:Ef. 2:{ rewrite Hh. discriminate. }
    cbn [v_conns]. destruct (N.eq_dec c c0) as [->|Hn].
    + rewrite cfind_cset_same. cbn [break_conn k_key]. rewrite Ef in Hh. rewrite Hh. discriminate.
    + rewrite cfind_cset_other by exact Hn. rewrite Hh. discriminate.
Qed.

Lemma forallb_map_ {A B} (g : A -> B) (f : B -> bool) l : forallb f (map g l) = forallb (fun x => f (g x)) l.
Proof. induction l as [|x l IH]; cbn [map forallb]. reflexivity. now rewrite IH. Qed.

Lemma never_owns_cons pa c s e evs :
  never_owns pa c s (e :: evs) = holds_no_key c s && never_owns pa c (step808 pa s e) evs.
Proof.
  unfold never_owns. cbn [length]. change (seq 0 (S (S (length evs)))) with (0%nat :: seq 1 (S (length evs))).
  rewrite <- seq_shift. cbn [forallb firstn fold_left]. f_equal. rewrite forallb_map_. reflexivity.
Qed.

(* REFUSED => NEVER OWNS: a connection that holds no key and whose every claim is of a key in use at that moment holds
   no key after any prefix of the run *)
Theorem refused_never_owns pa c : forall evs s, v_crashed s = false -> holds_no_key c s = true ->
  all_claims_refused pa c s evs = true -> never_owns pa c s evs = true.
Proof.
  induction evs as [|e evs IH]; intros s Hc Hh Ha.
  - unfold never_owns. cbn. now rewrite Hh.
  - rewrite never_owns_cons, Hh. cbn [andb]. cbn [all_claims_refused] in Ha. apply andb_true_iff in Ha.
    destruct Ha as [Ha1 Ha2]. apply IH. now apply step808_alive. 2: exact Ha2.
    destruct (holds_no_key c (step808 pa s e)) eqn:E. reflexivity. exfalso.
    destruct (step808_gain pa c s e Hc Hh E) as (now & d & k & key & -> & Hf & Hck & Ht).
    rewrite N.eqb_refl in Ha1. cbn [negb orb] in Ha1. rewrite Hf, Hck, Ht in Ha1. discriminate.
Qed.

(* Lemmas about Model/Total_base.v: a member read inside the guarded length never panics; the
   generic totality theorem for straight-line (fixed-layout) decoders; the record loop with the
   invariant "cursor <= length". *)
From JT.Base Require Import Prelude PreludeP.
From JT.Model Require Import Location LocationExt Total_base.
From JT.Proofs Require Import LocationStd Location_proofs.
From Coq Require Import ZArith ZifyN ZifyNat ZifyBool.
Ltac Zify.zify_post_hook ::= Z.div_mod_to_equations.
Local Open Scope N_scope.

Lemma uint_of_ok w b : w <= len b -> uint_of w b = Ok (be_dec (firstn (N.to_nat w) b)).
Proof. intros H. unfold uint_of. replace (len b <? w) with false by lia. reflexivity. Qed.

Lemma len_skipn' (l : list N) n : n <= len l -> len (skipn (N.to_nat n) l) = len l - n.
Proof. intros _. apply len_skipn. Qed.

(* one member whose bytes lie inside [base, base + n) with base + n <= len body *)
Lemma read_field_ok base body n f :
  field_ok n f = true -> base + n <= len body -> exists v, read_field base body f = Ok v.
Proof.
  intros Hf Hb. unfold field_ok in Hf. unfold read_field.
  destruct (f_kind f); cbn [bind].
  - rewrite idx_ok by lia. cbn [bind]. eauto.
  - rewrite slice_ok by lia. cbn [bind]. eauto.
  - rewrite slice_from_ok by lia. cbn [bind].
    rewrite uint_of_ok by (rewrite len_skipn; lia). cbn [bind]. eauto.
  - rewrite slice_ok by lia. cbn [bind]. eauto.
  - rewrite slice_ok by lia. cbn [bind]. eauto.
  - rewrite slice_from_ok by lia. cbn [bind]. eauto.
Qed.

Lemma read_fields_ok base body n fs :
  forallb (field_ok n) fs = true -> base + n <= len body -> exists vs, read_fields base body fs = Ok vs.
Proof.
  intros Hf Hb. induction fs as [|f fs IH]; cbn [read_fields].
  - eauto.
  - cbn [forallb] in Hf. apply andb_true_iff in Hf. destruct Hf as [H1 H2].
    destruct (read_field_ok base body n f H1 Hb) as [v Ev]. rewrite Ev. cbn [bind].
    destruct (IH H2) as [vs Evs]. rewrite Evs. cbn [bind]. eauto.
Qed.

Lemma read_fields_length base body fs vs : read_fields base body fs = Ok vs -> List.length vs = List.length fs.
Proof.
  revert vs. induction fs as [|f fs IH]; intros vs; cbn [read_fields].
  - intros H. inversion H. reflexivity.
  - destruct (read_field base body f) as [v| |]; cbn [bind]; try discriminate.
    destruct (read_fields base body fs) as [ws| |]; cbn [bind]; try discriminate.
    intros H. inversion H. cbn [List.length]. f_equal. now apply IH.
Qed.

Lemma guard_ok_len g l : guard_ok g l = true -> guard_n g <= l.
Proof. destruct g; cbn [guard_ok guard_n]; lia. Qed.

(* ---- the generic theorem for straight-line decoders: one guard, every member inside it ---- *)
Theorem fixed_layout_result g fs : layout_ok g fs = true -> forall body,
  (exists vs, fixed_parse g fs body = Ok (VL vs) /\ List.length vs = List.length fs /\ guard_ok g (len body) = true) \/
  (fixed_parse g fs body = Err E_LEN /\ guard_ok g (len body) = false).
Proof.
  intros Hl body. unfold fixed_parse. destruct (guard_ok g (len body)) eqn:G.
  - left. apply guard_ok_len in G.
    destruct (read_fields_ok 0 body (guard_n g) fs Hl) as [vs E]. lia.
    rewrite E. cbn [bind]. exists vs. repeat split. now apply read_fields_length in E.
  - right. split; reflexivity.
Qed.

Theorem fixed_layout_total g fs : layout_ok g fs = true -> forall body, fixed_parse g fs body <> Panic.
Proof.
  intros Hl body. destruct (fixed_layout_result g fs Hl body) as [(vs & E & _)|[E _]]; rewrite E; discriminate.
Qed.

(* the converse direction, for the record: a member beyond the guard makes a panicking body exist.
   (Used only as a sanity check that layout_ok is not vacuous: see Props/C03.v Examples.) *)

(* ---- record loop: for i := 0; i < n; i++ { members at start + stride*i } ----
   invariant: start + stride * (i + remaining) <= len body, i.e. the cursor never passes the end *)
Lemma rec_loop_ok n : forall i body start stride fs,
  forallb (field_ok stride) fs = true ->
  start + stride * (i + N.of_nat n) <= len body ->
  exists vs, rec_loop n i body start stride fs = Ok vs /\ List.length vs = n.
Proof.
  induction n as [|n IH]; intros i body start stride fs Hf Hb; cbn [rec_loop].
  - exists []. split; reflexivity.
  - destruct (read_fields_ok (start + stride * i) body stride fs Hf) as [v Ev]. lia.
    rewrite Ev. cbn [bind].
    destruct (IH (i + 1) body start stride fs Hf) as (vs & Evs & L). lia.
    rewrite Evs. cbn [bind]. exists (v :: vs). split. reflexivity. cbn [List.length]. now rewrite L.
Qed.

Lemma rec_loop_total n i body start stride fs :
  forallb (field_ok stride) fs = true ->
  start + stride * (i + N.of_nat n) <= len body ->
  rec_loop n i body start stride fs <> Panic.
Proof.
  intros Hf Hb. destruct (rec_loop_ok n i body start stride fs Hf Hb) as (vs & E & _). rewrite E. discriminate.
Qed.

(* ---- text helpers ---- *)
Lemma fill_bytes_len s size : len (fill_bytes s size) = size.
Proof.
  unfold fill_bytes. destruct (len s <? size) eqn:E.
  - rewrite len_app, len_repeat. lia.
  - apply len_firstn. lia.
Qed.

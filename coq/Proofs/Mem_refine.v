(* Refinement: under the current code the memory-level machine of Model/Mem.v delivers, read by
   read, exactly what the value-level parser model (Model/Unpack.v + Model/Subpkg.v) delivers.
   Abstraction: Model/MemAbs.v.  Extra invariants: the history slice lies within its array (wfb),
   every stored slot denotes as many bytes as its length says (lenok), allocation 0 keeps the
   buffer size. *)
From Coq Require Import ZArith ZifyN ZifyNat ZifyBool Arith Lia.
From JT.Base Require Import Prelude PreludeP GoSlice.
From JT.Model Require Import Frame.
From JT.Model Require Unpack Subpkg.
From JT.Model Require Import Mem MemAbs.
From JT.Proofs Require Import Unpack_proofs Mem_proofs.
From JT.Proofs Require Subpkg_seg.
Ltac Zify.zify_post_hook ::= Z.div_mod_to_equations.
Local Open Scope nat_scope.

(* ================= the two nth_delim ================= *)
Lemma nd_equiv l : forall k i,
  Unpack.nth_delim l k (N.of_nat i) = option_map N.of_nat (Mem.nth_delim l k i).
Proof.
  induction l as [|b t IH]; intros k i; cbn [Unpack.nth_delim Mem.nth_delim option_map]; auto.
  replace (N.of_nat i + 1)%N with (N.of_nat (S i)) by lia.
  destruct (b =? 126)%N; auto. destruct k as [|[|k]]; auto.
Qed.

Lemma fast_cond_equiv hist (l d : list N) : length l = s_len hist ->
  Mem.fast_cond hist d =
  ((len l =? 0)%N && (2 <? len d)%N && (last d 0%N =? 126)%N &&
   match Unpack.nth_delim d 2 0 with Some i => (i =? len d - 1)%N | None => false end).
Proof.
  intros L. unfold Mem.fast_cond. pose proof (nd_equiv d 2 0) as E. change (N.of_nat 0) with 0%N in E. rewrite E.
  replace (len l =? 0)%N with (s_len hist =? 0) by (unfold len; rewrite L; lia).
  replace (2 <? len d)%N with (2 <? length d) by (unfold len; lia).
  destruct (Mem.nth_delim d 2 0) as [i|]; cbn [option_map]; auto.
  replace (N.of_nat i =? len d - 1)%N with (i =? length d - 1) by (unfold len; lia). reflexivity.
Qed.

(* ================= slices within their arrays ================= *)
Definition wfb (h : heap) (s : slice) : Prop :=
  s_off s + s_cap s <= length (cells h (s_id s)) /\ s_len s <= s_cap s.

Lemma wfb_len h s : wfb h s -> length (deref h s) = s_len s.
Proof. intros [A B]. unfold deref. rewrite firstn_length, skipn_length. lia. Qed.

Lemma cells_store_length h id off d k : length (cells (store h id off d) k) = length (cells h k).
Proof.
  destruct (Nat.eq_dec id k) as [<-|E].
  - rewrite cells_store_same. apply write_at_length.
  - now rewrite cells_store_other.
Qed.

Lemma wfb_store h id off d s : wfb h s -> wfb (store h id off d) s.
Proof. intros [A B]. split; auto. now rewrite cells_store_length. Qed.

Lemma wfb_alloc h c s : s_id s < length h -> wfb h s -> wfb (h ++ [c]) s.
Proof. intros L [A B]. split; auto. now rewrite cells_alloc_old. Qed.

Lemma wfb_from h s e : e <= s_len s -> wfb h s -> wfb h (slice_from s e).
Proof. intros L [A B]. unfold slice_from. split; cbn [sub_slice s_id s_off s_cap s_len]; lia. Qed.

Lemma wfb_nil h : wfb h nil_slice.
Proof. split; cbn [nil_slice s_off s_cap s_len]; lia. Qed.

Lemma deref_from h s e : e <= s_len s -> wfb h s -> deref h (slice_from s e) = skipn e (deref h s).
Proof.
  intros L W. unfold slice_from. rewrite deref_sub_slice by lia.
  apply firstn_all2. rewrite skipn_length, (wfb_len _ _ W). lia.
Qed.

Lemma deref_prefix h s e : e <= s_len s -> deref h (sub_slice s 0 e) = firstn e (deref h s).
Proof. intros L. rewrite deref_sub_slice by lia. cbn [skipn]. now rewrite Nat.sub_0_r. Qed.

(* append: the new history denotes the old one followed by the data *)
Lemma append_deref h hist d force newcap h1 hist1 :
  wfh h hist -> wfb h hist -> append h hist d force newcap = (h1, hist1) ->
  deref h1 hist1 = deref h hist ++ d /\ wfb h1 hist1.
Proof.
  intros W [B1 B2]. unfold append.
  destruct ((s_len hist + length d <=? s_cap hist) && negb force) eqn:E.
  - intros H. injection H as <- <-. apply andb_true_iff in E. destruct E as [E _]. apply Nat.leb_le in E.
    split.
    + unfold deref. cbn [s_id s_off s_len]. rewrite cells_store_same.
      apply list_ext. intros k. rewrite nth_error_window.
      destruct (k <? s_len hist + length d) eqn:K.
      * apply Nat.ltb_lt in K. destruct (Nat.lt_ge_cases k (s_len hist)) as [K1|K1].
        -- rewrite write_at_out by lia. rewrite nth_error_app1.
           ++ rewrite nth_error_window. replace (k <? s_len hist) with true by (symmetry; apply Nat.ltb_lt; lia). reflexivity.
           ++ rewrite firstn_length, skipn_length. lia.
        -- replace (s_off hist + k) with (s_off hist + s_len hist + (k - s_len hist)) by lia.
           rewrite write_at_in by lia. rewrite nth_error_app2.
           ++ rewrite firstn_length, skipn_length. f_equal. lia.
           ++ rewrite firstn_length, skipn_length. lia.
      * apply Nat.ltb_ge in K. symmetry. apply nth_error_None.
        rewrite app_length, firstn_length, skipn_length. lia.
    + split; cbn [s_id s_off s_cap s_len]; [rewrite cells_store_length|]; lia.
  - unfold alloc. intros H. injection H as <- <-.
    assert (length (deref h hist) = s_len hist) as L by (apply wfb_len; split; auto).
    set (c := Nat.max newcap (s_len hist + length d)).
    split.
    + unfold deref at 1. cbn [s_id s_off s_len]. rewrite cells_alloc_new. cbn [skipn].
      rewrite app_assoc. rewrite firstn_app.
      replace (s_len hist + length d - length (deref h hist ++ d)) with 0 by (rewrite app_length; lia).
      cbn [firstn]. rewrite app_nil_r. apply firstn_all2. rewrite app_length. lia.
    + split; cbn [s_id s_off s_cap s_len]; [rewrite cells_alloc_new|]; try lia.
      rewrite !app_length, repeat_length. lia.
Qed.

(* ================= decode at both levels ================= *)
Lemma decode_mem_cases h raw :
  match decode (deref h raw) with
  | Ok m0 => exists h' m, decode_mem h raw = Ok (h', m) /\ d_hdr m = m0
  | Err e => decode_mem h raw = Err e
  | Panic => decode_mem h raw = Panic
  end.
Proof.
  unfold decode_mem. destruct (decode (deref h raw)) as [m0| |] eqn:D; auto.
  destruct (decode_inv2 _ _ D) as (p & U & _).
  destruct (has7d (deref h raw)).
  - rewrite U. unfold alloc. eexists. eexists. split. reflexivity. reflexivity.
  - eexists. eexists. split. reflexivity. reflexivity.
Qed.

(* a message of the memory-level unpack against a message (raw frame, decoded message) of the
   value-level unpack *)
Definition umrel (h : heap) (dm : dmsg) (p : list N * msg) : Prop :=
  deref h (d_raw dm) = fst p /\ d_hdr dm = snd p.

Lemma umrel_fr h hist h' hist' acc vacc :
  fr h hist h' hist' -> (forall m, In m acc -> mprot (length h) hist m) ->
  Forall2 (umrel h) acc vacc -> Forall2 (umrel h') acc vacc.
Proof.
  intros [_ F] M H. induction H as [|dm p acc vacc [R1 R2] H IH]; constructor.
  - split; auto. destruct (M dm (or_introl eq_refl)) as (A & _). destruct (F _ A) as [_ E]. congruence.
  - apply IH. intros m Hm. apply M. now right.
Qed.

Lemma Forall2_snoc {A B} (R : A -> B -> Prop) l1 l2 a b : Forall2 R l1 l2 -> R a b -> Forall2 R (l1 ++ [a]) (l2 ++ [b]).
Proof. intros H Hab. apply Forall2_app; auto. Qed.

Lemma frame_end_equiv (l : list N) :
  match frame_end l with
  | Some e => ((2 <? len l)%N && (hd 0%N l =? 126)%N) = true /\ Unpack.nth_delim (tl l) 1 1 = Some (N.of_nat e - 1)%N /\ 1 <= e
  | None => ((2 <? len l)%N && (hd 0%N l =? 126)%N) = false \/ Unpack.nth_delim (tl l) 1 1 = None
  end.
Proof.
  unfold frame_end. replace (2 <? len l)%N with (2 <? length l) by (unfold len; lia).
  pose proof (nd_equiv (tl l) 1 1) as E. change (N.of_nat 1) with 1%N in E.
  destruct ((2 <? length l) && (hd 0%N l =? 126)%N); [|now left].
  destruct (Mem.nth_delim (tl l) 1 1) as [i|]; cbn [option_map] in E.
  - split; auto. split; [|lia]. rewrite E. f_equal. lia.
  - now right.
Qed.

(* ================= the buffered loop ================= *)
Lemma scan_refines fuel : forall h hist acc vacc,
  wfh h hist -> wfb h hist -> Forall2 (umrel h) acc vacc ->
  (forall m, In m acc -> mprot (length h) hist m) ->
  let u := Mem.scan cur fuel h hist acc in
  let o := Unpack.scan fuel (deref h hist) vacc in
  Unpack.u_hist o = deref (u_heap u) (u_hist u) /\ Unpack.u_err o = u_err u /\
  Forall2 (umrel (u_heap u)) (u_msgs u) (Unpack.u_msgs o) /\ wfb (u_heap u) (u_hist u).
Proof.
  induction fuel as [|fuel IH]; intros h hist acc vacc W B R M; cbv zeta; cbn [Mem.scan Unpack.scan].
  - cbn [u_heap u_hist u_msgs u_err Unpack.u_hist Unpack.u_msgs Unpack.u_err]. auto.
  - set (l := deref h hist).
    pose proof (frame_end_equiv l) as FE.
    destruct (frame_end l) as [e|] eqn:FEq.
    2:{ destruct FE as [-> | FE].
        - cbn [u_heap u_hist u_msgs u_err Unpack.u_hist Unpack.u_msgs Unpack.u_err]. auto.
        - destruct ((2 <? len l)%N && (hd 0%N l =? 126)%N); [rewrite FE|];
            cbn [u_heap u_hist u_msgs u_err Unpack.u_hist Unpack.u_msgs Unpack.u_err]; auto. }
    destruct FE as (-> & -> & He1).
    pose proof (frame_end_le _ _ FEq) as Le. pose proof (wfb_len _ _ B) as Ll. fold l in Ll.
    replace (N.to_nat (N.of_nat e - 1 + 1)) with e by lia.
    assert (s_id hist <> 0) as Hid.
    { intros E0. destruct W as (_ & _ & W3). destruct (W3 E0) as [_ L0]. lia. }
    assert (deref h (sub_slice hist 0 e) = firstn e l) as Horig by (apply deref_prefix; lia).
    pose proof (decode_mem_cases h (sub_slice hist 0 e)) as DC. rewrite Horig in DC.
    destruct (decode (firstn e l)) as [m0| |] eqn:D.
    + destruct DC as (h' & m & DM & Hm). rewrite DM.
      pose proof (decode_mem_fr _ hist _ _ _ DM) as F1.
      pose proof (decode_mem_wfh _ hist _ _ _ DM W) as W1.
      pose proof (decode_mem_len _ _ _ _ DM) as L1.
      destruct (decode_mem_ok _ _ _ _ DM) as [Hraw Hh'].
      assert (forall s, s_id s < length h -> deref h' s = deref h s) as Dsame.
      { intros s Hs. destruct Hh' as [(-> & _)|(p & -> & _)]; auto. now apply deref_alloc. }
      assert (forall s, s_id s < length h -> wfb h s -> wfb h' s) as Bsame.
      { intros s Hs Hb. destruct Hh' as [(-> & _)|(p & -> & _)]; auto. now apply wfb_alloc. }
      pose proof W as W'. destruct W as (W0 & Wid & W3).
      assert (umrel h' m (firstn e l, m0)) as Rm.
      { split; cbn [fst snd]; auto. rewrite Hraw, Dsame by (cbn [sub_slice s_id]; exact Wid). exact Horig. }
      assert (Forall2 (umrel h') (acc ++ [m]) (vacc ++ [(firstn e l, m0)])) as R'.
      { apply Forall2_snoc; auto. eapply umrel_fr; eauto. }
      assert (skipn e l = [] <-> e = s_len hist) as Hrest.
      { split; intros Hx. apply (f_equal (@length N)) in Hx. rewrite skipn_length in Hx. cbn [length] in Hx. lia.
        apply length_zero_iff_nil. rewrite skipn_length. lia. }
      destruct (e =? s_len hist) eqn:Ee.
      * apply Nat.eqb_eq in Ee. destruct (skipn e l) eqn:Sk; [|destruct Hrest as [_ Hx]; specialize (Hx Ee); discriminate].
        cbn [u_heap u_hist u_msgs u_err Unpack.u_hist Unpack.u_msgs Unpack.u_err cur v_nil].
        split; [|split; [|split]]; auto. apply wfb_nil.
      * apply Nat.eqb_neq in Ee. destruct (skipn e l) as [|x rest] eqn:Sk; [destruct Hrest as [Hx _]; specialize (Hx eq_refl); contradiction|].
        rewrite <- Sk.
        assert (deref h' (slice_from hist e) = skipn e l) as Hnext.
        { rewrite Dsame by (cbn [slice_from sub_slice s_id]; exact Wid). apply deref_from; auto. lia. }
        rewrite <- Hnext.
        apply IH; auto.
        -- now apply wfh_from.
        -- apply Bsame. cbn [slice_from sub_slice s_id]; exact Wid. apply wfb_from; auto. lia.
        -- assert (fr h hist h' (slice_from hist e)) as F2 by (eapply fr_trans; [exact F1|apply fr_advance]).
           intros mm Hmm. apply in_app_or in Hmm. destruct Hmm as [Hmm|[<-|[]]].
           ++ eapply mprot_fr; [exact F2|now apply M].
           ++ eapply decode_mem_mprot; [exact DM|exact W0|exact Wid|].
              split; [|split]; cbn [slice_from sub_slice s_id s_off s_len]; [exact Hid|lia|intros _; lia].
    + rewrite DC. cbn [u_heap u_hist u_msgs u_err Unpack.u_hist Unpack.u_msgs Unpack.u_err err_of].
      split; [symmetry; apply deref_from; auto; lia|split; [reflexivity|split; [exact R|apply wfb_from; auto; lia]]].
    + rewrite DC. cbn [u_heap u_hist u_msgs u_err Unpack.u_hist Unpack.u_msgs Unpack.u_err err_of].
      split; [symmetry; apply deref_from; auto; lia|split; [reflexivity|split; [exact R|apply wfb_from; auto; lia]]].
Qed.

(* ================= unpack ================= *)
Lemma unpack_refines h hist eff force newcap :
  wfh h hist -> wfb h hist ->
  let u := Mem.unpack cur h hist eff force newcap in
  let o := Unpack.unpack (deref h hist) (deref h eff) in
  Unpack.u_hist o = deref (u_heap u) (u_hist u) /\ Unpack.u_err o = u_err u /\
  Forall2 (umrel (u_heap u)) (u_msgs u) (Unpack.u_msgs o) /\ wfb (u_heap u) (u_hist u).
Proof.
  intros W B. cbv zeta. unfold Mem.unpack, Unpack.unpack.
  set (l := deref h hist). set (d := deref h eff).
  rewrite <- (fast_cond_equiv hist l d) by (apply wfb_len; exact B).
  destruct (Mem.fast_cond hist d).
  - cbn [cur v_clone]. unfold clone, alloc. fold d.
    set (data := mkS (length h) 0 (length d) (length d)).
    pose proof (decode_mem_cases (h ++ [d]) data) as DC.
    assert (deref (h ++ [d]) data = d) as Hd by apply deref_fresh. rewrite Hd in DC.
    assert (s_id hist < length h) as Wid by apply W.
    destruct (decode d) as [m0| |] eqn:D.
    + destruct DC as (h2 & m & DM & Hm). rewrite DM.
      destruct (decode_mem_ok _ _ _ _ DM) as [Hraw Hh2].
      assert (forall s, s_id s < length (h ++ [d]) -> deref h2 s = deref (h ++ [d]) s) as Dsame.
      { intros s Hs. destruct Hh2 as [(-> & _)|(p & -> & _)]; auto. now apply deref_alloc. }
      assert (forall s, s_id s < length (h ++ [d]) -> wfb (h ++ [d]) s -> wfb h2 s) as Bsame.
      { intros s Hs Hb. destruct Hh2 as [(-> & _)|(p & -> & _)]; auto. now apply wfb_alloc. }
      cbn [u_heap u_hist u_msgs u_err Unpack.u_hist Unpack.u_msgs Unpack.u_err].
      assert (length (h ++ [d]) = S (length h)) as Lh by (rewrite app_length; cbn; lia).
      split; [|split; [|split]]; auto.
      * rewrite Dsame by lia. now rewrite deref_alloc.
      * constructor; [|constructor]. split; cbn [fst snd]; auto. rewrite Hraw, Dsame by (cbn [data s_id]; lia). exact Hd.
      * apply Bsame. lia. now apply wfb_alloc.
    + rewrite DC. cbn [u_heap u_hist u_msgs u_err Unpack.u_hist Unpack.u_msgs Unpack.u_err err_of].
      split; [now rewrite deref_alloc|split; [reflexivity|split; [constructor|now apply wfb_alloc]]].
    + rewrite DC. cbn [u_heap u_hist u_msgs u_err Unpack.u_hist Unpack.u_msgs Unpack.u_err err_of].
      split; [now rewrite deref_alloc|split; [reflexivity|split; [constructor|now apply wfb_alloc]]].
  - destruct (append h hist d force newcap) as [h1 hist1] eqn:A.
    destruct (append_fr _ _ _ _ _ _ _ W A) as [F1 W1].
    destruct (append_deref _ _ _ _ _ _ _ W B A) as [D1 B1].
    pose proof (wfb_len _ _ B1) as L1.
    subst l d. rewrite <- D1.
    rewrite (scan_fuel_any (length (deref h1 hist1)) (S (s_len hist1))) by lia.
    apply scan_refines; auto. intros m [].
Qed.

(* ================= the records at both levels ================= *)
Definition rall (P : slice -> Prop) (r : recs) : Prop := Forall (fun kv => Forall P (snd kv)) r.

Lemma rall_del P r id : rall P r -> rall P (rec_del r id).
Proof.
  unfold rall. induction r as [|[k v] r IH]; intros H; cbn [rec_del]; auto.
  inversion H as [|x l Hx Hl]; subst. destruct (k =? id)%N; auto.
Qed.
Lemma rall_set P r id v : rall P r -> Forall P v -> rall P (rec_set r id v).
Proof. intros H Hv. unfold rec_set. constructor; auto. now apply rall_del. Qed.
Lemma rall_get P r id v : rall P r -> rec_get r id = Some v -> Forall P v.
Proof.
  unfold rall. induction r as [|[k w] r IH]; intros H G; cbn [rec_get] in G. discriminate.
  inversion H as [|x l Hx Hl]; subst. destruct (k =? id)%N; auto. injection G as <-. exact Hx.
Qed.

Definition lenok (h : heap) (s : slice) : Prop := length (deref h s) = s_len s.

Lemma deref_nil h : deref h nil_slice = [].
Proof. reflexivity. Qed.

Lemma rel_get h r s id : rel_recs h r s ->
  match rec_get r id, Subpkg.find id s with
  | Some slots, Some x => Subpkg.x_slots x = map (deref h) slots
  | None, None => True
  | _, _ => False
  end.
Proof.
  revert s. induction r as [|[k v] r IH]; intros [|[k' x] s] H; cbn [rel_recs] in H; try contradiction; cbn [rec_get Subpkg.find]; auto.
  destruct H as (<- & Hx & H). destruct (k =? id)%N; [exact Hx|apply IH; exact H].
Qed.

Lemma rel_del h r s id : rel_recs h r s -> rel_recs h (rec_del r id) (Subpkg.remove id s).
Proof.
  revert s. induction r as [|[k v] r IH]; intros [|[k' x] s] H; cbn [rel_recs] in H; try contradiction; cbn [rec_del Subpkg.remove]; auto.
  destruct H as (<- & Hx & H). destruct (k =? id)%N; auto. cbn [rel_recs]. auto.
Qed.

Lemma rel_set h r s id v x : rel_recs h r s -> Subpkg.x_slots x = map (deref h) v ->
  rel_recs h (rec_set r id v) (Subpkg.put id x s).
Proof. intros H Hx. unfold rec_set, Subpkg.put. cbn [rel_recs]. split; auto. split; auto. now apply rel_del. Qed.

Lemma sprot_deref h hist h' hist' s : fr h hist h' hist' -> sprot (length h) hist s -> deref h' s = deref h s.
Proof. intros [_ F] [E|P]. unfold deref. now rewrite E. now apply F. Qed.

Lemma rel_fr h hist h' hist' r s : fr h hist h' hist' -> rprot (length h) hist r -> rel_recs h r s -> rel_recs h' r s.
Proof.
  intros F. revert s. induction r as [|[k v] r IH]; intros [|[k' x] s] R H; cbn [rel_recs] in *; try contradiction; auto.
  destruct H as (<- & Hx & H). inversion R as [|y l Hy Hl]; subst. split; auto. split; [|now apply IH].
  rewrite Hx. apply map_ext_in. intros a Ha. symmetry. eapply sprot_deref; eauto.
  cbn [snd] in Hy. rewrite Forall_forall in Hy. now apply Hy.
Qed.

Lemma rlen_fr h hist h' hist' r : fr h hist h' hist' -> rprot (length h) hist r -> rall (lenok h) r -> rall (lenok h') r.
Proof.
  intros F R L. unfold rall, rprot in *. induction r as [|[k v] r IH]; constructor.
  - inversion R as [|y l Hy Hl]; subst. inversion L as [|y' l' Ly Ll]; subst. cbn [snd] in *.
    rewrite Forall_forall in *. intros a Ha. unfold lenok. rewrite (sprot_deref _ _ _ _ _ F (Hy a Ha)). now apply Ly.
  - inversion R; inversion L; subst. now apply IH.
Qed.

Lemma rec_del_idem r id : rec_del (rec_del r id) id = rec_del r id.
Proof.
  induction r as [|[k v] r IH]; cbn [rec_del]; auto.
  destruct (k =? id)%N eqn:E; auto. cbn [rec_del]. now rewrite E, IH.
Qed.

Lemma map_set_nth h k b slots :
  map (deref h) (Mem.set_nth k b slots) = Subpkg.set_nth k (deref h b) (map (deref h) slots).
Proof.
  revert k. induction slots as [|y l IH]; intros k; [destruct k; reflexivity|].
  destruct k; cbn [Mem.set_nth Subpkg.set_nth map]; [reflexivity|now rewrite IH].
Qed.

Lemma received_equiv h slots : Forall (lenok h) slots ->
  Subpkg.received (map (deref h) slots) = N.of_nat (Mem.received slots).
Proof.
  unfold Subpkg.received, Mem.received, len. intros H. f_equal.
  induction H as [|s l Hs Hl IH]; cbn [map filter]; auto.
  unfold lenok in Hs. replace (N.of_nat (length (deref h s)) =? 0)%N with (s_len s =? 0) by lia.
  destruct (s_len s =? 0); cbn [negb length]; [exact IH|now rewrite IH].
Qed.

Lemma flat_firstn h n slots : flat_map (deref h) (firstn n slots) = concat (firstn n (map (deref h) slots)).
Proof. now rewrite flat_map_concat_map, firstn_map. Qed.

Lemma Forall_set_nth_mem {A} (P : A -> Prop) n x l : Forall P l -> P x -> Forall P (Mem.set_nth n x l).
Proof.
  intros H Hx. revert n. induction H as [|y l Hy Hl IH]; intros n; cbn [Mem.set_nth].
  destruct n; constructor. destruct n; constructor; auto.
Qed.

Lemma lenok_repeat_nil h n : Forall (lenok h) (repeat nil_slice n).
Proof. induction n; cbn [repeat]; constructor; auto. reflexivity. Qed.

Lemma set_body_same m : Subpkg.set_body m (m_body m) = m.
Proof. destruct m; reflexivity. Qed.

Lemma pmsg_of_fr h hist h' hist' m : fr h hist h' hist' -> mprot (length h) hist m -> pmsg_of h' m = pmsg_of h m.
Proof.
  intros [_ F] (A & B & _). destruct (F _ A) as [_ A2]. destruct (F _ B) as [_ B2].
  unfold pmsg_of. now rewrite A2, B2.
Qed.

Lemma map_repeat_nil h n : map (deref h) (repeat nil_slice n) = repeat [] n.
Proof. induction n; cbn [repeat map]; auto. now rewrite IHn. Qed.

(* ================= completePack at both levels ================= *)
Definition cp_rel (h' : heap) (pm : list N * msg) (m' : dmsg) (cm : option dmsg) (res : option (list N)) : Prop :=
  match cm, res with
  | None, None => True
  | Some c, Some data =>
    pmsg_of h' m' = {| Subpkg.p_raw := fst pm; Subpkg.p_msg := Subpkg.set_body (snd pm) data; Subpkg.p_complete := false |} /\
    pmsg_of h' c = {| Subpkg.p_raw := data; Subpkg.p_msg := Subpkg.set_body (snd pm) data; Subpkg.p_complete := true |}
  | _, _ => False
  end.

Lemma complete_pack_refines now h hist r s m pm :
  wfh h hist -> mprot (length h) hist m -> vok h m -> lenok h (d_body m) ->
  rprot (length h) hist r -> rall (lenok h) r -> rel_recs h r s -> umrel h m pm ->
  forall h' r' m' cm, Mem.complete_pack h r m = (h', r', m', cm) ->
  rel_recs h' r' (fst (Subpkg.complete_pack now s (snd pm))) /\ rall (lenok h') r' /\
  cp_rel h' pm m' cm (snd (Subpkg.complete_pack now s (snd pm))) /\
  (cm = None -> h' = h /\ m' = m).
Proof.
  intros W M V Lb R L Rel [U1 U2] h' r' m' cm.
  destruct pm as [raw m0]. cbn [fst snd] in *. subst m0.
  destruct V as (V1 & V2 & V3 & V4).
  unfold Mem.complete_pack, Subpkg.complete_pack.
  set (hd := d_hdr m).
  replace (N.to_nat (m_sum hd) =? 0) with (m_sum hd =? 0)%N by lia.
  destruct (m_sum hd =? 0)%N eqn:E0.
  { intros H. injection H as <- <- <- <-. cbn [fst snd cp_rel]. auto. }
  replace (N.to_nat (m_no hd) =? 1) with (m_no hd =? 1)%N by lia.
  set (r1 := if (m_no hd =? 1)%N then rec_set r (m_id hd) (repeat nil_slice (N.to_nat (m_sum hd))) else r).
  set (s1 := if (m_no hd =? 1)%N then Subpkg.put (m_id hd) (Subpkg.new_xfer now hd) s else s).
  assert (rel_recs h r1 s1) as Rel1.
  { unfold r1, s1. destruct (m_no hd =? 1)%N; auto. apply rel_set; auto.
    cbn [Subpkg.new_xfer Subpkg.x_slots]. now rewrite map_repeat_nil. }
  assert (rprot (length h) hist r1) as R1.
  { unfold r1. destruct (m_no hd =? 1)%N; auto. apply rprot_set; auto. apply sprot_repeat_nil. }
  assert (rall (lenok h) r1) as L1.
  { unfold r1. destruct (m_no hd =? 1)%N; auto. apply rall_set; auto. apply lenok_repeat_nil. }
  pose proof (rel_get h r1 s1 (m_id hd) Rel1) as G.
  destruct (rec_get r1 (m_id hd)) as [slots|] eqn:G1; destruct (Subpkg.find (m_id hd) s1) as [x|] eqn:G2; try contradiction.
  2:{ (* no table: ignored at both levels *)
      replace ((N.to_nat (m_no hd) <? 1) || (length (@nil slice) <? N.to_nat (m_no hd))) with true
        by (symmetry; apply Bool.orb_true_iff; cbn [length]; destruct (N.to_nat (m_no hd)); [left|right]; reflexivity).
      intros H. injection H as <- <- <- <-. cbn [fst snd cp_rel]. auto. }
  replace ((N.to_nat (m_no hd) <? 1) || (length slots <? N.to_nat (m_no hd)))
    with ((m_no hd <? 1)%N || (len (Subpkg.x_slots x) <? m_no hd)%N)
    by (rewrite G; unfold len; rewrite map_length; lia).
  destruct ((m_no hd <? 1)%N || (len (Subpkg.x_slots x) <? m_no hd)%N) eqn:Eg.
  { intros H. injection H as <- <- <- <-. cbn [fst snd cp_rel]. auto. }
  set (slots' := Mem.set_nth (N.to_nat (m_no hd) - 1) (d_body m) slots).
  set (vslots' := Subpkg.set_nth (N.to_nat (m_no hd - 1)) (m_body hd) (Subpkg.x_slots x)).
  assert (vslots' = map (deref h) slots') as Hv.
  { unfold vslots', slots'. rewrite map_set_nth, V2, G. f_equal. lia. }
  assert (Forall (lenok h) slots') as Ls'.
  { apply Forall_set_nth_mem; auto. eapply rall_get; eauto. }
  assert (Forall (sprot (length h) hist) slots') as Ps'.
  { apply Forall_set_nth_mem. eapply rprot_get; eauto. right. apply M. }
  replace (Mem.received slots' =? N.to_nat (m_sum hd)) with (Subpkg.received vslots' =? m_sum hd)%N
    by (rewrite Hv, received_equiv by exact Ls'; lia).
  destruct (Subpkg.received vslots' =? m_sum hd)%N.
  - unfold alloc. set (data := flat_map (deref h) (firstn (N.to_nat (m_sum hd)) slots')).
    assert (data = concat (firstn (N.to_nat (m_sum hd)) vslots')) as Hdata by (unfold data; rewrite Hv; apply flat_firstn).
    intros H. injection H as <- <- <- <-. cbn [fst snd].
    pose proof (fr_alloc h hist data) as F.
    assert (rprot (length h) hist (rec_del r1 (m_id hd))) as Rd by now apply rprot_del.
    split; [|split; [|split]].
    + unfold rec_set. cbn [rec_del]. rewrite N.eqb_refl, rec_del_idem.
      eapply rel_fr; [exact F|exact Rd|]. now apply rel_del.
    + unfold rec_set. cbn [rec_del]. rewrite N.eqb_refl, rec_del_idem.
      eapply rlen_fr; [exact F|exact Rd|]. now apply rall_del.
    + cbn [cp_rel]. rewrite <- Hdata. unfold pmsg_of. cbn [d_raw d_body d_hdr d_complete].
      rewrite deref_fresh. destruct M as (M1 & _). destruct F as [_ F]. destruct (F _ M1) as [_ E1].
      rewrite E1, U1. auto.
    + discriminate.
  - intros H. injection H as <- <- <- <-. cbn [fst snd cp_rel].
    split; [|split; [|split]]; auto.
    + apply rel_set; auto.
    + apply rall_set; auto.
Qed.

(* ================= the parse loop ================= *)
Lemma lenok_fr h hist h' hist' s : fr h hist h' hist' -> prot (length h) hist s -> lenok h s -> lenok h' s.
Proof. intros [_ F] P L. unfold lenok. destruct (F _ P) as [_ E]. now rewrite E. Qed.

Lemma parse_loop_refines now msgs : forall h hist r s vmsgs,
  wfh h hist -> rprot (length h) hist r -> rall (lenok h) r -> rel_recs h r s ->
  Forall2 (umrel h) msgs vmsgs ->
  (forall m, In m msgs -> mprot (length h) hist m /\ vok h m /\ lenok h (d_body m)) ->
  forall h2 r2 out, Mem.parse_loop h r msgs = (h2, r2, out) ->
  map (pmsg_of h2) out = snd (Subpkg.cp_loop now s vmsgs) /\
  rel_recs h2 r2 (fst (Subpkg.cp_loop now s vmsgs)) /\ rall (lenok h2) r2.
Proof.
  induction msgs as [|m t IH]; intros h hist r s vmsgs W R L Rel F2 M h2 r2 out; cbn [Mem.parse_loop].
  - inversion F2; subst. intros H. injection H as <- <- <-. cbn [Subpkg.cp_loop map fst snd]. auto.
  - inversion F2 as [|m_ pm t_ vt Um Ut]; subst.
    destruct (Mem.complete_pack h r m) as [[[h1 r1] m'] cm] eqn:C.
    destruct (Mem.parse_loop h1 r1 t) as [[h2' r2'] out'] eqn:P.
    intros H. injection H as <- <- <-.
    destruct (M m (or_introl eq_refl)) as (Mm & Vm & Lm).
    destruct (complete_pack_ok h hist r m W Mm R _ _ _ _ C) as (F1 & W1 & R1 & M1 & Mc).
    destruct (complete_pack_refines now h hist r s m pm W Mm Vm Lm R L Rel Um _ _ _ _ C) as (Rel1 & L1 & CR & Hnone).
    assert (forall m0, In m0 t -> mprot (length h1) hist m0 /\ vok h1 m0 /\ lenok h1 (d_body m0)) as Mt.
    { intros m0 Hm0. destruct (M m0 (or_intror Hm0)) as (A & B & C0).
      split; [eapply mprot_fr; eauto|split; [eapply vok_fr; eauto|eapply lenok_fr; eauto; apply A]]. }
    assert (Forall2 (umrel h1) t vt) as Ut1.
    { eapply umrel_fr; [exact F1| |exact Ut]. intros m0 Hm0. apply M. now right. }
    destruct (parse_loop_ok t h1 hist r1 W1 R1 (fun m0 H0 => proj1 (Mt m0 H0)) _ _ _ P) as (F3 & _).
    destruct (IH h1 hist r1 (fst (Subpkg.complete_pack now s (snd pm))) vt W1 R1 L1 Rel1 Ut1 Mt _ _ _ P) as (O2 & Rel2 & L2).
    destruct pm as [raw m0]. cbn [Subpkg.cp_loop]. cbn [fst snd] in *.
    destruct (Subpkg.complete_pack now s m0) as [s1 res]. cbn [fst snd] in *.
    destruct (Subpkg.cp_loop now s1 vt) as [s2 rest]. cbn [fst snd] in *.
    split; [|split; auto].
    cbn [map]. rewrite map_app, O2. rewrite (pmsg_of_fr _ _ _ _ _ F3 M1).
    destruct cm as [c|]; destruct res as [data|]; cbn [cp_rel] in CR; try contradiction.
    + destruct CR as [CR1 CR2]. cbn [map app]. rewrite (pmsg_of_fr _ _ _ _ _ F3 (Mc c eq_refl)). now rewrite CR1, CR2.
    + destruct (Hnone eq_refl) as [-> ->]. cbn [map app]. f_equal.
      destruct Um as [U1 U2]. destruct Vm as (V1 & V2 & V3 & V4). cbn [fst snd] in *.
      unfold pmsg_of. rewrite U1, V2, V4, set_body_same, U2. reflexivity.
Qed.

(* ================= structural facts carried through unpack ================= *)
Definition blen (m : dmsg) : Prop := s_len (d_body m) = N.to_nat (m_len (d_hdr m)).

Lemma decode_mem_blen h raw h' m : decode_mem h raw = Ok (h', m) -> blen m.
Proof.
  unfold decode_mem. destruct (decode (deref h raw)) as [m0| |]; try discriminate.
  destruct (has7d (deref h raw)).
  - destruct (unescape (deref h raw)); try discriminate. unfold alloc. intros H. injection H as <- <-.
    unfold blen. cbn [d_body d_hdr sub_slice s_len]. lia.
  - intros H. injection H as <- <-. unfold blen. cbn [d_body d_hdr sub_slice s_len]. lia.
Qed.

Lemma scan_blen fuel : forall h hist acc, (forall m, In m acc -> blen m) ->
  forall m, In m (u_msgs (Mem.scan cur fuel h hist acc)) -> blen m.
Proof.
  induction fuel as [|fuel IH]; intros h hist acc Hacc; cbn [Mem.scan]; auto.
  destruct (frame_end (deref h hist)) as [e|]; auto.
  destruct (decode_mem h (sub_slice hist 0 e)) as [[h' m]| |] eqn:D; auto.
  assert (forall m0, In m0 (acc ++ [m]) -> blen m0) as Hacc'.
  { intros m0 Hm0. apply in_app_or in Hm0. destruct Hm0 as [Hm0|[<-|[]]]; auto. eapply decode_mem_blen; eauto. }
  destruct (e =? s_len hist); [cbn [u_msgs]; exact Hacc'|apply IH; exact Hacc'].
Qed.

Lemma unpack_blen h hist eff force newcap :
  forall m, In m (u_msgs (Mem.unpack cur h hist eff force newcap)) -> blen m.
Proof.
  unfold Mem.unpack. destruct (Mem.fast_cond hist (deref h eff)).
  - cbn [cur v_clone]. unfold clone, alloc.
    destruct (decode_mem _ _) as [[h2 m]| |] eqn:D; cbn [u_msgs].
    + intros mx [<-|[]]. eapply decode_mem_blen; eauto.
    + intros mx [].
    + intros mx [].
  - destruct (append _ _ _ _ _) as [h1 hist1]. apply scan_blen. intros m [].
Qed.

Lemma decode_body_len d m : decode d = Ok m -> length (m_body m) = N.to_nat (m_len m).
Proof.
  intros D. destruct (decode_inv2 _ _ D) as (p & _ & L1 & _ & Eb & _).
  rewrite Eb, firstn_length, skipn_length. lia.
Qed.

Lemma vok_lenok h m : vok h m -> blen m -> lenok h (d_body m).
Proof.
  intros (V1 & V2 & _) B. unfold lenok. rewrite V2, B. eapply decode_body_len; eauto.
Qed.

(* ================= heaps only grow at the end; cells keep their length ================= *)
Definition hext (h h' : heap) : Prop :=
  length h <= length h' /\ forall k, k < length h -> length (cells h' k) = length (cells h k).

Lemma hext_refl h : hext h h. Proof. split; auto. Qed.
Lemma hext_trans a b c : hext a b -> hext b c -> hext a c.
Proof. intros [L1 H1] [L2 H2]. split. lia. intros k Hk. rewrite H2 by lia. now apply H1. Qed.
Lemma hext_store h id off d : hext h (store h id off d).
Proof. split. now rewrite store_length. intros k _. apply cells_store_length. Qed.
Lemma hext_alloc h c : hext h (h ++ [c]).
Proof. split. rewrite app_length; cbn; lia. intros k Hk. now rewrite cells_alloc_old. Qed.

Lemma decode_mem_hext h raw h' m : decode_mem h raw = Ok (h', m) -> hext h h'.
Proof. intros H. destruct (decode_mem_ok _ _ _ _ H) as [_ [(-> & _)|(p & -> & _)]]. apply hext_refl. apply hext_alloc. Qed.

Lemma append_hext h s d force newcap h1 s1 : append h s d force newcap = (h1, s1) -> hext h h1.
Proof.
  unfold append. destruct (_ && _).
  - intros H. injection H as <- <-. apply hext_store.
  - unfold alloc. intros H. injection H as <- <-. apply hext_alloc.
Qed.

Lemma scan_hext fuel : forall h hist acc, hext h (u_heap (Mem.scan cur fuel h hist acc)).
Proof.
  induction fuel as [|fuel IH]; intros h hist acc; cbn [Mem.scan]. apply hext_refl.
  destruct (frame_end (deref h hist)) as [e|]; [|apply hext_refl].
  destruct (decode_mem h (sub_slice hist 0 e)) as [[h' m]| |] eqn:D; try apply hext_refl.
  pose proof (decode_mem_hext _ _ _ _ D) as H1.
  destruct (e =? s_len hist); cbn [u_heap]; auto. eapply hext_trans; eauto.
Qed.

Lemma unpack_hext h hist eff force newcap : hext h (u_heap (Mem.unpack cur h hist eff force newcap)).
Proof.
  unfold Mem.unpack. destruct (Mem.fast_cond hist (deref h eff)).
  - cbn [cur v_clone]. unfold clone, alloc.
    destruct (decode_mem _ _) as [[h2 m]| |] eqn:D; cbn [u_heap]; try apply hext_alloc.
    eapply hext_trans. apply hext_alloc. eapply decode_mem_hext; eauto.
  - destruct (append _ _ _ _ _) as [h1 hist1] eqn:A. eapply hext_trans. eapply append_hext; eauto. apply scan_hext.
Qed.

(* the parse loop only allocates *)
Lemma complete_pack_grows h r m h' r' m' cm : Mem.complete_pack h r m = (h', r', m', cm) -> exists extra, h' = h ++ extra.
Proof.
  unfold Mem.complete_pack.
  repeat match goal with |- context [if ?c then _ else _] => destruct c end;
    unfold alloc; intros H; injection H as <- <- <- <-;
    first [exists []; now rewrite app_nil_r | eexists; reflexivity].
Qed.

Lemma parse_loop_grows msgs : forall h r h2 r2 out, Mem.parse_loop h r msgs = (h2, r2, out) -> exists extra, h2 = h ++ extra.
Proof.
  induction msgs as [|m t IH]; intros h r h2 r2 out; cbn [Mem.parse_loop].
  - intros H. injection H as <- <- <-. exists []. now rewrite app_nil_r.
  - destruct (Mem.complete_pack h r m) as [[[h1 r1] m'] cm] eqn:C.
    destruct (Mem.parse_loop h1 r1 t) as [[h2' r2'] out'] eqn:P.
    intros H. injection H as <- <- <-.
    destruct (complete_pack_grows _ _ _ _ _ _ _ C) as [e1 ->]. destruct (IH _ _ _ _ _ P) as [e2 ->].
    exists (e1 ++ e2). now rewrite app_assoc.
Qed.

Lemma cells_app_old (h extra : heap) k : k < length h -> cells (h ++ extra) k = cells h k.
Proof. intros H. unfold cells. now rewrite app_nth1. Qed.

(* ================= one read, and histories of reads ================= *)
Definition inv2 (bufsz : nat) (st : pst) : Prop :=
  inv st /\ wfb (p_heap st) (p_hist st) /\ rall (lenok (p_heap st)) (p_rec st) /\
  length (cells (p_heap st) 0) = bufsz.

Lemma inv2_init bufsz : inv2 bufsz (init bufsz).
Proof.
  split; [apply inv_init|]. cbn [init p_heap p_hist p_rec]. split; [apply wfb_nil|]. split; [constructor|].
  unfold cells. cbn [nth]. apply repeat_length.
Qed.

Lemma deref_rbuf h data : length data <= length (cells h 0) ->
  deref (store h 0 0 data) (mkS 0 0 (length data) (length (cells h 0))) = data.
Proof.
  intros L. unfold deref. cbn [s_id s_off s_len skipn]. rewrite cells_store_same.
  apply list_ext. intros k. rewrite nth_error_firstn.
  destruct (k <? length data) eqn:K.
  - apply Nat.ltb_lt in K. apply (write_at_in (cells h 0) 0 data k); lia.
  - apply Nat.ltb_ge in K. symmetry. now apply nth_error_None.
Qed.

Lemma deref_hist_store h hist off d : wfh h hist -> deref (store h 0 off d) hist = deref h hist.
Proof.
  intros (_ & _ & W3). destruct (Nat.eq_dec (s_id hist) 0) as [E|E].
  - destruct (W3 E) as [_ L0]. unfold deref. now rewrite L0.
  - now apply deref_store_other.
Qed.

Theorem step_refines bufsz now st vs data force newcap :
  inv2 bufsz st -> rel st vs -> length data <= bufsz ->
  map (pmsg_of (p_heap (o_st (Mem.step cur bufsz st (Read data force newcap)))))
      (o_msgs (Mem.step cur bufsz st (Read data force newcap))) = snd (fst (parse_core now vs data)) /\
  o_err (Mem.step cur bufsz st (Read data force newcap)) = snd (parse_core now vs data) /\
  rel (o_st (Mem.step cur bufsz st (Read data force newcap))) (fst (fst (parse_core now vs data))) /\
  inv2 bufsz (o_st (Mem.step cur bufsz st (Read data force newcap))).
Proof.
  intros (I & B & L & C0) [Rh Rr] Ld.
  pose proof (step_ok bufsz st (Read data force newcap) I) as (_ & I' & _).
  destruct I as [W R].
  unfold parse_core. cbn [Mem.step] in *.
  rewrite (firstn_all2 data) in * by lia.
  set (h0 := store (p_heap st) rbuf 0 data) in *.
  set (eff := mkS rbuf 0 (length data) bufsz) in *.
  assert (fr (p_heap st) (p_hist st) h0 (p_hist st)) as F0 by apply fr_store_rbuf.
  assert (wfh h0 (p_hist st)) as W0 by now apply wfh_store.
  assert (wfb h0 (p_hist st)) as B0 by now apply wfb_store.
  assert (deref h0 eff = data) as Hd.
  { unfold h0, eff, rbuf. rewrite <- C0. apply deref_rbuf. lia. }
  assert (deref h0 (p_hist st) = Subpkg.ps_hist vs) as Hh.
  { rewrite Rh. unfold h0, rbuf. now apply deref_hist_store. }
  destruct (unpack_ok h0 (p_hist st) eff force newcap W0) as (F1 & W1 & M1).
  pose proof (unpack_vok h0 (p_hist st) eff force newcap W0) as V1.
  pose proof (unpack_blen h0 (p_hist st) eff force newcap) as Bl.
  pose proof (unpack_hext h0 (p_hist st) eff force newcap) as Hx.
  destruct (unpack_refines h0 (p_hist st) eff force newcap W0 B0) as (Uh & Ue & Um & Ub).
  rewrite Hd, Hh in Uh, Ue, Um.
  set (u := Mem.unpack cur h0 (p_hist st) eff force newcap) in *.
  set (o := Unpack.unpack (Subpkg.ps_hist vs) data) in *.
  destruct (Mem.parse_loop (u_heap u) (p_rec st) (u_msgs u)) as [[h2 r2] out] eqn:P.
  cbn [o_st o_msgs o_err p_heap p_hist p_rec] in *.
  assert (fr (p_heap st) (p_hist st) (u_heap u) (u_hist u)) as F01 by (eapply fr_trans; eauto).
  assert (rprot (length (u_heap u)) (u_hist u) (p_rec st)) as R1 by (eapply rprot_fr; eauto).
  assert (rall (lenok (u_heap u)) (p_rec st)) as L1 by (eapply rlen_fr; eauto).
  assert (rel_recs (u_heap u) (p_rec st) (Subpkg.ps_x vs)) as Rr1 by (eapply rel_fr; eauto).
  destruct (parse_loop_refines now (u_msgs u) (u_heap u) (u_hist u) (p_rec st) (Subpkg.ps_x vs) (Unpack.u_msgs o)
              W1 R1 L1 Rr1 Um) with (h2 := h2) (r2 := r2) (out := out) as (O2 & Rel2 & L2); auto.
  { intros m Hm. split; [auto|split; [auto|]]. apply vok_lenok; auto. }
  destruct (parse_loop_grows _ _ _ _ _ _ P) as [extra ->].
  assert (s_id (u_hist u) < length (u_heap u)) as Hid by apply W1.
  destruct (Subpkg.cp_loop now (Subpkg.ps_x vs) (Unpack.u_msgs o)) as [s1 outs]. cbn [fst snd] in *.
  split; [exact O2|]. split; [now rewrite Ue|]. split.
  - split; cbn [Subpkg.ps_hist Subpkg.ps_x p_heap p_hist p_rec]; auto.
    rewrite Uh. unfold deref. now rewrite cells_app_old.
  - split; [exact I'|]. cbn [p_heap p_hist p_rec]. split; [|split; auto].
    + destruct Ub as [Ub1 Ub2]. split; auto. now rewrite cells_app_old.
    + destruct Hx as [Hx1 Hx2]. destruct W0 as (W00 & _).
      rewrite cells_app_old by lia. rewrite Hx2 by exact W00.
      unfold h0. now rewrite cells_store_length.
Qed.

Theorem run_refines bufsz now reads : forall st vs, inv2 bufsz st -> rel st vs ->
  Forall (fun r => length (fst (fst r)) <= bufsz) reads ->
  run_mem bufsz st reads = run_core now vs (map (fun r => fst (fst r)) reads).
Proof.
  induction reads as [|[[d force] newcap] t IH]; intros st vs I R F; cbn [run_mem run_core map]; auto.
  inversion F as [|x l Hx Hl]; subst. cbn [fst] in Hx.
  destruct (step_refines bufsz now st vs d force newcap I R Hx) as (A & B & C & D).
  cbn [fst snd]. rewrite A, B. f_equal. now apply IH.
Qed.

Lemma rel_init bufsz : rel (init bufsz) Subpkg.pst0.
Proof. split; reflexivity. Qed.

Theorem run_refines_init bufsz now reads :
  Forall (fun r => length (fst (fst r)) <= bufsz) reads ->
  run_mem bufsz (init bufsz) reads = run_core now Subpkg.pst0 (map (fun r => fst (fst r)) reads).
Proof. intros F. apply run_refines; auto. apply inv2_init. apply rel_init. Qed.

(* parse_core is packageParse.parse while the housekeeping pass has nothing to do *)
Lemma parse_core_parse now vs d : Subpkg.fresh now (Subpkg.ps_x vs) -> Subpkg.parse now vs d = parse_core now vs d.
Proof.
  intros Fr. unfold Subpkg.parse, parse_core. rewrite (Subpkg_seg.delete_timeout_fresh _ _ Fr).
  pose proof (Subpkg_seg.fresh_cp_loop now (Unpack.u_msgs (Unpack.unpack (Subpkg.ps_hist vs) d)) _ Fr) as F1.
  destruct (Subpkg.cp_loop now (Subpkg.ps_x vs) _) as [s1 outs]. cbn [fst] in F1.
  rewrite (Subpkg_seg.housekeeping_fresh _ _ F1). cbn [map]. now rewrite app_nil_r.
Qed.

(* ================= replies ================= *)
Theorem reply_frame_stable bufsz evs k m : delivered_at cur bufsz evs k m ->
  forall j, S k <= j -> forall kd s rid ps,
  reply_frame_at (p_heap (state_at cur bufsz evs j)) m kd s rid ps =
  reply_frame_at (p_heap (state_at cur bufsz evs (S k))) m kd s rid ps.
Proof.
  intros D j Hj kd s rid ps. pose proof (stable _ _ _ _ D j Hj) as E.
  unfold content in E. injection E as E1 E2 E3. unfold reply_frame_at. now rewrite E2, E3.
Qed.

Theorem reply_frame_own bufsz evs k m : delivered_at cur bufsz evs k m -> m_sum (d_hdr m) = 0%N ->
  forall j, S k <= j -> forall kd s rid ps,
  reply_frame_at (p_heap (state_at cur bufsz evs j)) m kd s rid ps =
  match snd (Reply.reply_body kd s (d_hdr m)) with
  | Some b => Some (encode (d_hdr m) rid ps b)
  | None => None
  end.
Proof.
  intros D Hs j Hj kd s rid ps. destruct (delivered_ook _ _ _ _ D j Hj) as (O1 & _ & O3 & _).
  unfold reply_frame_at. now rewrite O1, (O3 Hs), set_body_same, with_bcd_same.
Qed.

(* C04, run level: connection.reader hands every read to packageParse.parse (Model/Subpkg.v: unpack, then the
   sub-package bookkeeping).  For a stream of valid frames whose fragment bit is clear, the loop of parse over ANY
   partition of the stream into reads (with any clock values) delivers exactly decode_ok of the frames, in order,
   as plain (not completed) messages, leaves the transfer table empty and the history empty - i.e. at the level the
   reader works on, segmentation independence holds for unfragmented traffic without any reference to unpack. *)
From JT.Base Require Import Prelude.
From JT.Model Require Import Frame Unpack Subpkg.
From JT.Proofs Require Import Unpack_proofs Subpkg_seg.

(* the loop of connection.reader over its reads: (clock, bytes) pairs; stops at the first error like the reader *)
Fixpoint parse_run (st : pst) (reads : list (N * list N)) (acc : list pmsg) : pst * list pmsg * option N :=
  match reads with
  | [] => (st, acc, None)
  | (now, d) :: rs =>
      match parse now st d with
      | (st', outs, Some e) => (st', acc ++ outs, Some e)
      | (st', outs, None) => parse_run st' rs (acc ++ outs)
      end
  end.

Definition plain (rm : list N * msg) : pmsg := {| p_raw := fst rm; p_msg := snd rm; p_complete := false |}.

Lemma run_unpack_acc_incl : forall cs h acc, incl acc (u_msgs (run_unpack h cs acc)).
Proof.
  induction cs as [|c cs IH]; intros h acc; cbn [run_unpack].
  - cbn. apply incl_refl.
  - destruct (u_err (unpack h c)) as [e|].
    + cbn. apply incl_appl, incl_refl.
    + eapply incl_tran; [|apply IH]. apply incl_appl, incl_refl.
Qed.

(* parse over a run = unpack over the run, whenever everything the run extracts has package total 0 *)
Lemma parse_run_as_unpack : forall reads st acc0, ps_x st = [] ->
  let o := run_unpack (ps_hist st) (map snd reads) acc0 in
  Forall (fun rm => m_sum (snd rm) = 0) (u_msgs o) ->
  parse_run st reads (map plain acc0) = ({| ps_hist := u_hist o; ps_x := [] |}, map plain (u_msgs o), u_err o).
Proof.
  induction reads as [|[now d] rs IH]; intros st acc0 Hx o Hall; subst o.
  - cbn. destruct st as [h x]. cbn in Hx. subst x. reflexivity.
  - cbn [map snd run_unpack parse_run] in *.
    assert (H1 : Forall (fun rm => m_sum (snd rm) = 0) (u_msgs (unpack (ps_hist st) d))).
    { apply Forall_forall. intros rm Hin. rewrite Forall_forall in Hall. apply Hall.
      destruct (u_err (unpack (ps_hist st) d)) as [e|].
      - cbn. apply in_or_app. now right.
      - apply (run_unpack_acc_incl (map snd rs) _ (acc0 ++ u_msgs (unpack (ps_hist st) d))). apply in_or_app. now right. }
    rewrite (parse_unfragmented now st d Hx H1).
    destruct (u_err (unpack (ps_hist st) d)) as [e|] eqn:E.
    + cbn. now rewrite map_app.
    + rewrite <- map_app. apply (IH {| ps_hist := u_hist (unpack (ps_hist st) d); ps_x := [] |}); [reflexivity|exact Hall].
Qed.

(* for valid frames with the fragment bit clear, cut into reads in any way and read at any times *)
Theorem parse_run_segmentation : forall fs reads, Forall vframe fs ->
  Forall (fun f => m_frag (snd (decode_ok f)) = 0) fs -> concat (map snd reads) = concat fs ->
  parse_run pst0 reads [] = (pst0, map plain (map decode_ok fs), None).
Proof.
  intros fs reads Hv Hf Hc.
  pose proof (segmentation fs (map snd reads) Hv Hc) as Hs.
  pose proof (parse_run_as_unpack reads pst0 [] eq_refl) as Hp. cbn [ps_hist pst0 map] in Hp.
  rewrite Hs in Hp. cbn [u_hist u_msgs u_err] in Hp. apply Hp.
  apply Forall_forall. intros rm Hin. apply in_map_iff in Hin. destruct Hin as (f & <- & Hin).
  rewrite Forall_forall in Hv, Hf. destruct (Hv f Hin) as (mid & m & _ & _ & _ & Hd).
  specialize (Hf f Hin). unfold decode_ok in *. rewrite Hd in *. cbn in *.
  exact (decode_unfragmented_sum f m Hd Hf).
Qed.

(* Proofs about Model/Total_codec.v: the frame decoder and the RTP packet decoder on an arbitrary
   previous receiver: no panic, and the result is the one of a fresh receiver. *)
From JT.Base Require Import Prelude PreludeP.
From JT.Model Require Import Frame Jt1078 Total_codec.
From JT.Proofs Require Import Frame_proofs Jt1078_proofs.
From Coq Require Import ZArith ZifyN ZifyNat ZifyBool.
Local Open Scope N_scope.

Theorem frame_total r d : frame_decode r d <> Panic.
Proof. unfold frame_decode. apply decode_chk_total. Qed.

Theorem frame_history r d : frame_decode r d = frame_decode empty_msg d.
Proof. reflexivity. Qed.

(* Packet.Decode reads exactly four members of the previous receiver (Model/Jt1078.v): the
   videoFrame flag, Timestamp and the two intervals; two receivers that agree on them decode alike *)
Lemma decode_same_state r1 r2 d :
  k_video r1 = k_video r2 -> k_ts r1 = k_ts r2 -> k_ifi r1 = k_ifi r2 -> k_fi r1 = k_fi r2 ->
  decode r1 d = decode r2 d.
Proof.
  intros Hv Ht Hi Hf. unfold decode, decode_head.
  do 16 (destruct d as [|? d]; [reflexivity|]).
  try rewrite Hv; try rewrite Ht; try rewrite Hi; try rewrite Hf.
  repeat match goal with
  | |- context [if ?c then _ else _] => destruct c; cbn [bind]; try reflexivity
  | |- context [take ?n ?l] => destruct (take n l) as [[? ?]| |]; cbn [bind]; try reflexivity
  end.
Qed.

(* decodeHead clears exactly those four *)
Theorem rtp_history r d : rtp_decode r d = rtp_decode fresh_pkt d.
Proof. unfold rtp_decode. apply decode_same_state; reflexivity. Qed.

Lemma rtp_fresh d : rtp_decode fresh_pkt d = decode fresh_pkt d.
Proof. unfold rtp_decode. apply decode_same_state; reflexivity. Qed.

Theorem rtp_total r d : rtp_decode r d <> Panic.
Proof. rewrite rtp_history, rtp_fresh. apply total_fresh. Qed.

(* Proofs about Model/Writer.v (C12, C13): invariants of every schedule. *)
From Coq Require Import List NArith Bool Arith Lia.
From JT.Base Require Import Sched.
From JT.Model Require Import Writer.
Import ListNotations.
Open Scope N_scope.

Arguments next_serial : simpl never.

(* ------------------------------------------------------------------------------------------ *)
(* Taking a step apart                                                                         *)
(* ------------------------------------------------------------------------------------------ *)

(* destruct an innermost discriminee of a match in H *)
Ltac break_match_hyp H :=
  match type of H with
  | context [match ?x with _ => _ end] =>
      lazymatch x with
      | context [match _ with _ => _ end] => fail
      | _ => let E := fresh "E" in destruct x eqn:E
      end
  end.

(* all the ways in which [H : step s c = Some (s', o)] can hold, with s' and o substituted *)
Ltac step_inv H :=
  unfold step, step_mgr, step_rdclose, step_wact, step_wmsg, step_wcpl, step_wreis, step_wstop, step_wdrain,
         complete, default_reply, write_possible, ch_send, ch_recv, ch_close in H;
  repeat (break_match_hyp H; try discriminate H);
  try (injection H as <- <-).

Ltac rw_proj s :=
  repeat match goal with
         | E : rd s = _ |- _ => rewrite E in *; clear E
         | E : wr s = _ |- _ => rewrite E in *; clear E
         | E : mgrQ s = _ |- _ => rewrite E in *; clear E
         | E : inQ s = _ |- _ => rewrite E in *; clear E
         | E : stop_closed s = _ |- _ => rewrite E in *; clear E
         | E : registered s = _ |- _ => rewrite E in *; clear E
         | E : joined s = _ |- _ => rewrite E in *; clear E
         | E : peer_closed s = _ |- _ => rewrite E in *; clear E
         | E : conn_closed s = _ |- _ => rewrite E in *; clear E
         | E : closed (_ s) = _ |- _ => rewrite E in *; clear E
         | E : buf (_ s) = _ |- _ => rewrite E in *; clear E
         end.

Definition phase (r : rstate) : nat :=
  match r with
  | RRun | RJoinWait _ | RPush _ | RPushR | RLeaveWait => 0
  | RClose1 => 1 | RClose2 => 2 | RClose3 => 3 | RClose4 => 4 | RDone => 5
  end%nat.


(* ------------------------------------------------------------------------------------------ *)
(* The record map                                                                              *)
(* ------------------------------------------------------------------------------------------ *)
Lemma in_keys_del : forall k k' l, In k' (map fst (del k l)) <-> k' <> k /\ In k' (map fst l).
Proof.
  intros k k' l; induction l as [|[a c] t IH]; simpl.
  - tauto.
  - destruct (N.eqb_spec a k) as [->|Hne]; simpl; rewrite IH; intuition congruence.
Qed.

Lemma nodup_keys_del : forall k l, NoDup (map fst l) -> NoDup (map fst (del k l)).
Proof.
  intros k l; induction l as [|[a c] t IH]; simpl; intros H.
  - constructor.
  - inversion H as [|? ? Hn Ht]; subst.
    destruct (N.eqb_spec a k) as [->|Hne]; simpl; auto.
    constructor; auto. rewrite in_keys_del; tauto.
Qed.

Lemma nodup_keys_put : forall k c l, NoDup (map fst l) -> NoDup (map fst ((k, c) :: del k l)).
Proof.
  intros k c l H; simpl; constructor.
  - rewrite in_keys_del; tauto.
  - now apply nodup_keys_del.
Qed.

Lemma lookup_in : forall k c l, lookup k l = Some c -> In (k, c) l.
Proof.
  intros k c l; induction l as [|[a d] t IH]; simpl; intros H; try discriminate.
  destruct (N.eqb_spec a k) as [->|Hne]; [injection H as ->; auto | auto].
Qed.

Lemma lookup_none : forall k l, lookup k l = None <-> existsb (fun p : N * call => fst p =? k) l = false.
Proof.
  intros k l; induction l as [|[a d] t IH]; simpl; [tauto|].
  destruct (a =? k); simpl; [split; discriminate | exact IH].
Qed.

Lemma in_lookup : forall k c l, NoDup (map fst l) -> In (k, c) l -> lookup k l = Some c.
Proof.
  intros k c l; induction l as [|[a d] t IH]; simpl; intros Hn Hi; [tauto|].
  inversion Hn as [|? ? Hna Hnt]; subst.
  destruct Hi as [Hi|Hi].
  - injection Hi as -> ->. now rewrite N.eqb_refl.
  - destruct (N.eqb_spec a k) as [->|Hne]; auto.
    exfalso; apply Hna. change k with (fst (k, c)). now apply in_map.
Qed.

Lemma del_absent : forall k l, lookup k l = None -> del k l = l.
Proof.
  intros k l; induction l as [|[a d] t IH]; simpl; intros H; auto.
  destruct (a =? k); simpl; [discriminate | now rewrite IH].
Qed.

Lemma in_del : forall k p l, In p (del k l) <-> In p l /\ fst p <> k.
Proof.
  intros k p l; unfold del; rewrite filter_In.
  destruct (N.eqb_spec (fst p) k); simpl; intuition congruence.
Qed.

Lemma lookup_del_same : forall k l, lookup k (del k l) = None.
Proof.
  intros k l; induction l as [|[a d] t IH]; simpl; auto.
  destruct (N.eqb_spec a k) as [->|Hne]; simpl; auto.
  destruct (N.eqb_spec a k); [contradiction | auto].
Qed.

Lemma lookup_del_other : forall k k' l, k' <> k -> lookup k' (del k l) = lookup k' l.
Proof.
  intros k k' l Hne; induction l as [|[a d] t IH]; simpl; auto.
  destruct (N.eqb_spec a k) as [->|Hak]; simpl.
  - destruct (N.eqb_spec k k'); [congruence | auto].
  - now rewrite IH.
Qed.

Lemma lookup_put_same : forall k c l, lookup k ((k, c) :: l) = Some c.
Proof. intros; simpl; now rewrite N.eqb_refl. Qed.

(* counting call ids *)
Fixpoint cnt (i : nat) (l : list nat) : nat :=
  match l with [] => 0 | x :: t => (if Nat.eqb x i then 1 else 0) + cnt i t end%nat.

Lemma cnt_app : forall i a b, cnt i (a ++ b) = (cnt i a + cnt i b)%nat.
Proof. induction a as [|x a IH]; intros b; simpl; [auto | rewrite IH; lia]. Qed.

Notation ids l := (map (fun p : N * call => c_id (snd p)) l).

Lemma cnt_del : forall i k c l, NoDup (map fst l) -> lookup k l = Some c ->
  cnt i (ids l) = ((if Nat.eqb (c_id c) i then 1 else 0) + cnt i (ids (del k l)))%nat.
Proof.
  intros i k c l; induction l as [|[a d] t IH]; simpl; intros Hn H; [discriminate|].
  inversion Hn as [|? ? Hna Hnt]; subst.
  destruct (N.eqb_spec a k) as [->|Hne]; simpl.
  - injection H as ->. rewrite del_absent; auto.
    destruct (lookup k t) eqn:E; auto. apply lookup_in in E. exfalso; apply Hna.
    change k with (fst (k, c0)); now apply in_map.
  - rewrite (IH Hnt H). lia.
Qed.

Lemma cnt_nodup : forall l, (forall i, cnt i l <= 1)%nat -> NoDup l.
Proof.
  induction l as [|x t IH]; intros H; constructor.
  - intros Hin. specialize (H x). simpl in H. rewrite Nat.eqb_refl in H.
    assert (1 <= cnt x t)%nat; [|lia].
    clear -Hin. induction t as [|y t IH]; simpl in *; [tauto|].
    destruct Hin as [->|Hin]; [rewrite Nat.eqb_refl; lia | specialize (IH Hin); lia].
  - apply IH. intros i. specialize (H i). simpl in H. lia.
Qed.

Lemma cnt_in : forall i l, In i l <-> (1 <= cnt i l)%nat.
Proof.
  intros i l; induction l as [|y t IH]; simpl; [split; [tauto | lia]|].
  destruct (Nat.eqb_spec y i); split; intros; try lia; auto.
  - destruct H; [contradiction | apply IH in H; lia].
  - right; apply IH; lia.
Qed.

(* traces *)
Lemma returns_app : forall a b, returns (a ++ b) = returns a ++ returns b.
Proof. induction a as [|x a IH]; intros b; simpl; auto. destruct x; simpl; now rewrite ?IH. Qed.
Lemma returned_app : forall a b, returned (a ++ b) = returned a ++ returned b.
Proof. intros; unfold returned; now rewrite returns_app, map_app. Qed.
Lemma returned_stop : forall l, returned (map (fun p : N * call => OReturn (c_id (snd p)) RNoExist) l) = ids l.
Proof. induction l as [|x l IH]; simpl; auto. unfold returned in *; simpl; now rewrite IH. Qed.
Lemma route_ids_app : forall a b, route_ids (a ++ b) = route_ids a ++ route_ids b.
Proof. induction a as [|[c| |] a IH]; intros b; simpl; now rewrite ?IH. Qed.

(* ------------------------------------------------------------------------------------------ *)
(* Invariant A: order of the teardown, channels, handshakes with the manager                   *)
(* ------------------------------------------------------------------------------------------ *)
Record invA (s : st) : Prop := {
  a_cpl_open : closed (cplQ s) = false;
  a_reg : registered s = true -> phase (rd s) = 0%nat /\ joined s = true;
  a_stop : stop_closed s = true <-> (2 <= phase (rd s))%nat;
  a_msg : closed (msgQ s) = true <-> (3 <= phase (rd s))%nat;
  a_act : closed (actQ s) = true <-> (4 <= phase (rd s))%nat;
  a_reis : closed (reisQ s) = true <-> (5 <= phase (rd s))%nat;
  a_wr : wr s <> WsRun -> stop_closed s = true /\ rec s = [];
  a_exit : wr s = WsExit -> buf (actQ s) = [];
  a_wait : match rd s with
           | RJoinWait _ => In MJoin (mgrQ s) /\ joined s = false
           | RLeaveWait => In MLeave (mgrQ s)
           | _ => True
           end;
  a_caps : cap (msgQ s) = cap_msg /\ cap (actQ s) = cap_act /\ cap (cplQ s) = cap_cpl /\ cap (reisQ s) = cap_reis;
  a_keys : NoDup (map fst (rec s))
}.

Lemma invA_init : forall s0, invA (init s0).
Proof.
  intros s0; constructor; simpl; try tauto; try (split; intros; try discriminate; lia);
    try (intros; discriminate); auto.
  all: try (intros H; exfalso; apply H; reflexivity).
  all: try constructor.
Qed.

Lemma in_app_single : forall (A : Type) (x y : A) l, In x (l ++ [y]) <-> In x l \/ x = y.
Proof. intros; rewrite in_app_iff; simpl; intuition. Qed.

Ltac invA_fields HA :=
  let H1 := fresh "Hcpl" in let H2 := fresh "Hreg" in let H3 := fresh "Hstop" in
  let H4 := fresh "Hmsg" in let H5 := fresh "Hact" in let H5r := fresh "Hreis" in let H6 := fresh "Hwr" in
  let H7 := fresh "Hexit" in let H8 := fresh "Hwait" in
  let H10 := fresh "Hcaps" in let H11 := fresh "Hkeys" in
  destruct HA as [H1 H2 H3 H4 H5 H5r H6 H7 H8 H10 H11].

Ltac sproj :=
  cbn [seq rec inQ peer_closed rd joined registered mgrQ msgQ actQ cplQ reisQ stop_closed conn_closed wr timers ncalls
       set_seq set_rec set_inQ set_peer_closed set_rd set_joined set_registered set_mgrQ set_msgQ set_actQ
       set_cplQ set_reisQ set_stop_closed set_conn_closed set_wr set_timers set_ncalls buf cap closed fst snd] in *.

Ltac nodup_keys :=
  sproj; rewrite ?N.eqb_refl; cbn [negb]; repeat first [ assumption | apply NoDup_nil | apply nodup_keys_del | apply nodup_keys_put ].

Ltac fin :=
  simpl in *; rewrite ?in_app_single in *;
  repeat split; intros; try discriminate; try congruence; try lia; try tauto;
  try solve [intuition (try discriminate; try congruence; try lia)];
  try solve [match goal with H : ?g <-> _ |- ?g => apply H; lia end];
  try solve [match goal with |- context [match rd ?s with _ => _ end] =>
               destruct (rd s); simpl in *; rewrite ?in_app_single in *;
               intuition (try discriminate; try congruence) end].

Lemma invA_step : forall s c s' o, invA s -> step s c = Some (s', o) -> invA s'.
Proof.
  intros s c s' o HA H.
  destruct c; step_inv H; invA_fields HA;
    constructor; try solve [nodup_keys]; simpl; rw_proj s; fin.
Qed.

(* no step from a state satisfying A crashes *)
Lemma step_no_crash : forall s c s' o, invA s -> step s c = Some (s', o) -> ~ In OCrash o.
Proof.
  intros s c s' o HA H.
  destruct c; step_inv H; invA_fields HA; simpl; rw_proj s; fin.
  rewrite in_map_iff; intros [x [Hx _]]; discriminate.
Qed.

(* ------------------------------------------------------------------------------------------ *)
(* Invariant C: every call is at exactly one place                                             *)
(* ------------------------------------------------------------------------------------------ *)
Definition locC (s : st) (tr : list obs) : Prop :=
  forall i, (cnt i (pending_ids s) + cnt i (returned tr) = if Nat.ltb i (ncalls s) then 1 else 0)%nat.

Lemma busy_false : forall k s, busy k s = false ->
  lookup k (rec s) = None /\ existsb (fun t : nat * N => snd t =? k) (timers s) = false
  /\ existsb (fun p : N * nat => fst p =? k) (buf (cplQ s)) = false.
Proof.
  unfold busy; intros k s H.
  apply orb_false_iff in H; destruct H as [H H3]. apply orb_false_iff in H; destruct H as [H1 H2].
  rewrite lookup_none; auto.
Qed.

Ltac cnt_norm :=
  unfold pending_ids in *; sproj;
  rewrite ?returned_app, ?route_ids_app, ?map_app, ?cnt_app, ?returned_stop in *;
  cbn [route_ids returned returns map fst snd cnt app c_id] in *;
  rewrite ?cnt_app in *; cbn [cnt] in *.

Ltac cnt_fin :=
  repeat match goal with
         | |- context [Nat.eqb ?a ?b] => destruct (Nat.eqb_spec a b)
         | H : context [Nat.eqb ?a ?b] |- _ => destruct (Nat.eqb_spec a b)
         | |- context [Nat.ltb ?a ?b] => destruct (Nat.ltb_spec a b)
         | H : context [Nat.ltb ?a ?b] |- _ => destruct (Nat.ltb_spec a b)
         end; try lia.

(* facts about the record map that a step exposes *)
Ltac rec_norm :=
  rewrite ?N.eqb_refl in *; cbn [negb] in *; rewrite ?lookup_put_same in *;
  repeat match goal with
         | H : busy _ _ = false |- _ =>
             let H1 := fresh "Hb" in let H2 := fresh "Hbt" in let H3 := fresh "Hbc" in
             apply busy_false in H; destruct H as (H1 & H2 & H3)
         | H : Some _ = Some _ |- _ => injection H as H; try subst
         | H : lookup ?k ?l = None |- _ =>
             progress (rewrite ?(del_absent k l H) in * )
         end.

Lemma locC_step : forall s tr c s' o, invA s -> locC s tr -> step s c = Some (s', o) ->
  ~ In OReuse o -> locC s' (tr ++ o).
Proof.
  intros s tr c s' o HA HC H Hnr i. specialize (HC i).
  assert (Hnc := step_no_crash _ _ _ _ HA H).
  destruct c; step_inv H; try solve [exfalso; apply Hnc; simpl; tauto];
    try solve [exfalso; apply Hnr; simpl; tauto];
    rec_norm;
    cnt_norm; rw_proj s; cnt_norm; rec_norm;
    try match goal with
        | H : lookup ?k (rec s) = Some ?c |- _ => rewrite (cnt_del i k c (rec s) (a_keys _ HA) H) in HC
        end;
    try solve [cnt_fin]; try congruence.
Qed.

(* ------------------------------------------------------------------------------------------ *)
(* Every internal step decreases the measure                                                   *)
(* ------------------------------------------------------------------------------------------ *)
Lemma length_del : forall k l, (length (del k l) <= length l)%nat.
Proof. intros; unfold del; induction l as [|x l IH]; simpl; [lia|]. destruct (negb _); simpl; lia. Qed.

Lemma length_del_found : forall k c l, lookup k l = Some c -> (length (del k l) < length l)%nat.
Proof.
  intros k c l; induction l as [|[a d] t IH]; simpl; intros H; [discriminate|].
  destruct (a =? k); simpl.
  - pose proof (length_del k t). unfold del in *. lia.
  - specialize (IH H). unfold del in *. lia.
Qed.

Lemma length_del_timer : forall i k l, timer_of i l = Some k -> S (length (del_timer i l)) = length l.
Proof.
  intros i k l; induction l as [|[j x] t IH]; simpl; intros H; [discriminate|].
  destruct (Nat.eqb j i); simpl; auto.
Qed.

Lemma sumn_app : forall a b, sumn (a ++ b) = (sumn a + sumn b)%nat.
Proof. induction a as [|x a IH]; intros; simpl; [auto | rewrite IH; lia]. Qed.

Lemma sumn_cons : forall x l, sumn (x :: l) = (x + sumn l)%nat.
Proof. reflexivity. Qed.
Lemma sumn_nil : sumn [] = 0%nat.
Proof. reflexivity. Qed.

Lemma measure_step : forall s c s' o, internal c = true -> step s c = Some (s', o) ->
  (measure s' < measure s)%nat.
Proof.
  intros s c s' o Hi H.
  destruct c; try discriminate Hi; step_inv H; unfold measure; sproj; rw_proj s;
    rewrite ?map_app, ?sumn_app, ?app_length; cbn [map w_mop w_rd w_wr length app];
    rewrite ?sumn_cons, ?sumn_nil;
    rec_norm;
    repeat match goal with
           | H : lookup ?k ?l = Some _ |- _ => apply length_del_found in H
           | H : timer_of _ _ = Some _ |- _ => apply length_del_timer in H
           | |- context [length (del ?k ?l)] =>
               lazymatch goal with
               | _ : (length (del k l) <= length l)%nat |- _ => fail
               | _ => pose proof (length_del k l)
               end
           end;
    try lia.
  pose proof (length_del (seq s) (rec s)). lia.
Qed.

(* ------------------------------------------------------------------------------------------ *)
(* Invariant B: while the connection is up, every outstanding command with a timeout has a     *)
(* live timer or a queued timeout message carrying its serial                                  *)
(* ------------------------------------------------------------------------------------------ *)
Definition invB (s : st) : Prop :=
  stop_closed s = false ->
  forall k c, In (k, c) (rec s) -> c_tmo c = true ->
    (exists i, In (i, k) (timers s)) \/ (exists i, In (k, i) (buf (cplQ s))).

Lemma in_del_timer : forall i k0 j k l, timer_of i l = Some k0 -> In (j, k) l ->
  In (j, k) (del_timer i l) \/ (j = i /\ k = k0).
Proof.
  intros i k0 j k l; induction l as [|[a x] t IH]; simpl; intros H Hin; [tauto|].
  destruct (Nat.eqb_spec a i) as [->|Hne].
  - injection H as ->. destruct Hin as [Hin|Hin]; [injection Hin as -> ->; auto | auto].
  - destruct Hin as [Hin|Hin]; [left; left; auto | destruct (IH H Hin); simpl; auto].
Qed.

Lemma invB_step : forall s c s' o, invA s -> invB s -> step s c = Some (s', o) -> invB s'.
Proof.
  intros s c s' o HA HB H.
  destruct c; step_inv H; unfold invB in *; sproj; intros Hs k0 c1 Hin Ht;
    try discriminate Hs; rec_norm;
    repeat match goal with
           | H : In _ (del _ _) |- _ => apply in_del in H; destruct H as [H ?]
           | H : In _ (_ :: _) |- _ => destruct H as [H|H]; [injection H as <- <-|]
           end;
    try solve [eauto using in_cons, in_eq];
    try (specialize (HB Hs _ _ Hin Ht));
    try solve [simpl in *; congruence];
    try solve [destruct HB as [[i' Hi']|[i' Hi']]; [left; exists i'; simpl; auto | right; exists i'; auto]].
  - (* WCpl, entry found *)
    destruct HB as [HB|[i' Hi']]; auto. rewrite E0 in Hi'. destruct Hi' as [Hi'|Hi']; eauto.
    injection Hi' as -> ->. simpl in H; congruence.
  - (* WCpl, no entry *)
    destruct HB as [HB|[i' Hi']]; auto. rewrite E0 in Hi'. destruct Hi' as [Hi'|Hi']; eauto.
    injection Hi' as -> ->. apply (in_lookup _ _ _ (a_keys _ HA)) in Hin. congruence.
  - (* TSend, crash: impossible *)
    exfalso. pose proof (a_cpl_open _ HA). congruence.
  - (* TSend *)
    destruct HB as [[i' Hi']|[i' Hi']].
    + destruct (in_del_timer _ _ _ _ _ E Hi') as [Hd|[-> ->]]; [left; eauto|].
      right; exists i. rewrite in_app_single; auto.
    + right; exists i'. rewrite in_app_single; auto.
Qed.

(* ------------------------------------------------------------------------------------------ *)
(* What is enabled when: the quiescent states                                                  *)
(* ------------------------------------------------------------------------------------------ *)
Lemma write_possible_some : forall s, exists wok, write_possible s wok = true.
Proof.
  intros s. destruct (conn_closed s) eqn:E.
  - exists false. unfold write_possible. rewrite E. apply orb_true_r.
  - exists true. unfold write_possible. now rewrite E.
Qed.

Lemma wact_enabled : forall s c l, wr s = WsRun -> buf (actQ s) = c :: l ->
  exists wok, step s (WAct wok) <> None.
Proof.
  intros s c l Hw Hb. destruct (write_possible_some s) as [wok Hp]. exists wok.
  simpl. unfold step_wact, ch_recv. rewrite Hw, Hb, Hp.
  destruct wok; [discriminate|]. destruct (complete _ _ _); discriminate.
Qed.

Lemma exists_9003 : forall l, existsb (fun p : N * call => is_9003 (snd p)) l = true ->
  exists k c, In (k, c) l /\ is_9003 c = true.
Proof.
  intros l H. apply existsb_exists in H. destruct H as [[k c] [Hin H]]. eauto.
Qed.

Lemma wmsg_enabled : forall s m l, invA s -> wr s = WsRun -> buf (msgQ s) = m :: l ->
  exists pick wok, step s (WMsg pick wok) <> None.
Proof.
  intros s m l HA Hw Hb. destruct (write_possible_some s) as [wok Hp].
  destruct m as [typ e|typ| |tag has| |].
  - exists 0, wok. simpl. unfold step_wmsg, ch_recv. rewrite Hw, Hb, Hp.
    destruct (complete _ _ _); discriminate.
  - exists 0, wok. simpl. unfold step_wmsg, ch_recv. rewrite Hw, Hb, Hp. discriminate.
  - destruct (existsb (fun p : N * call => is_9003 (snd p)) (rec s)) eqn:E.
    + destruct (exists_9003 _ E) as (k & c & Hin & H9).
      apply (in_lookup _ _ _ (a_keys _ HA)) in Hin.
      exists k, wok. simpl. unfold step_wmsg, ch_recv. rewrite Hw, Hb, Hp, E, Hin, H9.
      destruct (complete _ _ _); discriminate.
    + exists 0, wok. simpl. unfold step_wmsg, ch_recv. rewrite Hw, Hb, Hp, E.
      destruct (default_reply _ _ _ _); discriminate.
  - exists 0, wok. simpl. unfold step_wmsg, ch_recv. rewrite Hw, Hb, Hp.
    destruct (default_reply _ _ _ _); discriminate.
  - exists 0, wok. simpl. unfold step_wmsg, ch_recv. rewrite Hw, Hb, Hp. discriminate.
  - exists 0, wok. simpl. unfold step_wmsg, ch_recv. rewrite Hw, Hb, Hp. discriminate.
Qed.

Lemma timer_of_in : forall i k l, In (i, k) l -> exists k', timer_of i l = Some k'.
Proof.
  intros i k l; induction l as [|[j x] t IH]; simpl; intros H; [tauto|].
  destruct (Nat.eqb_spec j i); eauto.
  destruct H as [H|H]; [injection H as -> ->; contradiction | auto].
Qed.

Lemma quiescent_actQ : forall s, invA s -> quiescent s -> buf (actQ s) = [].
Proof.
  intros s HA Q. destruct (buf (actQ s)) as [|c l] eqn:Eb; auto. exfalso.
  destruct (wr s) eqn:Ew.
  - destruct (wact_enabled s c l Ew Eb) as [wok H]. apply H, Q; reflexivity.
  - assert (H : step s WDrain = None) by (apply Q; reflexivity).
    simpl in H. unfold step_wdrain, ch_recv in H. rewrite Ew, Eb in H. discriminate.
  - rewrite (a_exit _ HA Ew) in Eb. discriminate.
Qed.

Lemma quiescent_mgrQ : forall s, invA s -> quiescent s -> mgrQ s = [].
Proof.
  intros s HA Q. pose proof (quiescent_actQ s HA Q) as Ha.
  assert (H : step s (MgrStep JOk) = None) by (apply Q; reflexivity).
  simpl in H. unfold step_mgr, ch_send in H.
  destruct (mgrQ s) as [|[c| |] q]; auto; exfalso.
  - destruct (registered s); [|discriminate].
    destruct (closed (actQ s)); [discriminate|].
    rewrite Ha in H. destruct (a_caps _ HA) as (_ & Hc & _ & _). rewrite Hc in H. discriminate.
  - destruct (rd s); discriminate.
  - destruct (rd s); discriminate.
Qed.

(* a quiescent state in which the connection has not been torn down: everybody is idle, all queues are empty *)
Lemma quiescent_up : forall s, invA s -> quiescent s -> stop_closed s = false ->
  rd s = RRun /\ wr s = WsRun /\ inQ s = [] /\ buf (msgQ s) = [] /\ buf (cplQ s) = [].
Proof.
  intros s HA Q Es.
  assert (Ew : wr s = WsRun).
  { destruct (wr s) eqn:E; auto; destruct (a_wr _ HA) as [Hc _]; congruence. }
  assert (Emsg : buf (msgQ s) = []).
  { destruct (buf (msgQ s)) as [|m' l] eqn:Eb; auto. exfalso.
    destruct (wmsg_enabled s m' l HA Ew Eb) as (pick & wok & Hn). apply Hn, Q; reflexivity. }
  assert (Ecpl : buf (cplQ s) = []).
  { destruct (buf (cplQ s)) as [|[k' j] l] eqn:E; auto. exfalso.
    assert (H : step s WCpl = None) by (apply Q; reflexivity).
    simpl in H. unfold step_wcpl, ch_recv in H. rewrite Ew, E in H.
    destruct (complete _ _ _); discriminate. }
  assert (Ereis : buf (reisQ s) = []).
  { destruct (buf (reisQ s)) as [|m' l] eqn:Eb; auto. exfalso.
    destruct (write_possible_some s) as [wok Hp].
    assert (H : step s (WReis wok) = None) by (apply Q; reflexivity).
    simpl in H. unfold step_wreis, ch_recv in H. rewrite Ew, Eb, Hp in H. discriminate. }
  assert (Er : rd s = RRun).
  { pose proof (quiescent_mgrQ s HA Q) as Hm.
    pose proof (a_wait _ HA) as Hwt. pose proof (a_stop _ HA) as Hst.
    assert (Hcl : step s RdClose = None) by (apply Q; reflexivity).
    assert (Hpu : step s RdPush = None) by (apply Q; reflexivity).
    simpl in Hcl, Hpu. unfold step_rdclose in Hcl. unfold ch_send in Hpu.
    destruct (a_caps _ HA) as (Hc1 & _ & _ & Hc4).
    destruct (rd s) eqn:Er; auto; exfalso; simpl in *.
    - rewrite Hm in Hwt; destruct Hwt as [[] _].
    - destruct (closed (msgQ s)) eqn:Ec; [discriminate|].
      rewrite Emsg, Hc1 in Hpu. discriminate.
    - destruct (closed (reisQ s)) eqn:Ec; [discriminate|].
      rewrite Ereis, Hc4 in Hpu. discriminate.
    - rewrite Hm in Hwt; destruct Hwt.
    - destruct (stop_closed s); discriminate.
    - destruct (ch_close _); discriminate.
    - destruct (ch_close _); discriminate.
    - destruct (ch_close _); discriminate.
    - assert (stop_closed s = true) by (apply Hst; lia). congruence. }
  repeat split; auto.
  destruct (inQ s) as [|m q] eqn:Ei; auto. exfalso.
  assert (H : step s RdRead = None) by (apply Q; reflexivity).
  simpl in H. rewrite Er, Ei in H. destruct m; try discriminate; destruct (joined s); discriminate.
Qed.

(* an outstanding command in a quiescent state: the connection is up and idle, the command has no timeout *)
Lemma quiescent_rec : forall s k c, invA s -> invB s -> quiescent s -> In (k, c) (rec s) ->
  c_tmo c = false /\ stop_closed s = false /\ rd s = RRun /\ wr s = WsRun.
Proof.
  intros s k c HA HB Q Hin.
  assert (Ew : wr s = WsRun).
  { destruct (wr s) eqn:E; auto; destruct (a_wr _ HA) as [_ Hr]; try congruence;
      rewrite Hr in Hin; destruct Hin. }
  assert (Es : stop_closed s = false).
  { destruct (stop_closed s) eqn:E; auto. exfalso.
    assert (H : step s WStop = None) by (apply Q; reflexivity).
    simpl in H. unfold step_wstop in H. rewrite Ew, E in H. discriminate. }
  destruct (quiescent_up s HA Q Es) as (Er & _ & _ & _ & Ecpl).
  repeat split; auto.
  destruct (c_tmo c) eqn:E; auto. exfalso.
  destruct (HB Es _ _ Hin E) as [[i Hi]|[i Hi]]; [|rewrite Ecpl in Hi; destruct Hi].
  destruct (timer_of_in _ _ _ Hi) as [k' Hk'].
  assert (H : step s (TSend i) = None) by (apply Q; reflexivity).
  simpl in H. unfold ch_send in H. rewrite Hk', (a_cpl_open _ HA), Ecpl in H.
  destruct (a_caps _ HA) as (_ & _ & Hc & _). rewrite Hc in H. discriminate.
Qed.

(* ------------------------------------------------------------------------------------------ *)
(* Without any hypothesis on serial reuse: a call is at AT MOST one place (a reused serial loses  *)
(* a call, it never duplicates one)                                                              *)
(* ------------------------------------------------------------------------------------------ *)
Definition locLe (s : st) (tr : list obs) : Prop :=
  forall i, (cnt i (pending_ids s) + cnt i (returned tr) <= if Nat.ltb i (ncalls s) then 1 else 0)%nat.

Lemma cnt_del_le : forall i k l, (cnt i (ids (del k l)) <= cnt i (ids l))%nat.
Proof.
  intros i k l; induction l as [|[a d] t IH]; simpl; [lia|].
  destruct (negb (a =? k)); simpl; lia.
Qed.

Lemma locLe_step : forall s tr c s' o, invA s -> locLe s tr -> step s c = Some (s', o) -> locLe s' (tr ++ o).
Proof.
  intros s tr c s' o HA HC H i. specialize (HC i).
  assert (Hnc := step_no_crash _ _ _ _ HA H).
  destruct c; step_inv H; try solve [exfalso; apply Hnc; simpl; tauto];
    rewrite ?N.eqb_refl in *; cbn [negb] in *; rewrite ?lookup_put_same in *;
    repeat match goal with H : Some _ = Some _ |- _ => injection H as H; try subst end;
    cnt_norm; rw_proj s; cnt_norm;
    try match goal with
        | H : lookup ?k (rec s) = Some ?c |- _ => rewrite (cnt_del i k c (rec s) (a_keys _ HA) H) in HC
        end;
    repeat match goal with
           | |- context [cnt i (ids (del ?k (del ?k' ?l)))] =>
               lazymatch goal with
               | _ : (cnt i (ids (del k (del k' l))) <= _)%nat |- _ => fail
               | _ => pose proof (cnt_del_le i k (del k' l))
               end
           | |- context [cnt i (ids (del ?k ?l))] =>
               lazymatch goal with
               | _ : (cnt i (ids (del k l)) <= _)%nat |- _ => fail
               | _ => pose proof (cnt_del_le i k l)
               end
           end;
    try solve [cnt_fin]; try congruence.
  all: rewrite lookup_put_same in E3; injection E3 as <-;
    pose proof (cnt_del_le i (seq s) (rec s)); cnt_fin.
Qed.

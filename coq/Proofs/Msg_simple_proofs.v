(* C07 — round-trip laws of the message bodies of Model/Msg_simple.v, each obtained by composing the
   lemmas of Base/Fmt.v (tactic fmt_ok); only P0x8800 (two layouts) needs an argument of its own. *)
From JT.Base Require Import Prelude PreludeP Fmt.
From JT.Model Require Import Msg_simple.
From Coq Require Import ZArith ZifyN ZifyNat ZifyBool.
Ltac Zify.zify_post_hook ::= Z.div_mod_to_equations.

Lemma m_0001_ok : msg_ok m_0001. Proof. unfold m_0001. fmt_ok. Qed.
Lemma m_8001_ok : msg_ok m_8001. Proof. unfold m_8001. fmt_ok. Qed.
Lemma m_empty_ok : msg_ok m_empty. Proof. unfold m_empty. fmt_ok. Qed.
Lemma m_0800_ok : msg_ok m_0800. Proof. unfold m_0800. fmt_ok. Qed.
Lemma m_1003_ok : msg_ok m_1003. Proof. unfold m_1003. fmt_ok. Qed.
Lemma m_1005_ok : msg_ok m_1005. Proof. unfold m_1005. fmt_ok. Qed.
Lemma m_1206_ok : msg_ok m_1206. Proof. unfold m_1206. fmt_ok. Qed.
Lemma m_9207_ok : msg_ok m_9207. Proof. unfold m_9207. fmt_ok. Qed.
Lemma m_8801_ok : msg_ok m_8801. Proof. unfold m_8801. fmt_ok. Qed.
Lemma m_9102_ok : msg_ok m_9102. Proof. unfold m_9102. fmt_ok. Qed.
Lemma m_9105_ok : msg_ok m_9105. Proof. unfold m_9105. fmt_ok. Qed.
Lemma m_9202_ok : msg_ok m_9202. Proof. unfold m_9202. fmt_ok. Qed.
Lemma m_9205_ok : msg_ok m_9205. Proof. unfold m_9205. fmt_ok. Qed.

Lemma m_8003_ok : msg_ok m_8003. Proof. unfold m_8003. fmt_ok. Qed.
Lemma m_0805_ok : msg_ok m_0805. Proof. unfold m_0805. fmt_ok. Qed.

Lemma item_1205_len : has_len item_1205 28.
Proof.
  unfold item_1205. change 28 with (nsum [1; 6; 6; 8; 1; 1; 1; 4]). apply vstruct_len. unfold fields_len. fmt_len.
Qed.
Lemma item_1205_ok : fmt_ok item_1205. Proof. unfold item_1205. fmt_ok. Qed.
Lemma m_1205_ok : msg_ok m_1205.
Proof. unfold m_1205. fmt_ok. apply vrep_w_ok; [apply item_1205_ok | apply item_1205_len]. Qed.

Lemma m_8100_ok : msg_ok m_8100. Proof. unfold m_8100. fmt_ok. Qed.
Lemma m_1211_ok : msg_ok m_1211. Proof. unfold m_1211, fields_1211. fmt_ok. Qed.
Lemma m_1212_ok : msg_ok m_1212. Proof. unfold m_1212, fields_1211. fmt_ok. Qed.
Lemma m_9101_ok : msg_ok m_9101. Proof. unfold m_9101. fmt_ok. Qed.
Lemma m_9201_ok : msg_ok m_9201. Proof. unfold m_9201. fmt_ok. Qed.
Lemma m_9206_ok : msg_ok m_9206. Proof. unfold m_9206. fmt_ok. Qed.
Lemma m_9212_ok : msg_ok m_9212. Proof. unfold m_9212. fmt_ok. Qed.

Lemma m_0102_ok ver : msg_ok (m_0102 ver).
Proof. unfold m_0102. destruct (ver =? 3); fmt_ok. Qed.

Lemma alarm_sign_ok d : fmt_ok (alarm_sign d). Proof. unfold alarm_sign. fmt_ok. Qed.
Lemma alarm_sign_required_ok d : fmt_ok (alarm_sign_required d). Proof. unfold alarm_sign_required. fmt_ok. Qed.
Lemma m_9208_ok d : msg_ok (m_9208 d).
Proof. unfold m_9208. pose proof (alarm_sign_ok d). fmt_ok. Qed.
Lemma m_9208_required_ok d : msg_ok (m_9208_required d).
Proof. unfold m_9208_required. pose proof (alarm_sign_required_ok d). fmt_ok. Qed.
Lemma item_1210_ok : fmt_ok item_1210. Proof. unfold item_1210. fmt_ok. Qed.
Lemma m_1210_ok d : msg_ok (m_1210 d).
Proof. unfold m_1210. pose proof (alarm_sign_ok d). pose proof item_1210_ok. destruct (d =? 2); fmt_ok. Qed.

(* ---- P0x8800: the 4-byte form and the long form do not collide *)
Lemma m_8800_short_ok : msg_ok m_8800_short. Proof. unfold m_8800_short. fmt_ok. Qed.
Lemma m_8800_long_ok : msg_ok m_8800_long. Proof. unfold m_8800_long. fmt_ok. Qed.

Lemma m_8800_short_len v : m_wf m_8800_short v = true -> len (m_enc m_8800_short v) = 4.
Proof.
  intros H. change 4 with (nsum [4; 0; 0]). unfold m_8800_short in *.
  apply mk_msg_len; [unfold fields_len; fmt_len | reflexivity | exact H].
Qed.

Lemma selv_8800_false v : selv_8800 v = false -> exists a c x l, v = VL [a; c; VL (x :: l)].
Proof.
  intros H. destruct v as [a|b|vs]; try discriminate H.
  destruct vs as [|v0 vs]; try discriminate H. destruct vs as [|v1 vs]; try discriminate H.
  destruct vs as [|v2 vs]; try discriminate H.
  destruct v2 as [a2|b2|l2]; try (destruct vs; discriminate H).
  destruct l2 as [|x l2]; try (destruct vs; discriminate H).
  destruct vs as [|v3 vs]; try discriminate H. now exists v0, v1, x, l2.
Qed.

Lemma m_8800_ok : msg_ok m_8800.
Proof.
  unfold m_8800. apply msg_switch_ok; [apply m_8800_short_ok | apply m_8800_long_ok | |].
  - intros v _ H. unfold sel_8800. rewrite (m_8800_short_len v H). reflexivity.
  - intros v Hs H. unfold sel_8800. destruct (selv_8800_false v Hs) as (a & c & x & l & ->).
    cbn [m_wf m_8800_long mk_msg length firstn skipn ps_wf] in H.
    apply andb_true_iff in H. destruct H as [H _].
    apply andb_true_iff in H. destruct H as [Ha H]. apply andb_true_iff in H. destruct H as [Hc _].
    cbn [m_enc m_8800_long mk_msg length firstn skipn ps_enc].
    unfold vu32, vu8 in *. rewrite !len_app. rewrite (vN_len _ _ (ube_len 4) a Ha), (vN_len _ _ (ube_len 1) c Hc). lia.
Qed.

(* Proofs about Model/Total_strings.v: the index loop of T0x0704.String is the structural renderer of
   Model/Location.v and never fails; T0x0200AdditionDetails.String never fails on any map. *)
From JT.Base Require Import Prelude PreludeP.
From JT.Model Require Import Location Total_strings.
From JT.Proofs Require Import LocationStd Location_proofs.
From Coq Require Import ZArith ZifyN ZifyNat ZifyBool.
Local Open Scope N_scope.

Lemma items_render_loop_spec fuel : forall its i, i <= len its -> (N.to_nat (len its - i) <= fuel)%nat ->
  items_render_loop fuel its i = t0704_render (skipn (N.to_nat i) its).
Proof.
  induction fuel as [|f IH]; intros its i Hi Hf.
  - assert (i = len its) by lia. subst i. cbn [items_render_loop]. replace (len its <? len its) with false by lia.
    unfold len. rewrite Nat2N.id, skipn_all. reflexivity.
  - cbn [items_render_loop]. destruct (i <? len its) eqn:E.
    + destruct (nth_error its (N.to_nat i)) as [it|] eqn:En.
      * assert (S : skipn (N.to_nat i) its = it :: skipn (N.to_nat (i + 1)) its).
        { replace (N.to_nat (i + 1)) with (S (N.to_nat i)) by lia. revert En. generalize (N.to_nat i). clear.
          induction its as [|x its IHl]; intros [|n] En; cbn in En; try discriminate.
          - injection En as ->. reflexivity.
          - cbn [skipn]. now apply IHl. }
        rewrite S. cbn [t0704_render]. rewrite IH by lia. reflexivity.
      * apply nth_error_None in En. unfold len in E. lia.
    + assert (i = len its) by lia. subst i. unfold len. rewrite Nat2N.id, skipn_all. reflexivity.
Qed.

Theorem t0704_string_eq its : t0704_string its = t0704_render its.
Proof. unfold t0704_string. rewrite items_render_loop_spec. reflexivity. lia. unfold len. lia. Qed.

Theorem t0704_string_total its : t0704_string its <> Panic.
Proof. rewrite t0704_string_eq. apply t0704_render_total. Qed.

Theorem adds_string_total m : adds_string m <> Panic.
Proof.
  unfold adds_string. pose proof (aval_render_total (ext_status_of m)) as A. pose proof (aval_render_total (io_status_of m)) as B.
  destruct (aval_render (ext_status_of m)); cbn [bind]; try congruence.
  destruct (aval_render (io_status_of m)); cbn [bind]; congruence.
Qed.

(* Proofs about Model/HdrMem.v (C09: header cells).
   A: in EVERY variant the listed fields of a delivered header never change (no store touches them).
   B: in the current code (deep copies) every delivered message owns its header cell and its
      property word: a step changes what a holder reads only if it is the writer's answer to that
      very message. *)
From Coq Require Import Arith Lia.
From JT.Base Require Import Prelude GoSlice.
From JT.Model Require Import Frame Unpack Subpkg HdrMem.
Local Open Scope nat_scope.

(* ================= lists ================= *)
Lemma upd_len {A} (f : A -> A) l : forall n, length (upd n f l) = length l.
Proof. induction l as [|x l IH]; intros [|n]; cbn [upd length]; auto. Qed.

Lemma nth_upd_eq {A} (f : A -> A) (d : A) l : forall n, n < length l -> nth n (upd n f l) d = f (nth n l d).
Proof. induction l as [|x l IH]; intros [|n] H; cbn [upd nth length] in *; try lia; auto. apply IH. lia. Qed.

Lemma nth_upd_neq {A} (f : A -> A) (d : A) l : forall n k, n <> k -> nth k (upd n f l) d = nth k l d.
Proof. induction l as [|x l IH]; intros [|n] [|k] H; cbn [upd nth]; auto. congruence. Qed.

Lemma nth_upd_any {A} (f : A -> A) (d : A) (P : A -> Prop) l :
  (forall a, P (f a) <-> P a) -> forall n k, P (nth k (upd n f l) d) <-> P (nth k l d).
Proof.
  intros Hf. induction l as [|x l IH]; intros [|n] [|k]; cbn [upd nth]; try tauto. apply Hf. apply IH.
Qed.

(* ================= heap operations ================= *)
Definition lst (c : hcell) : N * N * N * N * list N := (hc_id c, hc_serial c, hc_sum c, hc_no c, hc_phone c).
Definition prop (h : hheap) (hp : nat) : nat := hc_prop (nth hp (hh_h h) hcell0).
Definition hok (h : hheap) : Prop := forall hp, hp < length (hh_h h) -> prop h hp < length (hh_p h).

(* h' extends h: cells are only added, the listed fields and the property pointer of an existing
   header never change *)
Definition hext (h h' : hheap) : Prop :=
  length (hh_h h) <= length (hh_h h') /\ length (hh_p h) <= length (hh_p h') /\
  forall hp, hp < length (hh_h h) ->
    lst (nth hp (hh_h h') hcell0) = lst (nth hp (hh_h h) hcell0) /\ prop h' hp = prop h hp.

Lemma hext_refl h : hext h h.
Proof. repeat split; auto. Qed.

Lemma hext_trans a b c : hext a b -> hext b c -> hext a c.
Proof.
  intros (A1 & A2 & A3) (B1 & B2 & B3). split; [lia|split; [lia|]]. intros hp H.
  destruct (A3 hp H) as [E1 E2]. destruct (B3 hp ltac:(lia)) as [F1 F2]. split; congruence.
Qed.

Lemma halloc_ext h m : hext h (fst (halloc h m)).
Proof.
  unfold halloc, hext. cbv zeta. cbn [fst hh_h hh_p]. split; [rewrite app_length; cbn; lia|split; [rewrite app_length; cbn; lia|]].
  intros hp H. unfold prop. cbn [hh_h]. rewrite app_nth1 by exact H. auto.
Qed.

Lemma halloc_ok h m : hok h -> hok (fst (halloc h m)) /\ snd (halloc h m) = length (hh_h h) /\
  length (hh_h (fst (halloc h m))) = S (length (hh_h h)) /\ length (hh_p (fst (halloc h m))) = S (length (hh_p h)) /\
  prop (fst (halloc h m)) (length (hh_h h)) = length (hh_p h).
Proof.
  intros H. unfold halloc. cbv zeta. cbn [fst snd hh_h hh_p]. rewrite !app_length. cbn [length].
  split; [|repeat split; try lia].
  - intros hp Hp. unfold prop. cbn [hh_h hh_p] in *. rewrite app_length in *. cbn [length] in *.
    destruct (Nat.eq_dec hp (length (hh_h h))) as [->|E].
    + rewrite app_nth2, Nat.sub_diag by lia. cbn [nth hc_prop]. lia.
    + rewrite app_nth1 by lia. specialize (H hp ltac:(lia)). unfold prop in H. lia.
  - unfold prop. cbn [hh_h]. rewrite app_nth2, Nat.sub_diag by lia. reflexivity.
Qed.

Lemma hcopy_ext k h hp : hext h (fst (hcopy k h hp)).
Proof.
  destruct k; unfold hcopy, hext; cbv zeta; cbn [fst hh_h hh_p].
  - repeat split; auto.
  - split; [rewrite app_length; cbn; lia|split; [lia|]]. intros x H. unfold prop. cbn [hh_h]. rewrite app_nth1 by exact H. auto.
  - split; [rewrite app_length; cbn; lia|split; [rewrite app_length; cbn; lia|]].
    intros x H. unfold prop. cbn [hh_h]. rewrite app_nth1 by exact H. auto.
Qed.

Lemma store_reply_ext h hp rid ps blen : hext h (store_reply h hp rid ps blen) /\
  length (hh_h (store_reply h hp rid ps blen)) = length (hh_h h) /\
  length (hh_p (store_reply h hp rid ps blen)) = length (hh_p h) /\
  forall x, lst (nth x (hh_h (store_reply h hp rid ps blen)) hcell0) = lst (nth x (hh_h h) hcell0) /\
            prop (store_reply h hp rid ps blen) x = prop h x.
Proof.
  assert (forall x, lst (nth x (hh_h (store_reply h hp rid ps blen)) hcell0) = lst (nth x (hh_h h) hcell0) /\
                    prop (store_reply h hp rid ps blen) x = prop h x) as Hx.
  { intros x. unfold store_reply, prop. cbn [hh_h].
    destruct (Nat.eq_dec hp x) as [<-|E].
    - destruct (Nat.lt_ge_cases hp (length (hh_h h))) as [L|L].
      + rewrite nth_upd_eq by exact L. auto.
      + assert (forall l : list hcell, length l <= hp -> upd hp (set_reply rid ps) l = l) as Hn.
        { clear. intros l. revert hp. induction l as [|a l IH]; intros [|n] H; cbn [upd length] in *; auto; try lia.
          f_equal. apply IH. lia. }
        rewrite Hn by exact L. auto.
    - rewrite nth_upd_neq by exact E. auto. }
  assert (length (hh_h (store_reply h hp rid ps blen)) = length (hh_h h)) as L1
    by (unfold store_reply; cbn [hh_h]; apply upd_len).
  assert (length (hh_p (store_reply h hp rid ps blen)) = length (hh_p h)) as L2
    by (unfold store_reply; cbn [hh_p]; apply upd_len).
  split; [|split; [exact L1|split; [exact L2|exact Hx]]].
  split; [lia|split; [lia|]]. intros x _. apply Hx.
Qed.

Lemma hcopy_ok k h hp : hok h -> hp < length (hh_h h) ->
  hok (fst (hcopy k h hp)) /\ snd (hcopy k h hp) < length (hh_h (fst (hcopy k h hp))).
Proof.
  intros H L. destruct k; unfold hcopy; cbv zeta; cbn [fst snd hh_h hh_p].
  - auto.
  - split; [|rewrite app_length; cbn; lia]. intros x Hx. unfold prop in *. cbn [hh_h hh_p] in *.
    rewrite app_length in Hx. cbn [length] in Hx.
    destruct (Nat.eq_dec x (length (hh_h h))) as [->|E].
    + rewrite app_nth2, Nat.sub_diag by lia. cbn [nth]. now apply H.
    + rewrite app_nth1 by lia. apply H. lia.
  - split; [|rewrite app_length; cbn; lia]. intros x Hx. unfold prop in *. cbn [hh_h hh_p] in *.
    rewrite app_length in Hx. rewrite app_length. cbn [length] in *.
    destruct (Nat.eq_dec x (length (hh_h h))) as [->|E].
    + rewrite app_nth2, Nat.sub_diag by lia. cbn [nth hc_prop]. lia.
    + rewrite app_nth1 by lia. assert (x < length (hh_h h)) as Lx by lia. pose proof (H x Lx) as Hp. unfold prop in Hp. lia.
Qed.

Lemma store_reply_ok h hp rid ps blen : hok h -> hok (store_reply h hp rid ps blen).
Proof.
  intros H x Hx. destruct (store_reply_ext h hp rid ps blen) as (_ & L1 & L2 & F).
  destruct (F x) as [_ ->]. rewrite L2. apply H. lia.
Qed.

(* ================= A: the listed fields, every variant ================= *)
Definition pwf (st : hparts) : Prop :=
  let '(h, del, rc) := st in
  hok h /\ Forall (fun hp => hp < length (hh_h h)) del /\ Forall (fun kv : N * nat => snd kv < length (hh_h h)) rc.

(* st -> st': the heap is extended and the delivered list only grows at its end *)
Definition pstep (st st' : hparts) : Prop :=
  let '(h, del, rc) := st in let '(h', del', rc') := st' in
  hext h h' /\ exists extra, del' = del ++ extra.

Lemma pstep_refl st : pstep st st.
Proof. destruct st as [[h del] rc]. split. apply hext_refl. exists []. now rewrite app_nil_r. Qed.

Lemma pstep_trans a b c : pstep a b -> pstep b c -> pstep a c.
Proof.
  destruct a as [[h1 d1] r1], b as [[h2 d2] r2], c as [[h3 d3] r3]. intros [E1 [x1 ->]] [E2 [x2 ->]].
  split. eapply hext_trans; eauto. exists (x1 ++ x2). now rewrite app_assoc.
Qed.

Lemma Forall_lt_mono {A} (f : A -> nat) n n' l : n <= n' -> Forall (fun a => f a < n) l -> Forall (fun a => f a < n') l.
Proof. intros H F. eapply Forall_impl; [|exact F]. cbn. intros a Ha. lia. Qed.

Lemma rec_remove_forall (P : N * nat -> Prop) id r : Forall P r -> Forall P (rec_remove id r).
Proof.
  induction r as [|[k v] r IH]; intros H; cbn [rec_remove]; auto.
  inversion H; subst. destruct (k =? id)%N; auto.
Qed.

Lemma deliver_msg_ok v st m c : pwf st -> pwf (deliver_msg v st m c) /\ pstep st (deliver_msg v st m c).
Proof.
  destruct st as [[h del] rc]. intros (Hk & Hd & Hr). unfold deliver_msg.
  pose proof (halloc_ext h m) as E1. destruct (halloc_ok h m Hk) as (K1 & P1 & L1 & _).
  destruct (halloc h m) as [h1 hp]. cbn [fst snd] in *. subst hp.
  assert (length (hh_h h) < length (hh_h h1)) as Lhp by lia.
  (* the record, when this is packet 1 *)
  set (c1 := negb (m_sum m =? 0)%N && (m_no m =? 1)%N).
  assert (exists h2 rc2, (if c1 then let '(h2, rp) := hcopy (hv_rec v) h1 (length (hh_h h)) in (h2, (m_id m, rp) :: rec_remove (m_id m) rc)
                          else (h1, rc)) = (h2, rc2) /\ hok h2 /\ hext h1 h2 /\
                         Forall (fun kv : N * nat => snd kv < length (hh_h h2)) rc2) as (h2 & rc2 & -> & K2 & E2 & R2).
  { destruct c1.
    - pose proof (hcopy_ext (hv_rec v) h1 (length (hh_h h))) as E. destruct (hcopy_ok (hv_rec v) h1 _ K1 Lhp) as [K P].
      destruct (hcopy (hv_rec v) h1 (length (hh_h h))) as [h2 rp]. cbn [fst snd] in *.
      assert (length (hh_h h1) <= length (hh_h h2)) as L12 by apply E.
      exists h2, ((m_id m, rp) :: rec_remove (m_id m) rc).
      split; [reflexivity|split; [exact K|split; [exact E|]]].
      constructor; [exact P|]. apply rec_remove_forall. eapply Forall_lt_mono; [|exact Hr]. lia.
    - exists h1, rc. split; [reflexivity|split; [exact K1|split; [apply hext_refl|]]].
      eapply Forall_lt_mono; [|exact Hr]. lia. }
  assert (length (hh_h h) < length (hh_h h2)) as Lhp2 by (destruct E2 as [E2 _]; lia).
  assert (hext h h2) as E02 by (eapply hext_trans; eauto).
  destruct c.
  - pose proof (hcopy_ext (hv_merge v) h2 (length (hh_h h))) as E. destruct (hcopy_ok (hv_merge v) h2 _ K2 Lhp2) as [K P].
    destruct (hcopy (hv_merge v) h2 (length (hh_h h))) as [h3 mp]. cbn [fst snd] in *.
    assert (length (hh_h h2) <= length (hh_h h3)) as L23 by apply E.
    split.
    + split; [exact K|split].
      * apply Forall_app. split. eapply Forall_lt_mono; [|exact Hd]. lia.
        constructor; [lia|constructor; [exact P|constructor]].
      * eapply Forall_lt_mono; [|exact R2]. lia.
    + split. eapply hext_trans; eauto. eexists. reflexivity.
  - split.
    + split; [exact K2|split; [|exact R2]].
      apply Forall_app. split. eapply Forall_lt_mono; [|exact Hd]. lia. constructor; [lia|constructor].
    + split. exact E02. eexists. reflexivity.
Qed.

Lemma hloop_ok v now ms : forall s st, pwf st ->
  pwf (snd (hloop v now s st ms)) /\ pstep st (snd (hloop v now s st ms)).
Proof.
  induction ms as [|[raw m] t IH]; intros s st W; cbn [hloop snd].
  - split; [exact W|apply pstep_refl].
  - destruct (complete_pack now s m) as [s1 r].
    destruct (deliver_msg_ok v st m (match r with Some _ => true | None => false end) W) as [W1 P1].
    destruct (IH s1 _ W1) as [W2 P2]. split; [exact W2|eapply pstep_trans; eauto].
Qed.

Lemma rec_find_in id r rp : rec_find id r = Some rp -> In rp (map snd r).
Proof.
  induction r as [|[k v] r IH]; cbn [rec_find map snd]. discriminate.
  destruct (k =? id)%N. intros H; injection H as ->; now left. intros H; right; auto.
Qed.

Lemma deliver_rereq_ok st r : pwf st -> pwf (deliver_rereq st r) /\ pstep st (deliver_rereq st r).
Proof.
  destruct st as [[h del] rc]. intros (Hk & Hd & Hr). unfold deliver_rereq.
  set (hs := match rec_find (rr_id r) rc with
             | Some rp => (store_rereq h rp (len (rr_body r)), hc_ps (nth rp (hh_h h) hcell0))
             | None => (h, 0%N) end).
  assert (hok (fst hs) /\ hext h (fst hs) /\ length (hh_h (fst hs)) = length (hh_h h)) as (K0 & E0 & L0).
  { unfold hs. destruct (rec_find (rr_id r) rc) as [rp|]; cbn [fst]; [|repeat split; auto; apply hext_refl].
    unfold store_rereq. destruct (store_reply_ext h rp 32771 (hc_ps (nth rp (hh_h h) hcell0)) (len (rr_body r))) as (E & L1 & _).
    split; [now apply store_reply_ok|split; auto]. }
  destruct hs as [h0 ser]. cbn [fst] in *. set (mm := with_serial (p_msg (rereq_pmsg r)) ser).
  pose proof (halloc_ext h0 mm) as E1. destruct (halloc_ok h0 mm K0) as (K1 & P1 & L1 & _).
  destruct (halloc h0 mm) as [h1 hp]. cbn [fst snd] in *. subst hp.
  split.
  - split; [exact K1|split].
    + apply Forall_app. split. eapply Forall_lt_mono; [|exact Hd]. lia. constructor; [lia|constructor].
    + eapply Forall_lt_mono; [|exact Hr]. lia.
  - split. eapply hext_trans; eauto. eexists. reflexivity.
Qed.

Lemma fold_rereq_ok rrs : forall st, pwf st ->
  pwf (fold_left deliver_rereq rrs st) /\ pstep st (fold_left deliver_rereq rrs st).
Proof.
  induction rrs as [|r t IH]; intros st W; cbn [fold_left]. split; [exact W|apply pstep_refl].
  destruct (deliver_rereq_ok st r W) as [W1 P1]. destruct (IH _ W1) as [W2 P2]. split; [exact W2|eapply pstep_trans; eauto].
Qed.

Definition parts (st : hst) : hparts := (hs_heap st, hs_del st, hs_rec st).

Lemma hstep_ok v st e : pwf (parts st) -> pwf (parts (hstep_run v st e)) /\ pstep (parts st) (parts (hstep_run v st e)).
Proof.
  intros W. destruct e as [now d|k rid ps blen]; cbn [hstep_run].
  - set (o := unpack (ps_hist (hs_v st)) d).
    destruct (hloop_ok v now (u_msgs o) (delete_timeout now (ps_x (hs_v st))) (parts st) W) as [W1 P1].
    unfold parts in W1, P1. destruct (hloop v now _ (hs_heap st, hs_del st, hs_rec st) (u_msgs o)) as [s1 parts1].
    cbn [snd] in *. destruct (housekeeping now s1) as [s2 rrs].
    destruct (fold_rereq_ok rrs parts1 W1) as [W2 P2].
    destruct (fold_left deliver_rereq rrs parts1) as [[h2 del2] rc2]. unfold parts. cbn [hs_heap hs_del hs_rec].
    split; [exact W2|eapply pstep_trans; eauto].
  - destruct (nth_error (hs_del st) k) as [hp|]; [|split; [exact W|apply pstep_refl]].
    unfold parts in *. cbn [hs_heap hs_del hs_rec]. destruct W as (Hk & Hd & Hr).
    destruct (store_reply_ext (hs_heap st) hp rid ps blen) as (E & L1 & _).
    split.
    + split; [now apply store_reply_ok|]. rewrite L1. auto.
    + split; [exact E|exists []; now rewrite app_nil_r].
Qed.

Lemma hrun_from_ok v es : forall st, pwf (parts st) ->
  pwf (parts (fold_left (hstep_run v) es st)) /\ pstep (parts st) (parts (fold_left (hstep_run v) es st)).
Proof.
  induction es as [|e t IH]; intros st W; cbn [fold_left]. split; [exact W|apply pstep_refl].
  destruct (hstep_ok v st e W) as [W1 P1]. destruct (IH _ W1) as [W2 P2]. split; [exact W2|eapply pstep_trans; eauto].
Qed.

Lemma pwf0 : pwf (parts hst0).
Proof. cbn. split; [intros hp H; cbn in H; lia|split; constructor]. Qed.

(* A. the listed fields (message id, serial, package total and number, phone) of a delivered
   message never change - whatever is shared with whatever *)
Theorem listed_stable v es1 es2 k view1 : hview (hrun v es1) k = Some view1 ->
  exists view2, hview (hrun v (es1 ++ es2)) k = Some view2 /\ listed view2 = listed view1.
Proof.
  unfold hrun. rewrite fold_left_app. set (st := fold_left (hstep_run v) es1 hst0).
  destruct (hrun_from_ok v es1 hst0 pwf0) as [W _]. fold st in W.
  destruct (hrun_from_ok v es2 st W) as [_ P]. set (st' := fold_left (hstep_run v) es2 st) in *.
  unfold hview. destruct (nth_error (hs_del st) k) as [hp|] eqn:Hk; [|discriminate]. intros H. injection H as <-.
  unfold parts in W, P. destruct W as (_ & Hd & _). destruct P as [(_ & _ & F) [extra Hx]].
  rewrite Hx, nth_error_app1 by (apply nth_error_Some; congruence). rewrite Hk. eexists. split. reflexivity.
  assert (hp < length (hh_h (hs_heap st))) as L.
  { rewrite Forall_forall in Hd. apply Hd. eapply nth_error_In; eauto. }
  destruct (F hp L) as [E _]. unfold listed, hread. cbn [fst]. unfold lst in E. congruence.
Qed.

(* ================= B: ownership in the current code ================= *)
(* every header cell has its own property word *)
Definition pinj (h : hheap) : Prop :=
  forall a b, a < length (hh_h h) -> b < length (hh_h h) -> prop h a = prop h b -> a = b.

Lemma hread_app h eh ep hp : hok h -> hp < length (hh_h h) ->
  hread {| hh_h := hh_h h ++ eh; hh_p := hh_p h ++ ep |} hp = hread h hp.
Proof.
  intros K L. unfold hread. cbn [hh_h hh_p]. rewrite app_nth1 by exact L.
  rewrite app_nth1 by (apply (K hp L)). reflexivity.
Qed.

Lemma halloc_read h m hp : hok h -> hp < length (hh_h h) -> hread (fst (halloc h m)) hp = hread h hp.
Proof. intros K L. unfold halloc. cbv zeta. cbn [fst]. now apply hread_app. Qed.

Lemma hcopy_deep_read h x hp : hok h -> hp < length (hh_h h) -> hread (fst (hcopy Deep h x)) hp = hread h hp.
Proof. intros K L. unfold hcopy. cbv zeta. cbn [fst]. now apply hread_app. Qed.

Lemma halloc_pinj h m : hok h -> pinj h -> pinj (fst (halloc h m)).
Proof.
  intros K I a b La Lb. destruct (halloc_ok h m K) as (_ & _ & L1 & _ & Pn). destruct (halloc_ext h m) as (_ & _ & F).
  rewrite L1 in La, Lb.
  destruct (Nat.eq_dec a (length (hh_h h))) as [->|Ea]; destruct (Nat.eq_dec b (length (hh_h h))) as [->|Eb]; auto.
  - rewrite Pn. destruct (F b ltac:(lia)) as [_ ->]. intros E. pose proof (K b ltac:(lia)). lia.
  - rewrite Pn. destruct (F a ltac:(lia)) as [_ ->]. intros E. pose proof (K a ltac:(lia)). lia.
  - destruct (F a ltac:(lia)) as [_ ->]. destruct (F b ltac:(lia)) as [_ ->]. apply I; lia.
Qed.

Lemma hcopy_deep_facts h x : hok h -> x < length (hh_h h) ->
  snd (hcopy Deep h x) = length (hh_h h) /\ length (hh_h (fst (hcopy Deep h x))) = S (length (hh_h h)) /\
  prop (fst (hcopy Deep h x)) (length (hh_h h)) = length (hh_p h).
Proof.
  intros K L. unfold hcopy. cbv zeta. cbn [fst snd hh_h]. rewrite app_length. cbn [length]. repeat split; try lia.
  unfold prop. cbn [hh_h]. rewrite app_nth2, Nat.sub_diag by lia. reflexivity.
Qed.

Lemma hcopy_deep_pinj h x : hok h -> x < length (hh_h h) -> pinj h -> pinj (fst (hcopy Deep h x)).
Proof.
  intros K L I a b La Lb. destruct (hcopy_deep_facts h x K L) as (_ & L1 & Pn). destruct (hcopy_ext Deep h x) as (_ & _ & F).
  rewrite L1 in La, Lb.
  destruct (Nat.eq_dec a (length (hh_h h))) as [->|Ea]; destruct (Nat.eq_dec b (length (hh_h h))) as [->|Eb]; auto.
  - rewrite Pn. destruct (F b ltac:(lia)) as [_ ->]. intros E. pose proof (K b ltac:(lia)). lia.
  - rewrite Pn. destruct (F a ltac:(lia)) as [_ ->]. intros E. pose proof (K a ltac:(lia)). lia.
  - destruct (F a ltac:(lia)) as [_ ->]. destruct (F b ltac:(lia)) as [_ ->]. apply I; lia.
Qed.

Lemma store_reply_pinj h sp rid ps blen : pinj h -> pinj (store_reply h sp rid ps blen).
Proof.
  intros I a b La Lb. destruct (store_reply_ext h sp rid ps blen) as (_ & L1 & _ & F). rewrite L1 in La, Lb.
  destruct (F a) as [_ ->]. destruct (F b) as [_ ->]. now apply I.
Qed.

(* a store through header sp: another header with another property word reads the same; sp itself
   reads the assigned fields *)
Lemma store_reply_read_other h sp rid ps blen hp : hp <> sp -> prop h hp <> prop h sp ->
  hread (store_reply h sp rid ps blen) hp = hread h hp.
Proof.
  intros E Ep. unfold hread, store_reply. cbn [hh_h hh_p]. rewrite nth_upd_neq by congruence.
  unfold prop in Ep. rewrite nth_upd_neq by congruence. reflexivity.
Qed.

Lemma store_reply_read_same h sp rid ps blen : hok h -> sp < length (hh_h h) ->
  hread (store_reply h sp rid ps blen) sp =
  (set_reply rid ps (fst (hread h sp)), set_encode blen (snd (hread h sp))).
Proof.
  intros K L. unfold hread, store_reply. cbn [hh_h hh_p fst snd]. rewrite nth_upd_eq by exact L.
  cbn [set_reply hc_prop]. rewrite nth_upd_eq by (apply (K sp L)). reflexivity.
Qed.

Definition pown (st : hparts) : Prop :=
  let '(h, del, rc) := st in
  pwf st /\ NoDup del /\ (forall rp, In rp (map snd rc) -> ~ In rp del) /\ pinj h.

(* the delivered messages of st read the same in st' *)
Definition keeps (st st' : hparts) : Prop :=
  let '(h, del, rc) := st in let '(h', del', rc') := st' in
  forall hp, In hp del -> hread h' hp = hread h hp.

Lemma nodup_snoc l n : NoDup l -> (forall x, In x l -> x < n) -> NoDup (l ++ [n]).
Proof.
  induction l as [|a l IH]; intros H F; cbn [app]. constructor; [intros []|constructor].
  apply NoDup_cons_iff in H. destruct H as [Ha Hl]. constructor.
  - intros Hin. apply in_app_or in Hin. destruct Hin as [Hin|[E|[]]]; [contradiction|].
    specialize (F a (or_introl eq_refl)). lia.
  - apply IH; auto. intros x Hx. apply F. now right.
Qed.

Lemma rec_remove_in id r x : In x (map snd (rec_remove id r)) -> In x (map snd r).
Proof.
  induction r as [|[k v] r IH]; cbn [rec_remove map snd]; auto.
  destruct (k =? id)%N; cbn [map snd In]; intros H; [right; auto|destruct H; [now left|right; auto]].
Qed.

Lemma deliver_msg_own st m c : pown st ->
  pown (deliver_msg hcur st m c) /\ keeps st (deliver_msg hcur st m c).
Proof.
  destruct st as [[h del] rc]. intros (W & Nd & Dj & I).
  pose proof (deliver_msg_ok hcur (h, del, rc) m c W) as [W' _].
  destruct W as (K & Hd & Hr). rewrite Forall_forall in Hd, Hr.
  assert (forall rp, In rp (map snd rc) -> rp < length (hh_h h)) as Hr'.
  { intros rp Hin. apply in_map_iff in Hin. destruct Hin as (kv & <- & Hkv). now apply Hr. }
  unfold deliver_msg in *. cbn [hcur hv_rec hv_merge] in *.
  destruct (halloc_ok h m K) as (K1 & P1 & L1 & _). pose proof (halloc_pinj h m K I) as I1.
  pose proof (fun hp => halloc_read h m hp K) as R1.
  destruct (halloc h m) as [h1 hp0]. cbn [fst snd] in *. subst hp0.
  assert (length (hh_h h) < length (hh_h h1)) as Lhp by lia.
  destruct (negb (m_sum m =? 0)%N && (m_no m =? 1)%N).
  - (* packet 1: the record gets its own header *)
    destruct (hcopy_deep_facts h1 (length (hh_h h)) K1 Lhp) as (P2 & L2 & _).
    destruct (hcopy_ok Deep h1 _ K1 Lhp) as [K2 _]. pose proof (hcopy_deep_pinj h1 _ K1 Lhp I1) as I2.
    pose proof (fun hp => hcopy_deep_read h1 (length (hh_h h)) hp K1) as R2.
    destruct (hcopy Deep h1 (length (hh_h h))) as [h2 rp]. cbn [fst snd] in *. subst rp.
    assert (length (hh_h h) < length (hh_h h2)) as Lhp2 by lia.
    destruct c.
    + destruct (hcopy_deep_facts h2 (length (hh_h h)) K2 Lhp2) as (P3 & L3 & _).
      pose proof (hcopy_deep_pinj h2 _ K2 Lhp2 I2) as I3.
      pose proof (fun hp => hcopy_deep_read h2 (length (hh_h h)) hp K2) as R3.
      destruct (hcopy Deep h2 (length (hh_h h))) as [h3 mp]. cbn [fst snd] in *. subst mp.
      split.
      * split; [exact W'|split; [|split; [|exact I3]]].
        -- change (del ++ [length (hh_h h); length (hh_h h2)]) with (del ++ [length (hh_h h)] ++ [length (hh_h h2)]).
           rewrite app_assoc. apply nodup_snoc. apply nodup_snoc; auto.
           intros x Hx. apply in_app_or in Hx. destruct Hx as [Hx|[<-|[]]]; [specialize (Hd x Hx)|]; lia.
        -- intros rp Hrp Hdel; cbn [map snd In] in Hrp; destruct Hrp as [<-|Hin]; apply in_app_or in Hdel.
           ++ destruct Hdel as [Hx|[Hx|[Hx|[]]]]; [specialize (Hd _ Hx)| |]; lia.
           ++ apply rec_remove_in in Hin. destruct Hdel as [Hx|[Hx|[Hx|[]]]]; [now apply (Dj rp Hin)| |]; specialize (Hr' rp Hin); lia.
      * intros hp Hin. specialize (Hd hp Hin). rewrite R3, R2, R1 by lia. reflexivity.
    + split.
      * split; [exact W'|split; [|split; [|exact I2]]].
        -- apply nodup_snoc; auto.
        -- intros rp Hrp Hdel; cbn [map snd In] in Hrp; destruct Hrp as [<-|Hin]; apply in_app_or in Hdel.
           ++ destruct Hdel as [Hx|[Hx|[]]]; [specialize (Hd _ Hx)|]; lia.
           ++ apply rec_remove_in in Hin. destruct Hdel as [Hx|[Hx|[]]]; [now apply (Dj rp Hin)|]; specialize (Hr' rp Hin); lia.
      * intros hp Hin. specialize (Hd hp Hin). rewrite R2, R1 by lia. reflexivity.
  - destruct c.
    + destruct (hcopy_deep_facts h1 (length (hh_h h)) K1 Lhp) as (P3 & L3 & _).
      pose proof (hcopy_deep_pinj h1 _ K1 Lhp I1) as I3.
      pose proof (fun hp => hcopy_deep_read h1 (length (hh_h h)) hp K1) as R3.
      destruct (hcopy Deep h1 (length (hh_h h))) as [h3 mp]. cbn [fst snd] in *. subst mp.
      split.
      * split; [exact W'|split; [|split; [|exact I3]]].
        -- change (del ++ [length (hh_h h); length (hh_h h1)]) with (del ++ [length (hh_h h)] ++ [length (hh_h h1)]).
           rewrite app_assoc. apply nodup_snoc. apply nodup_snoc; auto.
           intros x Hx. apply in_app_or in Hx. destruct Hx as [Hx|[<-|[]]]; [specialize (Hd x Hx)|]; lia.
        -- intros rp Hin Hdel. apply in_app_or in Hdel.
           destruct Hdel as [Hx|[Hx|[Hx|[]]]]; [now apply (Dj rp Hin)| |]; specialize (Hr' rp Hin); lia.
      * intros hp Hin. specialize (Hd hp Hin). rewrite R3, R1 by lia. reflexivity.
    + split.
      * split; [exact W'|split; [|split; [|exact I1]]].
        -- apply nodup_snoc; auto.
        -- intros rp Hin Hdel. apply in_app_or in Hdel.
           destruct Hdel as [Hx|[Hx|[]]]; [now apply (Dj rp Hin)|]; specialize (Hr' rp Hin); lia.
      * intros hp Hin. specialize (Hd hp Hin). rewrite R1 by lia. reflexivity.
Qed.

Lemma keeps_refl st : keeps st st.
Proof. destruct st as [[h del] rc]. intros hp _. reflexivity. Qed.

Lemma keeps_trans a b c : pstep a b -> keeps a b -> keeps b c -> keeps a c.
Proof.
  destruct a as [[h1 d1] r1], b as [[h2 d2] r2], c as [[h3 d3] r3]. intros [_ [x ->]] K1 K2 hp Hin.
  rewrite K2 by (apply in_or_app; now left). now apply K1.
Qed.

Lemma hloop_own now ms : forall s st, pown st ->
  pown (snd (hloop hcur now s st ms)) /\ keeps st (snd (hloop hcur now s st ms)).
Proof.
  induction ms as [|[raw m] t IH]; intros s st O; cbn [hloop snd].
  - split; [exact O|apply keeps_refl].
  - destruct (complete_pack now s m) as [s1 r].
    destruct (deliver_msg_own st m (match r with Some _ => true | None => false end) O) as [O1 K1].
    destruct (IH s1 _ O1) as [O2 K2]. split; [exact O2|].
    eapply keeps_trans; [|exact K1|exact K2].
    apply deliver_msg_ok. destruct st as [[h del] rc]. apply O.
Qed.

Lemma deliver_rereq_own st r : pown st -> pown (deliver_rereq st r) /\ keeps st (deliver_rereq st r).
Proof.
  destruct st as [[h del] rc]. intros (W & Nd & Dj & I).
  pose proof (deliver_rereq_ok (h, del, rc) r W) as [W' _].
  destruct W as (K & Hd & Hr). rewrite Forall_forall in Hd, Hr.
  unfold deliver_rereq in *.
  set (hs := match rec_find (rr_id r) rc with
             | Some rp => (store_rereq h rp (len (rr_body r)), hc_ps (nth rp (hh_h h) hcell0))
             | None => (h, 0%N) end) in *.
  assert (hok (fst hs) /\ pinj (fst hs) /\ length (hh_h (fst hs)) = length (hh_h h) /\
          forall hp, In hp del -> hread (fst hs) hp = hread h hp) as (K0 & I0 & L0 & R0).
  { unfold hs. destruct (rec_find (rr_id r) rc) as [rp|] eqn:F; cbn [fst]; [|repeat split; auto].
    pose proof (rec_find_in _ _ _ F) as Hin. unfold store_rereq.
    destruct (store_reply_ext h rp 32771 (hc_ps (nth rp (hh_h h) hcell0)) (len (rr_body r))) as (_ & L1 & _).
    split; [now apply store_reply_ok|split; [now apply store_reply_pinj|split; [exact L1|]]].
    intros hp Hhp. assert (hp <> rp) as E by (intros ->; now apply (Dj rp Hin)).
    apply store_reply_read_other; auto. intros Ep. apply E. apply I; auto.
    apply in_map_iff in Hin. destruct Hin as (kv & <- & Hkv). now apply Hr. }
  destruct hs as [h0 ser]. cbn [fst] in *. set (mm := with_serial (p_msg (rereq_pmsg r)) ser) in *.
  destruct (halloc_ok h0 mm K0) as (K1 & P1 & L1 & _).
  pose proof (halloc_pinj h0 mm K0 I0) as I1. pose proof (fun hp => halloc_read h0 mm hp K0) as R1.
  destruct (halloc h0 mm) as [h1 hp0]. cbn [fst snd] in *. subst hp0.
  split.
  - split; [exact W'|split; [|split; [|exact I1]]].
    + apply nodup_snoc; auto. intros x Hx. specialize (Hd x Hx). lia.
    + intros rp Hin Hdel. apply in_app_or in Hdel. destruct Hdel as [Hx|[Hx|[]]]; [now apply (Dj rp Hin)|].
      apply in_map_iff in Hin. destruct Hin as (kv & <- & Hkv). specialize (Hr kv Hkv). cbn in Hr. lia.
  - intros hp Hin. specialize (Hd hp Hin). rewrite R1 by lia. now apply R0.
Qed.

Lemma fold_rereq_own rrs : forall st, pown st ->
  pown (fold_left deliver_rereq rrs st) /\ keeps st (fold_left deliver_rereq rrs st).
Proof.
  induction rrs as [|r t IH]; intros st O; cbn [fold_left]. split; [exact O|apply keeps_refl].
  destruct (deliver_rereq_own st r O) as [O1 K1]. destruct (IH _ O1) as [O2 K2]. split; [exact O2|].
  eapply keeps_trans; [|exact K1|exact K2]. apply deliver_rereq_ok. destruct st as [[h del] rc]. apply O.
Qed.

Lemma pown_pwf st : pown st -> pwf st.
Proof. destruct st as [[h del] rc]. intros O. apply O. Qed.

(* one step of the current code: a read changes what NO holder of an earlier message reads; the
   writer's answer to message k changes what the holder of message k reads (exactly the assigned
   fields) and nobody else's *)
Lemma hstep_own st e : pown (parts st) ->
  pown (parts (hstep_run hcur st e)) /\
  forall k' hp, nth_error (hs_del st) k' = Some hp ->
    hread (hs_heap (hstep_run hcur st e)) hp =
    match e with
    | HReply k rid ps blen =>
      if Nat.eqb k k' then (set_reply rid ps (fst (hread (hs_heap st) hp)), set_encode blen (snd (hread (hs_heap st) hp)))
      else hread (hs_heap st) hp
    | HFeed _ _ => hread (hs_heap st) hp
    end.
Proof.
  intros O. destruct e as [now d|k rid ps blen]; cbn [hstep_run].
  - set (o := unpack (ps_hist (hs_v st)) d).
    destruct (hloop_own now (u_msgs o) (delete_timeout now (ps_x (hs_v st))) (parts st) O) as [O1 K1].
    pose proof (hloop_ok hcur now (u_msgs o) (delete_timeout now (ps_x (hs_v st))) (parts st) (pown_pwf _ O)) as [_ P1].
    unfold parts in O1, K1, P1. destruct (hloop hcur now _ (hs_heap st, hs_del st, hs_rec st) (u_msgs o)) as [s1 parts1].
    cbn [snd] in *. destruct (housekeeping now s1) as [s2 rrs].
    destruct (fold_rereq_own rrs parts1 O1) as [O2 K2].
    destruct (fold_left deliver_rereq rrs parts1) as [[h2 del2] rc2] eqn:F. unfold parts. cbn [hs_heap hs_del hs_rec].
    split; [exact O2|]. intros k' hp Hk.
    assert (keeps (hs_heap st, hs_del st, hs_rec st) (h2, del2, rc2)) as Kall by (eapply keeps_trans; eauto).
    apply Kall. eapply nth_error_In; eauto.
  - destruct (nth_error (hs_del st) k) as [sp|] eqn:Hk.
    2:{ split; [exact O|]. intros k' hp Hk'. destruct (Nat.eqb_spec k k') as [->|E]; [congruence|reflexivity]. }
    unfold parts in *. cbn [hs_heap hs_del hs_rec]. destruct O as (W & Nd & Dj & I). destruct W as (K & Hd & Hr).
    destruct (store_reply_ext (hs_heap st) sp rid ps blen) as (_ & L1 & _).
    assert (sp < length (hh_h (hs_heap st))) as Lsp.
    { rewrite Forall_forall in Hd. apply Hd. eapply nth_error_In; eauto. }
    split.
    + split; [split; [now apply store_reply_ok|rewrite L1; auto]|split; [exact Nd|split; [exact Dj|now apply store_reply_pinj]]].
    + intros k' hp Hk'. destruct (Nat.eqb_spec k k') as [->|E].
      * rewrite Hk in Hk'. injection Hk' as <-. now apply store_reply_read_same.
      * assert (hp <> sp) as Ep.
        { intros ->. apply E. eapply NoDup_nth_error; eauto. apply nth_error_Some. congruence. congruence. }
        apply store_reply_read_other; auto. intros Epp. apply Ep. apply I; auto.
        rewrite Forall_forall in Hd. apply Hd. eapply nth_error_In; eauto.
Qed.

Lemma pown0 : pown (parts hst0).
Proof.
  split; [exact pwf0|]. cbn. split; [constructor|split; [intros rp []|]]. intros a b H. cbn in H. lia.
Qed.

Lemma pown_reachable es : pown (parts (hrun hcur es)).
Proof.
  unfold hrun. assert (forall st, pown (parts st) -> pown (parts (fold_left (hstep_run hcur) es st))) as G.
  { induction es as [|e t IH]; intros st O; cbn [fold_left]; auto. apply IH. now apply hstep_own. }
  apply G. exact pown0.
Qed.

Lemma del_prefix v st e : pwf (parts st) -> exists extra, hs_del (hstep_run v st e) = hs_del st ++ extra.
Proof. intros W. destruct (hstep_ok v st e W) as [_ P]. unfold parts in P. apply P. Qed.

(* B. current code, one step from any reachable state: the holder of message k' reads the same,
   unless the step is the writer's answer to message k' - then exactly the assigned fields change *)
Theorem header_owned es e k' view : hview (hrun hcur es) k' = Some view ->
  hview (hstep_run hcur (hrun hcur es) e) k' =
  Some match e with
       | HReply k rid ps blen => if Nat.eqb k k' then (set_reply rid ps (fst view), set_encode blen (snd view)) else view
       | HFeed _ _ => view
       end.
Proof.
  pose proof (pown_reachable es) as O. set (st := hrun hcur es) in *.
  unfold hview. destruct (nth_error (hs_del st) k') as [hp|] eqn:Hk; [|discriminate]. intros H. injection H as <-.
  destruct (del_prefix hcur st e (pown_pwf _ O)) as [extra Hx].
  rewrite Hx, nth_error_app1 by (apply nth_error_Some; congruence). rewrite Hk.
  destruct (hstep_own st e O) as [_ R]. rewrite (R k' hp Hk). reflexivity.
Qed.

(* ... hence over any continuation in which the writer does not answer message k, its holder keeps
   reading the whole header (property word, reply id and platform serial included) as before *)
Theorem header_stable es1 es2 k view : hview (hrun hcur es1) k = Some view -> no_reply_to k es2 ->
  hview (hrun hcur (es1 ++ es2)) k = Some view.
Proof.
  revert es1. induction es2 as [|e t IH]; intros es1 H N. now rewrite app_nil_r.
  inversion N as [|x l Hx Hl]; subst.
  replace (es1 ++ e :: t) with ((es1 ++ [e]) ++ t) by now rewrite <- app_assoc.
  apply IH; auto. unfold hrun. rewrite fold_left_app. cbn [fold_left]. fold (hrun hcur es1).
  rewrite (header_owned es1 e k view H). destruct e as [now d|k0 rid ps blen]; auto.
  destruct (Nat.eqb_spec k0 k); [contradiction|reflexivity].
Qed.

(* the repaired sharings, by computation: each of them lets a step that is NOT an answer to the
   holder's message change what he reads *)
Lemma refuted_record_shared : header_disturbed {| hv_rec := Shared; hv_merge := Deep |} hx_rereq_1 hx_rereq_2 0.
Proof. split. repeat constructor. split; vm_compute; discriminate. Qed.
Lemma refuted_record_shallow : header_disturbed {| hv_rec := Shallow; hv_merge := Deep |} hx_rereq_1 hx_rereq_2 0.
Proof. split. repeat constructor. split; vm_compute; discriminate. Qed.
Lemma refuted_merge_shared : header_disturbed {| hv_rec := Deep; hv_merge := Shared |} hx_merge_1 hx_merge_2 2.
Proof. split. repeat constructor; discriminate. split; vm_compute; discriminate. Qed.
Lemma refuted_merge_shallow : header_disturbed {| hv_rec := Deep; hv_merge := Shallow |} hx_merge_1 hx_merge_2 2.
Proof. split. repeat constructor; discriminate. split; vm_compute; discriminate. Qed.

(* the same histories on the current code: undisturbed (instances of header_stable) *)
Lemma ex_cur_rereq : hview (hrun hcur (hx_rereq_1 ++ hx_rereq_2)) 0 = hview (hrun hcur hx_rereq_1) 0 /\
  hview (hrun hcur hx_rereq_1) 0 <> None /\ length (hs_del (hrun hcur (hx_rereq_1 ++ hx_rereq_2))) = 3.
Proof. vm_compute. repeat split; try reflexivity; discriminate. Qed.
Lemma ex_cur_merge : hview (hrun hcur (hx_merge_1 ++ hx_merge_2)) 2 = hview (hrun hcur hx_merge_1) 2 /\
  hview (hrun hcur (hx_merge_1 ++ hx_merge_2)) 1 <> hview (hrun hcur hx_merge_1) 1.
Proof. vm_compute. split; [reflexivity|discriminate]. Qed.

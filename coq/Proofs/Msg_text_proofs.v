(* C07 — round trip of the message bodies with GBK text, for every codec pair that satisfies codec_ok. *)
From JT.Base Require Import Prelude PreludeP Fmt.
From JT.Model Require Import Msg_simple Msg_text.
From Coq Require Import ZArith ZifyN ZifyNat ZifyBool.
Ltac Zify.zify_post_hook ::= Z.div_mod_to_equations.

Section Gbk.
Variables (u2g g2u : list N -> list N) (gdom : list N -> bool).
Hypothesis Hc : codec_ok u2g g2u gdom.

Lemma m_0100_layout_ok a b c ver : msg_ok (m_0100_layout u2g g2u gdom a b c ver).
Proof. unfold m_0100_layout, tl_gbk. fmt_ok. Qed.

(* the encoded length of a registration: the fixed part and the GBK bytes of the plate *)
Lemma m_0100_layout_len a b c ver v : m_wf (m_0100_layout u2g g2u gdom a b c ver) v = true ->
  len (m_enc (m_0100_layout u2g g2u gdom a b c ver) v) = 2 + 2 + a + b + c + 1 + len (u2g (plate_of v)).
Proof.
  intros H. destruct v as [x|x|vs]; try discriminate H. unfold m_0100_layout in *.
  rewrite (mk_msg_len_gen _ _ [2; 2; a; b; c; 1]) by (try exact H; unfold fields_len; fmt_len).
  cbn [nsum fold_right]. cbn [m_wf mk_msg] in H. apply andb_true_iff in H. destruct H as [H1 H2].
  pose proof (ps_wf_length _ _ _ H1) as L. cbn [length] in L.
  cbn [length] in *.
  destruct vs as [|v0 [|v1 [|v2 [|v3 [|v4 [|v5 rest]]]]]]; try discriminate L. clear L H1.
  cbn [firstn skipn] in *. cbn [tl_wf tl_consts] in H2.
  apply andb_true_iff in H2. destruct H2 as [H2 H3]. apply andb_true_iff in H2. destruct H2 as [H2 H4].
  destruct rest as [|p rest]; [discriminate H2|]. cbn [firstn] in H2. cbn [tl_wf tl_gbk tl_conv] in H2.
  destruct p as [x|s|x]; try discriminate H2.
  cbn [tl_enc tl_consts firstn tl_gbk tl_conv plate_of nth]. lia.
Qed.

Lemma m_0100_ok hver : msg_ok (m_0100 u2g g2u gdom hver).
Proof.
  unfold m_0100. destruct (hver =? 3); [apply m_0100_layout_ok|].
  destruct ((hver =? 1) || (hver =? 2)); [|apply m_0100_layout_ok].
  apply msg_switch_ok.
  - apply m_0100_layout_ok.
  - unfold m_0100_2011. apply msg_restrict_ok, m_0100_layout_ok.
  - intros v _ H. rewrite (m_0100_layout_len _ _ _ _ v H). lia.
  - intros v _ H. unfold m_0100_2011 in *. cbn [m_wf m_enc msg_restrict] in *.
    apply andb_true_iff in H. destruct H as [H Hp]. rewrite (m_0100_layout_len _ _ _ _ v H). lia.
Qed.
End Gbk.

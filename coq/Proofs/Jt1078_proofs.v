From JT.Base Require Import Prelude PreludeP.
From JT.Model Require Import Jt1078.
From Coq Require Import ZArith ZifyN ZifyNat ZifyBool.
Ltac Zify.zify_post_hook ::= Z.div_mod_to_equations.

(* ---- bit fields of the two flag bytes and of the type byte: finite sweeps ---- *)
Lemma attr_fields v p x cc : v < 4 -> p < 2 -> x < 2 -> cc < 16 ->
  let a := v * 64 + p * 32 + x * 16 + cc in
  N.land (N.shiftr a 6) 3 = v /\ N.land (N.shiftr a 5) 1 = p /\
  N.land (N.shiftr a 4) 1 = x /\ N.land a 15 = cc /\ a < 256.
Proof.
  intros Hv Hp Hx Hc.
  assert (S : forallb (fun v => forallb (fun p => forallb (fun x => forallb (fun cc =>
    let a := v * 64 + p * 32 + x * 16 + cc in
    (N.land (N.shiftr a 6) 3 =? v) && (N.land (N.shiftr a 5) 1 =? p) &&
    (N.land (N.shiftr a 4) 1 =? x) && (N.land a 15 =? cc) && (a <? 256))
    (nrange 16)) (nrange 2)) (nrange 2)) (nrange 4) = true) by (vm_compute; reflexivity).
  pose proof (sweep 4 _ S v Hv) as S1. cbv beta in S1.
  pose proof (sweep 2 _ S1 p Hp) as S2. cbv beta in S2.
  pose proof (sweep 2 _ S2 x Hx) as S3. cbv beta in S3.
  pose proof (sweep 16 _ S3 cc Hc) as S4. cbv beta zeta in S4.
  cbv zeta. lia.
Qed.

Lemma sign_fields m pt : m < 2 -> pt < 128 ->
  let s := m * 128 + pt in
  N.land (N.shiftr s 7) 1 = m /\ N.land s 127 = pt /\ s < 256.
Proof.
  intros Hm Hp.
  assert (S : forallb (fun m => forallb (fun pt =>
    let s := m * 128 + pt in
    (N.land (N.shiftr s 7) 1 =? m) && (N.land s 127 =? pt) && (s <? 256))
    (nrange 128)) (nrange 2) = true) by (vm_compute; reflexivity).
  pose proof (sweep 2 _ S m Hm) as S1. cbv beta in S1.
  pose proof (sweep 128 _ S1 pt Hp) as S2. cbv beta zeta in S2.
  cbv zeta. lia.
Qed.

Lemma type_fields dt sb : dt < 16 -> sb < 16 ->
  let t := dt * 16 + sb in
  N.land (N.shiftr t 4) 15 = dt /\ N.land t 15 = sb /\ t < 256.
Proof.
  intros Hd Hs.
  assert (S : forallb (fun dt => forallb (fun sb =>
    let t := dt * 16 + sb in
    (N.land (N.shiftr t 4) 15 =? dt) && (N.land t 15 =? sb) && (t <? 256))
    (nrange 16)) (nrange 16) = true) by (vm_compute; reflexivity).
  pose proof (sweep 16 _ S dt Hd) as S1. cbv beta in S1.
  pose proof (sweep 16 _ S1 sb Hs) as S2. cbv beta zeta in S2.
  cbv zeta. lia.
Qed.

Lemma be_enc2 x : be_enc 2 x = [x / 256 mod 256; x mod 256].
Proof. reflexivity. Qed.

Lemma be_dec2 x : x < 65536 -> be_dec [x / 256 mod 256; x mod 256] = x.
Proof. intros H. unfold be_dec. cbn [be_dec_acc]. lia. Qed.

Lemma is_video_lt dt : is_video_dt dt = (dt <? 3).
Proof. unfold is_video_dt. lia. Qed.


(* header part of the standard layout *)
Definition std_head (p : pkt) : list N :=
  marker ++ [k_v p * 64 + k_p p * 32 + k_x p * 16 + k_cc p; k_m p * 128 + k_pt p] ++
  be_enc 2 (k_seq p) ++ k_sim p ++ [k_chan p; k_dt p * 16 + k_sub p] ++
  (if k_dt p =? 4 then [] else be_enc 8 (k_ts p)) ++
  (if k_dt p <? 3 then be_enc 2 (k_ifi p) ++ be_enc 2 (k_fi p) else []) ++
  be_enc 2 (k_blen p).

Lemma std_packet_split p : std_packet p = std_head p ++ k_body p.
Proof. unfold std_packet, std_head. now rewrite <- !app_assoc. Qed.

Definition head_len (dt : N) : N :=
  18 + (if dt =? 4 then 0 else 8) + (if dt <? 3 then 4 else 0).

Lemma std_head_len p : length (k_sim p) = 6%nat -> len (std_head p) = head_len (k_dt p).
Proof.
  intros H. unfold std_head, head_len. rewrite !len_app, !be_enc_len. unfold len at 3. rewrite H.
  unfold marker. rewrite !len_cons, !len_nil.
  destruct (k_dt p =? 4); destruct (k_dt p <? 3); rewrite ?len_app, ?be_enc_len; change (@len N []) with 0; lia.
Qed.

Definition set_body (p : pkt) (b : list N) : pkt :=
  {| k_v := k_v p; k_p := k_p p; k_x := k_x p; k_cc := k_cc p; k_m := k_m p; k_pt := k_pt p;
     k_seq := k_seq p; k_sim := k_sim p; k_chan := k_chan p; k_dt := k_dt p; k_sub := k_sub p;
     k_ts := k_ts p; k_ifi := k_ifi p; k_fi := k_fi p; k_blen := k_blen p; k_body := b;
     k_video := k_video p |}.

Ltac proj_simpl := cbn [k_v k_p k_x k_cc k_m k_pt k_seq k_sim k_chan k_dt k_sub k_ts k_ifi k_fi k_blen k_body k_video set_body fresh_pkt].

Lemma head_ok r p rest : wf_packet p ->
  decode_head r (std_head p ++ rest) = Ok (set_body p (k_body r), rest).
Proof.
  destruct p as [v pp x cc m pt sq sim ch dt sb ts ifi fi blen body video].
  unfold wf_packet; proj_simpl.
  intros (Hv & Hp & Hx & Hcc & Hm & Hpt & Hsq & Hsl & Hsb & Hch & Hdt & Hsub & Hts & Hiv & Hbl & Hbl2 & Hbody & Hvid).
  destruct sim as [|m0 [|m1 [|m2 [|m3 [|m4 [|m5 [|? ?]]]]]]]; try discriminate Hsl.
  unfold std_head. proj_simpl.
  rewrite be_enc2. unfold marker at 1. cbn [app].
  unfold decode_head.
  change (list_eqb [48; 49; 99; 100] marker) with true. cbn [negb].
  destruct (attr_fields v pp x cc Hv Hp Hx Hcc) as (A1 & A2 & A3 & A4 & _).
  destruct (sign_fields m pt Hm Hpt) as (S1 & S2 & _).
  destruct (type_fields dt sb Hdt Hsub) as (T1 & T2 & _).
  cbv zeta in A1, A2, A3, A4, S1, S2, T1, T2.
  rewrite A1, A2, A3, A4, S1, S2, T1, T2.
  rewrite is_video_lt. proj_simpl.
  unfold DT_PENETRATE.
  set (tsl := if dt =? 4 then [] else be_enc 8 ts).
  set (ivl := if dt <? 3 then be_enc 2 ifi ++ be_enc 2 fi else []).
  assert (Ltsl : len tsl = if dt =? 4 then 0 else 8).
  { subst tsl. destruct (dt =? 4); [reflexivity | apply be_enc_len]. }
  assert (Livl : len ivl = if dt <? 3 then 4 else 0).
  { subst ivl. destruct (dt <? 3); [|reflexivity]. rewrite len_app, !be_enc_len. reflexivity. }
  match goal with |- context [len ?l <? ?e] => assert (Hlen : (len l <? e) = false) end.
  { rewrite !len_cons, !len_app, Ltsl, Livl, be_enc_len.
    destruct (dt =? 4); destruct (dt <? 3); lia. }
  rewrite Hlen. clear Hlen.
  assert (E1 : (if dt =? 4 then Ok ([], tsl ++ ivl ++ be_enc 2 blen ++ rest)
                else take 8 (tsl ++ ivl ++ be_enc 2 blen ++ rest))
               = Ok (tsl, ivl ++ be_enc 2 blen ++ rest)).
  { subst tsl. destruct (dt =? 4) eqn:E4. reflexivity. apply take_app_n, be_enc_len. }
  rewrite <- !app_assoc. rewrite E1. cbn [bind].
  assert (E2 : (if dt <? 3 then take 4 (ivl ++ be_enc 2 blen ++ rest)
                else Ok ([], ivl ++ be_enc 2 blen ++ rest))
               = Ok (ivl, be_enc 2 blen ++ rest)).
  { subst ivl. destruct (dt <? 3) eqn:E3; [|reflexivity].
    apply take_app_n. rewrite len_app, !be_enc_len. reflexivity. }
  rewrite E2. cbn [bind].
  rewrite (take_app_n 2 (be_enc 2 blen)) by apply be_enc_len. cbn [bind].
  rewrite be_enc2, !be_dec2 by assumption.
  f_equal. f_equal.
  assert (Ets : (if dt =? 4 then 0 else be_dec tsl) = ts).
  { subst tsl. revert Hts. destruct (dt =? 4); intros Hts. auto. apply be_dec_enc. exact Hts. }
  assert (Eifi : (if dt <? 3 then be_dec (firstn 2 ivl) else 0) = ifi).
  { subst ivl. revert Hiv. destruct (dt <? 3); intros Hiv. rewrite be_enc2. cbn [app firstn]. apply be_dec2. tauto. symmetry; tauto. }
  assert (Efi : (if dt <? 3 then be_dec (skipn 2 ivl) else 0) = fi).
  { subst ivl. revert Hiv. destruct (dt <? 3); intros Hiv. rewrite !be_enc2. cbn [app skipn]. apply be_dec2. tauto. symmetry; tauto. }
  rewrite Ets, Eifi, Efi, <- Hvid. reflexivity.
Qed.

Theorem one_packet r p rest : wf_packet p ->
  decode r (std_packet p ++ rest) = Ok (p, rest).
Proof.
  intros W. unfold decode. rewrite std_packet_split, <- app_assoc, (head_ok r) by exact W.
  cbn [bind]. destruct W as (_ & _ & _ & _ & _ & _ & _ & _ & _ & _ & _ & _ & _ & _ & Hbl & _ & _ & _).
  destruct p as [v pp x cc m pt sq sim ch dt sb ts ifi fi blen body video].
  proj_simpl. cbn [k_blen k_body] in Hbl.
  replace (len (body ++ rest) <? blen) with false by (rewrite len_app; lia).
  rewrite Hbl, take_app. reflexivity.
Qed.

(* ---- streams ---- *)
Lemma std_packet_nonempty p : exists b t, std_packet p = b :: t.
Proof. unfold std_packet, marker. cbn [app]. eauto. Qed.

Lemma decode_all_fuel ps : forall fuel, Forall wf_packet ps -> (length ps <= fuel)%nat ->
  decode_all fuel (flat_map std_packet ps) = Ok ps.
Proof.
  induction ps as [|p ps IH]; intros fuel W Hf.
  - destruct fuel; reflexivity.
  - inversion W as [|? ? Wp Wps]; subst. cbn [flat_map].
    destruct (std_packet_nonempty p) as (b & t & E).
    destruct fuel as [|f]; [cbn in Hf; lia|].
    cbn [decode_all]. rewrite E. cbn [app]. rewrite (app_comm_cons t), <- E.
    rewrite one_packet by exact Wp. cbn [bind].
    rewrite IH; auto. cbn in Hf. lia.
Qed.

Lemma decode_all_reuse_fuel ps : forall fuel r, Forall wf_packet ps -> (length ps <= fuel)%nat ->
  decode_all_reuse fuel r (flat_map std_packet ps) = Ok ps.
Proof.
  induction ps as [|p ps IH]; intros fuel r W Hf.
  - destruct fuel; reflexivity.
  - inversion W as [|? ? Wp Wps]; subst. cbn [flat_map].
    destruct (std_packet_nonempty p) as (b & t & E).
    destruct fuel as [|f]; [cbn in Hf; lia|].
    cbn [decode_all_reuse]. rewrite E. cbn [app]. rewrite (app_comm_cons t), <- E.
    rewrite one_packet by exact Wp. cbn [bind].
    rewrite IH; auto. cbn in Hf. lia.
Qed.

Definition decode_stream (d : list N) : result (list pkt) := decode_all (length d) d.

Lemma flat_map_length_ge ps : (length ps <= length (flat_map std_packet ps))%nat.
Proof.
  induction ps as [|p ps IH]; cbn [flat_map length]. lia.
  rewrite app_length. destruct (std_packet_nonempty p) as (b & t & E). rewrite E. cbn [length]. lia.
Qed.

Theorem stream ps : Forall wf_packet ps -> decode_stream (flat_map std_packet ps) = Ok ps.
Proof. intros W. apply decode_all_fuel. exact W. apply flat_map_length_ge. Qed.

Theorem stream_reuse r ps : Forall wf_packet ps -> decode_stream_reuse r (flat_map std_packet ps) = Ok ps.
Proof. intros W. apply decode_all_reuse_fuel. exact W. apply flat_map_length_ge. Qed.

(* ---- unqualified ---- *)
Theorem unqualified r d : (16 <= length d)%nat -> firstn 4 d <> marker ->
  decode r d = Err E1078_UNQUALIFIED.
Proof.
  intros Hl Hm.
  do 16 (destruct d as [|? d]; [cbn in Hl; lia|]).
  unfold decode, decode_head.
  destruct (list_eqb _ marker) eqn:E.
  - apply list_eqb_spec in E. cbn [firstn] in Hm. congruence.
  - reflexivity.
Qed.

(* ---- too short ---- *)
Lemma head_short r p d s : wf_packet p -> d ++ s = std_head p -> s <> [] ->
  decode_head r d = Err E1078_SHORT_HEAD.
Proof.
  intros W E Hs.
  pose proof (std_head_len p) as HL.
  destruct p as [v pp x cc m pt sq sim ch dt sb ts ifi fi blen body video].
  unfold wf_packet in W; revert W HL E; proj_simpl.
  intros (Hv & Hp & Hx & Hcc & Hm & Hpt & Hsq & Hsl & Hsb & Hch & Hdt & Hsub & Hts & Hiv & Hbl & Hbl2 & Hbody & Hvid) HL E.
  specialize (HL Hsl).
  destruct sim as [|m0 [|m1 [|m2 [|m3 [|m4 [|m5 [|? ?]]]]]]]; try discriminate Hsl.
  unfold std_head in E, HL. revert E HL. proj_simpl. rewrite be_enc2. unfold marker at 1 2. cbn [app].
  intros E HL.
  do 16 (destruct d as [|? d]; [reflexivity|]; cbn [app] in E; injection E as -> E).
  unfold decode_head.
  change (list_eqb [48; 49; 99; 100] marker) with true. cbn [negb].
  destruct (type_fields dt sb Hdt Hsub) as (T1 & T2 & _). cbv zeta in T1, T2.
  rewrite T1. rewrite is_video_lt. unfold DT_PENETRATE.
  match goal with |- context [len ?l <? ?e] => assert (Hlen : (len l <? e) = true) end.
  { apply (f_equal (@length N)) in E. rewrite !app_length in E.
    assert (0 < length s)%nat by (destruct s; cbn [length]; [congruence | lia]).
    rewrite !len_cons. unfold len.
    destruct (dt =? 4); destruct (dt <? 3); cbn [length app] in E; lia. }
  rewrite Hlen. reflexivity.
Qed.

Theorem short r p d s : wf_packet p -> d ++ s = std_packet p -> s <> [] ->
  decode r d = Err E1078_SHORT_HEAD \/ decode r d = Err E1078_SHORT_BODY.
Proof.
  intros W E Hs. rewrite std_packet_split in E.
  destruct (Nat.lt_ge_cases (length d) (length (std_head p))) as [Hlt | Hge].
  - left. unfold decode.
    assert (exists s', d ++ s' = std_head p /\ s' <> []) as (s' & E' & Hs').
    { exists (skipn (length d) (std_head p)). split.
      - assert (F : firstn (length d) (std_head p ++ k_body p) = d)
          by (rewrite <- E, firstn_app, Nat.sub_diag, firstn_all; cbn [firstn]; apply app_nil_r).
        rewrite firstn_app in F. replace (length d - length (std_head p))%nat with 0%nat in F by lia.
        cbn [firstn] in F. rewrite app_nil_r in F. rewrite <- F at 1. apply firstn_skipn.
      - intros C. apply (f_equal (@length N)) in C. rewrite skipn_length in C. cbn [length] in C. lia. }
    rewrite (head_short r p d s' W E' Hs'). reflexivity.
  - right. unfold decode.
    assert (exists b', d = std_head p ++ b' /\ b' ++ s = k_body p) as (b' & -> & Eb).
    { exists (skipn (length (std_head p)) d).
      assert (F : firstn (length (std_head p)) (d ++ s) = std_head p)
        by (rewrite E, firstn_app, Nat.sub_diag, firstn_all; cbn [firstn]; apply app_nil_r).
      rewrite firstn_app in F. replace (length (std_head p) - length d)%nat with 0%nat in F by lia.
      cbn [firstn] in F. rewrite app_nil_r in F.
      split. rewrite <- F at 1. symmetry. apply firstn_skipn.
      rewrite <- (firstn_skipn (length (std_head p)) d) in E. rewrite F, <- app_assoc in E.
      apply app_inv_head in E. exact E. }
    rewrite (head_ok r) by exact W. cbn [bind].
    destruct W as (_ & _ & _ & _ & _ & _ & _ & _ & _ & _ & _ & _ & _ & _ & Hbl & _ & _ & _).
    destruct p as [v pp x cc m pt sq sim ch dt sb ts ifi fi blen body video].
    proj_simpl. cbn [k_blen k_body] in *.
    assert (0 < len s) by (destruct s; [congruence|rewrite len_cons; lia]).
    replace (len b' <? blen) with true. reflexivity.
    rewrite Hbl, <- Eb, len_app. lia.
Qed.

(* ---- totality, for every receiver (since fix b666e97 the receiver's state is cleared) ---- *)
Lemma take_not_panic n l : n <= len l -> exists a b, take n l = Ok (a, b) /\ len b = len l - n.
Proof.
  intros H. destruct (take_ok n l H) as (a & b & E & -> & L). exists a, b. split; auto.
  rewrite len_app. lia.
Qed.

Theorem total r d : decode r d <> Panic.
Proof.
  unfold decode, decode_head.
  do 16 (destruct d as [|? d]; [discriminate|]).
  destruct (negb _); [discriminate|].
  match goal with |- context [N.land (N.shiftr ?t 4) 15] => set (dt := N.land (N.shiftr t 4) 15) end.
  proj_simpl. unfold DT_PENETRATE.
  destruct (len _ <? _) eqn:Hl; [discriminate|].
  rewrite !len_cons in Hl. rewrite is_video_lt in *.
  destruct (dt =? 4) eqn:E4; destruct (dt <? 3) eqn:E3; try lia.
  - cbn [bind]. destruct (take_not_panic 2 d ltac:(lia)) as (a & b & -> & L). cbn [bind]. proj_simpl.
    destruct (len b <? be_dec a) eqn:Hb; [discriminate|].
    destruct (take_not_panic (be_dec a) b ltac:(lia)) as (a' & b' & -> & _). discriminate.
  - destruct (take_not_panic 8 d ltac:(lia)) as (a0 & b0 & -> & L0). cbn [bind].
    destruct (take_not_panic 4 b0 ltac:(lia)) as (a1 & b1 & -> & L1). cbn [bind].
    destruct (take_not_panic 2 b1 ltac:(lia)) as (a & b & -> & L). cbn [bind]. proj_simpl.
    destruct (len b <? be_dec a) eqn:Hb; [discriminate|].
    destruct (take_not_panic (be_dec a) b ltac:(lia)) as (a' & b' & -> & _). discriminate.
  - destruct (take_not_panic 8 d ltac:(lia)) as (a0 & b0 & -> & L0). cbn [bind].
    cbn [bind]. destruct (take_not_panic 2 b0 ltac:(lia)) as (a & b & -> & L). cbn [bind]. proj_simpl.
    destruct (len b <? be_dec a) eqn:Hb; [discriminate|].
    destruct (take_not_panic (be_dec a) b ltac:(lia)) as (a' & b' & -> & _). discriminate.
Qed.

Theorem total_fresh d : decode fresh_pkt d <> Panic.
Proof. apply total. Qed.

(* the result never depends on what the receiver decoded before *)
Theorem receiver_irrelevant r d : decode r d = decode fresh_pkt d.
Proof.
  unfold decode, decode_head.
  do 16 (destruct d as [|? d]; [reflexivity|]).
  destruct (negb _); [reflexivity|].
  destruct (len _ <? _); [reflexivity|].
  destruct (if _ =? DT_PENETRATE then _ else _) as [[tsb r1]| |]; try reflexivity. cbn [bind].
  destruct (if is_video_dt _ then _ else _) as [[iv r2]| |]; try reflexivity. cbn [bind].
  destruct (take 2 r2) as [[lb r3]| |]; try reflexivity.
Qed.

(* Proofs about Model/Frame.v: escape/unescape, checksum, property word, encode/decode. *)
From JT.Base Require Import Prelude PreludeP.
From JT.Model Require Import Frame.
From Coq Require Import ZArith ZifyN ZifyNat ZifyBool.
Ltac Zify.zify_post_hook ::= Z.div_mod_to_equations.

(* ---------------- escape / unescape ---------------- *)
Lemma unesc_esc l : forall rest r, unesc rest = Ok r ->
  unesc (flat_map esc1 l ++ rest) = Ok (l ++ r).
Proof.
  induction l as [|b l IH]; intros rest r Hr; cbn [flat_map app]; [exact Hr|].
  rewrite <- app_assoc.
  unfold esc1 at 1. destruct (b =? 126) eqn:E6; [|destruct (b =? 125) eqn:E5].
  - apply N.eqb_eq in E6. subst b. cbn [app unesc]. change (125 =? 125) with true. cbv iota.
    change (2 =? 1) with false. change (2 =? 2) with true. cbv iota.
    rewrite (IH rest r Hr). reflexivity.
  - apply N.eqb_eq in E5. subst b. cbn [app unesc]. change (125 =? 125) with true. cbv iota.
    change (1 =? 1) with true. cbv iota. rewrite (IH rest r Hr). reflexivity.
  - cbn [app unesc]. rewrite E5. rewrite (IH rest r Hr). reflexivity.
Qed.

Lemma unesc_escape l : unesc (flat_map esc1 l) = Ok l.
Proof.
  pose proof (unesc_esc l [] [] eq_refl) as H. now rewrite !app_nil_r in H.
Qed.

Lemma esc1_no_delim b : Forall (fun x => x <> 126) (esc1 b).
Proof.
  unfold esc1. destruct (b =? 126) eqn:E6; [|destruct (b =? 125) eqn:E5];
    repeat constructor; lia.
Qed.

Lemma escape_interior_no_delim l : Forall (fun x => x <> 126) (flat_map esc1 l).
Proof.
  induction l as [|b l IH]; cbn [flat_map]. constructor.
  apply Forall_app. split. apply esc1_no_delim. exact IH.
Qed.

Lemma esc1_nonempty b : esc1 b <> [].
Proof. unfold esc1. destruct (b =? 126); [|destruct (b =? 125)]; discriminate. Qed.

Lemma flat_esc_nonempty l : l <> [] -> flat_map esc1 l <> [].
Proof.
  destruct l as [|b l]; [congruence|]. intros _. cbn [flat_map].
  pose proof (esc1_nonempty b). destruct (esc1 b); [congruence|discriminate].
Qed.

Lemma removelast_app_one {A} (l : list A) x : removelast (l ++ [x]) = l.
Proof. rewrite removelast_app by discriminate. cbn. apply app_nil_r. Qed.

Lemma last_app_one {A} (l : list A) x d : last (l ++ [x]) d = x.
Proof. induction l as [|y l IH]; [reflexivity|]. cbn [app]. rewrite <- IH at 2.
  destruct (l ++ [x]) eqn:E; [destruct l; discriminate|reflexivity]. Qed.

(* unescape of a delimited string whose interior is non-empty *)
Lemma unescape_delimited w : w <> [] -> unescape (126 :: w ++ [126]) = unesc w.
Proof.
  intros Hw. unfold unescape.
  assert (L : (2 <? len (126 :: w ++ [126])) = true).
  { rewrite len_cons, len_app, len_cons, len_nil. destruct w; [congruence|]. rewrite len_cons. lia. }
  rewrite L. cbn [hd tl]. change (126 =? 126) with true.
  change (last (126 :: w ++ [126]) 0) with (last (w ++ [126]) 0) || idtac.
  assert (La : last (126 :: w ++ [126]) 0 = 126).
  { change (126 :: w ++ [126]) with ((126 :: w) ++ [126]). apply last_app_one. }
  rewrite La. change (126 =? 126) with true. cbn [andb negb].
  now rewrite removelast_app_one.
Qed.

Lemma unescape_escape l : l <> [] -> unescape (escape l) = Ok l.
Proof.
  intros H. unfold escape. rewrite unescape_delimited by (apply flat_esc_nonempty, H).
  apply unesc_escape.
Qed.

(* ---------------- checksum ---------------- *)
Lemma xor_all_self p : xor_all (p ++ [xor_all p]) = 0.
Proof. rewrite xor_all_app. cbn [xor_all]. rewrite N.lxor_0_r. apply N.lxor_nilpotent. Qed.

Lemma lxor_byte a b : a < 256 -> b < 256 -> N.lxor a b < 256.
Proof.
  intros Ha Hb.
  destruct (N.eq_dec (N.lxor a b) 0) as [E|E]; [lia|].
  apply N.log2_lt_pow2 with (b := 8); [lia|].
  eapply N.le_lt_trans. apply N.log2_lxor.
  destruct (N.eq_dec a 0) as [->|Na]; destruct (N.eq_dec b 0) as [->|Nb]; cbn [N.log2 N.max]; try lia.
  - apply N.max_lub_lt; [cbn; lia|]. apply N.log2_lt_pow2; lia.
  - apply N.max_lub_lt; [|cbn; lia]. apply N.log2_lt_pow2; lia.
  - apply N.max_lub_lt; apply N.log2_lt_pow2; lia.
Qed.

Lemma xor_all_byte p : bytes p -> xor_all p < 256.
Proof.
  induction p as [|b p IH]; intros H; cbn [xor_all]. lia.
  apply bytes_cons in H. destruct H as [Hb Hp]. apply lxor_byte; auto.
Qed.

(* ---------------- the property word ---------------- *)
Lemma prop_fields ver enc blen : ver < 2 -> enc < 2 -> blen < 1024 ->
  let a := prop_word ver enc blen in
  a < 65536 /\ N.land (N.shiftr a 14) 1 = ver /\ N.land (N.shiftr a 13) 1 = 0 /\
  N.shiftr (N.land a 1024) 10 = enc /\ N.land a 1023 = blen.
Proof.
  intros Hv He Hb.
  assert (S : forallb (fun ver => forallb (fun enc => forallb (fun blen =>
    let a := prop_word ver enc blen in
    (a <? 65536) && (N.land (N.shiftr a 14) 1 =? ver) && (N.land (N.shiftr a 13) 1 =? 0) &&
    (N.shiftr (N.land a 1024) 10 =? enc) && (N.land a 1023 =? blen))
    (nrange 1024)) (nrange 2)) (nrange 2) = true) by (vm_compute; reflexivity).
  pose proof (sweep 2 _ S ver Hv) as S1. cbv beta in S1.
  pose proof (sweep 2 _ S1 enc He) as S2. cbv beta in S2.
  pose proof (sweep 1024 _ S2 blen Hb) as S3. cbv beta zeta in S3.
  cbv zeta. lia.
Qed.

(* the part of decode after unescape *)
Definition parse_payload (p : list N) : result msg :=
  if negb (xor_all p =? 0) then Err E_CHECK else
  if len p <? 4 then Err E_HEAD_SHORT else
  let attr := be16 (at_ p 2) (at_ p 3) in
  let ver := N.land (N.shiftr attr 14) 1 in
  let frag := N.land (N.shiftr attr 13) 1 in
  let enc := N.shiftr (N.land attr 1024) 10 in
  let blen := N.land attr 1023 in
  let start := if ver =? 1 then 5 else 4 in
  let plen := if ver =? 1 then 10 else 6 in
  if len p <? start + plen + 2 then Err E_HEAD_SHORT else
  let ser := be16 (at_ p (start + plen)) (at_ p (start + plen + 1)) in
  if (frag =? 1) && (len p <? start + plen + 6) then Err E_HEAD_SHORT else
  let hend := if frag =? 1 then start + plen + 6 else start + plen + 2 in
  if negb (hend + blen + 1 =? len p) then Err E_BODY_LEN else
  Ok {| m_id := be16 (at_ p 0) (at_ p 1); m_len := blen; m_enc := enc; m_frag := frag; m_ver := ver;
        m_bcd := sub p start (start + plen); m_serial := ser;
        m_sum := if frag =? 1 then be16 (at_ p (start + plen + 2)) (at_ p (start + plen + 3)) else 0;
        m_no  := if frag =? 1 then be16 (at_ p (start + plen + 4)) (at_ p (start + plen + 5)) else 0;
        m_body := sub p hend (hend + blen); m_check := at_ p (hend + blen) |}.

Lemma decode_unfold d : decode d = (p <- unescape d ;; parse_payload p).
Proof. reflexivity. Qed.

(* headers that Decode can produce (boolean-checkable) *)
Definition decoded_header (h : msg) : Prop :=
  m_ver h < 2 /\ m_enc h < 2 /\ m_id h < 65536 /\ bytes (m_bcd h) /\
  length (m_bcd h) = (if m_ver h =? 1 then 10%nat else 6%nat).

Lemma be16_split x : x < 65536 -> be16 (x / 256 mod 256) (x mod 256) = x.
Proof. intros H. unfold be16. lia. Qed.

Lemma sub_body pre body chk n : len pre = n ->
  sub (pre ++ body ++ [chk]) n (n + len body) = body.
Proof.
  intros <-. unfold sub. replace (len pre + len body - len pre) with (len body) by lia.
  unfold len. rewrite !Nat2N.id, skipn_app, skipn_all, Nat.sub_diag. cbn [skipn app].
  rewrite firstn_app, Nat.sub_diag, firstn_all. cbn [firstn]. apply app_nil_r.
Qed.

Lemma at_after pre body chk n : len pre = n -> at_ (pre ++ body ++ [chk]) (n + len body) = chk.
Proof.
  intros <-. unfold at_. replace (len pre + len body) with (len (pre ++ body)) by (rewrite len_app; lia).
  unfold len. rewrite Nat2N.id, app_assoc, app_nth2, Nat.sub_diag by lia. reflexivity.
Qed.

Definition encoded_msg (h : msg) (rid ps : N) (body : list N) : msg :=
  {| m_id := if rid =? 0 then m_id h else rid; m_len := len body; m_enc := m_enc h; m_frag := 0;
     m_ver := m_ver h; m_bcd := m_bcd h; m_serial := ps; m_sum := 0; m_no := 0; m_body := body;
     m_check := xor_all (encode_payload h rid ps body) |}.

Lemma parse_encode_payload h rid ps body :
  decoded_header h -> rid < 65536 -> ps < 65536 -> len body <= 1023 ->
  let p := encode_payload h rid ps body in
  parse_payload (p ++ [xor_all p]) = Ok (encoded_msg h rid ps body).
Proof.
  intros (Hv & He & Hid & Hb & Hl) Hr Hp Hbody p.
  unfold parse_payload. rewrite xor_all_self. change (negb (0 =? 0)) with false. cbv iota.
  set (id := if rid =? 0 then m_id h else rid).
  assert (Hid' : id < 65536) by (subst id; destruct (rid =? 0); assumption).
  destruct (prop_fields (m_ver h) (m_enc h) (len body) Hv He ltac:(lia)) as (A0 & A1 & A2 & A3 & A4).
  cbv zeta in A0, A1, A2, A3, A4.
  set (attr := prop_word (m_ver h) (m_enc h) (len body)) in *.
  assert (Ep : p ++ [xor_all p] =
    ([id / 256 mod 256; id mod 256; attr / 256 mod 256; attr mod 256] ++
     (if m_ver h =? 1 then [1] else []) ++ m_bcd h ++ [ps / 256 mod 256; ps mod 256]) ++ body ++ [xor_all p]).
  { subst p. unfold encode_payload. fold id. fold attr. now rewrite <- !app_assoc. }
  set (chk := xor_all p) in *. rewrite Ep. clear Ep.
  set (pre := [id / 256 mod 256; id mod 256; attr / 256 mod 256; attr mod 256] ++
     (if m_ver h =? 1 then [1] else []) ++ m_bcd h ++ [ps / 256 mod 256; ps mod 256]).
  assert (Lpre : len pre = (if m_ver h =? 1 then 5 else 4) + (if m_ver h =? 1 then 10 else 6) + 2).
  { subst pre. rewrite !len_app. unfold len at 3. rewrite Hl. destruct (m_ver h =? 1); reflexivity. }
  (* the first four bytes *)
  assert (P0 : forall t, at_ (pre ++ t) 0 = id / 256 mod 256) by reflexivity.
  assert (P1 : forall t, at_ (pre ++ t) 1 = id mod 256) by reflexivity.
  assert (P2 : forall t, at_ (pre ++ t) 2 = attr / 256 mod 256) by reflexivity.
  assert (P3 : forall t, at_ (pre ++ t) 3 = attr mod 256) by reflexivity.
  rewrite P0, P1, P2, P3, !be16_split by assumption.
  rewrite A1, A2, A3, A4. change (0 =? 1) with false. cbn [andb]. cbv iota.
  assert (Ltot : len (pre ++ body ++ [chk]) = len pre + len body + 1).
  { rewrite !len_app, len_cons, len_nil. lia. }
  rewrite Ltot.
  assert (Lge : 12 <= len pre) by (rewrite Lpre; destruct (m_ver h =? 1); lia).
  replace (len pre + len body + 1 <? 4) with false by lia.
  rewrite <- Lpre.
  replace (len pre + len body + 1 <? len pre) with false by lia.
  replace (len pre + len body + 1 =? len pre + len body + 1) with true by lia. cbn [negb]. cbv iota.
  rewrite (sub_body pre body chk (len pre) eq_refl), (at_after pre body chk (len pre) eq_refl).
  unfold encoded_msg. fold id. fold p. fold chk. f_equal.
  (* phone bytes and serial: positions inside pre *)
  assert (V : m_ver h = 0 \/ m_ver h = 1) by lia.
  destruct (m_bcd h) as [|b0 [|b1 [|b2 [|b3 [|b4 [|b5 t6]]]]]] eqn:Eb;
    try (destruct V as [V|V]; rewrite V in Hl; cbn in Hl; discriminate Hl).
  destruct V as [V|V].
  - rewrite V in Hl. change (0 =? 1) with false in Hl. cbv iota in Hl.
    destruct t6; [|discriminate Hl]. subst pre. rewrite !V. change (0 =? 1) with false. cbv iota.
    cbn [app]. f_equal; try reflexivity.
    unfold at_, be16. replace (N.to_nat (4 + 6)) with 10%nat by reflexivity.
    replace (N.to_nat (4 + 6 + 1)) with 11%nat by reflexivity. cbn [nth]. lia.
  - rewrite V in Hl. change (1 =? 1) with true in Hl. cbv iota in Hl.
    destruct t6 as [|b6 [|b7 [|b8 [|b9 [|? ?]]]]]; try discriminate Hl.
    subst pre. rewrite !V. change (1 =? 1) with true. cbv iota.
    cbn [app]. f_equal; try reflexivity.
    unfold at_, be16. replace (N.to_nat (5 + 10)) with 15%nat by reflexivity.
    replace (N.to_nat (5 + 10 + 1)) with 16%nat by reflexivity. cbn [nth]. lia.
Qed.

(* ---------------- C01: round trip and delimiter transparency ---------------- *)
Theorem decode_encode h rid ps body :
  decoded_header h -> rid < 65536 -> ps < 65536 -> (length body <= 1023)%nat ->
  decode (encode h rid ps body) = Ok (encoded_msg h rid ps body).
Proof.
  intros Hh Hr Hp Hb. rewrite decode_unfold. unfold encode.
  rewrite unescape_escape by (destruct (encode_payload h rid ps body); discriminate).
  cbn [bind]. apply parse_encode_payload; auto. unfold len. lia.
Qed.

Theorem encode_delimiters h rid ps body :
  exists mid, encode h rid ps body = 126 :: mid ++ [126] /\ Forall (fun b => b <> 126) mid.
Proof.
  unfold encode, escape. eexists. split. reflexivity. apply escape_interior_no_delim.
Qed.

(* ---------------- decode produces decoded headers ---------------- *)
Lemma unesc_bytes_n n : forall w p, (length w <= n)%nat -> bytes w -> unesc w = Ok p -> bytes p.
Proof.
  induction n as [|n IH]; intros w p Hn Hw Hu.
  - destruct w; [|cbn in Hn; lia]. inversion Hu. constructor.
  - destruct w as [|b t]; cbn [unesc] in Hu.
    + inversion Hu. constructor.
    + cbn [length] in Hn. apply bytes_cons in Hw. destruct Hw as [Hb Ht].
      destruct (b =? 125) eqn:E5.
      * destruct t as [|c t']. inversion Hu. repeat constructor.
        apply bytes_cons in Ht. destruct Ht as [Hc Ht']. cbn [length] in Hn.
        destruct (c =? 1); [|destruct (c =? 2); [|discriminate Hu]];
          destruct (unesc t') as [r| |] eqn:Er; cbn [bind] in Hu; try discriminate Hu;
          inversion Hu; subst p; apply bytes_cons; (split; [lia|]);
          apply (IH t'); auto; lia.
      * destruct (unesc t) as [r| |] eqn:Er; cbn [bind] in Hu; try discriminate Hu.
        inversion Hu; subst p. apply bytes_cons. split; auto. apply (IH t); auto. lia.
Qed.

Lemma unesc_bytes w p : bytes w -> unesc w = Ok p -> bytes p.
Proof. apply (unesc_bytes_n (length w)). lia. Qed.

Lemma bytes_tl l : bytes l -> bytes (tl l).
Proof. destruct l; cbn [tl]; intros H; [constructor|]. apply bytes_cons in H; tauto. Qed.

Lemma bytes_removelast l : bytes l -> bytes (removelast l).
Proof.
  induction l as [|b l IH]; intros H; cbn [removelast]. constructor.
  apply bytes_cons in H. destruct H as [Hb Hl]. destruct l. constructor.
  apply bytes_cons. split; auto.
Qed.

Lemma unescape_bytes d p : bytes d -> unescape d = Ok p -> bytes p.
Proof.
  unfold unescape. intros Hd. destruct (negb _); [discriminate|].
  apply unesc_bytes. apply bytes_removelast, bytes_tl, Hd.
Qed.

Lemma bytes_at p i : bytes p -> at_ p i < 256.
Proof.
  intros H. unfold at_. destruct (nth_in_or_default (N.to_nat i) p 0) as [Hin|E]; [|rewrite E; lia].
  unfold bytes in H. rewrite Forall_forall in H. apply H, Hin.
Qed.

Lemma bytes_firstn n : forall l, bytes l -> bytes (firstn n l).
Proof.
  induction n as [|n IH]; intros l H; cbn [firstn]. constructor.
  destruct l as [|b l]. constructor. apply bytes_cons in H. apply bytes_cons. split. tauto. apply IH; tauto.
Qed.
Lemma bytes_skipn n : forall l, bytes l -> bytes (skipn n l).
Proof.
  induction n as [|n IH]; intros l H; cbn [skipn]. exact H.
  destruct l as [|b l]. constructor. apply bytes_cons in H. apply IH; tauto.
Qed.
Lemma bytes_sub l i j : bytes l -> bytes (sub l i j).
Proof. intros H. unfold sub. apply bytes_firstn, bytes_skipn, H. Qed.

Lemma sub_length l i j : i <= j -> j <= len l -> length (sub l i j) = N.to_nat (j - i).
Proof.
  intros H1 H2. unfold sub. rewrite firstn_length, skipn_length. unfold len in H2. lia.
Qed.

Lemma land1_lt a : N.land a 1 < 2.
Proof. change 1 with (N.ones 1). rewrite N.land_ones. apply N.mod_lt. discriminate. Qed.

Lemma bit10_lt a : N.shiftr (N.land a 1024) 10 < 2.
Proof.
  rewrite N.shiftr_land. change (N.shiftr 1024 10) with 1. apply land1_lt.
Qed.

Lemma parse_payload_header p m : bytes p -> parse_payload p = Ok m -> decoded_header m.
Proof.
  intros Hp. unfold parse_payload.
  destruct (negb (xor_all p =? 0)); [discriminate|].
  destruct (len p <? 4); [discriminate|].
  set (attr := be16 (at_ p 2) (at_ p 3)).
  set (ver := N.land (N.shiftr attr 14) 1).
  destruct (len p <? _) eqn:L1; [discriminate|].
  destruct (_ && _); [discriminate|].
  destruct (negb _); [discriminate|].
  intros H. apply (f_equal (fun r => match r with Ok x => x | _ => m end)) in H. cbv beta iota in H. rewrite <- H. clear H. unfold decoded_header. cbn [m_ver m_enc m_id m_bcd].
  repeat split.
  - apply land1_lt.
  - apply bit10_lt.
  - unfold be16. pose proof (bytes_at p 0 Hp). pose proof (bytes_at p 1 Hp). lia.
  - apply bytes_sub, Hp.
  - fold ver. rewrite sub_length by (destruct (ver =? 1); lia).
    destruct (ver =? 1); reflexivity.
Qed.

Theorem decode_gives_decoded_header d m : bytes d -> decode d = Ok m -> decoded_header m.
Proof.
  intros Hd. rewrite decode_unfold. destruct (unescape d) as [p| |] eqn:E; cbn [bind]; try discriminate.
  apply parse_payload_header. eapply unescape_bytes; eauto.
Qed.

(* ---------------- bounds: the checked decoder equals the unchecked one ---------------- *)
Lemma firstn2_skipn (i : nat) : forall l : list N, (i + 2 <= length l)%nat ->
  firstn 2 (skipn i l) = [nth i l 0; nth (S i) l 0].
Proof.
  induction i as [|i IH]; intros l H.
  - destruct l as [|a [|b l]]; cbn [length] in H; try lia. reflexivity.
  - destruct l as [|a l]; cbn [length] in H; try lia. cbn [skipn]. rewrite IH by lia. reflexivity.
Qed.

Lemma be16_at_ok p i : i + 2 <= len p -> be16_at p i = Ok (be16 (at_ p i) (at_ p (i + 1))).
Proof.
  intros H. unfold be16_at, slice.
  replace ((i <=? i + 2) && (i + 2 <=? len p)) with true by lia. cbn [bind].
  replace (i + 2 - i) with 2 by lia. change (N.to_nat 2) with 2%nat.
  unfold len in H. rewrite firstn2_skipn by lia.
  unfold be_dec, be16, at_. cbn [be_dec_acc]. replace (N.to_nat (i + 1)) with (S (N.to_nat i)) by lia.
  f_equal.
Qed.

Lemma slice_ok p i j : i <= j -> j <= len p -> slice p i j = Ok (sub p i j).
Proof. intros H1 H2. unfold slice, sub. replace ((i <=? j) && (j <=? len p)) with true by lia. reflexivity. Qed.

Lemma idx_ok p i : i < len p -> idx p i = Ok (at_ p i).
Proof.
  intros H. unfold idx, at_. unfold len in H.
  destruct (nth_error p (N.to_nat i)) eqn:E.
  - f_equal. symmetry. apply nth_error_nth. exact E.
  - apply nth_error_None in E. lia.
Qed.

Theorem decode_chk_eq d : decode_chk d = decode d.
Proof.
  unfold decode_chk. rewrite decode_unfold.
  destruct (unescape d) as [p| |]; cbn [bind]; try reflexivity.
  unfold parse_payload.
  destruct (negb (xor_all p =? 0)); [reflexivity|].
  destruct (len p <? 4) eqn:L4; [reflexivity|].
  rewrite (be16_at_ok p 0) by lia. cbn [bind].
  rewrite (be16_at_ok p 2) by lia. cbn [bind].
  change (2 + 1) with 3. change (0 + 1) with 1.
  set (attr := be16 (at_ p 2) (at_ p 3)).
  set (ver := N.land (N.shiftr attr 14) 1).
  set (frag := N.land (N.shiftr attr 13) 1).
  set (start := if ver =? 1 then 5 else 4).
  set (plen := if ver =? 1 then 10 else 6).
  destruct (len p <? start + plen + 2) eqn:L1; [reflexivity|].
  rewrite slice_ok by lia. cbn [bind].
  rewrite (be16_at_ok p (start + plen)) by lia. cbn [bind].
  destruct ((frag =? 1) && (len p <? start + plen + 6)) eqn:L2; [reflexivity|].
  destruct (frag =? 1) eqn:F.
  - cbn [andb] in L2.
    rewrite (be16_at_ok p (start + plen + 2)) by lia. cbn [bind].
    rewrite (be16_at_ok p (start + plen + 4)) by lia. cbn [bind].
    destruct (negb (start + plen + 6 + N.land attr 1023 + 1 =? len p)) eqn:L3; [reflexivity|].
    rewrite slice_ok by lia. cbn [bind]. rewrite idx_ok by lia. cbn [bind].
    replace (start + plen + 2 + 1) with (start + plen + 3) by lia.
    replace (start + plen + 4 + 1) with (start + plen + 5) by lia. reflexivity.
  - cbn [bind].
    destruct (negb (start + plen + 2 + N.land attr 1023 + 1 =? len p)) eqn:L3; [reflexivity|].
    rewrite slice_ok by lia. cbn [bind]. rewrite idx_ok by lia. cbn [bind]. reflexivity.
Qed.

Theorem decode_chk_total d : decode_chk d <> Panic.
Proof.
  rewrite decode_chk_eq, decode_unfold.
  assert (U : forall w, unesc w <> Panic).
  { intros w. assert (G : forall n w, (length w <= n)%nat -> unesc w <> Panic).
    { induction n as [|n IH]; intros w0 Hn.
      - destruct w0; [discriminate|cbn in Hn; lia].
      - destruct w0 as [|b t]; [discriminate|]. cbn [unesc length] in *.
        destruct (b =? 125).
        + destruct t as [|c t']; [discriminate|]. cbn [length] in Hn.
          destruct (c =? 1); [|destruct (c =? 2); [|discriminate]];
            (destruct (unesc t') eqn:E; cbn [bind]; try discriminate; exfalso; apply (IH t'); [lia|exact E]).
        + destruct (unesc t) eqn:E; cbn [bind]; try discriminate. exfalso; apply (IH t); [lia|exact E]. }
    apply (G (length w)). lia. }
  unfold unescape. destruct (negb _); [discriminate|].
  destruct (unesc _) as [p| |] eqn:E; cbn [bind]; try discriminate.
  - unfold parse_payload. repeat (match goal with |- context [if ?c then _ else _] => destruct c end; try discriminate).
  - exfalso. eapply U; eauto.
Qed.

(* Regenerated-table obligations for the JT/T 1078 RTP HEADER (C17): the offsets, widths, bit extractions and the
   length arithmetic that Packet.decodeHead of protocol/jt1078/jt1078.go uses NOW (translator pass jt1078Layout, the
   gen_jt1078_ definitions) are the ones Model/Jt1078.v decode_head is written with.

   [gen_decode_head] is decodeHead written once more, by OFFSETS as the Go code does, with every constant taken from the
   regenerated definitions; [tables_jt1078_decode_head] proves it equal to Model/Jt1078.decode_head (which walks the
   input with a cursor) for every receiver and every input. *)
From JT.Base Require Import Prelude PreludeP.
From JT.Model Require Import Jt1078.
From JT.Gen Require Import Tables_gen.
From Coq Require Import String ZArith ZifyN ZifyNat ZifyBool.
Ltac Zify.zify_post_hook ::= Z.div_mod_to_equations.

Fixpoint sassoc3 (k : string) (l : list (string * N * N)) : N * N :=
  match l with [] => (0, 0) | (k', o, w) :: t => if String.eqb k' k then (o, w) else sassoc3 k t end.
Fixpoint sassocb (k : string) (l : list (string * (N * N * N))) : N * N * N :=
  match l with [] => (0, 0, 0) | (k', e) :: t => if String.eqb k' k then e else sassocb k t end.

(* data[o : o+w] *)
Definition span (d : list N) (ow : N * N) : list N := sub d (fst ow) (fst ow + snd ow).
Definition fixed (name : string) (d : list N) : list N := span d (sassoc3 name gen_jt1078_fixed).
(* (data[i] >> shift) & mask *)
Definition bits (name : string) (d : list N) : N :=
  match sassocb name gen_jt1078_bits with (i, sh, m) => N.land (N.shiftr (at_ d i) sh) m end.

Definition gen_decode_head (r : pkt) (d : list N) : result (pkt * list N) :=
  if len d <? gen_jt1078_min_len then Err E1078_SHORT_HEAD else
  if negb (list_eqb (fixed "ID" d) gen_jt1078_marker) then Err E1078_UNQUALIFIED else
  let dt := bits "DataType" d in
  let pen := dt =? gen_jt1078_penetrate in
  let video := existsb (N.eqb dt) gen_jt1078_video_types in
  let e := fst (fst gen_jt1078_end) + (if pen then 0 else snd (fst gen_jt1078_end)) + (if video then snd gen_jt1078_end else 0) in
  if len d <? e then Err E1078_SHORT_HEAD else
  let start := if pen then fst gen_jt1078_start else snd gen_jt1078_start in
  let iv1 := fst (fst gen_jt1078_intervals) in
  let iv2 := snd (fst gen_jt1078_intervals) in
  let start' := if video then start + snd gen_jt1078_intervals else start in
  Ok ({| k_v := bits "V" d; k_p := bits "P" d; k_x := bits "X" d; k_cc := bits "CC" d;
         k_m := bits "M" d; k_pt := bits "PT" d;
         k_seq := be_dec (fixed "Seq" d); k_sim := fixed "Sim" d;
         k_chan := at_ d (fst (sassoc3 "LogicChannel" gen_jt1078_fixed)); k_dt := dt; k_sub := bits "SubcontractType" d;
         k_ts := if pen then 0 else be_dec (span d gen_jt1078_ts);
         k_ifi := if video then be_dec (span d (start + fst iv1, snd iv1)) else 0;
         k_fi := if video then be_dec (span d (start + fst iv2, snd iv2)) else 0;
         k_blen := be_dec (span d (start' + fst gen_jt1078_blen, snd gen_jt1078_blen));
         k_body := k_body r; k_video := video |},
      skipn (N.to_nat (start' + gen_jt1078_head_end)) d).

Lemma skipn_add {A} : forall a b (l : list A), skipn a (skipn b l) = skipn (b + a) l.
Proof. intros a b. induction b as [|b IH]; intros l; [reflexivity|]. destruct l; [now destruct a|]. cbn [skipn Nat.add]. apply IH. Qed.

Lemma video_types dt : existsb (N.eqb dt) gen_jt1078_video_types = is_video_dt dt.
Proof.
  unfold is_video_dt. cbn [gen_jt1078_video_types existsb]. rewrite orb_false_r, orb_assoc. reflexivity.
Qed.

Lemma span_app pre d o w : len pre <= o ->
  span (pre ++ d) (o, w) = firstn (N.to_nat w) (skipn (N.to_nat o - List.length pre) d).
Proof.
  intros H. unfold span, sub. cbn [fst snd]. replace (o + w - o) with w by lia.
  rewrite skipn_app. rewrite (skipn_all2 pre) by (unfold len in H; lia). reflexivity.
Qed.
Lemma skipn_app_pre (pre d : list N) k : (List.length pre <= k)%nat -> skipn k (pre ++ d) = skipn (k - List.length pre) d.
Proof. intros H. rewrite skipn_app, (skipn_all2 pre) by lia. reflexivity. Qed.

Ltac norm_nat :=
  repeat match goal with |- context [N.to_nat ?x] =>
    let v := eval vm_compute in (N.to_nat x) in change (N.to_nat x) with v end.

Theorem tables_jt1078_decode_head : forall r d, decode_head r d = gen_decode_head r d.
Proof.
  intros r d. unfold gen_decode_head.
  do 16 (destruct d as [|? d]; [reflexivity|]).
  cbn [decode_head].
  remember (n :: n0 :: n1 :: n2 :: n3 :: n4 :: n5 :: n6 :: n7 :: n8 :: n9 :: n10 :: n11 :: n12 :: n13 :: n14 :: d) as L eqn:EL.
  assert (HL : len L = 16 + len d) by (subst L; rewrite !len_cons; lia).
  assert (Hmin : (len L <? gen_jt1078_min_len) = false) by (unfold gen_jt1078_min_len; apply N.ltb_ge; rewrite HL; apply N.le_add_r).
  rewrite Hmin.
  replace (fixed "ID" L) with [n; n0; n1; n2] by (subst L; reflexivity).
  change gen_jt1078_marker with marker.
  destruct (list_eqb [n; n0; n1; n2] marker); cbn [negb]; [|reflexivity].
  replace (bits "DataType" L) with (N.land (N.shiftr n14 4) 15) by (subst L; reflexivity).
  set (dt := N.land (N.shiftr n14 4) 15).
  rewrite video_types. change gen_jt1078_penetrate with DT_PENETRATE.
  cbn [gen_jt1078_end gen_jt1078_start gen_jt1078_intervals gen_jt1078_blen gen_jt1078_head_end gen_jt1078_ts fst snd].
  assert (Ht : forall k (l : list N), k <= len l -> take k l = Ok (firstn (N.to_nat k) l, skipn (N.to_nat k) l)).
  { intros k l H. unfold take. replace (k <=? len l) with true by lia. reflexivity. }
  assert (Hs : forall k (l : list N), len (skipn k l) = len l - N.of_nat k) by (intros; unfold len; rewrite skipn_length; lia).
  assert (EL' : L = [n; n0; n1; n2; n3; n4; n5; n6; n7; n8; n9; n10; n11; n12; n13; n14] ++ d) by (subst L; reflexivity).
  destruct (dt =? DT_PENETRATE) eqn:Ep; destruct (is_video_dt dt) eqn:Ev;
    match goal with |- context [len L <? ?e] => destruct (len L <? e) eqn:El; [reflexivity|] end.
  all: repeat (cbn [bind]; try (rewrite Ht by (rewrite ?Hs, ?Hs; lia))).
  all: rewrite ?firstn_firstn, ?skipn_add.
  all: unfold gen_jt1078_ts; rewrite EL'; rewrite ?span_app by (apply N.leb_le; reflexivity); norm_nat.
  all: rewrite skipn_app_pre by (cbn [List.length]; lia).
  all: cbn [List.length Nat.sub Nat.min Nat.add]; rewrite ?firstn_skipn_comm; cbn [Nat.add]; rewrite ?skipn_add; cbn [Nat.add].
  all: reflexivity.
Qed.

(* Regenerated-table obligations for the frame layer (C01, C02, C04): the constants the Go source
   uses NOW (Gen/Tables_gen.v, regenerated on every run) are those of the hand-written model. *)
From JT.Base Require Import Prelude.
From JT.Model Require Import Frame.
From JT.Gen Require Import Tables_gen.
From Coq Require Import String.

(* escape(): `case flag0x7e: write {0x7d,0x02}; case flag0x7d: write {0x7d,0x01}; default: copy` *)
Definition gen_esc1 (b : N) : list N :=
  match gen_escape_cases with
  | [(k1, l1); (k2, l2)] => if b =? k1 then l1 else if b =? k2 then l2 else [b]
  | _ => []
  end.
Theorem tables_escape : forall b, esc1 b = gen_esc1 b.
Proof. intros b. reflexivity. Qed.

(* unescape(): beforeEscape = 0x7d, afterRecover = 0x7e; partner 0x01 -> 0x7d, partner 0x02 -> 0x7e.
   Model/Frame.unesc is written with exactly these literals. *)
Theorem tables_unescape : (gen_unescape_consts, gen_unescape_cases) = ([125; 126], [1; 2]).
Proof. reflexivity. Qed.

(* the connection's read buffer (maximum bytes per read) and the delimiter the stream splitter scans for *)
Theorem tables_read_buffer : gen_read_buffer_size = 1023.
Proof. reflexivity. Qed.
Theorem tables_stream_delimiter : gen_stream_delimiter = 126.
Proof. reflexivity. Qed.

(* the frame-layer shapes (escape constants, stream delimiter, read buffer, consts package) were all
   recognised by the translator on this tree; an unrecognised shape elsewhere is not this module's concern *)
Theorem tables_frame_all_recognised :
  filter (fun s => existsb (fun p => String.prefix p s)
                     ["escape_consts"; "stream_delimiter"; "read_buffer"; "consts"]%string) gen_unrecognised = [].
Proof. reflexivity. Qed.

(* Regenerated-table obligations for C08 / C03 (location family): the bit tables, the per-id length
   table and the dialect widths read from the Go source NOW equal the hand-written model tables,
   about which Props/C08.v proves agreement with the standard. *)
From JT.Base Require Import Prelude.
From JT.Model Require Import Location LocationExt.
From JT.Gen Require Import Tables_gen.

Theorem tables_alarm : (gen_alarm_fields, gen_alarm_table) = (alarm_fields, alarm_table).
Proof. reflexivity. Qed.
Theorem tables_status : (gen_status_fields, gen_status_table) = (status_fields, status_table).
Proof. reflexivity. Qed.
Theorem tables_extsig : (gen_extsig_fields, gen_extsig_table) = (extsig_fields, extsig_table).
Proof. reflexivity. Qed.
Theorem tables_io : (gen_io_fields, gen_io_table) = (io_fields, io_table).
Proof. reflexivity. Qed.
Theorem tables_item_len : gen_item_len_table = item_len_table.
Proof. reflexivity. Qed.
Theorem tables_table18 : (gen_table18_fields, gen_table18_table) = (table18_fields, table18_table).
Proof. reflexivity. Qed.
Theorem tables_dialect_widths : gen_dialect_widths = dialect_widths /\ gen_dialect_default = (tid_len 0, sign_len 0).
Proof. split; reflexivity. Qed.

(* Regenerated-table obligations for C06: createDefaultHandle and the HasReply / ReplyProtocol /
   Protocol constants of every registered type, read from the Go source NOW, equal the handler
   table of Model/Reply.v (same ids, same order, same HasReply, same reply id), and every type is
   registered under its own Protocol(). *)
From JT.Base Require Import Prelude.
From JT.Model Require Import Reply.
From JT.Gen Require Import Tables_gen.
From Coq Require Import String.

Theorem tables_reply_registry :
  map (fun p => (fst p, (fst (fst (snd p)), snd (fst (snd p))))) gen_reply_registry =
  map (fun p => (fst p, (hi_has (snd p), hi_rid (snd p)))) default_handles.
Proof. reflexivity. Qed.

Theorem tables_reply_protocol_is_key :
  forallb (fun p => fst p =? snd (snd p)) gen_reply_registry = true.
Proof. reflexivity. Qed.

(* which ReplyBody method every registered type ends up with (translator: simRegistry,
   gen_reply_body_decl = Protocol() of the declaring type, 0 for BaseHandle): the [rkind] column of the
   model's handler table *)
Definition reply_kind_code_ok (k : rkind) (code : N) : bool :=
  match k with
  | RGeneral => code =? 0
  | RRegister => code =? 0x0100
  | RAuth => code =? 0x0102
  | RMedia => code =? 0x0801
  | RFile => code =? 0x1212
  | REmpty => code =? 0x1003
  end.

Theorem tables_reply_body_kind :
  map fst gen_reply_body_decl = map fst default_handles /\
  forallb (fun pq => reply_kind_code_ok (hi_kind (snd (snd pq))) (snd (fst pq)))
          (combine gen_reply_body_decl default_handles) = true.
Proof. split; reflexivity. Qed.

(* the message ids the writer may hand to a waiting SendActiveMessage caller instead of answering
   them (the switch of connection.onActiveRespondEvent) = the ids for which the model's absorb move
   is enabled *)
Theorem tables_active_respond_ids : gen_active_respond_ids = response_ids.
Proof. reflexivity. Qed.

(* every accepted connection gets its own handler instances and its own connection object (channels,
   platformSerialNumber): what Props/C06.v C06_connections_independent rests on *)
Theorem tables_handles_per_connection : gen_handles_per_connection = true.
Proof. reflexivity. Qed.

(* capacities of the two channels of the reply path (newConnection) *)
Theorem tables_reply_chan_caps :
  In ("msgChan"%string, MSG_CAP) gen_chan_caps /\ In ("reissuePackChan"%string, REISSUE_CAP) gen_chan_caps.
Proof. split; unfold gen_chan_caps, MSG_CAP, REISSUE_CAP; cbn [In]; tauto. Qed.

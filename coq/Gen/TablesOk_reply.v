(* Regenerated-table obligations for C06: createDefaultHandle and the HasReply / ReplyProtocol /
   Protocol constants of every registered type, read from the Go source NOW, equal the handler
   table of Model/Reply.v (same ids, same order, same HasReply, same reply id), and every type is
   registered under its own Protocol(). *)
From JT.Base Require Import Prelude.
From JT.Model Require Import Reply.
From JT.Gen Require Import Tables_gen.

Theorem tables_reply_registry :
  map (fun p => (fst p, (fst (fst (snd p)), snd (fst (snd p))))) gen_reply_registry =
  map (fun p => (fst p, (hi_has (snd p), hi_rid (snd p)))) default_handles.
Proof. reflexivity. Qed.

Theorem tables_reply_protocol_is_key :
  forallb (fun p => fst p =? snd (snd p)) gen_reply_registry = true.
Proof. reflexivity. Qed.

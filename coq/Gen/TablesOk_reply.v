(* Regenerated-table obligations for C06: createDefaultHandle and the HasReply / ReplyProtocol /
   Protocol constants and ReplyBody methods of every registered type, read from the Go source NOW,
   agree with the handler table of Model/Reply.v.
   The tables are compared AS FINITE MAPS: createDefaultHandle is a Go map literal, the order of its
   entries is not behaviour (a refactoring may sort them), and Reply.lookup finds an id wherever it
   stands; what is checked is: same set of ids, no id twice, and for every id the same entry. *)
From JT.Base Require Import Prelude.
From JT.Model Require Import Reply.
From JT.Gen Require Import Tables_gen.
From Coq Require Import String.

Fixpoint nodupb (l : list N) : bool :=
  match l with [] => true | x :: t => negb (existsb (N.eqb x) t) && nodupb t end.
Definition subset (a b : list N) : bool := forallb (fun x => existsb (N.eqb x) b) a.

(* same ids, each once, same HasReply and ReplyProtocol *)
Theorem tables_reply_registry :
  forallb (fun p => match lookup (fst p) with
                    | Some hi => Bool.eqb (hi_has hi) (fst (fst (snd p))) && (hi_rid hi =? snd (fst (snd p)))
                    | None => false
                    end) gen_reply_registry = true /\
  subset (map fst default_handles) (map fst gen_reply_registry) = true /\
  nodupb (map fst gen_reply_registry) = true /\ nodupb (map fst default_handles) = true.
Proof. repeat split; reflexivity. Qed.

(* every type is registered under its own Protocol() *)
Theorem tables_reply_protocol_is_key :
  forallb (fun p => fst p =? snd (snd p)) gen_reply_registry = true.
Proof. reflexivity. Qed.

(* which ReplyBody method every registered type ends up with (translator: simRegistry,
   gen_reply_body_decl = Protocol() of the declaring type, 0 for BaseHandle): the [rkind] column of the
   model's handler table *)
Definition reply_kind_code_ok (k : rkind) (code : N) : bool :=
  match k with
  | RGeneral => code =? 0
  | RRegister => code =? 0x0100
  | RAuth => code =? 0x0102
  | RMedia => code =? 0x0801
  | RFile => code =? 0x1212
  | REmpty => code =? 0x1003
  end.

Theorem tables_reply_body_kind :
  forallb (fun p => match lookup (fst p) with
                    | Some hi => reply_kind_code_ok (hi_kind hi) (snd p)
                    | None => false
                    end) gen_reply_body_decl = true /\
  subset (map fst default_handles) (map fst gen_reply_body_decl) = true /\
  nodupb (map fst gen_reply_body_decl) = true.
Proof. repeat split; reflexivity. Qed.

(* capacities of the two channels of the reply path (newConnection) *)
Theorem tables_reply_chan_caps :
  In ("msgChan"%string, MSG_CAP) gen_chan_caps /\ In ("reissuePackChan"%string, REISSUE_CAP) gen_chan_caps.
Proof. split; unfold gen_chan_caps, MSG_CAP, REISSUE_CAP; cbn [In]; tauto. Qed.

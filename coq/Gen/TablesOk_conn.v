(* Regenerated-table obligation for C06 (own module: if the translator does not recognise the shape of
   GoJT808.Run / newConnection it omits gen_handles_per_connection, this module does not compile, and
   bin/check reports the tie as unavailable - a NOTE, not a broken obligation).
   Every accepted connection gets its own handler instances and its own connection object (channels,
   platformSerialNumber): the assumption behind Props/C06.v C06_connections_independent.  The translator
   emits true when createDefaultHandle() and newConnection() are called inside the accept loop, directly or
   through one helper called in the loop; false when they are positively called elsewhere only. *)
From JT.Gen Require Import Tables_gen.

Theorem tables_handles_per_connection : gen_handles_per_connection = true.
Proof. reflexivity. Qed.

(* Regenerated-table obligations for the JT/T 808 frame HEADER (C01, C02, C04): the offsets, widths, guards, masks and
   shifts that protocol/jt808/jt808.go uses NOW (Header.decode, BodyProperty.decode / encode, Header.Encode; read by the
   translator pass frameLayout into the gen_frame_ definitions) are the ones Model/Frame.v is written with.

   The comparison is not "table = literal": [gen_decode] below is JTMessage.Decode written ONCE MORE, with every layout
   constant taken from the regenerated definitions, and [tables_frame_decode] proves it equal to Model/Frame.decode for
   every input; likewise [gen_prop_word] / [gen_encode_payload] against Frame.prop_word / Frame.encode_payload.  An
   offset, width, mask or shift changed in the source (in the decoder only, or in the encoder only) changes the
   regenerated definition and breaks the corresponding equation. *)
From JT.Base Require Import Prelude PreludeP.
From JT.Model Require Import Frame.
From JT.Gen Require Import Tables_gen.
From Coq Require Import String ZArith ZifyN ZifyNat ZifyBool.
Ltac Zify.zify_post_hook ::= Z.div_mod_to_equations.

Fixpoint sassoc {A} (k : string) (l : list (string * A)) : option A :=
  match l with [] => None | (k', a) :: t => if String.eqb k' k then Some a else sassoc k t end.

(* x + c for a constant c, written so that c = 0 leaves x untouched *)
Definition addc (x c : N) : N := if c =? 0 then x else x + c.

(* ((word >> pre) & mask) >> post *)
Definition extract (e : N * N * N * N) (w : N) : N :=
  match e with (pre, mask, post, _) => N.shiftr (N.land (N.shiftr w pre) mask) post end.
Definition prop_field (name : string) (w : N) : N :=
  let name := match sassoc name gen_frame_prop_alias with Some n => n | None => name end in
  match sassoc name gen_frame_prop_decode with Some e => extract e w | None => 0 end.

Definition lay_start (t : N * N * N) : N := fst (fst t).
Definition lay_phone (t : N * N * N) : N := snd (fst t).
Definition lay_version (t : N * N * N) : N := snd t.

Definition be16_span (p : list N) (base : N) (sp : N * N) : N :=
  be16 (at_ p (addc base (fst sp))) (at_ p (addc base (fst sp + 1))).

Definition gen_decode (d : list N) : result msg :=
  p <- unescape d ;;
  if negb (xor_all p =? 0) then Err E_CHECK else
  if len p <? gen_frame_min_len then Err E_HEAD_SHORT else
  let attr := be16 (at_ p (fst gen_frame_prop)) (at_ p (fst gen_frame_prop + 1)) in
  let ver := prop_field "Version" attr in
  let frag := prop_field "PacketFragmented" attr in
  let enc := prop_field "EncryptMethod" attr in
  let blen := prop_field "BodyDayaLen" attr in
  let start := if ver =? gen_frame_version_flag then lay_start gen_frame_2019 else lay_start gen_frame_2013 in
  let plen := if ver =? gen_frame_version_flag then lay_phone gen_frame_2019 else lay_phone gen_frame_2013 in
  if len p <? addc (start + plen) gen_frame_serial_guard then Err E_HEAD_SHORT else
  let ser := be16_span p (start + plen) gen_frame_serial in
  if (frag =? gen_frame_frag_flag) && (len p <? addc (start + plen) gen_frame_frag_guard) then Err E_HEAD_SHORT else
  let hend := if frag =? gen_frame_frag_flag then addc (start + plen) (gen_frame_head_end + gen_frame_frag_extra)
              else addc (start + plen) gen_frame_head_end in
  if negb (hend + blen + 1 =? len p) then Err E_BODY_LEN else
  Ok {| m_id := be16 (at_ p (fst gen_frame_id)) (at_ p (fst gen_frame_id + 1));
        m_len := blen; m_enc := enc; m_frag := frag; m_ver := ver;
        m_bcd := sub p start (start + plen); m_serial := ser;
        m_sum := if frag =? gen_frame_frag_flag then be16_span p (start + plen) gen_frame_sum else 0;
        m_no  := if frag =? gen_frame_frag_flag then be16_span p (start + plen) gen_frame_no else 0;
        m_body := sub p hend (hend + blen); m_check := at_ p (hend + blen) |}.

(* Header.decode + BodyProperty.decode: every offset, guard, mask and shift *)
Theorem tables_frame_decode : forall d, decode d = gen_decode d.
Proof. intros d. reflexivity. Qed.

(* the words are two bytes wide (binary.BigEndian.Uint16 of a two-byte slice) and the truncating conversions of
   BodyProperty.decode lose nothing of the four fields the model keeps (mask >> post fits the byte / the word);
   bit15 = byte(attribute & 0x8000) is always 0, and the model has no such field *)
Theorem tables_frame_widths :
  map snd [gen_frame_id; gen_frame_prop; gen_frame_serial; gen_frame_sum; gen_frame_no] = [2; 2; 2; 2; 2] /\
  forallb (fun n => match sassoc n gen_frame_prop_decode with
                    | Some (_, mask, post, trunc) => N.shiftr mask post <? trunc
                    | None => false end)
          ["bit14"; "PacketFragmented"; "EncryptMethod"; "BodyDayaLen"]%string = true /\
  match sassoc "bit15"%string gen_frame_prop_decode with
  | Some (pre, mask, post, trunc) => (pre =? 0) && (post =? 0) && (mask mod trunc =? 0)
  | None => false end = true /\
  (lay_version gen_frame_2013, lay_version gen_frame_2019) = (2, 3).
Proof. repeat split; reflexivity. Qed.

(* ---- BodyProperty.encode: the OR chain, fields in source order with their shifts *)
Definition gen_prop_word (vals : list N) : N :=
  fold_left (fun acc sv => N.lor acc (N.shiftl (snd sv) (fst sv))) (combine (map snd gen_frame_prop_encode) vals) 0.

Theorem tables_frame_prop_fields :
  map fst gen_frame_prop_encode = ["bit15"; "Version"; "PacketFragmented"; "EncryptMethod"; "BodyDayaLen"]%string.
Proof. reflexivity. Qed.

(* Header.Encode clears the fragment flag; bit15 is 0; the length is the body length as a uint16 *)
Theorem tables_frame_prop_word : forall ver enc blen,
  prop_word ver enc blen = gen_prop_word [0; ver; gen_frame_enc_frag; enc; blen mod 65536].
Proof.
  intros ver enc blen. unfold prop_word, gen_prop_word.
  cbn [gen_frame_prop_encode gen_frame_enc_frag map snd fst combine fold_left].
  change (N.shiftl 0 15) with 0. change (N.shiftl 0 13) with 0. cbn [N.lor].
  rewrite N.lor_0_r, N.shiftl_0_r. reflexivity.
Qed.

(* ---- Header.Encode *)
Definition gen_encode_payload (h : msg) (rid ps : N) (body : list N) : list N :=
  let id := if rid =? gen_frame_enc_id_fallback then m_id h else rid in
  let attr := gen_prop_word [0; m_ver h; gen_frame_enc_frag; m_enc h; len body mod 65536] in
  let part (name : string) : list N :=
    if String.eqb name "version" then (if m_ver h =? gen_frame_version_flag then [snd gen_frame_enc_version] else [])
    else if String.eqb name "phone" then m_bcd h
    else if String.eqb name "serial" then map (fun sm => N.land (N.shiftr ps (fst sm)) (snd sm)) gen_frame_enc_serial
    else if String.eqb name "body" then body
    else [] in
  (be_enc (N.to_nat (snd gen_frame_enc_id)) (id mod 65536) ++ be_enc (N.to_nat (snd gen_frame_enc_prop)) (attr mod 65536))
    ++ flat_map part (removelast gen_frame_enc_order).

Lemma byte_hi x : N.land (N.shiftr x 8) 255 = x / 256 mod 256.
Proof. rewrite N.shiftr_div_pow2. change 255 with (N.ones 8). rewrite N.land_ones. reflexivity. Qed.
Lemma byte_lo x : N.land (N.shiftr x 0) 255 = x mod 256.
Proof. rewrite N.shiftr_0_r. change 255 with (N.ones 8). rewrite N.land_ones. reflexivity. Qed.
Lemma be_enc_2_mod x : be_enc 2 (x mod 65536) = [x / 256 mod 256; x mod 256].
Proof. cbn [be_enc app]. f_equal; [|f_equal]; lia. Qed.

(* the made prefix is the id word then the property word; the rest is appended in this order, the check byte last
   (Frame.encode appends it to the payload); the version byte is written exactly for the ProtocolVersion that
   Header.decode assigns under the version flag *)
Theorem tables_frame_encode_shape :
  fst gen_frame_enc_id = 0 /\ fst gen_frame_enc_prop = fst gen_frame_enc_id + snd gen_frame_enc_id /\
  gen_frame_enc_made = fst gen_frame_enc_prop + snd gen_frame_enc_prop /\
  gen_frame_enc_order = ["version"; "phone"; "serial"; "body"; "check"]%string /\
  fst gen_frame_enc_version = lay_version gen_frame_2019 /\
  (fst gen_frame_enc_version =? lay_version gen_frame_2013) = false.
Proof. repeat split; reflexivity. Qed.

Theorem tables_frame_encode : forall h rid ps body,
  encode_payload h rid ps body = gen_encode_payload h rid ps body.
Proof.
  intros h rid ps body. unfold encode_payload, gen_encode_payload.
  rewrite <- tables_frame_prop_word.
  cbn [gen_frame_enc_id gen_frame_enc_prop gen_frame_enc_order gen_frame_enc_serial gen_frame_enc_version snd fst
       N.to_nat Pos.to_nat Pos.iter_op Nat.add removelast flat_map String.eqb Ascii.eqb Bool.eqb map].
  rewrite !be_enc_2_mod, byte_hi, byte_lo.
  cbn [app]. rewrite app_nil_r. reflexivity.
Qed.

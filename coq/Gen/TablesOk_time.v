(* C11 C12 C13: the waits of the server packages.  The scheduler models (Model/Writer.v: one timeout goroutine per
   command that sleeps for the command's overtime; Model/Registry.v and Model/Server.v: joins, leaves and sends
   that wait for the session manager WITHOUT a time limit; no read or write deadline on any connection - the
   open findings C12|C13/blocked-write rest on exactly that) contain the waits the code has.  The translator counts,
   in the non-test files of packages service and attachment of the tree under check, every call of time.After /
   NewTimer / AfterFunc / Tick / NewTicker / Sleep, context.WithTimeout / WithDeadline and Set(Read|Write)Deadline.

   [tables_time_bounded]: no such call beyond the audited ones (one time.Sleep in package service: the timeout
   goroutine of connection.onActiveEvent).  A new timer, timeout or deadline anywhere in the two packages - e.g. a
   join that gives up after 3 s while its insert stays queued - is a wait the models do not have and breaks this
   obligation whether or not a generated schedule reaches it; removing one or moving it to another function of
   the package does not. *)
From Coq Require Import List NArith String Bool.
From JT.Gen Require Import Tables_gen.
Import ListNotations.
Open Scope N_scope.

Definition audited_waits : list (string * string * N) := [("service", "time.Sleep", 1)]%string.

Fixpoint granted (p c : string) (l : list (string * string * N)) : N :=
  match l with
  | [] => 0
  | (p', c', n) :: t => if (String.eqb p p' && String.eqb c c')%bool then n else granted p c t
  end.

Theorem tables_time_bounded :
  forallb (fun x => match x with (p, c, n) => n <=? granted p c audited_waits end) gen_time_calls = true.
Proof. vm_compute. reflexivity. Qed.

(* the one audited wait is there (the models' timeout goroutine exists in the code) *)
Theorem tables_time_timeout_goroutine : granted "service" "time.Sleep" gen_time_calls = 1.
Proof. vm_compute. reflexivity. Qed.

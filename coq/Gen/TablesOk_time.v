(* C11 C12 C13: the waits of the server packages - a SYNTACTIC bound, stated for what it is.  The translator counts,
   in the non-test files of packages service and attachment of the tree under check, the call SITES of time.After /
   NewTimer / AfterFunc / Tick / NewTicker / Sleep, context.WithTimeout / WithDeadline and Set(Read|Write)Deadline.
   It inspects no argument and no control flow.

   [tables_time_bounded]: there is no such call site beyond the audited one (one time.Sleep in package service: the
   timeout goroutine of connection.onActiveEvent, which Model/Writer.v has as the command's timeout step).  What this
   buys: the scheduler models (Model/Writer.v, Model/Registry.v, Model/Server.v) have no other timed wait - joins,
   leaves and sends wait for the session manager without a time limit, no connection has a read or write deadline
   (the open findings C12|C13/blocked-write rest on exactly that) - and a NEW timer, timeout or deadline anywhere in
   the two packages (e.g. a join that gives up after 3 s while its insert stays queued, seed C11-11) is a wait the
   models do not have: it breaks this obligation whether or not a generated schedule reaches it.  What it does not
   say: that the durations are what the models use (Gen/TablesOk_writer.v, TablesOk_subpkg.v tie those), or that the
   one audited Sleep is used as modelled (the correspondence of C12/C13 does).  Removing a wait or moving it to
   another function of the package changes nothing here. *)
From Coq Require Import List NArith String Bool.
From JT.Gen Require Import Tables_gen.
Import ListNotations.
Open Scope N_scope.

Definition audited_waits : list (string * string * N) := [("service", "time.Sleep", 1)]%string.

Fixpoint granted (p c : string) (l : list (string * string * N)) : N :=
  match l with
  | [] => 0
  | (p', c', n) :: t => if (String.eqb p p' && String.eqb c c')%bool then n else granted p c t
  end.

Theorem tables_time_bounded :
  forallb (fun x => match x with (p, c, n) => n <=? granted p c audited_waits end) gen_time_calls = true.
Proof. vm_compute. reflexivity. Qed.

(* the one audited wait is there (the models' timeout goroutine exists in the code) *)
Theorem tables_time_timeout_goroutine : granted "service" "time.Sleep" gen_time_calls = 1.
Proof. vm_compute. reflexivity. Qed.

(* Regenerated-table obligations for C12 / C13: constants of the CURRENT source (Gen/Tables_gen.v, written by
   the translator on every run of bin/check) equal what Model/Writer.v assumes:
     - the capacities of msgChan, activeMsgChan, activeMsgCompleteChan and reissuePackChan in newConnection;
     - the five terminal response types that echo a platform serial are registered with HasReply() = false
       (an unmatched response is dropped without a reply and without consuming a serial), 0x1003 is
       registered with HasReply() = true (an unmatched 0x1003 is answered like other traffic);
     - 0x9003 is the registered command whose answer type is 0x1003 (the model's cmd_9003).
   The switch of onActiveRespondEvent itself (which field of which type carries the echoed serial, the
   0x1003 -> 0x9003 special case) is not regenerated; it is exercised by the harness (C12 scripts
   `attr`, one response type per command). *)
From Coq Require Import List NArith String Bool.
From JT.Model Require Import Writer.
From JT.Gen Require Import Tables_gen.
Import ListNotations.
Open Scope N_scope.

Fixpoint cap_of (name : string) (l : list (string * N)) : option N :=
  match l with
  | [] => None
  | (n, v) :: t => if String.eqb n name then Some v else cap_of name t
  end.

Theorem tables_writer_chan_caps :
  cap_of "msgChan" gen_chan_caps = Some (N.of_nat cap_msg) /\
  cap_of "activeMsgChan" gen_chan_caps = Some (N.of_nat cap_act) /\
  cap_of "activeMsgCompleteChan" gen_chan_caps = Some (N.of_nat cap_cpl) /\
  cap_of "reissuePackChan" gen_chan_caps = Some (N.of_nat cap_reis).
Proof. repeat split; reflexivity. Qed.

Fixpoint reg_of (id : N) (l : list (N * (bool * N * N))) : option (bool * N * N) :=
  match l with
  | [] => None
  | (i, v) :: t => if i =? id then Some v else reg_of id t
  end.

Definition has_reply (id : N) : option bool :=
  match reg_of id gen_reply_registry with Some (h, _, _) => Some h | None => None end.

(* 0x0001 0x0104 0x0805 0x1205 0x1206 *)
Theorem tables_writer_responses_have_no_reply :
  map has_reply [1; 260; 2053; 4613; 4614] = [Some false; Some false; Some false; Some false; Some false].
Proof. reflexivity. Qed.

Theorem tables_writer_1003_is_answered : has_reply 4099 = Some true.
Proof. reflexivity. Qed.

Theorem tables_writer_9003_expects_1003 :
  reg_of cmd_9003 gen_reply_registry = Some (false, 4099, cmd_9003).
Proof. reflexivity. Qed.

(* heartbeat and location report, the other traffic of the C12 scripts, want a reply *)
Theorem tables_writer_other_traffic_has_reply : has_reply 2 = Some true /\ has_reply 512 = Some true.
Proof. split; reflexivity. Qed.

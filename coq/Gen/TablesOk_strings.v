(* C03, last sentence ("Rendering any successfully parsed value as text is likewise total"): a static tie for the
   String() methods, most of which are not modelled (MODEL_COVERAGE.md: "log formatting only", run under recover by
   the direct oracle).  The translator lists, for every `String() string` method of protocol/model, protocol/jt808,
   protocol/jt1078 and shared/consts of the tree under check, the operations in its body that can panic or fail to
   terminate (index, slice, type assertion, integer division, pointer dereference, panic call, non-range loop, goto)
   and everything the bodies call apart from fmt / strings / sort / strconv, builtins and conversions.

   Helpers of the same package that a String body calls are walked as part of that body (extracting a block into a
   helper changes nothing); the type's own Encode / encode / Protocol / protocolDiff and other String methods are NOT
   walked: they are admitted by NAME ([audited_callees]) - Encode bodies are modelled or run by the oracle, String
   bodies are inventoried themselves - and so are the two utils helpers.  This is a syntactic bound on the bodies, not
   a proof that String() never panics: the argument for the admitted callees is the comment below and the oracle.

   The obligations bound both by what was audited by hand.  A body made only of fmt.Sprintf / strings.Join over
   fields, range loops and calls of audited functions cannot panic and terminates, so a String method that is NOT in
   [audited_ops] has no partial operation of its own (its totality then rests on the admitted callees, see below); one that is has the listed operations and no more, each justified below
   and each executed by the direct oracle (C03 ops c03p / c03ft / c03rt / ext / p0200 ..., String() under recover after
   every successful Parse).  A change that adds a partial operation to any String method (e.g. `str[:len(str)-1]`
   on an empty list) breaks [tables_strings_ops_bounded] whether or not a generated input reaches it; removing
   operations, renaming locals, reordering lines or adding new String methods without partial operations does not. *)
From Coq Require Import List NArith String Bool.
From JT.Gen Require Import Tables_gen.
Import ListNotations.
Open Scope N_scope.

Definition audited_ops : list (string * string * N) := [
  (* fmt.Sprintf("%032b", a.Value)[:16] and fmt.Sprintf("%016b", a.Value)[:14]: the zero-padded binary rendering has
     at least 32 / 16 characters *)
  ("model.AdditionExtendVehicleStatus", "slice", 1);
  ("model.AdditionIOStatus", "slice", 1);
  (* body[3:] of p.Encode(): Encode writes 3 fixed bytes before the code *)
  ("model.P0x8100", "slice", 1);
  (* data[4+mLen+tLen+tIDLen+1:] of t.Encode(): Encode writes exactly these fixed-width fields (String2FillingBytes
     pads or cuts to the width) and the colour byte before the plate *)
  ("model.T0x0100", "slice", 1);
  (* body[1+AuthCodeLen+15:] of t.Encode() in the 2019 branch: Encode writes the length byte, the code, 15 + 20 bytes *)
  ("model.T0x0102", "slice", 1);
  (* a.Additions[consts.A0x..] lookups in a map of struct VALUES (a missing key yields the zero value, no panic) *)
  ("model.T0x0200AdditionDetails", "index", 14);
  (* infos[t.AlarmEventType] with the two-value form on a map literal (a missing key is the `else` branch) *)
  ("model.T0x0200AdditionExtension0x64", "index", 1);
  ("model.T0x0200AdditionExtension0x65", "index", 1);
  ("model.T0x0200AdditionExtension0x70", "index", 1);
  (* body[22:28] of tl.encode(): encode of a location item always yields the 28 fixed bytes *)
  ("model.T0x0200LocationItem", "slice", 1);
  (* for i := 0; i < len(t.Items); i++ { t.Items[i] ... }: bounded by len, index below len *)
  ("model.T0x0704", "for", 1);
  ("model.T0x0704", "index", 1);
  (* t.Encode()[:26]: Encode of a 0x0801 writes 8 + 28 fixed bytes before the package *)
  ("model.T0x0801", "slice", 1)
]%string.

Fixpoint allowed (r k : string) (l : list (string * string * N)) : N :=
  match l with
  | [] => 0
  | (r', k', n) :: t => if (String.eqb r r' && String.eqb k k')%bool then n else allowed r k t
  end.

(* no String method has more partial operations of any kind than the audited table grants it (absent = none) *)
Theorem tables_strings_ops_bounded :
  forallb (fun x => match x with (r, k, n) => n <=? allowed r k audited_ops end) gen_string_ops = true.
Proof. vm_compute. reflexivity. Qed.

(* what the String bodies call beyond fmt / strings / sort / strconv / builtins / conversions:
   .String    - another String method (covered by this table, by induction on the finite, acyclic field structure)
   .Encode / .encode / .Protocol / .protocolDiff - the type's own encoder and constants: modelled (Model/Msg_*.v,
                Model/Location*.v, C07) or run by the oracle on every parsed value
   consts.JT808CommandType - a conversion to the named type (then .String: a switch)
   utils.Time2BCD / utils.String2FillingBytes - total helpers (time formatting; pad or cut to a width), modelled in
                Model/Msg_text.v / Base and compared by C07 *)
Definition audited_callees : list string :=
  [".Encode"; ".Protocol"; ".String"; ".encode"; ".protocolDiff"; "consts.JT808CommandType";
   "utils.String2FillingBytes"; "utils.Time2BCD"]%string.

Theorem tables_strings_callees_audited :
  forallb (fun c => existsb (String.eqb c) audited_callees) gen_string_callees = true.
Proof. vm_compute. reflexivity. Qed.

(* the inventory is not empty and contains the types the harness renders (a sample: the three carriers, the frame
   header and the RTP packet) - the tie is about the methods that exist *)
Theorem tables_strings_inventory :
  forallb (fun m => existsb (String.eqb m) gen_string_methods)
    ["model.T0x0200"; "model.T0x0704"; "model.T0x0801"; "jt808.Header"; "jt1078.Packet"; "model.T0x1205"]%string = true.
Proof. vm_compute. reflexivity. Qed.

(* Regenerated-table obligations for C15 / C10 (attachment side): constants read from the Go source NOW
   equal the ones written into Model/Attach.v:
   - P9208AlarmSign.getTerminalIDLen / getAlarmSignLen per dialect (gen_dialect_widths, gen_dialect_default)
     = sign_len, and = id_len_1210 except under HLJ, where T0x1210.Parse reads no terminal id;
   - HasReply / ReplyProtocol of the three control messages (gen_reply_registry) = what reply_data answers with;
   - the frame delimiter. *)
From JT.Base Require Import Prelude.
From JT.Model Require Import Attach.
From JT.Gen Require Import Tables_gen.

Fixpoint glookup {A} (k : N) (l : list (N * A)) : option A :=
  match l with [] => None | (k', v) :: t => if k' =? k then Some v else glookup k t end.

Definition widths (d : N) : N * N :=
  match glookup d gen_dialect_widths with Some w => w | None => gen_dialect_default end.

Theorem tables_attach_sign_len : forallb (fun d => sign_len d =? snd (widths d)) (nrange 8) = true.
Proof. reflexivity. Qed.

Theorem tables_attach_id_len :
  forallb (fun d => (d =? D_HLJ) || (id_len_1210 d =? fst (widths d))) (nrange 8) = true /\ id_len_1210 D_HLJ = 0.
Proof. split; reflexivity. Qed.

Theorem tables_attach_dialects : map fst gen_dialect_widths = [1; 2; 3; 4; 5].
Proof. reflexivity. Qed.

Theorem tables_attach_replies :
  glookup ID_1210 gen_reply_registry = Some (true, ID_8001, ID_1210) /\
  glookup ID_1211 gen_reply_registry = Some (true, ID_8001, ID_1211) /\
  glookup ID_1212 gen_reply_registry = Some (true, ID_9212, ID_1212).
Proof. repeat split; reflexivity. Qed.

Theorem tables_attach_delimiter : SIGN = gen_stream_delimiter.
Proof. reflexivity. Qed.

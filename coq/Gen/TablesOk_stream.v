(* Regenerated-table obligation for C04's reader loop: the ids createDefaultHandle registers in the
   Go source NOW are the ids the model's dispatch loop treats as supported. *)
From JT.Base Require Import Prelude.
From JT.Model Require Import Frame Unpack.
From JT.Gen Require Import Tables_gen.

Theorem tables_registered_ids : map fst gen_reply_registry = registered_ids.
Proof. reflexivity. Qed.

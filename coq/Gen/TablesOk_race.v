(* C18, tie (i) as a proof obligation re-checked on every run.
   Gen/Race_gen.v is regenerated from the tree under check before the Coq build (checks/C18.json "pre_build":
   harness/cmd/C18/gen_race.sh -> the go/types lister harness/cmd/C18/sites.go): the selector sites on the
   statically placed structs of package service, the call / go / sent-closure edges between its functions, the
   variables captured by closures that run in another goroutine, the declared fields.  This file proves, for
   THAT tree, that Model/Race.v's [graph_problems] finds nothing, and what that means.

   TRUSTED: the lister (what it lists and how it classifies a write, a call edge, a capture), Go's type checker.
   NOT covered: dynamically owned objects (pointers to Message and ActiveMessage, headers): the detector runs tie those. *)
From Coq Require Import List String.
From JT.Base Require Import Sched.
From JT.Model Require Import Race.
From JT.Proofs Require Import Race_proofs.
From JT.Gen Require Import Race_gen.
Import ListNotations.

(* every site, edge and capture of the current tree is one the model knows *)
Theorem race_graph_modelled :
  graph_problems gen_race_decls gen_race_edges gen_race_sites gen_race_caps = [].
Proof. vm_compute. reflexivity. Qed.
Print Assumptions race_graph_modelled.

(* ... that is: every access site of the current tree lies in a function reached by exactly ONE goroutine class,
   its field has a location class of the model, and the race-free model (C18_race_free) performs that access
   - by a write when the site writes - in some schedule *)
Theorem race_sites_covered : forall s, In s gen_race_sites ->
  exists g x sched w',
    cm_get (s_fun s) (classes_of gen_race_edges) = [g] /\
    resolve_field gen_race_decls gen_race_sites (classes_of gen_race_edges) (s_type s) (s_field s) = Some x /\
    In (g, x, w') (acc_classes (trace (step repaired) init sched)) /\ (s_write s = true -> w' = true) /\
    races (trace (step repaired) init sched) = [].
Proof. exact (graph_ok_sites_race_free _ _ _ _ race_graph_modelled). Qed.
Print Assumptions race_sites_covered.

(* every `go` statement / closure sent on a channel starts a goroutine class the model allows from its starter's
   class, and every closure that runs in another goroutine captures only channels, values fixed before it
   exists, and the hand-overs of cap_table *)
Theorem race_spawns_and_captures_covered :
  (forall e, In e gen_race_edges -> check_edge (classes_of gen_race_edges) e = []) /\
  (forall c, In c gen_race_caps -> check_cap (classes_of gen_race_edges) c = []).
Proof.
  split; [exact (graph_ok_edges _ _ _ _ race_graph_modelled) | exact (graph_ok_caps _ _ _ _ race_graph_modelled)].
Qed.
Print Assumptions race_spawns_and_captures_covered.

(* the DEFAULT eventer factory (service/option.go newOptions) allocates: every connection has its own
   defaultTerminalEvent, so its createTime - written by OnJoinEvent, read by OnLeaveEvent - is a location of that
   connection's reader alone (field_table: the class of c.key).  One shared object would be written and read by
   the readers of different connections (seed C18-12) *)
Theorem race_default_eventer_fresh : gen_race_default_eventer_fresh = true.
Proof. reflexivity. Qed.
Print Assumptions race_default_eventer_fresh.

(* non-vacuity: the lists are not empty *)
Example race_gen_nonempty :
  (List.length gen_race_sites >= 50 /\ List.length gen_race_edges >= 50 /\ List.length gen_race_caps >= 5 /\ List.length gen_race_decls >= 20)%nat.
Proof. vm_compute. repeat split; repeat constructor. Qed.

(* C19: the save step of the default attachment file handler (attachment/file_event.go) and the file-system calls of
   package attachment, regenerated from the tree under check, against Model/Paths.v.

   - [tables_files_calls]: the ONLY calls of package os that create, rename, link or remove file-system entries (or
     change the working directory) anywhere in package attachment are: os.OpenFile of the constant name "file.log"
     (the handler's own log: fixed, influenced by no terminal - the exception named in checks/C19.json),
     os.MkdirAll(<dir>) and os.WriteFile(<save>, ...), where <save> is the variable formatted in the save loop and
     <dir> the first argument of that format.  A new file-writing call anywhere in the package breaks this.
   - [tables_files_format]: fmt.Sprintf(format, <dir>, <name>) with the regenerated format IS Paths.save_path, for
     every directory and name.
   - [tables_files_filter]: the regenerated name filter (names compared with ==, characters handed to
     strings.ContainsAny, guarding `continue` as the first statement of the loop) IS Paths.accepted, for every name.
   - [tables_files_phone]: <dir> is assigned from ...RecentTerminalMessage.Header.TerminalPhoneNo.
   Together with Props/C19.v / C19_session.v (every accepted name resolves inside <cwd>/<phone>/) this ties the
   hand-written path model to the source by translation, beside the correspondence of harness/cmd/C19. *)
From Coq Require Import List NArith String Bool.
From JT.Base Require Import Prelude.
From JT.Model Require Import Paths.
From JT.Gen Require Import Tables_gen.
Import ListNotations.
Open Scope N_scope.

Theorem tables_files_calls :
  gen_file_calls = [("os.MkdirAll", "id:<dir>"); ("os.OpenFile", "lit:file.log"); ("os.WriteFile", "id:<save>")]%string.
Proof. reflexivity. Qed.

(* fmt.Sprintf restricted to the verb %s: each "%s" is replaced by the next argument *)
Fixpoint sprintf_s (fmt : list N) (args : list str) : str :=
  match fmt with
  | 37 :: ((115 :: rest) as _) =>
      match args with a :: args' => a ++ sprintf_s rest args' | [] => sprintf_s rest [] end
  | c :: rest => c :: sprintf_s rest args
  | [] => []
  end.

Theorem tables_files_format :
  gen_file_save_args = ["<dir>"; "<name>"]%string /\
  forall phone name, sprintf_s gen_file_save_format [phone; name] = save_path phone name.
Proof.
  split; [reflexivity|]. intros phone name. unfold gen_file_save_format, save_path.
  cbn [sprintf_s app]. rewrite app_nil_r. reflexivity.
Qed.

Definition gen_accepted (name : str) : bool :=
  negb (existsb (fun n => list_eqb name n) gen_file_filter_names ||
        existsb (fun c => existsb (N.eqb c) gen_file_filter_chars) name).

Theorem tables_files_filter : forall name, accepted name = gen_accepted name.
Proof.
  intros name. unfold accepted, gen_accepted, gen_file_filter_names, gen_file_filter_chars, DOT, SLASH, BACKSLASH.
  cbn [existsb]. rewrite !orb_false_r. f_equal. rewrite <- !orb_assoc. do 3 f_equal.
  induction name as [|c cs IH]; [reflexivity|]. cbn [existsb]. rewrite IH, orb_false_r. reflexivity.
Qed.

Theorem tables_files_phone :
  skipn (length gen_file_phone - 3) gen_file_phone = ["RecentTerminalMessage"; "Header"; "TerminalPhoneNo"]%string.
Proof. reflexivity. Qed.

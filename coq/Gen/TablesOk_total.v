(* Regenerated-table obligations for C03 (tie #2 for Model/Total_msgs.v): the tables that
   C03_fixed_types / C03_fixed_layout_total and C03_params_walk / C03_msg_total are about are the
   ones the translator reads off the Go source NOW (Gen/Tables_gen.v, regenerated on every run).

   Fixed layouts.  For each straight-line Parse the translator emits (field, offset, width, kind)
   sorted by offset (kind 0 = big-endian unsigned incl. a single byte, 1 = BCD time), the one length
   guard as (0, c) for `len(body) != c` / (1, c) for `len(body) < c`, and the struct's exported
   fields in declaration order.  Per type: the model's members (Total_msgs.lay_XXXX, in the order of
   the value it produces) have exactly those offsets, widths and kinds; its guard is that guard;
   and offset order = declaration order, so the i-th member of the model's value is the i-th
   exported field (what the harness dumps).  A guard constant, an offset or a width changed in the
   source breaks the equation of that type.
   Twelve of the sixteen layouts of Total_msgs.fixed_layouts are regenerated; the other four have
   nothing to regenerate: T0x0002 / P0x8104 / P0x9003 have no Parse body (`return nil`), and
   P0x8100 ends in an open slice `body[3:]`, a shape the translator's fixed-layout reader does not
   cover (tied by the correspondence only).

   Terminal parameters.  parseParam's switch, in source order, is (kind of the ParamContent literal,
   ids): uint32, uint16, string, [4]byte, byte, [8]byte — exactly the id lists and the order of the
   tests in Total_msgs.param_store.  (Gen/TablesOk_params.v proves the same regenerated lists
   self-consistent and equal to C07's table.)  The per-clause width tests `paramLen != 4 / 2 / 1 / 8`
   are not regenerated; they are tied by the parameter-id x length sweep of the harness. *)
From Coq Require Import String.
From JT.Base Require Import Prelude.
From JT.Model Require Import Total_base Total_msgs.
From JT.Gen Require Import Tables_gen.

Definition gen_view (p : list (string * N * N * N)) : list (N * N * N) :=
  map (fun e => match e with (_, o, w, k) => (o, w, k) end) p.
Definition gen_names (p : list (string * N * N * N)) : list string :=
  map (fun e => match e with (n, _, _, _) => n end) p.

Definition kind_code (k : fkind) : N :=
  match k with KByte => 0 | KNum => 0 | KTime => 1 | _ => 99 end.
Definition model_view (fs : list field) : list (N * N * N) :=
  map (fun f => (f_off f, f_w f, kind_code (f_kind f))) fs.
Definition guard_view (g : guard) : N * N := match g with GEq n => (0, n) | GGe n => (1, n) end.

(* one type: offsets / widths / kinds, the guard, and offset order = declaration order *)
Definition layout_tied (gparse : list (string * N * N * N)) (gguard : N * N) (gfields : list string)
                       (lay : guard * list field) : Prop :=
  gen_view gparse = model_view (snd lay) /\ gguard = guard_view (fst lay) /\ gen_names gparse = gfields.

Theorem tables_total_layouts :
  layout_tied gen_layout_T0x0001_parse gen_layout_T0x0001_parse_guard gen_layout_T0x0001_fields lay_0001 /\
  layout_tied gen_layout_P0x8001_parse gen_layout_P0x8001_parse_guard gen_layout_P0x8001_fields lay_8001 /\
  layout_tied gen_layout_T0x0800_parse gen_layout_T0x0800_parse_guard gen_layout_T0x0800_fields lay_0800 /\
  layout_tied gen_layout_T0x1003_parse gen_layout_T0x1003_parse_guard gen_layout_T0x1003_fields lay_1003 /\
  layout_tied gen_layout_T0x1005_parse gen_layout_T0x1005_parse_guard gen_layout_T0x1005_fields lay_1005 /\
  layout_tied gen_layout_T0x1206_parse gen_layout_T0x1206_parse_guard gen_layout_T0x1206_fields lay_1206 /\
  layout_tied gen_layout_P0x8801_parse gen_layout_P0x8801_parse_guard gen_layout_P0x8801_fields lay_8801 /\
  layout_tied gen_layout_P0x9102_parse gen_layout_P0x9102_parse_guard gen_layout_P0x9102_fields lay_9102 /\
  layout_tied gen_layout_P0x9105_parse gen_layout_P0x9105_parse_guard gen_layout_P0x9105_fields lay_9105 /\
  layout_tied gen_layout_P0x9202_parse gen_layout_P0x9202_parse_guard gen_layout_P0x9202_fields lay_9202 /\
  layout_tied gen_layout_P0x9205_parse gen_layout_P0x9205_parse_guard gen_layout_P0x9205_fields lay_9205 /\
  layout_tied gen_layout_P0x9207_parse gen_layout_P0x9207_parse_guard gen_layout_P0x9207_fields lay_9207.
Proof. unfold layout_tied. repeat split; reflexivity. Qed.

(* the layouts the theorems of Props/C03.v quantify over are these: fixed_layouts maps the message
   ids to the twelve tied tables and the four that have nothing to regenerate *)
Theorem tables_total_dispatch :
  fixed_layouts =
  [(1, lay_0001); (2, lay_0002); (2048, lay_0800); (4099, lay_1003); (4101, lay_1005); (4614, lay_1206);
   (32769, lay_8001); (33024, lay_8100); (33028, lay_8104); (34817, lay_8801); (36867, lay_9003);
   (37122, lay_9102); (37125, lay_9105); (37378, lay_9202); (37381, lay_9205); (37383, lay_9207)] /\
  snd lay_0002 = [] /\ snd lay_8104 = [] /\ snd lay_9003 = [].
Proof. repeat split; reflexivity. Qed.

(* parseParam's switch = the tests of param_store, as a finite map from parameter id to wire kind (the cases of a Go
   switch over distinct constants are order-independent: regrouping or reordering case clauses changes nothing, so
   the comparison is by id, not by position): every id either table mentions has the same kind in both *)
Definition param_kind_of (id : N) (l : list (N * list N)) : N :=
  match find (fun c => existsb (N.eqb id) (snd c)) l with Some c => fst c | None => 0 end.
Definition expected_param_cases : list (N * list N) :=
  [(1, param_dword); (2, param_word); (4, param_text); (5, [50]); (3, param_byte); (6, [272])].
Theorem tables_total_param_cases :
  forallb (fun id => param_kind_of id gen_param_cases =? param_kind_of id expected_param_cases)
          (flat_map snd gen_param_cases ++ flat_map snd expected_param_cases) = true.
Proof. vm_compute. reflexivity. Qed.

(* Regenerated-table obligation for C06 (own module: if the translator does not recognise the shape of
   onActiveRespondEvent the tie is unavailable without taking Gen/TablesOk_reply.v with it).
   The message ids the writer may hand to a waiting SendActiveMessage caller instead of answering them
   (the cases of the switch of connection.onActiveRespondEvent) are the ids for which the model's absorb
   move is enabled - compared as SETS: the order of switch cases is not behaviour. *)
From JT.Base Require Import Prelude.
From JT.Model Require Import Reply.
From JT.Gen Require Import Tables_gen.

Theorem tables_active_respond_ids :
  forallb (fun x => existsb (N.eqb x) response_ids) gen_active_respond_ids = true /\
  forallb (fun x => existsb (N.eqb x) gen_active_respond_ids) response_ids = true.
Proof. split; reflexivity. Qed.

(* hence: an id is in the code's switch iff the model's absorb move is enabled for it *)
Theorem tables_active_respond_ids_iff : forall id,
  existsb (N.eqb id) gen_active_respond_ids = existsb (N.eqb id) response_ids.
Proof.
  intros id. destruct tables_active_respond_ids as [A B].
  rewrite forallb_forall in A, B.
  destruct (existsb (N.eqb id) gen_active_respond_ids) eqn:E1; destruct (existsb (N.eqb id) response_ids) eqn:E2; auto.
  - apply existsb_exists in E1. destruct E1 as [x [Hx Ex]]. apply N.eqb_eq in Ex. subst x.
    rewrite (A id Hx) in E2. discriminate.
  - apply existsb_exists in E2. destruct E2 as [x [Hx Ex]]. apply N.eqb_eq in Ex. subst x.
    rewrite (B id Hx) in E1. discriminate.
Qed.

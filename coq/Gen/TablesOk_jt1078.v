(* Regenerated-table obligations for C17. *)
From JT.Base Require Import Prelude.
From JT.Model Require Import Jt1078.
From JT.Gen Require Import Tables_gen.

Theorem tables_jt1078_marker : gen_jt1078_marker = marker.
Proof. reflexivity. Qed.

(* DataTypeI/P/B are the video types (frame-interval fields), DataTypePenetrate has no timestamp *)
Theorem tables_jt1078_datatypes : gen_jt1078_datatypes = [0; 1; 2; 3; DT_PENETRATE].
Proof. reflexivity. Qed.

Theorem tables_jt1078_video : forall dt, is_video_dt dt = existsb (N.eqb dt) (firstn 3 gen_jt1078_datatypes).
Proof. intros dt. unfold is_video_dt. cbn [gen_jt1078_datatypes firstn existsb]. now rewrite orb_false_r, orb_assoc. Qed.

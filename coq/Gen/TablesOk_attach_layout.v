(* Regenerated-table obligations for the chunk header of the attachment stream (C15): the marker, the minimum lengths,
   the offsets and widths that attachment/stream_data_handle.go uses NOW (translator pass attachLayout, the gen_attach_
   definitions; base form = 62 bytes, HLJ form = length-prefixed file name with bounds linear in the name length) are the
   ones Model/Attach.v has_min_head / parse_head / MARKER are written with: the two functions are written once more from
   the regenerated definitions and proved equal to the model's for every dialect and every buffer. *)
From JT.Base Require Import Prelude PreludeP.
From JT.Model Require Import Attach.
From JT.Gen Require Import Tables_gen.
From Coq Require Import String ZArith ZifyN ZifyNat ZifyBool.
Ltac Zify.zify_post_hook ::= Z.div_mod_to_equations.

Fixpoint base_span (k : string) (l : list (string * N * N)) : N * N :=
  match l with [] => (0, 0) | (k', o, w) :: t => if String.eqb k' k then (o, w) else base_span k t end.
Fixpoint hlj_span (k : string) (l : list (string * (N * N) * (N * N))) : (N * N) * (N * N) :=
  match l with [] => ((0, 0), (0, 0)) | (k', lo, hi) :: t => if String.eqb k' k then (lo, hi) else hlj_span k t end.
(* coefficient * name length + constant *)
Definition lin (e : N * N) (nl : N) : N := fst e * nl + snd e.

Definition gen_has_min_head (d : N) (b : list N) : bool :=
  if d =? D_HLJ then
    if len b <? gen_attach_hlj_min then false else lin gen_attach_hlj_min2 (at_ b gen_attach_hlj_len_idx) <=? len b
  else gen_attach_base_min <=? len b.

Definition gen_parse_head (d : N) (b : list N) : N * name * N * N :=
  if d =? D_HLJ then
    let nl := at_ b gen_attach_hlj_len_idx in
    let f (k : string) := let s := hlj_span k gen_attach_hlj in sub b (lin (fst s) nl) (lin (snd s) nl) in
    (lin gen_attach_hlj_head nl, trim0 (f "FileName"%string), be_dec (f "DataOffset"%string), be_dec (f "DataLen"%string))
  else
    let f (k : string) := let s := base_span k gen_attach_base in sub b (fst s) (fst s + snd s) in
    (gen_attach_base_head, trim0 (f "FileName"%string), be_dec (f "DataOffset"%string), be_dec (f "DataLen"%string)).

Theorem tables_attach_marker : gen_attach_marker = MARKER.
Proof. reflexivity. Qed.

Theorem tables_attach_has_min_head : forall d b, has_min_head d b = gen_has_min_head d b.
Proof.
  intros d b. unfold has_min_head, gen_has_min_head. destruct (d =? D_HLJ); [|reflexivity].
  unfold gen_attach_hlj_min, gen_attach_hlj_min2, gen_attach_hlj_len_idx, lin. cbn [fst snd].
  destruct (len b <? 5); [reflexivity|]. f_equal. lia.
Qed.

Theorem tables_attach_parse_head : forall d b, parse_head d b = gen_parse_head d b.
Proof.
  intros d b. unfold parse_head, gen_parse_head. destruct (d =? D_HLJ); [|reflexivity].
  unfold gen_attach_hlj_head, gen_attach_hlj_len_idx, lin.
  change (hlj_span "FileName" gen_attach_hlj) with ((0, 5), (1, 5)).
  change (hlj_span "DataOffset" gen_attach_hlj) with ((1, 5), (1, 9)).
  change (hlj_span "DataLen" gen_attach_hlj) with ((1, 9), (1, 13)).
  cbn [fst snd]. set (nl := at_ b 4).
  replace (4 + 1 + nl + 4 + 4) with (13 + nl) by lia.
  replace (0 * nl + 5) with 5 by lia. replace (1 * nl + 5) with (5 + nl) by lia.
  replace (1 * nl + 9) with (9 + nl) by lia. replace (1 * nl + 13) with (13 + nl) by lia.
  reflexivity.
Qed.

(* the rest of the base form: the frame sign is the first four bytes, Data starts where the header ends, and the head
   length returned is the minimum length demanded; HLJ: the frame sign likewise, Data = data[9+nl:] (the struct field is
   not used by the stream loop, which slices by the returned head length) *)
Theorem tables_attach_rest :
  base_span "FrameSign"%string gen_attach_base = (0, 4) /\ gen_attach_base_data = gen_attach_base_head /\
  gen_attach_base_head = gen_attach_base_min /\
  hlj_span "FrameSign"%string gen_attach_hlj = ((0, 0), (0, 4)) /\ gen_attach_hlj_min2 = gen_attach_hlj_head /\
  gen_attach_hlj_data = (1, 9) /\ gen_attach_hlj_min = gen_attach_hlj_len_idx + 1.
Proof. repeat split; reflexivity. Qed.

(* Regenerated-table obligations for C07, T7 of DESIGN 2.4: the fixed layouts.  For each of the 13 fixed-layout types
   the translator reads (field, offset, width, kind) off the straight-line Parse and off the straight-line Encode of the
   CURRENT source; here, per type:
     parse table = encode table = the table of Model/Msg_layouts.v  (an offset, a width or a field changed in ONE of
       the two functions breaks the first or the second equation);
     the length guard is `!= total width` (`< 28` for the location block) and Encode returns that many bytes;
     the table's names are the struct's exported fields in declaration order (the order of the model's value tuple);
     the table is contiguous from offset 0;
     the model's format is, definitionally, the format built from that table. *)
From JT.Base Require Import Prelude Fmt.
From JT.Model Require Import Msg_simple Msg_location Msg_layouts.
From JT.Gen Require Import Tables_gen.
From Coq Require Import String.

Definition layout_ok (gparse : layout) (gguard : N * N) (gencode : layout) (glen : N) (gfields : list string)
  (lay : layout) : Prop :=
  gparse = lay /\ gencode = lay /\ gguard = (0, layout_width lay) /\ glen = layout_width lay /\
  gfields = map e_name lay /\ layout_contig 0 lay = true.
Definition exact_msg (lay : layout) : msg := mk_msg (layout_fields lay) (fun _ => tl_exact).

Theorem tables_layout_T0x0001 :
  layout_ok gen_layout_T0x0001_parse gen_layout_T0x0001_parse_guard gen_layout_T0x0001_encode
            gen_layout_T0x0001_encode_len gen_layout_T0x0001_fields lay_0001 /\ m_0001 = exact_msg lay_0001.
Proof. unfold layout_ok. repeat split; reflexivity. Qed.
Theorem tables_layout_P0x8001 :
  layout_ok gen_layout_P0x8001_parse gen_layout_P0x8001_parse_guard gen_layout_P0x8001_encode
            gen_layout_P0x8001_encode_len gen_layout_P0x8001_fields lay_8001 /\ m_8001 = exact_msg lay_8001.
Proof. unfold layout_ok. repeat split; reflexivity. Qed.
Theorem tables_layout_T0x0800 :
  layout_ok gen_layout_T0x0800_parse gen_layout_T0x0800_parse_guard gen_layout_T0x0800_encode
            gen_layout_T0x0800_encode_len gen_layout_T0x0800_fields lay_0800 /\ m_0800 = exact_msg lay_0800.
Proof. unfold layout_ok. repeat split; reflexivity. Qed.
Theorem tables_layout_T0x1003 :
  layout_ok gen_layout_T0x1003_parse gen_layout_T0x1003_parse_guard gen_layout_T0x1003_encode
            gen_layout_T0x1003_encode_len gen_layout_T0x1003_fields lay_1003 /\ m_1003 = exact_msg lay_1003.
Proof. unfold layout_ok. repeat split; reflexivity. Qed.
Theorem tables_layout_T0x1005 :
  layout_ok gen_layout_T0x1005_parse gen_layout_T0x1005_parse_guard gen_layout_T0x1005_encode
            gen_layout_T0x1005_encode_len gen_layout_T0x1005_fields lay_1005 /\ m_1005 = exact_msg lay_1005.
Proof. unfold layout_ok. repeat split; reflexivity. Qed.
Theorem tables_layout_T0x1206 :
  layout_ok gen_layout_T0x1206_parse gen_layout_T0x1206_parse_guard gen_layout_T0x1206_encode
            gen_layout_T0x1206_encode_len gen_layout_T0x1206_fields lay_1206 /\ m_1206 = exact_msg lay_1206.
Proof. unfold layout_ok. repeat split; reflexivity. Qed.
Theorem tables_layout_P0x8801 :
  layout_ok gen_layout_P0x8801_parse gen_layout_P0x8801_parse_guard gen_layout_P0x8801_encode
            gen_layout_P0x8801_encode_len gen_layout_P0x8801_fields lay_8801 /\ m_8801 = exact_msg lay_8801.
Proof. unfold layout_ok. repeat split; reflexivity. Qed.
Theorem tables_layout_P0x9102 :
  layout_ok gen_layout_P0x9102_parse gen_layout_P0x9102_parse_guard gen_layout_P0x9102_encode
            gen_layout_P0x9102_encode_len gen_layout_P0x9102_fields lay_9102 /\ m_9102 = exact_msg lay_9102.
Proof. unfold layout_ok. repeat split; reflexivity. Qed.
Theorem tables_layout_P0x9105 :
  layout_ok gen_layout_P0x9105_parse gen_layout_P0x9105_parse_guard gen_layout_P0x9105_encode
            gen_layout_P0x9105_encode_len gen_layout_P0x9105_fields lay_9105 /\ m_9105 = exact_msg lay_9105.
Proof. unfold layout_ok. repeat split; reflexivity. Qed.
Theorem tables_layout_P0x9202 :
  layout_ok gen_layout_P0x9202_parse gen_layout_P0x9202_parse_guard gen_layout_P0x9202_encode
            gen_layout_P0x9202_encode_len gen_layout_P0x9202_fields lay_9202 /\ m_9202 = exact_msg lay_9202.
Proof. unfold layout_ok. repeat split; reflexivity. Qed.
Theorem tables_layout_P0x9205 :
  layout_ok gen_layout_P0x9205_parse gen_layout_P0x9205_parse_guard gen_layout_P0x9205_encode
            gen_layout_P0x9205_encode_len gen_layout_P0x9205_fields lay_9205 /\ m_9205 = exact_msg lay_9205.
Proof. unfold layout_ok. repeat split; reflexivity. Qed.
Theorem tables_layout_P0x9207 :
  layout_ok gen_layout_P0x9207_parse gen_layout_P0x9207_parse_guard gen_layout_P0x9207_encode
            gen_layout_P0x9207_encode_len gen_layout_P0x9207_fields lay_9207 /\ m_9207 = exact_msg lay_9207.
Proof. unfold layout_ok. repeat split; reflexivity. Qed.

(* the location block: guard `len(body) < 28`; the struct continues with the two derived details structs, the model's
   block format with the two derived (not-on-the-wire) fields *)
Theorem tables_layout_location :
  gen_layout_T0x0200LocationItem_parse = lay_loc /\ gen_layout_T0x0200LocationItem_encode = lay_loc /\
  gen_layout_T0x0200LocationItem_parse_guard = (1, layout_width lay_loc) /\
  gen_layout_T0x0200LocationItem_encode_len = layout_width lay_loc /\
  gen_layout_T0x0200LocationItem_fields = (map e_name lay_loc ++ loc_derived)%list /\
  layout_contig 0 lay_loc = true /\
  loc_block = vstruct (layout_fields lay_loc ++
                       [fun acc => vconst (aflags_val (accN acc 0)); fun acc => vconst (sflags_val (accN acc 1))])%list.
Proof. unfold layout_ok. repeat split; reflexivity. Qed.

(* nothing in the source fell outside the recognised shapes *)
Theorem tables_layouts_all_recognised :
  filter (fun s => String.prefix "layout_" s) gen_unrecognised = [].
Proof. reflexivity. Qed.

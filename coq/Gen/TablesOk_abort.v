(* C03 C10 C13: no explicit abort.  None of the models has a step that ends the process on purpose: a decoder
   returns an error (C03), a hostile connection ends and the servers go on (C10), a disconnect strands and crashes
   nothing (C13).  The translator lists every call of the builtin panic, os.Exit, runtime.Goexit and
   log.Fatal* / log.Panic* in the non-test files of every directory of the repository that holds Go files, the
   example programs excepted (today protocol/*, service, attachment, terminal, shared/consts), of
   the tree under check; the obligation is that there is none.  (Implicit panics - index, nil, closed channel - are
   what the models and the harness are about; this tie only rules out the explicit ones, whatever input or
   schedule would reach them.) *)
From Coq Require Import List NArith String Bool.
From JT.Gen Require Import Tables_gen.
Import ListNotations.

Theorem tables_no_explicit_abort : gen_abort_calls = [].
Proof. reflexivity. Qed.

(* the walk was not empty: the packages the properties are anchored in were among the directories scanned *)
Theorem tables_abort_scope :
  forallb (fun d => existsb (String.eqb d) gen_abort_dirs)
    ["attachment"; "protocol/jt1078"; "protocol/jt808"; "protocol/model"; "service"; "terminal"]%string = true.
Proof. reflexivity. Qed.

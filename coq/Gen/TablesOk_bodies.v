(* Regenerated-table obligations for C07: the dialect widths read from getTerminalIDLen / getAlarmSignLen in the
   Go source NOW equal the table the alarm-sign format of Model/Msg_simple.v is built from, and every dialect
   (and the default) leaves room for the fixed part of the sign (id + BCD[6] + serial + count). *)
From JT.Base Require Import Prelude.
From JT.Model Require Import Msg_simple.
From JT.Gen Require Import Tables_gen.

Theorem tables_bodies_dialect_widths : gen_dialect_widths = dialect_table /\ gen_dialect_default = dialect_default.
Proof. split; reflexivity. Qed.

Lemma assoc_in {A} k (t : list (N * A)) a : assoc k t = Some a -> In (k, a) t.
Proof.
  induction t as [|[k' a'] t IH]; cbn [assoc]; intros H; [discriminate|].
  destruct (k' =? k) eqn:E; [apply N.eqb_eq in E; inversion H; subst; now left | right; auto].
Qed.

Theorem tables_bodies_sign_room : forall d, id_len d + 8 <= sign_len d.
Proof.
  assert (T : forallb (fun p => fst (snd p) + 8 <=? snd (snd p)) gen_dialect_widths = true) by (vm_compute; reflexivity).
  assert (D : fst gen_dialect_default + 8 <= snd gen_dialect_default) by (vm_compute; discriminate).
  destruct tables_bodies_dialect_widths as [E1 E2]. rewrite E1 in T. rewrite E2 in D.
  intros d. unfold id_len, sign_len, dialect_widths. destruct (assoc d dialect_table) as [p|] eqn:E; [|exact D].
  apply assoc_in in E. rewrite forallb_forall in T. specialize (T _ E). cbn [fst snd] in T. now apply N.leb_le.
Qed.

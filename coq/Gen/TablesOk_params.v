(* Regenerated-table obligations for the terminal-parameter table (C07, C03): TerminalParamDetails' field
   declarations, parseParam's case lists and the per-width assignment switches, read from the Go source NOW
   (Gen/Tables_gen.v: gen_param_struct, gen_param_cases, gen_param_assign), give exactly the table
   Model/Params.v param_fields about which Props/C07.v proves the parameter-list round trip; and the
   source is consistent with itself: every assignment stores an id in the field that carries that id in
   its name, with the width of the case that accepted it; every id a typed case accepts is stored. *)
From Coq Require Import String.
From JT.Base Require Import Prelude Fmt.
From JT.Model Require Import Msg_simple Params.
From JT.Gen Require Import Tables_gen.

Definition kind_of_code (c : N) : pkind :=
  match c with 1 => K32 | 2 => K16 | 3 => K8 | 4 => KStr | 5 => KB4 | 6 => KB8 | _ => KNone end.

Definition case_code (id : N) : option N :=
  match find (fun c => existsb (N.eqb id) (snd c)) gen_param_cases with Some c => Some (fst c) | None => None end.

(* a declared field is served when some case assigns to it; otherwise parseParam has no case for it *)
Definition field_row (f : string * N * N) : N * pkind :=
  let '(name, nid, k) := f in
  if existsb (fun a => String.eqb (snd a) name) gen_param_assign then (nid, kind_of_code k) else (nid, KNone).

Theorem tables_param_fields : map field_row gen_param_struct = param_fields.
Proof. vm_compute. reflexivity. Qed.

Theorem tables_param_assign_consistent :
  forallb (fun a =>
    match find (fun f => String.eqb (fst (fst f)) (snd a)) gen_param_struct with
    | Some (_, nid, k) => (nid =? fst a) && (match case_code (fst a) with Some c => c =? k | None => false end)
    | None => false
    end) gen_param_assign = true.
Proof. vm_compute. reflexivity. Qed.

Theorem tables_param_cases_stored :
  forallb (fun c => forallb (fun id => existsb (fun a => fst a =? id) gen_param_assign) (snd c)) gen_param_cases = true.
Proof. vm_compute. reflexivity. Qed.

(* no id is accepted by two cases or assigned twice *)
Fixpoint nodupb (l : list N) : bool :=
  match l with [] => true | x :: t => negb (existsb (N.eqb x) t) && nodupb t end.
Theorem tables_param_no_duplicates :
  nodupb (flat_map snd gen_param_cases) && nodupb (map fst gen_param_assign) = true.
Proof. vm_compute. reflexivity. Qed.

(* Regenerated-table obligations for C20: for every command that the terminal simulator's handler
   table (Model/Sim.v sim_handles) shares with the server's registry, the ReplyProtocol constant read
   from the Go source NOW is the reply id the simulator model uses, and the reply-bearing commands of
   C20 are registered by the server with HasReply = true (the simulator and the server use the same
   protocol/model types, so this ties the simulator's table to the current source as well). *)
From JT.Base Require Import Prelude.
From JT.Model Require Import Reply Sim.
From JT.Gen Require Import Tables_gen.

Definition gen_lookup (id : N) : option (bool * N * N) := assoc id gen_reply_registry.

Theorem tables_sim_reply_protocol :
  forallb (fun e => match gen_lookup (fst e) with
                    | Some (_, rid, _) => rid =? fst (snd e)
                    | None => true
                    end) sim_handles = true.
Proof. reflexivity. Qed.

Theorem tables_sim_reply_bearing :
  forallb (fun id => match gen_lookup id, sim_lookup id with
                     | Some (has, rid, _), Some (rid', _) => has && (rid =? rid')
                     | _, _ => false
                     end) sim_reply_ids = true.
Proof. reflexivity. Qed.

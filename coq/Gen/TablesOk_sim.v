(* Regenerated-table obligations for C20: for every command that the terminal simulator's handler
   table (Model/Sim.v sim_handles) shares with the server's registry, the ReplyProtocol constant read
   from the Go source NOW is the reply id the simulator model uses, and the reply-bearing commands of
   C20 are registered by the server with HasReply = true (the simulator and the server use the same
   protocol/model types, so this ties the simulator's table to the current source as well). *)
From JT.Base Require Import Prelude.
From JT.Model Require Import Reply Sim.
From JT.Gen Require Import Tables_gen.

Definition gen_lookup (id : N) : option (bool * N * N) := assoc id gen_reply_registry.

Theorem tables_sim_reply_protocol :
  forallb (fun e => match gen_lookup (fst e) with
                    | Some (_, rid, _) => rid =? fst (snd e)
                    | None => true
                    end) sim_handles = true.
Proof. reflexivity. Qed.

Theorem tables_sim_reply_bearing :
  forallb (fun id => match gen_lookup id, sim_lookup id with
                     | Some (has, rid, _), Some (rid', _) => has && (rid =? rid')
                     | _, _ => false
                     end) sim_reply_ids = true.
Proof. reflexivity. Qed.

(* ---- the simulator's handler table read from terminal/handle.go NOW (translator: simRegistry) ----
   defaultProtocolHandles in source order: same commands in the same order as Model/Sim.v sim_handles,
   the same ReplyProtocol, every type registered under its own Protocol(), and the ReplyBody method the
   handler ends up with (declaring type) is the one the model's [rkind] stands for. *)
Definition kind_code_ok (k : rkind) (code : N) : bool :=
  match k with
  | RGeneral => code =? 0            (* BaseHandle.ReplyBody *)
  | RRegister => code =? 0x0100
  | RAuth => code =? 0x0102
  | RMedia => code =? 0x0801
  | RFile => code =? 0x1212
  | REmpty => (code =? 0x1003) || (code =? 65535)   (* T0x1003: nil body; defaultHandle wrapper: nil body *)
  end.

(* compared AS FINITE MAPS (defaultProtocolHandles is a Go map literal: the order of its entries is not
   behaviour): same commands, each once, same ReplyProtocol and ReplyBody kind, Protocol() = key *)
Fixpoint nodupb (l : list N) : bool :=
  match l with [] => true | x :: t => negb (existsb (N.eqb x) t) && nodupb t end.

Theorem tables_sim_registry_ids_and_reply :
  forallb (fun p => match sim_lookup (fst p) with
                    | Some (rid, _) => rid =? fst (fst (snd p))
                    | None => false
                    end) gen_sim_registry = true /\
  forallb (fun id => existsb (N.eqb id) (map fst gen_sim_registry)) (map fst sim_handles) = true /\
  nodupb (map fst gen_sim_registry) = true /\ nodupb (map fst sim_handles) = true.
Proof. repeat split; reflexivity. Qed.

Theorem tables_sim_registry_protocol_is_key :
  forallb (fun p => fst p =? snd (fst (snd p))) gen_sim_registry = true.
Proof. reflexivity. Qed.

Theorem tables_sim_registry_reply_body :
  forallb (fun p => match sim_lookup (fst p) with
                    | Some (_, k) => kind_code_ok k (snd (snd p))
                    | None => false
                    end) gen_sim_registry = true.
Proof. reflexivity. Qed.

(* every supported command has a default body in every version and nothing else has one: the keys of
   default_bodies are exactly versions x the commands of the regenerated table (as sets, each key once) *)
Definition key_eqb (a b : N * N) : bool := (fst a =? fst b) && (snd a =? snd b).
Fixpoint nodupk (l : list (N * N)) : bool :=
  match l with [] => true | x :: t => negb (existsb (key_eqb x) t) && nodupk t end.
Definition gen_keys : list (N * N) :=
  flat_map (fun ver => map (fun p => (ver, fst p)) gen_sim_registry) [V2011; V2013; V2019].

Theorem tables_sim_default_body_keys :
  forallb (fun k => existsb (key_eqb k) gen_keys) (map fst default_bodies) = true /\
  forallb (fun k => existsb (key_eqb k) (map fst default_bodies)) gen_keys = true /\
  nodupk (map fst default_bodies) = true.
Proof. repeat split; reflexivity. Qed.

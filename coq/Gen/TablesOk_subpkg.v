(* Tie #2 for C14 / C09: the time limits of Model/Subpkg.v and the read-buffer size used with
   Model/Mem.v are the constants the translator reads from /repo's current source
   (service/packet_parse.go: time.Now().Add(-60 * time.Second), Add(-5 * time.Second);
   service/connection.go: make([]byte, 1023)).  Regenerated on every run of bin/check: a changed
   constant in the source makes these theorems fail to compile. *)
From JT.Base Require Import Prelude.
From JT.Model Require Import Frame Unpack Subpkg Mem.
From JT.Gen Require Import Tables_gen.

Theorem subpkg_expiry_limit_ok : forall now s,
  delete_timeout now s = filter (fun kv => negb (x_create (snd kv) + gen_subpkg_expiry_s * 1000 <? now)) s.
Proof. reflexivity. Qed.

Theorem subpkg_rerequest_limit_ok : forall now id x t,
  supplementary now ((id, x) :: t) =
  let '(t', rs) := supplementary now t in
  if x_update x + gen_subpkg_rerequest_s * 1000 <? now
  then ((id, {| x_slots := x_slots x; x_create := x_create x; x_update := now; x_first := x_first x |}) :: t',
        mk_rereq id x :: rs)
  else ((id, x) :: t', rs).
Proof. reflexivity. Qed.

(* the buffer size of connection.reader is the one the C09 witnesses and the harness use *)
Theorem mem_read_buffer_ok : gen_read_buffer_size = 1023.
Proof. reflexivity. Qed.

(* the variants that stand for "the current code" in Model/Mem.v and Model/HdrMem.v are what the
   translator reads in the source now (translator/main.go ownershipShapes): the fast path decodes a
   clone of the read and a consumed history becomes nil (adede50); every frame is decoded into a
   fresh JTMessage; the timeout record (4b6a3bd), the merged message (a3fb0a0) and the session
   (052add1: the header connection.onActiveEvent writes for platform commands, never a delivered one)
   hold deep copies of the header - Header struct and BodyProperty *)
From JT.Model Require Import HdrMem.

Theorem mem_variant_ok : cur = {| v_clone := gen_fastpath_clones; v_nil := gen_history_nil |}.
Proof. reflexivity. Qed.

Definition share_of_gen (n : N) : share := match n with 0 => Shared | 1 => Shallow | _ => Deep end.

Theorem hdr_variant_ok :
  hcur = {| hv_rec := share_of_gen gen_record_header_share; hv_merge := share_of_gen gen_merged_header_share |} /\
  gen_record_header_share <= 2 /\ gen_merged_header_share <= 2.
Proof. repeat split; discriminate. Qed.

Theorem decode_fresh_ok : gen_decode_fresh = true.
Proof. reflexivity. Qed.

Theorem session_header_own_ok : share_of_gen gen_session_header_share = Deep /\ gen_session_header_share <= 2.
Proof. split. reflexivity. discriminate. Qed.

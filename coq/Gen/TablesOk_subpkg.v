(* Tie #2 for C14 / C09: the time limits of Model/Subpkg.v and the read-buffer size used with
   Model/Mem.v are the constants the translator reads from /repo's current source
   (service/packet_parse.go: time.Now().Add(-60 * time.Second), Add(-5 * time.Second);
   service/connection.go: make([]byte, 1023)).  Regenerated on every run of bin/check: a changed
   constant in the source makes these theorems fail to compile. *)
From JT.Base Require Import Prelude.
From JT.Model Require Import Frame Unpack Subpkg Mem.
From JT.Gen Require Import Tables_gen.

Theorem subpkg_expiry_limit_ok : forall now s,
  delete_timeout now s = filter (fun kv => negb (x_create (snd kv) + gen_subpkg_expiry_s * 1000 <? now)) s.
Proof. reflexivity. Qed.

Theorem subpkg_rerequest_limit_ok : forall now id x t,
  supplementary now ((id, x) :: t) =
  let '(t', rs) := supplementary now t in
  if x_update x + gen_subpkg_rerequest_s * 1000 <? now
  then ((id, {| x_slots := x_slots x; x_create := x_create x; x_update := now; x_first := x_first x |}) :: t',
        mk_rereq id x :: rs)
  else ((id, x) :: t', rs).
Proof. reflexivity. Qed.

(* the buffer size of connection.reader is the one the C09 witnesses and the harness use *)
Theorem mem_read_buffer_ok : gen_read_buffer_size = 1023.
Proof. reflexivity. Qed.

(* C03, the locality half — "the outcome depends only on the bytes inside the slice, not on memory
   beyond the slice's length" as theorems, for the 32 message decoders of Model/Total_msgs.v.

   Model/Total_cap.v holds the same decoders reading a slice WITH spare capacity: `tail` are the
   bytes behind len(body) in the same array.  Go checks an index s[i] and the default high bound of
   s[i:] against len(s) but a slice expression s[i:j] against cap(s): with spare capacity s[i:j]
   beyond len does not panic, it silently reads the tail (slice_capT; a sub-slice inherits the rest
   of the array as its own spare capacity).  The theorems say that no decoder ever does:
   for EVERY tail the spare-capacity decoder returns exactly what the cap = len decoder returns.
   Proofs: Proofs/Total_cap_proofs.v (a step-by-step refinement between the two definitions plus
   the totality theorems of Props/C03.v).
   Second part (Model/Total_cap2.v, Proofs/Total_cap2_proofs.v): the same for the decoders whose
   cap = len models belong to other properties — the location family 0x0200 / 0x0704 / 0x0801 with
   the additional-information walk and the per-id decoders, the extension handlers 0x64 0x65 0x67
   0x70 with their base block and alarm identification, Header.decode / JTMessage.Decode on the
   unescaped buffer, and jt1078 Packet.Decode.
   Third part (Model/Total_unesc.v, Proofs/Total_unesc_proofs.v): jt808's unescape walk at index
   level (data[i], data[index:i-1], data[index:len-1], the fast path data[1:len-1]) is proved equal to
   the structural unescape of Model/Frame.v, hence never panics, and with spare capacity it returns
   the same for every tail: together with the header part the whole of JTMessage.Decode is covered.
   Fourth part (Model/Total_emb.v, Proofs/Total_emb_proofs.v): T0x0200.Parse with an extension
   handler installed through CustomAdditionContentFunc (C03_embedded).
   Not covered by a locality theorem: extension 0x66 (locality is refuted: third conjunct of
   C03_refuted_ext66 in Props/C03_location.v, the known finding), alone or embedded. *)
From JT.Base Require Import Prelude.
From JT.Model Require Import Location LocationExt Frame Jt1078 Total_base Total_msgs Total_codec Total_cap Total_cap2 Total_unesc Total_emb.
From JT.Proofs Require Import Total_cap_proofs Total_cap2_proofs Total_unesc_proofs Total_emb_proofs.

(* the primitives.  Generic lemma: in range with cap = len => same bytes with any tail.  The
   spare-capacity primitives are the real thing: they DO return tail bytes when a slice expression
   (or the cursor's `take`) reaches beyond len, so the theorems below are not true by definition;
   without a tail they are the cap = len primitives *)
Theorem C03_cap_primitives :
  (forall l tail i j x, slice l i j = Ok x -> slice_capT l tail i j = Ok x) /\
  (forall l i j, slice_capT l [] i j = slice l i j) /\
  (slice [1; 2] 1 3 = Panic /\ slice_capT [1; 2] [7] 1 3 = Ok [2; 7] /\ slice_capT [1; 2] [9] 1 3 = Ok [2; 9]) /\
  (take 3 [1; 2] = Panic /\ take_cap 3 [1; 2] [7] = Ok ([1; 2; 7], []) /\
   take_cap 3 [1; 2] [9] = Ok ([1; 2; 9], []) /\ (forall n l, take_cap n l [] = take n l)).
Proof.
  split. exact slice_cap_ok. split. exact slice_cap_nil. split. exact slice_cap_sees_tail. exact take_cap_sees_tail.
Qed.
Print Assumptions C03_cap_primitives.

(* straight-line decoders, generically: layout_ok => the tail is never read *)
Theorem C03_fixed_layout_local : forall g fs, layout_ok g fs = true -> forall body tail,
  fixed_parse_cap g fs body tail = fixed_parse g fs body.
Proof. exact fixed_layout_local. Qed.
Print Assumptions C03_fixed_layout_local.

(* refinement, without any totality hypothesis: wherever the cap = len decoder does not panic, the
   spare-capacity decoder returns the same *)
Theorem C03_msg_refines : forall id gbk ver d r body tail,
  parse_msg id gbk ver d r body = Panic \/
  parse_msg_cap id gbk ver d r body tail = parse_msg id gbk ver d r body.
Proof. exact refines_parse_msg. Qed.
Print Assumptions C03_msg_refines.

(* all 32 message decoders (fixed, length-prefixed, count-driven loops 0x0805 0x1205 0x1210 0x8003
   0x8800 0x9212, the terminal-parameter walk of 0x0104 / 0x8103, the alarm identification inside
   0x9208 / 0x1210): C03_<T>_local is the instance for T's message id *)
Theorem C03_msg_local : forall id gbk ver d r body tail, ver = 1 \/ ver = 2 \/ ver = 3 ->
  parse_msg_cap id gbk ver d r body tail = parse_msg id gbk ver d r body.
Proof. exact parse_msg_local. Qed.
Print Assumptions C03_msg_local.

(* ---- second part: location family, extension handlers, frame and RTP decoders ---- *)

(* 0x0200 / 0x0704 / 0x0801 and the additional-information walk: every item's content is a sub-slice
   whose spare capacity is the following items and the tail; no per-id decoder reads it *)
Theorem C03_location_local : forall body tail,
  (forall r, t0200_cap r body tail = t0200_parse r body) /\
  (forall r, t0704_cap r body tail = t0704_parse r body) /\
  (forall r, t0801_cap r body tail = t0801_parse r body) /\
  additions_cap body tail = additions_parse body.
Proof.
  intros. repeat split; intros.
  apply t0200_local. apply t0704_local. apply t0801_local. apply additions_local.
Qed.
Print Assumptions C03_location_local.

(* extension handlers 0x64 0x65 0x67 0x70 (kind 102 = 0x66 is the refuted one) for every receiver *)
Theorem C03_ext_local : forall kind r id c tail, kind <> 102 ->
  ext_cap kind r id c tail = ext_parse kind r id c [].
Proof. exact ext_local. Qed.
Print Assumptions C03_ext_local.

(* jt808: (1) the unescape walk written at index level is the structural unescape of Model/Frame.v,
   and with ANY bytes behind the slice it returns the same; (2) the header / body slices of the
   unescaped buffer, whatever its spare capacity holds (on the fast path the buffer is
   data[1:len-1]: closing delimiter + the caller's tail).  jt1078: Packet.Decode on any previous
   receiver *)
Theorem C03_frame_rtp_local :
  (forall d, unescape_chk d = unescape d) /\
  (forall d tail, unescape_cap d tail = unescape d) /\
  (forall d ptail, decode_chk_cap d ptail = decode_chk d) /\
  (* both halves composed: JTMessage.Decode with the walk at index level (what op c03fseq runs) and with
     spare capacity behind the frame and behind the unescaped buffer (what op c03ft runs) *)
  (forall d, frame_decode_chk d = decode_chk d) /\
  (forall d tail ptail, frame_cap d tail ptail = decode_chk d) /\
  (forall r d tail, rtp_decode_cap r d tail = rtp_decode r d).
Proof.
  split. exact unescape_chk_eq. split. exact unescape_local. split. exact frame_local.
  split. exact frame_decode_chk_eq. split. exact frame_cap_local. exact rtp_local.
Qed.
Print Assumptions C03_frame_rtp_local.

(* ---- the README pattern: an extension handler (0x64 0x65 0x67 0x70; kind 102 = 0x66 is the refuted
        one) installed in T0x0200 through CustomAdditionContentFunc, Model/Total_emb.v.  The handler is
        called first for every item, on the item's content (a sub-slice whose spare capacity is the
        following items and the tail), accepts or declines, and keeps its state across items.
        For every handler state e, every body and every tail: no panic, and the result (location
        block, Additions with their custom marks, handler afterwards) is the one with nothing behind
        the body.  This is not a corollary of C03_location_local + C03_ext_local alone: the walk is a
        different function (handler first, standard decoder only on decline, handler state threaded) ---- *)
Theorem C03_embedded : forall kind e body tail, kind <> 102 ->
  t0200_emb kind e body tail = t0200_emb kind e body [] /\ t0200_emb kind e body tail <> Panic.
Proof. exact t0200_emb_local. Qed.
Print Assumptions C03_embedded.

(* non-vacuity: the spare-capacity decoders accept what the cap = len decoders accept, with a
   non-empty tail behind the slice *)
Example C03_local_accepts :
  is_ok (parse_msg_cap 2053 (fun x => x) 2 0 (VL []) [0; 1; 0; 0; 1; 0; 0; 0; 9] [255; 255]) = true /\
  is_ok (t0200_cap fresh_0200 (repeat 0 28 ++ [1; 4; 0; 0; 0; 7]) [1; 4; 9; 9; 9; 9]) = true /\
  is_ok (ext_cap 100 (fresh_ext 2) 100 (repeat 1 47) [170; 170]) = true /\
  is_ok (rtp_decode_cap fresh_pkt (marker ++ [129; 98; 0; 1; 1; 2; 3; 4; 5; 6; 1; 48] ++ repeat 0 8 ++ [0; 1; 7]) [85]) = true /\
  (* a heartbeat frame whose check byte 0x7d is escaped: unescape walk + header decode behind tails *)
  unescape_cap [126; 0; 2; 0; 0; 1; 35; 69; 103; 137; 1; 0; 247; 125; 1; 126] [1; 2; 3] =
    Ok [0; 2; 0; 0; 1; 35; 69; 103; 137; 1; 0; 247; 125] /\
  is_ok (decode_chk_cap [126; 0; 2; 0; 0; 1; 35; 69; 103; 137; 1; 0; 247; 125; 1; 126] [126; 9]) = true /\
  is_ok (frame_cap [126; 0; 2; 0; 0; 1; 35; 69; 103; 137; 1; 0; 247; 125; 1; 126] [1; 2; 3] [9]) = true /\
  (* an accepted 0x64 item (47 bytes) after a mileage item, behind a tail: the handler's content is marked custom *)
  (exists l its e, t0200_emb 100 (fresh_ext 2) (repeat 0 28 ++ [1; 4; 0; 0; 0; 9; 100; 47] ++ repeat 1 47) [170] = Ok (l, its, e) /\
     map ei_custom its = [false; true]).
Proof. vm_compute. repeat split; try reflexivity. eexists _, _, _. split; reflexivity. Qed.

(* C03, the locality half — "the outcome depends only on the bytes inside the slice, not on memory
   beyond the slice's length" as theorems, for the 32 message decoders of Model/Total_msgs.v.

   Model/Total_cap.v holds the same decoders reading a slice WITH spare capacity: `tail` are the
   bytes behind len(body) in the same array.  Go checks an index s[i] and the default high bound of
   s[i:] against len(s) but a slice expression s[i:j] against cap(s): with spare capacity s[i:j]
   beyond len does not panic, it silently reads the tail (slice_capT; a sub-slice inherits the rest
   of the array as its own spare capacity).  The theorems say that no decoder ever does:
   for EVERY tail the spare-capacity decoder returns exactly what the cap = len decoder returns.
   Proofs: Proofs/Total_cap_proofs.v (a step-by-step refinement between the two definitions plus
   the totality theorems of Props/C03.v).
   Not covered here (they stay on the cap = len modelling argument of DESIGN section 3 and on the
   poisoned-tail runs): the location family T0x0200 / T0x0704 / T0x0801 and the extension handlers
   (models of Location.v / LocationExt.v; for 0x66 locality is refuted: C03_refuted_ext66_local),
   the frame decoder and the RTP decoder. *)
From JT.Base Require Import Prelude.
From JT.Model Require Import Location LocationExt Total_base Total_msgs Total_cap.
From JT.Proofs Require Import Total_cap_proofs.

(* the generic lemma on the primitive: in range with cap = len => same bytes with any tail *)
Theorem C03_slice_local : forall l tail i j x, slice l i j = Ok x -> slice_capT l tail i j = Ok x.
Proof. exact slice_cap_ok. Qed.
Print Assumptions C03_slice_local.

(* the spare-capacity primitive is the real thing: it DOES see the tail when a slice expression
   reaches beyond len (so the theorems below are not true by definition), and without a tail it is
   the cap = len primitive *)
Theorem C03_slice_cap_meaning :
  (forall l i j, slice_capT l [] i j = slice l i j) /\
  slice [1; 2] 1 3 = Panic /\ slice_capT [1; 2] [7] 1 3 = Ok [2; 7] /\ slice_capT [1; 2] [9] 1 3 = Ok [2; 9].
Proof. split. exact slice_cap_nil. exact slice_cap_sees_tail. Qed.
Print Assumptions C03_slice_cap_meaning.

(* straight-line decoders, generically: layout_ok => the tail is never read *)
Theorem C03_fixed_layout_local : forall g fs, layout_ok g fs = true -> forall body tail,
  fixed_parse_cap g fs body tail = fixed_parse g fs body.
Proof. exact fixed_layout_local. Qed.
Print Assumptions C03_fixed_layout_local.

(* refinement, without any totality hypothesis: wherever the cap = len decoder does not panic, the
   spare-capacity decoder returns the same *)
Theorem C03_msg_refines : forall id gbk ver d r body tail,
  parse_msg id gbk ver d r body = Panic \/
  parse_msg_cap id gbk ver d r body tail = parse_msg id gbk ver d r body.
Proof. exact refines_parse_msg. Qed.
Print Assumptions C03_msg_refines.

(* all 32 message decoders (fixed, length-prefixed, count-driven loops 0x0805 0x1205 0x1210 0x8003
   0x8800 0x9212, the terminal-parameter walk of 0x0104 / 0x8103, the alarm identification inside
   0x9208 / 0x1210): C03_<T>_local is the instance for T's message id *)
Theorem C03_msg_local : forall id gbk ver d r body tail, ver = 1 \/ ver = 2 \/ ver = 3 ->
  parse_msg_cap id gbk ver d r body tail = parse_msg id gbk ver d r body.
Proof. exact parse_msg_local. Qed.
Print Assumptions C03_msg_local.

(* C13 — disconnects never crash the server or strand callers.

   Model: Model/Writer.v (see Props/C12.v).  PeerClose stands for everything that makes the reader's Read
   fail (FIN, RST, garbage); a refused join (another connection owns the key) tears the connection down
   as well.  `forall sched` covers every point of the connection's life at which that can happen, with any
   number of commands queued at the manager, queued in activeMsgChan, written and waiting, with timers
   sleeping or firing and timeout messages queued.

   OCrash is a send on a closed channel or the close of a closed channel (a process-wide panic in Go) among
   stopChan, msgChan, activeMsgChan, activeMsgCompleteChan and reissuePackChan of the connection.
   A second answer to the same caller would be a send on its closed reply channel; that is the NoDup, which
   holds without any hypothesis: a reused serial loses a caller (C12_refuted_reuse), it never answers one twice.  Other panic classes (nil dereference, index out of
   range in a decoder, ...) are not in this model: C03/C10. *)
From Coq Require Import List NArith Bool Arith.
From JT.Base Require Import Sched.
From JT.Model Require Import Writer.
From JT.Model Require WriterHist.
From JT.Proofs Require Import Writer_proofs Writer_trace.
Import ListNotations.
Open Scope N_scope.

Theorem C13_no_crash : forall s0 sched, let tr := trace step (init s0) sched in
  ~ In OCrash tr /\ NoDup (returned tr).
Proof. intros s0 sched tr. split; [apply no_crash_all | apply nodup_returned_all]. Qed.
Print Assumptions C13_no_crash.

(* Once the terminal is gone, in every state in which no process of the server can move any more every
   call that was made has returned (with a response, a timeout, a write failure or ErrNotExistKey) - under
   no_reuse. *)
Theorem C13_every_caller_returns : forall s0 sched,
  let s := final step (init s0) sched in let tr := trace step (init s0) sched in
  no_reuse tr -> quiescent s -> peer_closed s = true ->
  forall c, In (OCall c) tr -> exists r, In (OReturn (c_id c) r) tr.
Proof. exact stopped_all_return. Qed.
Print Assumptions C13_every_caller_returns.

(* Every step of the server (everything except new calls, terminal messages and the disconnect itself)
   decreases a measure of the state ... *)
Theorem C13_server_settles : forall s c s' o,
  internal c = true -> step s c = Some (s', o) -> (measure s' < measure s)%nat.
Proof. exact measure_step. Qed.
Print Assumptions C13_server_settles.

(* ... so from any state the server can take at most [measure s] steps on its own, whatever the interleaving ... *)
Theorem C13_bounded_steps : forall sched s,
  Forall (fun c => internal c = true) sched -> (executed s sched <= measure s)%nat.
Proof. exact internal_steps_bounded. Qed.
Print Assumptions C13_bounded_steps.

(* ... and a quiescent state IS reached: from every state (reachable or not) some schedule of at most
   [measure s] server steps ends in a state in which no server step is enabled; by C13_bounded_steps no
   schedule of server steps can avoid such a state for more than [measure s] enabled steps.  (What is
   assumed of the real scheduler is only that an enabled goroutine eventually runs.) *)
Theorem C13_quiescent_reached : forall s,
  exists sched, Forall (fun c => internal c = true) sched /\ quiescent (final step s sched) /\
                (length sched <= measure s)%nat.
Proof. exact quiescent_reached. Qed.
Print Assumptions C13_quiescent_reached.

(* The same without choosing the schedule: ANY run of server steps that has not arrived in a quiescent state has
   executed fewer than [measure s] steps.  So a scheduler that keeps running enabled goroutines - the only thing
   assumed of Go's - is in a quiescent state after at most [measure s] steps of the server. *)
Theorem C13_every_run_settles : forall sched s,
  Forall (fun c => internal c = true) sched ->
  ~ quiescent (final step s sched) -> (executed s sched < measure s)%nat.
Proof. exact not_quiescent_few_steps. Qed.
Print Assumptions C13_every_run_settles.

(* an instance: a joined connection with a message at the reader, one more on the wire and a call at the manager;
   nine server steps later (reply, routing, write, second reply, timer, timeout) nothing is left to do - the
   measure went from 35 to 10 (the idle reader and writer) *)
Example C13_a_run_settles :
  let s := final step (init 0) [PeerSend (TOther 7 true); RdRead; MgrStep JOk; Call 33027 true; PeerSend (TOther 8 true)] in
  let sched := [RdPush; WMsg 0 true; MgrStep JOk; WAct true; RdRead; RdPush; WMsg 0 true; TSend 0; WCpl] in
  Forall (fun c => internal c = true) sched /\ quiescent (final step s sched) /\
  executed s sched = 9%nat /\ measure s = 35%nat /\ measure (final step s sched) = 10%nat /\
  returns (trace step s sched) = [(0%nat, RTimeout)].
Proof.
  split; [repeat constructor|]. split; [apply quiescentb_true; vm_compute; reflexivity|].
  vm_compute. repeat split; reflexivity.
Qed.

(* ---- satisfiable: disconnect with one command outstanding, one queued in activeMsgChan and one still
        with the manager; everybody is answered, the final state is quiescent ---- *)
Definition up : list choice := [PeerSend (TOther 7 true); RdRead; MgrStep JOk; RdPush; WMsg 0 true].
Definition teardown : list choice :=
  up ++ [Call 33027 true; Call 33027 true; MgrStep JOk; MgrStep JOk; WAct true;
         PeerClose; RdFail; Call 33027 false; MgrStep JOk; MgrStep JOk; RdClose; RdClose; RdClose; RdClose;
         WStop; WDrain; WDrain; TQuit 0].

Example C13_teardown_returns :
  returns (trace step (init 0) teardown) = [(2%nat, RNoExist); (0%nat, RNoExist); (1%nat, RNoExist)].
Proof. vm_compute. reflexivity. Qed.

Example C13_teardown_quiescent :
  quiescent (final step (init 0) teardown) /\ peer_closed (final step (init 0) teardown) = true /\
  no_reuse (trace step (init 0) teardown).
Proof.
  split; [|split].
  - intros c Hc. destruct c; try discriminate Hc; reflexivity.
  - reflexivity.
  - vm_compute. intuition discriminate.
Qed.

(* ---- the historical defects, as schedules of the MODEL of the code as it was (Model/WriterHist.v,
        DESIGN.md A.5).  These theorems are about that model only; the defects themselves were confirmed on the
        socket before the repairs (known_findings.json "fixed"), and the harness's `wold` op merely pins the
        extracted WriterHist to the recorded outputs ---- *)
Import WriterHist.

(* a9e0f38: the timer passed its stopChan check, stop() closed the channel, the timer sent *)
Theorem C13_refuted_old_timer_send_on_closed :
  In WriterHist.OCrash
     (snd (WriterHist.run WriterHist.init
       [MgrPush 7; WSelAct; TFire 0; WriterHist.PeerClose; ReaderStop; WriterHist.TSend 0])).
Proof. vm_compute. auto. Qed.

(* 6c53d16 (write-error path): a command queued when the terminal disappeared *)
Theorem C13_refuted_old_writer_send_on_closed :
  In WriterHist.OCrash
     (snd (WriterHist.run WriterHist.init
       [MgrPush 7; WriterHist.PeerClose; ReaderStop; WSelAct; WDoSend])).
Proof. vm_compute. auto. Qed.

(* 6c53d16: one outstanding command answered four times: the writer blocks on its own full channel *)
Theorem C13_refuted_old_selfblock :
  let s := fst (WriterHist.run WriterHist.init
       [MgrPush 7; WSelAct; ReaderPush (WriterHist.TResp 0); ReaderPush (WriterHist.TResp 0);
        ReaderPush (WriterHist.TResp 0); ReaderPush (WriterHist.TResp 0);
        WSelMsg; WDoSend; WSelMsg; WDoSend; WSelMsg; WDoSend; WSelMsg; WDoSend]) in
  w s = WSend (CM 0 (WriterHist.RResp 0)) /\ length (WriterHist.cplQ s) = 3%nat /\
  WriterHist.step s WDoSend = None /\ WriterHist.step s WSelCpl = None.
Proof. vm_compute. auto. Qed.

(* c13075d: disconnect before the response: the record is cleared, the timer exits, caller 7 never returns *)
Theorem C13_refuted_old_stranded_caller :
  let r := WriterHist.run WriterHist.init
       [MgrPush 7; WSelAct; WriterHist.PeerClose; ReaderStop; WSelStop; TFire 0] in
  snd r = [WriterHist.OWrite 0 7] /\ WriterHist.rec (fst r) = [] /\ WriterHist.timers (fst r) = [] /\
  w (fst r) = WExit.
Proof. vm_compute. auto. Qed.

(* C03, location part — the decoders of the location family are total functions of their input:
   the 28-byte block, the flag decoders, the additional-information TLV walk and per-id decoders,
   the three carriers 0x0200 / 0x0704 / 0x0801, their renderers, the alarm identification for
   every active-safety dialect and the vendor extension items 0x64 0x65 0x66 0x67 0x70.
   Only statements here; proofs are in Proofs/Location_proofs.v and Proofs/LocationExt_proofs.v.

   Reading guide.  `Panic` is a Go run-time panic under the strictest caller (cap = len), so
   "<> Panic" says that no index or slice expression the decoder evaluates reaches beyond the
   length of the slice it was given.  (The explicit statements with a tail behind the slice are in
   Props/C03_local.v: C03_location_local, C03_ext_local.)  Every statement quantifies over ALL byte
   strings (no `bytes` hypothesis is even needed) and all previous receivers.
   The models are those of the tree after the fix: commits recorded in known_findings.json. *)
From JT.Base Require Import Prelude.
From JT.Model Require Import Location LocationExt Total_strings.
From JT.Proofs Require Import LocationStd Location_proofs LocationExt_proofs Total_strings_proofs.

(* ---- no panic, any byte string, any previous receiver ---- *)
Theorem C03_location_total : forall body,
  (forall r, t0200_parse r body <> Panic) /\
  (forall r, t0704_parse r body <> Panic) /\
  (forall r, t0801_parse r body <> Panic) /\
  block_parse body <> Panic /\ additions_parse body <> Panic.
Proof.
  intros body. split; [|split; [|split; [|split]]]; intros.
  apply t0200_total. apply t0704_total. apply t0801_total. apply block_total. apply additions_total.
Qed.
Print Assumptions C03_location_total.

(* the walk over the items is never cut short by its fuel bound (so termination is not what makes
   the theorem above true) and reports no error but the length error *)
Theorem C03_location_walk : forall fuel m body e, (List.length body <= fuel)%nat ->
  adds_walk fuel m body = adds_walk (List.length body) m body /\
  (adds_walk fuel m body = Err e -> e = E_LEN).
Proof. intros. split. now apply adds_walk_fuel. now apply adds_walk_err. Qed.
Print Assumptions C03_location_walk.

(* ---- the result does not depend on what the receiver held from earlier parses.
        For 0x0200 and 0x0704 the equation is DEFINITIONAL: after the fix: commits (flags reset, map
        and list started empty) every member is assigned, so Model/Location.v does not read r at all;
        that modelling decision is carried by the correspondence on reused receivers (ops seq0200 /
        seq0704: one receiver parses 1-3 flag-rich bodies first; C03/location-history-<k>,
        C03/history/T0x0200).  Only the 0x0801 conjunct has content: the model keeps `m_loc r` when
        the embedded block parse fails, and the theorem shows that this never happens. ---- *)
Theorem C03_location_history : forall body,
  (forall r, t0200_parse r body = t0200_parse fresh_0200 body) /\
  (forall r, t0704_parse r body = t0704_parse fresh_0704 body) /\
  (forall r, t0801_parse r body = t0801_parse fresh_0801 body).
Proof.
  intros body. split; [|split]; intros r.
  apply t0200_history. apply t0704_history. apply t0801_history.
Qed.
Print Assumptions C03_location_history.

(* ---- rendering is total for ANY value of the three carriers, parsed or not (so in particular for
        every successfully parsed one): the block's time re-slice body[22:28] of Encode() with its
        capacity 30, T0x0801's Encode()[:26], and the two %b prefixes of the 0x25 / 0x2A items ---- *)
Theorem C03_location_render :
  (forall v, t0200_render v <> Panic /\ Forall (fun a => aval_render (a_val a) <> Panic) (t_adds v)) /\
  (forall its, t0704_render its <> Panic) /\
  (forall v, t0801_render v <> Panic).
Proof.
  repeat split; intros.
  - apply t0200_render_total.
  - apply Forall_forall. intros a _. apply aval_render_total.
  - apply t0704_render_total.
  - apply t0801_render_total.
Qed.
Print Assumptions C03_location_render.

(* ---- the two String() bodies that loop / index over parsed collections, at index level
        (Model/Total_strings.v): T0x0704.String's `for i < len(t.Items) { t.Items[i]... }` is the
        structural renderer above and never fails, for any item list; T0x0200AdditionDetails.String's
        map lookups and sub-renderers never fail, for any map (parsed or not) ---- *)
Theorem C03_string_loops :
  (forall its, t0704_string its = t0704_render its /\ t0704_string its <> Panic) /\
  (forall m, adds_string m <> Panic).
Proof. split. intros its. split. apply t0704_string_eq. apply t0704_string_total. exact adds_string_total. Qed.
Print Assumptions C03_string_loops.

(* ---- the alarm identification: every dialect (any ActiveSafetyType value), any slice ---- *)
Theorem C03_sign_total : forall r data, exists s, asign_parse r data = Ok s /\ s_dialect s = s_dialect r.
Proof.
  intros r data. destruct (asign_parse_ok r data) as [s E]. exists s. split. exact E.
  now apply asign_parse_dialect with data.
Qed.
Print Assumptions C03_sign_total.

(* ---- extension items 0x64 0x65 0x67 0x70 for every receiver (dialect), and 0x66 whenever at
        least one byte of capacity lies behind the content ---- *)
Theorem C03_ext_total : forall kind r id c tail, (kind <> 102 \/ tail <> []) ->
  ext_parse kind r id c tail <> Panic.
Proof. exact ext_parse_total. Qed.
Print Assumptions C03_ext_total.

(* only the dialect of the handler is an input; every other member is overwritten or reset *)
Theorem C03_ext_history : forall kind r id c tail,
  ext_parse kind r id c tail = ext_parse kind (fresh_ext (ext_dialect r)) id c tail.
Proof. exact ext_parse_history. Qed.
Print Assumptions C03_ext_history.

(* ---- known finding C03/ext66-overread (pinned by TestT0x0200AdditionExtension/苏标_0x66) ----
   on a slice with cap = len, 0x66 panics exactly on the items it accepts (it can never succeed) *)
Theorem C03_refuted_ext66 :
  (* C03_ext66_exact *)
  (forall r id c, ext66_parse r id c [] = if ext66_accepts id c then Panic else Err E_DECLINE) /\
  (* a concrete panic *)
  (exists c, ext66_parse (fresh_ext 1) 102 c [] = Panic) /\
  (* C03_refuted_ext66_local: with spare capacity the decoded value depends on the byte behind the slice *)
  (exists c e1 e2, ext66_parse (fresh_ext 1) 102 c [0] = Ok e1 /\ ext66_parse (fresh_ext 1) 102 c [255] = Ok e2 /\
     e_list e1 <> e_list e2).
Proof.
  split. exact ext66_exact. split. exists c66. exact ext66_refuted_panic.
  destruct ext66_refuted_local as (e1 & e2 & A & B & L1 & L2).
  exists c66, e1, e2. repeat split; auto. rewrite L1, L2. discriminate.
Qed.
Print Assumptions C03_refuted_ext66.

(* table 18 flags of the extension base block are the standard's bits (T/JSATL 12-2017) *)
Theorem C03_table18 : forall st, flags_parse table18_table (bin_str 16 st) (repeat false 8) =
                                 Ok (std_flags std_table18 table18_fields st).
Proof. exact flags_table18. Qed.
Print Assumptions C03_table18.

(* non-vacuity: every handler accepts something, under 7-byte and 30-byte id dialects *)
Example C03_ext_accepts :
  is_ok (ext_parse 100 (fresh_ext 2) 100 (repeat 1 47) []) = true /\
  is_ok (ext_parse 101 (fresh_ext 3) 101 (repeat 1 47) []) = true /\
  is_ok (ext_parse 102 (fresh_ext 1) 102 c66 [7]) = true /\
  is_ok (ext_parse 103 (fresh_ext 5) 103 (repeat 1 41) []) = true /\
  is_ok (ext_parse 112 (fresh_ext 4) 112 (repeat 1 47) []) = true.
Proof. exact ext_accept_examples. Qed.

(* C19 at the level of a session of the upload model (Model/Attach.v): whatever state the connection is in when
   it ends, every path the default file handler hands to os.WriteFile (Attach.on_quit_saves: one per recorded file
   whose name passes the filter) is a path of Paths.writes for the recorded names, hence resolves inside
   <cwd>/<phone>/ - for EVERY state s, so in particular for the final state of every run of the connection
   (every list of reads, every dialect).  [phone_chars ph] is met by the phone of every message the frame decoder
   returns (Props/C19.v C19_phone_of_chars with Props/C01.v C01_decoded_headers_exist: 6 or 10 BCD bytes). *)
From JT.Base Require Import Prelude.
From JT.Model Require Import Frame Paths Attach.
From JT.Proofs Require Import Paths_proofs Attach_proofs.

Lemma map_filter_fst {A : Type} (f : str -> str) (l : list (str * A)) :
  map (fun x => f (fst x)) (filter (fun r => accepted (fst r)) l) = map f (filter accepted (map fst l)).
Proof.
  induction l as [|r rs IH]; [reflexivity|]. simpl. destruct (accepted (fst r)); simpl; congruence.
Qed.

Lemma on_quit_saves_paths s ph files : on_quit_saves s = Some (ph, files) ->
  map fst files = writes ph (map fst (s_record s)).
Proof.
  unfold on_quit_saves. destruct (s_stage s =? ST_SUCCESS_QUIT); [|discriminate].
  destruct (s_recent s) as [m|]; [|discriminate]. intros H. injection H as <- <-.
  unfold writes. rewrite map_map. cbn [fst]. apply map_filter_fst.
Qed.

Theorem C19_session_confined : forall cwd s ph files, on_quit_saves s = Some (ph, files) -> phone_chars ph ->
  Forall (fun pf => inside (cwd ++ [ph]) (resolve cwd (fst pf))) files.
Proof.
  intros cwd s ph files H Hp. apply Forall_forall. intros pf Hin.
  apply (writes_confined cwd ph (map fst (s_record s)) (fst pf) Hp).
  rewrite <- (on_quit_saves_paths s ph files H). now apply in_map.
Qed.
Print Assumptions C19_session_confined.

(* the directory itself: MkdirAll(phone) creates <cwd>/<phone> *)
Theorem C19_directory : forall cwd phone, phone_chars phone -> resolve cwd phone = cwd ++ [phone].
Proof.
  intros cwd phone Hp. pose proof (phone_plain phone Hp) as Hpl.
  destruct Hpl as (Hns & Hne & H1 & H2).
  unfold resolve. rewrite (split_noslash phone Hns). cbn [fold_left].
  destruct phone as [|c t]; [contradiction|].
  assert (Hc : (c =? SLASH) = false).
  { apply N.eqb_neq. unfold no_slash in Hns. rewrite Forall_forall in Hns. apply Hns. now left. }
  rewrite Hc. apply step_plain. repeat split; assumption.
Qed.
Print Assumptions C19_directory.

Lemma on_quit_saves_phone s ph files : on_quit_saves s = Some (ph, files) ->
  exists m, s_recent s = Some m /\ ph = phone_of m.
Proof.
  unfold on_quit_saves. destruct (s_stage s =? ST_SUCCESS_QUIT); [|discriminate].
  destruct (s_recent s) as [m|]; [|discriminate]. intros H. injection H as <- _. now exists m.
Qed.

(* every run of the connection, NO hypothesis on the phone: whatever bytes the reads carry, the directory is the
   number of a message the frame decoder returned (Attach_proofs.run_recent_phone: 6 or 10 BCD bytes, builder
   "attach"), hence a legal directory name (C19_phone_of_chars), and every save of the final state is confined *)
Theorem C19_run_confined : forall cwd d reads ph files, Forall bytes reads ->
  on_quit_saves (snd (run d reads)) = Some (ph, files) ->
  phone_chars ph /\ Forall (fun pf => inside (cwd ++ [ph]) (resolve cwd (fst pf))) files.
Proof.
  intros cwd d reads ph files Hb H.
  destruct (on_quit_saves_phone _ _ _ H) as (m & Hm & ->).
  destruct (run_recent_phone d reads m Hb Hm) as [Hbytes Hne].
  assert (Hp : phone_chars (phone_of m)) by (apply phone_of_chars; assumption).
  split; [exact Hp | exact (C19_session_confined cwd _ _ _ H Hp)].
Qed.
Print Assumptions C19_run_confined.

(* non-vacuity: a concrete session taken from a harness run (one read: a 0x1210 of terminal 13800138000 announcing
   one file of 3 bytes, no chunk, then the connection ends): the run reaches the success-quit stage with a recent
   message, the directory is "13800138000" and exactly one (empty) file is handed to os.WriteFile *)
Definition ex_c19_reads : list (list N) :=
  [[126; 18; 16; 0; 65; 1; 56; 0; 19; 128; 0; 0; 7; 84; 69; 82; 77; 73; 78; 65; 76; 45; 73; 68; 0; 0; 0; 0; 0; 0; 0; 0; 0; 0; 0; 0; 0; 0; 0; 0; 0; 0; 0; 0; 0; 0; 0; 0; 0; 0; 0; 0; 0; 0; 0; 0; 0; 0; 0; 0; 0; 0; 0; 0; 0; 0; 0; 0; 0; 1; 3; 46; 46; 97; 0; 0; 0; 3; 170; 126]].
Example C19_run_example : Forall bytes ex_c19_reads /\
  exists ph files, on_quit_saves (snd (run 1 ex_c19_reads)) = Some (ph, files) /\
    ph = [49;51;56;48;48;49;51;56;48;48;48] /\ length files = 1%nat.
Proof.
  split; [unfold bytes, ex_c19_reads; repeat (constructor; [repeat (constructor; [reflexivity|]); constructor|]); constructor|].
  eexists. eexists. split; [vm_compute; reflexivity|]. split; reflexivity.
Qed.

(* a fuller session (built with the harness's frame builders, dialect JS, three reads cut inside a chunk header and
   inside a chunk): a 0x1210 of terminal 13800138000 announcing "a.jpg" (4 bytes) and "../b" (2 bytes), the chunks
   "WX"@0 of a.jpg, "!!"@0 of ../b (which completes that file), "YZ"@2 of a.jpg, and the 0x1212 for a.jpg.  What
   is handed to os.WriteFile is evaluated: exactly ./13800138000/a.jpg with content WXYZ - the complete file whose
   name would leave the directory is not written *)
Definition ex_c19_reads2 : list (list N) :=
  [[126; 18; 16; 0; 76; 1; 56; 0; 19; 128; 0; 0; 7; 84; 69; 82; 77; 73; 78; 65; 76; 45; 73; 68; 0; 0; 0; 0; 0; 0; 0; 0; 0; 0; 0; 0; 0; 0; 0; 0; 0; 0; 0; 0; 0; 0; 0; 0; 0; 0; 0; 0; 0; 0; 0; 0; 0; 0; 0; 0; 0; 0; 0; 0; 0; 0; 0; 0; 0; 2; 5; 97; 46; 106; 112; 103; 0; 0; 0; 4; 4; 46; 46; 47; 98; 0; 0; 0; 2; 189; 126; 48; 49; 99; 100; 97; 46; 106; 112; 103; 0];
 [0; 0; 0; 0; 0; 0; 0; 0; 0; 0; 0; 0; 0; 0; 0; 0; 0; 0; 0; 0; 0; 0; 0; 0; 0; 0; 0; 0; 0; 0; 0; 0; 0; 0; 0; 0; 0; 0; 0; 0; 0; 0; 0; 0; 0; 0; 0; 0; 0; 0; 0; 2; 87; 88; 48; 49; 99; 100; 46; 46; 47; 98; 0; 0; 0; 0; 0; 0; 0; 0; 0; 0; 0; 0; 0; 0; 0; 0; 0; 0; 0; 0; 0; 0; 0; 0; 0; 0; 0; 0; 0; 0; 0; 0; 0; 0; 0; 0; 0; 0; 0; 0; 0; 0; 0; 0; 0; 0; 0; 0; 0; 0; 0; 0; 0; 2; 33; 33; 48; 49; 99];
 [100; 97; 46; 106; 112; 103; 0; 0; 0; 0; 0; 0; 0; 0; 0; 0; 0; 0; 0; 0; 0; 0; 0; 0; 0; 0; 0; 0; 0; 0; 0; 0; 0; 0; 0; 0; 0; 0; 0; 0; 0; 0; 0; 0; 0; 0; 0; 0; 0; 0; 0; 0; 0; 0; 2; 0; 0; 0; 2; 89; 90; 126; 18; 18; 0; 11; 1; 56; 0; 19; 128; 0; 0; 8; 5; 97; 46; 106; 112; 103; 0; 0; 0; 0; 4; 154; 126]].
Example C19_run_example2 : Forall bytes ex_c19_reads2 /\
  on_quit_saves (snd (run 1 ex_c19_reads2)) =
    Some ([49;51;56;48;48;49;51;56;48;48;48],
          [([46; 47; 49; 51; 56; 48; 48; 49; 51; 56; 48; 48; 48; 47; 97; 46; 106; 112; 103], [87; 88; 89; 90])]).
Proof.
  split; [|vm_compute; reflexivity].
  assert (H : forallb (forallb (fun b => b <? 256)) ex_c19_reads2 = true) by (vm_compute; reflexivity).
  apply Forall_forall. intros r Hr. apply Forall_forall. intros b Hb.
  rewrite forallb_forall in H. specialize (H r Hr). rewrite forallb_forall in H. apply N.ltb_lt. exact (H b Hb).
Qed.

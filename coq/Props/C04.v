(* C04 — stream framing is independent of TCP segmentation.
   Only statements here; every proof is `exact <lemma of Proofs/Unpack_proofs.v>`.
   Model: Model/Unpack.v (packageParse.unpack, fast path + buffered path, and the reader loop
   that calls it once per read).  A frame list is any list of byte strings that each have the
   shape 7e <non-empty interior without 7e> 7e and that Frame.decode accepts (vframe); chunks is
   ANY list of byte strings (reads) whose concatenation is the concatenation of the frames -
   no bound on the number of frames, their length, or the number / size / position of cuts
   (empty reads included, which the Go reader never produces). *)
From JT.Base Require Import Prelude.
From JT.Model Require Import Frame Unpack.
From JT.Model Require Import Subpkg.
From JT.Proofs Require Import Unpack_proofs Unpack_run_proofs.

(* however the stream is cut into reads: exactly one message per frame, in order, each the
   decoding of its frame; no error; nothing left in the history *)
Theorem C04_segmentation : forall fs chunks, Forall vframe fs -> concat chunks = concat fs ->
  run_unpack [] chunks [] = {| u_hist := []; u_msgs := map decode_ok fs; u_err := None |}.
Proof. exact segmentation. Qed.
Print Assumptions C04_segmentation.

(* two segmentations of the same stream give the same result *)
Theorem C04_any_two : forall fs cs1 cs2, Forall vframe fs ->
  concat cs1 = concat fs -> concat cs2 = concat fs ->
  run_unpack [] cs1 [] = run_unpack [] cs2 [].
Proof. exact any_two. Qed.
Print Assumptions C04_any_two.

(* promptness: after ANY prefix of the reads (the bytes fed so far are concat chunks, the rest of
   the stream is still to come), the messages delivered so far are exactly those of the frames
   whose closing delimiter is among the bytes fed - not one more, not one fewer -, the bytes
   after the last such frame are the history, and no error was reported *)
Theorem C04_prompt : forall fs chunks rest, Forall vframe fs -> concat chunks ++ rest = concat fs ->
  let done := frames_within fs (length (concat chunks)) in
  run_unpack [] chunks [] =
    {| u_hist := skipn (length (concat done)) (concat chunks); u_msgs := map decode_ok done; u_err := None |}.
Proof. exact prompt. Qed.
Print Assumptions C04_prompt.

(* one unpack call depends only on (history ++ read): the fast path and the buffered path agree *)
Theorem C04_one_call : forall h d fs r, Forall vframe fs -> partial r -> h ++ d = concat fs ++ r ->
  unpack h d = {| u_hist := r; u_msgs := map decode_ok fs; u_err := None |}.
Proof. exact unpack_frames. Qed.
Print Assumptions C04_one_call.

(* no result above is an artefact of the loop's fuel: more fuel never changes the outcome *)
Theorem C04_fuel_irrelevant : forall fuel h acc, (length h <= fuel)%nat ->
  scan fuel h acc = scan (length h) h acc.
Proof. exact scan_fuel_enough. Qed.
Print Assumptions C04_fuel_irrelevant.

(* vframe is decidable, and whatever Frame.encode produces and Frame.decode accepts is one *)
Theorem C04_vframe_decidable : forall f, vframeb f = true <-> vframe f.
Proof. exact vframeb_spec. Qed.
Print Assumptions C04_vframe_decidable.

Theorem C04_encode_vframe : forall h rid ps body m,
  decode (encode h rid ps body) = Ok m -> vframe (encode h rid ps body).
Proof. exact encode_vframe. Qed.
Print Assumptions C04_encode_vframe.

(* [unfragmented]: the frame's fragment bit is clear.  connection.reader calls packageParse.parse, i.e. unpack followed
   by the sub-package bookkeeping (Model/Subpkg.v, C05); for unfragmented frames parse delivers exactly unpack's
   messages (Props/C05.v C05_parse_unfragmented: parse on a chunk whose messages all have package total 0 returns exactly
   unpack's messages, history and error with the table untouched; C05_unfragmented_identity: the bookkeeping is the identity on messages whose package total is
   0; C05_unfragmented_decoded: a decoded frame with the fragment bit clear has total 0), which is what [reader_run]
   dispatches.  The hypothesis restricts the two
   reader-level statements to the traffic for which [reader_run] IS the loop of the code (and which the harness's op
   `rd` plays); it is not needed by the proof. *)
Definition unfragmented (f : list N) : Prop := m_frag (snd (decode_ok f)) = 0.

(* the reader's dispatch loop (connection.reader): however the stream is cut into reads, every frame
   is dispatched exactly once, in order - executed when its id has a registered handler, reported as
   unsupported otherwise (an unsupported id does not end the loop: what follows it in the same read
   is still dispatched), no error *)
Theorem C04_reader_events : forall reg fs chunks, Forall vframe fs -> Forall unfragmented fs ->
  concat chunks = concat fs ->
  reader_run reg [] chunks [] = (map (dispatch1 reg) (map decode_ok fs), None).
Proof. intros reg fs chunks Hv _. exact (reader_events reg fs chunks Hv). Qed.
Print Assumptions C04_reader_events.

Theorem C04_reader_prompt : forall reg fs chunks rest, Forall vframe fs -> Forall unfragmented fs ->
  concat chunks ++ rest = concat fs ->
  reader_run reg [] chunks [] =
    (map (dispatch1 reg) (map decode_ok (frames_within fs (length (concat chunks)))), None).
Proof. intros reg fs chunks rest Hv _. exact (reader_events_prompt reg fs chunks rest Hv). Qed.
Print Assumptions C04_reader_prompt.

(* the same at the level the reader really works on: connection.reader hands every read to packageParse.parse
   (unpack, then the sub-package bookkeeping of Model/Subpkg.v), at whatever times.  For valid frames whose fragment
   bit is clear, the loop of parse over ANY partition into reads read at ANY clock values delivers exactly
   decode_ok of the frames, in order, as plain messages, and ends with an empty history and an empty transfer table:
   this is where the [unfragmented] hypothesis of the two reader statements above is discharged against parse
   itself (through C05_parse_unfragmented for one read and C05_unfragmented_decoded for the fragment bit) *)
Theorem C04_parse_run_segmentation : forall fs reads, Forall vframe fs -> Forall unfragmented fs ->
  concat (map snd reads) = concat fs ->
  parse_run pst0 reads [] = (pst0, map plain (map decode_ok fs), None).
Proof. exact parse_run_segmentation. Qed.
Print Assumptions C04_parse_run_segmentation.

(* and for any run whose extracted messages all have package total 0, from any state with an empty table *)
Theorem C04_parse_run_as_unpack : forall reads st acc0, ps_x st = [] ->
  let o := run_unpack (ps_hist st) (map snd reads) acc0 in
  Forall (fun rm => m_sum (snd rm) = 0) (u_msgs o) ->
  parse_run st reads (map plain acc0) = ({| ps_hist := u_hist o; ps_x := [] |}, map plain (u_msgs o), u_err o).
Proof. exact parse_run_as_unpack. Qed.
Print Assumptions C04_parse_run_as_unpack.

(* non-vacuity: a 2013 heartbeat and a frame whose body is the two escaped bytes 7e 7d are valid
   frames; fed byte by byte, whole, and cut inside the escape pair they give the same two messages *)
Definition ex_hb : list N := [126; 0; 2; 0; 0; 1; 35; 69; 103; 137; 1; 0; 1; 139; 126].
Definition ex_esc : list N := [126; 2; 0; 0; 2; 1; 35; 69; 103; 137; 1; 0; 2; 125; 2; 125; 1; 137; 126].

Example C04_frames_valid : Forall vframe [ex_hb; ex_esc].
Proof. repeat constructor; apply vframeb_spec; vm_compute; reflexivity. Qed.

Example C04_three_ways :
  let s := ex_hb ++ ex_esc in
  let whole := run_unpack [] [s] [] in
  let bytewise := run_unpack [] (map (fun b => [b]) s) [] in
  let odd := run_unpack [] [firstn 14 s; firstn 15 (skipn 14 s); skipn 29 s] [] in
  whole = bytewise /\ whole = odd /\ map (fun x => m_body (snd x)) (u_msgs whole) = [[]; [126; 125]]
  /\ u_hist whole = [] /\ u_err whole = None.
Proof. vm_compute. repeat split; reflexivity. Qed.

(* non-vacuity of C04_prompt on a PROPER prefix: after 20 of the 34 bytes (two reads of 10) exactly the heartbeat has
   been delivered - before the second frame's bytes have all arrived - and the five bytes of the unfinished frame are
   what is kept *)
Example C04_prompt_example :
  let s := ex_hb ++ ex_esc in
  let r := run_unpack [] [firstn 10 s; firstn 10 (skipn 10 s)] [] in
  concat [firstn 10 s; firstn 10 (skipn 10 s)] ++ skipn 20 s = concat [ex_hb; ex_esc] /\
  frames_within [ex_hb; ex_esc] 20 = [ex_hb] /\
  map (fun x => m_id (snd x)) (u_msgs r) = [2] /\ u_hist r = firstn 5 ex_esc /\ u_err r = None.
Proof. vm_compute. repeat split; reflexivity. Qed.

(* non-vacuity of C04_reader_prompt on a PROPER prefix and of C04_parse_run_segmentation: after 20 of the 30 bytes
   of heartbeat ++ unsupported frame (two reads of 10) exactly the heartbeat has been dispatched; the whole stream
   read in three pieces at three different times through parse gives the two plain messages *)
Example C04_reader_prompt_example :
  let s := ex_hb ++ [126; 0; 3; 0; 0; 1; 35; 69; 103; 137; 1; 0; 2; 137; 126] in
  map (fun e => match e with RExec _ m => (1, m_id m) | RUnsupported _ m => (0, m_id m) | RReissue _ m => (2, m_id m) end)
      (fst (reader_run registered_ids [] [firstn 10 s; firstn 10 (skipn 10 s)] [])) = [(1, 2)] /\
  map (fun p => (m_id (p_msg p), p_complete p))
      (snd (fst (parse_run pst0 [(5, firstn 7 s); (9000, firstn 16 (skipn 7 s)); (9001, skipn 23 s)] []))) =
    [(2, false); (3, false)].
Proof. vm_compute. split; reflexivity. Qed.

(* non-vacuity at the reader level: a heartbeat (registered id 2), a frame with the unregistered id 0x0003 and a
   second heartbeat, cut inside the second frame: all three are dispatched in order, the middle one as unsupported *)
Definition ex_unsup : list N := [126; 0; 3; 0; 0; 1; 35; 69; 103; 137; 1; 0; 2; 137; 126].
Example C04_reader_example :
  Forall vframe [ex_hb; ex_unsup; ex_hb] /\ Forall unfragmented [ex_hb; ex_unsup; ex_hb] /\
  let s := ex_hb ++ ex_unsup ++ ex_hb in
  map (fun e => match e with RExec _ m => (1, m_id m) | RUnsupported _ m => (0, m_id m) | RReissue _ m => (2, m_id m) end)
      (fst (reader_run registered_ids [] [firstn 20 s; skipn 20 s] [])) = [(1, 2); (0, 3); (1, 2)].
Proof.
  split; [repeat constructor; apply vframeb_spec; vm_compute; reflexivity|].
  split; [repeat constructor|]. vm_compute. reflexivity.
Qed.


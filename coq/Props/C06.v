(* C06 — automatic replies: one per request, correctly correlated, ordered and numbered.
   Only statements here; every proof is `exact <lemma of Proofs/Reply_proofs.v>`.

   The model (Model/Reply.v) is one connection of a server in its default configuration: the list
   [ms] of messages delivered by packageParse.parse (a sub-packaged message appears once, complete,
   right after its last packet), the reader goroutine (moves MLook, MSend), the channels msgChan and
   reissuePackChan with their capacities, and the writer goroutine (MReply, MRereq, MCmd, MAbsorb).
   A HISTORY is any list of moves [s]; a move that is not enabled does nothing, so the theorems
   quantify over every interleaving of the two goroutines, every message list and every number of
   platform commands written in between.  The writer's choice between answering a terminal RESPONSE
   (ids of onActiveRespondEvent's switch: 0x0001 0x0104 0x1003 0x1205 0x1206 0x0805) and handing it
   to a waiting SendActiveMessage caller (move MAbsorb, enabled only for a complete message with such
   an id) is left to the schedule: which of the two happens depends on the outstanding commands and
   is C12's subject (Model/Writer.v).  The C06_outcomes_* theorems and C06_one_reply_each_without_1003
   hold for every history; the older statements keep [no_absorb s] (no absorption at all); [drained] = nothing
   left in flight.  [answered d] is the specification (DESIGN B.6): complete, reply-bearing id,
   not a 2019 0x0102 too short for its fixed fields.  Concurrent connections: the state [conn] is
   per connection and [step] reads nothing else, so histories of different connections are
   independent by construction. *)
From JT.Base Require Import Prelude.
From JT.Model Require Import Frame Reply.
From JT.Model Require Subpkg SubpkgHandlers.
From JT.Proofs Require Import Frame_proofs Reply_proofs.

(* exactly one reply for every message that requires one, none for any other (responses,
   unsupported ids, incomplete packets, registered platform ids), in the order the requests
   arrived — in every complete history WITHOUT ABSORPTION (hypothesis no_absorb; with absorption see
   C06_outcomes_each and C06_one_reply_each_without_1003); and every reply is of the reply type the
   standard defines for its request, built on the request's header, with the prescribed body where the
   request's body is well formed for its type (reply_ok: under body_wf and bytes) *)
Theorem C06_one_reply_each : forall ms s, no_absorb s = true -> drained (final (init ms) s) = true ->
  srcs (replies (trace (init ms) s)) = filter answered ms /\
  Forall reply_ok (replies (trace (init ms) s)).
Proof. exact one_reply_each. Qed.
Print Assumptions C06_one_reply_each.

(* safety at every moment of every history without absorption (no_absorb), complete or not: the replies
   written so far answer a prefix of the answered messages (never a reply too many, never out of
   order); with absorption: C06_outcomes_in_order *)
Theorem C06_replies_in_order : forall ms s, no_absorb s = true ->
  exists later, srcs (replies (trace (init ms) s)) ++ later = filter answered ms.
Proof. exact replies_prefix. Qed.
Print Assumptions C06_replies_in_order.

(* EVERY history, absorption included: the answered messages the writer has dealt with - by their
   automatic reply or, for a response, by handing it to the caller that waits for it - are, in order,
   the answered messages; complete history: all of them, each exactly once *)
Theorem C06_outcomes_each : forall ms s, drained (final (init ms) s) = true ->
  outcomes (trace (init ms) s) = filter answered ms.
Proof. exact outcomes_each. Qed.
Print Assumptions C06_outcomes_each.

Theorem C06_outcomes_in_order : forall ms s,
  exists later, outcomes (trace (init ms) s) ++ later = filter answered ms.
Proof. exact outcomes_prefix. Qed.
Print Assumptions C06_outcomes_in_order.

(* only complete messages with a response id are ever absorbed, and the only such id that has an
   automatic reply at all is 0x1003 (the answer to a 0x9003 query) *)
Theorem C06_absorbed_are_responses : forall ms s d, In d (absorbed (trace (init ms) s)) ->
  is_response d = true /\ has_complete d = true /\ (answered d = true -> m_id (d_m d) = 0x1003).
Proof. exact absorbed_answered_are_1003. Qed.
Print Assumptions C06_absorbed_are_responses.

(* hence, whatever commands are outstanding and whatever the writer does with responses: when no
   complete 0x1003 is among the messages, one reply each, in order - every complete history *)
Theorem C06_one_reply_each_without_1003 : forall ms s, Forall not_1003 (filter answered ms) ->
  drained (final (init ms) s) = true ->
  srcs (replies (trace (init ms) s)) = filter answered ms /\
  Forall reply_ok (replies (trace (init ms) s)).
Proof. exact one_reply_each_no1003. Qed.
Print Assumptions C06_one_reply_each_without_1003.

(* which ids are handled and which are answered with which type — for EVERY id 0..; the MODEL's copy of
   the code's table (default_handles; equal to what createDefaultHandle + HasReply/ReplyProtocol say
   now by Gen/TablesOk_reply.v) against the table of the standard *)
Theorem C06_reply_table : forall id,
  (match lookup id with Some _ => true | None => false end) = std_registered id /\
  (match lookup id with Some hi => if hi_has hi then Some (hi_rid hi) else None | None => None end)
  = std_reply_id id.
Proof. exact reply_table. Qed.
Print Assumptions C06_reply_table.

(* correlation, on the bytes written (hypotheses: every message is a decoded frame - dmsg_wf -, no
   absorption; the body conjunct under body_wf): every reply frame decodes (C01) to the reply type defined for
   its request, the sender's phone and protocol version, the platform serial it was given, no
   fragment bit, and the prescribed body (std_body: request serial + request id + result /
   serial + 0 + auth code / multimedia id / file name + type + 0 + 0 / empty for 0x1003) *)
Theorem C06_correlation_decoded : forall ms s w, Forall dmsg_wf ms -> no_absorb s = true ->
  In w (replies (trace (init ms) s)) ->
  exists d r, w_src w = Some d /\ In d ms /\ answered d = true /\
    decode (wire_bytes w) = Ok r /\
    Some (m_id r) = std_reply_id (m_id (d_m d)) /\
    m_ver r = m_ver (d_m d) /\ m_bcd r = m_bcd (d_m d) /\ phone_of r = phone_of (d_m d) /\
    m_serial r = w_ps w /\ m_frag r = 0 /\ m_enc r = m_enc (d_m d) /\
    (body_wf (d_m d) = true -> m_body r = std_body (d_m d)).
Proof. exact correlation. Qed.
Print Assumptions C06_correlation_decoded.

(* the frames written on one connection — replies, re-request echoes and platform commands alike —
   carry the platform serials 0, 1, 2, ... mod 65536, in every history *)
Theorem C06_serials : forall ms s,
  map w_ps (writes (trace (init ms) s)) = map serial_no (seq 0 (length (writes (trace (init ms) s)))).
Proof. exact serials. Qed.
Print Assumptions C06_serials.

Theorem C06_serial_wraps : forall k, serial_no (k + N.to_nat 65536) = serial_no k.
Proof. exact serial_wraps. Qed.
Print Assumptions C06_serial_wraps.

(* read callbacks: one report per delivered message, in delivery order — both read callbacks for a
   handled message, the not-supported callback for an id without handler, nothing for an incomplete
   packet or a re-request — as soon as the reader has gone through its input *)
Theorem C06_callbacks_read : forall ms s, reader_done (final (init ms) s) = true ->
  reader_obs (trace (init ms) s) = flat_map read_report ms.
Proof. exact callbacks_read. Qed.
Print Assumptions C06_callbacks_read.

(* write callbacks, in every history: within the writer's observations every write of a reply or of a
   complete 0x8003 echo is followed at once by its two write callbacks, exactly once, with the bytes
   actually sent; a platform command and an echo of an incomplete packet have none (wire_report) *)
Theorem C06_callbacks_write : forall ms s,
  writer_obs (trace (init ms) s) = flat_map wire_report (writes (trace (init ms) s)).
Proof. exact callbacks_write. Qed.
Print Assumptions C06_callbacks_write.

(* read before write, histories without absorption: at every moment the replies written so far answer
   messages whose (TerminalEventer) read callbacks have already run; C06_read_before_outcome below is
   the statement for every history *)
Theorem C06_read_before_reply : forall ms s, no_absorb s = true ->
  exists queued, filter answered (read_srcs (trace (init ms) s)) = srcs (replies (trace (init ms) s)) ++ queued.
Proof. exact callbacks_read_before_reply. Qed.
Print Assumptions C06_read_before_reply.

(* the sequential history the harness plays, with platform commands in between *)
Theorem C06_one_reply_each_conversation : forall its, no_asks its = true ->
  srcs (replies (run_items its)) = filter answered (items_msgs its) /\ Forall reply_ok (replies (run_items its)).
Proof. exact one_reply_each_items. Qed.
Print Assumptions C06_one_reply_each_conversation.

(* ... and EVERY frame it makes the server write, in order: the reply of each answered message, the
   echo of each terminal-sent 0x8003, each platform command issued once the session is joined *)
Theorem C06_conversation_frames : forall its, asks_ok its = true ->
  map wtag (writes (run_items its)) = items_writes None its.
Proof. exact conversation_writes_run. Qed.
Print Assumptions C06_conversation_frames.

(* ... with commands left outstanding and answered by the terminal ([IAsk]): every answered message
   gets its reply or is handed to the caller that waits for it *)
Theorem C06_outcomes_conversation : forall its, asks_ok its = true ->
  outcomes (run_items its) = filter answered (items_msgs its).
Proof. exact outcomes_items. Qed.
Print Assumptions C06_outcomes_conversation.

(* read before write also for the Handler's read callback (OReadH), not only the TerminalEventer's *)
Theorem C06_read_before_reply_handler : forall ms s, no_absorb s = true ->
  exists queued, filter answered (read_srcs_h (trace (init ms) s)) = srcs (replies (trace (init ms) s)) ++ queued.
Proof. exact callbacks_read_before_reply_h. Qed.
Print Assumptions C06_read_before_reply_handler.

(* ANY NUMBER OF CONCURRENT CONNECTIONS - what exactly is proved and what ties it to the code.
   The model of a server with several connections is the PRODUCT of the one-connection models: the state
   is the list of the connections' states, a global move (i, mv) applies [step] to component i.  This
   product is independent BY DEFINITION; the theorem below is the frame property of that definition
   (component i and the observations tagged i are those of i's own moves run alone, for every
   interleaving), which lets every one-connection statement of this file be read per connection (three
   are spelled out).  It proves nothing about the code by itself.  That the CODE has this product shape -
   no state of the reply path shared between connections - is an assumption tied to the source by one
   syntactic check of the translator: gen_handles_per_connection = true iff GoJT808.Run calls
   createDefaultHandle() and newConnection() inside the accept loop (directly or through one helper), every value of createDefaultHandle's
   map literal is a fresh &model.T{}, and newConnection's literal makes msgChan / reissuePackChan and sets
   platformSerialNumber (Gen/TablesOk_conn.v tables_handles_per_connection; when the translator does not recognise the shape of Run it
   omits the definition and bin/check reports the tie as unavailable).  It does not look at
   custom handler functions (default configuration only) nor at package-level state elsewhere; the
   session registry, the one shared structure, is C11's subject; data races are C18's.  At run time the
   harness plays 8 connections at a time and checks each against its own expectation. *)
Theorem C06_connections_independent : forall s cs i,
  nth_error (gfinal cs s) i = option_map (fun c => final c (proj_moves i s)) (nth_error cs i) /\
  proj_obs i (gtrace cs s) = match nth_error cs i with Some c => trace c (proj_moves i s) | None => [] end.
Proof. exact connections_independent. Qed.
Print Assumptions C06_connections_independent.

Theorem C06_serials_concurrent : forall mss s i ms, nth_error mss i = Some ms ->
  let t := proj_obs i (gtrace (map init mss) s) in
  map w_ps (writes t) = map serial_no (seq 0 (length (writes t))).
Proof. exact serials_concurrent. Qed.
Print Assumptions C06_serials_concurrent.

Theorem C06_outcomes_concurrent : forall mss s i ms, nth_error mss i = Some ms ->
  exists later, outcomes (proj_obs i (gtrace (map init mss) s)) ++ later = filter answered ms.
Proof. exact outcomes_concurrent. Qed.
Print Assumptions C06_outcomes_concurrent.

Theorem C06_one_reply_each_concurrent : forall mss s i ms, nth_error mss i = Some ms ->
  no_absorb (proj_moves i s) = true ->
  (exists c, nth_error (gfinal (map init mss) s) i = Some c /\ drained c = true) ->
  srcs (replies (proj_obs i (gtrace (map init mss) s))) = filter answered ms /\
  Forall reply_ok (replies (proj_obs i (gtrace (map init mss) s))).
Proof. exact one_reply_each_concurrent. Qed.
Print Assumptions C06_one_reply_each_concurrent.

(* read before write for EVERY history, absorption included: what the writer has dealt with so far -
   replies written and responses handed over (an absorbed message has no write at all) - are messages
   whose read callbacks, the TerminalEventer's and the Handler's, have already run *)
Theorem C06_read_before_outcome : forall ms s,
  exists queued, filter answered (read_srcs (trace (init ms) s)) = outcomes (trace (init ms) s) ++ queued.
Proof. exact callbacks_read_before_outcome. Qed.
Print Assumptions C06_read_before_outcome.
Theorem C06_read_before_outcome_handler : forall ms s,
  exists queued, filter answered (read_srcs_h (trace (init ms) s)) = outcomes (trace (init ms) s) ++ queued.
Proof. exact callbacks_read_before_outcome_h. Qed.
Print Assumptions C06_read_before_outcome_handler.

(* WHERE THE CODE DOES NOT DO WHAT THE PROPERTY SAYS (known_findings.json; the model carries the code's
   behaviour, the theorems above exclude exactly these classes or count the hand-over as an outcome).

   C06/1003-absorbed-no-reply.  The property claims a reply for every complete 0x1003 (HasReply is true
   and, with no command outstanding, the server does send an empty 0x8001).  While a 0x9003 query is
   outstanding the writer hands the 0x1003 to the waiting SendActiveMessage caller and writes nothing.
   The witness is the real conversation (what harness item Q plays against the server): heartbeat [a]
   (joins), command 0x9003 written and left outstanding, the terminal's complete 0x1003 [b]: the history
   is complete, [b] is an answered message, the frames written are a's reply and the command, [b] is
   absorbed and has no reply.  What is proved instead:
   "reply OR hand-over, exactly once, in order" (the C06_outcomes theorems), and one reply each when no
   0x1003 is involved or nothing is absorbed. *)
Theorem C06_refuted_1003_absorbed :
  match dm ex_hb, dm ex_1003 with
  | [a], [b] =>
    m_id (d_m b) = 0x1003 /\ answered b = true /\
    let its := [IMsg a; IAsk 0x9003 [] b] in
    asks_ok its = true /\
    drained (final (init (items_msgs its)) (items_moves None its)) = true /\
    items_moves None its = [MLook; MSend; MReply; MCmd (d_m a) 0x9003 []; MLook; MSend; MAbsorb] /\
    map (fun w => (w_kind w, w_rid w, w_src w)) (writes (run_items its)) = [(WReply, 0x8001, Some a); (WCmd, 0x9003, None)] /\
    srcs (replies (run_items its)) = [a] /\ filter answered (items_msgs its) = [a; b] /\
    absorbed (run_items its) = [b]
  | _, _ => False
  end.
Proof. exact refuted_1003_absorbed_conversation. Qed.
Print Assumptions C06_refuted_1003_absorbed.

(* C06/0801-short-body.  "... or the multimedia ID (multimedia response)": an 0x0801 whose body is
   shorter than 36 bytes is answered with the id of the PREVIOUS upload of the connection (7 here; 0 on
   a fresh connection), not with the id in its own first four bytes (9); [reply_ok] and
   C06_correlation_decoded claim the body only under [body_wf] (36 bytes and more) *)
Theorem C06_refuted_0801_short_body :
  map w_body (replies (run (dm ex_0801_a ++ dm ex_0801_b))) = [[0; 0; 0; 7]; [0; 0; 0; 7]] /\
  map w_body (replies (run (dm ex_0801_b))) = [[0; 0; 0; 0]] /\
  map (fun d => (sub (m_body (d_m d)) 0 4, body_wf (d_m d))) (dm ex_0801_b) = [([0; 0; 0; 9], false)].
Proof. exact refuted_0801_short_body. Qed.
Print Assumptions C06_refuted_0801_short_body.

(* non-vacuity: every message list has a complete history without absorption; every decodable frame
   gives a well-formed delivered message; a concrete conversation (heartbeat serial 65535,
   registration, a general response, an unsupported id, authentication with the phone as code)
   yields exactly these three frames with platform serials 0, 1, 2 *)
Example C06_complete_history_exists : forall ms,
  no_absorb (seq_sched ms) = true /\ drained (final (init ms) (seq_sched ms)) = true.
Proof. exact complete_history_exists. Qed.
Example C06_decoded_is_wf : forall f m data c, bytes f -> decode f = Ok m ->
  dmsg_wf {| d_m := m; d_complete := c; d_data := data |}.
Proof. exact decoded_dmsg_wf. Qed.
Example C06_conversation :
  map wire_bytes (writes (run ex_msgs)) =
  [ [126; 128; 1; 0; 5; 1; 56; 0; 19; 128; 0; 0; 0; 255; 255; 0; 2; 0; 44; 126];
    [126; 129; 0; 0; 14; 1; 56; 0; 19; 128; 0; 0; 1; 0; 7; 0; 49; 51; 56; 48; 48; 49; 51; 56; 48; 48; 48; 19; 126];
    [126; 128; 1; 0; 5; 1; 56; 0; 19; 128; 0; 0; 2; 0; 10; 1; 2; 0; 37; 126] ] /\
  length ex_msgs = 5%nat /\ Forall dmsg_wf ex_msgs.
Proof. exact example_conversation. Qed.
(* an absorbing conversation: heartbeat, 0x9003 left outstanding, the terminal's 0x1003 - two frames
   (reply to the heartbeat, the command), the 0x1003 handed over *)
Example C06_ask_conversation :
  match dm ex_hb, dm ex_1003 with
  | [a], [b] =>
    let its := [IMsg a; IAsk 0x9003 [] b] in
    asks_ok its = true /\ map fst (map wtag (writes (run_items its))) = [WReply; WCmd] /\
    filter answered (items_msgs its) = [a; b] /\ outcomes (run_items its) = [a; b] /\
    absorbed (run_items its) = [b]
  | _, _ => False
  end.
Proof. exact example_ask_conversation. Qed.
(* the non-default branches of body_wf / std_body: well-formed 0x0801, 0x1212 and a 0x1003 *)
Example C06_conversation2 :
  let ms := dm ex_0801_a ++ dm ex_1212 ++ dm ex_1003 in
  map (fun d => body_wf (d_m d)) ms = [true; true; true] /\
  map (fun w => (w_rid w, w_ps w, w_body w)) (writes (run ms)) =
  [ (0x8800, 0, [0; 0; 0; 7]); (0x9212, 1, [3; 97; 46; 98; 0; 0; 0]); (0x8001, 2, []) ] /\
  map (fun d => std_body (d_m d)) ms = [[0; 0; 0; 7]; [3; 97; 46; 98; 0; 0; 0]; []].
Proof. exact example_conversation2. Qed.
(* C06_one_reply_each_without_1003 says more than C06_one_reply_each: a history WITH absorption (a
   0x8103 left outstanding, answered by the terminal's 0x0001) in which every answered message has its reply *)
Example C06_absorbed_response_without_1003 :
  match dm ex_hb, dm ex_0001 with
  | [a], [b] =>
    let its := [IMsg a; IAsk 0x8103 [0] b] in
    let s := items_moves None its in let ms := items_msgs its in
    asks_ok its = true /\ no_absorb s = false /\
    forallb (fun d => negb (m_id (d_m d) =? 0x1003)) (filter answered ms) = true /\
    drained (final (init ms) s) = true /\ absorbed (trace (init ms) s) = [b] /\
    srcs (replies (trace (init ms) s)) = filter answered ms /\ filter answered ms = [a]
  | _, _ => False
  end.
Proof. exact example_absorbed_response_without_1003. Qed.
(* two connections interleaved move by move, both complete (an instance of the *_concurrent theorems) *)
Example C06_two_connections :
  let mss := [dm ex_hb; dm ex_0801_a] in
  let s := [(0%nat, MLook); (1%nat, MLook); (1%nat, MSend); (0%nat, MSend); (1%nat, MReply); (0%nat, MReply)] in
  map (fun c => drained c) (gfinal (map init mss) s) = [true; true] /\
  no_absorb (proj_moves 0 s) = true /\ no_absorb (proj_moves 1 s) = true /\
  map (fun w => (w_rid w, w_ps w)) (writes (proj_obs 0 (gtrace (map init mss) s))) = [(0x8001, 0)] /\
  map (fun w => (w_rid w, w_ps w)) (writes (proj_obs 1 (gtrace (map init mss) s))) = [(0x8800, 0)].
Proof. exact example_two_connections. Qed.
(* "a sub-packaged message counts once, when complete" for the smallest transfer, ONE package (fragment
   bit set, total 1, number 1), run through the reassembler model (Model/Subpkg.v cp_loop, C05) and this
   model: parse delivers the packet - not complete by itself: hasComplete is total = 0 or
   SubcontractComplete - and then the completed message; one 0x8001 (platform serial 0), the heartbeat
   that follows gets serial 1, two read callbacks.  (The general statement is Props/C05.v
   C05_handlers_see_exactly_one, whose `bodies <> []` includes one body; a code that treats total <= 1
   as complete answers twice: seed C06-7, caught by the generator's np = 1 transfers.) *)
Example C06_one_package_transfer :
  let ds := map SubpkgHandlers.dmsg_of (snd (Subpkg.cp_loop 0 [] [([], ex_one_pkt); ([], ex_hb_msg)])) in
  map (fun d => (m_id (d_m d), m_sum (d_m d), d_complete d, has_complete d, answered d)) ds =
    [(0x0200, 1, false, false, false); (0x0200, 1, true, true, true); (0x0002, 0, false, true, true)] /\
  map (fun d => m_body (d_m d)) ds = [[7; 8; 9]; [7; 8; 9]; []] /\
  map (fun w => (w_rid w, w_ps w, w_body w)) (writes (run ds)) =
    [(0x8001, 0, [0; 9; 2; 0; 0]); (0x8001, 1, [0; 10; 0; 2; 0])] /\
  length (read_srcs (run ds)) = 2%nat.
Proof. exact example_one_package_transfer. Qed.

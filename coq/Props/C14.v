(* C14 — missing sub-packages are re-requested exactly, stale transfers expire.
   Only statements here; every proof is `exact <lemma of Proofs/>`.
   Model: Model/Subpkg.v with an explicit clock: every event carries the time `now` (ms) at which
   it is processed; EvEnd is the end of a read, where parse runs deleteTimeoutPackage (created more
   than 60 000 ms ago -> removed) and then supplementarySubPackage (stamp more than 5 000 ms old
   -> one 0x8003, stamp := now).  last_stamp is the time of the last stored packet of X or of the
   last re-request for X.  Vocabulary (transfer X / bodies, packet 1 = (t1, EvMsg p1), rest) as in
   Props/C05.v.  The re-request is described by the header it is addressed from (rr_first: the
   terminal's own first packet, hence its phone number and protocol version), the list of numbers
   (rr_list) and the 0x8003 body (rr_body); Model/Subpkg.v rereq_pmsg turns it into the frame
   Frame.encode (rr_first) 0x8003 .. (rr_body), whose decoding is C01's theorem. *)
From JT.Base Require Import Prelude.
From JT.Model Require Import Frame Unpack Subpkg.
From JT.Model Require Reply.
From JT.Proofs Require Import Frame_proofs Subpkg_proofs Rereq_proofs Subpkg_final Rereq_wire.

(* the end of a read at time now (within 60 s of packet 1) while packets are missing: no re-request
   for X if the last stored packet / re-request is 5 s old or less; otherwise exactly one,
   addressed from packet 1's header, naming packet 1's serial number and exactly the missing
   package numbers *)
Theorem C14_exact_list : forall X bodies s0 t1 p1 rest now,
  bodies <> [] -> Forall nonempty bodies -> wf s0 ->
  good_pkt X (len bodies) bodies p1 -> m_no p1 = 1 -> Forall (ok_after X bodies t1) rest ->
  ~ covers (len bodies) (numbers X (len bodies) ((t1, EvMsg p1) :: rest)) -> now <= t1 + 60000 ->
  let evs := (t1, EvMsg p1) :: rest in
  let miss := missing_of (len bodies) (numbers X (len bodies) evs) in
  rr_for X (snd (step now (fst (run s0 evs)) EvEnd)) =
  if last_stamp X (len bodies) t1 rest + 5000 <? now
  then [{| rr_id := X; rr_first := p1; rr_list := miss; rr_body := body_8003 (m_serial p1) (len miss) miss |}]
  else [].
Proof. exact exact_list_f. Qed.
Print Assumptions C14_exact_list.

(* missing_of n l is exactly the numbers 1..n not in l ... *)
Theorem C14_missing_exact : forall n l k, In k (missing_of n l) <-> (1 <= k <= n /\ ~ In k l).
Proof. exact missing_of_In. Qed.
Print Assumptions C14_missing_exact.
(* ... in strictly ascending order *)
Theorem C14_missing_ascending : forall n l, ascending (missing_of n l).
Proof. exact missing_of_ascending. Qed.
Print Assumptions C14_missing_ascending.

(* the 0x8003 body is the standard's layout (WORD original serial, BYTE count, count x WORD) as long
   as at most 255 numbers are missing (the count is byte(len(seqs)): see C14_count_wraps) *)
Theorem C14_body_layout : forall serial l,
  serial < 65536 -> Forall (fun k => k < 65536) l -> len l < 256 ->
  body_8003 serial (len l) l =
  [serial / 256; serial mod 256; len l] ++ flat_map (fun k => [k / 256; k mod 256]) l.
Proof. exact body_8003_std. Qed.
Print Assumptions C14_body_layout.

(* rate: two re-requests for the same id are more than 5 s apart, from ANY well-formed state and
   whatever happens in between (any messages and ends of reads, not earlier than the first) *)
Theorem C14_rate : forall X s ti between tj, wf s ->
  rr_for X (snd (step ti s EvEnd)) <> [] ->
  Forall (fun te => ti <= fst te) between ->
  rr_for X (snd (step tj (fst (run (fst (step ti s EvEnd)) between)) EvEnd)) <> [] ->
  ti + 5000 < tj.
Proof. exact rate. Qed.
Print Assumptions C14_rate.

(* none before 5 s: no re-request for X earlier than 5 s after a packet of X was stored *)
Theorem C14_none_before_5s : forall X s t m between tj, wf s -> stored X s m ->
  Forall (fun te => t <= fst te) between ->
  rr_for X (snd (step tj (fst (run (fst (step t s (EvMsg m))) between)) EvEnd)) <> [] ->
  t + 5000 < tj.
Proof. exact quiet_after_packet. Qed.
Print Assumptions C14_none_before_5s.

(* a re-request round followed by resupply: the message completes as in C05 *)
Theorem C14_then_completes : forall X bodies s0 t1 p1 rest1 tr rest2 l1 t m l2,
  bodies <> [] -> Forall nonempty bodies -> wf s0 ->
  good_pkt X (len bodies) bodies p1 -> m_no p1 = 1 ->
  Forall (ok_after X bodies t1) rest1 -> tr <= t1 + 60000 -> Forall (ok_after X bodies t1) rest2 ->
  ~ covers (len bodies) (numbers X (len bodies) ((t1, EvMsg p1) :: rest1)) ->
  last_stamp X (len bodies) t1 rest1 + 5000 < tr ->
  let evs := ((t1, EvMsg p1) :: rest1) ++ (tr, EvEnd) :: rest2 in
  evs = l1 ++ (t, EvMsg m) :: l2 ->
  ~ covers (len bodies) (numbers X (len bodies) l1) ->
  covers (len bodies) (numbers X (len bodies) (l1 ++ [(t, EvMsg m)])) ->
  let outs := snd (run s0 evs) in
  let miss := missing_of (len bodies) (numbers X (len bodies) ((t1, EvMsg p1) :: rest1)) in
  rr_for X (nth (S (length rest1)) outs ONone) =
    [{| rr_id := X; rr_first := p1; rr_list := miss; rr_body := body_8003 (m_serial p1) (len miss) miss |}] /\
  completions X outs = [(length l1, concat bodies)].
Proof. exact then_completes_f. Qed.
Print Assumptions C14_then_completes.

(* expiry: a transfer still incomplete 60 s after it began is discarded and NEVER delivered.  After
   the within-60-s history `rest` that leaves packets missing, take ANY continuation whose first event
   is later than 60 s after packet 1 - the end of a read, or a message: the outstanding packets
   themselves included (parse drops stale transfers before it processes the messages of a read, fix
   4f00aa1) - and that does not start the transfer anew (no new packet 1 of X): nothing is delivered
   for X, nothing is re-requested for X from that event on, and the transfer is gone.  (Within 60 s
   the transfer survives: C05_exact / C14_then_completes.) *)
Theorem C14_expiry : forall X bodies s0 t1 p1 rest now e later,
  bodies <> [] -> Forall nonempty bodies -> wf s0 ->
  good_pkt X (len bodies) bodies p1 -> m_no p1 = 1 -> Forall (ok_after X bodies t1) rest ->
  ~ covers (len bodies) (numbers X (len bodies) ((t1, EvMsg p1) :: rest)) -> t1 + 60000 < now ->
  Forall (fun te => no_start X (snd te)) ((now, e) :: later) ->
  let evs := ((t1, EvMsg p1) :: rest) ++ (now, e) :: later in
  let outs := snd (run s0 evs) in
  completions X outs = [] /\
  rereqs_from (S (length rest)) X (skipn (S (length rest)) outs) = [] /\
  find X (fst (run s0 evs)) = None.
Proof. exact expiry_f. Qed.
Print Assumptions C14_expiry.

(* the same for any state: a transfer created more than 60 s ago is removed, not re-requested *)
Theorem C14_expiry_state : forall X s x now, wf s -> find X s = Some x -> x_create x + 60000 < now ->
  find X (fst (step now s EvEnd)) = None /\ rr_for X (snd (step now s EvEnd)) = [].
Proof. exact expiry_state. Qed.
Print Assumptions C14_expiry_state.

(* the FRAME written for a re-request.  supplementarySubPackage hands the reader loop the message
   rereq_pmsg (mk_rereq id x) (encoded with the first packet's header, decoded again); the reader
   routes it to reissuePackChan; the writer (Model/Reply.v writer_rereq = connection.subPackReplyEvent)
   takes it from the channel, stamps the current platform serial and encodes it.  For EVERY transfer
   state x (first packet's header a decoded header - C01_decoded_headers_exist -, at most 510 slots so
   that the body fits a frame) and EVERY writer state c with that message at the head of the channel:
   the writer emits exactly one write, advances the platform serial and the channel, and the bytes
   written decode (Frame.decode, C01) to an unfragmented 0x8003 addressed with the terminal's BCD
   phone, protocol version and encryption bit, carrying the platform serial of that moment and the
   body <first packet's serial> <count> <missing numbers ascending> (C14_body_layout, C14_exact_list) *)
Theorem C14_rerequest_frame : forall id x (c : Reply.conn) d rq,
  decoded_header (x_first x) -> (length (x_slots x) <= 510)%nat -> Reply.c_seq c < 65536 ->
  Reply.c_rq c = d :: rq -> Reply.d_m d = p_msg (rereq_pmsg (mk_rereq id x)) ->
  exists w cb chk,
    Reply.writer_rereq c = (fst (Reply.writer_rereq c), Reply.OWrite w :: cb) /\
    Reply.c_seq (fst (Reply.writer_rereq c)) = Reply.next_seq (Reply.c_seq c) /\
    Reply.c_rq (fst (Reply.writer_rereq c)) = rq /\
    let body := body_8003 (m_serial (x_first x)) (len (missing (x_slots x) 1)) (missing (x_slots x) 1) in
    decode (Reply.wire_bytes w) =
      Ok {| m_id := 32771; m_len := len body; m_enc := m_enc (x_first x); m_frag := 0; m_ver := m_ver (x_first x);
            m_bcd := m_bcd (x_first x); m_serial := Reply.c_seq c; m_sum := 0; m_no := 0; m_body := body;
            m_check := chk |}.
Proof. exact rerequest_frame. Qed.
Print Assumptions C14_rerequest_frame.

(* the serial hypothesis holds in every history of the connection (and C06_serials says which
   serial the k-th write carries) *)
Theorem C14_writer_serial_range : forall ms s, Reply.c_seq (Reply.final (Reply.init ms) s) < 65536.
Proof. exact writer_seq_range. Qed.
Print Assumptions C14_writer_serial_range.

(* between parse and the writer: the reader loop (Model/Reply.v reader_look / reader_send) forwards a
   generated re-request (id 0x8003, first in its pending input) to reissuePackChan without any
   callback, and never drops it: with room in the channel (capacity 3) it is appended; with the
   channel full the reader keeps it in hand - the blocking send - until the writer has taken one
   (seeded bug C14-6 replaced exactly this by a drop) *)
Theorem C14_reader_forwards : forall (c : Reply.conn) d rest,
  Reply.c_hand c = None -> Reply.c_pending c = d :: rest -> m_id (Reply.d_m d) = 32771 ->
  let c1 := fst (Reply.reader_look c) in
  Reply.c_hand c1 = Some d /\ Reply.c_pending c1 = rest /\ snd (Reply.reader_look c) = [] /\
  Reply.c_rq c1 = Reply.c_rq c /\
  (if len (Reply.c_rq c1) <? 3
   then Reply.c_rq (fst (Reply.reader_send c1)) = Reply.c_rq c1 ++ [d] /\ Reply.c_hand (fst (Reply.reader_send c1)) = None
   else fst (Reply.reader_send c1) = c1).
Proof. exact reader_forwards. Qed.
Print Assumptions C14_reader_forwards.

(* ... and that generated message has the id 0x8003, so C14_reader_forwards applies to what parse returns *)
Theorem C14_rerequest_message_id : forall id x, decoded_header (x_first x) -> (length (x_slots x) <= 510)%nat ->
  m_id (p_msg (rereq_pmsg (mk_rereq id x))) = 32771.
Proof. exact rereq_message_id. Qed.
Print Assumptions C14_rerequest_message_id.

(* ---- non-vacuity and the limit of the property's quantifier ---- *)
Definition ex_pkt (id sum no serial : N) (body : list N) : msg :=
  {| m_id := id; m_len := len body; m_enc := 0; m_frag := (if sum =? 0 then 0 else 1); m_ver := 0;
     m_bcd := [1; 35; 69; 103; 137; 1]; m_serial := serial; m_sum := sum; m_no := no;
     m_body := body; m_check := 0 |}.

(* 5 packets, 1 and 4 arrive; at 5.001 s after packet 4 the end of a read re-requests 2,3,5 with
   packet 1's serial 0x1234; 2 s later nothing; 5.001 s after the first re-request again 2,3,5;
   then 3 arrives, and 5.001 s later the list is 2,5; then 2 and 5 arrive: delivered *)
Definition ex14 : list (N * event) :=
  [(0, EvMsg (ex_pkt 2049 5 1 4660 [1])); (100, EvMsg (ex_pkt 2049 5 4 4663 [4])); (100, EvEnd);
   (5101, EvEnd); (7000, EvEnd); (10102, EvEnd);
   (11000, EvMsg (ex_pkt 2049 5 3 4662 [3])); (11000, EvEnd); (16001, EvEnd);
   (17000, EvMsg (ex_pkt 2049 5 2 4661 [2])); (17000, EvMsg (ex_pkt 2049 5 5 4664 [5])); (17000, EvEnd)].

Example C14_example_run :
  map (fun kr => (fst kr, rr_list (snd kr), rr_body (snd kr))) (rereqs 2049 (snd (run [] ex14))) =
    [(3%nat, [2; 3; 5], [18; 52; 3; 0; 2; 0; 3; 0; 5]);
     (5%nat, [2; 3; 5], [18; 52; 3; 0; 2; 0; 3; 0; 5]);
     (8%nat, [2; 5], [18; 52; 2; 0; 2; 0; 5])] /\
  completions 2049 (snd (run [] ex14)) = [(10%nat, [1; 2; 3; 4; 5])].
Proof. vm_compute. split; reflexivity. Qed.

(* the same transfer left alone: removed by the first end of read after 60 s, the late packets
   deliver nothing *)
Example C14_example_expiry :
  let evs := [(0, EvMsg (ex_pkt 2049 3 1 7 [1])); (0, EvEnd); (60001, EvEnd);
              (60002, EvMsg (ex_pkt 2049 3 2 8 [2])); (60002, EvMsg (ex_pkt 2049 3 3 9 [3])); (60002, EvEnd)] in
  completions 2049 (snd (run [] evs)) = [] /\ rereqs 2049 (snd (run [] evs)) = [] /\ fst (run [] evs) = [].
Proof. vm_compute. repeat split; reflexivity. Qed.

(* the demonstration that used to deliver (before fix 4f00aa1): packets 1 and 2 of 3, nothing for
   61 s, then packet 3 as the FIRST data: not delivered, the transfer is dropped *)
Example C14_example_late_packet :
  let evs := [(0, EvMsg (ex_pkt 2049 3 1 7 [1])); (0, EvEnd); (0, EvMsg (ex_pkt 2049 3 2 8 [2])); (0, EvEnd);
              (61000, EvMsg (ex_pkt 2049 3 3 9 [3])); (61000, EvEnd)] in
  completions 2049 (snd (run [] evs)) = [] /\ rereqs 2049 (snd (run [] evs)) = [] /\ fst (run [] evs) = [].
Proof. vm_compute. repeat split; reflexivity. Qed.

(* outside the property's quantifier (totals up to 255): with 256 numbers missing the count byte
   wraps to 0 while 256 numbers are listed - the code's byte(len(seqs)) *)
Example C14_count_wraps :
  let s := fst (run [] [(0, EvMsg (ex_pkt 2049 257 1 7 [1]))]) in
  map (fun r => (len (rr_list r), nth 2 (rr_body r) 99, len (rr_body r))) (rr_for 2049 (snd (step 5001 s EvEnd)))
  = [(256, 0, 515)].
Proof. vm_compute. reflexivity. Qed.

(* the hypotheses of C14_rerequest_frame are satisfiable: the transfer of ex14 after packets 1 and 4 *)
Example C14_example_frame :
  let x := {| x_slots := [[1]; []; []; [4]; []]; x_create := 0; x_update := 100; x_first := ex_pkt 2049 5 1 4660 [1] |} in
  decoded_header (x_first x) /\
  decode (encode (p_msg (rereq_pmsg (mk_rereq 2049 x))) 32771 7 (m_body (p_msg (rereq_pmsg (mk_rereq 2049 x))))) =
    Ok {| m_id := 32771; m_len := 9; m_enc := 0; m_frag := 0; m_ver := 0; m_bcd := [1; 35; 69; 103; 137; 1];
          m_serial := 7; m_sum := 0; m_no := 0; m_body := [18; 52; 3; 0; 2; 0; 3; 0; 5]; m_check := 36 |}.
Proof. split. unfold decoded_header, bytes; cbn; repeat split; try reflexivity; repeat constructor. vm_compute. reflexivity. Qed.

(* the writer side on a concrete state: the re-request of C14_example_frame alone in the channel,
   platform serial 7: one write, serial 8 afterwards, the bytes on the wire *)
Example C14_example_writer :
  let x := {| x_slots := [[1]; []; []; [4]; []]; x_create := 0; x_update := 100; x_first := ex_pkt 2049 5 1 4660 [1] |} in
  let p := rereq_pmsg (mk_rereq 2049 x) in
  let d := {| Reply.d_m := p_msg p; Reply.d_complete := false; Reply.d_data := p_raw p |} in
  let c := {| Reply.c_pending := []; Reply.c_hand := None; Reply.c_q := []; Reply.c_rq := [d]; Reply.c_seq := 7;
              Reply.c_h := Reply.hstate0 |} in
  Reply.c_seq (fst (Reply.writer_rereq c)) = 8 /\ Reply.c_rq (fst (Reply.writer_rereq c)) = [] /\
  map (fun o => match o with Reply.OWrite w => Reply.wire_bytes w | _ => [] end) (firstn 1 (snd (Reply.writer_rereq c))) =
    [[126; 128; 3; 0; 9; 1; 35; 69; 103; 137; 1; 0; 7; 18; 52; 3; 0; 2; 0; 3; 0; 5; 36; 126]].
Proof. vm_compute. repeat split; reflexivity. Qed.

(* the hypotheses of C14_exact_list / C14_then_completes on ex14 (packet 1 at 0, the rest within 60 s,
   packets 1 and 4 seen before the first round) *)
Definition ex14_bodies : list (list N) := [[1]; [2]; [3]; [4]; [5]].
Example C14_example_hypotheses :
  ex14_bodies <> [] /\ Forall nonempty ex14_bodies /\
  good_pkt 2049 (len ex14_bodies) ex14_bodies (ex_pkt 2049 5 1 4660 [1]) /\
  Forall (ok_after 2049 ex14_bodies 0) (tl ex14) /\
  numbers 2049 5 (firstn 3 ex14) = [1; 4] /\ last_stamp 2049 5 0 (firstn 2 (tl ex14)) = 100.
Proof.
  split. discriminate. split. repeat constructor; discriminate. split.
  - unfold good_pkt. cbn. repeat split; try reflexivity; discriminate.
  - split; [|split; vm_compute; reflexivity]. unfold ex14. cbn [tl].
    repeat (apply Forall_cons; [split; [vm_compute; discriminate|cbn [snd ev_ok]]|]); try apply Forall_nil;
      first [ exact I
            | right; left; split; [unfold good_pkt; cbn; repeat split; try reflexivity; discriminate|cbn; discriminate] ].
Qed.

(* `stored` (C14_none_before_5s): packet 4 in the state after packet 1 *)
Example C14_example_stored :
  stored 2049 (fst (run [] [(0, EvMsg (ex_pkt 2049 5 1 4660 [1]))])) (ex_pkt 2049 5 4 4663 [4]).
Proof.
  unfold stored. split. reflexivity. split. discriminate. right. vm_compute.
  eexists. split. reflexivity. split; discriminate.
Qed.

(* C14_reader_forwards with the channel full: three re-requests queued, a fourth in the reader's
   input: the reader takes it in hand and its send leaves the state unchanged (blocked, not dropped);
   after one writer move the same send succeeds *)
Example C14_example_reader_blocks :
  let x := {| x_slots := [[1]; []]; x_create := 0; x_update := 0; x_first := ex_pkt 2049 2 1 4660 [1] |} in
  let p := rereq_pmsg (mk_rereq 2049 x) in
  let d := {| Reply.d_m := p_msg p; Reply.d_complete := false; Reply.d_data := p_raw p |} in
  let c := {| Reply.c_pending := [d]; Reply.c_hand := None; Reply.c_q := []; Reply.c_rq := [d; d; d]; Reply.c_seq := 0;
              Reply.c_h := Reply.hstate0 |} in
  let c1 := fst (Reply.reader_look c) in
  Reply.c_hand c1 = Some d /\ fst (Reply.reader_send c1) = c1 /\
  len (Reply.c_rq (fst (Reply.reader_send (fst (Reply.writer_rereq c1))))) = 3 /\
  Reply.c_hand (fst (Reply.reader_send (fst (Reply.writer_rereq c1)))) = None.
Proof. vm_compute. repeat split; reflexivity. Qed.

(* staggered idle periods (seeded bug C14-15): id 0x0801 stalls at 0 s, id 0x0200 at 2 s.  The read at
   5.001 s re-requests only 0x0801 and refreshes only ITS stamp; the read at 7.001 s re-requests
   0x0200 (stale since 2 s: its clock was not reset by the other id's re-request) and not 0x0801
   (re-requested 2 s ago); by C14_exact_list this is general: last_stamp X depends only on X's own
   packets and X's own re-requests *)
Example C14_example_staggered :
  let evs := [(0, EvMsg (ex_pkt 2049 3 1 10 [1])); (0, EvEnd);
              (2000, EvMsg (ex_pkt 512 2 1 20 [7])); (2000, EvEnd);
              (5001, EvEnd); (7001, EvEnd); (10002, EvEnd)] in
  map (fun kr => (fst kr, rr_list (snd kr))) (rereqs 2049 (snd (run [] evs))) = [(4%nat, [2; 3]); (6%nat, [2; 3])] /\
  map (fun kr => (fst kr, rr_list (snd kr))) (rereqs 512 (snd (run [] evs))) = [(5%nat, [2])] /\
  map (fun kv => (fst kv, x_update (snd kv))) (fst (run [] (firstn 5 evs))) = [(512, 2000); (2049, 5001)].
Proof. vm_compute. repeat split; reflexivity. Qed.

(* C16 — the attachment completion report lists exactly the missing byte ranges.
   Only statements here; every proof is `exact <lemma of Proofs/Ranges_proofs>`.
   [miss_segments size cur recs] models Package.StatisticalMissSegments (uint32 arithmetic
   included); [recs] is Package.OffsetRecord.  The two hypotheses of the theorems below - the recorded chunks are
   [chunks_ok] and CurrentSize = sum_len recs - are PROVED for every event of every upload of the connection model in
   Props/C15.v (C15_recorded_chunks_ok), and C15_1212_reply_exact shows that the retransmit list held after a 0x1212
   IS [miss_segments] of the recorded chunks: composed with C16_exact that is "the completion response lists exactly
   the missing ranges" on the socket path.  Zero-length chunks (legal on the wire, accepted by the server) are outside
   [chunks_ok]: for them the list is not maximal - recorded as finding C15/zero-length-chunk. *)
From JT.Base Require Import Prelude.
From JT.Model Require Import Frame Ranges.
From JT.Proofs Require Import Ranges_proofs.

(* for every file size and every set of received, pairwise disjoint, non-empty, in-range chunks
   (listed in any order): the reported ranges are strictly ascending, non-empty and pairwise
   non-adjacent (= maximal), lie inside the file, cover exactly the bytes not covered by a received
   chunk, and their total length is what is missing *)
Theorem C16_exact : forall size recs, size < 4294967296 -> chunks_ok size recs ->
  let g := miss_segments size (sum_len recs) recs in
  sorted_maximal g /\
  (forall x, covered g x -> x < size) /\
  (forall x, x < size -> (covered g x <-> ~ covered recs x)) /\
  sum_len g + sum_len recs = size.
Proof. exact miss_exact. Qed.
Print Assumptions C16_exact.

(* 'complete' (no ranges) exactly when every byte has been received *)
Theorem C16_complete_iff : forall size recs, size < 4294967296 -> chunks_ok size recs ->
  let g := miss_segments size (sum_len recs) recs in
  (g = [] <-> (forall x, x < size -> covered recs x)) /\ (g = [] <-> sum_len recs = size).
Proof. exact complete_iff. Qed.
Print Assumptions C16_complete_iff.

(* after the reported ranges have been resent the chunk set is again well-formed, covers the whole
   file, and the next report is 'complete' - whatever CurrentSize says *)
Theorem C16_resend_completes : forall size recs, size < 4294967296 -> chunks_ok size recs ->
  let g := miss_segments size (sum_len recs) recs in
  chunks_ok size (recs ++ g) /\ sum_len (recs ++ g) = size /\
  (forall x, x < size -> covered (recs ++ g) x) /\
  (forall cs, miss_segments size cs (recs ++ g) = []).
Proof. exact resend_completes. Qed.
Print Assumptions C16_resend_completes.

(* the 0x9212 body built by T0x1212.ReplyBody for up to 255 ranges is read back by P0x9212.Parse
   (stride 8) as exactly (file name, type, flag, count, ranges); flag = 0 iff complete *)
Theorem C16_wire : forall size recs t, size < 4294967296 -> chunks_ok size recs ->
  f_namelen t = len (f_name t) ->
  let g := miss_segments size (sum_len recs) recs in
  (length g <= 255)%nat ->
  parse9212 (reply1212 t g) =
  Ok {| r_namelen := f_namelen t; r_name := f_name t; r_type := f_type t;
        r_result := if sum_len recs =? size then 0 else 1; r_count := len g; r_list := g |}.
Proof. exact wire_exact. Qed.
Print Assumptions C16_wire.

(* the wire round trip for any list of up to 255 ranges of 32-bit values *)
Theorem C16_wire_any : forall t miss, f_namelen t = len (f_name t) -> (length miss <= 255)%nat ->
  Forall (fun s => fst s < 4294967296 /\ snd s < 4294967296) miss ->
  parse9212 (reply1212 t miss) =
  Ok {| r_namelen := f_namelen t; r_name := f_name t; r_type := f_type t;
        r_result := match miss with [] => 0 | _ => 1 end; r_count := len miss; r_list := miss |}.
Proof. exact wire. Qed.
Print Assumptions C16_wire_any.

(* One frame carries at most 1023 body bytes.  The range computation and the 0x9212 body stay exact up to 255
   ranges (C16_wire); what fails above 1023 bytes is the FRAME: Header.Encode writes the length unmasked, and the
   decoder rejects the result.  Witness (known finding C16/socket/reply-over-1023; the harness plays 127..255-gap
   sessions against the real server and hands every reply to the real decoder): 254-byte file, every odd byte
   received, 127 one-byte gaps, 8-byte name -> 1028-byte body, undecodable frame.  With 126 gaps (1020 bytes) the
   frame decodes and its body parses to exactly the 126 ranges.  For every body of at most 1023 bytes the frame
   round trip is C01_roundtrip. *)
Theorem C16_refuted_reply_over_1023 :
  let g := miss_segments 254 127 (over_chunks 127) in
  length g = 127%nat /\ length (reply1212 (over_file 254) g) = 1028%nat /\
  parse9212 (reply1212 (over_file 254) g) =
    Ok {| r_namelen := 8; r_name := f_name (over_file 254); r_type := 0; r_result := 1; r_count := 127; r_list := g |} /\
  decode (encode over_hdr 0x9212 3 (reply1212 (over_file 254) g)) = Err E_BODY_LEN.
Proof. exact reply_over_1023_refuted. Qed.
Print Assumptions C16_refuted_reply_over_1023.

Theorem C16_reply_126_gaps_carried :
  let g := miss_segments 252 126 (over_chunks 126) in
  length g = 126%nat /\ length (reply1212 (over_file 252) g) = 1020%nat /\
  exists m, decode (encode over_hdr 0x9212 3 (reply1212 (over_file 252) g)) = Ok m /\ m_id m = 0x9212 /\
    parse9212 (m_body m) =
      Ok {| r_namelen := 8; r_name := f_name (over_file 252); r_type := 0; r_result := 1; r_count := 126; r_list := g |}.
Proof. exact reply_126_gaps_carried. Qed.
Print Assumptions C16_reply_126_gaps_carried.

(* non-vacuity: the 5000-byte file with chunks 4000.., 0.., 2000.. received (out of order) *)
Example C16_example :
  chunks_ok 5000 [(4000, 1000); (0, 1000); (2000, 1000)] /\
  miss_segments 5000 3000 [(4000, 1000); (0, 1000); (2000, 1000)] = [(1000, 1000); (3000, 1000)].
Proof.
  split; [|reflexivity]. split.
  - cbn [disjoint]. repeat split; intros x Hx (o & n & Hin & Hx'); cbn [In] in Hin;
      repeat (destruct Hin as [Hin | Hin]; [inversion Hin; subst; lia|]); destruct Hin.
  - repeat constructor; cbn; lia.
Qed.

(* C18 — connection goroutines are free of data races.
   Only statements here; every proof is `exact <lemma of Proofs/Race_proofs>` or a vm_compute witness.

   [races tr]: all pairs of accesses in the execution [tr] to one location by two goroutines, at least
   one a write, the earlier not happening-before the later (vector clocks advanced by channel
   send/receive, close, go).  [trace (step v) init sched]: the execution of the connection model
   (Model/Race.v: reader, writer, timers, manager, callers, the accepting goroutine) under the
   schedule [sched]; choices that are not enabled are skipped, so `forall sched` is every interleaving
   of every number of messages, commands and timers.  [repaired] is the code as it is now.

   What is NOT proved here (level: partial): that the annotations (which step touches which location,
   which synchronisation orders what) are those of the Go code — the access-site tables (tie (i)) and
   the race-detector runs (tie (ii)) of the harness check that on every run — and the Go memory model
   itself.  The first half of this file is about ONE connection (with the manager, the accepting goroutine
   and the callers); the second half (C18_race_free_N) about any number of connections sharing the manager,
   its registry and the accepting goroutine.  That a delivered message does not share memory with the
   reader's receive buffer is C09's theorem, used here as the reason why LMsg n and LBuf are two locations. *)
From Coq Require Import List Arith Bool String.
From JT.Base Require Import Sched.
From JT.Model Require Import Race RaceN.
From JT.Proofs Require Import Race_proofs RaceN_proofs.
Import ListNotations.

(* the repaired code: no schedule has a data race *)
Theorem C18_race_free : forall sched, races (trace (step repaired) init sched) = [].
Proof. exact race_free. Qed.
Print Assumptions C18_race_free.

(* ... because every schedule respects the ownership discipline: each location has one owner at a
   time (a goroutine, or a channel message in transit), or is read-only and shared among goroutines
   started after its last write; only the owner accesses it; ownership moves with send/receive/go *)
Theorem C18_disciplined : forall sched,
  exists m, mon_run mon0 (trace (step repaired) init sched) = Some m.
Proof. exact conn_disciplined. Qed.
Print Assumptions C18_disciplined.

(* the discipline implies race freedom for ANY execution, not only the model's *)
Theorem C18_discipline_sound : forall tr m, mon_run mon0 tr = Some m -> races tr = [].
Proof. exact mon_sound. Qed.
Print Assumptions C18_discipline_sound.

(* the three historical defects, each switched back on in the same model, each with a schedule
   that races (so [races] is not vacuously empty and the model is fine enough to see them) *)
Theorem C18_refuted_clear_handles :
  races (trace (step {| v_clear_handles := true; v_log_serial := false; v_share_header := false; v_alias_buf := false; v_share_merged := false |}) init
           [Boot; RRead 0; RJoinSend 0; MJoin true; RJoinAck; RPush 0; CCall 0; MWrite 0; RStop; MLeave; RStop2; WAct 0 true true])
  = [{| r_loc := LHandles; r_first := TReader; r_second := TWriter |}].
Proof. vm_compute. reflexivity. Qed.
Print Assumptions C18_refuted_clear_handles.

Theorem C18_refuted_log_serial :
  races (trace (step {| v_clear_handles := false; v_log_serial := true; v_share_header := false; v_alias_buf := false; v_share_merged := false |}) init
           [Boot; RRead 0; RJoinSend 0; MJoin true; RJoinAck; RPush 0; WMsg 0 None; RStop])
  = [{| r_loc := LSerial; r_first := TWriter; r_second := TReader |}].
Proof. vm_compute. reflexivity. Qed.
Print Assumptions C18_refuted_log_serial.

Theorem C18_refuted_share_header :
  races (trace (step {| v_clear_handles := false; v_log_serial := false; v_share_header := true; v_alias_buf := false; v_share_merged := false |}) init
           [Boot; RRead 0; RJoinSend 0; MJoin true; CCall 0; MWrite 0; WAct 0 true true; RJoinAck])
  = [{| r_loc := LMsg 0; r_first := TWriter; r_second := TReader |}].
Proof. vm_compute. reflexivity. Qed.
Print Assumptions C18_refuted_share_header.

(* the fourth historical race (fix adede50, C09): delivered messages were views into the reader's receive
   buffer, so the writer reading message 0 races with the reader's next Read.  In the model the message
   memory LMsg n and the buffer LBuf are different locations BECAUSE parse() hands out copies (C09's theorems
   C09_content_is_own / C09_stable: a delivered message owns its bytes); the variant puts the aliasing back *)
Theorem C18_refuted_alias_buffer :
  races (trace (step {| v_clear_handles := false; v_log_serial := false; v_share_header := false; v_alias_buf := true; v_share_merged := false |}) init
           [Boot; RRead 0; RPush 0; RRead 1; WMsg 0 None])
  = [{| r_loc := LBuf; r_first := TReader; r_second := TWriter |}].
Proof. vm_compute. reflexivity. Qed.
Print Assumptions C18_refuted_alias_buffer.

(* the fifth and sixth (fixes a3fb0a0 and 4b6a3bd): two message objects sharing one header - the message merged from
   sub-packages was built around the *JTMessage of the last sub-packet, the re-request record around the first
   packet's header - so that the writer answering message 0 (Header.Encode rewrites reply id, serial, body length)
   writes the header of message 1, which is still with the reader's callbacks.  One location per message object
   (LMsg n) holds since those fixes; the variant puts the sharing back *)
Theorem C18_refuted_shared_message_header :
  races (trace (step {| v_clear_handles := false; v_log_serial := false; v_share_header := false; v_alias_buf := false;
                        v_share_merged := true |}) init
           [Boot; RRead 0; RPush 0; RRead 1; WMsg 0 None])
  = [{| r_loc := LMsg 1; r_first := TReader; r_second := TWriter |}].
Proof. vm_compute. reflexivity. Qed.
Print Assumptions C18_refuted_shared_message_header.

(* the same three schedules are race free in the repaired model (instances of C18_race_free, shown
   on concrete values) *)
Example C18_same_schedules_repaired :
  races (trace (step repaired) init
           [Boot; RRead 0; RJoinSend 0; MJoin true; RJoinAck; RPush 0; CCall 0; MWrite 0; RStop; MLeave; RStop2; WAct 0 true true]) = [] /\
  races (trace (step repaired) init [Boot; RRead 0; RJoinSend 0; MJoin true; RJoinAck; RPush 0; WMsg 0 None; RStop]) = [] /\
  races (trace (step repaired) init [Boot; RRead 0; RJoinSend 0; MJoin true; CCall 0; MWrite 0; WAct 0 true true; RJoinAck]) = [].
Proof. vm_compute. auto. Qed.

(* non-vacuity of the quantifier: in [cover_sched] no choice is skipped, every kind of step of the
   model fires, 222 events are produced *)
Fixpoint all_enabled (s : st) (sched : list choice) : bool :=
  match sched with
  | [] => true
  | c :: t => match step repaired s c with Some (s', _) => all_enabled s' t | None => false end
  end.

Example C18_cover_runs :
  all_enabled init cover_sched = true /\ List.length (trace (step repaired) init cover_sched) = 222.
Proof. vm_compute. auto. Qed.

(* a connection whose key is taken: the manager refuses, the reader is told and returns; it ends WITHOUT a
   leave closure (fix 8f7d690: only a joined connection calls leave), as does one that never sent a message *)
Example C18_refused_and_unjoined_end :
  let refused := [Boot; RRead 0; RJoinSend 0; MJoin false; RJoinAck; RStop; WSeeStop; WExit] in
  let unjoined := [Boot; RRead 0; RStop; WSeeStop; WExit] in
  all_enabled init refused = true /\ all_enabled init unjoined = true /\
  races (trace (step repaired) init refused) = [] /\
  existsb (fun e => match e with ESend _ KLeave _ => true | _ => false end) (trace (step repaired) init refused) = false /\
  existsb (fun e => match e with ESend _ KLeave _ => true | _ => false end) (trace (step repaired) init unjoined) = false /\
  (* nothing else is enabled for a refused reader *)
  all_enabled init [Boot; RRead 0; RJoinSend 0; MJoin false; RJoinAck; RRead 1] = false /\
  all_enabled init [Boot; RRead 0; RJoinSend 0; MJoin false; RJoinAck; RPush 0] = false.
Proof. vm_compute. repeat split. Qed.

(* [performs g x w] - what tie (i) asks of the model for a code site - is membership in [model_acc], the
   accesses along the one schedule [cover_sched].  That set is EXACT: no schedule of the model performs a
   (goroutine class, location class, mode) outside it, and everything [performs] accepts is performed *)
Theorem C18_model_acc_exact : forall sched a,
  In a (acc_classes (trace (step repaired) init sched)) -> acc_in a = true.
Proof. exact model_acc_exact. Qed.
Print Assumptions C18_model_acc_exact.


Theorem C18_performs_witness : forall g x w, performs g x w = true ->
  exists sched w', In (g, x, w') (acc_classes (trace (step repaired) init sched)) /\ (w = true -> w' = true).
Proof. exact performs_witness. Qed.
Print Assumptions C18_performs_witness.

(* tie (i): the code sites of the tree this was written against are annotated (the harness asks the
   same question for the CURRENT tree through the extracted [site_ok] on every run); a reader that
   clears c.handles, or reads platformSerialNumber, is not *)
Example C18_sites_examples :
  site_ok "connection.reader" "connection" "handles" false = true /\
  site_ok "connection.onActiveEvent" "connection" "handles" false = true /\
  site_ok "connection.curSeq$1" "connection" "platformSerialNumber" true = true /\
  site_ok "connection.onActiveEvent$1" "connection" "stopChan" false = true /\
  site_ok "sessionManager.write" "sessionManager" "operationFuncChan" false = true /\
  site_ok "connection.stop$1" "connection" "handles" true = false /\
  site_ok "connection.reader" "connection" "platformSerialNumber" false = false /\
  call_ok "connection.onActiveEvent" "connection.curSeq" = true /\
  call_ok "connection.reader" "connection.curSeq" = false.
Proof. vm_compute. repeat split. Qed.

(* the oracle extracts the tables with names as character-code lists ([site_ok_n] ...): they answer
   exactly as the readable ones on every combination of table entries *)
Example C18_tables_n_agree :
  forallb (fun f => forallb (fun d => forallb (fun w =>
      Bool.eqb (site_ok_n (nm (fst f)) (nm (fst (fst d))) (nm (snd (fst d))) w)
               (site_ok (fst f) (fst (fst d)) (snd (fst d)) w)) [true; false]) field_table) fun_table = true /\
  forallb (fun f => forallb (fun g =>
      Bool.eqb (call_ok_n (nm (fst f)) (nm (fst g))) (call_ok (fst f) (fst g)) &&
      Bool.eqb (spawn_ok_n (nm (fst f)) (nm (fst g))) (spawn_ok (fst f) (fst g))) fun_table) fun_table = true.
Proof. vm_compute. auto. Qed.

(* ---------------------------------------------------------------- any number of connections
   Model/RaceN.v: N connections side by side, each making the steps of the one-connection model under its own
   names (NT c t, NL c l, NK c k), sharing the ONE accepting goroutine NMain, the ONE manager goroutine NMgr
   and the ONE registry location NReg (the manager's map with its session structs).  A schedule is a list
   of (connection, choice): every interleaving of every number of connections. *)
Theorem C18_race_free_N : forall sched, nraces (trace (nstep repaired) ninit sched) = [].
Proof. exact nrace_free. Qed.
Print Assumptions C18_race_free_N.

Theorem C18_disciplined_N : forall sched,
  exists m, gmon_run ntid nloc ntok ntid_eqb nloc_eqb ntok_eqb (gmon0 ntid nloc ntok)
              (trace (nstep repaired) ninit sched) = Some m.
Proof. exact nconn_disciplined. Qed.
Print Assumptions C18_disciplined_N.

(* non-vacuity: three connections interleaved (none of the 43 choices is skipped: 196 events; connection 2 is refused for its key and ends without a leave); the shared
   registry location is accessed on behalf of all three, always by NMgr; a defect in ONE connection among
   three is seen; and two goroutines of different connections touching one location WOULD be a race *)
Definition three_conns : list (nat * choice) :=
  [(0, Boot); (1, Boot); (2, Boot); (0, RRead 0); (1, RRead 0); (0, RJoinSend 0); (1, RJoinSend 0); (1, MJoin true); (0, MJoin true);
   (2, RRead 5); (2, RJoinSend 5); (2, MJoin false); (2, RJoinAck); (0, RJoinAck); (1, RJoinAck); (0, RPush 0); (1, RPush 0); (0, CCall 0); (1, CCall 0); (2, CCall 0);
   (1, MWrite 0); (0, MWrite 0); (2, MWrite 0); (0, WMsg 0 None); (1, WAct 0 true true); (0, WAct 0 true true); (2, CRet 0);
   (1, RStop); (0, RRead 1); (1, MLeave); (0, RPush 1); (1, RStop2); (0, WMsg 1 (Some 0)); (1, TFire 0 true); (1, WSeeStop);
   (0, CRet 0); (1, WStopOut 0); (1, CRet 0); (1, WExit); (0, TFire 0 false); (0, WCpl 0); (2, RStop);
   (0, RStop)].

Fixpoint n_enabled (s : nst) (sched : list (nat * choice)) : bool :=
  match sched with
  | [] => true
  | c :: t => match nstep repaired s c with Some (s', _) => n_enabled s' t | None => false end
  end.

Definition reg_touchers (tr : list nev) : list ntid :=
  flat_map (fun e : nev => match e with GAcc t NReg _ => [t] | _ => [] end) tr.

Definition one_bad_of_three : list (nat * choice) :=
  [(0, Boot); (1, Boot); (1, RRead 0); (1, RJoinSend 0); (0, RRead 0); (1, MJoin true); (1, RJoinAck); (1, RPush 0); (1, CCall 0);
   (1, MWrite 0); (1, RStop); (0, RPush 0); (1, MLeave); (1, RStop2); (1, WAct 0 true true)].

Example C18_three_connections :
  n_enabled ninit three_conns = true /\
  List.length (trace (nstep repaired) ninit three_conns) = 196 /\
  nraces (trace (nstep repaired) ninit three_conns) = [].
Proof. vm_compute. repeat split. Qed.

(* who touches THE registry location, over all three connections: the manager goroutine, 10 times *)
Example C18_registry_is_the_managers :
  forallb (fun t => ntid_eqb t NMgr) (reg_touchers (trace (nstep repaired) ninit three_conns)) = true /\
  List.length (reg_touchers (trace (nstep repaired) ninit three_conns)) = 10.
Proof. vm_compute. repeat split. Qed.

(* connection 1 with clear(c.handles) back in stop while connection 0 goes on: the race is in connection 1 *)
Example C18_one_bad_connection :
  nraces (trace (nstep {| v_clear_handles := true; v_log_serial := false; v_share_header := false; v_alias_buf := false; v_share_merged := false |}) ninit one_bad_of_three)
  = [{| gr_loc := NL 1 LHandles; gr_first := NT 1 TReader; gr_second := NT 1 TWriter |}].
Proof. vm_compute. reflexivity. Qed.

(* were a location shared by goroutines of two connections, [nraces] would say so *)
Example C18_cross_connection_race_is_seen :
  nraces [GAcc (NT 0 TReader) NReg true; GAcc (NT 1 TReader) NReg false]
  = [{| gr_loc := NReg; gr_first := NT 0 TReader; gr_second := NT 1 TReader |}].
Proof. vm_compute. reflexivity. Qed.

(* ---------------------------------------------------------------- tie (i) by goroutine class (Model/Race.v Part 5)
   A function the tables have never heard of (extract method) is fine when one class reaches it and that
   class may make the access; a function with a site reached by two classes, an unknown `go` target, an
   access the model does not perform, a capture that is not a known hand-over are not. *)
Example C18_class_tie_examples :
  let call a b := {| e_kind := KCall; e_from := nm a; e_to := nm b |} in
  let spawn a b := {| e_kind := KSpawn; e_from := nm a; e_to := nm b |} in
  let site f t fl w := {| s_fun := nm f; s_type := nm t; s_field := nm fl; s_write := w |} in
  (* the writer's msgChan arm extracted into a new method *)
  graph_problems [] [call "connection.write" "connection.onTerminalMsgEvent"]
                 [site "connection.onTerminalMsgEvent" "connection" "filter" false] [] = [] /\
  (* the reader calling curSeq: curSeq is then reached by reader and writer *)
  List.length (graph_problems [] [call "connection.write" "connection.curSeq"; call "connection.reader" "connection.curSeq"]
                              [site "connection.curSeq" "connection" "platformSerialNumber" true] []) = 1 /\
  (* clear(c.handles) in the Once closure of stop(), which runs in the reader *)
  List.length (graph_problems [] [call "connection.reader" "connection.stop"; call "connection.stop" "connection.stop$1"]
                              [site "connection.stop$1" "connection" "handles" true] []) = 1 /\
  (* a new goroutine *)
  List.length (graph_problems [] [spawn "connection.reader" "connection.reader$2"] [] []) = 1 /\
  (* a site in a function nobody is known to call *)
  List.length (graph_problems [] [] [site "connection.helper" "connection" "key" false] []) = 1 /\
  (* the timer closure reading the writer's record map *)
  List.length (graph_problems [] [] [] [{| c_fun := nm "connection.onActiveEvent$1"; c_kind := CKRef;
                                        c_type := nm "map[uint16]*ActiveMessage"; c_write := false; c_imm := true |}]) = 1 /\
  (* ... while a value fixed before the closure exists, a channel whatever its name, the receiver are fine *)
  graph_problems [] [] [] [{| c_fun := nm "connection.onActiveEvent$1"; c_kind := CKBasic; c_type := nm "time.Duration"; c_write := false; c_imm := true |};
                        {| c_fun := nm "sessionManager.leave$1"; c_kind := CKChan; c_type := nm "chanstruct{}"; c_write := false; c_imm := true |};
                        {| c_fun := nm "connection.onActiveEvent$1"; c_kind := CKRef; c_type := nm "*connection"; c_write := false; c_imm := true |}] = [] /\
  (* the join closure keeping the first message instead of its own header copy *)
  List.length (graph_problems [] [] [] [{| c_fun := nm "sessionManager.join$1"; c_kind := CKRef; c_type := nm "*Message"; c_write := false; c_imm := true |}]) = 1 /\
  (* stop() handing a method value to sync.Once.Do, which hands the closes on to another new method: call edges *)
  graph_problems [] [call "connection.reader" "connection.stop"; call "connection.stop" "connection.shutdown";
                     call "connection.shutdown" "connection.closeInboundChans"]
                 [site "connection.closeInboundChans" "connection" "activeMsgChan" false; site "connection.shutdown" "connection" "key" false] [] = [] /\
  (* the `go func` of the timer moved into a new method of the writer: the new goroutine is judged as a timer *)
  graph_problems [] [call "connection.write" "connection.onActiveEvent"; call "connection.onActiveEvent" "connection.startOvertimeTimer";
                     spawn "connection.startOvertimeTimer" "connection.startOvertimeTimer$1"]
                 [site "connection.startOvertimeTimer$1" "connection" "stopChan" false]
                 [{| c_fun := nm "connection.startOvertimeTimer$1"; c_kind := CKRef; c_type := nm "*connection"; c_write := false; c_imm := true |}] = [] /\
  List.length (graph_problems [] [call "connection.write" "connection.startOvertimeTimer";
                                  spawn "connection.startOvertimeTimer" "connection.startOvertimeTimer$1"]
                              [site "connection.startOvertimeTimer$1" "connection" "platformSerialNumber" false] []) = 1 /\
  (* a renamed field: sessionManager.operationFuncChan -> opChan (the one field of that struct and type the model misses) *)
  graph_problems [{| d_struct := nm "sessionManager"; d_field := nm "opChan"; d_type := nm "chanfunc/1/0" |};
                  {| d_struct := nm "sessionManager"; d_field := nm "keyFunc"; d_type := nm "func/1/2" |}]
                 [call "New" "newSessionManager"] [site "newSessionManager" "sessionManager" "opChan" true] [] = [] /\
  (* several channels of one type renamed at once: they share a location class, all are resolved *)
  graph_problems [{| d_struct := nm "connection"; d_field := nm "inbox"; d_type := nm "chan*Message" |};
                  {| d_struct := nm "connection"; d_field := nm "redo"; d_type := nm "chan*Message" |};
                  {| d_struct := nm "connection"; d_field := nm "activeMsgCompleteChan"; d_type := nm "chan*Message" |}]
                 [call "connection.write" "connection.f"]
                 [site "connection.f" "connection" "inbox" false; site "connection.f" "connection" "redo" false] [] = [] /\
  (* a genuinely NEW field (more unknown fields of a struct and type than the model misses) is not *)
  List.length (graph_problems [{| d_struct := nm "connection"; d_field := nm "msgChan"; d_type := nm "chan*Message" |};
                               {| d_struct := nm "connection"; d_field := nm "reissuePackChan"; d_type := nm "chan*Message" |};
                               {| d_struct := nm "connection"; d_field := nm "activeMsgCompleteChan"; d_type := nm "chan*Message" |};
                               {| d_struct := nm "connection"; d_field := nm "extra"; d_type := nm "chan*Message" |}]
                              [call "connection.write" "connection.f"] [site "connection.f" "connection" "extra" false] []) = 1 /\
  (* two renamed fields of one type but different location classes (joined: the reader's; filter: immutable) are
     told apart by who uses them ... *)
  graph_problems [{| d_struct := nm "connection"; d_field := nm "hasJoined"; d_type := nm "bool" |};
                  {| d_struct := nm "connection"; d_field := nm "dropParts"; d_type := nm "bool" |}]
                 [call "connection.reader" "connection.stop"]
                 [site "connection.reader" "connection" "hasJoined" true; site "connection.stop" "connection" "hasJoined" false;
                  site "connection.write" "connection" "dropParts" false; site "connection.reader" "connection" "dropParts" false] [] = [] /\
  (* ... and a renamed field used in a way no candidate allows (the writer writing it) is not resolved *)
  List.length (graph_problems [{| d_struct := nm "connection"; d_field := nm "hasJoined"; d_type := nm "bool" |};
                               {| d_struct := nm "connection"; d_field := nm "filter"; d_type := nm "bool" |}]
                              [] [site "connection.write" "connection" "hasJoined" true] []) = 1 /\
  (* every root of the class tie is a row of the per-function table, with the same class *)
  forallb (fun r => match lookup_fun String.eqb (fst r) fun_table with Some g => gclass_eqb g (snd r) | None => false end) root_table = true.
Proof. vm_compute. repeat split. Qed.

(* C11 — session registry: at most one live connection per terminal key.
   Only statements here; every proof is `exact <lemma of Proofs/Registry_proofs>`.

   WHAT IS QUANTIFIED.  [reachable s]: s is the state after ANY schedule — any list of accepts, first
   messages (joins) with any key INCLUDING the empty string, invalid-key messages, later messages,
   connection ends and SendActiveMessage calls of any number of connections and callers, in any order
   (operations that a connection's program order does not allow at that point are skipped by [run]).
   There is no hypothesis on KeyFunc any more: since fix 8f7d690 a connection that never joined does not
   call leave, so the empty key is a key like any other ([C11_empty_key_kept]; what the code did before
   is recorded by [C11_refuted_empty_key_before_fix]).

   WHICH INTERLEAVINGS.  The model has one atomic step per MANAGER OPERATION (join / leave / write closure)
   and the schedules are all orders in which the operations of all connections and callers reach the
   manager, each connection's own operations in its program order (at most one successful join, refused ->
   only the end, leave last and once).  That covers every interleaving of the per-connection goroutines, the
   manager goroutine and the caller goroutines AS FAR AS THE REGISTRY CAN TELL, because of two facts about the
   code which are not theorems of this file:
     (a) the map `record` is a local variable of sessionManager.run and is touched only by the closures that
         run() executes one at a time, in the order of operationFuncChan — run() is the only manager root and
         the closures sent through operationFuncChan are the only other code of its goroutine class: that is
         C18's root table / call graph tie (Model/Race.v root_table: sessionManager.run, join$1, leave$1,
         write$1 = manager; `spawn New sessionManager.run` is the only go statement that starts it; every
         `session` field site is judged "manager"), re-checked against the source on every run of C18, and
         C18_registry_is_the_managers on the model side;
     (b) join, leave and write block their caller until the closure has run (the unbuffered ch / replyChan),
         so a connection's operations reach the manager in its program order.
   What happens INSIDE a connection between two manager operations (reader/writer/timer steps, the socket
   write of a routed command) is outside this model: C12/C13 (writer, teardown) and C18 (races) cover it.
   [ORouted i c] means: handed to connection c's activeMsgChan inside the manager step. *)
From Coq Require Import List NArith.
From JT.Base Require Import Sched.
From JT.Model Require Import Registry.
From JT.Proofs Require Import Registry_proofs.
Import ListNotations.
Open Scope N_scope.

(* at any moment a key has at most one live connection that joined with it *)
Theorem C11_unique_owner : forall s, reachable s -> forall k c1 c2,
  owner s c1 k -> owner s c2 k -> c1 = c2.
Proof. exact unique_owner. Qed.
Print Assumptions C11_unique_owner.

(* ... and the map is exactly the set of live joined connections *)
Theorem C11_registry_is_owners : forall s, reachable s -> forall k c,
  lookup k (reg s) = Some c <-> owner s c k.
Proof. exact registry_is_owners. Qed.
Print Assumptions C11_registry_is_owners.

(* a second connection presenting an online key is refused (OnJoinEvent with _errKeyExist), the
   registry and the first owner are untouched, also when the refused connection then ends
   (it leaves with the empty key) *)
Theorem C11_refused_leaves_first_alone : forall s, reachable s -> forall c c' k,
  owner s c k -> nth_error (conns s) c' = Some CNew ->
  exists s1 s2,
    step s (FirstMsg c' k) = Some (s1, [OJoin c' k 1]) /\ reg s1 = reg s /\ owner s1 c k /\
    step s1 (Stop c') = Some (s2, [OLeave c' 0]) /\
    reg s2 = reg s /\ owner s2 c k.
Proof. exact refused_leaves_first_alone. Qed.
Print Assumptions C11_refused_leaves_first_alone.

(* when a connection ends, its key - and only its key - becomes free; every other connection
   keeps what it had; the leave callback carries the connection's own key *)
Theorem C11_leave_frees_only_own_key : forall s, reachable s -> forall c cs,
  nth_error (conns s) c = Some cs -> cs <> CDone ->
  exists s1,
    step s (Stop c) = Some (s1, [OLeave c (ckey cs)]) /\
    (forall k, cs = CJoined k -> lookup k (reg s1) = None) /\
    (forall k', cs <> CJoined k' -> lookup k' (reg s1) = lookup k' (reg s)) /\
    ((forall k, cs <> CJoined k) -> reg s1 = reg s) /\
    (forall c' k', c' <> c -> (owner s1 c' k' <-> owner s c' k')).
Proof. exact leave_frees_only_own_key. Qed.
Print Assumptions C11_leave_frees_only_own_key.

(* the freed key can be taken by a new connection *)
Theorem C11_rejoin_after_leave : forall s, reachable s -> forall c k c2,
  owner s c k -> nth_error (conns s) c2 = Some CNew ->
  exists s1 s2,
    step s (Stop c) = Some (s1, [OLeave c k]) /\
    step s1 (FirstMsg c2 k) = Some (s2, [OJoin c2 k 0]) /\
    owner s2 c2 k /\ lookup k (reg s2) = Some c2.
Proof. exact rejoin_after_leave. Qed.
Print Assumptions C11_rejoin_after_leave.

(* a command is handed to the connection that owns the key now; for a key that is not online the
   call returns ErrNotExistKey in the same manager operation *)
Theorem C11_routing : forall s, reachable s -> forall k,
  (exists c, owner s c k /\
     step s (Send k) = Some ({| reg := reg s; conns := conns s; ncall := ncall s + 1 |}, [ORouted (ncall s) c])) \/
  ((forall c, ~ owner s c k) /\
     step s (Send k) = Some ({| reg := reg s; conns := conns s; ncall := ncall s + 1 |}, [ONotExist (ncall s)])).
Proof. exact routing. Qed.
Print Assumptions C11_routing.

(* "fails immediately rather than waiting for a timeout": in every schedule, whatever follows, the answer
   to a call for a key that is not online at that moment is the very next observation (nothing any
   connection, timer or caller does later is needed for it), and the call changes neither the registry nor
   any connection *)
Theorem C11_not_online_at_once : forall sched1 sched2 k,
  (forall c, ~ owner (final step init sched1) c k) ->
  trace step init (sched1 ++ Send k :: sched2) =
    trace step init sched1 ++
    ONotExist (ncall (final step init sched1)) ::
    trace step {| reg := reg (final step init sched1); conns := conns (final step init sched1);
                  ncall := ncall (final step init sched1) + 1 |} sched2.
Proof. exact not_online_at_once. Qed.
Print Assumptions C11_not_online_at_once.

(* callbacks, for EVERY schedule (no hypothesis): what connection c has been told so far is a
   prefix of one legal life and agrees with the connection's state ... *)
Theorem C11_callbacks : forall sched c,
  cb_run CNew (callbacks c (trace step init sched)) = Some (cstate_of (final step init sched) c).
Proof. exact callbacks_ok. Qed.
Print Assumptions C11_callbacks.

(* ... a live joined connection has been announced exactly once (join(k, nil)) and not yet left ... *)
Theorem C11_callbacks_joined : forall sched c k,
  owner (final step init sched) c k ->
  exists n, callbacks c (trace step init sched) = invalids n ++ [CbJoin k 0].
Proof. exact callbacks_joined. Qed.
Print Assumptions C11_callbacks_joined.

(* ... and a connection that has ended saw exactly: join(k, nil) then leave(k) with the same key,
   or join(k, exist) then leave(""), or (it never sent a handled message) just leave("") *)
Theorem C11_callbacks_complete : forall sched c,
  nth_error (conns (final step init sched)) c = Some CDone ->
  exists n,
    callbacks c (trace step init sched) = invalids n ++ [CbLeave 0] \/
    (exists k, callbacks c (trace step init sched) = invalids n ++ [CbJoin k 0; CbLeave k]) \/
    (exists k, callbacks c (trace step init sched) = invalids n ++ [CbJoin k 1; CbLeave 0]).
Proof. exact callbacks_complete. Qed.
Print Assumptions C11_callbacks_complete.

(* a refused connection can do exactly one thing, end: every other operation on it is disabled, its end
   announces leave("") and leaves the registry as it is (that it DOES end - the reader returns, the server
   closes the socket - is not expressible here: the model has no socket; the harness checks it) *)
Theorem C11_refused_only_stops : forall s c ch s' o,
  nth_error (conns s) c = Some CRefused -> targets ch c -> step s ch = Some (s', o) ->
  ch = Stop c /\ o = [OLeave c 0] /\ reg s' = reg s.
Proof. exact refused_only_stops. Qed.
Print Assumptions C11_refused_only_stops.

(* the empty key is a key like any other: a connection that never joined ends without touching the owner
   of "" ... *)
Theorem C11_empty_key_kept :
  let s := final step init [Connect; Connect; FirstMsg 0%nat 0; Stop 1%nat] in
  nth_error (conns s) 0%nat = Some (CJoined 0) /\ lookup 0 (reg s) = Some 0%nat.
Proof. exact empty_key_kept. Qed.
Print Assumptions C11_empty_key_kept.

(* ... which the code before fix 8f7d690 did not guarantee ([step_before_fix]: every ending connection
   called leave(c.key), a never-joined one leave("")): the owner of "" stayed connected but unreachable.
   Reproduced on the real code with a KeyFunc yielding "" (known_findings.json, fixed) *)
Theorem C11_refuted_empty_key_before_fix :
  let s := final step_before_fix init [Connect; Connect; FirstMsg 0%nat 0; Stop 1%nat] in
  nth_error (conns s) 0%nat = Some (CJoined 0) /\ lookup 0 (reg s) = None.
Proof. exact empty_key_evicted_before_fix. Qed.
Print Assumptions C11_refuted_empty_key_before_fix.

(* non-vacuity: a schedule with two keys (one of them the empty key), a duplicate-key connect, an
   invalid-key message, a later message, a leave while another key is held, a re-join and sends is
   [reachable]; its observations, clause by clause *)
Example C11_reachable_example :
  let sched := [Connect; Connect; Connect; FirstMsg 0%nat 7; BadKeyMsg 2%nat; FirstMsg 2%nat 0; FirstMsg 1%nat 7; Send 7; Msg 0%nat;
                Stop 1%nat; Send 0; Stop 0%nat; Send 0; Connect; FirstMsg 3%nat 7; Send 7; Send 8; Stop 2%nat; Send 0] in
  reachable (final step init sched) /\
  trace step init sched =
    [OJoin 0%nat 7 0; OJoin 2%nat 0 2; OJoin 2%nat 0 0; OJoin 1%nat 7 1; ORouted 0 0%nat; OLeave 1%nat 0; ORouted 1 2%nat;
     OLeave 0%nat 7; ORouted 2 2%nat; OJoin 3%nat 7 0; ORouted 3 3%nat; ONotExist 4; OLeave 2%nat 0; ONotExist 5].
Proof.
  split; [|vm_compute; reflexivity].
  eexists; reflexivity.
Qed.

(* the hypotheses of C11_refused_leaves_first_alone / C11_rejoin_after_leave (an owner and a fresh
   connection) hold together in a reachable state *)
Example C11_owner_and_new_example :
  let s := final step init [Connect; Connect; FirstMsg 0%nat 7] in
  reachable s /\ owner s 0%nat 7 /\ nth_error (conns s) 1%nat = Some CNew.
Proof. split; [eexists; reflexivity | vm_compute; auto]. Qed.

(* C05 — sub-package reassembly delivers exactly the original message.
   Only statements here; every proof is `exact <lemma of Proofs/>`.
   Model: Model/Subpkg.v (completePack / add / remove and the housekeeping at the end of parse).
   A connection's history is a list of timed events: EvMsg m = a decoded message handed to
   completePack, EvEnd = the end of one read (expiry + re-request pass).  ANY grouping of the
   messages into reads is some placement of EvEnd events, so the theorems hold for every TCP
   segmentation of the message sequence; the byte-level splitter is C04's subject;
   C05_segmentation says parse on any segmentation equals the loop on the frames' messages, and
   C05_segmentation_exact states C05_exact's conclusion for the bytes cut into reads.  The transfer under consideration has message id X and
   packet bodies `bodies` (total = len bodies >= 1, every body non-empty); it starts with packet
   1 (event (t1, EvMsg p1)) in ANY well-formed state s0 (an older unfinished transfer of X is
   overwritten); `rest` may contain, in any order and any number: messages that are not
   sub-packages of X (unfragmented messages, sub-packages of other ids - whole concurrent
   transfers), packets 2..n of X (repeated at will), sub-packages of X with an impossible number
   (0 or > n), ends of reads; all within 60 s of packet 1 (C14 covers what happens later). *)
From Coq Require Import ZArith ZifyN Lia.
From JT.Base Require Import Prelude.
From JT.Model Require Import Frame Unpack Subpkg SubpkgHandlers.
From JT.Model Require Reply.
From JT.Proofs Require Import Unpack_proofs Subpkg_proofs Subpkg_final Subpkg_seg Subpkg_handlers.

(* exactly one complete message for X, its body the concatenation of the bodies in package-number
   order, delivered by the very event that brings the last missing number (position length l1 in
   the event list: the numbers seen before it do not cover 1..n, with it they do) *)
Theorem C05_exact : forall X bodies s0 t1 p1 rest l1 t m l2,
  bodies <> [] -> Forall nonempty bodies -> wf s0 ->
  good_pkt X (len bodies) bodies p1 -> m_no p1 = 1 -> Forall (ok_after X bodies t1) rest ->
  (t1, EvMsg p1) :: rest = l1 ++ (t, EvMsg m) :: l2 ->
  ~ covers (len bodies) (numbers X (len bodies) l1) ->
  covers (len bodies) (numbers X (len bodies) (l1 ++ [(t, EvMsg m)])) ->
  completions X (snd (run s0 ((t1, EvMsg p1) :: rest))) = [(length l1, concat bodies)].
Proof. exact exact_f. Qed.
Print Assumptions C05_exact.

(* an incomplete set is never delivered as complete *)
Theorem C05_never_early : forall X bodies s0 t1 p1 rest,
  bodies <> [] -> Forall nonempty bodies -> wf s0 ->
  good_pkt X (len bodies) bodies p1 -> m_no p1 = 1 -> Forall (ok_after X bodies t1) rest ->
  ~ covers (len bodies) (numbers X (len bodies) ((t1, EvMsg p1) :: rest)) ->
  completions X (snd (run s0 ((t1, EvMsg p1) :: rest))) = [].
Proof. exact never_early_f. Qed.
Print Assumptions C05_never_early.

(* a packet with an impossible number is ignored: the parser state is literally unchanged and
   nothing is delivered (complete_pack is a total function: there is no panic value to return).
   Number 0, in any state: *)
Theorem C05_bad_number_ignored_zero : forall now s m, m_no m = 0 -> complete_pack now s m = (s, None).
Proof. exact number_zero_ignored. Qed.
Print Assumptions C05_bad_number_ignored_zero.

(* a number greater than the table of the transfer in progress (announced total of its packet 1),
   or any number but 1 when no transfer of that id is in progress *)
Theorem C05_bad_number_ignored_big : forall now s m,
  m_no m <> 1 ->
  match find (m_id m) s with Some x => len (x_slots x) < m_no m | None => True end ->
  complete_pack now s m = (s, None).
Proof. exact number_too_big_ignored. Qed.
Print Assumptions C05_bad_number_ignored_big.

(* messages that are not sub-packages of X never touch X's transfer and deliver nothing for X *)
Theorem C05_others_do_not_disturb : forall X now s m, foreign X m ->
  find X (fst (complete_pack now s m)) = find X s /\
  (snd (complete_pack now s m) = None \/ m_id m <> X).
Proof. exact cp_foreign. Qed.
Print Assumptions C05_others_do_not_disturb.

(* the state hypothesis is met by the initial state and by everything reachable from it *)
Theorem C05_wf_initial : wf [].
Proof. exact wf_nil. Qed.
Theorem C05_wf_reachable : forall s evs, wf s -> wf (fst (run s evs)).
Proof. exact wf_run_f. Qed.
Print Assumptions C05_wf_reachable.

(* composition with the stream splitter (C04): however the byte stream of valid frames fs is cut
   into reads (any number, size and position of cuts, empty reads included), parse - unpack, the
   completePack loop and the housekeeping pass of every read, all at one instant now - delivers over
   all reads exactly what processing the frames' messages one by one delivers, and no read returns
   an error.  (Reads spread over time: the housekeeping only adds 0x8003 messages / drops transfers,
   which is C14's subject.) *)
Theorem C05_segmentation : forall fs chunks now, Forall vframe fs -> concat chunks = concat fs ->
  feed_all now pst0 chunks = (snd (cp_loop now [] (map decode_ok fs)), repeat None (length chunks)).
Proof. exact segmentation_subpkg. Qed.
Print Assumptions C05_segmentation.

(* the same for reads spread over time (each read processed at its own time, in any order of
   times): as long as the expiry pass never drops a transfer (no_expiry: at the end of every read no
   pending transfer was created more than 60 s earlier - C14_expiry says what happens otherwise), the
   completePack loop delivers over all reads exactly what processing the frames one by one
   delivers; no read returns an error; and everything else a read returns is a list of 0x8003
   messages generated by the housekeeping pass and appended after them (C14) *)
Theorem C05_segmentation_timed : forall fs reads, Forall vframe fs -> concat (map snd reads) = concat fs ->
  no_expiry pst0 reads ->
  concat (owns_timed pst0 reads) = snd (cp_loop 0 [] (map decode_ok fs)) /\
  Forall (fun x => snd x = None) (feed_timed pst0 reads) /\
  Forall2 (fun x own => exists rrs, snd (fst x) = own ++ map rereq_pmsg rrs) (feed_timed pst0 reads) (owns_timed pst0 reads).
Proof. exact segmentation_timed. Qed.
Print Assumptions C05_segmentation_timed.

(* no_expiry holds in particular when the whole history lies within 60 s *)
Theorem C05_no_expiry_within_60s : forall t0 reads,
  Forall (fun r => t0 <= fst r /\ fst r <= t0 + 60000) reads -> no_expiry pst0 reads.
Proof. exact no_expiry_span. Qed.
Print Assumptions C05_no_expiry_within_60s.

(* ... and what that loop delivers as complete is what the message-level machine of the theorems
   above completes (same state afterwards), from any state on which the expiry pass at the
   beginning of the read has already acted (parse runs the loop on delete_timeout now (state)):
   C05_exact / C05_never_early speak about the content and number of what parse delivers *)
Theorem C05_parse_is_run : forall now ms s, delete_timeout now s = s ->
  fst (cp_loop now s ms) = fst (run s (map (fun rm => (now, EvMsg (snd rm))) ms)) /\
  completed_msgs (snd (cp_loop now s ms)) = completed_outs (snd (run s (map (fun rm => (now, EvMsg (snd rm))) ms))).
Proof. exact cp_loop_is_run. Qed.
Print Assumptions C05_parse_is_run.

(* C05_exact at byte level: a stream of valid frames fs whose decoded messages form a transfer
   history as in C05_exact (packet 1 first, then anything C05_exact allows), cut into reads in ANY
   way and processed at one instant: among everything parse delivers exactly one message for X is
   flagged complete, its body is the concatenation of the packet bodies, and no read returns an error.
   This is C05_exact's conclusion WITHOUT the position ("as soon as"): where the completed message
   stands is stated at completePack level by C05_exact and, for the loop, by its construction (right
   after the completing packet's own message) *)
Theorem C05_segmentation_exact : forall X bodies fs chunks now p1 l1 t m l2,
  Forall vframe fs -> concat chunks = concat fs ->
  bodies <> [] -> Forall nonempty bodies ->
  good_pkt X (len bodies) bodies p1 -> m_no p1 = 1 ->
  let evs := map (fun rm => (now, EvMsg (snd rm))) (map decode_ok fs) in
  hd_error evs = Some (now, EvMsg p1) ->
  Forall (fun te => ev_ok X (len bodies) bodies (snd te)) (tl evs) ->
  evs = l1 ++ (t, EvMsg m) :: l2 ->
  ~ covers (len bodies) (numbers X (len bodies) l1) ->
  covers (len bodies) (numbers X (len bodies) (l1 ++ [(t, EvMsg m)])) ->
  map snd (filter (fun c => fst c =? X) (completed_msgs (fst (feed_all now pst0 chunks)))) = [concat bodies] /\
  snd (feed_all now pst0 chunks) = repeat None (length chunks).
Proof. exact segmentation_exact. Qed.
Print Assumptions C05_segmentation_exact.

(* on unfragmented traffic the bookkeeping is the identity: every message of the read is delivered
   as unpack extracted it, nothing is flagged complete, the transfer table is untouched (any state) *)
Theorem C05_unfragmented_identity : forall now ms s, Forall (fun rm => m_sum (snd rm) = 0) ms ->
  cp_loop now s ms = (s, map (fun rm => {| p_raw := fst rm; p_msg := snd rm; p_complete := false |}) ms).
Proof. exact cp_loop_unfragmented. Qed.
Print Assumptions C05_unfragmented_identity.
(* the same at parse level: with no transfer pending, a read whose extracted messages are all
   unfragmented delivers exactly unpack's messages, returns unpack's error, and the transfer table
   stays empty (expiry pass, loop and housekeeping are the identity) *)
Theorem C05_parse_unfragmented : forall now st d, ps_x st = [] ->
  Forall (fun rm => m_sum (snd rm) = 0) (u_msgs (unpack (ps_hist st) d)) ->
  parse now st d =
  ({| ps_hist := u_hist (unpack (ps_hist st) d); ps_x := [] |},
   map (fun rm => {| p_raw := fst rm; p_msg := snd rm; p_complete := false |}) (u_msgs (unpack (ps_hist st) d)),
   u_err (unpack (ps_hist st) d)).
Proof. exact parse_unfragmented. Qed.
Print Assumptions C05_parse_unfragmented.
(* a decoded frame without the fragment bit is such a message *)
Theorem C05_unfragmented_decoded : forall d m, decode d = Ok m -> m_frag m = 0 -> m_sum m = 0.
Proof. exact decode_unfragmented_sum. Qed.
Print Assumptions C05_unfragmented_decoded.

(* end to end, default configuration (sub-packages filtered from handlers until complete): the
   messages of a connection ms = packet 1 of the transfer followed by anything C05_exact allows,
   processed by the loop of parse (from a state on which the expiry pass has acted) and handed to
   the reader loop of Model/Reply.v (C06: lookup of the handler, onReadExecutionEvent with the
   hasComplete filter, channel sends; ANY schedule of reader and writer moves that lets the reader
   finish): TerminalEventer.OnReadExecutionEvent is called for sub-packaged messages of id X exactly
   once, with the concatenation of the packet bodies.  (X has a default handler and is not 0x8003;
   for an id without handler every packet goes to OnNotSupportedEvent: Reply.read_report.)
   Composition of C05_exact, C05_parse_is_run and C06_callbacks_read. *)
Theorem C05_handlers_see_exactly_one : forall X bodies s0 now raw1 p1 rest l1 t m l2 sched,
  bodies <> [] -> Forall nonempty bodies -> wf s0 -> delete_timeout now s0 = s0 ->
  Reply.std_registered X = true -> X <> Reply.REISSUE ->
  good_pkt X (len bodies) bodies p1 -> m_no p1 = 1 ->
  let ms := (raw1, p1) :: rest in
  let evs := map (fun rm => (now, EvMsg (snd rm))) ms in
  Forall (fun te => ev_ok X (len bodies) bodies (snd te)) (tl evs) ->
  evs = l1 ++ (t, EvMsg m) :: l2 ->
  ~ covers (len bodies) (numbers X (len bodies) l1) ->
  covers (len bodies) (numbers X (len bodies) (l1 ++ [(t, EvMsg m)])) ->
  let ds := map dmsg_of (snd (cp_loop now s0 ms)) in
  Reply.reader_done (Reply.final (Reply.init ds) sched) = true ->
  handler_bodies X (Reply.reader_obs (Reply.trace (Reply.init ds) sched)) = [concat bodies].
Proof. exact handlers_see_exactly_one. Qed.
Print Assumptions C05_handlers_see_exactly_one.

(* non-vacuity: id 0x0801, three packets, arrival 1,3,(heartbeat),(end of read),3,(number 0),
   (number 4),(packet 2 of another id),2,3 - delivered once, at the packet numbered 2 *)
Definition ex_pkt (id sum no serial : N) (body : list N) : msg :=
  {| m_id := id; m_len := len body; m_enc := 0; m_frag := (if sum =? 0 then 0 else 1); m_ver := 0;
     m_bcd := [1; 35; 69; 103; 137; 1]; m_serial := serial; m_sum := sum; m_no := no;
     m_body := body; m_check := 0 |}.
Definition ex_bodies : list (list N) := [[1; 2]; [126]; [3; 4; 5]].
Definition ex_rest : list (N * event) :=
  [(10, EvMsg (ex_pkt 2049 3 3 12 [3; 4; 5])); (10, EvMsg (ex_pkt 2 0 0 13 [])); (10, EvEnd);
   (4000, EvMsg (ex_pkt 2049 3 3 14 [3; 4; 5])); (4000, EvMsg (ex_pkt 2049 3 0 15 [9]));
   (4000, EvMsg (ex_pkt 2049 3 4 16 [9])); (4000, EvMsg (ex_pkt 512 2 2 17 [7])); (4000, EvEnd);
   (59000, EvMsg (ex_pkt 2049 3 2 18 [126])); (59000, EvMsg (ex_pkt 2049 3 3 19 [3; 4; 5])); (59000, EvEnd)].

Example C05_example_hypotheses :
  ex_bodies <> [] /\ Forall nonempty ex_bodies /\ good_pkt 2049 (len ex_bodies) ex_bodies (ex_pkt 2049 3 1 11 [1; 2]) /\
  Forall (ok_after 2049 ex_bodies 0) ex_rest.
Proof.
  split. discriminate. split. repeat constructor; discriminate. split.
  - unfold good_pkt. cbn. repeat split; try reflexivity; discriminate.
  - unfold ex_rest.
    repeat (apply Forall_cons; [split; [vm_compute; discriminate|cbn [snd ev_ok]]|]); try apply Forall_nil;
      first [ exact I
            | left; left; reflexivity
            | left; right; cbn; discriminate
            | right; left; unfold good_pkt; cbn; repeat split; try reflexivity; discriminate
            | right; right; unfold bad_pkt; cbn; repeat split; try discriminate; first [now left | right; reflexivity] ].
Qed.

Example C05_example_run :
  completions 2049 (snd (run [] ((0, EvMsg (ex_pkt 2049 3 1 11 [1; 2])) :: ex_rest))) = [(9%nat, [1; 2; 126; 3; 4; 5])].
Proof. vm_compute. reflexivity. Qed.

(* two transfers (ids 0x0801 and 0x0200) interleaved: both complete, each once *)
Example C05_example_two_transfers :
  let evs := [(0, EvMsg (ex_pkt 2049 2 1 1 [1])); (0, EvMsg (ex_pkt 512 2 1 2 [7])); (0, EvEnd);
              (5, EvMsg (ex_pkt 512 2 2 3 [8])); (5, EvMsg (ex_pkt 2049 2 2 4 [2])); (5, EvEnd)] in
  completions 2049 (snd (run [] evs)) = [(4%nat, [1; 2])] /\ completions 512 (snd (run [] evs)) = [(3%nat, [7; 8])].
Proof. vm_compute. split; reflexivity. Qed.

(* C05_segmentation on a concrete stream: two packets of a transfer as frames (Frame.encode cannot
   produce a fragmented frame, so they are written out), cut in the middle of the first frame and
   one byte into the second: the hypotheses hold and the reassembled message comes out *)
Definition ex_frame (no : N) (body : list N) : list N :=
  let q := [8; 1; 32; len body; 1; 35; 69; 103; 137; 1; 0; no; 0; 2; 0; no] ++ body in escape (q ++ [xor_all q]).
Definition ex_fs : list (list N) := [ex_frame 1 [65; 126]; ex_frame 2 [125; 66]].
Definition ex_chunks : list (list N) :=
  [firstn 9 (concat ex_fs); firstn 14 (skipn 9 (concat ex_fs)); skipn 23 (concat ex_fs)].
Example C05_example_segmentation :
  Forall vframe ex_fs /\ concat ex_chunks = concat ex_fs /\
  completed_msgs (fst (feed_all 0 pst0 ex_chunks)) = [(2049, [65; 126; 125; 66])] /\
  map (fun p => p_complete p) (fst (feed_all 0 pst0 ex_chunks)) = [false; false; true].
Proof.
  split. { repeat constructor; apply vframeb_spec; vm_compute; reflexivity. }
  vm_compute. repeat split; reflexivity.
Qed.

(* the split hypotheses of C05_exact on the example history: the event at position 9 (packet 2 at
   59 s) is the one that brings the last missing number *)
Example C05_example_split :
  let evs := (0, EvMsg (ex_pkt 2049 3 1 11 [1; 2])) :: ex_rest in
  let l1 := firstn 9 evs in
  evs = l1 ++ (59000, EvMsg (ex_pkt 2049 3 2 18 [126])) :: skipn 10 evs /\
  ~ covers 3 (numbers 2049 3 l1) /\
  covers 3 (numbers 2049 3 (l1 ++ [(59000, EvMsg (ex_pkt 2049 3 2 18 [126]))])).
Proof.
  cbv zeta. split. reflexivity. split.
  - intros H. specialize (H 2). vm_compute in H.
    assert (C : 1 = 2 \/ 3 = 2 \/ 3 = 2 \/ False) by (apply H; split; discriminate).
    destruct C as [C|[C|[C|[]]]]; discriminate.
  - intros k Hk. assert (K : k = 1 \/ k = 2 \/ k = 3) by lia.
    destruct K as [K|[K|K]]; subst k; vm_compute; tauto.
Qed.

(* C05_never_early on an incomplete set: packets 1 and 3 of 3, duplicates, a bad number: nothing *)
Example C05_example_incomplete :
  let evs := [(0, EvMsg (ex_pkt 2049 3 1 11 [1; 2])); (10, EvMsg (ex_pkt 2049 3 3 12 [3; 4; 5])); (10, EvEnd);
              (4000, EvMsg (ex_pkt 2049 3 3 14 [3; 4; 5])); (4000, EvMsg (ex_pkt 2049 3 0 15 [9])); (4000, EvEnd)] in
  completions 2049 (snd (run [] evs)) = [] /\ map fst (fst (run [] evs)) = [2049].
Proof. vm_compute. split; reflexivity. Qed.

(* C05_segmentation_timed: the stream of C05_example_segmentation with its three reads at 0, 7 and
   27 s: no_expiry holds (all within 60 s) and the loop delivers the same messages, read by read
   0, 1 (packet 1) and 2 (packet 2 and the completed message) *)
Example C05_example_timed :
  let reads := [(0, nth 0 ex_chunks []); (7000, nth 1 ex_chunks []); (27000, nth 2 ex_chunks [])] in
  no_expiry pst0 reads /\
  map (fun p => p_complete p) (concat (owns_timed pst0 reads)) = [false; false; true] /\
  map (fun r => length (snd (fst r))) (feed_timed pst0 reads) = [0%nat; 1%nat; 2%nat].
Proof.
  cbv zeta. split.
  - apply (C05_no_expiry_within_60s 0). repeat constructor; cbn [fst]; vm_compute; discriminate.
  - vm_compute. split; reflexivity.
Qed.

(* C05_handlers_see_exactly_one on a concrete connection: two packets of 0x0801 and a heartbeat
   through the loop of parse and the sequential schedule of the reader / writer model: the reader
   finishes and OnReadExecutionEvent sees the sub-packaged id once, with the whole body *)
Example C05_example_handlers :
  let ms := [([], ex_pkt 2049 2 1 1 [1]); ([], ex_pkt 2 0 0 2 []); ([], ex_pkt 2049 2 2 3 [2])] in
  let ds := map dmsg_of (snd (cp_loop 0 [] ms)) in
  Reply.reader_done (Reply.final (Reply.init ds) (Reply.seq_sched ds)) = true /\
  handler_bodies 2049 (Reply.reader_obs (Reply.trace (Reply.init ds) (Reply.seq_sched ds))) = [[1; 2]] /\
  Reply.std_registered 2049 = true.
Proof. vm_compute. repeat split; reflexivity. Qed.

(* C05_segmentation_exact on the stream of C05_example_segmentation: its hypotheses (first message =
   packet 1, the rest allowed by ev_ok, the split at the completing packet) and its conclusion *)
Example C05_example_segmentation_exact :
  let evs := map (fun rm => (0, EvMsg (snd rm))) (map decode_ok ex_fs) in
  let p1 := snd (decode_ok (nth 0 ex_fs [])) in
  let p2 := snd (decode_ok (nth 1 ex_fs [])) in
  let bodies := [[65; 126]; [125; 66]] in
  good_pkt 2049 (len bodies) bodies p1 /\ m_no p1 = 1 /\ hd_error evs = Some (0, EvMsg p1) /\
  Forall (fun te => ev_ok 2049 (len bodies) bodies (snd te)) (tl evs) /\
  evs = [(0, EvMsg p1)] ++ (0, EvMsg p2) :: [] /\
  map snd (filter (fun c => fst c =? 2049) (completed_msgs (fst (feed_all 0 pst0 ex_chunks)))) = [concat bodies] /\
  snd (feed_all 0 pst0 ex_chunks) = repeat None (length ex_chunks).
Proof.
  cbv zeta. split. { unfold good_pkt. vm_compute. repeat split; try reflexivity; discriminate. }
  split. { vm_compute. reflexivity. } split. { vm_compute. reflexivity. }
  split. { vm_compute. constructor; [|constructor]. right. left. unfold good_pkt. repeat split; try reflexivity; discriminate. }
  vm_compute. repeat split; reflexivity.
Qed.

(* C15 — placeholder while the proofs are being built (statements follow) *)
From JT.Base Require Import Prelude.
From JT.Model Require Import Attach.
Theorem C15_init_stage : s_stage init_st = ST_INIT.
Proof. reflexivity. Qed.
Print Assumptions C15_init_stage.

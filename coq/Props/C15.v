(* C15 — attachment upload: files are reassembled byte-exactly.
   Only statements here; every proof is `exact <lemma of Proofs/Attach_proofs.v>`.

   Model: Model/Attach.v — connection.run / PackageProgress.iter / stageStreamData / stageJT808Data /
   the standard data handler, one `run d reads` per connection (d = ActiveSafetyType, reads = the byte
   strings returned by the successive conn.Read calls).  It yields the FileEventer.OnEvent snapshots,
   the bytes written to the socket and the final state.

   Vocabulary (Model/Attach.v, specification side):
     item                 what a terminal sends: I_chunk name offset data | I_frame bytes
     wire d it            its bytes: chunk header as the dialect prescribes (62 bytes; HLJ: length-prefixed
                          name) ++ data, or the control frame itself
     wf_item d it         chunk: name without NUL at the ends, <= 50 bytes (HLJ <= 255), offset and length
                          DWORDs; frame: 7e <non-empty interior without 7e> 7e that Decode accepts (vframe, C04)
     split nm             ANY way of cutting file nm into consecutive non-empty pieces (its content is their
                          concatenation, < 4 GiB); tiles split nm = the (offset, data) pairs of those pieces
     item_of d split it   chunk: it is one of the tiles of its file; 0x1210 frame: announces true sizes
     upload_ok d [] its   decidable: control frames are 0x1210 / 0x1211 / 0x1212 with parsable bodies, chunks and
                          completion reports (0x1212) belong to files announced earlier.  Order, repetition (resent chunks, repeated
                          control frames, re-announcements), interleaving of files: arbitrary.
     reads                ANY list of byte strings whose concatenation is the stream (empty reads included).
   Names, alarm ids, file contents range over arbitrary bytes (marker 30 31 63 64 and 7e included: a
   control frame is a vframe whatever its payload; chunk data is unconstrained). *)
From JT.Base Require Import Prelude.
From JT.Model Require Import Frame Ranges Unpack Attach.
From JT.Proofs Require Import Attach_proofs.
From JT.Proofs Require Frame_proofs.

(* Whenever ANY OnEvent snapshot shows a file whose CurrentSize equals its FileSize ("reported
   complete"), its StreamBody is the original content, byte for byte; FileSize is always the true size. *)
Theorem C15_bytes_exact : forall d split its reads evs w sf,
  split_ok split -> Forall (wf_item d) its -> Forall (item_of d split) its -> upload_ok d [] its = true ->
  concat reads = concat (map (Attach.wire d) its) -> run d reads = (evs, w, sf) ->
  forall e nm pk, In e evs -> afind name_eqb nm (e_files e) = Some pk ->
    p_size pk = len (content split nm) /\ (p_cur pk = p_size pk -> p_body pk = content split nm).
Proof. exact bytes_exact_upload. Qed.
Print Assumptions C15_bytes_exact.

(* A file is complete exactly when every tile of it has arrived since it was (last) announced - not one
   byte fewer (a resent chunk counts once), not one chunk more.  This theorem is about the state the connection
   ends in; C15_complete_iff_every_event below is the same for every OnEvent snapshot. *)
Theorem C15_complete_iff_all_bytes : forall d split its reads evs w sf,
  split_ok split -> Forall (wf_item d) its -> Forall (item_of d split) its -> upload_ok d [] its = true ->
  concat reads = concat (map (Attach.wire d) its) -> run d reads = (evs, w, sf) ->
  forall nm pk, afind name_eqb nm (s_record sf) = Some pk ->
  (p_cur pk = p_size pk <-> forall t, In t (tiles split nm) -> In t (arrived d nm [] its)).
Proof. exact complete_iff_upload. Qed.
Print Assumptions C15_complete_iff_all_bytes.

(* Two segmentations of the same stream give the same events (up to the count of bytes still buffered
   at the event, which is a property of the read, not of the upload), the same bytes on the socket and
   the same final state. *)
Theorem C15_segmentation_independent : forall d its reads1 reads2,
  Forall (wf_item d) its -> upload_ok d [] its = true ->
  concat reads1 = concat (map (Attach.wire d) its) -> concat reads2 = concat (map (Attach.wire d) its) ->
  obs (run d reads1) = obs (run d reads2).
Proof. exact segmentation_upload. Qed.
Print Assumptions C15_segmentation_independent.

(* ... namely those of the item-by-item run: one event per item (+ the final one), whatever the reads *)
Theorem C15_segmentation : forall d its sts reads,
  Forall (wf_item d) its -> irun d init_st its = Some sts ->
  concat reads = concat (map (Attach.wire d) its) ->
  exists evs, run d reads = (evs, concat (map wr sts), quit (last sts init_st)) /\
              map strip evs = map (fun x => strip (snapshot x)) sts ++ [strip (snapshot (quit (last sts init_st)))].
Proof. exact segmentation. Qed.
Print Assumptions C15_segmentation.

(* ... and at every moment: the k-th OnEvent snapshot (the one after the k-th item) shows a file complete exactly
   when every tile of it is among the first k+1 items, since its last announcement *)
Theorem C15_complete_iff_every_event : forall d split its reads evs w sf k e,
  split_ok split -> Forall (wf_item d) its -> Forall (item_of d split) its -> upload_ok d [] its = true ->
  concat reads = concat (map (Attach.wire d) its) -> run d reads = (evs, w, sf) ->
  nth_error evs k = Some e -> (k < length its)%nat ->
  forall nm pk, afind name_eqb nm (e_files e) = Some pk ->
  (p_cur pk = p_size pk <-> forall t, In t (tiles split nm) -> In t (arrived d nm [] (firstn (S k) its))).
Proof. exact complete_iff_every_event_upload. Qed.
Print Assumptions C15_complete_iff_every_event.

Theorem C15_events_are_prefix_states : forall d k its s sts, irun d s its = Some sts ->
  irun d s (firstn k its) = Some (firstn k sts).
Proof. exact irun_firstn. Qed.
Print Assumptions C15_events_are_prefix_states.

(* The bytes written to the socket are exactly one prescribed answer per control frame, in order, with
   platform serials 0, 1, 2, ... (mod 65536) and the header of the first message; a chunk is answered
   with nothing.  0x1210 / 0x1211 -> 0x8001 (serial, id, result 0); 0x1212 -> 0x9212 carrying the
   retransmit list held by the state after that frame (h_miss; C15_1212_reply_exact: it is
   StatisticalMissSegments of the named file's recorded chunks, i.e. exactly the missing ranges). *)
Theorem C15_control_replied_once : forall d its reads evs w sf,
  Forall (wf_item d) its -> upload_ok d [] its = true ->
  concat reads = concat (map (Attach.wire d) its) -> run d reads = (evs, w, sf) ->
  exists sts, irun d init_st its = Some sts /\
    w = concat (replies_spec (first_header its) 0 its sts) /\
    length (replies_spec (first_header its) 0 its sts) =
    length (filter (fun it => match it with I_frame _ => true | _ => false end) its).
Proof. exact replied_once_upload. Qed.
Print Assumptions C15_control_replied_once.

Theorem C15_1212_list : forall d s f s', vframe f -> Attach.step d (set_hist s f) = O_ok s' ->
  forall m t pk, decode f = Ok m -> m_id m = ID_1212 -> parse1211 (m_body m) = Ok t ->
  afind name_eqb (f_name t) (s_record s) = Some pk ->
  h_miss s' = miss_segments (p_size pk) (p_cur pk) (p_recs pk) /\ s_record s' = s_record s.
Proof. exact frame_miss. Qed.
Print Assumptions C15_1212_list.

(* THE LINK TO C16.  In every OnEvent snapshot of every run of an upload, for every announced file: the recorded
   (offset, length) pairs (Package.OffsetRecord) are pairwise disjoint, non-empty and inside the file - C16's
   chunks_ok - and CurrentSize is their total - the instantiation C16 makes.  (A zero-length chunk is not a tile
   of any split, so it is outside an upload; the server accepts one and then reports two adjacent ranges instead of
   one maximal range: finding C15/zero-length-chunk.) *)
Theorem C15_recorded_chunks_ok : forall d split its reads evs w sf,
  split_ok split -> Forall (wf_item d) its -> Forall (item_of d split) its -> upload_ok d [] its = true ->
  concat reads = concat (map (Attach.wire d) its) -> run d reads = (evs, w, sf) ->
  forall e nm pk, In e evs -> afind name_eqb nm (e_files e) = Some pk ->
    chunks_ok (p_size pk) (p_recs pk) /\ p_cur pk = sum_len (p_recs pk) /\ p_size pk < 4294967296.
Proof. exact recorded_chunks_ok_upload. Qed.
Print Assumptions C15_recorded_chunks_ok.

(* THE 0x9212 ANSWER IS EXACT.  When the i-th item of an upload is a 0x1212, the file it names is in the Record
   and the state s' after it holds as retransmit list - which is what the answer written to the socket carries
   (C15_control_replied_once: prescribed ... (h_miss s')) - StatisticalMissSegments of the recorded chunks; by
   C16_exact (Proofs/Ranges_proofs.miss_exact) that list is strictly ascending, maximal, inside the file, covers
   exactly the bytes no received chunk covers, and its total is what is missing.  This is C16 over the socket path. *)
Theorem C15_1212_reply_exact : forall d split its sts i f m t s',
  split_ok split -> Forall (wf_item d) its -> Forall (item_of d split) its -> upload_ok d [] its = true ->
  irun d init_st its = Some sts ->
  nth_error its i = Some (I_frame f) -> decode f = Ok m -> m_id m = ID_1212 -> parse1211 (m_body m) = Ok t ->
  nth_error sts i = Some s' ->
  exists pk, afind name_eqb (f_name t) (s_record s') = Some pk /\
  let size := p_size pk in let recs := p_recs pk in
  let g := miss_segments size (sum_len recs) recs in
  h_miss s' = g /\ size = len (content split (f_name t)) /\ chunks_ok size recs /\
  sorted_maximal g /\ (forall x, covered g x -> x < size) /\
  (forall x, x < size -> (covered g x <-> ~ covered recs x)) /\ sum_len g + sum_len recs = size.
Proof. exact reply_1212_exact_upload. Qed.
Print Assumptions C15_1212_reply_exact.

(* THE RECORD IS WHAT ARRIVED.  In the state after the k-th item of an upload, a file's OffsetDataRecord holds exactly
   the tiles (offset, data) of that file among the first k+1 items since the file was last announced - so "missing"
   in C15_1212_reply_exact is relative to what the terminal sent: a byte is covered by the recorded ranges exactly
   when it lies in a tile that has arrived *)
Theorem C15_record_is_arrived : forall d split its sts k s',
  split_ok split -> Forall (wf_item d) its -> Forall (item_of d split) its ->
  irun d init_st its = Some sts -> nth_error sts k = Some s' ->
  forall nm pk, afind name_eqb nm (s_record s') = Some pk ->
  forall x, In x (p_data pk) <-> In x (arrived d nm [] (firstn (S k) its)).
Proof. exact record_is_arrived. Qed.
Print Assumptions C15_record_is_arrived.

Theorem C15_recorded_covers_arrived : forall d split its sts k s',
  split_ok split -> Forall (wf_item d) its -> Forall (item_of d split) its ->
  irun d init_st its = Some sts -> nth_error sts k = Some s' ->
  forall nm pk, afind name_eqb nm (s_record s') = Some pk ->
  forall x, covered (p_recs pk) x <->
            exists off data, In (off, data) (arrived d nm [] (firstn (S k) its)) /\ off <= x < off + len data.
Proof. exact recorded_covers_arrived. Qed.
Print Assumptions C15_recorded_covers_arrived.

(* the bytes of the answer to a 0x1212 (an element of replies_spec, C15_control_replied_once): Header.Encode of the
   first message's header with id 0x9212, the platform serial, and T0x1212.ReplyBody of the list of
   C15_1212_reply_exact.  Frame.encode is the code's encoder AS IS: the body length is written unmasked, so a list of
   127 or more ranges (body over 1023 bytes) spills into the flag bits and the frame cannot be decoded - the
   coordinator's C16 finding; the model carries those bytes *)
(* (C15_1212_frame_bytes is the definitional unfolding of `prescribed` for a 0x1212; C15_1212_written below composes
   it with the run) *)
Theorem C15_1212_frame_bytes : forall hd m k miss t, m_id m = ID_1212 -> parse1211 (m_body m) = Ok t ->
  prescribed hd m k miss = encode hd ID_9212 k (reply1212 t miss).
Proof. exact prescribed_1212. Qed.
Print Assumptions C15_1212_frame_bytes.

(* the bytes the model WRITES (wr = what goes to conn.Write) in the state after the i-th item of an upload, when that
   item is a 0x1212: Header.Encode of the header the handler keeps (the first message's; m itself when this is the first),
   id 0x9212, the platform serial the handler had reached, ReplyBody of exactly the missing ranges of the recorded chunks *)
Theorem C15_1212_written : forall d split its sts i f m t s',
  split_ok split -> Forall (wf_item d) its -> Forall (item_of d split) its -> upload_ok d [] its = true ->
  irun d init_st its = Some sts ->
  nth_error its i = Some (I_frame f) -> decode f = Ok m -> m_id m = ID_1212 -> parse1211 (m_body m) = Ok t ->
  nth_error sts i = Some s' ->
  exists pk, afind name_eqb (f_name t) (s_record s') = Some pk /\
  let prev := before init_st sts i in
  wr s' = encode (match h_head prev with Some x => x | None => m end) ID_9212 (h_seq prev)
                 (reply1212 t (miss_segments (p_size pk) (sum_len (p_recs pk)) (p_recs pk))).
Proof. exact written_1212. Qed.
Print Assumptions C15_1212_written.

(* FOR C19: whatever bytes arrive in whatever reads, the RecentTerminalMessage the connection ends with (its phone number
   names the directory the default file handler stores under) was produced by Frame.decode, so its BCD phone field
   consists of 6 or 10 bytes *)
Theorem C15_recent_message_decoded : forall d reads m, Forall bytes reads ->
  s_recent (snd (run d reads)) = Some m -> Frame_proofs.decoded_header m.
Proof. exact run_recent_decoded. Qed.
Print Assumptions C15_recent_message_decoded.
Theorem C15_recent_phone_bytes : forall d reads m, Forall bytes reads ->
  s_recent (snd (run d reads)) = Some m -> bytes (m_bcd m) /\ m_bcd m <> [].
Proof. exact run_recent_phone. Qed.
Print Assumptions C15_recent_phone_bytes.

(* the hypothesis "irun ... = Some sts" of C15_segmentation is what upload_ok guarantees *)
Theorem C15_upload_accepted : forall d its s known, Forall (wf_item d) its -> upload_ok d known its = true ->
  (forall nm, In nm known -> afind name_eqb nm (s_record s) <> None) ->
  exists sts, irun d s its = Some sts.
Proof. exact upload_accepted. Qed.
Print Assumptions C15_upload_accepted.

(* a control frame / a chunk at the head of the buffer is recognised as such whatever follows it and
   whatever it contains; a proper prefix of either waits for more data, it is never a fatal error
   (C15_prefix_waits); the loop over the buffer is never stopped by its fuel (C15_fuel_irrelevant) *)
Theorem C15_prefix_waits : forall d it p x, wf_item d it -> p ++ x = Attach.wire d it -> x <> [] -> p <> [] ->
  lex d p = L_more.
Proof. exact prefix_waits. Qed.
Print Assumptions C15_prefix_waits.
Theorem C15_fuel_irrelevant : forall d f1 f2 s, (length (s_hist s) < f1)%nat -> (length (s_hist s) < f2)%nat ->
  Attach.iter f1 d s = Attach.iter f2 d s.
Proof. exact iter_fuel. Qed.
Print Assumptions C15_fuel_irrelevant.
Theorem C15_frame_recognised : forall d f rest, vframe f -> lex d (f ++ rest) = L_frame (len f).
Proof. exact lex_frame. Qed.
Print Assumptions C15_frame_recognised.
Theorem C15_chunk_recognised : forall d nm off data rest, wf_item d (I_chunk nm off data) ->
  lex d (Attach.wire d (I_chunk nm off data) ++ rest) =
  L_chunk (len (chunk_head d nm off (len data))) nm off (len data).
Proof. exact lex_chunk. Qed.
Print Assumptions C15_chunk_recognised.

Theorem C15_wf_decidable : forall d it, wf_itemb d it = true -> wf_item d it.
Proof. exact wf_itemb_spec. Qed.
Print Assumptions C15_wf_decidable.

(* ---------------- non-vacuity: a concrete two-file upload ---------------- *)
(* terminal 012345678901, 2013 header; dialect 1; the alarm id region of the 0x1210 body holds the
   chunk marker 30 31 63 64; file "A" = 01 02 03 04 05 sent as 2 + 3 bytes (second piece first, then
   resent), file "B" = 7e sent whole *)
Definition ex_hdr : msg :=
  {| m_id := 0; m_len := 0; m_enc := 0; m_frag := 0; m_ver := 0; m_bcd := [1; 35; 69; 103; 137; 1];
     m_serial := 0; m_sum := 0; m_no := 0; m_body := []; m_check := 0 |}.
Definition ex_1210 : list N :=
  encode ex_hdr ID_1210 1 (MARKER ++ repeat 48 51 ++ [0; 2] ++ [1; 65] ++ be_enc 4 5 ++ [1; 66] ++ be_enc 4 1).
Definition ex_1211 : list N := encode ex_hdr ID_1211 2 ([1; 65; 0] ++ be_enc 4 5).
Definition ex_1212 (nm : N) (sz : N) (ser : N) : list N := encode ex_hdr ID_1212 ser ([1; nm; 0] ++ be_enc 4 sz).
Definition ex_split (nm : name) : list (list N) :=
  if list_eqb nm [65] then [[1; 2]; [3; 4; 5]] else if list_eqb nm [66] then [[126]] else [].
Definition ex_items : list item :=
  [I_frame ex_1210; I_frame ex_1211; I_chunk [65] 2 [3; 4; 5]; I_frame (ex_1212 65 5 3);
   I_chunk [65] 0 [1; 2]; I_chunk [65] 2 [3; 4; 5]; I_frame (ex_1212 65 5 4);
   I_chunk [66] 0 [126]; I_frame (ex_1212 66 1 5)].
Definition ex_stream : list N := concat (map (Attach.wire 1) ex_items).

Example C15_ex_split_ok : split_ok ex_split.
Proof.
  intros nm. unfold content, ex_split. destruct (list_eqb nm [65]). split. repeat constructor; discriminate. reflexivity.
  destruct (list_eqb nm [66]). split. repeat constructor; discriminate. reflexivity.
  split. constructor. reflexivity.
Qed.
Example C15_ex_wf : Forall (wf_item 1) ex_items.
Proof.
  unfold ex_items. repeat (apply Forall_cons; [apply wf_itemb_spec; vm_compute; reflexivity|]). apply Forall_nil.
Qed.
Example C15_ex_upload_ok : upload_ok 1 [] ex_items = true.
Proof. vm_compute. reflexivity. Qed.
Example C15_ex_item_of : Forall (item_of 1 ex_split) ex_items.
Proof.
  unfold ex_items.
  repeat (apply Forall_cons;
    [first [ solve [vm_compute; tauto]
           | match goal with |- item_of _ _ (I_frame ?f) =>
               unfold item_of; let a := eval vm_compute in (announced 1 f) in
               change (announced 1 f) with a end; repeat (apply Forall_cons; [reflexivity|]); apply Forall_nil ]|]).
  apply Forall_nil.
Qed.
(* fed whole, byte by byte, and cut in the middle of the first chunk header: the same observables;
   the first 0x1212 is answered with "retransmit 0..2", the second with "complete"; at the end both
   files are complete with their original content *)
Example C15_ex_runs :
  let whole := run 1 [ex_stream] in
  let bytewise := run 1 (map (fun b => [b]) ex_stream) in
  let odd := run 1 [firstn 150 ex_stream; skipn 150 ex_stream] in
  obs whole = obs bytewise /\ obs whole = obs odd /\
  map e_stage (fst (fst whole)) = [1; 2; 3; 4; 5; 5; 6; 5; 6; 7] /\
  map (fun r => (fst r, p_cur (snd r), p_body (snd r))) (s_record (snd whole)) =
    [([65], 5, [1; 2; 3; 4; 5]); ([66], 1, [126])].
Proof. vm_compute. repeat split; reflexivity. Qed.

(* the length-prefixed HLJ header with a 250-byte name: header length 4+1+250+4+4 = 263 (beyond a byte) *)
Example C15_ex_hlj_long_name :
  lex 2 (Attach.wire 2 (I_chunk (repeat 65 250) 7 [1; 2; 3]) ++ [48; 49]) = L_chunk 263 (repeat 65 250) 7 3.
Proof. vm_compute. reflexivity. Qed.

(* the first 0x1212 of the example (item 3; only the piece at offset 2 has arrived) is answered with the list
   [(0, 2)], the second one (item 6) with the empty list *)
Example C15_ex_1212_lists :
  match irun 1 init_st ex_items with
  | Some sts => map h_miss [nth 3 sts init_st; nth 6 sts init_st] = [[(0, 2)]; []]
  | None => False
  end.
Proof. vm_compute. reflexivity. Qed.

(* the conclusions of C15_recorded_chunks_ok on the example: after every item both files' records are disjoint,
   non-empty, in range, and CurrentSize is their total (computed) *)
Example C15_ex_records_sum :
  match irun 1 init_st ex_items with
  | Some sts => forallb (fun s => forallb (fun r => (p_cur (snd r) =? sum_len (p_recs (snd r))) &&
                                                     forallb (fun g => (0 <? snd g) && (fst g + snd g <=? p_size (snd r))) (p_recs (snd r)))
                                          (s_record s)) sts = true
  | None => False
  end.
Proof. vm_compute. reflexivity. Qed.

(* what the server does with a zero-length chunk (finding C15/zero-length-chunk): the record (5, 0) cuts the missing
   range of an empty 10-byte file in two adjacent ranges *)
Example C15_zero_length_record : miss_segments 10 0 [(5, 0)] = [(0, 5); (5, 5)].
Proof. vm_compute. reflexivity. Qed.

(* end to end under the HLJ dialect (d = 2: no terminal id in 0x1210, length-prefixed chunk header): one file "A" = 07 08 09
   sent as 1 + 2 bytes, second piece first; whole and byte by byte give the same observables, the file ends complete *)
Definition ex_1210_hlj : list N := encode ex_hdr ID_1210 1 (repeat 48 70 ++ [0; 1] ++ [1; 65] ++ be_enc 4 3).
Definition ex_items_hlj : list item :=
  [I_frame ex_1210_hlj; I_chunk [65] 1 [8; 9]; I_frame (ex_1212 65 3 2); I_chunk [65] 0 [7]; I_frame (ex_1212 65 3 3)].
Example C15_ex_hlj :
  let stream := concat (map (Attach.wire 2) ex_items_hlj) in
  upload_ok 2 [] ex_items_hlj = true /\ forallb (wf_itemb 2) ex_items_hlj = true /\
  obs (run 2 [stream]) = obs (run 2 (map (fun b => [b]) stream)) /\
  map e_stage (fst (fst (run 2 [stream]))) = [1; 3; 4; 5; 6; 7] /\
  map (fun r => (fst r, p_cur (snd r), p_body (snd r))) (s_record (snd (run 2 [stream]))) = [([65], 3, [7; 8; 9])].
Proof. vm_compute. repeat split; reflexivity. Qed.

(* C15_1212_written on the example: the bytes written for the first 0x1212 (item 3) are the 0x9212 frame with serial 2
   (third answer) carrying "retransmit (0, 2)" *)
Example C15_ex_1212_written :
  match irun 1 init_st ex_items, decode (ex_1212 65 5 3) with
  | Some sts, Ok m =>
    match parse1211 (m_body m), decode ex_1210 with
    | Ok t, Ok hd => wr (nth 3 sts init_st) = encode hd ID_9212 2 (reply1212 t [(0, 2)])
    | _, _ => False
    end
  | _, _ => False
  end.
Proof. vm_compute. reflexivity. Qed.

(* C07 — message body round trip for every two-way message type, and the helpers they are built from.
   Only statements here; every proof is `exact <lemma of Proofs/ or Base/Fmt.v>`.

   Reading guide.  A message model [m : msg] (Model/Msg_*.v) is an encoder [m_enc m : val -> list N], a parser
   [m_dec m : list N -> result val] and its domain [m_wf m : val -> bool]; [val] is the tuple of the exported
   Go fields in declaration order (numbers, byte strings, nested tuples) - the canonical dump the harness
   prints for the real value, so the extracted model and the real code are compared field by field.
   [m_wf] is the property's domain: numbers within their width, fixed-width strings that fit and have no
   trailing NUL, "20YY-MM-DD hh:mm:ss" timestamps of decimal digits, length / count fields equal to the
   length of their string / list, constant fields (Version, dialect) holding their constant.

   [roundtrip m] below is the property for one type, spelled out: parsing the encoded body yields the original
   value, and re-encoding what was parsed yields identical bytes. *)
From JT.Base Require Import Prelude Fmt.
From JT.Model Require Import Msg_simple Msg_text Params Msg_location Msg_all.
From JT.Proofs Require Import Msg_simple_proofs Msg_helpers_proofs Msg_text_proofs Msg_params_proofs Msg_location_proofs Msg_all_proofs Msg_inj_proofs.

Notation roundtrip m :=
  (forall v, m_wf m v = true ->
     m_dec m (m_enc m v) = Ok v /\
     (forall v', m_dec m (m_enc m v) = Ok v' -> m_enc m v' = m_enc m v)) (only parsing).

(* ---- fixed layouts *)
Theorem C07_0001_roundtrip : roundtrip m_0001. Proof. exact (law_of_ok _ m_0001_ok). Qed.
Print Assumptions C07_0001_roundtrip.
Theorem C07_8001_roundtrip : roundtrip m_8001. Proof. exact (law_of_ok _ m_8001_ok). Qed.
Print Assumptions C07_8001_roundtrip.
(* T0x0002, P0x8104, P0x9003: the empty body *)
Theorem C07_empty_roundtrip : roundtrip m_empty. Proof. exact (law_of_ok _ m_empty_ok). Qed.
Print Assumptions C07_empty_roundtrip.
Theorem C07_0800_roundtrip : roundtrip m_0800. Proof. exact (law_of_ok _ m_0800_ok). Qed.
Print Assumptions C07_0800_roundtrip.
Theorem C07_1003_roundtrip : roundtrip m_1003. Proof. exact (law_of_ok _ m_1003_ok). Qed.
Print Assumptions C07_1003_roundtrip.
Theorem C07_1005_roundtrip : roundtrip m_1005. Proof. exact (law_of_ok _ m_1005_ok). Qed.
Print Assumptions C07_1005_roundtrip.
Theorem C07_1206_roundtrip : roundtrip m_1206. Proof. exact (law_of_ok _ m_1206_ok). Qed.
Print Assumptions C07_1206_roundtrip.
Theorem C07_8801_roundtrip : roundtrip m_8801. Proof. exact (law_of_ok _ m_8801_ok). Qed.
Print Assumptions C07_8801_roundtrip.
Theorem C07_9102_roundtrip : roundtrip m_9102. Proof. exact (law_of_ok _ m_9102_ok). Qed.
Print Assumptions C07_9102_roundtrip.
Theorem C07_9105_roundtrip : roundtrip m_9105. Proof. exact (law_of_ok _ m_9105_ok). Qed.
Print Assumptions C07_9105_roundtrip.
Theorem C07_9202_roundtrip : roundtrip m_9202. Proof. exact (law_of_ok _ m_9202_ok). Qed.
Print Assumptions C07_9202_roundtrip.
Theorem C07_9205_roundtrip : roundtrip m_9205. Proof. exact (law_of_ok _ m_9205_ok). Qed.
Print Assumptions C07_9205_roundtrip.
Theorem C07_9207_roundtrip : roundtrip m_9207. Proof. exact (law_of_ok _ m_9207_ok). Qed.
Print Assumptions C07_9207_roundtrip.

(* ---- counted lists: every list length the count field can express *)
Theorem C07_8003_roundtrip : roundtrip m_8003. Proof. exact (law_of_ok _ m_8003_ok). Qed.
Print Assumptions C07_8003_roundtrip.
Theorem C07_0805_roundtrip : roundtrip m_0805. Proof. exact (law_of_ok _ m_0805_ok). Qed.
Print Assumptions C07_0805_roundtrip.
Theorem C07_1205_roundtrip : roundtrip m_1205. Proof. exact (law_of_ok _ m_1205_ok). Qed.
Print Assumptions C07_1205_roundtrip.
(* P0x8800: the empty retransmit list is the 4-byte body (repaired 9c3f0b5) *)
Theorem C07_8800_roundtrip : roundtrip m_8800. Proof. exact (law_of_ok _ m_8800_ok). Qed.
Print Assumptions C07_8800_roundtrip.
(* P0x9212: name, then count x (offset, length) (stride repaired 6ccfea4) *)
Theorem C07_9212_roundtrip : roundtrip m_9212. Proof. exact (law_of_ok _ m_9212_ok). Qed.
Print Assumptions C07_9212_roundtrip.

(* ---- length-prefixed strings *)
Theorem C07_8100_roundtrip : roundtrip m_8100. Proof. exact (law_of_ok _ m_8100_ok). Qed.
Print Assumptions C07_8100_roundtrip.
Theorem C07_1211_roundtrip : roundtrip m_1211. Proof. exact (law_of_ok _ m_1211_ok). Qed.
Print Assumptions C07_1211_roundtrip.
Theorem C07_1212_roundtrip : roundtrip m_1212. Proof. exact (law_of_ok _ m_1212_ok). Qed.
Print Assumptions C07_1212_roundtrip.
Theorem C07_9101_roundtrip : roundtrip m_9101. Proof. exact (law_of_ok _ m_9101_ok). Qed.
Print Assumptions C07_9101_roundtrip.
Theorem C07_9201_roundtrip : roundtrip m_9201. Proof. exact (law_of_ok _ m_9201_ok). Qed.
Print Assumptions C07_9201_roundtrip.
Theorem C07_9206_roundtrip : roundtrip m_9206. Proof. exact (law_of_ok _ m_9206_ok). Qed.
Print Assumptions C07_9206_roundtrip.

(* ---- header version: both layouts of T0x0102, for every version byte *)
Theorem C07_0102_roundtrip : forall ver, roundtrip (m_0102 ver).
Proof. exact (fun ver => law_of_ok _ (m_0102_ok ver)). Qed.
Print Assumptions C07_0102_roundtrip.

(* ---- dialects: for every value of the dialect byte (five dialects and the default widths).
   The alarm sign's terminal id is read with bytes.Trim on both sides, so the domain of the as-is model
   excludes ids that BEGIN with NUL (recorded finding C07/sign-id-leading-nul, pinned by a golden test)... *)
Theorem C07_9208_partial : forall d, roundtrip (m_9208 d).
Proof. exact (fun d => law_of_ok _ (m_9208_ok d)). Qed.
Print Assumptions C07_9208_partial.
Theorem C07_1210_partial : forall d, roundtrip (m_1210 d).
Proof. exact (fun d => law_of_ok _ (m_1210_ok d)). Qed.
Print Assumptions C07_1210_partial.
(* ... on exactly that class the full statement fails: an in-domain id (7 bytes, no trailing NUL) comes back
   without its first byte ... *)
Theorem C07_refuted_sign_id_leading_nul : exists v,
  m_wf (m_9208_required 1) v = true /\ m_dec (m_9208 1) (m_enc (m_9208 1) v) <> Ok v.
Proof. exact sign_id_leading_nul. Qed.
Print Assumptions C07_refuted_sign_id_leading_nul.
(* ... and the layout the property requires (TrimRight) round-trips on the whole domain *)
Theorem C07_9208_required_roundtrip : forall d, roundtrip (m_9208_required d).
Proof. exact (fun d => law_of_ok _ (m_9208_required_ok d)). Qed.
Print Assumptions C07_9208_required_roundtrip.

(* ---- the location family, as far as its encoders go (the 28-byte block; additional information is never
   written by Encode and is C08's subject).  The domain demands the alarm / status details consistent with their
   words (they are computed by the bit tables of Model/Location.v) and, for T0x0704, at least one item *)
Theorem C07_0200_roundtrip : roundtrip m_0200. Proof. exact (law_of_ok _ m_0200_ok). Qed.
Print Assumptions C07_0200_roundtrip.
Theorem C07_0704_roundtrip : roundtrip m_0704. Proof. exact (law_of_ok _ m_0704_ok). Qed.
Print Assumptions C07_0704_roundtrip.
Theorem C07_0801_roundtrip : roundtrip m_0801. Proof. exact (law_of_ok _ m_0801_ok). Qed.
Print Assumptions C07_0801_roundtrip.

(* ---- text converted by the external GBK codec: for EVERY pair of functions u2g (UTF82GBK) / g2u (GBK2UTF8)
   with g2u (u2g s) = s on the text domain gdom (validated against golang.org/x/text by the harness) *)
(* T0x0100, all three layouts: header version 3 -> 2019; 1 or 2 -> 2013 when the body is longer than 36 bytes,
   else 2011 (whose domain therefore has plates of at most 11 GBK bytes); Encode chooses by the Version field *)
Theorem C07_0100_roundtrip : forall u2g g2u gdom, codec_ok u2g g2u gdom ->
  forall hver, roundtrip (m_0100 u2g g2u gdom hver).
Proof. exact (fun u2g g2u gdom Hc hver => law_of_ok _ (m_0100_ok u2g g2u gdom Hc hver)). Qed.
Print Assumptions C07_0100_roundtrip.

(* ---- terminal parameters: every id of the table (each of the 83 typed ids in its own field, the caseless ids
   0x018 0x019 0x021 and 0x02A 0x02B and any other id as unknown content), any subset, count consistent *)
Theorem C07_params : forall u2g g2u gdom, codec_ok u2g g2u gdom ->
  forall count p, params_wf u2g gdom count p = true ->
  params_parse g2u count (params_encode u2g p) = Ok p.
Proof. exact params_roundtrip. Qed.
Print Assumptions C07_params.
(* the domain of C07_params leaves out the three declared fields parseParam has no case for (0x018 0x019 0x021):
   recorded finding C07/params-caseless-field (0x021 is pinned by a golden test) - the field is written by encode
   and comes back as unknown content *)
Theorem C07_refuted_params_caseless :
  params_encode (fun s => s) caseless_witness = [0; 0; 0; 33; 4; 0; 0; 0; 1] /\
  params_parse (fun s => s) 1 (params_encode (fun s => s) caseless_witness) <> Ok caseless_witness.
Proof. exact params_caseless. Qed.
Print Assumptions C07_refuted_params_caseless.
Theorem C07_8103_roundtrip : forall u2g g2u gdom, codec_ok u2g g2u gdom -> roundtrip (m_8103 u2g g2u gdom).
Proof. exact (fun u2g g2u gdom Hc => law_of_ok _ (m_8103_ok u2g g2u gdom Hc)). Qed.
Print Assumptions C07_8103_roundtrip.

(* ---- whatever model the oracle's registry returns for (message id, header version, dialect) - the models the
   real code is compared with on every run - satisfies the law *)
Theorem C07_registry : forall u2g g2u gdom, codec_ok u2g g2u gdom ->
  forall id ver d m, msg_all u2g g2u gdom id ver d = Some m -> roundtrip m.
Proof. exact (fun u2g g2u gdom Hc id ver d m H => law_of_ok _ (msg_all_ok u2g g2u gdom Hc id ver d m H)). Qed.
Print Assumptions C07_registry.

(* ---- the converse, Encode(Parse(b)) = b: for the 30 models whose parser loses nothing (fixed layouts, counted
   lists, length-prefixed strings, the location block, the 2013 authentication, the required alarm-sign layout), every
   body of bytes that parses to a value of the domain is byte for byte what Encode writes for that value - distinct
   accepted bodies never collapse to one value.  (It is false for the others, for reasons listed in
   Proofs/Msg_inj_proofs.v: trailing bytes ignored, text cut at NUL, Trim on both sides, `id 00` vs `id` in P0x8800,
   free wire order of parameters.) *)
Theorem C07_parse_injective : forall m, In m lossless_models ->
  forall b v, bytes b -> m_dec m b = Ok v -> m_wf m v = true -> m_enc m v = b.
Proof. exact lossless_inj. Qed.
Print Assumptions C07_parse_injective.

(* ---- the helpers *)
(* utils.Time2BCD / BCD2Time: every "20YY-MM-DD hh:mm:ss" of decimal digits <-> six bytes of decimal nibbles *)
Theorem C07_bcd_time : forall t, time_ok t = true ->
  bcd2time (time2bcd t) = t /\ bcd6_ok (time2bcd t) = true.
Proof. exact time2bcd_ok. Qed.
Print Assumptions C07_bcd_time.
Theorem C07_bcd_time_inv : forall b, bcd6_ok b = true ->
  time2bcd (bcd2time b) = b /\ time_ok (bcd2time b) = true.
Proof. exact bcd2time_ok. Qed.
Print Assumptions C07_bcd_time_inv.
(* utils.Bcd2Dec: n bytes of decimal nibbles give the 2n digits without leading zeros (all of them when
   every digit is zero); left-padded with zeros again they pack to the same bytes *)
Theorem C07_bcd_phone : forall b, forallb bcd_byte_ok b = true ->
  time2bcd (pad_zeros (2 * len b) (bcd2dec b)) = b.
Proof. exact bcd_phone. Qed.
Print Assumptions C07_bcd_phone.
(* utils.String2FillingBytes: always n bytes; a string that fits and has no trailing NUL is recovered by
   bytes.TrimRight; a longer one is cut *)
Theorem C07_fill : forall s n,
  len (fill s n) = n /\
  (len s <= n -> no_trail0 s = true -> trim_right0 (fill s n) = s) /\
  (n <= len s -> fill s n = firstn (N.to_nat n) s).
Proof. exact fill_spec. Qed.
Print Assumptions C07_fill.

(* ---- non-vacuity: concrete values inside the domains, and the domain of a fixed layout spelled out *)
Example C07_8001_domain : forall a b c,
  m_wf m_8001 (VL [VN a; VN b; VN c]) = (a <? 65536) && ((b <? 65536) && ((c <? 256) && true)) && true.
Proof. reflexivity. Qed.
Example C07_8003_domain : forall s k l,
  m_wf m_8003 (VL [VN s; VN k; VL l]) =
  (s <? 65536) && ((k <? 256) && (((len l =? k) && forallb (wf vu16) l) && true)) && true.
Proof. reflexivity. Qed.
Example C07_examples :
  m_wf m_8003 (VL [VN 101; VN 3; VL [VN 2; VN 4; VN 5]]) = true /\
  m_enc m_8003 (VL [VN 101; VN 3; VL [VN 2; VN 4; VN 5]]) = [0; 101; 3; 0; 2; 0; 4; 0; 5] /\
  m_wf m_8800 (VL [VN 7; VN 0; VL []]) = true /\ m_enc m_8800 (VL [VN 7; VN 0; VL []]) = [0; 0; 0; 7] /\
  m_wf m_8800 (VL [VN 7; VN 1; VL [VN 9]]) = true /\
  m_wf (m_0102 3) (VL [VN 2; VB [65; 66]; VB (repeat 49 15); VB [86; 49]; VN 3]) = true /\
  m_wf (m_0102 2) (VL [VN 0; VB [65; 66; 0]; VB []; VB []; VN 2]) = true /\
  m_wf m_9212 (VL [VN 1; VB [97]; VN 0; VN 1; VN 2; VL [VL [VN 0; VN 100]; VL [VN 4294967295; VN 1]]]) = true /\
  m_wf (m_9208 5) (VL [VN 1; VB [49]; VN 80; VN 0;
                       VL [VB [65; 0; 66]; VB [50;48;50;52;45;48;49;45;51;49;32;50;51;58;53;57;58;53;57]; VN 1; VN 2; VB [9]; VN 5];
                       VB [120]; VB [1; 2; 3]]) = true /\
  m_wf (m_1210 2) (VL [VB []; VL [VB [65]; VB [50;48;50;52;45;48;49;45;51;49;32;50;51;58;53;57;58;53;57]; VN 1; VN 2; VB []; VN 2];
                       VB [120]; VN 0; VN 2; VL [VL [VN 0; VB []; VN 5]; VL [VN 2; VB [97; 0]; VN 6]]]) = true.
Proof. repeat split; vm_compute; reflexivity. Qed.

(* a parameter set inside the domain (identity codec): heartbeat interval, an APN, one unknown id *)
Example C07_params_example :
  let id_ := fun s : list N => s in
  let p := VL (set_field param_fields (set_field param_fields fresh_fields 1 (VL [VN 1; VN 4; VN 60]))
                 16 (VL [VN 16; VN 3; VB [97; 98; 99]]) ++ [VL [VL [VN 42; VN 2; VB [1; 2]]]]) in
  params_wf id_ (fun _ => true) 3 p = true /\
  params_encode id_ p = [0;0;0;1;4;0;0;0;60; 0;0;0;16;3;97;98;99; 0;0;0;42;2;1;2] /\
  m_wf (m_0100 id_ id_ (fun _ => true) 2)
    (VL [VN 31; VN 115; VB [49]; VB [65; 66]; VB [55]; VN 1; VB [65; 49; 50; 51]; VN 1]) = true.
Proof. repeat split; vm_compute; reflexivity. Qed.

(* a location report inside the domain: alarm bit 0 and status bits 1, 8 set, details as the tables give them *)
Example C07_location_example :
  let blk := VL [VN 1; VN 258; VN 31000000; VN 121000000; VN 10; VN 600; VN 90;
                 VB [50;48;50;52;45;48;49;45;51;49;32;50;51;58;53;57;58;53;57]; aflags_val 1; sflags_val 258] in
  m_wf m_0200 (VL [blk; no_adds]) = true /\
  m_wf m_0704 (VL [VN 2; VN 1; VL [VL [VN 28; blk; no_adds]; VL [VN 28; blk; no_adds]]]) = true /\
  m_wf m_0801 (VL [VN 9; VN 0; VN 0; VN 1; VN 2; blk; VB [255; 216]]) = true /\
  aflags_val 1 = VL (VN 1 :: repeat (VN 0) 31).
Proof. repeat split; vm_compute; reflexivity. Qed.

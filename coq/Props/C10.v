(* C10 — hostile input is contained to its own connection (both servers).
   Only statements here; every proof is `exact <lemma of Proofs/Server_proofs.v>`.

   Model: Model/Server.v.  A server is a step function over the events the kernel delivers
   (Connect c | Data c now bytes = one successful Read | Close c = EOF / reset / any read error | WriteErr c =
   from now on conn.Write on c fails: the peer stopped receiving), for any
   number of connections in any interleaving.  Every index, slice and pointer dereference of the
   per-connection code is evaluated with the CHECKED primitives (Panic beyond len / on nil), and a
   Panic anywhere is the outcome Crash (goroutine per connection, no recover).  The theorems say that
   Crash is unreachable and that connections cannot influence each other except through the session
   registry.

   evs : list sev is ANY event list: any bytes, any segmentation, any interleaving of connections,
   Close at any point, Data on connections never opened or already closed, empty reads. *)
From JT.Base Require Import Prelude.
From JT.Model Require Import Frame Unpack Subpkg Server.
From JT.Model Require Reply Attach Total_msgs.
From JT.Proofs Require Import Server_proofs.
From JT.Props Require C15.

(* ---------------- no panic in the JT808 server's connection code ---------------- *)
(* Crash = a Panic of the modelled code (index / slice out of range, nil dereference).  Death by resource
   exhaustion is outside the model: findings C10/808/memory-exhaustion, C10/808/unbounded-buffer, C10/att/unbounded-buffer *)
(* parse_all = false: default handlers; parse_all = true: handlers that Parse every body in the read
   callback (README pattern): location reports by the model of C08, the reply-path types by those of C06 /
   C15 / C16, every other registered type by C03's checked model of protocol/model (Total_msgs.parse_msg) *)
Theorem C10_808_no_crash : forall parse_all evs, outcome808 (run808 parse_all evs) <> Crash.
Proof. exact no_crash_808. Qed.
Print Assumptions C10_808_no_crash.

(* every id of createDefaultHandle has a model behind handler_parse_chk (7 by the location / reply-path models, 21 by
   C03's parse_msg): its "unknown id" answer is never what a registered type gets *)
Theorem C10_parse_all_covers_registered :
  forallb (fun id => special_id id || existsb (N.eqb id) Total_msgs.modelled_ids) (map fst Reply.default_handles) = true.
Proof. exact parse_all_covers_registered. Qed.
Print Assumptions C10_parse_all_covers_registered.

(* ---------------- no panic in the attachment server's connection code ---------------- *)
(* d = the configured dialect; the default data handler and the DEFAULT file handler (its OnEvent runs
   after every stage and once more when the connection ends, whatever the stage) *)
Theorem C10_att_no_crash : forall d evs, outcomeatt (runatt d evs) <> Crash.
Proof. exact no_crash_att. Qed.
Print Assumptions C10_att_no_crash.

(* ---------------- C10.9: at worst the offending connection is ended ---------------- *)
(* one event changes the state of the connection it belongs to and of no other: every other connection stays as it
   was (alive, same parser / handler / registry state), only the event's own connection can be added to the list of
   connections the server ended, everything written is written to it, and the process goes on *)
Theorem C10_808_event_is_local : forall parse_all s e, v_crashed s = false ->
  let s' := step808 parse_all s e in
  (forall c', c' <> ev_conn e -> cfind c' (v_conns s') = cfind c' (v_conns s)) /\
  (forall c', In c' (v_shut s') -> In c' (v_shut s) \/ c' = ev_conn e) /\
  (exists l, v_log s' = l ++ v_log s /\ Forall (fun x => fst x = ev_conn e) l) /\
  v_crashed s' = false.
Proof. exact step808_local. Qed.
Print Assumptions C10_808_event_is_local.
Theorem C10_att_event_is_local : forall d s e, a_crashed s = false ->
  let s' := stepatt d s e in
  (forall c', c' <> ev_conn e -> cfind c' (a_conns s') = cfind c' (a_conns s)) /\
  (exists l, a_log s' = l ++ a_log s /\ Forall (fun x => fst x = ev_conn e) l) /\
  a_crashed s' = false.
Proof. exact stepatt_local. Qed.
Print Assumptions C10_att_event_is_local.

(* ---------------- isolation ---------------- *)
(* attachment server: everything connection c' causes - the bytes written to it, whether its run() stopped reading after
   a fatal error, the directory and files its final event hands to os.WriteFile - does not depend on the events of
   any other connection c.  (What is on disk afterwards is the union of those writes: C10_att_saves_own_directory says
   they go under ./<terminal number of the connection's own last message>/, so only connections presenting the SAME
   terminal number can touch the same file - the attachment protocol has no registry and no authentication, the
   number is the identity.) *)
Theorem C10_isolation_att : forall d evs c c', c' <> c ->
  seenatt c' (runatt d evs) = seenatt c' (runatt d (without c evs)).
Proof. exact isolation_att. Qed.
Print Assumptions C10_isolation_att.

Theorem C10_att_saves_own_directory : forall c k dir files, In (c, ASaved dir files) (att_saves c k) ->
  exists m, Attach.s_recent k = Some m /\ dir = phone_of m /\
  forall p, In p files -> exists nm, JT.Model.Paths.accepted nm = true /\ fst p = JT.Model.Paths.save_path (phone_of m) nm.
Proof. exact att_saves_shape. Qed.
Print Assumptions C10_att_saves_own_directory.

(* JT808 server: the frames written to c' and whether the server ended c' do not depend on the events of
   c - provided that whenever another connection is served it has already joined the registry or c holds
   no key (iso_ok, computed along the run).  The only shared state is the session registry: a key held
   by c is refused to others (that is C11's subject); established sessions are never affected. *)
Theorem C10_isolation : forall parse_all evs c c', c' <> c -> iso_ok parse_all c init808 evs = true ->
  seen808 c' (run808 parse_all evs) = seen808 c' (run808 parse_all (without c evs)).
Proof. exact isolation_808. Qed.
Print Assumptions C10_isolation.

(* ESTABLISHED SESSIONS: from ANY state of a running server in which connection c has joined the registry,
   whatever all other connections do afterwards (any number of them, any bytes, any closes, hostile or not),
   c is written the same frames and is ended or not exactly as if its own events were the only ones.
   no_reconnect: the events contain no new Connect for the id c (a new connection is a new session). *)
Theorem C10_established_unaffected : forall parse_all s evs c,
  v_crashed s = false -> joined c s = true -> no_reconnect c evs = true ->
  seen808 c (fold_left (step808 parse_all) evs s) = seen808 c (fold_left (step808 parse_all) (only c evs) s).
Proof. exact established_alone. Qed.
Print Assumptions C10_established_unaffected.

(* ISOLATION ON THE JT808 SERVER, exact form.  The registry is part of the server state (a key is held by the
   live connection that joined under it: join on the first message of a registered type, refusal when another
   live connection holds the key, release when the connection ends - the mechanism of C11).  Removing every event
   of connection c changes nothing for any other connection, provided nobody claims a key while c OWNS it
   (unclaimed, computed along the run; claimed_key = the terminal number of the first message of a read that
   reaches the join).  c itself may claim anything, also the key of an established session: it is refused, owns
   nothing, and the hypothesis holds (C10_unclaimed_keyless, C10_established_unaffected).  The hypothesis cannot
   be dropped: C10_ownership_is_visible - the first owner of a key keeps it and a later claimant is ended, which
   is the registry working as C11 specifies (C11_refused_leaves_first_alone), not a containment failure. *)
Theorem C10_isolation_808 : forall parse_all evs c c', c' <> c -> unclaimed parse_all c init808 evs = true ->
  seen808 c' (run808 parse_all evs) = seen808 c' (run808 parse_all (without c evs)).
Proof. exact isolation_808_unclaimed. Qed.
Print Assumptions C10_isolation_808.

(* the registry inside the server state has the invariant C11 proves for its own model (C11_unique_owner): in
   every reachable state at most one live connection holds a given key *)
Theorem C10_registry_one_owner : forall parse_all evs c1 c2 k1 k2 key,
  cfind c1 (v_conns (run808 parse_all evs)) = Some k1 -> cfind c2 (v_conns (run808 parse_all evs)) = Some k2 ->
  k_key k1 = Some key -> k_key k2 = Some key -> c1 = c2.
Proof. exact registry_one_owner. Qed.
Print Assumptions C10_registry_one_owner.

(* a connection that owns no key at any time - it never joined, or whatever it claimed was refused - is unclaimed *)
Theorem C10_unclaimed_keyless : forall parse_all c evs s,
  never_owns parse_all c s evs = true -> unclaimed parse_all c s evs = true.
Proof. exact unclaimed_keyless. Qed.
Print Assumptions C10_unclaimed_keyless.

(* never_owns is about the prefixes of THIS run: after each of them c holds no key *)
Theorem C10_never_owns_meaning : forall parse_all c s evs, never_owns parse_all c s evs = true ->
  forall n, holds_no_key c (fold_left (step808 parse_all) (firstn n evs) s) = true.
Proof. exact never_owns_prefixes. Qed.
Print Assumptions C10_never_owns_meaning.

(* REFUSED => NEVER OWNS, for every event list: a connection that holds no key in s and whose every claim (claimed_key of
   each of its reads) is of a key in use at that moment - i.e. it is refused each time - satisfies never_owns; together
   with C10_keyless_connection_invisible: claimants of keys in use are invisible to everybody else *)
Theorem C10_refused_never_owns : forall parse_all c evs s, v_crashed s = false -> holds_no_key c s = true ->
  all_claims_refused parse_all c s evs = true -> never_owns parse_all c s evs = true.
Proof. exact refused_never_owns. Qed.
Print Assumptions C10_refused_never_owns.

(* a connection gains a key only through a read of its own that claims a key nobody else holds *)
Theorem C10_key_gained_only_by_free_claim : forall parse_all c s e, v_crashed s = false -> holds_no_key c s = true ->
  holds_no_key c (step808 parse_all s e) = false ->
  exists now d k key, e = Data c now d /\ cfind c (v_conns s) = Some k /\
                      claimed_key now k d = Some key /\ taken_by_others c (v_conns s) key = false.
Proof. exact step808_gain. Qed.
Print Assumptions C10_key_gained_only_by_free_claim.

(* hence: a hostile connection that owns no key during the run - whatever it sends, whatever keys it claims, however
   it ends - leaves no trace in what any other connection is written or in whether it is ended *)
Theorem C10_keyless_connection_invisible : forall parse_all evs c c', c' <> c ->
  never_owns parse_all c init808 evs = true ->
  seen808 c' (run808 parse_all evs) = seen808 c' (run808 parse_all (without c evs)).
Proof. exact isolation_808_keyless. Qed.
Print Assumptions C10_keyless_connection_invisible.

(* the registry consults at most one key per read: the one of the first message that reaches the join *)
Theorem C10_one_key_per_read : forall parse_all t1 t2 now k d,
  (forall key, claimed_key now k d = Some key -> t1 key = t2 key) ->
  conn_data parse_all t1 now k d = conn_data parse_all t2 now k d.
Proof. exact conn_data_claimed. Qed.
Print Assumptions C10_one_key_per_read.

(* a connection that never joins (garbage, broken frames, unknown ids, only 0x8003) satisfies iso_ok *)
Theorem C10_iso_unjoined : forall parse_all c evs s,
  never_owns parse_all c s evs = true -> iso_ok parse_all c s evs = true.
Proof. exact iso_ok_unjoined. Qed.
Print Assumptions C10_iso_unjoined.

(* ---------------- why Crash is unreachable: the checked code equals the models tied to the code ------ *)
(* packageParse.unpack with checked indexing = the splitter of C04 *)
Theorem C10_unpack_checked : forall h d, unpack_chk h d = Ok (unpack h d).
Proof. exact unpack_chk_ok. Qed.
Print Assumptions C10_unpack_checked.
(* completePack with checked slot indexing (seq-1; the first `sum` slots) = the reassembly of C05;
   in particular package number 0, total+1 and a total that changes between packets index nothing *)
Theorem C10_complete_pack_checked : forall now s m, complete_pack_chk now s m = Ok (complete_pack now s m).
Proof. exact complete_pack_chk_ok. Qed.
Print Assumptions C10_complete_pack_checked.
Theorem C10_parse_checked : forall now st d, parse_chk now st d = Ok (parse now st d).
Proof. exact parse_chk_ok. Qed.
Print Assumptions C10_parse_checked.
(* ReplyBody of every registered type with checked slices = the reply bodies of C06 *)
Theorem C10_reply_body_checked : forall k s m, reply_body_chk k s m = Ok (Reply.reply_body k s m).
Proof. exact reply_body_chk_ok. Qed.
Print Assumptions C10_reply_body_checked.
(* one read of a connection never panics, whatever the registry answers *)
Theorem C10_conn_total : forall parse_all taken now c d, conn_data parse_all taken now c d <> Panic.
Proof. exact conn_data_total. Qed.
Print Assumptions C10_conn_total.
(* the attachment connection's step with checked slices = the step of C15 *)
Theorem C10_att_step_checked : forall d s, step_chk d s = Ok (Attach.step d s).
Proof. exact step_chk_ok. Qed.
Print Assumptions C10_att_step_checked.
(* after every successful stage the default file handler finds what it dereferences *)
Theorem C10_att_file_handler : forall d s s', Attach.step d s = Attach.O_ok s' -> on_event_chk d s' = Ok tt.
Proof. exact on_event_after_step. Qed.
Print Assumptions C10_att_file_handler.
Theorem C10_att_feed_checked : forall d s seg,
  feed_chk d s seg = Ok (snd (fst (fst (Attach.feed d s seg))), snd (fst (Attach.feed d s seg)), snd (Attach.feed d s seg)).
Proof. exact feed_chk_ok. Qed.
Print Assumptions C10_att_feed_checked.

(* ---------------- the model can express a crash: what the pinned tree did ---------------- *)
(* the checked primitives do yield Panic where the guard is missing: indexing slot seq-1 = -1 of the
   pinned completePack, and the default file handler entered in stage "supplementary" with no current
   package (0x1210 then 0x1212 before the repair 79eb06f) *)
Example C10_unguarded_slot_panics : set_nth_chk (N.to_nat (0 - 1)) [1] ([] : list (list N)) = Panic.
Proof. reflexivity. Qed.
(* ... and slot 3 of a two-slot table (packet 1 of 2, then "packet 3 of 3" of the same id): what a guard on the
   frame's own total instead of the table's length would index; complete_pack_chk answers both from the table's length *)
Example C10_slot_beyond_table_panics : set_nth_chk (N.to_nat (3 - 1)) [3] [[1; 2]; []] = Panic.
Proof. reflexivity. Qed.
Example C10_file_handler_can_panic :
  on_event_chk 1 (Attach.set_stage Attach.init_st Attach.ST_SUPPL) = Panic.
Proof. reflexivity. Qed.

(* ---------------- non-vacuity: concrete hostile scripts ---------------- *)
(* connection 1 sends the "package 0 of 3" frame (valid: C10_ex_pkg0_valid), then garbage, and is closed; connection 2 (a
   heartbeat from terminal 012345678901) is answered with platform serial 0 with and without it *)
Definition ex_pkg0 : list N :=
  [126; 2; 0; 32; 1; 1; 35; 69; 103; 137; 2; 0; 1; 0; 3; 0; 0; 7; 173; 126].
Definition ex_hb : list N := [126; 0; 2; 0; 0; 1; 35; 69; 103; 137; 1; 0; 1; 139; 126].
Definition ex_evs : list sev :=
  [Connect 2; Data 2 0 ex_hb; Connect 1; Data 1 0 ex_pkg0; Data 1 5 [126; 1; 2; 126]; Data 2 9 ex_hb; Close 1].
Example C10_ex_pkg0_valid :
  match decode ex_pkg0 with Ok m => (m_id m, m_sum m, m_no m) = (512, 3, 0) | _ => False end.
Proof. vm_compute. reflexivity. Qed.
Example C10_ex_808 :
  outcome808 (run808 false ex_evs) = Running /\
  iso_ok false 1 init808 ex_evs = true /\
  snd (seen808 1 (run808 false ex_evs)) = true /\
  map o_seq (fst (seen808 2 (run808 false ex_evs))) = [0; 1] /\
  seen808 2 (run808 false ex_evs) = seen808 2 (run808 false (without 1 ex_evs)).
Proof. vm_compute. repeat split; reflexivity. Qed.

(* why C10_isolation_808 needs its hypothesis: connection 1 joins first under terminal 012345678901 and OWNS the
   key; connection 2 then claims the same number and is ended; without connection 1 it is served *)
Example C10_ownership_is_visible :
  let evs := [Connect 1; Data 1 0 ex_hb; Connect 2; Data 2 0 ex_hb] in
  unclaimed false 1 init808 evs = false /\
  snd (seen808 2 (run808 false evs)) = true /\ snd (seen808 2 (run808 false (without 1 evs))) = false /\
  (* the other way round the claimant is refused and the owner is untouched *)
  unclaimed false 2 init808 evs = true /\
  seen808 1 (run808 false evs) = seen808 1 (run808 false (without 2 evs)).
Proof. vm_compute. repeat split; reflexivity. Qed.

(* a REFUSED claimant satisfies the hypotheses: connection 1 owns terminal 012345678901; connections 2 and 3 claim
   the same number, each is ended and never owns a key; removing connection 2 changes nothing for 1 and 3 *)
Example C10_refused_claimant :
  let evs := [Connect 1; Data 1 0 ex_hb; Connect 2; Data 2 0 ex_hb; Data 1 9 ex_hb; Connect 3; Data 3 4 ex_hb; Data 2 5 ex_hb] in
  never_owns false 2 init808 evs = true /\ unclaimed false 2 init808 evs = true /\
  snd (seen808 2 (run808 false evs)) = true /\ snd (seen808 3 (run808 false evs)) = true /\
  map o_seq (fst (seen808 1 (run808 false evs))) = [0; 1] /\
  seen808 1 (run808 false evs) = seen808 1 (run808 false (without 2 evs)) /\
  seen808 3 (run808 false evs) = seen808 3 (run808 false (without 2 evs)).
Proof. vm_compute. repeat split; reflexivity. Qed.

(* a client that pipelines heartbeats, stops receiving (every later conn.Write fails) and goes away: the
   writer logs the errors and carries on, nothing is delivered any more, nobody panics *)
Example C10_ex_write_fails :
  let evs := [Connect 3; Data 3 0 (ex_hb ++ ex_hb); WriteErr 3; Data 3 0 (ex_hb ++ ex_hb ++ ex_hb); Close 3] in
  outcome808 (run808 false evs) = Running /\ map o_seq (fst (seen808 3 (run808 false evs))) = [0; 1].
Proof. vm_compute. split; reflexivity. Qed.

(* attachment: connect-and-close, and a 0x1212 for a file that was never announced, next to nothing else *)
Example C10_ex_att :
  outcomeatt (runatt 1 [Connect 1; Close 1; Connect 2; Data 2 0 [48; 49; 99; 100]; Close 2]) = Running.
Proof. vm_compute. reflexivity. Qed.

(* attachment server, the new observations: connection 1 does the two-file upload of Props/C15 (dialect 1) and closes -
   its final event stores ./12345678901/A = 01 02 03 04 05 and ./12345678901/B = 7e; connection 2 sends a heartbeat
   (an id the attachment server does not know: fatal) - its run() stops, nothing is stored; neither sees the other *)
Example C10_ex_att_saved_and_stopped :
  let evs := [Connect 1; Connect 2; Data 1 0 C15.ex_stream; Data 2 0 ex_hb; Close 1; Close 2] in
  outcomeatt (runatt 1 evs) = Running /\
  existsb (fun o => match o with
                    | ASaved dir files => list_eqb dir [49; 50; 51; 52; 53; 54; 55; 56; 57; 48; 49] &&
                                          (Nat.eqb (length files) 2) &&
                                          list_eqb (snd (hd ([], []) files)) [1; 2; 3; 4; 5]
                    | _ => false end) (seenatt 1 (runatt 1 evs)) = true /\
  seenatt 2 (runatt 1 evs) = [AWrite []; AStopped] /\
  seenatt 1 (runatt 1 evs) = seenatt 1 (runatt 1 (without 2 evs)) /\
  seenatt 2 (runatt 1 evs) = seenatt 2 (runatt 1 (without 1 evs)).
Proof. vm_compute. repeat split; reflexivity. Qed.

(* an established session: after its first heartbeat connection 1 has joined; whatever connections 2 and 3 do next,
   connection 1 sees what it would see alone (hypotheses of C10_established_unaffected, computed) *)
Example C10_ex_established :
  let s := run808 false [Connect 1; Data 1 0 ex_hb] in
  let evs := [Connect 2; Data 2 0 ex_hb; Data 1 3 ex_hb; Connect 3; Data 3 0 ex_pkg0; Data 3 1 [126; 1; 126]; Data 1 9 ex_hb; Close 2] in
  v_crashed s = false /\ joined 1 s = true /\ no_reconnect 1 evs = true /\
  map o_seq (fst (seen808 1 (fold_left (step808 false) evs s))) = [0; 1; 2] /\
  seen808 1 (fold_left (step808 false) evs s) = seen808 1 (fold_left (step808 false) (only 1 evs) s).
Proof. vm_compute. repeat split; reflexivity. Qed.

(* C10_refused_never_owns on the refused claimants of C10_refused_claimant (hypotheses computed) *)
Example C10_ex_all_claims_refused :
  let evs := [Connect 1; Data 1 0 ex_hb; Connect 2; Data 2 0 ex_hb; Data 1 9 ex_hb; Connect 3; Data 3 4 ex_hb; Data 2 5 ex_hb] in
  all_claims_refused false 2 init808 evs = true /\ all_claims_refused false 3 init808 evs = true /\
  all_claims_refused false 1 init808 evs = false.
Proof. vm_compute. repeat split; reflexivity. Qed.

(* the model witness of finding C10/att/same-phone-overwrite: two connections of the same terminal number do the same
   upload one after the other; both final events hand os.WriteFile the SAME paths - the second overwrites the first *)
Example C10_ex_same_phone_same_path :
  let evs := [Connect 1; Data 1 0 C15.ex_stream; Close 1; Connect 2; Data 2 0 C15.ex_stream; Close 2] in
  let paths c := flat_map (fun o => match o with ASaved _ files => map fst files | _ => [] end) (seenatt c (runatt 1 evs)) in
  outcomeatt (runatt 1 evs) = Running /\ length (paths 1) = 2%nat /\ paths 1 = paths 2.
Proof. vm_compute. repeat split; reflexivity. Qed.

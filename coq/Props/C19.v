(* C19 — stored attachments stay inside the terminal's directory.
   Only statements here; every proof is `exact <lemma of Proofs/Paths_proofs>`.
   [save_path]/[accepted]/[writes] model the success-quit branch of the default file handler
   (attachment/file_event.go) with the repaired name filter (fix ec3ce4e); [resolve] is the lexical
   resolution of "/", "." and ".." against the working directory.  Symbolic links that already
   exist below the working directory are outside this lexical model (trusted base). *)
From JT.Base Require Import Prelude.
From JT.Model Require Import Paths.
From JT.Proofs Require Import Paths_proofs.

(* for ALL phone / name strings: whatever the handler writes resolves to <cwd>/<phone>/<name> *)
Theorem C19_confined_eq : forall cwd phone name, phone_chars phone -> accepted name = true ->
  resolve cwd (save_path phone name) = cwd ++ [phone; name].
Proof. exact confined_eq. Qed.
Print Assumptions C19_confined_eq.

Theorem C19_confined : forall cwd phone name, phone_chars phone -> accepted name = true ->
  inside (cwd ++ [phone]) (resolve cwd (save_path phone name)).
Proof. exact confined. Qed.
Print Assumptions C19_confined.

(* every os.WriteFile path of a session, for any list of announced names *)
Theorem C19_writes_confined : forall cwd phone names p, phone_chars phone ->
  In p (writes phone names) -> inside (cwd ++ [phone]) (resolve cwd p).
Proof. exact writes_confined. Qed.
Print Assumptions C19_writes_confined.

(* distinct stored names are distinct files: the filter rejects, it does not merge *)
Theorem C19_writes_injective : forall cwd phone n1 n2, phone_chars phone ->
  accepted n1 = true -> accepted n2 = true ->
  resolve cwd (save_path phone n1) = resolve cwd (save_path phone n2) -> n1 = n2.
Proof. exact writes_injective. Qed.
Print Assumptions C19_writes_injective.

(* the hypothesis on the directory name is met by every terminal phone number the frame decoder
   can produce (bcd2dec of the 6 or 10 BCD bytes of a header) *)
Theorem C19_phone_of_chars : forall l, bytes l -> l <> [] -> phone_chars (bcd2dec l).
Proof. exact phone_of_chars. Qed.
Print Assumptions C19_phone_of_chars.

(* the filter rejects nothing but what cannot be stored as one plain component (or contains '\') *)
Theorem C19_filter_tight : forall name, plain name -> Forall (fun c => c <> BACKSLASH) name ->
  accepted name = true.
Proof. exact plain_accepted. Qed.
Print Assumptions C19_filter_tight.

(* the filter is necessary: the unfiltered path of "../x" resolves beside the terminal directory
   (what the pinned tree did) *)
Theorem C19_unfiltered_escapes : forall cwd phone, phone_chars phone ->
  resolve cwd (save_path phone [DOT; DOT; SLASH; 120]) = cwd ++ [[120]] /\
  ~ inside (cwd ++ [phone]) (cwd ++ [[120]]).
Proof. exact unfiltered_escapes. Qed.
Print Assumptions C19_unfiltered_escapes.

(* non-vacuity *)
Example C19_example :
  phone_chars [49; 51; 56] /\ accepted [97; 46; 106; 112; 103] = true /\
  accepted [DOT; DOT; SLASH; 120] = false /\ accepted [SLASH; 101] = false /\ accepted [DOT; DOT] = false /\
  resolve [[119]] (save_path [49; 51; 56] [97]) = [[119]; [49; 51; 56]; [97]] /\
  resolve [[119]] [SLASH; 101; SLASH; DOT; DOT; SLASH; DOT; DOT; SLASH; 102] = [[102]].
Proof. repeat split; try reflexivity. discriminate. Qed.

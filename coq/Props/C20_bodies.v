(* C20 — default bodies (separate file: it rests on C07's message models, Model/Msg_all.v).
   Only statements here; every proof is `exact <lemma of Proofs/Sim_bodies_proofs.v>`. *)
From JT.Base Require Import Prelude Fmt.
From JT.Model Require Import Msg_all Sim.
From JT.Proofs Require Import Sim_bodies_proofs.

(* the body of every default frame parses without error with the model of the matching message type
   and the parsed value re-encodes to the identical bytes — all 3 versions x 24 commands *)
Theorem C20_default_bodies : forall ver cmd b, default_body ver cmd = Some b ->
  exists M v, msg_all idconv idconv anydom cmd (hv ver) 0 = Some M /\
              m_dec M b = Ok v /\ m_enc M v = b.
Proof. exact default_bodies_parse_and_reencode. Qed.
Print Assumptions C20_default_bodies.

(* and every supported command has a default body in every version *)
Theorem C20_default_bodies_complete :
  forallb (fun ver => forallb (fun cmd => match default_body ver cmd with Some _ => true | None => false end)
                              (map fst sim_handles)) [V2011; V2013; V2019] = true.
Proof. exact default_bodies_complete. Qed.
Print Assumptions C20_default_bodies_complete.

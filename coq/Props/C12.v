(* C12 — platform commands are matched with their own responses.

   Model: Model/Writer.v (one connection with its reader, writer, timers, the session manager's
   queue and the callers; a schedule is a list of choices, disabled choices are skipped, so
   `forall sched` is every interleaving of every number of calls, terminal messages, timer expiries
   and disconnects).  s0 is the value of the platform serial counter when the connection starts.

   no_reuse tr: no serial was handed out while a command, timer or timeout message still carried it.
   C12_no_reuse_when_few_frames proves it for every run with at most 65 536 frames on the connection,
   C12_no_reuse_holds_across_wrap shows a run that wraps and satisfies it, and C12_refuted_reuse is the run
   in which it fails (one command outstanding while the counter goes once round): there the older caller is
   never answered, not even by the disconnect; C12_refuted_reuse_timer is the variant with timers, in which
   the newer caller is answered by the older command's timer.  Recorded as finding C12/serial-reuse.
   Without the hypothesis there remain: the serial sequence, the other-traffic prefix/equality, no crash, and
   nobody is answered twice (C12_at_most_one_result). *)
From Coq Require Import List NArith Bool Arith.
From JT.Base Require Import Sched.
From JT.Model Require Import Writer.
From JT.Proofs Require Import Writer_proofs Writer_trace.
Import ListNotations.
Open Scope N_scope.

(* Every frame handed to the socket (command, automatic reply or re-request) carries the next serial, mod
   65536; frames less than 65536 apart carry different serials.  Under no_reuse: a command is handed to the
   socket AT MOST once, after its call was made, and conn.Write fails only once the terminal is gone or this
   side has closed the socket.  "At least once" is C12_written_at_least_once. *)
Theorem C12_written_once_fresh_serial : forall s0 sched, s0 < 65536 ->
  let tr := trace step (init s0) sched in
  (forall j x, nth_error (serials tr) j = Some x -> x = (s0 + N.of_nat j) mod 65536) /\
  (forall j j' x x', (j < j')%nat -> N.of_nat j' < N.of_nat j + 65536 ->
     nth_error (serials tr) j = Some x -> nth_error (serials tr) j' = Some x' -> x <> x') /\
  (no_reuse tr ->
     NoDup (written tr) /\
     forall a k c ok b, tr = a ++ OWrite k c ok :: b ->
       In (OCall c) a /\ ~ In (c_id c) (written a) /\ (ok = false -> In OPeerClose a \/ In OStop a)).
Proof.
  intros s0 sched Hs tr. split; [|split].
  - intros j x H. rewrite <- nth_serial_mod by auto. eapply serials_all; eauto.
  - intros j j' x x' H1 H2 Hx Hx'.
    rewrite (serials_all _ _ _ _ Hx), (serials_all _ _ _ _ Hx'). now apply nth_serial_fresh.
  - intros Hnr. split; [now apply written_once_all|].
    intros a k c ok b E. exact (justified_split _ _ _ _ (justified_all s0 sched Hnr) E).
Qed.
Print Assumptions C12_written_once_fresh_serial.

(* A call gets AT MOST one result - without any hypothesis (C12_at_most_one_result below).  Under no_reuse:
   only calls that were made get one, and AT LEAST one in
   every quiescent state (no process of the server can move; C13_quiescent_reached: such a state is reached
   from every state within [measure s] server steps): there every call has its result — except a command sent WITHOUT a timeout
   (OverTimeDuration < 0) that waits for its response on a live, idle connection. *)
Theorem C12_exactly_one_result : forall s0 sched,
  let s := final step (init s0) sched in let tr := trace step (init s0) sched in
  no_reuse tr ->
  NoDup (returned tr) /\
  (forall i, In i (returned tr) -> exists c, In (OCall c) tr /\ c_id c = i) /\
  (quiescent s -> forall c, In (OCall c) tr ->
     (exists r, In (OReturn (c_id c) r) tr) \/
     (exists k c', In (k, c') (rec s) /\ c_id c' = c_id c /\ c_tmo c' = false /\
                   stop_closed s = false /\ rd s = RRun /\ wr s = WsRun)).
Proof.
  intros s0 sched s tr Hnr. destruct (one_result_all s0 sched Hnr) as [H1 H2].
  split; [exact H1|]. split; [exact H2|].
  intros Q c Hc. destruct (quiescent_all s0 sched Hnr Q c Hc) as [H|H]; [left | right; exact H].
  now apply returned_in.
Qed.
Print Assumptions C12_exactly_one_result.

(* Nobody is answered twice, in any schedule, with or without serial reuse (a reused serial LOSES a caller,
   C12_refuted_reuse; it never duplicates an answer). *)
Theorem C12_at_most_one_result : forall s0 sched, NoDup (returned (trace step (init s0) sched)).
Proof. exact nodup_returned_all. Qed.
Print Assumptions C12_at_most_one_result.

(* What a caller gets is its own:
   - a response m: the writer has just taken m from msgChan, the command of this very call was written
     before with serial k, and m echoes k (0x1003, which carries no serial: the call is a 0x9003 query);
   - a timeout: the command of this call was written with serial k, after that its own timer fired and
     no response echoing k was taken from msgChan in between;
   - a write failure: conn.Write of this call's OWN command has just failed (which by
     C12_written_once_fresh_serial happens only after the terminal went away or the socket was closed);
   - ErrNotExistKey: at that moment the registry does not route the key to this connection: it has not joined
     (yet), or it has left - stop() leaves first, so this covers the commands answered by the teardown.
     A caller whose terminal is registered for the whole call never gets it.
   (under no_reuse) *)
Theorem C12_own_response : forall s0 sched, let tr := trace step (init s0) sched in
  no_reuse tr ->
  forall a i r b, tr = a ++ OReturn i r :: b ->
    match r with
    | RResp m => exists k c a', c_id c = i /\ In (OWrite k c true) a /\ answers m k c = true /\
                                a = a' ++ [OSeen m]
    | RTimeout => exists k c a1 a2, c_id c = i /\ a = a1 ++ OWrite k c true :: a2 /\
                                    In (OFire i) a2 /\ noseen k a2
    | RWriteFail => exists k c a', c_id c = i /\ a = a' ++ [OWrite k c false]
    | RNoExist => registered_after a = false
    end.
Proof.
  intros s0 sched tr Hnr a i r b E.
  pose proof (justified_split _ _ _ _ (justified_all s0 sched Hnr) E) as H.
  destruct r; exact H.
Qed.
Print Assumptions C12_own_response.

(* The liveness half of "written exactly once": in a quiescent state every call's command has been handed to
   the socket, unless the call was answered ErrNotExistKey (by C12_own_response: only while the key is not
   routed to this connection).  So a command to a terminal that stays online IS written. *)
Theorem C12_written_at_least_once : forall s0 sched,
  let s := final step (init s0) sched in let tr := trace step (init s0) sched in
  no_reuse tr -> quiescent s ->
  forall c, In (OCall c) tr -> In (c_id c) (written tr) \/ In (OReturn (c_id c) RNoExist) tr.
Proof. exact written_at_least_once_all. Qed.
Print Assumptions C12_written_at_least_once.

(* Terminal traffic that is not a response is answered in between: the automatic replies are, in order,
   replies to the messages the terminal sent that want one (nothing invented, nothing answered twice or out
   of order); (under no_reuse) each reply is written in the step in which the writer took the message, which
   the terminal had sent; and in a quiescent state of a connection that is still up every such message has its reply. *)
Theorem C12_other_traffic_answered : forall s0 sched,
  let s := final step (init s0) sched in let tr := trace step (init s0) sched in
  (exists rest, replied_tags tr ++ rest = sent_tags tr) /\
  (quiescent s -> stop_closed s = false -> replied_tags tr = sent_tags tr) /\
  (no_reuse tr -> forall a k m ok b, tr = a ++ OReply k m ok :: b ->
     (exists a', a = a' ++ [OSeen m]) /\ In (OSent m) a).
Proof.
  intros s0 sched s tr. destruct (other_traffic_all s0 sched) as [H1 H2].
  split; [exact H1|]. split; [exact H2|].
  intros Hnr a k m ok b E. pose proof (justified_all s0 sched Hnr) as HJ.
  pose proof (justified_split _ _ _ _ HJ E) as [a' Ha]. split; [now exists a'|].
  subst a. rewrite <- app_assoc in E. simpl in E.
  pose proof (justified_split _ _ _ _ HJ E) as Hs. simpl in Hs.
  apply in_app_iff. now left.
Qed.
Print Assumptions C12_other_traffic_answered.

(* The hypothesis no_reuse holds on every run in which at most 65 536 frames (commands and automatic replies)
   were handed to the socket of this connection: a structural, decidable sufficient condition. *)
Theorem C12_no_reuse_when_few_frames : forall s0 sched, s0 < 65536 ->
  let tr := trace step (init s0) sched in
  N.of_nat (length (serials tr)) <= 65536 -> no_reuse tr.
Proof. exact no_reuse_if_few_frames. Qed.
Print Assumptions C12_no_reuse_when_few_frames.

(* ---- the hypotheses are satisfiable, also across the wrap of the serial counter ---- *)
Definition up : list choice := [PeerSend (TOther 7 true); RdRead; MgrStep JOk; RdPush; WMsg 0 true].

(* counter at 65535: reply 65535, commands 0 and 1; answered in the opposite order; both callers get their own *)
Example C12_wrap_run :
  trace step (init 65535)
    (up ++ [Call 33027 true; Call 33028 true; MgrStep JOk; MgrStep JOk; WAct true; WAct true;
            PeerSend (TResp 260 1); PeerSend (TResp 1 0); RdRead; RdPush; RdRead; RdPush;
            WMsg 0 true; WMsg 0 true; TQuit 0; TSend 0; TSend 1; WCpl; WCpl]) =
  [OSent (TOther 7 true); OReg true; OSeen (TOther 7 true); OReply 65535 (TOther 7 true) true;
   OCall {| c_id := 0; c_cmd := 33027; c_tmo := true |}; OCall {| c_id := 1; c_cmd := 33028; c_tmo := true |};
   OWrite 0 {| c_id := 0; c_cmd := 33027; c_tmo := true |} true;
   OWrite 1 {| c_id := 1; c_cmd := 33028; c_tmo := true |} true;
   OSent (TResp 260 1); OSent (TResp 1 0);
   OSeen (TResp 260 1); OReturn 1 (RResp (TResp 260 1));
   OSeen (TResp 1 0); OReturn 0 (RResp (TResp 1 0));
   OFire 0; OFire 1].
Proof. vm_compute. reflexivity. Qed.

Example C12_no_reuse_holds_across_wrap :
  no_reuse (trace step (init 65535)
    (up ++ [Call 33027 true; Call 33028 true; MgrStep JOk; MgrStep JOk; WAct true; WAct true;
            PeerSend (TResp 260 1); PeerSend (TResp 1 0); RdRead; RdPush; RdRead; RdPush;
            WMsg 0 true; WMsg 0 true; TSend 0; TSend 1; WCpl; WCpl])).
Proof. vm_compute. intuition discriminate. Qed.

(* a quiescent state with everything answered *)
Example C12_quiescent_reachable :
  quiescent (final step (init 0) (up ++ [Call 33027 true; MgrStep JOk; WAct true; TSend 0; WCpl])).
Proof.
  intros c Hc. destruct c; try discriminate Hc; reflexivity.
Qed.

(* the exception of C12_exactly_one_result is real: a command without timeout, a silent terminal, everybody idle *)
Example C12_no_timeout_waits :
  let s := final step (init 0) (up ++ [Call 33027 false; MgrStep JOk; WAct true]) in
  quiescent s /\ rec s = [(1, {| c_id := 0; c_cmd := 33027; c_tmo := false |})] /\ stop_closed s = false.
Proof.
  split; [|split; reflexivity].
  intros c Hc. destruct c; try discriminate Hc; reflexivity.
Qed.

(* ---- why no_reuse is a hypothesis: the run in which it fails ----
   Command 0 (no timeout) is written with serial 1 and never answered; 65 535 heartbeats later the counter is
   at 1 again and command 1 is written with serial 1: record[1] is overwritten (OReuse).  The terminal
   disconnects: onStopEvent answers what is in the record - call 1 - and call 0 is never answered, although the
   final state is quiescent.  Confirmed on the socket (harness scenario `reuse`, thorough tier); finding
   C12/serial-reuse in known_findings.json. *)
Definition beat : list choice := [PeerSend (TOther 0 true); RdRead; RdPush; WMsg 0 true].
Fixpoint beats (n : nat) : list choice := match n with O => [] | S m => beat ++ beats m end.
Definition hb (s : st) : st := final step s beat.
Definition reuse_prefix : list choice := up ++ [Call 33027 false; MgrStep JOk; WAct true].
Definition reuse_suffix : list choice :=
  [Call 33028 false; MgrStep JOk; WAct true;
   PeerClose; RdFail; MgrStep JOk; RdClose; RdClose; RdClose; RdClose; WStop; WDrain].

Lemma iter_shift : forall (f : st -> st) n x, Nat.iter n f (f x) = f (Nat.iter n f x).
Proof. induction n as [|n IH]; intros x; simpl; [reflexivity | now rewrite IH]. Qed.

Lemma final_beats : forall n s, final step s (beats n) = Nat.iter n hb s.
Proof.
  induction n as [|n IH]; intros s; [reflexivity|].
  change (beats (S n)) with (beat ++ beats n). rewrite final_app, IH.
  change (final step s beat) with (hb s). exact (iter_shift hb n s).
Qed.

(* One heartbeat on a joined, idle connection advances the serial counter and changes nothing else; so the
   65 535 heartbeats between the two commands are not evaluated one by one. *)
Definition idle (s : st) : Prop :=
  inQ s = [] /\ peer_closed s = false /\ rd s = RRun /\ joined s = true /\ msgQ s = mkchan cap_msg /\
  conn_closed s = false /\ wr s = WsRun.

Lemma hb_idle : forall s, idle s -> hb s = set_seq s (next_serial (seq s)).
Proof.
  intros s (H1 & H2 & H3 & H4 & H5 & H6 & H7). destruct s; simpl in *; subst. reflexivity.
Qed.

Lemma iter_hb_idle : forall n s, idle s -> Nat.iter n hb s = set_seq s (Nat.iter n next_serial (seq s)).
Proof.
  induction n as [|n IH]; intros s Hi.
  - destruct s; reflexivity.
  - simpl. rewrite IH by assumption. rewrite hb_idle by exact Hi. reflexivity.
Qed.

Lemma many_beats : forall n s, idle s ->
  final step s (beats (N.to_nat n)) = set_seq s (N.iter n next_serial (seq s)).
Proof.
  intros n s Hi. rewrite final_beats, iter_hb_idle by assumption. now rewrite <- N2Nat.inj_iter.
Qed.

Theorem C12_refuted_reuse :
  let s2 := final step (init 0) (reuse_prefix ++ beats (N.to_nat 65535)) in
  let r := run step s2 reuse_suffix in
  rec s2 = [(1, {| c_id := 0; c_cmd := 33027; c_tmo := false |})] /\ seq s2 = 1 /\
  In OReuse (snd r) /\ returns (snd r) = [(1%nat, RNoExist)] /\ ncalls (fst r) = 2%nat /\
  rd (fst r) = RDone /\ wr (fst r) = WsExit /\ mgrQ (fst r) = [] /\ rec (fst r) = [] /\ timers (fst r) = [] /\
  quiescent (fst r).
Proof.
  intros s2 r.
  assert (E : s2 = set_seq (final step (init 0) reuse_prefix)
                           (N.iter 65535 next_serial (seq (final step (init 0) reuse_prefix)))).
  { unfold s2. rewrite final_app. apply many_beats. repeat split; reflexivity. }
  unfold r. rewrite E. clear E. clearbody s2.
  repeat (split; [vm_compute; auto 6|]).
  apply quiescentb_true. vm_compute. reflexivity.
Qed.

(* The same with timers: command 0 HAS a timeout (its timer sleeps), the counter goes round, command 1 (also
   with a timeout) is written with command 0's serial and overwrites it.  Then command 0's timer fires: its
   timeout message carries the shared serial and completes command 1 - caller 1 gets a timeout from a FOREIGN
   timer (early, if its own duration is longer), caller 0 is never answered, command 1's own timer finds
   nothing, and the final state is quiescent with the connection still up.  (The trace of the last seven
   choices: the call, the reuse, the write with serial 1, timer 0 fires, caller 1 gets the timeout, timer 1
   fires into the void.) *)
Definition reuse_timer_suffix : list choice :=
  [Call 33028 true; MgrStep JOk; WAct true; TSend 0; WCpl; TSend 1; WCpl].

Theorem C12_refuted_reuse_timer :
  let s2 := final step (init 0) (up ++ [Call 33027 true; MgrStep JOk; WAct true] ++ beats (N.to_nat 65535)) in
  let r := run step s2 reuse_timer_suffix in
  let c1 := {| c_id := 1; c_cmd := 33028; c_tmo := true |} in
  rec s2 = [(1, {| c_id := 0; c_cmd := 33027; c_tmo := true |})] /\ timers s2 = [(0%nat, 1)] /\ seq s2 = 1 /\
  snd r = [OCall c1; OReuse; OWrite 1 c1 true; OFire 0; OReturn 1 RTimeout; OFire 1] /\
  ncalls (fst r) = 2%nat /\ stop_closed (fst r) = false /\ quiescent (fst r).
Proof.
  intros s2 r c1.
  assert (E : s2 = set_seq (final step (init 0) (up ++ [Call 33027 true; MgrStep JOk; WAct true]))
                 (N.iter 65535 next_serial (seq (final step (init 0) (up ++ [Call 33027 true; MgrStep JOk; WAct true]))))).
  { unfold s2. rewrite app_assoc, final_app. apply many_beats. repeat split; reflexivity. }
  unfold r, c1. rewrite E. clear E. clearbody s2.
  repeat (split; [vm_compute; auto|]).
  apply quiescentb_true. vm_compute. reflexivity.
Qed.
